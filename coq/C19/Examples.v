(* Non-vacuity for the C19 theorems. *)
From V Require Import Common.Base C18.Pieces C19.Metafile C19.MetafileProofs.

Definition ex_prefix : bytes := [80;81;82;83].
Definition ex_key_c1 : bytes := ex_prefix ++ [67;48;48;48;48;48;48;48;49].
Definition ex_path (k i : Z) : bytes := [46;47;120;45;72;46;106;115].     (* ./x-H.js *)
Definition ex_segs : list segment :=
  [(None, [47;47;32;97;10]); (Some 3, [105;40] ++ ex_key_c1 ++ [41;59;10]); (None, [10]); (Some 5, [120;10]); (Some 3, [121;10])].

(* the hypothesis of inputs_sum_le_total holds here: splitting the whole = gluing the splits *)
Example ex_clean : break_output ex_prefix 1 2 (joined ex_segs) = Some (pieces_of_segs ex_prefix 1 2 ex_segs).
Proof. vm_compute. reflexivity. Qed.
Example ex_inputs : output_inputs ex_prefix 1 2 ex_path ex_segs = [(3, 15); (5, 2)].
Proof. vm_compute. reflexivity. Qed.
Example ex_total : total_bytes ex_prefix 1 2 ex_path ex_segs [] = 23.
Proof. vm_compute. reflexivity. Qed.
Example ex_paths_nonempty : forall k i, is_ref k = true -> ex_path k i <> [].
Proof. intros; discriminate. Qed.
Example ex_outs : list_outputs [] [([97], [1]); ([98], []); ([97], [2]); ([98], [3])] = [([97], [1]); ([98], [3])].
Proof. vm_compute. reflexivity. Qed.

(* ---- JSON / structure layers ---- *)
From Coq Require Import String.
From V Require Import C19.Json C19.JsonSpec C19.JsonProofs C19.Layout C19.LayoutProofs C19.SubstProofs C19.Doc C19.DocProofs.

Ltac solve_ok :=
  repeat match goal with
         | |- _ /\ _ => split
         | |- True => exact I
         | |- lj_ok _ _ => progress cbn [lj_ok ls_ok fst snd]
         | |- paths_ok _ _ _ => unfold paths_ok, path_ok
         | |- bytes_ok ?l => unfold bytes_ok; let v := eval vm_compute in l in change l with v; repeat constructor; lia
         | |- raw_ok _ => unfold raw_ok
         | |- num_ok _ => unfold num_ok; lia
         | |- _ \/ _ => left; reflexivity
         | |- _ = _ => reflexivity
         end.

(* a, DQUOTE, U+2028, U+1F600, LF, a WTF-8 high surrogate: hypotheses of json_quote_roundtrip, and its conclusion evaluated *)
Definition ex_text : bytes := [97; 34; 226; 128; 168; 240; 159; 152; 128; 10; 237; 160; 189].
Example ex_text_ok : bytes_ok (ex_text ++ [255]).
Proof. solve_ok. Qed.
Example ex_text_quoted : quote_for_json false ex_text =
  [34; 97; 92; 34; 226; 128; 168; 240; 159; 152; 128; 92; 110; 92; 117; 68; 56; 51; 68; 34].
Proof. vm_compute. reflexivity. Qed.
Example ex_text_back : jstring (quote_for_json true ex_text) = Some ([97; 34; 8232; 55357; 56832; 10; 55357], []).
Proof. vm_compute. reflexivity. Qed.

(* an invalid byte is written as an escaped U+FFFD under both charsets *)
Example ex_invalid_byte : quote_for_json false [97; 255] = [34; 97; 92; 117; 70; 70; 70; 68; 34]
  /\ jstring (quote_for_json false [97; 255]) = Some ([97; 65533], []).
Proof. split; vm_compute; reflexivity. Qed.
(* hypotheses of final_path_roundtrip: a path with quotation mark, backslash, TAB and a two-byte character *)
Example ex_path_ok : path_ok ([100; 34; 113; 92; 9; 195; 169]) /\
  escape_final [100; 34; 113; 92; 9; 195; 169] = [100; 92; 34; 113; 92; 92; 92; 117; 48; 48; 48; 57; 195; 169].
Proof. split; [unfold path_ok; solve_ok|vm_compute; reflexivity]. Qed.

(* a build with two chunks (0 imports 1 dynamically and an external package), an
   asset-free CSS bundle reference and one input: hypotheses of metafile_faithful *)
Definition ex_pfx : bytes := [80; 81; 82; 83].
(* the final path of chunk 1 contains a quotation mark, a backslash and a TAB *)
Definition ex_out (k i : Z) : bytes := if i =? 0 then b "out/a.js" else b "out/c/d""q\-ABCD.js" ++ [9; 195; 169].
Definition ex_c0 : chunk :=
  mkChunk true [mkImp (PRef 2 1) (b "dynamic-import") false; mkImp (PLit (b "fs""x")) (b "import-statement") true]
          [b "v"] (Some (b "a.js")) None [(b "a.js", 57)] true 65.
Definition ex_c1 : chunk := mkChunk true [] [] None None [(b "d.js", 11)] true 37.
Definition ex_link_outs : list (bytes * chunk) := link_results ex_out [] [ex_c0; ex_c1] ++ [(b "out/a.js", ex_c1)].
Definition ex_ins : list input :=
  [mkInput (b "a.js") 44 [mkIImp (b "d.js") (b "dynamic-import") false (Some (b "./d.js")) [(b "type", b "json")]; mkIImp (b "inject.js") (b "import-statement") false None []] (Some (b "esm")) []].

Example ex_prefix_plain : forallb plain ex_pfx = true.
Proof. reflexivity. Qed.
Example ex_doc_clean : forall pc, In pc ex_link_outs -> clean ex_pfx 0 2 (pof [] (frags true (chunk_lj false (snd pc)))).
Proof.
  intros pc Hin. cbn in Hin. destruct Hin as [<-|[<-|[<-|[]]]]; cbn [snd];
    match goal with |- clean _ _ _ ?ps => let v := eval vm_compute in ps in change ps with v end.
  - apply clean_cons; try reflexivity; try lia. apply clean_last. reflexivity.
  - apply clean_last. reflexivity.
  - apply clean_last. reflexivity.
Qed.
Example ex_doc_ok : lj_ok (paths_ok ex_out) (doc_lj false ex_ins ex_link_outs).
Proof.
  match goal with |- lj_ok _ ?t => let v := eval vm_compute in t in change t with v end.
  cbn [lj_ok ls_ok]. solve_ok.
Qed.
(* the first result of a path wins: out/a.js is listed once, with chunk 0 *)
Example ex_doc_value : parse_json (metafile_of false true ex_pfx 0 2 ex_out ex_ins ex_link_outs) = Some (doc_jv ex_out ex_ins ex_link_outs)
  /\ map fst (dedup_first [] ex_link_outs) = [b "out/a.js"; ex_out 2 1].
Proof. split; vm_compute; reflexivity. Qed.
(* imports_resolve: chunk index 1 < 2 chunks *)
Example ex_resolve : In (ex_out 2 1) (map fst (dedup_first [] (link_results ex_out [] [ex_c0; ex_c1]))).
Proof. vm_compute. right. left. reflexivity. Qed.
(* hypotheses of clean_text_is_split_at_its_keys *)
Example ex_clean_pieces : clean ex_pfx 0 2 [mkPiece [34] 1 2; mkPiece [34; 125] 0 0].
Proof. apply clean_cons; try reflexivity; try lia. apply clean_last. reflexivity. Qed.

(* the dual-package situation: index 2 = node_modules/dual/module.js, its
   secondary node_modules/dual/main.js was visited as index 3 *)
From V Require Import C19.Scan C19.ScanProofs.
Definition ex_paths (i : Z) : bytes := nth (Z.to_nat i) [b "entry.js"; b "other.js"; b "node_modules/dual/module.js"; b "node_modules/dual/main.js"] [].
Definition ex_rec : irec := mkRec (Some 2) true (Some (b "/w/node_modules/dual/main.js")) (b "dual") (b "import-statement") [].
Definition ex_visited : list (bytes * Z) := [(b "/w/entry.js", 0); (b "/w/node_modules/dual/main.js", 3)].
Example ex_final_target : final_target ex_visited ex_rec = Some 3
  /\ ii_path (import_of ex_paths ex_visited ex_rec) = b "node_modules/dual/main.js"
  /\ final_target [] ex_rec = Some 2.
Proof. repeat split; vm_compute; reflexivity. Qed.
