(* C19 proofs, path substitution inside the JSON pieces: a text with unique
   keys at known places is split by breakOutputIntoPieces exactly at those
   places (when the prefix occurs nowhere else), so substituteFinalPaths yields
   the same text with the final paths at those places. *)
From V Require Export C18.CleanProofs.
From V Require Import Common.Base C01.Utf C01.Quote C18.Pieces C18.PiecesProofs
  C19.Json C19.JsonSpec C19.JsonProofs C19.Layout C19.LayoutProofs.

Inductive frag := FL (s : bytes) | FR (k i : Z).

Definition fbytes (rf : Z -> Z -> bytes) (f : frag) : bytes :=
  match f with FL s => s | FR k i => rf k i end.
Definition flat (rf : Z -> Z -> bytes) (fs : list frag) : bytes := concat (map (fbytes rf) fs).

Lemma flat_app rf a c : flat rf (a ++ c) = flat rf a ++ flat rf c.
Proof. unfold flat. rewrite map_app, concat_app. reflexivity. Qed.

Fixpoint fcommas (l : list (list frag)) : list frag :=
  match l with
  | [] => []
  | x :: r => match r with [] => x | _ => x ++ FL [44] :: fcommas r end
  end.

Definition frags_ls (ascii : bool) (x : ls) : list frag :=
  match x with
  | SQ s => [FL (quote_for_json ascii s)]
  | SR s => [FL (34 :: s ++ [34])]
  | SF k i => [FL [34]; FR k i; FL [34]]
  end.

(* the text of a tree as literal fragments and key places *)
Fixpoint frags (ascii : bool) (t : lj) : list frag :=
  match t with
  | LObj ms cw =>
    FL [123] :: fcommas (map (fun m => let '(w1, k, w2, v) := m in
                                       FL w1 :: frags_ls ascii k ++ FL (58 :: w2) :: frags ascii v) ms)
    ++ [FL (cw ++ [125])]
  | LArr es cw =>
    FL [91] :: fcommas (map (fun e => FL (fst e) :: frags ascii (snd e)) es) ++ [FL (cw ++ [93])]
  | LS x => frags_ls ascii x
  | LNum n => [FL (dec n)]
  | LTrue => [FL lit_true_bytes]
  end.

Lemma flat_fcommas {A} rf (F : A -> list frag) (G : A -> bytes) : forall l,
  (forall x, In x l -> flat rf (F x) = G x) ->
  flat rf (fcommas (map F l)) = commas (map G l).
Proof.
  induction l as [|x l IH]; intro H; [reflexivity|].
  pose proof (H x (or_introl eq_refl)) as Hx.
  specialize (IH (fun y Hy => H y (or_intror Hy))).
  destruct l as [|y l]; [cbn [map fcommas commas]; exact Hx|].
  change (fcommas (map F (x :: y :: l))) with (F x ++ FL [44] :: fcommas (map F (y :: l))).
  change (commas (map G (x :: y :: l))) with (G x ++ 44 :: commas (map G (y :: l))).
  rewrite flat_app, Hx. f_equal. change (FL [44] :: ?r) with ([FL [44]] ++ r). rewrite flat_app, IH. reflexivity.
Qed.

Lemma list_sum_in' (l : list nat) x : In x l -> (x <= list_sum l)%nat.
Proof. apply list_sum_in. Qed.

Lemma flat_frags ascii rf rq : (forall k i, rq k i = 34 :: rf k i ++ [34]) ->
  forall n t, (lsize t <= n)%nat -> flat rf (frags ascii t) = render ascii rq t.
Proof.
  intro Hrq.
  assert (Hls : forall x, flat rf (frags_ls ascii x) = render_ls ascii rq x).
  { intros [s|s|k i]; cbn [frags_ls render_ls]; unfold flat; cbn [map fbytes concat];
      rewrite ?app_nil_r; try reflexivity. rewrite Hrq. reflexivity. }
  induction n as [|n IH]; intros t Hsz; [destruct t; cbn in Hsz; lia|].
  destruct t as [ms cw|es cw|x|k|]; cbn [frags render].
  - change (FL [123] :: ?r) with ([FL [123]] ++ r). rewrite !flat_app.
    rewrite (flat_fcommas rf _ (fun m => let '(w1, k, w2, v) := m in w1 ++ render_ls ascii rq k ++ 58 :: w2 ++ render ascii rq v)).
    + unfold flat. cbn [map fbytes concat app]. rewrite app_nil_r. reflexivity.
    + intros [[[w1 k] w2] v] Hin.
      change (FL w1 :: ?r) with ([FL w1] ++ r). rewrite !flat_app.
      change (FL (58 :: w2) :: ?r) with ([FL (58 :: w2)] ++ r). rewrite flat_app.
      rewrite Hls, IH.
      * unfold flat. cbn [map fbytes concat app]. rewrite !app_nil_r. reflexivity.
      * cbn [lsize] in Hsz.
        pose proof (list_sum_in (map (fun m => let '(_, _, _, v) := m in lsize v) ms) (lsize v)) as L.
        specialize (L ltac:(apply in_map_iff; exists (w1, k, w2, v); split; [reflexivity|exact Hin])). lia.
  - change (FL [91] :: ?r) with ([FL [91]] ++ r). rewrite !flat_app.
    rewrite (flat_fcommas rf _ (fun e => fst e ++ render ascii rq (snd e))).
    + unfold flat. cbn [map fbytes concat app]. rewrite app_nil_r. reflexivity.
    + intros [w1 v] Hin. cbn [fst snd].
      change (FL w1 :: ?r) with ([FL w1] ++ r). rewrite flat_app, IH.
      * unfold flat. cbn [map fbytes concat app]. rewrite !app_nil_r. reflexivity.
      * cbn [lsize] in Hsz.
        pose proof (list_sum_in (map (fun e => lsize (snd e)) es) (lsize v)) as L.
        specialize (L ltac:(apply in_map_iff; exists (w1, v); split; [reflexivity|exact Hin])). lia.
  - apply Hls.
  - unfold flat. cbn [map fbytes concat]. apply app_nil_r.
  - unfold flat. cbn [map fbytes concat]. apply app_nil_r.
Qed.

(* ---- pieces of a fragment list ---- *)

Fixpoint pof (acc : bytes) (fs : list frag) : list piece :=
  match fs with
  | [] => [mkPiece acc 0 0]
  | FL s :: r => pof (acc ++ s) r
  | FR k i :: r => mkPiece acc i k :: pof [] r
  end.

Definition refs_ok (fs : list frag) : Prop := forall k i, In (FR k i) fs -> is_ref k = true.

Lemma join_pof prefix : forall fs acc, refs_ok fs ->
  join_with_keys prefix (pof acc fs) = acc ++ flat (key_bytes prefix) fs.
Proof.
  induction fs as [|f fs IH]; intros acc Hr.
  - cbn. rewrite !app_nil_r. reflexivity.
  - assert (Hr' : refs_ok fs) by (intros k i Hin; apply (Hr k i); right; exact Hin).
    destruct f as [s|k i]; cbn [pof].
    + rewrite IH by exact Hr'. unfold flat. cbn [map fbytes concat]. rewrite app_assoc. reflexivity.
    + cbn [join_with_keys pdata pkind pidx]. rewrite (Hr k i (or_introl eq_refl)).
      rewrite IH by exact Hr'. unfold flat. cbn [map fbytes concat app]. reflexivity.
Qed.

Lemma subst_pof pathOf : forall fs acc, refs_ok fs ->
  substitute pathOf (pof acc fs) = acc ++ flat pathOf fs.
Proof.
  induction fs as [|f fs IH]; intros acc Hr.
  - cbn. rewrite !app_nil_r. reflexivity.
  - assert (Hr' : refs_ok fs) by (intros k i Hin; apply (Hr k i); right; exact Hin).
    destruct f as [s|k i]; cbn [pof].
    + rewrite IH by exact Hr'. unfold flat. cbn [map fbytes concat]. rewrite app_assoc. reflexivity.
    + cbn [substitute pdata pkind pidx]. rewrite (Hr k i (or_introl eq_refl)).
      rewrite IH by exact Hr'. unfold flat. cbn [map fbytes concat app]. reflexivity.
Qed.

(* ---- splitting a text whose only occurrences of the prefix are its keys ----
   clean, is_prefix_ext, index_of_clean, break_clean: in the shared pieces layer,
   coq/C18/CleanProofs.v (re-exported here) *)

Lemma break_joiner_of_output prefix nf nc pathOf out ps :
  break_output prefix nf nc out = Some ps ->
  exists o, break_joiner prefix nf nc out = Some o /\ substitute_out pathOf o out = substitute pathOf ps.
Proof.
  intro H. unfold break_joiner. destruct (occurs prefix out) eqn:Eo.
  - rewrite H. eexists; split; reflexivity.
  - exists None. split; [reflexivity|]. cbn [substitute_out].
    unfold break_output in H. cbn [break_pieces] in H. unfold occurs in Eo.
    destruct (index_of prefix out); [discriminate|]. inversion H; subst ps.
    cbn. rewrite !app_nil_r. reflexivity.
Qed.

(* substituteFinalPaths(breakJoinerIntoPieces(text with keys)) = text with paths *)
Lemma substitute_text prefix nf nc pathOf fs :
  refs_ok fs -> clean prefix nf nc (pof [] fs) ->
  exists o, break_joiner prefix nf nc (flat (key_bytes prefix) fs) = Some o /\
            substitute_out pathOf o (flat (key_bytes prefix) fs) = flat pathOf fs.
Proof.
  intros Hr Hc.
  pose proof (join_pof prefix fs [] Hr) as Hj. cbn [app] in Hj.
  assert (Hb : break_output prefix nf nc (flat (key_bytes prefix) fs) = Some (pof [] fs)).
  { unfold break_output. rewrite <- Hj. apply break_clean; [exact Hc|lia]. }
  destruct (break_joiner_of_output prefix nf nc pathOf _ _ Hb) as (o & Ho & Hs).
  exists o. split; [exact Ho|]. rewrite Hs. rewrite (subst_pof pathOf fs [] Hr). reflexivity.
Qed.

(* QuoteForJSON leaves a unique key as it is (the prefix is base64url text) *)
Definition plain (c : Z) : bool := (32 <=? c) && (c <=? 126) && negb (c =? 34) && negb (c =? 92).

Lemma quote_plain ascii : forall n s, (length s <= n)%nat -> forallb plain s = true ->
  quote_body n ascii s = s.
Proof.
  induction n as [|n IH]; intros s Hl Hp; [destruct s; [reflexivity|cbn in Hl; lia]|].
  destruct s as [|c s]; [reflexivity|].
  cbn [forallb] in Hp. apply andb_true_iff in Hp as [Hc Hp]. unfold plain in Hc.
  cbn [quote_body]. unfold quote_step. cbn [DecodeWTF8Rune].
  destruct (c <? 128) eqn:E; [|lia].
  unfold can_print. destruct (c <=? 126) eqn:E1; [|lia].
  destruct ((32 <=? c) && negb (c =? 92) && negb (c =? 34)) eqn:E2; [|lia].
  unfold is_invalid_byte. destruct ((c =? 65533) && (1 <=? 1)) eqn:E3; [lia|]. cbn [negb andb].
  change (Z.to_nat 1) with 1%nat. cbn [firstn skipn app]. rewrite IH; [reflexivity|cbn [length] in Hl; lia|exact Hp].
Qed.

Lemma digits_plain n : forall v, forallb plain (digits_n n v) = true.
Proof.
  induction n as [|n IH]; intro v; [reflexivity|]. cbn [digits_n]. rewrite forallb_app, IH.
  cbn [forallb]. unfold plain. lia.
Qed.

Lemma key_quoted ascii prefix k i : forallb plain prefix = true ->
  quote_for_json ascii (key_bytes prefix k i) = 34 :: key_bytes prefix k i ++ [34].
Proof.
  intro Hp. unfold quote_for_json. rewrite quote_plain; [reflexivity|lia|].
  unfold key_bytes. rewrite forallb_app, Hp. cbn [forallb]. rewrite digits_plain.
  unfold byte_of_kind, plain. destruct (k =? 1); reflexivity.
Qed.
