(* C17: statements of the property that are false of the faithful model,
   as existentials closed by the witnesses of SpecProofs.v. *)
From V Require Import Common.Base C17.WriteSM C17.Spec C17.Proofs C17.DiskProofs C17.SpecProofs C17.IOFail C17.CompileProofs C17.PathModel C17.PathProofs.
From Coq Require Import String.

(* before d19e8cb: a rebuild that fails removes files *)
Lemma before_fix_failed_build_deleted_files_w :
  exists opt d0 oc1 oc2,
    let st1 := fst (step_before_fix phys_id opt (init d0) oc1) in
    let st2 := fst (step_before_fix phys_id opt st1 oc2) in
    let r2 := snd (step_before_fix phys_id opt st1 oc2) in
    r_failed_early r2 = true /\
    exists p, lookup (disk st1) p <> None /\ lookup (disk st2) p = None.
Proof.
  exists w_opts, w_disk0, w_oc1, w_oc2. split; [vm_compute; reflexivity|].
  exists (P "/out/a.js"). vm_compute. split; [discriminate | reflexivity].
Qed.

(* ... including a file that is an input of the failing build, without permission to overwrite *)
Lemma before_fix_failed_build_deleted_input_w :
  exists opt d0 oc1 oc2,
    let st1 := fst (step_before_fix phys_id opt (init d0) oc1) in
    let st2 := fst (step_before_fix phys_id opt st1 oc2) in
    r_failed_early (snd (step_before_fix phys_id opt st1 oc2)) = true /\
    effective_allow opt = false /\
    exists p, In p (inputs oc2) /\ lookup (disk st1) p <> None /\ lookup (disk st2) p = None.
Proof.
  exists w_opts, w_disk0, w_oc1, w_oc2. split; [vm_compute; reflexivity|]. split; [vm_compute; reflexivity|].
  exists (P "/out/old.js"). vm_compute. split; [right; right; left; reflexivity | split; [discriminate | reflexivity]].
Qed.

(* a successful rebuild deletes a stale output that is an input of the
   current build, before and after d19e8cb *)
Lemma no_input_deleted_by_successful_rebuild_refuted_w :
  forall fixed, exists opt d0 oc1 oc2,
    let st1 := fst (step_gen phys_id fixed opt (init d0) oc1) in
    let st2 := fst (step_gen phys_id fixed opt st1 oc2) in
    let r2 := snd (step_gen phys_id fixed opt st1 oc2) in
    effective_allow opt = false /\ r_errors r2 = false /\
    exists p, In p (inputs oc2) /\ lookup (disk st1) p <> None /\ lookup (disk st2) p = None.
Proof.
  intro fixed. exists w_opts, w_disk0, w_oc1, w_oc2'.
  destruct fixed; (split; [vm_compute; reflexivity|]); (split; [vm_compute; reflexivity|]);
    exists (P "/out/old.js"); vm_compute; (split; [right; left; reflexivity | split; [discriminate | reflexivity]]).
Qed.

(* through a symbolic link an input is overwritten although overwriting is not allowed *)
Lemma no_input_overwritten_via_symlink_refuted_w :
  exists phys opt d0 oc,
    let st1 := fst (step phys opt (init d0) oc) in
    let r1 := snd (step phys opt (init d0) oc) in
    effective_allow opt = false /\ r_errors r1 = false /\
    exists p c, In p (inputs oc) /\ lookup d0 p = Some c /\ lookup (disk st1) p <> Some c /\ lookup (disk st1) p <> None.
Proof.
  exists (phys_links w_links), w_opts, [(P "/src/a.js", [1])], w_oc_link.
  split; [vm_compute; reflexivity|]. split; [vm_compute; reflexivity|].
  exists (P "/src/a.js"), [1]. vm_compute. repeat split; try (left; reflexivity); discriminate.
Qed.

(* a build that reports errors (from an on-end callback) has written files *)
Lemma reported_errors_write_nothing_refuted_w :
  exists opt d0 oc,
    let st1 := fst (step phys_id opt (init d0) oc) in
    let r1 := snd (step phys_id opt (init d0) oc) in
    r_errors r1 = true /\ exists p, lookup d0 p = None /\ lookup (disk st1) p <> None.
Proof.
  exists w_opts, [(P "/src/a.js", [1])], w_oc_onend. split; [vm_compute; reflexivity|].
  exists (P "/out/a.js"). vm_compute. split; [reflexivity | discriminate].
Qed.

(* before d19e8cb the strong reading of the specification failed *)
Lemma before_fix_spec_failed_unchanged_refuted_w :
  exists opt st oc own,
    let st' := fst (step_before_fix phys_id opt st oc) in
    let r := snd (step_before_fix phys_id opt st oc) in
    to_stdout opt = false /\ (forall p, In p (keys (latest st)) -> In p own) /\
    ~ spec_failed_unchanged (obs_of opt st st' oc r own).
Proof.
  exists w_opts, (fst (step_before_fix phys_id w_opts (init w_disk0) w_oc1)), w_oc2, [P "/out/a.js"; P "/out/old.js"].
  split; [reflexivity|]. split.
  - vm_compute. intros p [H|[H|[]]]; [right; left | left]; exact H.
  - intro H. specialize (H (or_introl eq_refl) (P "/out/a.js")). vm_compute in H. discriminate.
Qed.

(* ---------- failures during the write phase ---------- *)
Definition w_oc_ab := mkOutcome false [P "/src/a.js"; P "/src/b.js"] false
  [mkOut (P "/out/a.js") [10] 110 false; mkOut (P "/out/b.js") [11] 111 false] false false false.
Definition w_oc_b := mkOutcome false [P "/src/b.js"] false [mkOut (P "/out/b.js") [11] 111 false] false false false.

(* a build in which one write fails reports errors and has created the other file *)
Lemma write_error_build_writes_nothing_refuted_w :
  exists opt d0 oc wf,
    let st1 := fst (step_io phys_id true opt (init d0) oc wf) in
    let r1 := snd (step_io phys_id true opt (init d0) oc wf) in
    r_errors r1 = true /\ r_failed_early r1 = false /\
    exists p, lookup d0 p = None /\ lookup (disk st1) p <> None.
Proof.
  exists w_opts, [(P "/src/a.js", [1]); (P "/src/b.js", [2])], w_oc_ab, [P "/out/a.js"].
  split; [vm_compute; reflexivity|]. split; [vm_compute; reflexivity|].
  exists (P "/out/b.js"). vm_compute. split; [reflexivity | discriminate].
Qed.

(* before b32af0b the path of a failed write stayed in the hash table: the next
   rebuild that did not produce it deleted a path no rebuild of the context
   ever wrote *)
Lemma before_fix_b32af0b_deleted_never_written_path_w :
  exists opt d0 oc1 wf oc2,
    let st1 := fst (step_io_before_b32af0b phys_id true opt (init d0) oc1 wf) in
    let r1 := snd (step_io_before_b32af0b phys_id true opt (init d0) oc1 wf) in
    let r2 := snd (step_io_before_b32af0b phys_id true opt st1 oc2 []) in
    exists p, In (EDelete p) (r_effects r2) /\ ~ In p (writes_of (r_effects r1)).
Proof.
  exists w_opts, [(P "/src/a.js", [1]); (P "/src/b.js", [2])], w_oc_ab, [P "/out/a.js"], w_oc_b.
  exists (P "/out/a.js"). vm_compute. split; [left; reflexivity|]. intros [H|[]]. discriminate.
Qed.
(* the same history on the current step deletes nothing *)
Lemma failed_write_path_is_forgotten_w :
  let st1 := fst (step_io phys_id true w_opts (init [(P "/src/a.js", [1]); (P "/src/b.js", [2])]) w_oc_ab [P "/out/a.js"]) in
  keys (latest st1) = [P "/out/b.js"] /\
  deletes_of (r_effects (snd (step_io phys_id true w_opts st1 w_oc_b []))) = [].
Proof. vm_compute. split; reflexivity. Qed.

(* ---------- the path layer ---------- *)
(* a template without any parent-directory segment, yet the output leaves the
   output directory: the entry file is called "...js", whose name minus the
   extension is ".." (replayed: <cwd>/x.js instead of <cwd>/out/...) *)
Lemma template_without_dotdot_escapes_refuted_w :
  exists tmpl outdir outbase entry ext,
    no_dotdot_seg tmpl = true /\
    let out := entry_out_path outdir (entry_template tmpl) outbase entry [] [] ext in
    firstn (List.length (clean_segs outdir)) (clean_segs out) <> clean_segs outdir.
Proof.
  exists (P "[name]/x"), (P "/w/out"), (P "/w/src"), (P "/w/src/...js"), (P ".js").
  split; [vm_compute; reflexivity|]. vm_compute. discriminate.
Qed.

(* a Unix directory whose NAME contains backslashes: the '\' -> '/' replacement
   happens after Rel, so ".." elements appear behind the leading run that the
   "_.._" rewrite handles (replayed on the real code) *)
Definition ext_js : path := P ".js".
Lemma backslash_in_name_escapes_refuted_w :
  exists outdir outbase entry,
    is_rooted outbase = true /\ is_rooted entry = true /\
    let out := entry_out_path outdir default_entry_template outbase entry [] [] ext_js in
    firstn (List.length (clean_segs outdir)) (clean_segs out) <> clean_segs outdir.
Proof.
  exists (P "/w/out/deep"), (P "/w/src"), (P "/w/src/a\..\..\..\b/e.js").
  split; [reflexivity|]. split; [reflexivity|]. vm_compute. discriminate.
Qed.
