(* C17 lemmas about the model of Bundle.Compile's two checks. *)
From V Require Import Common.Base C17.WriteSM C17.Proofs.

Definition ckey (o : outfile) : path := canon (o_path o).

Lemma NoDup_map_eq {A B} (f : A -> B) (l : list A) x y :
  NoDup (map f l) -> In x l -> In y l -> f x = f y -> x = y.
Proof.
  induction l as [|a l IH]; simpl; intros ND Hx Hy E; [contradiction|].
  inversion ND as [|? ? Hn ND']; subst.
  destruct Hx as [Hx|Hx], Hy as [Hy|Hy]; subst.
  - reflexivity.
  - exfalso. apply Hn. rewrite E. apply in_map. exact Hy.
  - exfalso. apply Hn. rewrite <- E. apply in_map. exact Hx.
  - apply IH; assumption.
Qed.

Lemma NoDup_map_inv' {A B} (f : A -> B) (l : list A) : NoDup (map f l) -> NoDup l.
Proof.
  induction l as [|a l IH]; simpl; intro ND; [constructor|].
  inversion ND as [|? ? Hn ND']; subst. constructor; [|apply IH; exact ND'].
  intro H. apply Hn. apply in_map. exact H.
Qed.

(* the files kept by the duplicate-path loop: pairwise distinct canonical
   paths, none already seen, all taken from the input list, in order *)
Lemma dedupe_kept seen outs : forall kept errs,
  dedupe seen outs = (kept, errs) ->
  NoDup (map ckey kept) /\
  (forall o, In o kept -> lookup seen (ckey o) = None /\ In o outs).
Proof.
  revert seen. induction outs as [|o r IH]; intros seen kept errs E; simpl in E.
  - inversion E; subst. split; [constructor | intros ? []].
  - destruct (lookup seen (canon (o_path o))) as [e|] eqn:EL.
    + destruct (o_merge e && o_merge o && content_eqb (o_data e) (o_data o)).
      * destruct (IH _ _ _ E) as [ND H]. split; [exact ND|].
        intros x Hx. destruct (H x Hx). split; [assumption | right; assumption].
      * destruct (dedupe seen r) as [k2 e2] eqn:ED. inversion E; subst.
        destruct (IH _ _ _ ED) as [ND H]. split; [exact ND|].
        intros x Hx. destruct (H x Hx). split; [assumption | right; assumption].
    + destruct (dedupe (upd seen (canon (o_path o)) o) r) as [k2 e2] eqn:ED. inversion E; subst.
      destruct (IH _ _ _ ED) as [ND H]. split.
      * simpl. constructor; [|exact ND].
        intro Hin. apply in_map_iff in Hin as [x [Ex Hx]].
        destruct (H x Hx) as [Hl _]. rewrite lookup_upd in Hl.
        unfold ckey in Ex. rewrite <- Ex in Hl. rewrite path_eqb_refl in Hl. discriminate.
      * intros x [Hx|Hx].
        -- subst x. split; [exact EL | left; reflexivity].
        -- destruct (H x Hx) as [Hl Hi]. split; [|right; exact Hi].
           rewrite lookup_upd in Hl. destruct (path_eqb (canon (o_path o)) (ckey x)); [discriminate | exact Hl].
Qed.

(* if the loop reports no error, every linked file is represented by a kept
   file (or an already seen one) with the same canonical path and the same
   contents *)
Lemma dedupe_represented seen outs : forall kept,
  dedupe seen outs = (kept, []) ->
  forall o, In o outs ->
    (exists k, In k kept /\ ckey k = ckey o /\ o_data k = o_data o)
    \/ (exists e, lookup seen (ckey o) = Some e /\ o_data e = o_data o).
Proof.
  revert seen. induction outs as [|a r IH]; intros seen kept E o Ho; simpl in E; [contradiction|].
  destruct (lookup seen (canon (o_path a))) as [e|] eqn:EL.
  - destruct (o_merge e && o_merge a && content_eqb (o_data e) (o_data a)) eqn:EM.
    + destruct Ho as [Ho|Ho].
      * subst a. right. exists e. split; [exact EL|].
        apply andb_true_iff in EM as [_ EM]. apply content_eqb_eq in EM. exact EM.
      * exact (IH _ _ E o Ho).
    + destruct (dedupe seen r) as [k2 e2]. inversion E.
  - destruct (dedupe (upd seen (canon (o_path a)) a) r) as [k2 e2] eqn:ED. inversion E; subst.
    destruct Ho as [Ho|Ho].
    + subst a. left. exists o. split; [left; reflexivity | split; reflexivity].
    + destruct (IH _ _ ED o Ho) as [[k [Hk [Ek Dk]]]|[e [He De]]].
      * left. exists k. split; [right; exact Hk | split; assumption].
      * rewrite lookup_upd in He. destruct (path_eqb (canon (o_path a)) (ckey o)) eqn:EP.
        -- inversion He; subst e. apply path_eqb_eq in EP.
           left. exists a. split; [left; reflexivity | split; [exact EP | exact De]].
        -- right. exists e. split; assumption.
Qed.

Lemma lookup_nil {V} p : @lookup V [] p = None.
Proof. reflexivity. Qed.

(* two linked files with one canonical path and different contents are an error *)
Lemma dedupe_single_valued outs kept :
  dedupe [] outs = (kept, []) ->
  forall o1 o2, In o1 outs -> In o2 outs -> ckey o1 = ckey o2 -> o_data o1 = o_data o2.
Proof.
  intros E o1 o2 H1 H2 EK.
  destruct (dedupe_kept _ _ _ _ E) as [ND _].
  destruct (dedupe_represented _ _ _ E o1 H1) as [[k1 [I1 [K1 D1]]]|[e [He _]]]; [|simpl in He; discriminate].
  destruct (dedupe_represented _ _ _ E o2 H2) as [[k2 [I2 [K2 D2]]]|[e [He _]]]; [|simpl in He; discriminate].
  assert (k1 = k2) by (apply (NoDup_map_eq ckey kept); try assumption; congruence).
  subst. congruence.
Qed.

(* what Compile returns when it leaves no error in the log (directory mode) *)
Lemma compile_ok_facts opt oc kept :
  cancel_early oc = false -> to_stdout opt = false ->
  compile opt oc = (kept, false) ->
  NoDup (map ckey kept) /\
  (forall o, In o kept -> In o (linked oc)) /\
  (forall o, In o (linked oc) -> exists k, In k kept /\ ckey k = ckey o /\ o_data k = o_data o) /\
  (forall o1 o2, In o1 (linked oc) -> In o2 (linked oc) -> ckey o1 = ckey o2 -> o_data o1 = o_data o2) /\
  (effective_allow opt = false -> forall o, In o (linked oc) -> ~ In (ckey o) (map canon (inputs oc))) /\
  link_err oc = false.
Proof.
  intros HC HS. unfold compile. rewrite HC, HS.
  destruct (dedupe [] (linked oc)) as [k e2] eqn:ED. intro E. injection E as E1 E2. subst k.
  apply orb_false_iff in E2 as [E2 E3]. apply orb_false_iff in E2 as [E2 E4].
  destruct e2; [|discriminate].
  destruct (dedupe_kept _ _ _ _ ED) as [ND HK].
  repeat split.
  - exact ND.
  - intros o Ho. apply HK. exact Ho.
  - intros o Ho. destruct (dedupe_represented _ _ _ ED o Ho) as [H|[e [He _]]]; [exact H | simpl in He; discriminate].
  - exact (dedupe_single_valued _ _ ED).
  - intros HA o Ho Hin. rewrite HA in E4. unfold overwrite_refused in E4.
    destruct (filter (fun o0 => mem (canon (o_path o0)) (map canon (inputs oc))) (linked oc)) eqn:EF; [|simpl in E4; discriminate].
    assert (In o []) as [].
    rewrite <- EF. apply filter_In. split; [exact Ho|]. apply mem_In. exact Hin.
  - exact E2.
Qed.

(* distinct canonical paths are distinct paths *)
Lemma NoDup_ckey_paths l : NoDup (map ckey l) -> NoDup (map o_path l).
Proof.
  unfold ckey. intro H. rewrite <- (map_map o_path canon) in H. apply NoDup_map_inv' in H. exact H.
Qed.

(* ---------- the duplicate-path rule, in full ---------- *)
(* if the loop reports no error, every linked file either is kept itself or
   was merged into a kept (or already seen) file with the same canonical path:
   both mergeable, equal contents *)
Lemma dedupe_represented_strong seen outs : forall kept,
  dedupe seen outs = (kept, []) ->
  forall o, In o outs ->
    (exists k, In k kept /\ ckey k = ckey o /\
               (k = o \/ (o_merge k = true /\ o_merge o = true /\ o_data k = o_data o)))
    \/ (exists e, lookup seen (ckey o) = Some e /\ o_merge e = true /\ o_merge o = true /\ o_data e = o_data o).
Proof.
  revert seen. induction outs as [|a r IH]; intros seen kept E o Ho; simpl in E; [contradiction|].
  destruct (lookup seen (canon (o_path a))) as [e|] eqn:EL.
  - destruct (o_merge e && o_merge a && content_eqb (o_data e) (o_data a)) eqn:EM.
    + destruct Ho as [Ho|Ho].
      * subst a. right. exists e. split; [exact EL|].
        apply andb_true_iff in EM as [EM1 EM]. apply andb_true_iff in EM1 as [M1 M2].
        apply content_eqb_eq in EM. auto.
      * exact (IH _ _ E o Ho).
    + destruct (dedupe seen r) as [k2 e2]. inversion E.
  - destruct (dedupe (upd seen (canon (o_path a)) a) r) as [k2 e2] eqn:ED. inversion E; subst.
    destruct Ho as [Ho|Ho].
    + subst a. left. exists o. split; [left; reflexivity | split; [reflexivity | left; reflexivity]].
    + destruct (IH _ _ ED o Ho) as [[k [Hk [Ek Dk]]]|[e [He De]]].
      * left. exists k. split; [right; exact Hk | split; assumption].
      * rewrite lookup_upd in He. destruct (path_eqb (canon (o_path a)) (ckey o)) eqn:EP.
        -- inversion He; subst e. apply path_eqb_eq in EP.
           left. exists a. split; [left; reflexivity | split; [exact EP | right; exact De]].
        -- right. exists e. split; assumption.
Qed.

(* two different linked files with one canonical path (equal cleaned paths,
   case variants, slash variants) pass only if both may be merged and their
   contents are equal; otherwise Compile reports an error *)
Lemma dedupe_two_on_one_path outs kept :
  dedupe [] outs = (kept, []) ->
  forall o1 o2, In o1 outs -> In o2 outs -> o1 <> o2 -> ckey o1 = ckey o2 ->
    o_merge o1 = true /\ o_merge o2 = true /\ o_data o1 = o_data o2.
Proof.
  intros E o1 o2 H1 H2 Hne EK.
  destruct (dedupe_kept _ _ _ _ E) as [ND _].
  destruct (dedupe_represented_strong _ _ _ E o1 H1) as [[k1 [I1 [K1 D1]]]|[e [He _]]]; [|simpl in He; discriminate].
  destruct (dedupe_represented_strong _ _ _ E o2 H2) as [[k2 [I2 [K2 D2]]]|[e [He _]]]; [|simpl in He; discriminate].
  assert (k1 = k2) by (apply (NoDup_map_eq ckey kept); try assumption; congruence). subst k2.
  destruct D1 as [D1|[A1 [B1 C1]]], D2 as [D2|[A2 [B2 C2]]].
  - exfalso. apply Hne. congruence.
  - subst k1. auto.
  - subst k1. auto.
  - repeat split; try assumption. congruence.
Qed.

Lemma compile_two_on_one_path opt oc kept :
  cancel_early oc = false -> to_stdout opt = false -> compile opt oc = (kept, false) ->
  forall o1 o2, In o1 (linked oc) -> In o2 (linked oc) -> o1 <> o2 -> ckey o1 = ckey o2 ->
    o_merge o1 = true /\ o_merge o2 = true /\ o_data o1 = o_data o2.
Proof.
  intros HC HS. unfold compile. rewrite HC, HS.
  destruct (dedupe [] (linked oc)) as [k e2] eqn:ED. intro E. injection E as E1 E2. subst k.
  apply orb_false_iff in E2 as [_ E3]. destruct e2; [|simpl in E3; discriminate].
  exact (dedupe_two_on_one_path _ _ ED).
Qed.
