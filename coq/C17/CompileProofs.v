(* C17 lemmas about the model of Bundle.Compile's two checks (duplicate-path
   rule as of /repo commit 11ec04b). *)
From V Require Import Common.Base C17.WriteSM C17.Proofs.

Definition ckey (o : outfile) : path := canon (o_path o).

Lemma NoDup_map_eq {A B} (f : A -> B) (l : list A) x y :
  NoDup (map f l) -> In x l -> In y l -> f x = f y -> x = y.
Proof.
  induction l as [|a l IH]; simpl; intros ND Hx Hy E; [contradiction|].
  inversion ND as [|? ? Hn ND']; subst.
  destruct Hx as [Hx|Hx], Hy as [Hy|Hy]; subst.
  - reflexivity.
  - exfalso. apply Hn. rewrite E. apply in_map. exact Hy.
  - exfalso. apply Hn. rewrite <- E. apply in_map. exact Hx.
  - apply IH; assumption.
Qed.

Lemma NoDup_map_inv' {A B} (f : A -> B) (l : list A) : NoDup (map f l) -> NoDup l.
Proof.
  induction l as [|a l IH]; simpl; intro ND; [constructor|].
  inversion ND as [|? ? Hn ND']; subst. constructor; [|apply IH; exact ND'].
  intro H. apply Hn. apply in_map. exact H.
Qed.

Lemma NoDup_app_snoc {A} (l : list A) x : NoDup l -> ~ In x l -> NoDup (l ++ [x]).
Proof.
  induction l as [|a l IH]; simpl; intros ND Hx.
  - constructor; [intros [] | constructor].
  - inversion ND as [|? ? Hn ND']; subst. constructor.
    + intro H. apply in_app_or in H as [H|[H|[]]]; [contradiction|]. subst. apply Hx. left. reflexivity.
    + apply IH; [exact ND'|]. intro H. apply Hx. right. exact H.
Qed.

(* "the same file, or two mergeable files with equal contents" *)
Definition mrel (a b : outfile) : Prop :=
  a = b \/ (o_merge a = true /\ o_merge b = true /\ o_data a = o_data b).
Lemma mrel_sym a b : mrel a b -> mrel b a.
Proof. intros [H|[A [B C]]]; [left; auto | right; auto]. Qed.
Lemma mrel_trans a b c : mrel a b -> mrel b c -> mrel a c.
Proof.
  intros [H1|[A1 [B1 C1]]] [H2|[A2 [B2 C2]]]; subst.
  - left. reflexivity.
  - right. auto.
  - right. auto.
  - right. repeat split; try assumption. congruence.
Qed.
Lemma mrel_data a b : mrel a b -> o_data a = o_data b.
Proof. intros [H|[_ [_ C]]]; [subst; reflexivity | exact C]. Qed.

(* files with one canonical path are pairwise mergeable-and-equal *)
Definition coherent (l : list outfile) : Prop :=
  forall f g, In f l -> In g l -> ckey f = ckey g -> mrel f g.

Lemma find_key_some prev o e :
  find (fun f => path_eqb (canon (o_path f)) (canon (o_path o))) prev = Some e -> In e prev /\ ckey e = ckey o.
Proof. intro H. apply find_some in H as [H1 H2]. apply path_eqb_eq in H2. auto. Qed.
Lemma find_key_none prev o :
  find (fun f => path_eqb (canon (o_path f)) (canon (o_path o))) prev = None ->
  forall f, In f prev -> ckey f <> ckey o.
Proof.
  intros H f Hf E. pose proof (find_none _ _ H f Hf) as F. simpl in F.
  unfold ckey in E. rewrite E, path_eqb_refl in F. discriminate.
Qed.

Lemma coherent_snoc_new prev o :
  coherent prev -> (forall f, In f prev -> ckey f <> ckey o) -> coherent (prev ++ [o]).
Proof.
  intros HC HN f g Hf Hg E. apply in_app_or in Hf as [Hf|[Hf|[]]], Hg as [Hg|[Hg|[]]]; subst.
  - apply HC; assumption.
  - exfalso. exact (HN f Hf E).
  - exfalso. apply (HN g Hg). symmetry. exact E.
  - left. reflexivity.
Qed.
Lemma coherent_snoc_merged prev o e :
  coherent prev -> In e prev -> ckey e = ckey o -> mrel e o -> coherent (prev ++ [o]).
Proof.
  intros HC He EK HM f g Hf Hg E. apply in_app_or in Hf as [Hf|[Hf|[]]], Hg as [Hg|[Hg|[]]]; subst.
  - apply HC; assumption.
  - apply (mrel_trans f e g); [apply HC; try assumption; congruence | exact HM].
  - apply (mrel_trans f e g); [apply mrel_sym; exact HM | apply HC; try assumption; congruence].
  - left. reflexivity.
Qed.

(* the loop, from any coherent list of files kept so far with distinct paths *)
Lemma dedupe_facts outs : forall prev kept errs,
  coherent prev -> NoDup (map o_path prev) ->
  dedupe prev outs = (kept, errs) ->
  NoDup (map o_path (prev ++ kept)) /\
  (forall o, In o kept -> In o outs) /\
  (errs = [] ->
     coherent (prev ++ kept) /\
     forall o, In o outs -> exists k, In k (prev ++ kept) /\ o_path k = o_path o /\ mrel k o).
Proof.
  induction outs as [|o r IH]; intros prev kept errs HC ND E; simpl in E.
  - injection E as E1 E2. subst. rewrite app_nil_r. repeat split; try assumption; intros ? [].
  - destruct (find (fun f => path_eqb (canon (o_path f)) (canon (o_path o))) prev) as [e|] eqn:EF.
    + destruct (find_key_some _ _ _ EF) as [He EK].
      destruct (o_merge e && o_merge o && content_eqb (o_data e) (o_data o)) eqn:EM.
      * assert (HM : mrel e o).
        { apply andb_true_iff in EM as [EM1 EM]. apply andb_true_iff in EM1 as [M1 M2].
          apply content_eqb_eq in EM. right. auto. }
        destruct (mem (o_path o) (map o_path prev)) eqn:EX.
        -- (* an exact duplicate of a kept file: filtered out *)
           destruct (IH _ _ _ HC ND E) as [A [B C]]. repeat split; try assumption.
           ++ intros x Hx. right. apply B. exact Hx.
           ++ apply C. assumption.
           ++ intros x [Hx|Hx]; [|apply C; assumption]. subst x.
              apply mem_In in EX. apply in_map_iff in EX as [g [Eg Hg]].
              exists g. split; [apply in_or_app; left; exact Hg|]. split; [exact Eg|].
              apply (mrel_trans g e o); [|exact HM]. apply HC; try assumption.
              unfold ckey. rewrite Eg. symmetry. exact EK.
        -- (* a case variant: kept as well *)
           destruct (dedupe (prev ++ [o]) r) as [k2 e2] eqn:ED. injection E as E1 E2. subst kept errs.
           assert (HC' : coherent (prev ++ [o])) by (eapply coherent_snoc_merged; eassumption).
           assert (ND' : NoDup (map o_path (prev ++ [o]))).
           { rewrite map_app. simpl. apply NoDup_app_snoc; [exact ND|]. apply mem_false. exact EX. }
           destruct (IH _ _ _ HC' ND' ED) as [A [B C]]. rewrite <- app_assoc in A, C. simpl in A, C.
           repeat split; try assumption.
           ++ intros x [Hx|Hx]; [left; exact Hx | right; apply B; exact Hx].
           ++ apply C. assumption.
           ++ intros x [Hx|Hx]; [|apply C; assumption]. subst x.
              exists o. split; [apply in_or_app; right; left; reflexivity|]. split; [reflexivity | left; reflexivity].
      * destruct (dedupe prev r) as [k2 e2] eqn:ED. injection E as E1 E2. subst kept errs.
        destruct (IH _ _ _ HC ND ED) as [A [B _]]. repeat split; try assumption; try discriminate.
        intros x Hx. right. apply B. exact Hx.
    + destruct (dedupe (prev ++ [o]) r) as [k2 e2] eqn:ED. injection E as E1 E2. subst kept errs.
      pose proof (find_key_none _ _ EF) as HN.
      assert (HC' : coherent (prev ++ [o])) by (apply coherent_snoc_new; assumption).
      assert (ND' : NoDup (map o_path (prev ++ [o]))).
      { rewrite map_app. simpl. apply NoDup_app_snoc; [exact ND|].
        intro Hin. apply in_map_iff in Hin as [g [Eg Hg]]. apply (HN g Hg). unfold ckey. rewrite Eg. reflexivity. }
      destruct (IH _ _ _ HC' ND' ED) as [A [B C]]. rewrite <- app_assoc in A, C. simpl in A, C.
      repeat split; try assumption.
      * intros x [Hx|Hx]; [left; exact Hx | right; apply B; exact Hx].
      * apply C. assumption.
      * intros x [Hx|Hx]; [|apply C; assumption]. subst x.
        exists o. split; [apply in_or_app; right; left; reflexivity|]. split; [reflexivity | left; reflexivity].
Qed.

Lemma coherent_nil : coherent [].
Proof. intros ? ? []. Qed.

(* from the empty list *)
Lemma dedupe_kept outs kept errs :
  dedupe [] outs = (kept, errs) -> NoDup (map o_path kept) /\ (forall o, In o kept -> In o outs).
Proof.
  intro E. destruct (dedupe_facts outs [] kept errs coherent_nil (NoDup_nil _) E) as [A [B _]]. auto.
Qed.

(* no error: every linked file is represented by a kept file with exactly its
   path (since 11ec04b) that is the file itself or was merged with it *)
Lemma dedupe_represented outs kept :
  dedupe [] outs = (kept, []) ->
  forall o, In o outs -> exists k, In k kept /\ o_path k = o_path o /\ mrel k o.
Proof.
  intros E. destruct (dedupe_facts outs [] kept [] coherent_nil (NoDup_nil _) E) as [_ [_ C]].
  destruct (C eq_refl) as [_ H]. exact H.
Qed.

(* two linked files with one canonical path: the same file, or both mergeable with equal contents *)
Lemma dedupe_mrel outs kept :
  dedupe [] outs = (kept, []) ->
  forall o1 o2, In o1 outs -> In o2 outs -> ckey o1 = ckey o2 -> mrel o1 o2.
Proof.
  intros E o1 o2 H1 H2 EK.
  destruct (dedupe_facts outs [] kept [] coherent_nil (NoDup_nil _) E) as [_ [_ C]].
  destruct (C eq_refl) as [HC HR]. simpl in HC, HR.
  destruct (HR o1 H1) as [k1 [I1 [P1 M1]]]. destruct (HR o2 H2) as [k2 [I2 [P2 M2]]].
  assert (K : mrel k1 k2). { apply HC; try assumption. unfold ckey in *. rewrite P1, P2. exact EK. }
  apply (mrel_trans o1 k1 o2); [apply mrel_sym; exact M1|]. apply (mrel_trans k1 k2 o2); assumption.
Qed.

Lemma dedupe_single_valued outs kept :
  dedupe [] outs = (kept, []) ->
  forall o1 o2, In o1 outs -> In o2 outs -> ckey o1 = ckey o2 -> o_data o1 = o_data o2.
Proof. intros E o1 o2 H1 H2 EK. apply mrel_data. eapply dedupe_mrel; eassumption. Qed.

Lemma dedupe_two_on_one_path outs kept :
  dedupe [] outs = (kept, []) ->
  forall o1 o2, In o1 outs -> In o2 outs -> o1 <> o2 -> ckey o1 = ckey o2 ->
    o_merge o1 = true /\ o_merge o2 = true /\ o_data o1 = o_data o2.
Proof.
  intros E o1 o2 H1 H2 Hne EK. destruct (dedupe_mrel _ _ E o1 o2 H1 H2 EK) as [H|H]; [contradiction | exact H].
Qed.

(* what Compile returns when it leaves no error in the log (directory mode) *)
Lemma compile_ok_facts opt oc kept :
  cancel_early oc = false -> to_stdout opt = false ->
  compile opt oc = (kept, false) ->
  NoDup (map o_path kept) /\
  (forall o, In o kept -> In o (linked oc)) /\
  (forall o, In o (linked oc) -> exists k, In k kept /\ o_path k = o_path o /\ o_data k = o_data o) /\
  (forall o1 o2, In o1 (linked oc) -> In o2 (linked oc) -> ckey o1 = ckey o2 -> o_data o1 = o_data o2) /\
  (effective_allow opt = false -> forall o, In o (linked oc) -> ~ In (ckey o) (map canon (inputs oc))) /\
  link_err oc = false.
Proof.
  intros HC HS. unfold compile. rewrite HC, HS.
  destruct (dedupe [] (linked oc)) as [k e2] eqn:ED. intro E. injection E as E1 E2. subst k.
  apply orb_false_iff in E2 as [E2 E3]. apply orb_false_iff in E2 as [E2 E4].
  destruct e2; [|simpl in E3; discriminate].
  destruct (dedupe_kept _ _ _ ED) as [ND HK].
  repeat split.
  - exact ND.
  - exact HK.
  - intros o Ho. destruct (dedupe_represented _ _ ED o Ho) as [k [Hk [Pk Mk]]].
    exists k. repeat split; try assumption. apply mrel_data. exact Mk.
  - exact (dedupe_single_valued _ _ ED).
  - intros HA o Ho Hin. rewrite HA in E4. unfold overwrite_refused in E4.
    destruct (filter (fun o0 => mem (canon (o_path o0)) (map canon (inputs oc))) (linked oc)) eqn:EF; [|simpl in E4; discriminate].
    assert (In o []) as [].
    rewrite <- EF. apply filter_In. split; [exact Ho|]. apply mem_In. exact Hin.
  - exact E2.
Qed.

Lemma compile_two_on_one_path opt oc kept :
  cancel_early oc = false -> to_stdout opt = false -> compile opt oc = (kept, false) ->
  forall o1 o2, In o1 (linked oc) -> In o2 (linked oc) -> o1 <> o2 -> ckey o1 = ckey o2 ->
    o_merge o1 = true /\ o_merge o2 = true /\ o_data o1 = o_data o2.
Proof.
  intros HC HS. unfold compile. rewrite HC, HS.
  destruct (dedupe [] (linked oc)) as [k e2] eqn:ED. intro E. injection E as E1 E2. subst k.
  apply orb_false_iff in E2 as [_ E3]. destruct e2; [|simpl in E3; discriminate].
  exact (dedupe_two_on_one_path _ _ ED).
Qed.

(* since 11ec04b: when the loop reports no error, the exact path of every
   linked file is the path of a kept file (with the same contents) *)
Lemma dedupe_keeps_exact_path_all outs kept :
  dedupe [] outs = (kept, []) ->
  forall o, In o outs -> exists k, In k kept /\ o_path k = o_path o /\ o_data k = o_data o.
Proof.
  intros E o Ho. destruct (dedupe_represented _ _ E o Ho) as [k [Hk [Pk Mk]]].
  exists k. repeat split; try assumption. apply mrel_data. exact Mk.
Qed.
