(* Checkers evaluated by the correspondence run (vm_compute): each returns the
   indices of the cases on which the model and the observed behaviour of the
   real code differ, or on which the specification predicate fails on the
   observed directory trees. *)
From V Require Import Common.Base C17.WriteSM C17.Spec C17.IOFail C17.PathModel C17.Modes.

Fixpoint mism_from {A} (f : A -> bool) (l : list A) (i : nat) : list nat :=
  match l with
  | [] => []
  | x :: r => if f x then mism_from f r (S i) else i :: mism_from f r (S i)
  end.
Definition mismatches {A} (f : A -> bool) (l : list A) : list nat := mism_from f l 0.

Definition subset (a b : list path) : bool := forallb (fun p => mem p b) a.
Definition set_eqb (a b : list path) : bool := subset a b && subset b a.
Definition disk_eqb (a b : fmap content) : bool :=
  forallb (fun p => optc_eqb (lookup a p) (lookup b p)) (keys a ++ keys b).
Definition pc_list_eqb (a b : list (path * content)) : bool :=
  list_eqb (fun x y => path_eqb (fst x) (fst y) && content_eqb (snd x) (snd y)) a b.

(* ---- Bundle.Compile driven with a stub linker ----
   ((write, allow, stdout), inputs, linked (path, contents, CanBeMerged),
    (files returned by Compile, log has errors)) *)
Definition compile_case : Type :=
  (bool * bool * bool) * list path * list (path * content * bool) * (list (path * content) * bool).

Definition compile_ok (c : compile_case) : bool :=
  let '((w, a, s), ins, lk, (gout, gerr)) := c in
  let oc := mkOutcome false ins false (map (fun x => let '(p, d, m) := x in mkOut p d 0 m) lk) false false false in
  let '(kept, err) := compile (mkOpts w a s) oc in
  pc_list_eqb (map (fun o => (o_path o, o_data o)) kept) gout && Bool.eqb err gerr.
Definition check_compile := mismatches compile_ok.

(* validateBuildOptions through the public API: (mode: 0 Build, 1 Context,
   2 Context+Serve, 3 Context+Watch, 4 the CLI; write, allow-overwrite, an
   output on an input was refused) *)
Definition allow_ok (c : Z * bool * bool * bool) : bool :=
  let '(m, w, a, refused) := c in Bool.eqb (negb (effective_allow (mode_opts (mode_of_Z m) w a false))) refused.
Definition check_allow := mismatches allow_ok.

(* ---- histories of one context on a real directory ----
   step: (external edits before the rebuild (physical path, new contents or None = removed),
          (errors when the write phase started, an on-end callback failed),
          BuildResult.OutputFiles as (path, contents, hash id),
          physical files of inputs,
          physical files created or rewritten by this rebuild,
          directory tree after the rebuild,
          output paths at which creating the directory or writing the file failed) *)
Definition step_case : Type :=
  list (path * option content) * (bool * bool) * list (path * content * Z) * list path * list path * list (path * content) * list path.
(* ((write, allow, stdout), directory symlinks, tree before, steps) *)
Definition hist_case : Type :=
  (bool * bool * bool) * list (path * path) * list (path * content) * list step_case.

Definition apply_edits (d : fmap content) (es : list (path * option content)) : fmap content :=
  fold_left (fun d e => match snd e with Some c => upd d (fst e) c | None => remove d (fst e) end) es d.

Definition outs_of (l : list (path * content * Z)) : list outfile :=
  map (fun x => let '(p, d, h) := x in mkOut p d h true) l.

Fixpoint hist_steps (fixed : bool) (opt : options) (links : list (path * path)) (st : state) (scs : list step_case) : bool :=
  match scs with
  | [] => true
  | (edits, (failed, onend), outs, ins, rewritten, after, wfail) :: r =>
    let phys := phys_links links in
    let st1 := mkState (apply_edits (disk st) edits) (latest st) in
    let oc := mkOutcome failed [] false (outs_of outs) false false onend in
    let '(st2, res) := step_io phys fixed opt st1 oc wfail in
    disk_eqb (disk st2) after
    && set_eqb (map phys (writes_of (r_effects res))) rewritten
    && list_eqb path_eqb (map o_path (r_outputs res)) (map (fun x => fst (fst x)) outs)
    && Bool.eqb (r_errors res) (failed || onend || nonempty wfail)
    && hist_steps fixed opt links st2 r
  end.
Definition hist_ok (fixed : bool) (c : hist_case) : bool :=
  let '((w, a, s), links, d0, scs) := c in
  hist_steps fixed (mkOpts w a s) links (init d0) scs.
(* the current code is [step] = [step_gen true] (after /repo commit d19e8cb);
   [check_hist_before_fix] is the model of the code before that commit *)
Definition check_hist := mismatches (hist_ok true).
Definition check_hist_before_fix := mismatches (hist_ok false).

(* the specification predicates on the observed trees (own = physical files
   written by earlier rebuilds of the history).  For inputs the part that
   holds is evaluated (never overwritten, without symbolic links in play);
   deletion of an input by a rebuild and overwriting through a symbolic link
   are the refuted statements (Properties.v), evaluated by the harness oracle
   on the real code and recorded as findings. *)
Fixpoint spec_steps (w a : bool) (links : list (path * path)) (before : fmap content) (own : list path)
         (scs : list step_case) : bool :=
  match scs with
  | [] => true
  | (edits, (failed, onend), outs, ins, rewritten, after, wfail) :: r =>
    let phys := phys_links links in
    let o := mkObs (apply_edits before edits) after
                   (map (fun x => (phys (fst (fst x)), snd (fst x))) outs) ins failed w a own in
    only_reported_b o && (nonempty wfail || all_reported_written_b o) && failed_no_write_b o && single_valued_b o
    && (nonempty links || inputs_not_overwritten_b o)
    && spec_steps w a links after (rewritten ++ own) r
  end.
Definition spec_ok (c : hist_case) : bool :=
  let '((w, a, s), links, d0, scs) := c in
  spec_steps (w && negb s) a links d0 [] scs.
Definition check_spec (l : list (list hist_case)) := mismatches spec_ok (concat l).

(* ---- the path layer ---- *)
(* fs.RealFS: (a, b, Join(a,b)); (base, target, Rel); (p, Dir, Base, Ext) *)
Definition join_ok (c : path * path * path) : bool := let '(a, b, r) := c in path_eqb (fs_join a b) r.
Definition check_join := mismatches join_ok.
Definition rel_ok (c : path * path * path) : bool := let '(a, b, r) := c in path_eqb (rel a b) r.
Definition check_rel := mismatches rel_ok.
Definition dbe_ok (c : path * path * path * path) : bool :=
  let '(p, d, b, e) := c in path_eqb (fs_dir p) d && path_eqb (fs_base p) b && path_eqb (fs_ext p) e.
Definition check_dbe := mismatches dbe_ok.
(* bundler.PathRelativeToOutbase: (outbase, absPath, avoidIndex, custom, relDir, baseName) *)
Definition prto_ok (c : path * path * bool * path * path * path) : bool :=
  let '(ob, ab, ai, cu, d, b) := c in
  let '(d', b') := path_relative_to_outbase ob ab ai cu in path_eqb d' d && path_eqb b' b.
Definition check_prto := mismatches prto_ok.
(* validatePathTemplate + SubstituteTemplate twice + TemplateToString:
   (template text, dir, name, hash, ext, rendered text) *)
Definition render_ok (c : path * path * path * path * path * path) : bool :=
  let '(t, d, n, h, e, r) := c in path_eqb (render (parse_template t) d n h e) r.
Definition check_render := mismatches render_ok.
(* api.Build: (entry names, outdir, outbase, entry, custom output path, extension, reported output path) *)
Definition outpath_ok (c : path * path * path * path * path * path * path) : bool :=
  let '(t, od, ob, en, cu, ex, r) := c in path_eqb (entry_out_path od (entry_template t) ob en (explicit_custom od cu) [] ex) r.
Definition check_outpath := mismatches outpath_ok.
(* api.Build, file-loader assets: (asset names, outdir, outbase, asset, hash, reported path) *)
Definition assetpath_ok (c : path * path * path * path * path * path) : bool :=
  let '(t, od, ob, a, h, r) := c in path_eqb (asset_out_path od (asset_template t) ob a h) r.
Definition check_assetpath := mismatches assetpath_ok.
(* api.Build with splitting, shared chunks: (chunk names, outdir, hash, extension, reported path) *)
Definition chunkpath_ok (c : path * path * path * path * path) : bool :=
  let '(t, od, h, ex, r) := c in path_eqb (chunk_out_path od (asset_template t) h ex) r.
Definition check_chunkpath := mismatches chunkpath_ok.
(* api.Build, side files: (entry names, outdir, outbase, entry, extension, suffix, reported side file path) *)
Definition sidepath_ok (c : path * path * path * path * path * path * path) : bool :=
  let '(t, od, ob, en, ex, suf, r) := c in
  path_eqb (side_out_path od (entry_rel_path (entry_template t) ob en [] [] ex) suf) r.
Definition check_sidepath := mismatches sidepath_ok.
(* api.Build with outfile: (entry names, outfile, hash, reported output path, reported source map path) *)
Definition outfile_ok (c : path * path * path * path * path) : bool :=
  let '(t, f, h, r, rm) := c in
  path_eqb (outfile_out_path (entry_template t) f h) r
  && path_eqb (side_out_path (fs_dir f) (outfile_rel_path (entry_template t) f h) map_suffix) rm.
Definition check_outfile := mismatches outfile_ok.
