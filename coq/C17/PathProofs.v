(* C17 lemmas about the path layer. *)
From V Require Import Common.Base C17.WriteSM C17.Proofs C17.CompileProofs C17.DiskProofs C17.PathModel.

(* ---------- split / join ---------- *)
Lemma split_on_nonempty c p : split_on c p <> [].
Proof.
  induction p as [|x r IH]; simpl; [discriminate|].
  destruct (x =? c); [discriminate|]. destruct (split_on c r); discriminate.
Qed.

Lemma split_on_app c a b : split_on c (a ++ c :: b) = split_on c a ++ split_on c b.
Proof.
  induction a as [|x a IH]; simpl.
  - rewrite Z.eqb_refl. reflexivity.
  - destruct (x =? c) eqn:E.
    + rewrite IH. reflexivity.
    + rewrite IH. destruct (split_on c a) as [|s t] eqn:ES.
      * exfalso. exact (split_on_nonempty c a ES).
      * reflexivity.
Qed.

(* ---------- parent-directory segments ---------- *)
Definition has_dd (p : path) : bool := existsb (path_eqb seg_dotdot) (split_on SL p).
Lemma no_dotdot_seg_has_dd p : no_dotdot_seg p = negb (has_dd p).
Proof. reflexivity. Qed.

Lemma has_dd_app a b : has_dd (a ++ SL :: b) = has_dd a || has_dd b.
Proof. unfold has_dd. rewrite split_on_app, existsb_app. reflexivity. Qed.
Lemma has_dd_cons_slash p : has_dd (SL :: p) = has_dd p.
Proof. change (SL :: p) with ([] ++ SL :: p). rewrite has_dd_app. reflexivity. Qed.
Lemma has_dd_nil : has_dd [] = false.
Proof. reflexivity. Qed.

Lemma has_dd_slashes k : has_dd (repeat SL k) = false.
Proof.
  induction k as [|k IH]; [reflexivity|].
  change (repeat SL (S k)) with ([] ++ SL :: repeat SL k). rewrite has_dd_app, IH. reflexivity.
Qed.

Lemma strip_trailing_decomp p : exists k, p = strip_trailing SL p ++ repeat SL k.
Proof.
  induction p as [|x r [k IH]]; [exists O; reflexivity|].
  simpl. destruct (strip_trailing SL r) as [|y r'] eqn:ES.
  - destruct (x =? SL) eqn:EX.
    + apply Z.eqb_eq in EX. subst x. exists (S k). simpl in *. rewrite IH at 1. reflexivity.
    + exists k. simpl in *. rewrite IH at 1. reflexivity.
  - exists k. rewrite IH at 1. reflexivity.
Qed.

Lemma has_dd_strip_trailing p : has_dd p = false -> has_dd (strip_trailing SL p) = false.
Proof.
  intro H. destruct (strip_trailing_decomp p) as [k E].
  destruct k as [|k].
  - simpl in E. rewrite app_nil_r in E. rewrite <- E. exact H.
  - rewrite E in H. simpl in H. rewrite has_dd_app in H. apply orb_false_iff in H. tauto.
Qed.

Lemma has_prefix_app pre p : has_prefix pre p = true -> exists t, p = pre ++ t.
Proof.
  revert p. induction pre as [|a pre IH]; intros p H; [exists p; reflexivity|].
  destruct p as [|b p]; [discriminate|]. simpl in H. apply andb_true_iff in H as [E H].
  apply Z.eqb_eq in E. subst b. destruct (IH _ H) as [t Et]. exists t. simpl. rewrite Et. reflexivity.
Qed.
Lemma has_suffix_app suf p : has_suffix suf p = true -> exists q, p = q ++ suf.
Proof.
  unfold has_suffix. intro H. apply has_prefix_app in H as [t E].
  exists (rev t). rewrite <- (rev_involutive p), E, rev_app_distr, rev_involutive. reflexivity.
Qed.

Lemma has_dd_drop_final_dot q : has_dd (removelast (q ++ [SL; 46])) = has_dd (q ++ [SL; 46]).
Proof.
  change (q ++ [SL; 46]) with (q ++ SL :: [46]).
  assert (E : removelast (q ++ SL :: [46]) = q ++ SL :: []).
  { rewrite removelast_app by discriminate. reflexivity. }
  rewrite E, !has_dd_app. reflexivity.
Qed.

Lemma has_dd_underscored n tail : has_dd (concat (repeat underscored n) ++ tail) = has_dd tail.
Proof.
  induction n as [|n IH]; [reflexivity|].
  change (concat (repeat underscored (S n))) with (underscored ++ concat (repeat underscored n)).
  rewrite <- app_assoc.
  change (underscored ++ concat (repeat underscored n) ++ tail)
    with ([95; 46; 46; 95] ++ SL :: (concat (repeat underscored n) ++ tail)).
  rewrite has_dd_app, IH. reflexivity.
Qed.

(* the "../" -> "_.._/" rewrite of PathRelativeToOutbase: when the directory
   text has parent-directory segments only as a leading run, the result has none *)
Lemma neutralise_no_dotdot d0 :
  let d1 := map (fun c => if c =? 92 then SL else c) d0 in
  let n := count_dotdot (length d1) d1 in
  has_dd (skipn (n * 3) d1) = false ->
  has_dd (neutralise d0) = false.
Proof.
  intros d1 n H. unfold neutralise. fold d1. fold n.
  set (d2 := if 0 <? Z.of_nat n then concat (repeat underscored n) ++ skipn (n * 3) d1 else d1).
  assert (H2 : has_dd d2 = false).
  { unfold d2. destruct (0 <? Z.of_nat n) eqn:E.
    - rewrite has_dd_underscored. exact H.
    - assert (n = O) by lia. subst n. rewrite H0 in H. simpl in H. exact H. }
  assert (H3 : has_dd (SL :: strip_trailing SL d2) = false).
  { rewrite has_dd_cons_slash. apply has_dd_strip_trailing. exact H2. }
  destruct (has_suffix [SL; 46] (SL :: strip_trailing SL d2)) eqn:ES; [|exact H3].
  apply has_suffix_app in ES as [q E]. rewrite E in *. rewrite has_dd_drop_final_dot. exact H3.
Qed.

(* ---------- clean / join: staying inside the output directory ---------- *)
Definition proper (s : path) : bool := negb (path_eqb s [] || path_eqb s seg_dot).

Lemma clean_stack_app r st a b : clean_stack r st (a ++ b) = clean_stack r (clean_stack r st a) b.
Proof. unfold clean_stack. apply fold_left_app. Qed.

Lemma clean_stack_no_dotdot r segs : forall st,
  existsb (path_eqb seg_dotdot) segs = false ->
  clean_stack r st segs = rev (filter proper segs) ++ st.
Proof.
  induction segs as [|s segs IH]; intros st H; [reflexivity|].
  simpl in H. apply orb_false_iff in H as [Hs H].
  change (clean_stack r st (s :: segs)) with (clean_stack r (push r st s) segs).
  rewrite (IH _ H). unfold push, proper. simpl filter.
  assert (X : path_eqb s seg_dotdot = false) by (rewrite path_eqb_sym; exact Hs).
  destruct (path_eqb s [] || path_eqb s seg_dot) eqn:E; simpl.
  - reflexivity.
  - rewrite X. simpl. rewrite <- app_assoc. reflexivity.
Qed.

Lemma is_rooted_app a b : a <> [] -> is_rooted (a ++ b) = is_rooted a.
Proof. destruct a; [contradiction | reflexivity]. Qed.

(* joining a relative path without parent-directory segments onto a directory
   only appends path elements to the cleaned directory *)
Lemma clean_segs_join outdir relp :
  outdir <> [] -> no_dotdot_seg relp = true ->
  clean_segs (outdir ++ SL :: relp) = clean_segs outdir ++ filter proper (split_on SL relp).
Proof.
  intros HO HR. unfold clean_segs. rewrite (is_rooted_app _ _ HO), split_on_app, clean_stack_app.
  rewrite clean_stack_no_dotdot.
  - rewrite rev_app_distr, rev_involutive. reflexivity.
  - unfold no_dotdot_seg in HR. apply negb_true_iff in HR. exact HR.
Qed.

Lemma fs_join_inside outdir relp :
  is_rooted outdir = true -> relp <> [] -> no_dotdot_seg relp = true ->
  fs_join outdir relp = SL :: join_with SL (clean_segs outdir ++ filter proper (split_on SL relp)).
Proof.
  intros HR HN HD.
  assert (HO : outdir <> []) by (destruct outdir; [discriminate | discriminate]).
  unfold fs_join. destruct outdir as [|o outdir]; [contradiction|]. destruct relp as [|x relp]; [contradiction|].
  unfold clean. rewrite (is_rooted_app (o :: outdir) (SL :: x :: relp) HO), HR.
  rewrite (clean_segs_join (o :: outdir) (x :: relp) HO HD). reflexivity.
Qed.

(* ---------- lifting the overwrite check to concrete output paths ---------- *)
Record entry := mkEntry {
  e_path : path;      (* absolute path of the entry point's source file *)
  e_custom : path;    (* explicit output path, or [] *)
  e_hash : path;      (* text substituted for [hash] *)
  e_ext : path;       (* output extension with its dot *)
  e_data : content;
  e_h : hash
}.
Definition linked_of_entries (outdir : path) (tmpl : list tpart) (outbase : path) (es : list entry) : list outfile :=
  map (fun e => mkOut (entry_out_path outdir tmpl outbase (e_path e) (e_custom e) (e_hash e) (e_ext e)) (e_data e) (e_h e) false) es.

Lemma nonempty_map {A B} (f : A -> B) l : nonempty (map f l) = nonempty l.
Proof. destruct l; reflexivity. Qed.

Lemma concrete_output_on_input_is_refused opt outdir tmpl outbase es ins lerr cl onend e :
  to_stdout opt = false -> effective_allow opt = false ->
  In e es ->
  In (canon (entry_out_path outdir tmpl outbase (e_path e) (e_custom e) (e_hash e) (e_ext e))) (map canon ins) ->
  snd (compile opt (mkOutcome false ins false (linked_of_entries outdir tmpl outbase es) lerr cl onend)) = true.
Proof.
  intros HS HA He Hin. unfold compile. cbn [cancel_early linked inputs link_err]. rewrite HS, HA.
  destruct (dedupe [] (linked_of_entries outdir tmpl outbase es)) as [kept e2]. cbn [snd].
  assert (X : nonempty (overwrite_refused ins (linked_of_entries outdir tmpl outbase es)) = true).
  { unfold overwrite_refused. rewrite nonempty_map.
    destruct (filter (fun o => mem (canon (o_path o)) (map canon ins)) (linked_of_entries outdir tmpl outbase es)) eqn:EF; [|reflexivity].
    exfalso.
    assert (In (mkOut (entry_out_path outdir tmpl outbase (e_path e) (e_custom e) (e_hash e) (e_ext e)) (e_data e) (e_h e) false) []) as [].
    rewrite <- EF. apply filter_In. split.
    - unfold linked_of_entries. apply in_map_iff. exists e. auto.
    - cbn [o_path]. apply mem_In. exact Hin. }
  rewrite X. rewrite orb_true_r. reflexivity.
Qed.

(* ---------- output_inside_outdir for every kind of output file ---------- *)
Lemma render_nonempty_rel t dir name hash ext e : e <> [] -> render (t ++ [(e, None)]) dir name hash ext <> [].
Proof.
  intro He. unfold render. rewrite map_app, concat_app. simpl. rewrite !app_nil_r.
  intro H. apply app_eq_nil in H as [_ H]. contradiction.
Qed.

Lemma entry_inside outdir tmpl outbase entry custom hash ext :
  is_rooted outdir = true -> ext <> [] ->
  no_dotdot_seg (entry_rel_path tmpl outbase entry custom hash ext) = true ->
  entry_out_path outdir tmpl outbase entry custom hash ext =
  SL :: join_with SL (clean_segs outdir ++ filter proper (split_on SL (entry_rel_path tmpl outbase entry custom hash ext))).
Proof.
  intros HR HE HD. unfold entry_out_path. apply fs_join_inside; try assumption.
  unfold entry_rel_path. destruct (path_relative_to_outbase _ _ _ _). apply render_nonempty_rel. exact HE.
Qed.

Lemma chunk_inside outdir tmpl hash ext :
  is_rooted outdir = true -> ext <> [] ->
  no_dotdot_seg (chunk_rel_path tmpl hash ext) = true ->
  chunk_out_path outdir tmpl hash ext =
  SL :: join_with SL (clean_segs outdir ++ filter proper (split_on SL (chunk_rel_path tmpl hash ext))).
Proof.
  intros HR HE HD. unfold chunk_out_path. apply fs_join_inside; try assumption.
  unfold chunk_rel_path. apply render_nonempty_rel. exact HE.
Qed.

Lemma asset_inside outdir tmpl outbase asset hash :
  is_rooted outdir = true -> asset_rel_path tmpl outbase asset hash <> [] ->
  no_dotdot_seg (asset_rel_path tmpl outbase asset hash) = true ->
  asset_out_path outdir tmpl outbase asset hash =
  SL :: join_with SL (clean_segs outdir ++ filter proper (split_on SL (asset_rel_path tmpl outbase asset hash))).
Proof. intros HR HN HD. unfold asset_out_path. apply fs_join_inside; assumption. Qed.
