(* C17: histories with failures during the write phase ([step_io]): what a
   rebuild deletes. *)
From V Require Import Common.Base C17.WriteSM C17.Proofs C17.DiskProofs C17.IOFail.

Definition io_item : Type := outcome * list path * result.

Section WithFS.
Variable phys : path -> path.
Variable fixed : bool.
Variable fixio : bool.     (* true: /repo as of b32af0b; false: before *)
Variable opt : options.

(* a history with, for every rebuild, what scan+link produced, where writing
   failed, and the result *)
Fixpoint trace_io_full (st : state) (ocs : list (outcome * list path)) : list io_item :=
  match ocs with
  | [] => []
  | (oc, wf) :: r => let '(st', res) := step_io_gen phys fixed fixio opt st oc wf in (oc, wf, res) :: trace_io_full st' r
  end.

Definition reported_paths (rs : list io_item) : list path := flat_map (fun x => map o_path (r_outputs (snd x))) rs.
Definition written_paths_io (rs : list io_item) : list path := flat_map (fun x => writes_of (r_effects (snd x))) rs.
(* paths at which a write failed and that nevertheless stayed in the hash table: none since b32af0b *)
Definition failed_paths (rs : list io_item) : list path :=
  if fixio then [] else flat_map (fun x => snd (fst x)) rs.

Lemma lookup_forget_failed old l : forall m q,
  lookup (forget_failed m old l) q = if mem q l then lookup old q else lookup m q.
Proof.
  induction l as [|p l IH]; intros m q; [reflexivity|].
  change (forget_failed m old (p :: l))
    with (forget_failed (match lookup old p with Some h => upd m p h | None => remove m p end) old l).
  rewrite IH. unfold mem at 2. simpl existsb. fold (mem q l).
  destruct (mem q l); [rewrite orb_true_r; reflexivity|]. rewrite orb_false_r.
  rewrite (path_eqb_sym q p).
  destruct (lookup old p) as [h|] eqn:EL.
  - rewrite lookup_upd. destruct (path_eqb p q) eqn:E; [|reflexivity].
    apply path_eqb_eq in E. subst. symmetry. exact EL.
  - rewrite lookup_remove. destruct (path_eqb p q) eqn:E; [|reflexivity].
    apply path_eqb_eq in E. subst. symmetry. exact EL.
Qed.

Lemma in_keys_lookup {V} (m : fmap V) p : In p (keys m) <-> lookup m p <> None.
Proof.
  split.
  - intros H E. apply lookup_none_keys in E. contradiction.
  - intro H. destruct (in_dec (list_eq_dec Z.eq_dec) p (keys m)) as [I|N]; [exact I|].
    apply lookup_none_keys in N. contradiction.
Qed.

(* every path of the hash table was reported by an earlier rebuild, and was
   either written or is a path at which writing failed *)
Definition table_inv (st : state) (R W F : list path) : Prop :=
  write opt = true -> to_stdout opt = false ->
  forall p, In p (keys (latest st)) -> In p R /\ (In p W \/ In p F).

Lemma step_io_cases st oc wf st' r :
  step_io_gen phys fixed fixio opt st oc wf = (st', r) ->
  write opt = true -> to_stdout opt = false ->
  (r_failed_early r = true /\ r_outputs r = [] /\
   latest st' = (if fixed then latest st else []) /\
   (forall p, In (EDelete p) (r_effects r) -> fixed = false /\ In p (keys (latest st))) /\
   writes_of (r_effects r) = [])
  \/
  (r_failed_early r = false /\
   (exists failed, (forall p, In p failed -> In p wf) /\
      latest st' = (if fixio then forget_failed (hashes_of (r_outputs r)) (latest st) failed else hashes_of (r_outputs r)) /\
      (forall o, In o (r_outputs r) ->
         In (o_path o) (keys (latest st)) \/ In (o_path o) failed \/ In (o_path o) (writes_of (r_effects r)))) /\
   (forall p, In (EDelete p) (r_effects r) -> In p (keys (latest st)) /\ ~ In p (map o_path (r_outputs r)))).
Proof.
  unfold step_io_gen.
  destruct (if scan_err oc then ([], true)
            else let '(res, cerr) := compile opt oc in (res, cerr || cancel_early oc || cancel_late oc)) as [results err1].
  intros E HW HS. injection E as E1 E2. subst st' r. rewrite HW, HS.
  cbn [negb andb r_failed_early r_outputs r_effects latest]. destruct err1; cbn [negb andb].
  - left. repeat split.
    + rewrite andb_true_r. destruct fixed; [reflexivity|]. simpl. destruct fixio; reflexivity.
    + rewrite andb_true_r in H. destruct fixed; [contradiction | reflexivity].
    + rewrite andb_true_r in H. destruct fixed; [contradiction|]. simpl in H.
      apply in_map_iff in H as [q [Eq Hq]]. injection Eq as Eq. subst q. apply filter_In in Hq as [Hq _]. exact Hq.
    + rewrite andb_true_r. destruct fixed; [reflexivity|]. simpl. apply writes_of_deletes.
  - right. rewrite andb_false_r, map_id. split; [reflexivity|]. split.
    + eexists. split; [|split; [reflexivity|]].
      * intros p Hp. apply in_map_iff in Hp as [o [Eo Ho]]. subst p. apply filter_In in Ho as [_ Ho]. apply mem_In. exact Ho.
      * intros o Ho. destruct (skip phys st (hashes_of results) o) eqn:ES.
        -- left. unfold skip in ES. destruct (lookup (latest st) (o_path o)) eqn:EL; [|discriminate].
           eapply lookup_in_keys. exact EL.
        -- right. destruct (mem (o_path o) wf) eqn:EM.
           ++ left. apply in_map. apply filter_In. split; [|exact EM].
              apply filter_In. split; [exact Ho | rewrite ES; reflexivity].
           ++ right. rewrite writes_of_app, writes_of_deletes, app_nil_r.
              unfold writes_of. apply in_flat_map.
              exists (EWrite (o_path o) (o_data o)). split; [|left; reflexivity].
              apply in_flat_map. exists o. split.
              ** apply filter_In. split; [exact Ho | rewrite ES; reflexivity].
              ** rewrite EM. left. reflexivity.
    + intros p H. split.
      * apply in_app_or in H as [H|H].
        -- exfalso. apply in_flat_map in H as [o [_ Hi]]. destruct (mem (o_path o) wf); simpl in Hi; [contradiction|].
           destruct Hi as [Hi|[]]. discriminate.
        -- apply in_map_iff in H as [q [Eq Hq]]. injection Eq as Eq. subst q. apply filter_In in Hq as [Hq _]. exact Hq.
      * apply in_app_or in H as [H|H].
        -- exfalso. apply in_flat_map in H as [o [_ Hi]]. destruct (mem (o_path o) wf); simpl in Hi; [contradiction|].
           destruct Hi as [Hi|[]]. discriminate.
        -- apply in_map_iff in H as [q [Eq Hq]]. injection Eq as Eq. subst q. apply filter_In in Hq as [_ Hq].
           apply negb_true_iff in Hq. apply mem_false in Hq. intro Hin. apply Hq. apply keys_hashes_of. exact Hin.
Qed.

Lemma table_inv_step st oc wf st' r R W F :
  step_io_gen phys fixed fixio opt st oc wf = (st', r) ->
  table_inv st R W F ->
  table_inv st' (R ++ map o_path (r_outputs r)) (W ++ writes_of (r_effects r)) (F ++ (if fixio then [] else wf)).
Proof.
  intros E Inv HW HS p Hp.
  destruct (step_io_cases _ _ _ _ _ E HW HS) as [[_ [_ [EL _]]]|[_ [[failed [HFW [EL HO]]] _]]].
  - rewrite EL in Hp. destruct fixed; [|contradiction].
    destruct (Inv HW HS p Hp) as [A [B|B]]; split; try (apply in_or_app; left; assumption).
    + left. apply in_or_app. left. exact B.
    + right. apply in_or_app. left. exact B.
  - assert (OLD : forall q, In q (keys (latest st)) -> In q (R ++ map o_path (r_outputs r)) /\
                  (In q (W ++ writes_of (r_effects r)) \/ In q (F ++ (if fixio then [] else wf)))).
    { intros q H. destruct (Inv HW HS _ H) as [A [B|B]]; (split; [apply in_or_app; left; exact A|]);
        [left | right]; apply in_or_app; left; exact B. }
    assert (NEW : forall o, In o (r_outputs r) -> (fixio = true -> ~ In (o_path o) failed) ->
                  In (o_path o) (R ++ map o_path (r_outputs r)) /\
                  (In (o_path o) (W ++ writes_of (r_effects r)) \/ In (o_path o) (F ++ (if fixio then [] else wf)))).
    { intros o Ho HNF. destruct (HO o Ho) as [H|[H|H]].
      - apply OLD. exact H.
      - split; [apply in_or_app; right; apply in_map; exact Ho|].
        destruct fixio; [exfalso; exact (HNF eq_refl H)|].
        right. apply in_or_app. right. apply HFW. exact H.
      - split; [apply in_or_app; right; apply in_map; exact Ho|]. left. apply in_or_app. right. exact H. }
    rewrite EL in Hp. destruct fixio.
    + apply in_keys_lookup in Hp. rewrite lookup_forget_failed in Hp.
      destruct (mem p failed) eqn:EM.
      * apply OLD. apply in_keys_lookup. exact Hp.
      * apply in_keys_lookup, keys_hashes_of in Hp. apply in_map_iff in Hp as [o [Eo Ho]]. subst p.
        apply NEW; [exact Ho|]. intros _ Hin. apply mem_false in EM. contradiction.
    + apply keys_hashes_of in Hp. apply in_map_iff in Hp as [o [Eo Ho]]. subst p.
      apply NEW; [exact Ho | discriminate].
Qed.

Lemma io_deletes_gen ocs : forall st R W F,
  table_inv st R W F ->
  forall pre oc wf res post, trace_io_full st ocs = pre ++ (oc, wf, res) :: post ->
  forall p, In (EDelete p) (r_effects res) ->
    In p (R ++ reported_paths pre) /\
    ~ In p (map o_path (r_outputs res)) /\
    (In p (W ++ written_paths_io pre) \/ In p (F ++ failed_paths pre)) /\
    ((forall q, In q (inputs oc) -> ~ In q (R ++ reported_paths pre)) -> ~ In p (inputs oc)).
Proof.
  induction ocs as [|[oc0 wf0] ocs IH]; intros st R W F Inv pre oc wf res post E p Hp.
  - destruct pre; discriminate.
  - simpl in E. destruct (step_io_gen phys fixed fixio opt st oc0 wf0) as [st' r0] eqn:ES.
    destruct pre as [|x pre].
    + simpl in E. injection E as E1 E2 E3 E4. subst oc0 wf0 r0.
      assert (HWS : write opt = true /\ to_stdout opt = false).
      { revert ES Hp. unfold step_io_gen.
        destruct (if scan_err oc then ([], true)
                  else let '(res0, cerr) := compile opt oc in (res0, cerr || cancel_early oc || cancel_late oc)) as [results err1].
        intro E. injection E as E1 E2. subst st' res. cbn [r_effects].
        destruct (write opt); [|intros []]. destruct (to_stdout opt); [intros []|]. auto. }
      destruct HWS as [HW HS].
      assert (Hk : In p (keys (latest st)) /\ ~ In p (map o_path (r_outputs res))).
      { destruct (step_io_cases _ _ _ _ _ ES HW HS) as [[_ [EO [_ [HD _]]]]|[_ [_ HD]]].
        - destruct (HD p Hp) as [_ Hk]. split; [exact Hk|]. rewrite EO. intros [].
        - exact (HD p Hp). }
      destruct Hk as [Hk Hn]. destruct (Inv HW HS p Hk) as [A B].
      unfold reported_paths, written_paths_io, failed_paths. simpl.
      assert (X : (if fixio then (@nil path) else []) = []) by (destruct fixio; reflexivity).
      rewrite X, !app_nil_r.
      repeat split; try assumption.
      intros Hq Hin. exact (Hq p Hin A).
    + simpl in E. injection E as E1 E2. subst x.
      pose proof (table_inv_step _ _ _ _ _ _ _ _ ES Inv) as Inv'.
      destruct (IH _ _ _ _ Inv' _ _ _ _ _ E2 p Hp) as [A [B [C D]]].
      assert (FE : (F ++ (if fixio then [] else wf0)) ++ failed_paths pre = F ++ failed_paths ((oc0, wf0, r0) :: pre)).
      { unfold failed_paths. destruct fixio; [rewrite !app_nil_r; reflexivity|]. cbn [flat_map fst snd]. rewrite app_assoc. reflexivity. }
      rewrite FE in C.
      unfold reported_paths, written_paths_io in *. cbn [flat_map fst snd].
      rewrite !app_assoc. repeat split; assumption.
Qed.

End WithFS.

(* from the initial state of a context; before b32af0b *)
Lemma io_deletes_all_before_fix phys fixed opt d0 ocs pre oc wf res post :
  trace_io_full phys fixed false opt (init d0) ocs = pre ++ (oc, wf, res) :: post ->
  forall p, In (EDelete p) (r_effects res) ->
    In p (reported_paths pre) /\
    ~ In p (map o_path (r_outputs res)) /\
    (In p (written_paths_io pre) \/ In p (failed_paths false pre)) /\
    ((forall q, In q (inputs oc) -> ~ In q (reported_paths pre)) -> ~ In p (inputs oc)).
Proof.
  intros E p Hp.
  apply (io_deletes_gen phys fixed false opt ocs (init d0) [] [] [] (fun _ _ _ F => match F with end) pre oc wf res post E p Hp).
Qed.

(* the current code: whatever is deleted was WRITTEN by an earlier rebuild, write failures or not *)
Lemma io_deletes_all phys fixed opt d0 ocs pre oc wf res post :
  trace_io_full phys fixed true opt (init d0) ocs = pre ++ (oc, wf, res) :: post ->
  forall p, In (EDelete p) (r_effects res) ->
    In p (reported_paths pre) /\
    ~ In p (map o_path (r_outputs res)) /\
    In p (written_paths_io pre) /\
    ((forall q, In q (inputs oc) -> ~ In q (reported_paths pre)) -> ~ In p (inputs oc)).
Proof.
  intros E p Hp.
  destruct (io_deletes_gen phys fixed true opt ocs (init d0) [] [] [] (fun _ _ _ F => match F with end) pre oc wf res post E p Hp)
    as [A [B [[C|C] D]]]; try (repeat split; assumption).
  simpl in C. contradiction.
Qed.
