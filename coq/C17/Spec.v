(* C17 specification, written from the property text (not from esbuild's code):
   what one build may do to a directory tree, as a predicate on what can be
   observed from outside: the tree before, the tree after, what the build
   reported, which files were its inputs, and which files earlier builds of the
   same context wrote.  The finite-map vocabulary (lookup on association
   lists) is shared with the model; nothing else is. *)
From V Require Import Common.Base C17.WriteSM.

Record observation := mkObs {
  ob_before : fmap content;             (* regular files before the build *)
  ob_after : fmap content;              (* regular files after the build *)
  ob_reported : list (path * content);  (* BuildResult.OutputFiles, as physical paths *)
  ob_inputs : list path;                (* files the build read as inputs *)
  ob_failed : bool;                     (* the build reported errors or was cancelled *)
  ob_write : bool;                      (* writing enabled *)
  ob_allow : bool;                      (* overwriting explicitly allowed *)
  ob_own : list path                    (* files written by earlier builds of this context *)
}.

Definition changed (o : observation) (p : path) : Prop := lookup (ob_after o) p <> lookup (ob_before o) p.

(* "A build writes exactly the files it reports as outputs, at the reported paths" *)
Definition spec_only_reported (o : observation) : Prop :=
  forall p, changed o p ->
    (exists c, In (p, c) (ob_reported o) /\ lookup (ob_after o) p = Some c)
    \/ (lookup (ob_after o) p = None /\ In p (ob_own o) /\ ~ In p (map fst (ob_reported o))).
Definition spec_all_reported_written (o : observation) : Prop :=
  ob_failed o = false -> ob_write o = true ->
  forall p c, In (p, c) (ob_reported o) -> lookup (ob_after o) p = Some c.

(* "the only files a rebuild ever deletes are files that an earlier build of the
   same context wrote itself and that are not outputs of the current build" *)
Definition spec_deletes_own (o : observation) : Prop :=
  forall p, lookup (ob_before o) p <> None -> lookup (ob_after o) p = None ->
    In p (ob_own o) /\ ~ In p (map fst (ob_reported o)).

(* "A build that reports errors, a cancelled build and a build with writing
   disabled never create or modify any file" *)
Definition spec_failed_no_write (o : observation) : Prop :=
  ob_failed o = true \/ ob_write o = false ->
  forall p, lookup (ob_after o) p <> None -> lookup (ob_after o) p = lookup (ob_before o) p.
(* the strong reading: such a build does not change the tree at all *)
Definition spec_failed_unchanged (o : observation) : Prop :=
  ob_failed o = true \/ ob_write o = false ->
  forall p, lookup (ob_after o) p = lookup (ob_before o) p.

(* "never overwrites or deletes a file that was one of its inputs unless
   overwriting was explicitly allowed" *)
Definition spec_inputs_safe (o : observation) : Prop :=
  ob_allow o = false -> forall p, In p (ob_inputs o) -> lookup (ob_after o) p = lookup (ob_before o) p.

(* "two outputs are never written to one path with different contents" *)
Definition spec_single_valued (o : observation) : Prop :=
  forall p c1 c2, In (p, c1) (ob_reported o) -> In (p, c2) (ob_reported o) -> c1 = c2.

(* ---- boolean deciders over the finite support (used on real observations) ---- *)
Definition optc_eqb (a b : option content) : bool := option_eqb content_eqb a b.
Definition support (o : observation) : list path :=
  keys (ob_before o) ++ keys (ob_after o) ++ map fst (ob_reported o) ++ ob_inputs o.
Definition changedb (o : observation) (p : path) : bool := negb (optc_eqb (lookup (ob_after o) p) (lookup (ob_before o) p)).
Definition reports (o : observation) (p : path) (c : content) : bool :=
  existsb (fun pc => path_eqb (fst pc) p && content_eqb (snd pc) c) (ob_reported o).

Definition only_reported_b (o : observation) : bool :=
  forallb (fun p =>
    negb (changedb o p) ||
    match lookup (ob_after o) p with
    | Some c => reports o p c
    | None => mem p (ob_own o) && negb (mem p (map fst (ob_reported o)))
    end) (support o).
Definition all_reported_written_b (o : observation) : bool :=
  ob_failed o || negb (ob_write o) ||
  forallb (fun pc => optc_eqb (lookup (ob_after o) (fst pc)) (Some (snd pc))) (ob_reported o).
Definition failed_no_write_b (o : observation) : bool :=
  negb (ob_failed o || negb (ob_write o)) ||
  forallb (fun p => match lookup (ob_after o) p with
                    | None => true
                    | Some c => optc_eqb (Some c) (lookup (ob_before o) p)
                    end) (support o).
Definition failed_unchanged_b (o : observation) : bool :=
  negb (ob_failed o || negb (ob_write o)) || forallb (fun p => negb (changedb o p)) (support o).
Definition inputs_safe_b (o : observation) : bool :=
  ob_allow o || forallb (fun p => negb (changedb o p)) (ob_inputs o).
(* the part of spec_inputs_safe about overwriting only (deletion of an input by
   a rebuild is the refuted part, see Properties.v) *)
Definition spec_inputs_not_overwritten (o : observation) : Prop :=
  ob_allow o = false -> forall p, In p (ob_inputs o) ->
  lookup (ob_after o) p <> None -> lookup (ob_after o) p = lookup (ob_before o) p.
Definition inputs_not_overwritten_b (o : observation) : bool :=
  ob_allow o || forallb (fun p => match lookup (ob_after o) p with
                                  | None => true
                                  | Some c => optc_eqb (Some c) (lookup (ob_before o) p)
                                  end) (ob_inputs o).
Definition single_valued_b (o : observation) : bool :=
  forallb (fun a => forallb (fun b => negb (path_eqb (fst a) (fst b)) || content_eqb (snd a) (snd b)) (ob_reported o)) (ob_reported o).
