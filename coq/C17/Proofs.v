(* C17 lemmas about the write/delete state machine. *)
From V Require Import Common.Base C17.WriteSM.

(* ---------- equality deciders ---------- *)
Lemma path_eqb_eq a b : path_eqb a b = true <-> a = b.
Proof. apply zlist_eqb_eq. Qed.
Lemma path_eqb_refl a : path_eqb a a = true.
Proof. apply path_eqb_eq; reflexivity. Qed.
Lemma path_eqb_neq a b : path_eqb a b = false <-> a <> b.
Proof.
  split; intro H.
  - intro E. apply path_eqb_eq in E. congruence.
  - destruct (path_eqb a b) eqn:E; [apply path_eqb_eq in E; contradiction | reflexivity].
Qed.
Lemma content_eqb_eq a b : content_eqb a b = true <-> a = b.
Proof. apply zlist_eqb_eq. Qed.

Lemma mem_In p l : mem p l = true <-> In p l.
Proof.
  unfold mem. rewrite existsb_exists. split.
  - intros [x [Hx E]]. apply path_eqb_eq in E. subst. exact Hx.
  - intro H. exists p. split; [exact H | apply path_eqb_refl].
Qed.
Lemma mem_false p l : mem p l = false <-> ~ In p l.
Proof.
  split; intro H.
  - intro I. apply mem_In in I. congruence.
  - destruct (mem p l) eqn:E; [apply mem_In in E; contradiction | reflexivity].
Qed.

(* ---------- finite maps ---------- *)
Lemma lookup_upd {V} (m : fmap V) p v q :
  lookup (upd m p v) q = if path_eqb p q then Some v else lookup m q.
Proof. reflexivity. Qed.
Lemma lookup_remove {V} (m : fmap V) p q :
  lookup (remove m p) q = if path_eqb p q then None else lookup m q.
Proof.
  induction m as [|[k v] m IH]; simpl.
  - destruct (path_eqb p q); reflexivity.
  - destruct (path_eqb k p) eqn:Ekp.
    + apply path_eqb_eq in Ekp. subst k. rewrite IH.
      destruct (path_eqb p q); reflexivity.
    + simpl. destruct (path_eqb k q) eqn:Ekq.
      * apply path_eqb_eq in Ekq. subst k.
        destruct (path_eqb p q) eqn:Epq; [|reflexivity].
        apply path_eqb_eq in Epq. subst. rewrite path_eqb_refl in Ekp. discriminate.
      * exact IH.
Qed.
Lemma lookup_in_keys {V} (m : fmap V) p v : lookup m p = Some v -> In p (keys m).
Proof.
  induction m as [|[k w] m IH]; simpl; [discriminate|].
  destruct (path_eqb k p) eqn:E.
  - apply path_eqb_eq in E. intros _. left. exact E.
  - intro H. right. apply IH. exact H.
Qed.
Lemma lookup_none_keys {V} (m : fmap V) p : lookup m p = None <-> ~ In p (keys m).
Proof.
  induction m as [|[k w] m IH]; simpl.
  - split; [intros _ [] | reflexivity].
  - destruct (path_eqb k p) eqn:E.
    + apply path_eqb_eq in E. split; [discriminate | intro H; exfalso; apply H; left; exact E].
    + apply path_eqb_neq in E. rewrite IH. split; intro H.
      * intros [F|F]; [contradiction | apply H; exact F].
      * intro F. apply H. right. exact F.
Qed.

(* ---------- validateBuildOptions ---------- *)
Lemma effective_allow_spec o :
  effective_allow o = true <-> allow_overwrite o = true \/ write o = false.
Proof.
  unfold effective_allow. rewrite orb_true_iff, negb_true_iff. tauto.
Qed.

Lemma keys_hashes_of_aux outs m :
  forall p, In p (keys (fold_left (fun m o => upd m (o_path o) (o_hash o)) outs m)) <->
            In p (map o_path outs) \/ In p (keys m).
Proof.
  revert m. induction outs as [|o outs IH]; intros m p; simpl.
  - tauto.
  - rewrite IH. unfold upd, keys. simpl. tauto.
Qed.
Lemma keys_hashes_of outs p : In p (keys (hashes_of outs)) <-> In p (map o_path outs).
Proof. unfold hashes_of. rewrite keys_hashes_of_aux. simpl. tauto. Qed.

(* ---------- effects of one step ---------- *)
Section WithFS.
Variable phys : path -> path.

(* the first component of the pair computed at the head of step_gen *)
Definition results_of (opt : options) (oc : outcome) : list outfile * bool :=
  if scan_err oc then ([], true)
  else let '(res, cerr) := compile opt oc in (res, cerr || cancel_early oc || cancel_late oc).

Lemma step_gen_unfold fixed opt st oc :
  step_gen phys fixed opt st oc =
  let '(results, err1) := results_of opt oc in
  let reported :=
    if err1 then []
    else map (fun o => if to_stdout opt then mkOut stdout_path (o_data o) (o_hash o) (o_merge o) else o) results in
  let newH := hashes_of reported in
  let err2 := write opt && to_stdout opt && negb err1 && negb (length results =? 1)%nat in
  let effects :=
    if write opt && negb (to_stdout opt) then
      let toDelete := filter (fun p => negb (mem p (keys newH))) (keys (latest st)) in
      let writes := if err1 then []
                    else flat_map (fun o => if skip phys st newH o then [] else [EWrite (o_path o) (o_data o)]) results in
      if fixed && err1 then [] else writes ++ map EDelete toDelete
    else [] in
  let out := if write opt && to_stdout opt && negb err1 && negb err2
             then match results with o :: _ => Some (o_data o) | [] => None end else None in
  (mkState (apply phys (disk st) effects) (if fixed && err1 then latest st else newH),
   mkResult err1 (err1 || err2 || onend_err oc) reported effects out).
Proof. unfold step_gen, results_of. destruct (scan_err oc); [reflexivity|]. destruct (compile opt oc); reflexivity. Qed.

Lemma in_flat_map_write {A} (f : A -> bool) (g : A -> effect) (l : list A) p c :
  In (EWrite p c) (flat_map (fun o => if f o then [] else [g o]) l) ->
  exists o, In o l /\ f o = false /\ g o = EWrite p c.
Proof.
  intro H. apply in_flat_map in H as [o [Ho Hi]]. exists o.
  destruct (f o); simpl in Hi; [contradiction|]. destruct Hi as [Hi|[]]. auto.
Qed.

Lemma write_not_in_deletes p c l : ~ In (EWrite p c) (map EDelete l).
Proof. intro H. apply in_map_iff in H as [x [E _]]. discriminate. Qed.
Lemma delete_not_in_writes {A} (f : A -> bool) (g : A -> path * content) (l : list A) p :
  ~ In (EDelete p) (flat_map (fun o => if f o then [] else [EWrite (fst (g o)) (snd (g o))]) l).
Proof.
  intro H. apply in_flat_map in H as [o [_ Hi]]. destruct (f o); simpl in Hi; [contradiction|].
  destruct Hi as [Hi|[]]. discriminate.
Qed.

(* Every write is a reported output, happened with writing on, no stdout mode,
   and no error when the write phase started. *)
Lemma writes_are_reported_all fixed opt st oc st' r p c :
  step_gen phys fixed opt st oc = (st', r) ->
  In (EWrite p c) (r_effects r) ->
  r_failed_early r = false /\ write opt = true /\ to_stdout opt = false /\
  exists o, In o (r_outputs r) /\ o_path o = p /\ o_data o = c.
Proof.
  rewrite step_gen_unfold. destruct (results_of opt oc) as [results err1] eqn:ER.
  cbv zeta. intro E. inversion E; subst; clear E. cbn [r_effects r_failed_early r_outputs].
  destruct (write opt) eqn:EW; [|simpl; intros []].
  destruct (to_stdout opt) eqn:ES; [simpl; intros []|]. cbn [negb andb].
  destruct err1.
  - rewrite andb_true_r. destruct fixed; simpl; [intros []|].
    intro H. apply write_not_in_deletes in H. contradiction.
  - rewrite andb_false_r. intro H. apply in_app_or in H as [H|H].
    + apply in_flat_map_write in H as [o [Ho [_ Eo]]]. inversion Eo; subst.
      repeat split; try reflexivity. exists o. split; [|split; reflexivity].
      rewrite map_id. exact Ho.
    + apply write_not_in_deletes in H. contradiction.
Qed.

(* A build that has errors when the write phase starts, a build with writing
   disabled, and a build in stdout mode perform no write at all; whatever a
   step deletes was in the context's hash table and is not a current output. *)
Lemma no_write_when_failed fixed opt st oc st' r :
  step_gen phys fixed opt st oc = (st', r) ->
  r_failed_early r = true \/ write opt = false \/ to_stdout opt = true ->
  writes_of (r_effects r) = [].
Proof.
  intros E H.
  destruct (writes_of (r_effects r)) as [|p l] eqn:EWr; [reflexivity|]. exfalso.
  assert (Hin : In p (writes_of (r_effects r))) by (rewrite EWr; left; reflexivity).
  unfold writes_of in Hin. apply in_flat_map in Hin as [e [He Hp]].
  destruct e as [q c|q]; simpl in Hp; [|contradiction]. destruct Hp as [Hp|[]]. subst q.
  destruct (writes_are_reported_all _ _ _ _ _ _ _ _ E He) as [A [B [C _]]].
  destruct H as [H|[H|H]]; congruence.
Qed.

Lemma deletes_in_table fixed opt st oc st' r p :
  step_gen phys fixed opt st oc = (st', r) ->
  In (EDelete p) (r_effects r) ->
  In p (keys (latest st)) /\ ~ In p (map o_path (r_outputs r)) /\ write opt = true /\ to_stdout opt = false
  /\ (fixed = true -> r_failed_early r = false).
Proof.
  rewrite step_gen_unfold. destruct (results_of opt oc) as [results err1] eqn:ER.
  cbv zeta. intro E. inversion E; subst; clear E. cbn [r_effects r_failed_early r_outputs].
  destruct (write opt) eqn:EW; [|simpl; intros []].
  destruct (to_stdout opt) eqn:ES; [simpl; intros []|]. cbn [negb andb].
  intro H.
  assert (Hd : In (EDelete p) (map EDelete (filter (fun p0 => negb (mem p0 (keys (hashes_of
                 (if err1 then [] else map (fun o => o) results))))) (keys (latest st)))) /\ (fixed = true -> err1 = false)).
  { destruct err1.
    - rewrite andb_true_r in H. destruct fixed; simpl in H; [contradiction|]. split; [exact H | discriminate].
    - rewrite andb_false_r in H. split; [|reflexivity]. apply in_app_or in H as [H|H]; [|exact H].
      exfalso. apply in_flat_map in H as [o [_ Hi]].
      destruct (skip phys _ _ o); simpl in Hi; [contradiction|]. destruct Hi as [Hi|[]]. discriminate. }
  destruct Hd as [Hd Hf]. apply in_map_iff in Hd as [q [Eq Hq]]. inversion Eq; subst q.
  apply filter_In in Hq as [Hk Hn]. apply negb_true_iff in Hn. apply mem_false in Hn.
  repeat split; try assumption.
  intro Hin. apply Hn. apply keys_hashes_of. exact Hin.
Qed.

End WithFS.
