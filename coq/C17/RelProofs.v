(* C17: the shape of goFilepath.rel on cleaned absolute paths (a leading run
   of ".." followed by proper elements) and, from it, that the directory part
   computed by PathRelativeToOutbase never has a parent-directory segment. *)
From V Require Import Common.Base C17.WriteSM C17.Proofs C17.DiskProofs C17.PathModel C17.PathProofs.

(* a proper path element: not "", ".", "..", no '/' and no '\' inside *)
Definition clean_char (c : Z) : bool := negb (c =? SL) && negb (c =? 92).
Definition good (s : path) : bool := proper s && negb (path_eqb s seg_dotdot) && forallb clean_char s.
Definition no_bs (p : path) : bool := forallb (fun c => negb (c =? 92)) p.

(* ---------- split / join ---------- *)
Lemma split_single s : forallb (fun c => negb (c =? SL)) s = true -> split_on SL s = [s].
Proof.
  induction s as [|x s IH]; simpl; intro H; [reflexivity|].
  apply andb_true_iff in H as [Hx H]. apply negb_true_iff in Hx. rewrite Hx, (IH H). reflexivity.
Qed.

Lemma good_slash_free s : good s = true -> forallb (fun c => negb (c =? SL)) s = true.
Proof.
  unfold good. intro H. apply andb_true_iff in H as [_ H]. rewrite forallb_forall in *.
  intros c Hc. specialize (H c Hc). unfold clean_char in H. apply andb_true_iff in H as [H _]. exact H.
Qed.
Lemma dd_slash_free : forallb (fun c => negb (c =? SL)) seg_dotdot = true.
Proof. reflexivity. Qed.

Definition sfree (s : path) : Prop := forallb (fun c => negb (c =? SL)) s = true.

Lemma split_join l : l <> [] -> Forall sfree l -> split_on SL (join_with SL l) = l.
Proof.
  induction l as [|s l IH]; intros HN HF; [contradiction|].
  inversion HF as [|? ? Hs HF']; subst. destruct l as [|t l].
  - simpl. apply split_single. exact Hs.
  - change (join_with SL (s :: t :: l)) with (s ++ SL :: join_with SL (t :: l)).
    rewrite split_on_app, (split_single s Hs), IH; [reflexivity | discriminate | exact HF'].
Qed.

(* join l ++ "/" as a concatenation of "element/" *)
Definition slashed (l : list path) : path := concat (map (fun s => s ++ [SL]) l).
Lemma join_slashed l : l <> [] -> join_with SL l ++ [SL] = slashed l.
Proof.
  induction l as [|s l IH]; intro HN; [contradiction|]. destruct l as [|t l].
  - unfold slashed. simpl. rewrite app_nil_r. reflexivity.
  - change (join_with SL (s :: t :: l)) with (s ++ SL :: join_with SL (t :: l)).
    change (slashed (s :: t :: l)) with ((s ++ [SL]) ++ slashed (t :: l)).
    rewrite <- IH by discriminate. rewrite <- !app_assoc. reflexivity.
Qed.
Lemma slashed_app a b : slashed (a ++ b) = slashed a ++ slashed b.
Proof. unfold slashed. rewrite map_app, concat_app. reflexivity. Qed.
Lemma slashed_repeat_dd m : slashed (repeat seg_dotdot m) = concat (repeat dotdot_slash m).
Proof. induction m as [|m IH]; [reflexivity|]. unfold slashed in *. simpl. rewrite IH. reflexivity. Qed.

(* ---------- last_slash_split ---------- *)
Lemma last_slash_none s : sfree s -> last_slash_split s = None.
Proof.
  unfold sfree. induction s as [|x s IH]; simpl; intro H; [reflexivity|].
  apply andb_true_iff in H as [Hx H]. rewrite (IH H). apply negb_true_iff in Hx. rewrite Hx. reflexivity.
Qed.
Lemma last_slash_app a z : sfree z -> last_slash_split (a ++ SL :: z) = Some (a ++ [SL], z).
Proof.
  intro Hz. induction a as [|x a IH]; simpl.
  - rewrite (last_slash_none z Hz). reflexivity.
  - rewrite IH. reflexivity.
Qed.

(* ---------- cleaned absolute paths have good elements ---------- *)
Lemma split_pieces_clean p : no_bs p = true -> Forall (fun s => forallb clean_char s = true) (split_on SL p).
Proof.
  induction p as [|x p IH]; simpl; intro H.
  - constructor; [reflexivity | constructor].
  - apply andb_true_iff in H as [Hx H]. specialize (IH H).
    destruct (x =? SL) eqn:E.
    + constructor; [reflexivity | exact IH].
    + destruct (split_on SL p) as [|s t]; [constructor; [|constructor]|].
      * simpl. unfold clean_char. rewrite E, Hx. reflexivity.
      * inversion IH; subst. constructor; [|assumption]. simpl. unfold clean_char at 1. rewrite E, Hx. simpl. assumption.
Qed.

Lemma push_rooted_good st s :
  Forall (fun x => good x = true) st -> forallb clean_char s = true ->
  Forall (fun x => good x = true) (push true st s).
Proof.
  intros Hst Hs. unfold push.
  destruct (path_eqb s [] || path_eqb s seg_dot) eqn:E1; [exact Hst|].
  destruct (path_eqb s seg_dotdot) eqn:E2.
  - destruct st as [|top rest]; [constructor|].
    inversion Hst; subst. destruct (path_eqb top seg_dotdot) eqn:E3.
    + (* impossible: a good element is not ".." *)
      exfalso. match goal with H : good top = true |- _ => unfold good in H; rewrite E3 in H; rewrite andb_false_r in H; discriminate end.
    + assumption.
  - constructor; [|exact Hst]. unfold good, proper. rewrite E1, E2, Hs. reflexivity.
Qed.

Lemma clean_stack_rooted_good segs : forall st,
  Forall (fun x => good x = true) st -> Forall (fun s => forallb clean_char s = true) segs ->
  Forall (fun x => good x = true) (clean_stack true st segs).
Proof.
  induction segs as [|s segs IH]; intros st Hst Hs; [exact Hst|].
  inversion Hs; subst. change (clean_stack true st (s :: segs)) with (clean_stack true (push true st s) segs).
  apply IH; [apply push_rooted_good; assumption | assumption].
Qed.

Lemma clean_segs_rooted_good p :
  is_rooted p = true -> no_bs p = true -> Forall (fun x => good x = true) (clean_segs p).
Proof.
  intros HR HB. unfold clean_segs. rewrite HR. apply Forall_rev.
  apply clean_stack_rooted_good; [constructor | apply split_pieces_clean; exact HB].
Qed.

Lemma strip_common_suffix (Pr : path -> Prop) a : forall b a' b',
  strip_common a b = (a', b') -> Forall Pr b -> Forall Pr b'.
Proof.
  induction a as [|x a IH]; intros b a' b' E HF; simpl in E.
  - injection E as E1 E2. subst. exact HF.
  - destruct b as [|y b]; [injection E as E1 E2; subst; exact HF|].
    destruct (path_eqb x y).
    + inversion HF; subst. eapply IH; eassumption.
    + injection E as E1 E2. subst. exact HF.
Qed.

(* ---------- the directory text of a relative path of that shape ---------- *)
Lemma good_nonempty_first s : good s = true -> exists c r, s = c :: r /\ (c =? SL) = false.
Proof.
  unfold good, proper. intro H. destruct s as [|c r].
  - simpl in H. discriminate.
  - exists c, r. split; [reflexivity|].
    apply andb_true_iff in H as [_ H]. simpl in H. apply andb_true_iff in H as [H _].
    unfold clean_char in H. apply andb_true_iff in H as [H _]. apply negb_true_iff in H. exact H.
Qed.

Definition shaped (l : list path) : Prop :=
  exists m g, l = repeat seg_dotdot m ++ g /\ Forall (fun x => good x = true) g.

Lemma shaped_sfree l : shaped l -> Forall sfree l.
Proof.
  intros [m [g [E Hg]]]. subst. apply Forall_app. split.
  - apply Forall_forall. intros x Hx. apply repeat_spec in Hx. subst. exact dd_slash_free.
  - eapply Forall_impl; [|exact Hg]. intros a Ha. apply good_slash_free. exact Ha.
Qed.

Lemma shaped_not_rooted l x : shaped (x :: l) -> is_rooted (join_with SL (x :: l) ++ [SL]) = false.
Proof.
  intros [m [g [E Hg]]]. assert (Hx : x = seg_dotdot \/ good x = true).
  { destruct m; simpl in E.
    - subst g. inversion Hg; subst. right. assumption.
    - injection E as E1 E2. left. exact E1. }
  assert (exists c r, x = c :: r /\ (c =? SL) = false) as [c [r [Ex Ec]]].
  { destruct Hx as [Hx|Hx]; [subst; exists 46, [46]; split; reflexivity | apply good_nonempty_first; exact Hx]. }
  subst x. destruct l; simpl; exact Ec.
Qed.

Lemma clean_stack_dd m : forall st, (st = [] \/ exists st', st = seg_dotdot :: st') ->
  clean_stack false st (repeat seg_dotdot m) = repeat seg_dotdot m ++ st.
Proof.
  induction m as [|m IH]; intros st Hst; [reflexivity|].
  change (clean_stack false st (repeat seg_dotdot (S m))) with (clean_stack false (push false st seg_dotdot) (repeat seg_dotdot m)).
  assert (E : push false st seg_dotdot = seg_dotdot :: st).
  { destruct Hst as [Hst|[st' Hst]]; subst; reflexivity. }
  rewrite E, IH; [|right; eauto].
  change (repeat seg_dotdot (S m)) with (seg_dotdot :: repeat seg_dotdot m).
  rewrite (repeat_cons m seg_dotdot). rewrite <- app_assoc. reflexivity.
Qed.

Lemma good_filter_proper g : Forall (fun x => good x = true) g -> filter proper g = g /\ existsb (path_eqb seg_dotdot) g = false.
Proof.
  induction g as [|x g IH]; intro H; [split; reflexivity|]. inversion H as [|? ? Hx Hg]; subst.
  destruct (IH Hg) as [A B]. unfold good in Hx. apply andb_true_iff in Hx as [Hx _]. apply andb_true_iff in Hx as [H1 H2].
  simpl. rewrite H1, A. split; [reflexivity|]. apply negb_true_iff in H2. rewrite (path_eqb_sym seg_dotdot x), H2, B. reflexivity.
Qed.

(* cleaning "l/" for a shaped non-empty l gives l back *)
Lemma clean_of_shaped l : l <> [] -> shaped l -> clean (join_with SL l ++ [SL]) = join_with SL l.
Proof.
  intros HN HS. pose proof (shaped_sfree l HS) as HF. destruct HS as [m [g [E Hg]]].
  destruct l as [|x l]; [contradiction|].
  assert (HR : is_rooted (join_with SL (x :: l) ++ [SL]) = false) by (apply shaped_not_rooted; exists m, g; auto).
  unfold clean, clean_segs. rewrite HR.
  change (join_with SL (x :: l) ++ [SL]) with (join_with SL (x :: l) ++ SL :: []).
  rewrite split_on_app, (split_join (x :: l) HN HF). simpl (split_on SL []).
  rewrite clean_stack_app. rewrite E, clean_stack_app, (clean_stack_dd m []) by (left; reflexivity).
  destruct (good_filter_proper g Hg) as [A B]. rewrite app_nil_r.
  rewrite (clean_stack_no_dotdot false g _ B), A.
  change (clean_stack false (rev g ++ repeat seg_dotdot m) [[]]) with (rev g ++ repeat seg_dotdot m).
  rewrite rev_app_distr, rev_involutive.
  assert (RR : rev (repeat seg_dotdot m) = repeat seg_dotdot m).
  { clear. induction m as [|m IH]; [reflexivity|]. simpl. rewrite IH. symmetry. apply repeat_cons. }
  rewrite RR, <- E. reflexivity.
Qed.

(* ---------- counting and skipping the leading "../" ---------- *)
Lemma has_prefix_dd_good x X : good x = true -> has_prefix dotdot_slash (x ++ SL :: X) = false.
Proof.
  intro H. pose proof (good_slash_free x H) as HS. unfold good in H.
  apply andb_true_iff in H as [H _]. apply andb_true_iff in H as [_ H]. apply negb_true_iff in H.
  destruct (has_prefix dotdot_slash (x ++ SL :: X)) eqn:E; [|reflexivity]. exfalso.
  apply has_prefix_app in E as [t Et]. unfold dotdot_slash, SL in Et.
  destruct x as [|a [|b [|c r]]]; simpl in Et; inversion Et; subst.
  - vm_compute in H. discriminate.
  - vm_compute in HS. discriminate.
Qed.

Lemma has_prefix_dd_slashed g : Forall (fun x => good x = true) g -> has_prefix dotdot_slash (slashed g) = false.
Proof.
  intro H. destruct g as [|x g]; [reflexivity|]. inversion H; subst.
  unfold slashed. simpl. rewrite <- app_assoc. simpl. apply has_prefix_dd_good. assumption.
Qed.

Lemma count_dotdot_run m : forall fuel T, (m <= fuel)%nat -> has_prefix dotdot_slash T = false ->
  count_dotdot fuel (concat (repeat dotdot_slash m) ++ T) = m.
Proof.
  induction m as [|m IH]; intros fuel T HF HT.
  - change (concat (repeat dotdot_slash 0) ++ T) with T. destruct fuel; [reflexivity|].
    cbn [count_dotdot]. rewrite HT. reflexivity.
  - destruct fuel as [|fuel]; [lia|].
    change (concat (repeat dotdot_slash (S m)) ++ T) with (46 :: 46 :: 47 :: (concat (repeat dotdot_slash m) ++ T)).
    cbn [count_dotdot].
    assert (E : forall R, has_prefix dotdot_slash (46 :: 46 :: 47 :: R) = true) by reflexivity.
    rewrite E. cbn [skipn]. rewrite IH by (try lia; assumption). reflexivity.
Qed.
Lemma skipn_run m T : skipn (m * 3) (concat (repeat dotdot_slash m) ++ T) = T.
Proof. induction m as [|m IH]; [reflexivity|]. simpl. exact IH. Qed.

Lemma has_dd_slashed_good g : Forall (fun x => good x = true) g -> has_dd (slashed g) = false.
Proof.
  intro H. destruct g as [|x g]; [reflexivity|].
  rewrite <- join_slashed by discriminate.
  change (join_with SL (x :: g) ++ [SL]) with (join_with SL (x :: g) ++ SL :: []).
  rewrite has_dd_app. unfold has_dd at 1. rewrite split_join; [|discriminate|].
  - destruct (good_filter_proper _ H) as [_ B]. rewrite B. reflexivity.
  - eapply Forall_impl; [|exact H]. intros a Ha. apply good_slash_free. exact Ha.
Qed.

Lemma map_bs_id p : no_bs p = true -> map (fun c => if c =? 92 then SL else c) p = p.
Proof.
  induction p as [|x p IH]; simpl; intro H; [reflexivity|].
  apply andb_true_iff in H as [Hx H]. apply negb_true_iff in Hx. rewrite Hx, (IH H). reflexivity.
Qed.

Lemma slashed_no_bs m g : Forall (fun x => good x = true) g -> no_bs (slashed (repeat seg_dotdot m ++ g)) = true.
Proof.
  intro Hg. unfold no_bs, slashed. rewrite forallb_forall. intros c Hc.
  apply in_concat in Hc as [s [Hs Hc]]. apply in_map_iff in Hs as [x [Ex Hx]]. subst s.
  apply in_app_or in Hc as [Hc|[Hc|[]]]; [|subst; reflexivity].
  apply in_app_or in Hx as [Hx|Hx].
  - apply repeat_spec in Hx. subst x. destruct Hc as [Hc|[Hc|[]]]; subst; reflexivity.
  - rewrite Forall_forall in Hg. specialize (Hg x Hx). unfold good in Hg. apply andb_true_iff in Hg as [_ Hg].
    rewrite forallb_forall in Hg. specialize (Hg c Hc). unfold clean_char in Hg. apply andb_true_iff in Hg as [_ Hg]. exact Hg.
Qed.

(* the rewrite applied to "l/" for a shaped l *)
Lemma neutralise_shaped m g :
  Forall (fun x => good x = true) g -> has_dd (neutralise (slashed (repeat seg_dotdot m ++ g))) = false.
Proof.
  intro Hg. apply neutralise_no_dotdot. cbv zeta.
  rewrite (map_bs_id _ (slashed_no_bs m g Hg)).
  rewrite slashed_app, slashed_repeat_dd.
  rewrite count_dotdot_run.
  - rewrite skipn_run. apply has_dd_slashed_good. exact Hg.
  - rewrite app_length. clear. induction m as [|m IH]; simpl; [lia|]. lia.
  - apply has_prefix_dd_slashed. exact Hg.
Qed.

(* ---------- rel, then the directory text ---------- *)
Lemma rel_shaped outbase absPath :
  is_rooted outbase = true -> is_rooted absPath = true -> no_bs absPath = true ->
  exists l, shaped l /\ rel outbase absPath = match l with [] => seg_dot | _ => join_with SL l end.
Proof.
  intros HB HA HN. unfold rel.
  destruct (strip_common (clean_segs outbase) (clean_segs absPath)) as [b' t'] eqn:ES.
  exists (repeat seg_dotdot (length b') ++ t'). split; [|destruct (repeat seg_dotdot (length b') ++ t'); reflexivity].
  exists (length b'), t'. split; [reflexivity|].
  eapply strip_common_suffix; [exact ES|]. apply clean_segs_rooted_good; assumption.
Qed.

Lemma removelast_shaped l : shaped l -> shaped (removelast l).
Proof.
  intros [m [g [E Hg]]]. subst. destruct g as [|x g] using rev_ind.
  - rewrite app_nil_r. exists (pred m), []. split; [|constructor].
    rewrite app_nil_r. destruct m; [reflexivity|]. simpl pred.
    change (repeat seg_dotdot (S m)) with (seg_dotdot :: repeat seg_dotdot m).
    rewrite repeat_cons, removelast_last. reflexivity.
  - clear IHg. exists m, g. split.
    + rewrite app_assoc, removelast_last. reflexivity.
    + apply Forall_app in Hg as [Hg _]. exact Hg.
Qed.

Lemma join_snoc x : forall k : list path, k <> [] -> join_with SL (k ++ [x]) = join_with SL k ++ SL :: x.
Proof.
  induction k as [|a k IH]; intro HN; [contradiction|]. destruct k as [|b k]; [reflexivity|].
  change (join_with SL ((a :: b :: k) ++ [x])) with (a ++ SL :: join_with SL ((b :: k) ++ [x])).
  rewrite IH by discriminate. change (join_with SL (a :: b :: k)) with (a ++ SL :: join_with SL (b :: k)).
  rewrite <- app_assoc. reflexivity.
Qed.

Lemma dir_text_of_shaped l :
  shaped l ->
  let relPath := match l with [] => seg_dot | _ => join_with SL l end in
  exists l1, shaped l1 /\ (fs_dir relPath ++ [SL] = slashed l1 \/ fs_dir relPath ++ [SL] = [46; SL]).
Proof.
  intros HS relPath. destruct l as [|x l] using rev_ind.
  - exists []. split; [exists O, []; split; [reflexivity | constructor]|]. right. reflexivity.
  - clear IHl. pose proof (shaped_sfree _ HS) as HF. apply Forall_app in HF as [HFl HFx]. inversion HFx as [|? ? Hx _]; subst.
    destruct l as [|y l].
    + (* a single element: no slash in it *)
      exists []. split; [exists O, []; split; [reflexivity | constructor]|]. right.
      unfold relPath. simpl. unfold fs_dir. rewrite (last_slash_none x Hx). reflexivity.
    + exists (y :: l). assert (HSl : shaped (y :: l)).
      { pose proof (removelast_shaped _ HS) as H. rewrite removelast_last in H. exact H. }
      split; [exact HSl|]. left.
      assert (EJ : relPath = join_with SL (y :: l) ++ SL :: x).
      { unfold relPath. change ((y :: l) ++ [x]) with (y :: (l ++ [x])). cbv iota beta.
        change (y :: (l ++ [x])) with ((y :: l) ++ [x]). apply join_snoc. discriminate. }
      rewrite EJ. unfold fs_dir. rewrite (last_slash_app _ x Hx).
      rewrite (clean_of_shaped (y :: l)) by (try discriminate; exact HSl).
      apply join_slashed. discriminate.
Qed.

(* the [dir] part computed by PathRelativeToOutbase never has a
   parent-directory segment: every outbase, every (effective) absolute path *)
Lemma relative_dir_no_dotdot outbase absPath0 avoidIndex custom :
  is_rooted outbase = true ->
  is_rooted (effective_abs outbase absPath0 avoidIndex custom) = true ->
  no_bs (effective_abs outbase absPath0 avoidIndex custom) = true ->
  has_dd (fst (path_relative_to_outbase outbase absPath0 avoidIndex custom)) = false.
Proof.
  intros HB HA HN. unfold path_relative_to_outbase. cbn [fst].
  destruct (rel_shaped _ _ HB HA HN) as [l [HS ER]]. rewrite ER.
  destruct (dir_text_of_shaped l HS) as [l1 [[m [g [E Hg]]] [ET|ET]]]; rewrite ET.
  - subst l1. apply neutralise_shaped. exact Hg.
  - vm_compute. reflexivity.
Qed.

Lemma fs_join_rooted a b : is_rooted a = true -> b <> [] -> is_rooted (fs_join a b) = true.
Proof.
  intros HA HB. destruct a as [|x a]; [discriminate|]. destruct b as [|y b]; [contradiction|].
  unfold fs_join, clean. rewrite (is_rooted_app (x :: a) (SL :: y :: b)) by discriminate. rewrite HA.
  simpl. reflexivity.
Qed.

(* the two ordinary cases of the effective path: an asset or chunk source (no
   explicit output path, no "index" heuristic), and a relative (generated or
   explicit) output path joined onto outbase *)
Lemma effective_abs_plain outbase absPath0 : effective_abs outbase absPath0 false [] = absPath0.
Proof. reflexivity. Qed.
Lemma effective_abs_relative_custom_rooted outbase absPath0 ai custom :
  is_rooted outbase = true -> custom <> [] -> is_rooted custom = false ->
  is_rooted (effective_abs outbase absPath0 ai custom) = true.
Proof.
  intros HB HC HR. unfold effective_abs. destruct custom as [|c custom]; [contradiction|].
  rewrite HR. apply fs_join_rooted; [exact HB | discriminate].
Qed.
