(* non-vacuity: concrete, non-trivial values meeting the hypotheses of each
   theorem of Properties.v (all by vm_compute) *)
From V Require Import Common.Base C17.WriteSM C17.Spec C17.Proofs C17.CompileProofs C17.DiskProofs C17.SpecProofs C17.IOFail C17.PathModel C17.PathProofs C17.RelProofs C17.SideProofs C17.LinkProofs C17.Modes C17.IOHist C17.Cancel.
From Coq Require Import String.

Definition ex_opts := mkOpts true false false.
Definition ex_d0 : fmap content := [(P "/src/a.js", [1]); (P "/out/keep.txt", [7])].
Definition ex_oc1 := mkOutcome false [P "/src/a.js"] false
  [mkOut (P "/out/a.js") [10] 110 false; mkOut (P "/out/b.js") [11] 111 false] false false false.
(* second rebuild: a.js unchanged (skipped), b.js no longer produced (deleted), c.js new (written) *)
Definition ex_oc2 := mkOutcome false [P "/src/a.js"] false
  [mkOut (P "/out/a.js") [10] 110 false; mkOut (P "/out/c.js") [12] 112 false] false false false.
(* third rebuild fails in the scanner *)
Definition ex_oc3 := mkOutcome true [] false [] false false false.

(* allow_overwrite_forced_only_without_write: both directions are inhabited *)
Example ex_allow_forced : effective_allow (mkOpts false false false) = true /\ effective_allow ex_opts = false.
Proof. vm_compute. auto. Qed.

(* writes_are_reported / successful_build_disk_exact: writes, a skip and a delete in one step *)
Example ex_history_effects :
  map (fun r => (r_failed_early r, r_effects r)) (trace phys_id ex_opts (init ex_d0) [ex_oc1; ex_oc2; ex_oc3; ex_oc1]) =
  [(false, [EWrite (P "/out/a.js") [10]; EWrite (P "/out/b.js") [11]]);
   (false, [EWrite (P "/out/c.js") [12]; EDelete (P "/out/b.js")]);
   (true,  []);
   (false, [EWrite (P "/out/b.js") [11]; EDelete (P "/out/c.js")])].
Proof. vm_compute. reflexivity. Qed.
(* before d19e8cb the failing third rebuild deleted the outputs and forgot the table *)
Example ex_history_effects_before_fix :
  map (fun r => (r_failed_early r, r_effects r)) (trace_gen phys_id false ex_opts (init ex_d0) [ex_oc1; ex_oc2; ex_oc3; ex_oc1]) =
  [(false, [EWrite (P "/out/a.js") [10]; EWrite (P "/out/b.js") [11]]);
   (false, [EWrite (P "/out/c.js") [12]; EDelete (P "/out/b.js")]);
   (true,  [EDelete (P "/out/c.js"); EDelete (P "/out/a.js")]);
   (false, [EWrite (P "/out/a.js") [10]; EWrite (P "/out/b.js") [11]])].
Proof. vm_compute. reflexivity. Qed.

Example ex_success_hypotheses :
  let '(st1, r1) := step phys_id ex_opts (init ex_d0) ex_oc1 in
  let '(st2, r2) := step phys_id ex_opts st1 ex_oc2 in
  r_failed_early r2 = false /\ write ex_opts = true /\ to_stdout ex_opts = false /\
  lookup (disk st2) (P "/out/a.js") = Some [10] /\ lookup (disk st2) (P "/out/b.js") = None /\
  lookup (disk st2) (P "/out/c.js") = Some [12] /\ lookup (disk st2) (P "/out/keep.txt") = Some [7].
Proof. vm_compute. repeat split; reflexivity. Qed.

(* failed_build_deletes_nothing: a failing step from a state with a non-empty
   hash table; before d19e8cb its delete list was not empty *)
Example ex_failed_step :
  let st2 := run phys_id ex_opts (init ex_d0) [ex_oc1; ex_oc2] in
  keys (latest st2) = [P "/out/c.js"; P "/out/a.js"] /\
  r_failed_early (snd (step phys_id ex_opts st2 ex_oc3)) = true /\
  deletes_of (r_effects (snd (step_before_fix phys_id ex_opts st2 ex_oc3))) = [P "/out/c.js"; P "/out/a.js"] /\
  r_effects (snd (step phys_id ex_opts st2 ex_oc3)) = [] /\
  fst (step phys_id ex_opts st2 ex_oc3) = st2.
Proof. vm_compute. repeat split; reflexivity. Qed.

(* cancellation and writing disabled are failed/non-writing builds too *)
Example ex_cancel_and_nowrite :
  r_failed_early (snd (step phys_id ex_opts (init ex_d0) (mkOutcome false [] false (linked ex_oc1) false true false))) = true /\
  r_effects (snd (step phys_id (mkOpts false false false) (init ex_d0) ex_oc1)) = [] /\
  List.length (r_outputs (snd (step phys_id (mkOpts false false false) (init ex_d0) ex_oc1))) = 2%nat.
Proof. vm_compute. repeat split; reflexivity. Qed.

(* no_input_overwritten: the check refuses an output on an input (case and
   slash variants included), and lets it through when overwriting is allowed *)
Definition ex_oc_clash := mkOutcome false [P "C:\src\A.js"] false [mkOut (P "c:/SRC/a.js") [10] 110 false] false false false.
Example ex_overwrite_check :
  compile ex_opts ex_oc_clash = ([mkOut (P "c:/SRC/a.js") [10] 110 false], true) /\
  compile (mkOpts true true false) ex_oc_clash = ([mkOut (P "c:/SRC/a.js") [10] 110 false], false) /\
  compile (mkOpts false false false) ex_oc_clash = ([mkOut (P "c:/SRC/a.js") [10] 110 false], false).
Proof. vm_compute. repeat split; reflexivity. Qed.

(* two_outputs_one_path / dedupe_keeps_exact_path: an identical mergeable case
   variant is kept (since 11ec04b), an exact duplicate is filtered out;
   different contents or non-mergeable files are an error *)
Definition ex_dup (m1 m2 : bool) (c2 : content) := mkOutcome false [] false
  [mkOut (P "/out/d.txt") [5] 105 m1; mkOut (P "/out/x.js") [6] 106 false; mkOut (P "/out/D.txt") c2 105 m2] false false false.
Example ex_dedupe :
  compile ex_opts (ex_dup true true [5]) = ([mkOut (P "/out/d.txt") [5] 105 true; mkOut (P "/out/x.js") [6] 106 false; mkOut (P "/out/D.txt") [5] 105 true], false) /\
  fst (compile ex_opts (mkOutcome false [] false [mkOut (P "/out/d.txt") [5] 105 true; mkOut (P "/out/d.txt") [5] 105 true] false false false))
    = [mkOut (P "/out/d.txt") [5] 105 true] /\
  snd (compile ex_opts (ex_dup true true [9])) = true /\
  snd (compile ex_opts (ex_dup true false [5])) = true.
Proof. vm_compute. repeat split; reflexivity. Qed.

(* deletes_only_own_earlier_outputs: a delete in the second element of a trace *)
Example ex_trace_split :
  exists pre res post, trace phys_id ex_opts (init ex_d0) [ex_oc1; ex_oc2; ex_oc3] = pre ++ res :: post /\
    In (EDelete (P "/out/b.js")) (r_effects res) /\ In (P "/out/b.js") (written_paths pre).
Proof.
  eexists [_], _, [_]. vm_compute. split; [reflexivity|]. split; [right; left; reflexivity | right; left; reflexivity].
Qed.

(* step_meets_spec: the observation of the second rebuild is non-trivial *)
Example ex_obs :
  let st1 := fst (step phys_id ex_opts (init ex_d0) ex_oc1) in
  let '(st2, r2) := step phys_id ex_opts st1 ex_oc2 in
  let o := obs_of ex_opts st1 st2 ex_oc2 r2 [P "/out/a.js"; P "/out/b.js"] in
  only_reported_b o && all_reported_written_b o && failed_no_write_b o && single_valued_b o && inputs_safe_b o = true
  /\ List.length (ob_reported o) = 2%nat.
Proof. vm_compute. split; reflexivity. Qed.

(* the boolean deciders reject what they should: an unreported write, a deleted foreign file *)
Example ex_deciders_reject :
  only_reported_b (mkObs [] [(P "/x", [1])] [] [] false true false []) = false /\
  only_reported_b (mkObs [(P "/x", [1])] [] [] [] false true false []) = false /\
  failed_no_write_b (mkObs [] [(P "/x", [1])] [(P "/x", [1])] [] true true false []) = false /\
  inputs_safe_b (mkObs [(P "/x", [1])] [(P "/x", [2])] [(P "/x", [2])] [P "/x"] false true false []) = false.
Proof. vm_compute. repeat split; reflexivity. Qed.

(* foreign_files_untouched: the hypothesis holds for the foreign file of the
   example history (it is never a reported output) and fails for an output *)
Example ex_foreign :
  forallb (fun r => negb (mem (P "/out/keep.txt") (map o_path (r_outputs r))))
          (trace phys_id ex_opts (init ex_d0) [ex_oc1; ex_oc2; ex_oc3; ex_oc1]) = true /\
  lookup (disk (run phys_id ex_opts (init ex_d0) [ex_oc1; ex_oc2; ex_oc3; ex_oc1])) (P "/out/keep.txt") = Some [7].
Proof. vm_compute. split; reflexivity. Qed.

(* io_failure_reports_error / io_writes_...: one of two writes fails; a skipped
   (unchanged) file at a failing path is not attempted and is no error *)
Example ex_io_failure :
  let '(st1, r1) := step_io phys_id true ex_opts (init ex_d0) ex_oc1 [P "/out/b.js"] in
  r_errors r1 = true /\ r_failed_early r1 = false /\ r_effects r1 = [EWrite (P "/out/a.js") [10]] /\
  keys (latest st1) = [P "/out/a.js"] /\
  keys (latest (fst (step_io_before_b32af0b phys_id true ex_opts (init ex_d0) ex_oc1 [P "/out/b.js"]))) = [P "/out/b.js"; P "/out/a.js"].
Proof. vm_compute. repeat split; reflexivity. Qed.
Example ex_io_skipped_path_not_attempted :
  let st1 := fst (step phys_id ex_opts (init ex_d0) ex_oc1) in
  r_errors (snd (step_io phys_id true ex_opts st1 ex_oc2 [P "/out/a.js"])) = false.
Proof. vm_compute. reflexivity. Qed.

(* ---- the path layer ---- *)
(* output_inside_outdir: a rendered relative path as the linker produces it *)
Example ex_join_inside :
  is_rooted (P "/w/out") = true /\ no_dotdot_seg (P ".//sub/./a.js") = true /\
  fs_join (P "/w/out") (P ".//sub/./a.js") = P "/w/out/sub/a.js" /\
  fs_join (P "/w/out") (P "./../a.js") = P "/w/a.js".
Proof. vm_compute. repeat split; reflexivity. Qed.

(* neutralise_removes_leading_dotdot: two leading parent-directory segments; the hypothesis holds *)
Example ex_neutralise :
  neutralise (P "../../x/") = P "/_.._/_.._/x" /\
  has_dd (skipn (count_dotdot 9 (P "../../x/") * 3) (P "../../x/")) = false /\
  path_relative_to_outbase (P "/w/src") (P "/w/other/b.js") false [] = (P "/_.._/other", P "b") /\
  path_relative_to_outbase (P "/w/src") (P "/w/src/lib/index.js") true [] = (P "/", P "lib").
Proof. vm_compute. repeat split; reflexivity. Qed.

(* templates: parsing (with its quirk), rendering, the entry point's output path *)
Example ex_template :
  parse_template (P "[dir]/[name]-[hash]") = [(P "./", Some PDir); (P "/", Some PName); (P "-", Some PHash)] /\
  parse_template (P "[name]-x[") = [(P "./", Some PName)] /\
  entry_out_path (P "/w/out") (entry_template (P "a\\[name]")) (P "/w/src") (P "/w/src/sub/b.ts") [] [] (P ".js") = P "/w/out/a/b.js" /\
  entry_out_path (P "/w/out") (entry_template []) (P "/w/src") (P "/w/src/sub/b.ts") [] [] (P ".js") = P "/w/out/sub/b.js".
Proof. vm_compute. repeat split; reflexivity. Qed.

(* no_input_overwritten_concrete: outdir = outbase = the source directory, the
   default template, ".js": the output path of the entry is the entry itself *)
Definition ex_entry := mkEntry (P "/w/src/a.js") [] [] (P ".js") [10] 110.
Example ex_concrete_overwrite :
  entry_out_path (P "/w/src") default_entry_template (P "/w/src") (P "/w/src/a.js") [] [] (P ".js") = P "/w/src/a.js" /\
  snd (compile ex_opts (mkOutcome false [P "/w/src/a.js"] false
        (linked_of_entries (P "/w/src") default_entry_template (P "/w/src") [ex_entry]) false false false)) = true /\
  snd (compile ex_opts (mkOutcome false [P "/w/src/a.js"] false
        (linked_of_entries (P "/w/out") default_entry_template (P "/w/src") [ex_entry]) false false false)) = false.
Proof. vm_compute. repeat split; reflexivity. Qed.

(* link_free_step_is_plain_step: out -> src is a link; outputs below /dist are link-free, below /out they are not *)
Example ex_link_free :
  link_free (phys_links [(P "/out", P "/src")]) [P "/dist/a.js"; P "/src/a.js"] = true /\
  link_free (phys_links [(P "/out", P "/src")]) [P "/out/a.js"] = false.
Proof. vm_compute. split; reflexivity. Qed.

(* two_outputs_one_path_reported: two different mergeable files on one key with equal contents pass *)
Example ex_two_on_one :
  let o1 := mkOut (P "/out/d.txt") [5] 105 true in
  let o2 := mkOut (P "/OUT/d.txt") [5] 105 true in
  o1 <> o2 /\ ckey o1 = ckey o2 /\ snd (compile ex_opts (mkOutcome false [] false [o1; o2] false false false)) = false.
Proof. vm_compute. repeat split; try reflexivity. discriminate. Qed.

(* modes *)
Example ex_modes :
  mode_write CliServe true = false /\ mode_write CliBuild false = true /\ mode_write ApiServe true = true /\
  effective_allow (mode_opts CliServe true false false) = true.
Proof. vm_compute. repeat split; reflexivity. Qed.

(* entry/chunk/asset_output_inside_outdir: hypotheses met by ordinary values *)
Example ex_kinds_of_outputs :
  chunk_out_path (P "/w/out") default_asset_template (P "ABCD2345") (P ".js") = P "/w/out/chunk-ABCD2345.js" /\
  no_dotdot_seg (chunk_rel_path default_asset_template (P "ABCD2345") (P ".js")) = true /\
  asset_out_path (P "/w/out") (asset_template (P "[dir]/[name]-[hash]")) (P "/w/src") (P "/w/src/sub/pic.x.png") (P "H") = P "/w/out/sub/pic.x-H.png" /\
  asset_out_path (P "/w/out") (asset_template (P "[ext]/[name]")) (P "/w/src") (P "/w/other/s.module.css") [] = P "/w/out/module.css/s.module.module.css" /\
  entry_out_path (P "/w/out") default_entry_template (P "/w/src") (P "/w/src/a.js") (explicit_custom (P "/w/out") (P "/w/elsewhere/z")) [] (P ".js") = P "/w/out/_.._/elsewhere/z.js".
Proof. vm_compute. repeat split; reflexivity. Qed.

(* io_deletes_only_own_partial: a history with a failed write; since b32af0b the
   failed path is forgotten and the next rebuild does not delete it; before,
   it did (J2) *)
Example ex_io_history :
  let h := trace_io_full phys_id true true ex_opts (init ex_d0) [(ex_oc1, [P "/out/b.js"]); (ex_oc2, []); (ex_oc1, [])] in
  map (fun x => r_effects (snd x)) h =
    [[EWrite (P "/out/a.js") [10]]; [EWrite (P "/out/c.js") [12]]; [EWrite (P "/out/b.js") [11]; EDelete (P "/out/c.js")]] /\
  written_paths_io (firstn 2 h) = [P "/out/a.js"; P "/out/c.js"] /\
  reported_paths (firstn 1 h) = [P "/out/a.js"; P "/out/b.js"].
Proof. vm_compute. repeat split; reflexivity. Qed.
Example ex_io_history_before_fix :
  let h := trace_io_full phys_id true false ex_opts (init ex_d0) [(ex_oc1, [P "/out/b.js"]); (ex_oc2, [])] in
  map (fun x => r_effects (snd x)) h = [[EWrite (P "/out/a.js") [10]]; [EWrite (P "/out/c.js") [12]; EDelete (P "/out/b.js")]] /\
  failed_paths false (firstn 1 h) = [P "/out/b.js"] /\ written_paths_io (firstn 1 h) = [P "/out/a.js"].
Proof. vm_compute. repeat split; reflexivity. Qed.
(* a failed write at a path the context wrote earlier keeps the earlier hash *)
Example ex_io_keeps_old_hash :
  let st1 := fst (step phys_id ex_opts (init ex_d0) ex_oc1) in
  let oc := mkOutcome false [P "/src/a.js"] false [mkOut (P "/out/a.js") [20] 120 false; mkOut (P "/out/b.js") [11] 111 false] false false false in
  latest (fst (step_io phys_id true ex_opts st1 oc [P "/out/a.js"])) = [(P "/out/a.js", 110); (P "/out/b.js", 111); (P "/out/a.js", 120)].
Proof. vm_compute. reflexivity. Qed.

(* cancelled_build_writes_nothing: both landing points before the check, from a state with a non-empty table *)
Example ex_cancel :
  let st1 := fst (step phys_id ex_opts (init ex_d0) ex_oc1) in
  step phys_id ex_opts st1 (with_cancel ex_oc2 BeforeCompile) = (st1, mkResult true true [] [] None) /\
  step phys_id ex_opts st1 (with_cancel ex_oc2 DuringLink) = (st1, mkResult true true [] [] None) /\
  r_effects (snd (step phys_id ex_opts st1 (with_cancel ex_oc2 AfterCheck))) = [EWrite (P "/out/c.js") [12]; EDelete (P "/out/b.js")].
Proof. vm_compute. repeat split; reflexivity. Qed.

(* relative_dir_has_no_dotdot: hypotheses met with an entry outside outbase and with a relative explicit output path *)
Example ex_relative_dir :
  is_rooted (P "/w/src") = true /\
  is_rooted (effective_abs (P "/w/src") (P "/w/other/deep/b.js") false []) = true /\
  no_bs (effective_abs (P "/w/src") (P "/w/other/deep/b.js") false []) = true /\
  fst (path_relative_to_outbase (P "/w/src") (P "/w/other/deep/b.js") false []) = P "/_.._/other/deep" /\
  effective_abs (P "/w/src") (P "/w/src/a.js") false (P "../../esc") = P "/esc" /\
  fst (path_relative_to_outbase (P "/w/src") (P "/w/src/a.js") false (P "../../esc")) = P "/_.._/_.._".
Proof. vm_compute. repeat split; reflexivity. Qed.

(* side files and outfile mode *)
Example ex_side_files :
  side_out_path (P "/w/out") (entry_rel_path default_entry_template (P "/w/src") (P "/w/src/sub/a.ts") [] [] (P ".js")) map_suffix = P "/w/out/sub/a.js.map" /\
  side_out_path (P "/w/out") (P ".//a.js") legal_suffix = P "/w/out/a.js.LEGAL.txt" /\
  outfile_out_path default_entry_template (P "/w/out/sub/../x.y.js") [] = P "/w/out/x.y.js" /\
  outfile_out_path (entry_template (P "sub/[name]-[hash]")) (P "/w/out/x.js") (P "H") = P "/w/out/sub/x-H.js".
Proof. vm_compute. repeat split; reflexivity. Qed.

(* side_file_not_an_input: the source map of out = src/a.js lands on the input src/a.js.map *)
Example ex_side_file_on_input :
  let oc := mkOutcome false [P "/w/src/a.ts"; P "/w/src/a.js.map"] false
              [mkOut (P "/w/src/a.js") [1] 1 false; mkOut (side_out_path (P "/w/src") (P "./a.js") map_suffix) [2] 2 false] false false false in
  snd (compile ex_opts oc) = true /\ snd (compile (mkOpts true true false) oc) = false.
Proof. vm_compute. split; reflexivity. Qed.

(* default_*_output_inside_outdir: hypotheses met, including an entry whose name is ".." *)
Example ex_default_templates :
  snd (path_relative_to_outbase (P "/w") (P "/w/src/...js") false (auto_output_path (P "/w") (P "/w/src/...js"))) = P "." /\
  entry_out_path (P "/w/out") default_entry_template (P "/w/src") (P "/w/src/...js") [] [] (P ".js") = P "/w/out/...js" /\
  sfree (P "ABCD2345") /\ sfree (P ".js") /\
  asset_out_path (P "/w/out") default_asset_template (P "/w/src") (P "/w/src/sub/d.txt") (P "H") = P "/w/out/d-H.txt".
Proof. vm_compute. repeat split; reflexivity. Qed.
