(* non-vacuity: concrete values meeting the hypotheses of the theorems *)
From V Require Import Common.Base C17.WriteSM C17.Spec.

Definition pa : path := [47;111;47;97].      (* /o/a *)
Definition pb : path := [47;111;47;98].      (* /o/b *)
Definition ex_opts := mkOpts true false false.
Definition ex_oc1 := mkOutcome false [[47;115;47;97]] false [mkOut pa [1] 11 false; mkOut pb [2] 12 false] false false false.

(* a successful build writes both reported files *)
Example ex_step_writes :
  r_effects (snd (step phys_id ex_opts (init []) ex_oc1)) = [EWrite pa [1]; EWrite pb [2]].
Proof. vm_compute. reflexivity. Qed.
