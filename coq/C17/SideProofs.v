(* C17: side files, any linked file on an input, and templates for which the
   rendered path provably has no parent-directory segment. *)
From V Require Import Common.Base C17.WriteSM C17.Proofs C17.CompileProofs C17.DiskProofs C17.PathModel C17.PathProofs C17.RelProofs.

(* ---------- appending a slash-free suffix only changes the last element ---------- *)
Lemma split_append_suffix p s : sfree s ->
  split_on SL (p ++ s) = removelast (split_on SL p) ++ [last (split_on SL p) [] ++ s].
Proof.
  intro Hs. induction p as [|x p IH]; simpl.
  - apply split_single. exact Hs.
  - destruct (x =? SL) eqn:E.
    + rewrite IH. destruct (split_on SL p) as [|a l] eqn:ES; [exfalso; exact (split_on_nonempty SL p ES)|]. reflexivity.
    + rewrite IH. destruct (split_on SL p) as [|a l] eqn:ES; [exfalso; exact (split_on_nonempty SL p ES)|].
      destruct l as [|b l]; reflexivity.
Qed.

Lemma existsb_removelast {A} (f : A -> bool) l : existsb f l = false -> existsb f (removelast l) = false.
Proof.
  induction l as [|a l IH]; simpl; intro H; [reflexivity|]. apply orb_false_iff in H as [Ha H].
  destruct l; [reflexivity|]. simpl. rewrite Ha. apply IH. exact H.
Qed.

Lemma has_dd_suffix p s : has_dd p = false -> sfree s -> (3 <= length s)%nat -> has_dd (p ++ s) = false.
Proof.
  intros HP Hs HL. unfold has_dd in *. rewrite (split_append_suffix p s Hs), existsb_app.
  rewrite (existsb_removelast _ _ HP). simpl. rewrite orb_false_r.
  apply path_eqb_neq. intro E. apply (f_equal (@length Z)) in E. rewrite app_length in E. simpl in E. lia.
Qed.

(* a side file sits in the output directory whenever its chunk does *)
Lemma side_inside outdir relp suffix :
  is_rooted outdir = true -> no_dotdot_seg relp = true -> sfree suffix -> (3 <= length suffix)%nat ->
  side_out_path outdir relp suffix =
  SL :: join_with SL (clean_segs outdir ++ filter proper (split_on SL (relp ++ suffix))).
Proof.
  intros HR HD Hs HL. unfold side_out_path. apply fs_join_inside; [exact HR | |].
  - destruct suffix; [simpl in HL; lia|]. destruct relp; discriminate.
  - rewrite no_dotdot_seg_has_dd in *. apply negb_true_iff in HD. rewrite (has_dd_suffix _ _ HD Hs HL). reflexivity.
Qed.

(* ---------- whatever the linker produces: a file on an input is refused ---------- *)
Lemma any_linked_on_input_refused opt oc o :
  cancel_early oc = false -> to_stdout opt = false -> effective_allow opt = false ->
  In o (linked oc) -> In (ckey o) (map canon (inputs oc)) ->
  snd (compile opt oc) = true.
Proof.
  intros HC HS HA Ho Hin. unfold compile. rewrite HC, HS, HA.
  destruct (dedupe [] (linked oc)) as [kept e2]. cbn [snd].
  assert (X : nonempty (overwrite_refused (inputs oc) (linked oc)) = true).
  { unfold overwrite_refused. rewrite nonempty_map.
    destruct (filter (fun o0 => mem (canon (o_path o0)) (map canon (inputs oc))) (linked oc)) eqn:EF; [|reflexivity].
    exfalso. assert (In o []) as []. rewrite <- EF. apply filter_In. split; [exact Ho|]. apply mem_In. exact Hin. }
  rewrite X, orb_true_r. reflexivity.
Qed.

(* ---------- templates whose rendering provably has no ".." segment ---------- *)
Lemma has_dd_dot_slash X : has_dd (46 :: SL :: X) = has_dd X.
Proof. change (46 :: SL :: X) with ([46] ++ SL :: X). rewrite has_dd_app. reflexivity. Qed.

Lemma has_dd_single s : sfree s -> s <> seg_dotdot -> has_dd s = false.
Proof.
  intros Hs Hn. unfold has_dd. rewrite (split_single s Hs). simpl. rewrite orb_false_r.
  apply path_eqb_neq. intro E. apply Hn. symmetry. exact E.
Qed.

Lemma sfree_app a b : sfree a -> sfree b -> sfree (a ++ b).
Proof. unfold sfree. intros A B. rewrite forallb_app, A, B. reflexivity. Qed.

Lemma not_dd_by_length (s : path) : (3 <= length s)%nat -> s <> seg_dotdot.
Proof. intros H E. subst. simpl in H. lia. Qed.

(* the default entry template "./[dir]/[name]" + extension: whatever the name
   is (even ".."), the last element is name ++ ".ext" *)
Lemma default_entry_rel_no_dotdot dir name hash ext :
  has_dd dir = false -> sfree name -> sfree ext -> (3 <= length ext)%nat ->
  no_dotdot_seg (render (default_entry_template ++ [(ext, None)]) dir name hash (drop_dot ext)) = true.
Proof.
  intros HD HN HE HL. rewrite no_dotdot_seg_has_dd. apply negb_true_iff.
  unfold render, default_entry_template. simpl map. simpl concat. rewrite !app_nil_r.
  change (has_dd (46 :: SL :: (dir ++ SL :: (name ++ ext))) = false).
  rewrite has_dd_dot_slash, has_dd_app, HD. simpl.
  apply has_dd_single; [apply sfree_app; assumption|].
  apply not_dd_by_length. rewrite app_length. lia.
Qed.

(* the default chunk template "./[name]-[hash]" + extension with [name] = "chunk" *)
Lemma default_chunk_rel_no_dotdot hash ext :
  sfree hash -> sfree ext ->
  no_dotdot_seg (chunk_rel_path default_asset_template hash ext) = true.
Proof.
  intros HH HE. rewrite no_dotdot_seg_has_dd. apply negb_true_iff.
  unfold chunk_rel_path, render, default_asset_template. simpl map. simpl concat. rewrite !app_nil_r.
  change (has_dd (46 :: SL :: (chunk_name ++ [45] ++ hash ++ ext)) = false).
  rewrite has_dd_dot_slash. apply has_dd_single.
  - apply sfree_app; [reflexivity|]. apply sfree_app; [reflexivity|]. apply sfree_app; assumption.
  - apply not_dd_by_length. rewrite !app_length. simpl. lia.
Qed.

(* the default asset template "./[name]-[hash]" + extension *)
Lemma default_asset_rel_no_dotdot dir name hash ext ext2 :
  sfree name -> sfree hash -> sfree ext ->
  no_dotdot_seg (render default_asset_template dir name hash ext2 ++ ext) = true.
Proof.
  intros HN HH HE. rewrite no_dotdot_seg_has_dd. apply negb_true_iff.
  unfold render, default_asset_template. simpl map. simpl concat. rewrite !app_nil_r. simpl. rewrite <- ?app_assoc.
  change (has_dd (46 :: SL :: (name ++ 45 :: (hash ++ ext))) = false).
  rewrite has_dd_dot_slash. apply has_dd_single.
  - apply sfree_app; [exact HN|]. change (45 :: hash ++ ext) with ([45] ++ hash ++ ext).
    apply sfree_app; [reflexivity|]. apply sfree_app; assumption.
  - intro E. assert (H : In 45 (name ++ 45 :: hash ++ ext)) by (apply in_or_app; right; left; reflexivity).
    rewrite E in H. simpl in H. destruct H as [H|[H|[]]]; discriminate.
Qed.

(* end to end for the default entry template: no hypothesis on rendered text *)
Lemma default_entry_inside outdir outbase entry custom hash ext :
  is_rooted outdir = true -> is_rooted outbase = true ->
  let custom2 := match custom with [] => auto_output_path outbase entry | _ => custom end in
  is_rooted (effective_abs outbase entry false custom2) = true ->
  no_bs (effective_abs outbase entry false custom2) = true ->
  sfree (snd (path_relative_to_outbase outbase entry false custom2)) ->
  sfree ext -> (3 <= length ext)%nat ->
  entry_out_path outdir default_entry_template outbase entry custom hash ext =
  SL :: join_with SL (clean_segs outdir ++ filter proper (split_on SL (entry_rel_path default_entry_template outbase entry custom hash ext))).
Proof.
  intros HR HB custom2 HA HN HS HE HL.
  apply entry_inside; [exact HR | destruct ext; [simpl in HL; lia | discriminate] |].
  unfold entry_rel_path. fold custom2.
  pose proof (relative_dir_no_dotdot outbase entry false custom2 HB HA HN) as HD.
  destruct (path_relative_to_outbase outbase entry false custom2) as [dir name]. cbn [fst snd] in *.
  apply default_entry_rel_no_dotdot; assumption.
Qed.

Lemma default_chunk_inside outdir hash ext :
  is_rooted outdir = true -> sfree hash -> sfree ext -> ext <> [] ->
  chunk_out_path outdir default_asset_template hash ext =
  SL :: join_with SL (clean_segs outdir ++ filter proper (split_on SL (chunk_rel_path default_asset_template hash ext))).
Proof.
  intros HR HH HE HN. apply chunk_inside; [exact HR | exact HN|]. apply default_chunk_rel_no_dotdot; assumption.
Qed.

Lemma default_asset_inside outdir outbase asset hash :
  is_rooted outdir = true ->
  sfree (snd (path_relative_to_outbase outbase asset false [])) -> sfree hash -> sfree (pi_ext asset) ->
  asset_out_path outdir default_asset_template outbase asset hash =
  SL :: join_with SL (clean_segs outdir ++ filter proper (split_on SL (asset_rel_path default_asset_template outbase asset hash))).
Proof.
  intros HR HS HH HE.
  assert (HD : no_dotdot_seg (asset_rel_path default_asset_template outbase asset hash) = true).
  { unfold asset_rel_path. destruct (path_relative_to_outbase outbase asset false []) as [dir name]. cbn [snd] in HS.
    apply default_asset_rel_no_dotdot; assumption. }
  apply asset_inside; [exact HR | | exact HD].
  unfold asset_rel_path. destruct (path_relative_to_outbase outbase asset false []) as [dir name].
  unfold render, default_asset_template. simpl. discriminate.
Qed.
