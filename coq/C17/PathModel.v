(* C17 path layer: where an output file lands.

   Mirrors (Unix flavour of esbuild's own path package):
   - internal/fs/filepath.go   goFilepath.clean / join / rel / dir / base / ext
     (reached through fs.RealFS().Join / Rel / Dir / Base / Ext)
   - internal/bundler/bundler.go  PathRelativeToOutbase (file namespace: custom
     output path, "index" heuristic, relative path to outbase, the leading
     "../" -> "_.._/" rewrite, trailing slashes, extension stripping)
   - pkg/api/api_impl.go  validatePathTemplate (parsing of entry/chunk/asset names)
   - internal/config/config.go  SubstituteTemplate + TemplateToString (as one
     rendering function)
   - internal/linker/linker.go  the entry-point case of computeChunks' template
     assembly and  AbsPath = fs.Join(AbsOutputDir, finalRelPath)

   Paths are byte lists; '/' = 47, '.' = 46, '\' = 92, '[' = 91. Executable
   definitions only. *)
From V Require Import Common.Base C17.WriteSM.

Definition SL : Z := 47.
Definition seg_dot : path := [46].
Definition seg_dotdot : path := [46; 46].

(* strings.Split(p, "/") : n separators give n+1 pieces *)
Fixpoint split_on (c : Z) (p : path) : list path :=
  match p with
  | [] => [[]]
  | x :: r =>
    if x =? c then [] :: split_on c r
    else match split_on c r with
         | s :: t => (x :: s) :: t
         | [] => [[x]]
         end
  end.
(* strings.Join(l, "/") *)
Fixpoint join_with (c : Z) (l : list path) : path :=
  match l with
  | [] => []
  | [s] => s
  | s :: r => s ++ c :: join_with c r
  end.

Definition is_rooted (p : path) : bool := match p with c :: _ => c =? SL | [] => false end.

(* one path element pushed on the (reversed) stack of kept elements *)
Definition push (rooted : bool) (stack : list path) (s : path) : list path :=
  if path_eqb s [] || path_eqb s seg_dot then stack
  else if path_eqb s seg_dotdot then
    match stack with
    | top :: rest => if path_eqb top seg_dotdot then seg_dotdot :: stack else rest
    | [] => if rooted then [] else [seg_dotdot]
    end
  else s :: stack.
Definition clean_stack (rooted : bool) (stack : list path) (segs : list path) : list path :=
  fold_left (push rooted) segs stack.
(* the elements of the cleaned path, in order *)
Definition clean_segs (p : path) : list path := rev (clean_stack (is_rooted p) [] (split_on SL p)).

(* goFilepath.clean *)
Definition clean (p : path) : path :=
  if is_rooted p then SL :: join_with SL (clean_segs p)
  else match clean_segs p with [] => seg_dot | l => join_with SL l end.

(* realFS.Join(a, b) = clean(join([a, b])): empty parts are skipped *)
Definition fs_join (a b : path) : path :=
  match a, b with
  | [], [] => clean []
  | [], _ => clean b
  | _, [] => clean a
  | _, _ => clean (a ++ SL :: b)
  end.

(* goFilepath.rel on two absolute paths *)
Fixpoint strip_common (a b : list path) : list path * list path :=
  match a, b with
  | x :: a', y :: b' => if path_eqb x y then strip_common a' b' else (a, b)
  | _, _ => (a, b)
  end.
Definition rel (base target : path) : path :=
  let '(b', t') := strip_common (clean_segs base) (clean_segs target) in
  match repeat seg_dotdot (length b') ++ t' with
  | [] => seg_dot
  | l => join_with SL l
  end.

(* index-free helpers on the last '/' *)
Fixpoint last_slash_split (p : path) : option (path * path) :=   (* (up to and including the last '/', rest) *)
  match p with
  | [] => None
  | x :: r =>
    match last_slash_split r with
    | Some (a, b) => Some (x :: a, b)
    | None => if x =? SL then Some ([x], r) else None
    end
  end.
Fixpoint strip_trailing (c : Z) (p : path) : path :=
  match p with
  | [] => []
  | x :: r => match strip_trailing c r with
              | [] => if x =? c then [] else [x]
              | r' => x :: r'
              end
  end.
(* goFilepath.dir *)
Definition fs_dir (p : path) : path :=
  match last_slash_split p with
  | Some (a, _) => clean a
  | None => clean []
  end.
(* goFilepath.base *)
Definition fs_base (p : path) : path :=
  match p with
  | [] => seg_dot
  | _ =>
    match strip_trailing SL p with
    | [] => [SL]
    | q => match last_slash_split q with Some (_, b) => b | None => q end
    end
  end.
(* goFilepath.ext: from the last '.' of the last element *)
Fixpoint last_dot_suffix (p : path) : option path :=
  match p with
  | [] => None
  | x :: r =>
    match last_dot_suffix r with
    | Some s => Some s
    | None => if x =? 46 then Some p else None
    end
  end.
Definition fs_ext (p : path) : path :=
  let lastel := match last_slash_split p with Some (_, b) => b | None => p end in
  match last_dot_suffix lastel with Some s => s | None => [] end.
Definition strip_ext (b : path) : path := firstn (length b - length (fs_ext b)) b.

(* ---- bundler.PathRelativeToOutbase, file namespace ---- *)
Definition dotdot_slash : path := [46; 46; 47].
Fixpoint has_prefix (pre p : path) : bool :=
  match pre, p with
  | [], _ => true
  | a :: pre', b :: p' => (a =? b) && has_prefix pre' p'
  | _ :: _, [] => false
  end.
(* for strings.HasPrefix(relDir[n*3:], "../") { n++ } *)
Fixpoint count_dotdot (fuel : nat) (p : path) : nat :=
  match fuel with
  | O => O
  | S f => if has_prefix dotdot_slash p then S (count_dotdot f (skipn 3 p)) else O
  end.
Definition underscored : path := [95; 46; 46; 95; 47].   (* "_.._/" *)
Definition has_suffix (suf p : path) : bool := has_prefix (rev suf) (rev p).

Definition neutralise (relDir0 : path) : path :=
  let d1 := map (fun c => if c =? 92 then SL else c) relDir0 in
  let n := count_dotdot (length d1) d1 in
  let d2 := if (0 <? Z.of_nat n) then concat (repeat underscored n) ++ skipn (n * 3) d1 else d1 in
  let d3 := strip_trailing SL d2 in
  let d4 := SL :: d3 in
  if has_suffix [SL; 46] d4 then removelast d4 else d4.

Definition index_name : path := [105; 110; 100; 101; 120].
(* (relDir, baseName) *)
(* the absolute path whose position relative to outbase decides the output path *)
Definition effective_abs (outbase absPath0 : path) (avoidIndex : bool) (custom : path) : path :=
  match custom with
  | _ :: _ => if is_rooted custom then custom else fs_join outbase custom
  | [] => if avoidIndex && path_eqb (strip_ext (fs_base absPath0)) index_name then fs_dir absPath0 else absPath0
  end.
Definition path_relative_to_outbase (outbase absPath0 : path) (avoidIndex : bool) (custom : path) : path * path :=
  let absPath := effective_abs outbase absPath0 avoidIndex custom in
  let relPath := rel outbase absPath in
  let relDir := neutralise (fs_dir relPath ++ [SL]) in
  let baseName := fs_base relPath in
  (relDir, match custom with [] => strip_ext baseName | _ => baseName end).

(* ---- templates ---- *)
Inductive placeholder := PDir | PName | PHash | PExt.
Definition tpart : Type := path * option placeholder.       (* config.PathTemplate: Data, Placeholder *)

Definition ph_text (p : placeholder) : path :=
  match p with
  | PDir => [91; 100; 105; 114; 93]
  | PName => [91; 110; 97; 109; 101; 93]
  | PHash => [91; 104; 97; 115; 104; 93]
  | PExt => [91; 101; 120; 116; 93]
  end.
Definition ph_at (p : path) : option placeholder :=
  if has_prefix (ph_text PDir) p then Some PDir
  else if has_prefix (ph_text PName) p then Some PName
  else if has_prefix (ph_text PHash) p then Some PHash
  else if has_prefix (ph_text PExt) p then Some PExt
  else None.

(* validatePathTemplate after the "./" prefix and the backslash replacement:
   [acc] is the reversed literal text collected since the last placeholder *)
Fixpoint parse_parts (fuel : nat) (acc : path) (p : path) : list tpart :=
  match fuel with
  | O => []
  | S f =>
    match p with
    | [] => match acc with
            | [] => []
            | 91 :: _ => []     (* quirk: a remainder that ends with '[' is dropped (search == len(template)) *)
            | _ => [(rev acc, None)]
            end
    | x :: r =>
      match ph_at p with
      | Some ph => (rev acc, Some ph) :: parse_parts f [] (skipn (length (ph_text ph)) p)
      | None => parse_parts f (x :: acc) r
      end
    end
  end.
Definition parse_template (t : path) : list tpart :=
  match t with
  | [] => []
  | _ => let t' := [46; SL] ++ map (fun c => if c =? 92 then SL else c) t in
         parse_parts (S (length t')) [] t'
  end.

(* applyOptionDefaults: "./[dir]/[name]" when no (or an empty) entry template is configured *)
Definition default_entry_template : list tpart := [([46; SL], Some PDir); ([SL], Some PName)].
Definition entry_template (t : path) : list tpart :=
  match parse_template t with [] => default_entry_template | l => l end.

(* config.TemplateToString (config.SubstituteTemplate (... dir name ext) hash) *)
Definition render (t : list tpart) (dir name hash ext : path) : path :=
  concat (map (fun part : tpart =>
    fst part ++ match snd part with
                | None => []
                | Some PDir => dir
                | Some PName => name
                | Some PHash => hash
                | Some PExt => ext
                end) t).

(* the parent-directory segments the property text speaks about *)
Definition no_dotdot_seg (p : path) : bool := negb (existsb (path_eqb seg_dotdot) (split_on SL p)).

(* bundler addEntryPoints: an entry point without an explicit output path gets
   one generated from its input path: relative to outbase, extension cut at
   the last of '/', '.', '\' when that is a '.' *)
Fixpoint drop_to_sep (r : path) : option (Z * path) :=
  match r with
  | [] => None
  | x :: t => if (x =? SL) || (x =? 46) || (x =? 92) then Some (x, t) else drop_to_sep t
  end.
Definition strip_last_ext (p : path) : path :=
  match drop_to_sep (rev p) with
  | Some (x, t) => if x =? 46 then rev t else p
  | None => p
  end.
Definition auto_output_path (outbase entry : path) : path := strip_last_ext (rel outbase entry).

(* linker: entry point chunk of a user-specified entry point without outfile.
   [custom] is the explicit (relative) output path of the entry point, or []
   for the generated one. [ext] is the output extension with its dot (".js"). *)
Definition entry_rel_path (tmpl : list tpart) (outbase entry custom hash ext : path) : path :=
  let custom' := match custom with [] => auto_output_path outbase entry | _ => custom end in
  let '(dir, name) := path_relative_to_outbase outbase entry false custom' in
  render (tmpl ++ [(ext, None)]) dir name hash (match ext with 46 :: e => e | e => e end).
Definition entry_out_path (outdir : path) (tmpl : list tpart) (outbase entry custom hash ext : path) : path :=
  fs_join outdir (entry_rel_path tmpl outbase entry custom hash ext).

(* ---- explicit output paths of entry points ({in, out}) ----
   bundler addEntryPoints: an explicit absolute output path is taken relative
   to the output directory; a relative one is used as it is (PathRelativeToOutbase
   joins it onto outbase); neither loses an extension *)
Definition explicit_custom (outdir out : path) : path :=
  if is_rooted out then rel outdir out else out.

(* ---- assets (file/copy loader, not entry points): bundler.go, "AdditionalFiles" ---- *)
(* logger.PlatformIndependentPathDirBaseExt, the extension part, for a cleaned
   Unix path: from the last '.' of the last element; ".module.css" as a whole *)
Definition ext_css : path := [46; 99; 115; 115].
Definition ext_module_css : path := [46; 109; 111; 100; 117; 108; 101; 46; 99; 115; 115].
Definition pi_ext (p : path) : path :=
  let b := match last_slash_split p with Some (_, b) => b | None => p end in
  match last_dot_suffix b with
  | None => []
  | Some e => if path_eqb e ext_css && has_suffix ext_module_css b then ext_module_css else e
  end.
Definition drop_dot (e : path) : path := match e with 46 :: r => r | _ => e end.
Definition default_asset_template : list tpart := [([46; SL], Some PName); ([45], Some PHash)].   (* "./[name]-[hash]" *)
Definition asset_template (t : path) : list tpart :=
  match parse_template t with [] => default_asset_template | l => l end.
Definition asset_rel_path (tmpl : list tpart) (outbase asset hash : path) : path :=
  let '(dir, name) := path_relative_to_outbase outbase asset false [] in
  let ext := pi_ext asset in
  render tmpl dir name hash (drop_dot ext) ++ ext.
Definition asset_out_path (outdir : path) (tmpl : list tpart) (outbase asset hash : path) : path :=
  fs_join outdir (asset_rel_path tmpl outbase asset hash).

(* ---- shared chunks (linker computeChunks, the non-entry case) ---- *)
Definition chunk_name : path := [99; 104; 117; 110; 107].
Definition chunk_rel_path (tmpl : list tpart) (hash ext : path) : path :=
  render (tmpl ++ [(ext, None)]) [SL] chunk_name hash (drop_dot ext).
Definition chunk_out_path (outdir : path) (tmpl : list tpart) (hash ext : path) : path :=
  fs_join outdir (chunk_rel_path tmpl hash ext).

(* ---- side files of a chunk (linker generateChunksInParallel): the external
   source map and the linked/external legal comments sit next to the chunk ---- *)
Definition map_suffix : path := [46; 109; 97; 112].                                  (* ".map" *)
Definition legal_suffix : path := [46; 76; 69; 71; 65; 76; 46; 116; 120; 116].       (* ".LEGAL.txt" *)
Definition side_out_path (outdir rel suffix : path) : path := fs_join outdir (rel ++ suffix).

(* ---- outfile mode (linker computeChunks: "If the output path was configured
   explicitly, use it verbatim" - verbatim as the [name] and the extension of
   the entry template; AbsOutputDir is the directory of the output file) ---- *)
Definition outfile_rel_path (tmpl : list tpart) (outfile hash : path) : path :=
  let base := fs_base outfile in
  let ext := fs_ext base in
  render (tmpl ++ [(ext, None)]) [SL] (strip_ext base) hash (drop_dot ext).
Definition outfile_out_path (tmpl : list tpart) (outfile hash : path) : path :=
  fs_join (fs_dir outfile) (outfile_rel_path tmpl outfile hash).
