(* C17 lemmas: what one step does to the disk, and invariants of histories. *)
From V Require Import Common.Base C17.WriteSM C17.Proofs C17.CompileProofs.

Lemma path_eqb_sym a b : path_eqb a b = path_eqb b a.
Proof.
  destruct (path_eqb a b) eqn:E1, (path_eqb b a) eqn:E2; try reflexivity.
  - apply path_eqb_eq in E1. subst. rewrite path_eqb_refl in E2. discriminate.
  - apply path_eqb_eq in E2. subst. rewrite path_eqb_refl in E1. discriminate.
Qed.

Lemma mem_ext p l1 l2 : (In p l1 <-> In p l2) -> mem p l1 = mem p l2.
Proof.
  intro H. destruct (mem p l1) eqn:E1, (mem p l2) eqn:E2; try reflexivity.
  - apply mem_In in E1. apply mem_false in E2. tauto.
  - apply mem_In in E2. apply mem_false in E1. tauto.
Qed.
Lemma mem_keys_hashes p l : mem p (keys (hashes_of l)) = mem p (map o_path l).
Proof. apply mem_ext. apply keys_hashes_of. Qed.

Definition wr (os : list outfile) : list effect := map (fun o => EWrite (o_path o) (o_data o)) os.

Lemma flat_map_filter_wr (f : outfile -> bool) l :
  flat_map (fun o => if f o then [] else [EWrite (o_path o) (o_data o)]) l = wr (filter (fun o => negb (f o)) l).
Proof.
  induction l as [|a l IH]; simpl; [reflexivity|].
  destruct (f a); simpl; rewrite IH; reflexivity.
Qed.

Lemma writes_of_app a b : writes_of (a ++ b) = writes_of a ++ writes_of b.
Proof. unfold writes_of. apply flat_map_app. Qed.
Lemma writes_of_wr l : writes_of (wr l) = map o_path l.
Proof. induction l as [|a l IH]; simpl; [reflexivity | rewrite IH; reflexivity]. Qed.
Lemma writes_of_deletes l : writes_of (map EDelete l) = [].
Proof. induction l as [|a l IH]; simpl; [reflexivity | exact IH]. Qed.

Section WithFS.
Variable phys : path -> path.

Lemma apply_app d a b : apply phys d (a ++ b) = apply phys (apply phys d a) b.
Proof. unfold apply. apply fold_left_app. Qed.

Lemma lookup_apply_deletes l : forall d p,
  lookup (apply phys d (map EDelete l)) p = if mem p (map phys l) then None else lookup d p.
Proof.
  induction l as [|a l IH]; intros d p; [reflexivity|].
  change (apply phys d (map EDelete (a :: l))) with (apply phys (remove d (phys a)) (map EDelete l)).
  rewrite IH. rewrite lookup_remove. simpl map. unfold mem at 2. simpl existsb. fold (mem p (map phys l)).
  rewrite (path_eqb_sym (phys a) p).
  destruct (mem p (map phys l)); [rewrite orb_true_r; reflexivity|].
  rewrite orb_false_r. reflexivity.
Qed.

Lemma find_none_notin (f : outfile -> path) q l :
  ~ In q (map f l) -> find (fun o => path_eqb (f o) q) l = None.
Proof.
  induction l as [|a l IH]; simpl; intro H; [reflexivity|].
  destruct (path_eqb (f a) q) eqn:E.
  - apply path_eqb_eq in E. exfalso. apply H. left. exact E.
  - apply IH. intro H'. apply H. right. exact H'.
Qed.

Lemma lookup_apply_writes os : forall d p,
  NoDup (map (fun o => phys (o_path o)) os) ->
  lookup (apply phys d (wr os)) p =
  match find (fun o => path_eqb (phys (o_path o)) p) os with
  | Some o => Some (o_data o)
  | None => lookup d p
  end.
Proof.
  induction os as [|a os IH]; intros d p ND; [reflexivity|].
  change (apply phys d (wr (a :: os))) with (apply phys (upd d (phys (o_path a)) (o_data a)) (wr os)).
  inversion ND as [|? ? Hn ND']; subst. rewrite (IH _ _ ND'). simpl find.
  destruct (path_eqb (phys (o_path a)) p) eqn:E.
  - apply path_eqb_eq in E. subst p.
    rewrite (find_none_notin (fun o => phys (o_path o)) _ _ Hn).
    rewrite lookup_upd, path_eqb_refl. reflexivity.
  - destruct (find _ os); [reflexivity|]. rewrite lookup_upd, E. reflexivity.
Qed.

(* shape of a step that reaches the write phase without errors, in directory mode *)
Lemma step_success_shape fixed opt st oc st' r :
  step_gen phys fixed opt st oc = (st', r) ->
  r_failed_early r = false -> write opt = true -> to_stdout opt = false ->
  exists results,
    results_of opt oc = (results, false) /\
    r_outputs r = results /\
    r_effects r = wr (filter (fun o => negb (skip phys st (hashes_of results) o)) results)
                  ++ map EDelete (filter (fun p => negb (mem p (keys (hashes_of results)))) (keys (latest st))) /\
    disk st' = apply phys (disk st) (r_effects r) /\
    latest st' = hashes_of results.
Proof.
  rewrite step_gen_unfold. destruct (results_of opt oc) as [results err1] eqn:ER.
  cbv zeta. intros E HF HW HS. injection E as E1 E2. subst st' r. cbn [r_failed_early] in HF. subst err1.
  rewrite HW, HS. cbn [negb andb r_outputs r_effects disk latest]. rewrite andb_false_r.
  exists results. rewrite map_id, flat_map_filter_wr. repeat split; reflexivity.
Qed.

(* results_of without error comes from a Compile without error *)
Lemma results_of_ok opt oc results :
  results_of opt oc = (results, false) ->
  scan_err oc = false /\ cancel_early oc = false /\ cancel_late oc = false /\ compile opt oc = (results, false).
Proof.
  unfold results_of. destruct (scan_err oc); [discriminate|].
  destruct (compile opt oc) as [res cerr]. intro E. injection E as E1 E2. subst res.
  apply orb_false_iff in E2 as [E2 E3]. apply orb_false_iff in E2 as [E2 E4]. subst cerr.
  repeat split; assumption.
Qed.

Ltac triv_dels :=
  exists []; split; [reflexivity | split; [reflexivity | split; [intros ? [] | let C := fresh "C" in intro C; exfalso; apply C; reflexivity]]].

(* a step that has errors when the write phase starts, does not write, or is
   in stdout mode only ever removes files listed in the hash table *)
Lemma failed_step_shape fixed opt st oc st' r :
  step_gen phys fixed opt st oc = (st', r) ->
  r_failed_early r = true \/ write opt = false \/ to_stdout opt = true ->
  exists dels, r_effects r = map EDelete dels /\ disk st' = apply phys (disk st) (map EDelete dels) /\
               (forall p, In p dels -> In p (keys (latest st))) /\
               (dels <> [] -> r_failed_early r = true /\ fixed = false /\ write opt = true /\ to_stdout opt = false).
Proof.
  rewrite step_gen_unfold. destruct (results_of opt oc) as [results err1] eqn:ER.
  cbv zeta. intros E H. injection E as E1 E2. subst st' r. cbn [r_failed_early r_effects disk] in *.
  destruct (write opt) eqn:EW; cbn [andb].
  2:{ triv_dels. }
  destruct (to_stdout opt) eqn:ES; cbn [negb andb].
  { triv_dels. }
  destruct H as [H|[H|H]]; try discriminate. subst err1. rewrite andb_true_r.
  destruct fixed.
  - triv_dels.
  - cbn [app]. eexists. repeat split; try reflexivity.
    intros p Hp. apply filter_In in Hp as [Hp _]. exact Hp.
Qed.

End WithFS.

(* ---------- without symbolic links: the disk after a successful step, exactly ---------- *)

Lemma find_path_In (l : list outfile) p o :
  find (fun o => path_eqb (o_path o) p) l = Some o -> In o l /\ o_path o = p.
Proof. intro H. apply find_some in H as [H1 H2]. apply path_eqb_eq in H2. auto. Qed.
Lemma find_path_None (l : list outfile) p :
  find (fun o => path_eqb (o_path o) p) l = None <-> ~ In p (map o_path l).
Proof.
  split.
  - intros H Hin. apply in_map_iff in Hin as [o [E Ho]].
    pose proof (find_none _ _ H o Ho) as F. simpl in F. rewrite E, path_eqb_refl in F. discriminate.
  - intro H. apply (find_none_notin o_path). exact H.
Qed.

Lemma NoDup_map_filter {A B} (f : A -> B) (g : A -> bool) l : NoDup (map f l) -> NoDup (map f (filter g l)).
Proof.
  induction l as [|a l IH]; simpl; intro ND; [constructor|].
  inversion ND as [|? ? Hn ND']; subst. destruct (g a); simpl; [|apply IH; exact ND'].
  constructor; [|apply IH; exact ND'].
  intro H. apply Hn. apply in_map_iff in H as [x [Ex Hx]]. apply filter_In in Hx as [Hx _].
  apply in_map_iff. exists x. auto.
Qed.

Lemma successful_step_disk fixed opt st oc st' r :
  step_gen phys_id fixed opt st oc = (st', r) ->
  r_failed_early r = false -> write opt = true -> to_stdout opt = false ->
  NoDup (map o_path (r_outputs r)) /\
  forall p, lookup (disk st') p =
    match find (fun o => path_eqb (o_path o) p) (r_outputs r) with
    | Some o => Some (o_data o)
    | None => if mem p (keys (latest st)) then None else lookup (disk st) p
    end.
Proof.
  intros E HF HW HS.
  destruct (step_success_shape _ _ _ _ _ _ _ E HF HW HS) as [results [ER [EO [EE [ED EL]]]]].
  destruct (results_of_ok _ _ _ ER) as [_ [HC [_ ECo]]].
  destruct (compile_ok_facts _ _ _ HC HS ECo) as [ND _].
  rewrite EO. split; [exact ND|]. intro p.
  rewrite ED, EE, apply_app, lookup_apply_deletes.
  set (kept := filter (fun o => negb (skip phys_id st (hashes_of results) o)) results).
  assert (NDk : NoDup (map (fun o => phys_id (o_path o)) kept)).
  { change (NoDup (map o_path kept)). unfold kept. apply NoDup_map_filter. exact ND. }
  rewrite (lookup_apply_writes phys_id kept _ _ NDk).
  change (fun o => path_eqb (phys_id (o_path o)) p) with (fun o => path_eqb (o_path o) p).
  change (map phys_id) with (map (fun q : path => q)). rewrite map_id.
  destruct (find (fun o => path_eqb (o_path o) p) results) as [o|] eqn:EF.
  - apply find_path_In in EF as [Ho Ep].
    assert (Hnd : mem p (filter (fun p0 => negb (mem p0 (keys (hashes_of results)))) (keys (latest st))) = false).
    { apply mem_false. intro H. apply filter_In in H as [_ H]. apply negb_true_iff in H.
      rewrite mem_keys_hashes in H. apply mem_false in H. apply H. rewrite <- Ep. apply in_map. exact Ho. }
    rewrite Hnd.
    destruct (find (fun o0 => path_eqb (o_path o0) p) kept) as [o'|] eqn:EK.
    + apply find_path_In in EK as [Ho' Ep']. apply filter_In in Ho' as [Ho' _].
      assert (o' = o) by (apply (NoDup_map_eq o_path results); try assumption; congruence).
      subst. reflexivity.
    + (* o was skipped: the disk already holds its contents *)
      destruct (skip phys_id st (hashes_of results) o) eqn:ESk.
      * unfold skip in ESk.
        destruct (lookup (latest st) (o_path o)); [|discriminate].
        destruct (lookup (hashes_of results) (o_path o)); [|discriminate].
        apply andb_true_iff in ESk as [_ ESk]. unfold phys_id in ESk. rewrite Ep in ESk.
        destruct (lookup (disk st) p) as [c|]; [|discriminate].
        apply content_eqb_eq in ESk. subst. reflexivity.
      * exfalso. apply find_path_None in EK. apply EK. rewrite <- Ep. apply in_map.
        apply filter_In. split; [exact Ho | rewrite ESk; reflexivity].
  - assert (EK : find (fun o0 => path_eqb (o_path o0) p) kept = None).
    { apply find_path_None. apply find_path_None in EF. intro H. apply EF.
      apply in_map_iff in H as [x [Ex Hx]]. apply filter_In in Hx as [Hx _]. apply in_map_iff. exists x. auto. }
    rewrite EK.
    assert (Hm : mem p (filter (fun p0 => negb (mem p0 (keys (hashes_of results)))) (keys (latest st))) = mem p (keys (latest st))).
    { apply mem_ext. rewrite filter_In. split; [tauto|]. intro H. split; [exact H|].
      apply negb_true_iff. rewrite mem_keys_hashes. apply mem_false. apply find_path_None. exact EF. }
    rewrite Hm. reflexivity.
Qed.

(* the same for inputs: without symbolic links and without permission to
   overwrite, an input either keeps its contents or was in the hash table and
   is gone *)
Lemma inputs_not_written fixed phys opt st oc st' r p c :
  step_gen phys fixed opt st oc = (st', r) ->
  effective_allow opt = false ->
  In (EWrite p c) (r_effects r) -> ~ In (canon p) (map canon (inputs oc)).
Proof.
  intros E HA HI.
  destruct (writes_are_reported_all _ _ _ _ _ _ _ _ _ E HI) as [HF [HW [HS [o [Ho [Ep Ec]]]]]].
  destruct (step_success_shape _ _ _ _ _ _ _ E HF HW HS) as [results [ER [EO _]]].
  destruct (results_of_ok _ _ _ ER) as [_ [HC [_ ECo]]].
  destruct (compile_ok_facts _ _ _ HC HS ECo) as [_ [Hsub [_ [_ [Hin _]]]]].
  rewrite EO in Ho. subst p. apply (Hin HA o). apply Hsub. exact Ho.
Qed.

Lemma input_safe_or_deleted fixed opt st oc st' r q :
  step_gen phys_id fixed opt st oc = (st', r) ->
  effective_allow opt = false -> In q (inputs oc) ->
  lookup (disk st') q = lookup (disk st) q \/
  (lookup (disk st') q = None /\ In q (keys (latest st)) /\ In (EDelete q) (r_effects r)).
Proof.
  intros E HA Hq.
  destruct (r_failed_early r) eqn:HF; [|destruct (write opt) eqn:HW; [destruct (to_stdout opt) eqn:HS|]].
  3:{ (* success *)
    destruct (successful_step_disk _ _ _ _ _ _ E HF HW HS) as [_ HD].
    destruct (step_success_shape _ _ _ _ _ _ _ E HF HW HS) as [results [ER [EO [EE _]]]].
    destruct (results_of_ok _ _ _ ER) as [_ [HC [_ ECo]]].
    destruct (compile_ok_facts _ _ _ HC HS ECo) as [_ [Hsub [_ [_ [Hin _]]]]].
    rewrite HD. rewrite EO.
    assert (EF : find (fun o => path_eqb (o_path o) q) results = None).
    { apply find_path_None. intro H. apply in_map_iff in H as [o [Eo Ho]].
      apply (Hin HA o (Hsub o Ho)). unfold ckey. rewrite Eo. apply in_map. exact Hq. }
    rewrite EF. destruct (mem q (keys (latest st))) eqn:EM; [|left; reflexivity].
    right. apply mem_In in EM. repeat split; try assumption.
    rewrite EE. apply in_or_app. right. apply in_map. apply filter_In. split; [exact EM|].
    apply negb_true_iff. rewrite mem_keys_hashes. apply mem_false. apply find_path_None. exact EF. }
  all: match goal with
       | |- _ =>
         assert (HH : r_failed_early r = true \/ write opt = false \/ to_stdout opt = true) by tauto;
         destruct (failed_step_shape _ _ _ _ _ _ _ E HH) as [dels [EE [ED [Hk _]]]];
         rewrite ED, lookup_apply_deletes;
         change (map phys_id dels) with (map (fun x : path => x) dels); rewrite map_id;
         destruct (mem q dels) eqn:EM; [|left; reflexivity];
         right; apply mem_In in EM; repeat split; [apply Hk; exact EM | rewrite EE; apply in_map; exact EM]
       end.
Qed.

(* ---------- histories ---------- *)
Section Histories.
Variable phys : path -> path.
Variable fixed : bool.
Variable opt : options.

(* every path in the hash table was written by an earlier rebuild of the
   context (when the context writes to a directory at all) *)
Definition table_owned (st : state) (W : list path) : Prop :=
  write opt = true -> to_stdout opt = false -> forall p, In p (keys (latest st)) -> In p W.

Lemma table_owned_step st oc st' r W :
  step_gen phys fixed opt st oc = (st', r) ->
  table_owned st W -> table_owned st' (W ++ writes_of (r_effects r)).
Proof.
  intros E Inv HW HS p Hp.
  destruct (r_failed_early r) eqn:HF.
  - (* failed: the table is empty (pinned code) or unchanged (repaired code) *)
    revert E. rewrite step_gen_unfold. destruct (results_of opt oc) as [results err1].
    cbv zeta. intro E. injection E as E1 E2. subst st' r. cbn [r_failed_early latest] in *. subst err1.
    rewrite andb_true_r in Hp. destruct fixed.
    + apply in_or_app. left. apply Inv; assumption.
    + simpl in Hp. contradiction.
  - destruct (step_success_shape _ _ _ _ _ _ _ E HF HW HS) as [results [_ [_ [EE [_ EL]]]]].
    rewrite EL in Hp. apply keys_hashes_of in Hp. apply in_map_iff in Hp as [o [Ep Ho]].
    rewrite EE, writes_of_app, writes_of_wr, writes_of_deletes, app_nil_r.
    destruct (skip phys st (hashes_of results) o) eqn:ES.
    + apply in_or_app. left. apply Inv; try assumption.
      unfold skip in ES. destruct (lookup (latest st) (o_path o)) eqn:EL'; [|discriminate].
      rewrite <- Ep. eapply lookup_in_keys. exact EL'.
    + apply in_or_app. right. rewrite <- Ep. apply in_map. apply filter_In. split; [exact Ho | rewrite ES; reflexivity].
Qed.

Lemma deletes_owned_gen ocs : forall st W,
  table_owned st W ->
  forall pre res post, trace_gen phys fixed opt st ocs = pre ++ res :: post ->
  forall p, In (EDelete p) (r_effects res) ->
    In p (W ++ written_paths pre) /\ ~ In p (map o_path (r_outputs res)).
Proof.
  induction ocs as [|oc ocs IH]; intros st W Inv pre res post E p Hp.
  - destruct pre; discriminate.
  - simpl in E. destruct (step_gen phys fixed opt st oc) as [st' r0] eqn:ES.
    destruct pre as [|r1 pre].
    + simpl in E. injection E as E1 E2. subst r0.
      destruct (deletes_in_table _ _ _ _ _ _ _ _ ES Hp) as [Hk [Hn [HW [HS _]]]].
      split; [|exact Hn]. apply in_or_app. left. apply Inv; assumption.
    + simpl in E. injection E as E1 E2. subst r1.
      pose proof (table_owned_step _ _ _ _ _ ES Inv) as Inv'.
      destruct (IH _ _ Inv' _ _ _ E2 p Hp) as [H1 H2]. split; [|exact H2].
      simpl. rewrite app_assoc. exact H1.
Qed.

(* every element of a trace is the result of a step *)
Lemma trace_elements ocs : forall st res,
  In res (trace_gen phys fixed opt st ocs) ->
  exists st0 oc st1, step_gen phys fixed opt st0 oc = (st1, res).
Proof.
  induction ocs as [|oc ocs IH]; intros st res H; [contradiction|].
  simpl in H. destruct (step_gen phys fixed opt st oc) as [st' r0] eqn:ES.
  destruct H as [H|H].
  - subst. exists st, oc, st'. exact ES.
  - exact (IH _ _ H).
Qed.

(* the final state of a history is the fold_left of the steps *)
Lemma run_gen_cons st oc ocs :
  run_gen phys fixed opt st (oc :: ocs) = run_gen phys fixed opt (fst (step_gen phys fixed opt st oc)) ocs.
Proof. reflexivity. Qed.

End Histories.

(* from the initial state of a context (empty hash table) *)
Lemma deletes_only_own_all phys fixed opt d0 ocs pre res post :
  trace_gen phys fixed opt (init d0) ocs = pre ++ res :: post ->
  forall p, In (EDelete p) (r_effects res) ->
    In p (written_paths pre) /\ ~ In p (map o_path (r_outputs res)).
Proof.
  intros E p Hp.
  apply (deletes_owned_gen phys fixed opt ocs (init d0) [] (fun _ _ _ F => match F with end) pre res post E p Hp).
Qed.
Lemma trace_elements_all phys fixed opt st ocs res :
  In res (trace_gen phys fixed opt st ocs) ->
  exists st0 oc st1, step_gen phys fixed opt st0 oc = (st1, res).
Proof. apply trace_elements. Qed.

(* the current step: a build that has errors when the write phase starts, does
   not write, or is in stdout mode leaves the disk as it is *)
Lemma nonwriting_step_disk_unchanged phys opt st oc st' r :
  step phys opt st oc = (st', r) ->
  r_failed_early r = true \/ write opt = false \/ to_stdout opt = true ->
  disk st' = disk st /\ r_effects r = [].
Proof.
  intros E H. destruct (failed_step_shape _ _ _ _ _ _ _ E H) as [dels [EE [ED [_ Hne]]]].
  destruct dels as [|d dels]; [rewrite ED, EE; split; reflexivity|].
  assert (N : d :: dels <> []) by discriminate. destruct (Hne N) as [_ [F _]]. discriminate.
Qed.

(* ---------- foreign files, over whole histories (no symbolic links) ---------- *)
Section Foreign.
Variable fixed : bool.
Variable opt : options.

Lemma writes_subset_outputs phys st oc st' r p :
  step_gen phys fixed opt st oc = (st', r) -> In p (writes_of (r_effects r)) -> In p (map o_path (r_outputs r)).
Proof.
  intros E H. unfold writes_of in H. apply in_flat_map in H as [e [He Hp]].
  destruct e as [q c|q]; simpl in Hp; [|contradiction]. destruct Hp as [Hp|[]]. subst q.
  destruct (writes_are_reported_all _ _ _ _ _ _ _ _ _ E He) as [_ [_ [_ [o [Ho [Ep _]]]]]].
  rewrite <- Ep. apply in_map. exact Ho.
Qed.

(* one step leaves alone every path that the context never wrote and that is
   not a reported output of the step *)
Lemma foreign_step st oc st' r W p :
  step_gen phys_id fixed opt st oc = (st', r) ->
  table_owned opt st W -> ~ In p W -> ~ In p (map o_path (r_outputs r)) ->
  lookup (disk st') p = lookup (disk st) p /\ ~ In p (W ++ writes_of (r_effects r)).
Proof.
  intros E Inv HW Hout. split.
  - destruct (r_failed_early r) eqn:HF; [|destruct (write opt) eqn:EW; [destruct (to_stdout opt) eqn:ES|]].
    3:{ destruct (successful_step_disk _ _ _ _ _ _ E HF EW ES) as [_ HD]. rewrite HD.
        assert (EF : find (fun o => path_eqb (o_path o) p) (r_outputs r) = None) by (apply find_path_None; exact Hout).
        rewrite EF. destruct (mem p (keys (latest st))) eqn:EM; [|reflexivity].
        exfalso. apply HW. apply Inv; try assumption. apply mem_In. exact EM. }
    all: match goal with
         | |- _ =>
           assert (HH : r_failed_early r = true \/ write opt = false \/ to_stdout opt = true) by tauto;
           destruct (failed_step_shape _ _ _ _ _ _ _ E HH) as [dels [_ [ED [Hk Hne]]]];
           rewrite ED, lookup_apply_deletes;
           change (map phys_id dels) with (map (fun x : path => x) dels); rewrite map_id;
           destruct (mem p dels) eqn:EM; [|reflexivity];
           exfalso; apply mem_In in EM;
           assert (N : dels <> []) by (intro N; subst; contradiction);
           destruct (Hne N) as [_ [_ [A B]]]; apply HW; apply Inv; try assumption; apply Hk; exact EM
         end.
  - intro H. apply in_app_or in H as [H|H]; [contradiction|].
    apply Hout. eapply writes_subset_outputs; eassumption.
Qed.

Lemma foreign_run ocs : forall st W p,
  table_owned opt st W -> ~ In p W ->
  (forall res, In res (trace_gen phys_id fixed opt st ocs) -> ~ In p (map o_path (r_outputs res))) ->
  lookup (disk (run_gen phys_id fixed opt st ocs)) p = lookup (disk st) p.
Proof.
  induction ocs as [|oc ocs IH]; intros st W p Inv HW Hall; [reflexivity|].
  rewrite run_gen_cons. simpl in Hall.
  destruct (step_gen phys_id fixed opt st oc) as [st' r] eqn:ES. cbn [fst].
  assert (Hr : ~ In p (map o_path (r_outputs r))) by (apply Hall; left; reflexivity).
  destruct (foreign_step _ _ _ _ _ _ ES Inv HW Hr) as [HD HW'].
  rewrite (IH st' (W ++ writes_of (r_effects r)) p).
  - exact HD.
  - eapply table_owned_step; eassumption.
  - exact HW'.
  - intros res Hres. apply Hall. right. exact Hres.
Qed.

End Foreign.

(* a file that is never a reported output of any rebuild of a history is, at
   the end of the history, what it was at the start *)
Lemma foreign_files_untouched_all fixed opt d0 ocs p :
  (forall res, In res (trace_gen phys_id fixed opt (init d0) ocs) -> ~ In p (map o_path (r_outputs res))) ->
  lookup (disk (run_gen phys_id fixed opt (init d0) ocs)) p = lookup d0 p.
Proof.
  intro H. apply (foreign_run fixed opt ocs (init d0) [] p); [|intros []|exact H].
  intros _ _ q F. destruct F.
Qed.
