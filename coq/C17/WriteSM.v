(* C17 model: the write/delete state machine of a build context.

   Mirrors (current tree, including its defects):
   - pkg/api/api_impl.go  validateBuildOptions   (the last lines: AllowOverwrite forced on iff !Write)
   - pkg/api/api_impl.go  rebuildImpl            (newHashes, toDelete, shouldWriteFiles, skip of unchanged files,
                                                  stdout mode, cancel, on-end callbacks AFTER the writes)
   - pkg/api/api_impl.go  internalContext.rebuild (ctx.latestHashes = newHashes, unconditionally)
   - internal/bundler/bundler.go  Bundle.Compile  (tail: "Refusing to overwrite input file",
                                                  "Two output files share the same path", CanBeMerged)
   - internal/bundler/bundler.go  canonicalFileSystemPathForWindows

   Everything the scanner/linker compute is an input of the model ([outcome]):
   the model starts where Compile has the linked output files in hand.

   The file system is a finite map from absolute paths to contents, reached
   through [phys : path -> path], the operating system's resolution of a path
   to the file it denotes (identity when no symbolic link is involved).  esbuild
   compares *unresolved* output paths with input paths, so [phys] is exactly
   the part of the world its checks do not see.

   Executable definitions only.  Paths and contents are byte lists (ASCII for
   the case-folding part, which is what the harness generates). *)
From V Require Import Common.Base.

Definition path := list Z.
Definition content := list Z.
Definition hash := Z.            (* xxhash64 of the contents as computed by rebuildImpl: a datum of the outcome;
                                    no theorem depends on any property of it *)

Definition path_eqb : path -> path -> bool := zlist_eqb.
Definition content_eqb : content -> content -> bool := zlist_eqb.

(* strings.ReplaceAll(strings.ToLower(absPath), "\\", "/") *)
Definition canon_byte (c : Z) : Z :=
  let l := if (65 <=? c) && (c <=? 90) then c + 32 else c in
  if l =? 92 then 47 else l.
Definition canon (p : path) : path := map canon_byte p.

(* ---- finite maps as association lists (first binding wins) ---- *)
Definition fmap (V : Type) := list (path * V).

Fixpoint lookup {V} (m : fmap V) (p : path) : option V :=
  match m with
  | [] => None
  | (q, v) :: r => if path_eqb q p then Some v else lookup r p
  end.
Definition upd {V} (m : fmap V) (p : path) (v : V) : fmap V := (p, v) :: m.
Fixpoint remove {V} (m : fmap V) (p : path) : fmap V :=
  match m with
  | [] => []
  | (q, v) :: r => if path_eqb q p then remove r p else (q, v) :: remove r p
  end.
Definition keys {V} (m : fmap V) : list path := map fst m.
Definition mem (p : path) (l : list path) : bool := existsb (path_eqb p) l.

(* ---- data ---- *)
Record outfile := mkOut {
  o_path : path;        (* graph.OutputFile.AbsPath *)
  o_data : content;     (* .Contents *)
  o_hash : hash;        (* hash rebuildImpl computes for it *)
  o_merge : bool        (* .CanBeMerged *)
}.

Record options := mkOpts {
  write : bool;             (* BuildOptions.Write *)
  allow_overwrite : bool;   (* BuildOptions.AllowOverwrite as given by the user *)
  to_stdout : bool          (* options.WriteToStdout: neither outfile nor outdir *)
}.

(* validateBuildOptions: if !buildOpts.Write { options.AllowOverwrite = true } *)
Definition effective_allow (o : options) : bool := allow_overwrite o || negb (write o).

(* what scan + link produced in one (re)build; the part of the world the model does not compute *)
Record outcome := mkOutcome {
  scan_err : bool;          (* log.HasErrors() after ScanBundle *)
  inputs : list path;       (* Source.KeyPath.Text of every reachable file with namespace "file" *)
  cancel_early : bool;      (* CancelFlag already set when Compile starts: Compile returns nil *)
  linked : list outfile;    (* the concatenated result groups of the linker *)
  link_err : bool;          (* the linker logged an error *)
  cancel_late : bool;       (* CancelFlag set when Compile returns *)
  onend_err : bool          (* an on-end callback reported errors *)
}.

(* ---- Bundle.Compile, the two checks ---- *)

(* "Refusing to overwrite input file": one error per output whose canonical path is a canonical input path *)
Definition overwrite_refused (ins : list path) (outs : list outfile) : list path :=
  map o_path (filter (fun o => mem (canon (o_path o)) (map canon ins)) outs).

(* the outputFileMap loop: (kept files in order, paths reported as
   "Two output files share the same path but have different contents").
   [prev] are the files kept so far, in order: outputFileMap[key] is the first
   of them with that canonical path, exactAbsPaths is the set of their paths.
   As of /repo commit 11ec04b an identical mergeable file is only filtered out
   when a kept file has exactly its path (a case variant is kept as well). *)
Fixpoint dedupe (prev : list outfile) (outs : list outfile) : list outfile * list path :=
  match outs with
  | [] => ([], [])
  | o :: r =>
    match find (fun f => path_eqb (canon (o_path f)) (canon (o_path o))) prev with
    | None => let '(kept, errs) := dedupe (prev ++ [o]) r in (o :: kept, errs)
    | Some e =>
      if o_merge e && o_merge o && content_eqb (o_data e) (o_data o)
      then if mem (o_path o) (map o_path prev) then dedupe prev r
           else let '(kept, errs) := dedupe (prev ++ [o]) r in (o :: kept, errs)
      else let '(kept, errs) := dedupe prev r in (kept, o_path o :: errs)
    end
  end.

Definition nonempty {A} (l : list A) : bool := match l with [] => false | _ => true end.

(* (output files returned by Compile, "the log has errors after Compile") *)
Definition compile (opt : options) (oc : outcome) : list outfile * bool :=
  if cancel_early oc then ([], false)
  else if to_stdout opt then (linked oc, link_err oc)
  else
    let e1 := if effective_allow opt then [] else overwrite_refused (inputs oc) (linked oc) in
    let '(kept, e2) := dedupe [] (linked oc) in
    (kept, link_err oc || nonempty e1 || nonempty e2).

(* ---- rebuildImpl ---- *)
Record state := mkState {
  disk : fmap content;      (* the file system *)
  latest : fmap hash        (* ctx.latestHashes *)
}.

Inductive effect := EWrite (p : path) (c : content) | EDelete (p : path).

Record result := mkResult {
  r_failed_early : bool;        (* log.HasErrors() when the write phase starts (scan, link, checks, cancel) *)
  r_errors : bool;              (* BuildResult.Errors non-empty *)
  r_outputs : list outfile;     (* BuildResult.OutputFiles *)
  r_effects : list effect;      (* file operations performed, in model order: writes, then deletes *)
  r_stdout : option content     (* bytes written to stdout *)
}.

Definition stdout_path : path := [60; 115; 116; 100; 111; 117; 116; 62].   (* "<stdout>" *)

Definition hashes_of (outs : list outfile) : fmap hash :=
  fold_left (fun m o => upd m (o_path o) (o_hash o)) outs [].

Section WithFS.
Variable phys : path -> path.

Definition apply1 (d : fmap content) (e : effect) : fmap content :=
  match e with
  | EWrite p c => upd d (phys p) c
  | EDelete p => remove d (phys p)
  end.
Definition apply (d : fmap content) (es : list effect) : fmap content := fold_left apply1 es d.

(* "Skip writing out files that haven't changed since last time" *)
Definition skip (st : state) (newH : fmap hash) (o : outfile) : bool :=
  match lookup (latest st) (o_path o), lookup newH (o_path o) with
  | Some h, Some h' =>
    (h =? h') && match lookup (disk st) (phys (o_path o)) with
                 | Some c => content_eqb c (o_data o)
                 | None => false
                 end
  | _, _ => false
  end.

(* [fixed = true] is the code as of /repo commit d19e8cb ("fix: a failed rebuild
   must not delete the previous build's output files"): rebuildImpl now does
   [if log.HasErrors() { newHashes = oldHashes }] before the write phase, so a
   build that has errors at that point neither deletes anything nor forgets
   the previous hash table.  [fixed = false] is rebuildImpl before that commit
   (DESIGN §7-F), kept so that what the repair changed stays a theorem. *)
Definition step_gen (fixed : bool) (opt : options) (st : state) (oc : outcome) : state * result :=
  let '(results, err1) :=
    if scan_err oc then ([], true)
    else let '(res, cerr) := compile opt oc in
         (res, cerr || cancel_early oc || cancel_late oc) in
  let reported :=
    if err1 then []
    else map (fun o => if to_stdout opt then mkOut stdout_path (o_data o) (o_hash o) (o_merge o) else o) results in
  let newH := hashes_of reported in
  let err2 := write opt && to_stdout opt && negb err1 && negb (length results =? 1)%nat in
  let effects :=
    if write opt && negb (to_stdout opt) then
      let toDelete := filter (fun p => negb (mem p (keys newH))) (keys (latest st)) in
      let writes := if err1 then []
                    else flat_map (fun o => if skip st newH o then [] else [EWrite (o_path o) (o_data o)]) results in
      if fixed && err1 then [] else writes ++ map EDelete toDelete
    else [] in
  let out := if write opt && to_stdout opt && negb err1 && negb err2
             then match results with o :: _ => Some (o_data o) | [] => None end else None in
  (mkState (apply (disk st) effects) (if fixed && err1 then latest st else newH),
   mkResult err1 (err1 || err2 || onend_err oc) reported effects out).

Definition step := step_gen true.
Definition step_before_fix := step_gen false.

(* histories of one context: options are fixed at context creation *)
Fixpoint trace_gen (fixed : bool) (opt : options) (st : state) (ocs : list outcome) : list result :=
  match ocs with
  | [] => []
  | oc :: r => let '(st', res) := step_gen fixed opt st oc in res :: trace_gen fixed opt st' r
  end.
Definition run_gen (fixed : bool) (opt : options) (st : state) (ocs : list outcome) : state :=
  fold_left (fun s oc => fst (step_gen fixed opt s oc)) ocs st.
Definition trace := trace_gen true.
Definition run := run_gen true.

End WithFS.

Definition phys_id (p : path) : path := p.

(* a context starts with no hash table; api.Build is a context with one rebuild *)
Definition init (d : fmap content) : state := mkState d [].

(* paths written by a list of results *)
Definition writes_of (es : list effect) : list path :=
  flat_map (fun e => match e with EWrite p _ => [p] | EDelete _ => [] end) es.
Definition deletes_of (es : list effect) : list path :=
  flat_map (fun e => match e with EDelete p => [p] | EWrite _ _ => [] end) es.
Definition written_paths (rs : list result) : list path := flat_map (fun r => writes_of (r_effects r)) rs.

(* directory symbolic links: [(l, t)] means the directory path l is a link to
   directory t; a path below l denotes the file below t (one level, as the
   harness builds them) *)
Fixpoint strip_prefix (pre p : path) : option path :=
  match pre, p with
  | [], _ => Some p
  | a :: pre', b :: p' => if a =? b then strip_prefix pre' p' else None
  | _ :: _, [] => None
  end.
Fixpoint phys_links (links : list (path * path)) (p : path) : path :=
  match links with
  | [] => p
  | (l, t) :: r =>
    match strip_prefix l p with
    | Some (47 :: rest) => t ++ 47 :: rest
    | _ => phys_links r p
    end
  end.
