(* C17 property theorems. This file contains only statements closed by
   [exact lemma] and Print Assumptions.

   Vocabulary (WriteSM.v): [step_gen phys fixed opt st oc = (st', r)] is one
   (re)build of a context with options [opt] from state [st] (disk, hash table)
   when scan+link produced [oc]; [fixed = true] ([step]) is the current code
   (after /repo commit d19e8cb), [fixed = false] ([step_before_fix]) the code
   before that repair; [phys] resolves a path to the file it
   denotes ([phys_id]: no symbolic links); [r_failed_early r]: the log has
   errors when the write phase starts (scan, link, overwrite/duplicate checks,
   cancellation); [r_errors r]: the build reports errors (also on-end errors). *)
From V Require Import Common.Base C17.WriteSM C17.Spec C17.Proofs C17.CompileProofs C17.DiskProofs C17.SpecProofs C17.IOFail C17.PathModel C17.PathProofs C17.RelProofs C17.SideProofs C17.LinkProofs C17.Modes C17.IOHist C17.Cancel C17.Findings.

(* ---- mechanism: validateBuildOptions ---- *)
Theorem allow_overwrite_forced_only_without_write :
  forall o, effective_allow o = true <-> allow_overwrite o = true \/ write o = false.
Proof. exact effective_allow_spec. Qed.
Print Assumptions allow_overwrite_forced_only_without_write.

(* ---- a build writes exactly the files it reports ---- *)

(* every file operation that creates or modifies a file writes a reported
   output at its reported path with its reported contents, in a build without
   error when the write phase started, with writing enabled (any file system) *)
Theorem writes_are_reported :
  forall phys fixed opt st oc st' r p c,
    step_gen phys fixed opt st oc = (st', r) -> In (EWrite p c) (r_effects r) ->
    r_failed_early r = false /\ write opt = true /\ to_stdout opt = false /\
    exists o, In o (r_outputs r) /\ o_path o = p /\ o_data o = c.
Proof. exact writes_are_reported_all. Qed.
Print Assumptions writes_are_reported.

(* without symbolic links, the disk after a successful writing build is
   exactly: reported outputs hold their reported contents (whether rewritten or
   skipped as unchanged), paths of the old hash table that are no longer
   outputs are gone, everything else is untouched; reported paths are
   pairwise distinct *)
Theorem successful_build_disk_exact :
  forall fixed opt st oc st' r,
    step_gen phys_id fixed opt st oc = (st', r) ->
    r_failed_early r = false -> write opt = true -> to_stdout opt = false ->
    NoDup (map o_path (r_outputs r)) /\
    forall p, lookup (disk st') p =
      match find (fun o => path_eqb (o_path o) p) (r_outputs r) with
      | Some o => Some (o_data o)
      | None => if mem p (keys (latest st)) then None else lookup (disk st) p
      end.
Proof. exact successful_step_disk. Qed.
Print Assumptions successful_build_disk_exact.

(* ---- failed builds ---- *)

(* a build with errors when the write phase starts, a cancelled build (it has
   such an error), a build with writing disabled and a build in stdout mode
   create or modify no file; what they delete is listed in the hash table *)
Theorem failed_build_writes_nothing :
  forall phys fixed opt st oc st' r,
    step_gen phys fixed opt st oc = (st', r) ->
    r_failed_early r = true \/ write opt = false \/ to_stdout opt = true ->
    exists dels, r_effects r = map EDelete dels /\
                 disk st' = apply phys (disk st) (map EDelete dels) /\
                 (forall p, In p dels -> In p (keys (latest st))) /\
                 (dels <> [] -> r_failed_early r = true /\ fixed = false /\ write opt = true /\ to_stdout opt = false).
Proof. exact failed_step_shape. Qed.
Print Assumptions failed_build_writes_nothing.

(* a build that has errors when the write phase starts changes nothing at all:
   not the disk, not the context's hash table (restored in full by d19e8cb) *)
Theorem failed_build_deletes_nothing :
  forall phys opt st oc st' r,
    step phys opt st oc = (st', r) -> r_failed_early r = true -> st' = st /\ r_effects r = [].
Proof. exact fixed_failed_step_is_identity. Qed.
Print Assumptions failed_build_deletes_nothing.

(* ... and so do a build with writing disabled and a build in stdout mode, as far as the disk goes *)
Theorem failed_or_nonwriting_build_leaves_disk_unchanged :
  forall phys opt st oc st' r,
    step phys opt st oc = (st', r) ->
    r_failed_early r = true \/ write opt = false \/ to_stdout opt = true ->
    disk st' = disk st /\ r_effects r = [].
Proof. exact nonwriting_step_disk_unchanged. Qed.
Print Assumptions failed_or_nonwriting_build_leaves_disk_unchanged.

(* what d19e8cb repaired (DESIGN §7-F, reproduced on the code before the
   commit and again by reverting it): a rebuild that failed removed the
   outputs of the previous build *)
Theorem before_fix_failed_build_deleted_files :
  exists opt d0 oc1 oc2,
    let st1 := fst (step_before_fix phys_id opt (init d0) oc1) in
    let st2 := fst (step_before_fix phys_id opt st1 oc2) in
    let r2 := snd (step_before_fix phys_id opt st1 oc2) in
    r_failed_early r2 = true /\
    exists p, lookup (disk st1) p <> None /\ lookup (disk st2) p = None.
Proof. exact before_fix_failed_build_deleted_files_w. Qed.
Print Assumptions before_fix_failed_build_deleted_files.

(* REFUTED (by design upstream): "a build that reports errors creates no
   file" - on-end callbacks run after the write phase *)
Theorem reported_errors_write_nothing_refuted :
  exists opt d0 oc,
    let st1 := fst (step phys_id opt (init d0) oc) in
    let r1 := snd (step phys_id opt (init d0) oc) in
    r_errors r1 = true /\ exists p, lookup d0 p = None /\ lookup (disk st1) p <> None.
Proof. exact reported_errors_write_nothing_refuted_w. Qed.
Print Assumptions reported_errors_write_nothing_refuted.

(* ---- inputs ---- *)

(* without permission to overwrite, no write goes to a path whose canonical
   form is the canonical form of an input (any file system) *)
Theorem no_input_overwritten :
  forall fixed phys opt st oc st' r p c,
    step_gen phys fixed opt st oc = (st', r) -> effective_allow opt = false ->
    In (EWrite p c) (r_effects r) -> ~ In (canon p) (map canon (inputs oc)).
Proof. exact inputs_not_written. Qed.
Print Assumptions no_input_overwritten.

(* without symbolic links: an input keeps its contents, or it was in the hash
   table and has been deleted (the strongest statement that holds) *)
Theorem no_input_overwritten_disk_partial :
  forall fixed opt st oc st' r q,
    step_gen phys_id fixed opt st oc = (st', r) -> effective_allow opt = false -> In q (inputs oc) ->
    lookup (disk st') q = lookup (disk st) q \/
    (lookup (disk st') q = None /\ In q (keys (latest st)) /\ In (EDelete q) (r_effects r)).
Proof. exact input_safe_or_deleted. Qed.
Print Assumptions no_input_overwritten_disk_partial.

(* a failed build neither overwrites nor deletes any file, inputs included *)
Theorem no_input_deleted_by_failed_build :
  forall phys opt st oc st' r q,
    step phys opt st oc = (st', r) -> r_failed_early r = true -> lookup (disk st') q = lookup (disk st) q.
Proof. exact failed_step_keeps_files. Qed.
Print Assumptions no_input_deleted_by_failed_build.

(* before d19e8cb a failing rebuild deleted one of its inputs *)
Theorem before_fix_failed_build_deleted_input :
  exists opt d0 oc1 oc2,
    let st1 := fst (step_before_fix phys_id opt (init d0) oc1) in
    let st2 := fst (step_before_fix phys_id opt st1 oc2) in
    r_failed_early (snd (step_before_fix phys_id opt st1 oc2)) = true /\
    effective_allow opt = false /\
    exists p, In p (inputs oc2) /\ lookup (disk st1) p <> None /\ lookup (disk st2) p = None.
Proof. exact before_fix_failed_build_deleted_input_w. Qed.
Print Assumptions before_fix_failed_build_deleted_input.

(* REFUTED ("never deletes a file that was one of its inputs"), before and
   after d19e8cb: a SUCCESSFUL rebuild deletes a stale output of the previous
   build that is an input of the current one (replayed on the real code) *)
Theorem no_input_deleted_by_successful_rebuild_refuted :
  forall fixed, exists opt d0 oc1 oc2,
    let st1 := fst (step_gen phys_id fixed opt (init d0) oc1) in
    let st2 := fst (step_gen phys_id fixed opt st1 oc2) in
    let r2 := snd (step_gen phys_id fixed opt st1 oc2) in
    effective_allow opt = false /\ r_errors r2 = false /\
    exists p, In p (inputs oc2) /\ lookup (disk st1) p <> None /\ lookup (disk st2) p = None.
Proof. exact no_input_deleted_by_successful_rebuild_refuted_w. Qed.
Print Assumptions no_input_deleted_by_successful_rebuild_refuted.

(* REFUTED: with a symbolic link between the output path and an input, the
   input is overwritten although overwriting is not allowed *)
Theorem no_input_overwritten_via_symlink_refuted :
  exists phys opt d0 oc,
    let st1 := fst (step phys opt (init d0) oc) in
    let r1 := snd (step phys opt (init d0) oc) in
    effective_allow opt = false /\ r_errors r1 = false /\
    exists p c, In p (inputs oc) /\ lookup d0 p = Some c /\ lookup (disk st1) p <> Some c /\ lookup (disk st1) p <> None.
Proof. exact no_input_overwritten_via_symlink_refuted_w. Qed.
Print Assumptions no_input_overwritten_via_symlink_refuted.

(* ---- two outputs, one path ---- *)

(* when Compile leaves no error in the log (directory mode): the returned
   files have pairwise distinct paths, all come from the linker, every linked
   file is represented by a returned file with exactly its path (since
   /repo commit 11ec04b) and the same contents, two linked files with one canonical path have
   equal contents, no linked file sits on an input unless overwriting is allowed *)
Theorem two_outputs_one_path :
  forall opt oc kept,
    cancel_early oc = false -> to_stdout opt = false -> compile opt oc = (kept, false) ->
    NoDup (map o_path kept) /\
    (forall o, In o kept -> In o (linked oc)) /\
    (forall o, In o (linked oc) -> exists k, In k kept /\ o_path k = o_path o /\ o_data k = o_data o) /\
    (forall o1 o2, In o1 (linked oc) -> In o2 (linked oc) -> ckey o1 = ckey o2 -> o_data o1 = o_data o2) /\
    (effective_allow opt = false -> forall o, In o (linked oc) -> ~ In (ckey o) (map canon (inputs oc))) /\
    link_err oc = false.
Proof. exact compile_ok_facts. Qed.
Print Assumptions two_outputs_one_path.

(* ---- histories of one context (induction over the list of rebuilds) ---- *)

(* whatever a rebuild deletes was written by an earlier rebuild of the same
   context and is not an output of the current one: every history, every
   file system, pinned and repaired step *)
Theorem deletes_only_own_earlier_outputs :
  forall phys fixed opt d0 ocs pre res post,
    trace_gen phys fixed opt (init d0) ocs = pre ++ res :: post ->
    forall p, In (EDelete p) (r_effects res) ->
      In p (written_paths pre) /\ ~ In p (map o_path (r_outputs res)).
Proof. exact deletes_only_own_all. Qed.
Print Assumptions deletes_only_own_earlier_outputs.

(* a file that is never a reported output of any rebuild of a history (a
   source file, a foreign file in the output directory ...) is, at the end of
   the history, exactly what it was at the start: every history, every initial
   tree, no symbolic links, current and pre-repair step *)
Theorem foreign_files_untouched :
  forall fixed opt d0 ocs p,
    (forall res, In res (trace_gen phys_id fixed opt (init d0) ocs) -> ~ In p (map o_path (r_outputs res))) ->
    lookup (disk (run_gen phys_id fixed opt (init d0) ocs)) p = lookup d0 p.
Proof. exact foreign_files_untouched_all. Qed.
Print Assumptions foreign_files_untouched.

(* every rebuild of a history is a step, so the one-step theorems apply to it *)
Theorem history_elements_are_steps :
  forall phys fixed opt st ocs res,
    In res (trace_gen phys fixed opt st ocs) ->
    exists st0 oc st1, step_gen phys fixed opt st0 oc = (st1, res).
Proof. exact trace_elements_all. Qed.
Print Assumptions history_elements_are_steps.

(* ---- the model meets the independent specification (one step, no symlinks) ---- *)
Theorem step_meets_spec :
  forall fixed opt st st' oc r own,
    step_gen phys_id fixed opt st oc = (st', r) -> to_stdout opt = false ->
    (forall p, In p (keys (latest st)) -> In p own) ->
    let o := obs_of opt st st' oc r own in
    spec_only_reported o /\ spec_all_reported_written o /\ spec_deletes_own o /\
    spec_failed_no_write o /\ spec_single_valued o /\ spec_inputs_not_overwritten o.
Proof. exact step_meets_spec_all. Qed.
Print Assumptions step_meets_spec.

(* the strong reading "a failed or non-writing build leaves the tree unchanged":
   true of the current step, false before d19e8cb *)
Theorem step_meets_spec_failed_unchanged :
  forall opt st st' oc r own,
    step phys_id opt st oc = (st', r) -> to_stdout opt = false ->
    spec_failed_unchanged (obs_of opt st st' oc r own).
Proof. exact fixed_meets_failed_unchanged. Qed.
Print Assumptions step_meets_spec_failed_unchanged.

Theorem before_fix_spec_failed_unchanged_refuted :
  exists opt st oc own,
    let st' := fst (step_before_fix phys_id opt st oc) in
    let r := snd (step_before_fix phys_id opt st oc) in
    to_stdout opt = false /\ (forall p, In p (keys (latest st)) -> In p own) /\
    ~ spec_failed_unchanged (obs_of opt st st' oc r own).
Proof. exact before_fix_spec_failed_unchanged_refuted_w. Qed.
Print Assumptions before_fix_spec_failed_unchanged_refuted.

(* ---- failures DURING the write phase ([step_io]: [step_gen] plus the set of
   output paths at which mkdir/write fails; the harness evaluates [step_io]) ---- *)

(* without write failures [step_io] is [step_gen]: every theorem above is about
   the function the correspondence check runs *)
Theorem step_io_without_failures_is_step_gen :
  forall phys fixed opt st oc, step_io phys fixed opt st oc [] = step_gen phys fixed opt st oc.
Proof. exact step_io_nil. Qed.
Print Assumptions step_io_without_failures_is_step_gen.

(* with write failures: still every write is a reported output of a build
   without early error, and never at a failing path *)
Theorem io_writes_are_reported_and_avoid_failing_paths :
  forall phys fixed opt st oc wf st' r p c,
    step_io phys fixed opt st oc wf = (st', r) -> In (EWrite p c) (r_effects r) ->
    r_failed_early r = false /\ write opt = true /\ to_stdout opt = false /\ ~ In p wf /\
    exists o, In o (r_outputs r) /\ o_path o = p /\ o_data o = c.
Proof. exact io_writes_are_reported_cur. Qed.
Print Assumptions io_writes_are_reported_and_avoid_failing_paths.

(* an attempted write that fails is never silent: the build reports errors *)
Theorem io_failure_reports_error :
  forall phys fixed opt st oc wf st' r o,
    step_io phys fixed opt st oc wf = (st', r) ->
    r_failed_early r = false -> write opt = true -> to_stdout opt = false ->
    In o (r_outputs r) -> skip phys st (hashes_of (r_outputs r)) o = false -> In (o_path o) wf ->
    r_errors r = true.
Proof. exact io_failure_is_reported_cur. Qed.
Print Assumptions io_failure_reports_error.

(* REFUTED (inside the statement by the property text: the build "reports
   errors"; by nature of concurrent writes without staging): the error arises
   while the other files are being written.  Replayed: out/a.js is a directory *)
Theorem write_error_build_writes_nothing_refuted :
  exists opt d0 oc wf,
    let st1 := fst (step_io phys_id true opt (init d0) oc wf) in
    let r1 := snd (step_io phys_id true opt (init d0) oc wf) in
    r_errors r1 = true /\ r_failed_early r1 = false /\
    exists p, lookup d0 p = None /\ lookup (disk st1) p <> None.
Proof. exact write_error_build_writes_nothing_refuted_w. Qed.
Print Assumptions write_error_build_writes_nothing_refuted.

(* what /repo commit b32af0b repaired (finding J2, reproduced before the commit
   and again by reverting it): the path of a failed write stayed in the hash
   table and was "deleted" by a later rebuild although no rebuild wrote it (the
   user's empty directory out/a.js was removed).  On the current step the path
   is forgotten (Examples.v, io_deletes_only_own below). *)
Theorem before_fix_b32af0b_deleted_never_written_path :
  exists opt d0 oc1 wf oc2,
    let st1 := fst (step_io_before_b32af0b phys_id true opt (init d0) oc1 wf) in
    let r1 := snd (step_io_before_b32af0b phys_id true opt (init d0) oc1 wf) in
    let r2 := snd (step_io_before_b32af0b phys_id true opt st1 oc2 []) in
    exists p, In (EDelete p) (r_effects r2) /\ ~ In p (writes_of (r_effects r1)).
Proof. exact before_fix_b32af0b_deleted_never_written_path_w. Qed.
Print Assumptions before_fix_b32af0b_deleted_never_written_path.

(* ---- the path layer (PathModel.v: esbuild's clean/join/rel/dir/base/ext,
   PathRelativeToOutbase, template parsing and rendering, the entry point's
   output path; every function below is the one the correspondence runs) ---- *)

(* joining a relative path that has no parent-directory segment onto an
   absolute output directory only appends path elements to the cleaned
   directory: the output is inside the output directory *)
Theorem output_inside_outdir :
  forall outdir relp,
    is_rooted outdir = true -> relp <> [] -> no_dotdot_seg relp = true ->
    fs_join outdir relp = SL :: join_with SL (clean_segs outdir ++ filter proper (split_on SL relp)).
Proof. exact fs_join_inside. Qed.
Print Assumptions output_inside_outdir.

(* the [dir] part that PathRelativeToOutbase computes never has a
   parent-directory segment: for every outbase and every effective absolute
   path (Unix flavour, no backslash characters in the file names).  Proof: Rel
   of two cleaned absolute paths is a leading run of ".." followed by proper
   elements (rel_shaped), the directory text of such a path keeps that shape
   (dir_text_of_shaped), and the "../" -> "_.._/" rewrite removes the run. *)
Theorem relative_dir_has_no_dotdot :
  forall outbase absPath0 avoidIndex custom,
    is_rooted outbase = true ->
    is_rooted (effective_abs outbase absPath0 avoidIndex custom) = true ->
    no_bs (effective_abs outbase absPath0 avoidIndex custom) = true ->
    has_dd (fst (path_relative_to_outbase outbase absPath0 avoidIndex custom)) = false.
Proof. exact relative_dir_no_dotdot. Qed.
Print Assumptions relative_dir_has_no_dotdot.

(* the effective path is absolute in the ordinary cases *)
Theorem effective_path_is_absolute :
  forall outbase absPath0 ai custom,
    is_rooted outbase = true -> custom <> [] -> is_rooted custom = false ->
    is_rooted (effective_abs outbase absPath0 ai custom) = true.
Proof. exact effective_abs_relative_custom_rooted. Qed.
Print Assumptions effective_path_is_absolute.

(* the rewrite itself, for any directory text whose parent-directory segments form only a leading run *)
Theorem neutralise_removes_leading_dotdot :
  forall d0,
    let d1 := map (fun c => if c =? 92 then SL else c) d0 in
    let n := count_dotdot (length d1) d1 in
    has_dd (skipn (n * 3) d1) = false -> has_dd (neutralise d0) = false.
Proof. exact neutralise_no_dotdot. Qed.
Print Assumptions neutralise_removes_leading_dotdot.

(* REFUTED: "inside the output directory whenever the templates contain no
   parent-directory segment" - the [name] of the entry file "...js" is ".." *)
Theorem template_without_dotdot_escapes_refuted :
  exists tmpl outdir outbase entry ext,
    no_dotdot_seg tmpl = true /\
    let out := entry_out_path outdir (entry_template tmpl) outbase entry [] [] ext in
    firstn (List.length (clean_segs outdir)) (clean_segs out) <> clean_segs outdir.
Proof. exact template_without_dotdot_escapes_refuted_w. Qed.
Print Assumptions template_without_dotdot_escapes_refuted.

(* no_input_overwritten over the concrete path functions: for every template,
   outbase, output directory, set of entry points (paths, explicit output
   paths, hashes, extensions) and set of inputs, an entry point whose computed
   output path equals an input path under esbuild's comparison makes Compile
   report an error unless overwriting is allowed *)
Theorem no_input_overwritten_concrete :
  forall opt outdir tmpl outbase es ins lerr cl onend e,
    to_stdout opt = false -> effective_allow opt = false -> In e es ->
    In (canon (entry_out_path outdir tmpl outbase (e_path e) (e_custom e) (e_hash e) (e_ext e))) (map canon ins) ->
    snd (compile opt (mkOutcome false ins false (linked_of_entries outdir tmpl outbase es) lerr cl onend)) = true.
Proof. exact concrete_output_on_input_is_refused. Qed.
Print Assumptions no_input_overwritten_concrete.

(* "no symbolic link on the output paths" as a boolean over the modelled file
   system: when every linked output path and every path of the hash table
   denotes itself, the step is the step of the link-free file system, so every
   theorem stated for [phys_id] holds for it *)
Theorem link_free_step_is_plain_step :
  forall phys fixed opt st oc,
    link_free phys (map o_path (linked oc) ++ keys (latest st)) = true ->
    step_gen phys fixed opt st oc = step_gen phys_id fixed opt st oc.
Proof. exact step_gen_link_free. Qed.
Print Assumptions link_free_step_is_plain_step.

(* ---- two outputs, one path: the rule in full ---- *)
(* two different linked files whose paths are equal under the key of the check
   (equal cleaned paths, case variants, slash variants) pass only if both may
   be merged and their contents are equal; otherwise Compile reports an error.
   The key folds case on every platform, so on a case-insensitive file system
   two differently-cased outputs never collide silently. *)
Theorem two_outputs_one_path_reported :
  forall opt oc kept,
    cancel_early oc = false -> to_stdout opt = false -> compile opt oc = (kept, false) ->
    forall o1 o2, In o1 (linked oc) -> In o2 (linked oc) -> o1 <> o2 -> ckey o1 = ckey o2 ->
      o_merge o1 = true /\ o_merge o2 = true /\ o_data o1 = o_data o2.
Proof. exact compile_two_on_one_path. Qed.
Print Assumptions two_outputs_one_path_reported.

(* restored in full by /repo commit 11ec04b (finding K): when the duplicate-path
   rule reports no error, the exact path of every linked file - which is what
   the generated code refers to - is the path of a kept file with the same
   contents; a mergeable case variant is kept, not dropped *)
Theorem dedupe_keeps_exact_path :
  forall outs kept,
    dedupe [] outs = (kept, []) ->
    forall o, In o outs -> exists k, In k kept /\ o_path k = o_path o /\ o_data k = o_data o.
Proof. exact dedupe_keeps_exact_path_all. Qed.
Print Assumptions dedupe_keeps_exact_path.

(* ---- modes: every way of starting a build goes through the same validation ---- *)
Theorem allow_overwrite_forced_only_without_write_in_every_mode :
  forall m w a s, effective_allow (mode_opts m w a s) = true <-> a = true \/ mode_write m w = false.
Proof. exact mode_effective_allow. Qed.
Print Assumptions allow_overwrite_forced_only_without_write_in_every_mode.

(* the CLI's serve mode (constants regenerated from pkg/cli/cli_impl.go): never
   refuses, never writes, never deletes *)
Theorem cli_serve_mode_never_touches_disk :
  forall phys w a s st oc st' r,
    step phys (mode_opts CliServe w a s) st oc = (st', r) ->
    effective_allow (mode_opts CliServe w a s) = true /\ disk st' = disk st /\ r_effects r = [].
Proof. exact cli_serve_never_touches_disk. Qed.
Print Assumptions cli_serve_mode_never_touches_disk.

(* the CLI's build/watch mode always writes: inputs are protected unless --allow-overwrite *)
Theorem cli_build_mode_allow_is_the_flag :
  forall w a s, effective_allow (mode_opts CliBuild w a s) = a.
Proof. exact cli_build_allow_is_the_flag. Qed.
Print Assumptions cli_build_mode_allow_is_the_flag.

(* ---- output_inside_outdir for every kind of output file (entry points with
   generated or explicit {in,out} output paths, shared chunks, file/copy-loader
   assets); the path functions are the ones tied by the api.Build
   correspondence (outpath / chunkpath / assetpath cases) ---- *)
Theorem entry_output_inside_outdir :
  forall outdir tmpl outbase entry custom hash ext,
    is_rooted outdir = true -> ext <> [] ->
    no_dotdot_seg (entry_rel_path tmpl outbase entry custom hash ext) = true ->
    entry_out_path outdir tmpl outbase entry custom hash ext =
    SL :: join_with SL (clean_segs outdir ++ filter proper (split_on SL (entry_rel_path tmpl outbase entry custom hash ext))).
Proof. exact entry_inside. Qed.
Print Assumptions entry_output_inside_outdir.

Theorem chunk_output_inside_outdir :
  forall outdir tmpl hash ext,
    is_rooted outdir = true -> ext <> [] ->
    no_dotdot_seg (chunk_rel_path tmpl hash ext) = true ->
    chunk_out_path outdir tmpl hash ext =
    SL :: join_with SL (clean_segs outdir ++ filter proper (split_on SL (chunk_rel_path tmpl hash ext))).
Proof. exact chunk_inside. Qed.
Print Assumptions chunk_output_inside_outdir.

Theorem asset_output_inside_outdir :
  forall outdir tmpl outbase asset hash,
    is_rooted outdir = true -> asset_rel_path tmpl outbase asset hash <> [] ->
    no_dotdot_seg (asset_rel_path tmpl outbase asset hash) = true ->
    asset_out_path outdir tmpl outbase asset hash =
    SL :: join_with SL (clean_segs outdir ++ filter proper (split_on SL (asset_rel_path tmpl outbase asset hash))).
Proof. exact asset_inside. Qed.
Print Assumptions asset_output_inside_outdir.

(* ---- histories with write failures: what a rebuild deletes ----
   FULL statement (false): "every path a rebuild deletes was written by an
   earlier rebuild of the same context and is not an input of the current
   build" - still refuted by no_input_deleted_by_successful_rebuild_refuted
   (F2).  The other counter-example (J2, a failed write's path in the table) is
   repaired by b32af0b, so the first half now holds in full: every deleted path
   was WRITTEN by an earlier rebuild, write failures or not.
   PARTIAL, excluding exactly the F2 shape: it is not an input of the current
   build unless an input is a path an earlier rebuild reported.
   Every history, every file system. *)
Theorem io_deletes_only_own_partial :
  forall phys fixed opt d0 ocs pre oc wf res post,
    trace_io_full phys fixed true opt (init d0) ocs = pre ++ (oc, wf, res) :: post ->
    forall p, In (EDelete p) (r_effects res) ->
      In p (reported_paths pre) /\
      ~ In p (map o_path (r_outputs res)) /\
      In p (written_paths_io pre) /\
      ((forall q, In q (inputs oc) -> ~ In q (reported_paths pre)) -> ~ In p (inputs oc)).
Proof. exact io_deletes_all. Qed.
Print Assumptions io_deletes_only_own_partial.

(* before b32af0b the third clause needed "or a path at which an earlier write failed" *)
Theorem before_fix_b32af0b_io_deletes_partial :
  forall phys fixed opt d0 ocs pre oc wf res post,
    trace_io_full phys fixed false opt (init d0) ocs = pre ++ (oc, wf, res) :: post ->
    forall p, In (EDelete p) (r_effects res) ->
      In p (reported_paths pre) /\
      ~ In p (map o_path (r_outputs res)) /\
      (In p (written_paths_io pre) \/ In p (failed_paths false pre)) /\
      ((forall q, In q (inputs oc) -> ~ In q (reported_paths pre)) -> ~ In p (inputs oc)).
Proof. exact io_deletes_all_before_fix. Qed.
Print Assumptions before_fix_b32af0b_io_deletes_partial.

(* ---- cancellation: the flag is read in ScanBundle, on entry of Compile and
   once after Compile returns, never again ---- *)

(* a build that reports "The build was canceled" (Cancel landed before that
   last check) changes nothing: not the disk, not the hash table, no outputs *)
Theorem cancelled_build_writes_nothing :
  forall phys opt st oc cp st' r,
    reports_cancel cp = true ->
    step phys opt st (with_cancel oc cp) = (st', r) ->
    st' = st /\ r_effects r = [] /\ r_errors r = true /\ r_outputs r = [].
Proof. exact cancelled_build_changes_nothing. Qed.
Print Assumptions cancelled_build_writes_nothing.

(* a Cancel() that lands after the check is not seen by the running build *)
Theorem cancel_after_the_check_is_ignored :
  forall phys opt st oc,
    step phys opt st (with_cancel oc AfterCheck) = step phys opt st (with_cancel oc NoCancel).
Proof. exact cancel_after_check_is_ignored. Qed.
Print Assumptions cancel_after_the_check_is_ignored.

(* REFUTED: "whenever Cancel() lands while the build is active, the build
   writes nothing" (replayed: Cancel() from an on-end callback; racing replays
   only ever show the two consistent outcomes) *)
Theorem cancel_any_time_writes_nothing_refuted :
  exists opt d0 oc cp,
    cp <> NoCancel /\
    let st1 := fst (step phys_id opt (init d0) (with_cancel oc cp)) in
    let r1 := snd (step phys_id opt (init d0) (with_cancel oc cp)) in
    r_errors r1 = false /\ exists p, lookup d0 p = None /\ lookup (disk st1) p <> None.
Proof. exact cancel_any_time_writes_nothing_refuted_w. Qed.
Print Assumptions cancel_any_time_writes_nothing_refuted.

(* REFUTED (why relative_dir_has_no_dotdot needs "no backslash in file names"):
   a Unix directory literally named a\..\..\..\b puts the output outside the
   output directory with the default template (replayed on the real code) *)
Theorem backslash_in_name_escapes_refuted :
  exists outdir outbase entry,
    is_rooted outbase = true /\ is_rooted entry = true /\
    let out := entry_out_path outdir default_entry_template outbase entry [] [] ext_js in
    firstn (List.length (clean_segs outdir)) (clean_segs out) <> clean_segs outdir.
Proof. exact backslash_in_name_escapes_refuted_w. Qed.
Print Assumptions backslash_in_name_escapes_refuted.

(* ---- side files (external source map ".map", external/linked legal comments
   ".LEGAL.txt") and outfile mode; paths tied by the sidepath / outfile
   correspondence.  The metafile is returned, not written, by the API; the
   CLI's metafile and mangle-cache writes are exercised by the oracle. ---- *)

(* a side file is inside the output directory whenever its chunk is *)
Theorem side_file_inside_outdir :
  forall outdir relp suffix,
    is_rooted outdir = true -> no_dotdot_seg relp = true -> sfree suffix -> (3 <= length suffix)%nat ->
    side_out_path outdir relp suffix =
    SL :: join_with SL (clean_segs outdir ++ filter proper (split_on SL (relp ++ suffix))).
Proof. exact side_inside. Qed.
Print Assumptions side_file_inside_outdir.

(* side files are ordinary output files for the overwrite check: whatever file
   the linker produces (chunk, asset, source map, legal comments) on a path
   that is an input under esbuild's comparison makes Compile report an error
   unless overwriting is allowed.  Replayed: input src/a.js.map (file loader)
   next to output src/a.js with an external source map is refused. *)
Theorem side_file_not_an_input :
  forall opt oc o,
    cancel_early oc = false -> to_stdout opt = false -> effective_allow opt = false ->
    In o (linked oc) -> In (ckey o) (map canon (inputs oc)) ->
    snd (compile opt oc) = true.
Proof. exact any_linked_on_input_refused. Qed.
Print Assumptions side_file_not_an_input.

(* ---- templates for which "no parent-directory segment in the rendered path"
   is proved from the ingredients, without a hypothesis on the rendered text.
   For the default templates nothing about the entry's name is needed: even a
   name ".." ends up as "...js".  (For arbitrary templates the rendered-text
   hypothesis of the *_output_inside_outdir theorems stays; finding L shows it
   cannot be dropped: with "[name]/x" the hypothesis "no entry base name is
   '..'" is exactly what is missing.) ---- *)
Theorem default_entry_output_inside_outdir :
  forall outdir outbase entry custom hash ext,
    is_rooted outdir = true -> is_rooted outbase = true ->
    let custom2 := match custom with [] => auto_output_path outbase entry | _ => custom end in
    is_rooted (effective_abs outbase entry false custom2) = true ->
    no_bs (effective_abs outbase entry false custom2) = true ->
    sfree (snd (path_relative_to_outbase outbase entry false custom2)) ->
    sfree ext -> (3 <= length ext)%nat ->
    entry_out_path outdir default_entry_template outbase entry custom hash ext =
    SL :: join_with SL (clean_segs outdir ++ filter proper (split_on SL (entry_rel_path default_entry_template outbase entry custom hash ext))).
Proof. exact default_entry_inside. Qed.
Print Assumptions default_entry_output_inside_outdir.

Theorem default_chunk_output_inside_outdir :
  forall outdir hash ext,
    is_rooted outdir = true -> sfree hash -> sfree ext -> ext <> [] ->
    chunk_out_path outdir default_asset_template hash ext =
    SL :: join_with SL (clean_segs outdir ++ filter proper (split_on SL (chunk_rel_path default_asset_template hash ext))).
Proof. exact default_chunk_inside. Qed.
Print Assumptions default_chunk_output_inside_outdir.

Theorem default_asset_output_inside_outdir :
  forall outdir outbase asset hash,
    is_rooted outdir = true ->
    sfree (snd (path_relative_to_outbase outbase asset false [])) -> sfree hash -> sfree (pi_ext asset) ->
    asset_out_path outdir default_asset_template outbase asset hash =
    SL :: join_with SL (clean_segs outdir ++ filter proper (split_on SL (asset_rel_path default_asset_template outbase asset hash))).
Proof. exact default_asset_inside. Qed.
Print Assumptions default_asset_output_inside_outdir.
