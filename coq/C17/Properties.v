(* C17 property theorems. This file contains only statements closed by
   [exact lemma] and Print Assumptions. *)
From V Require Import Common.Base C17.WriteSM C17.Spec C17.Proofs.

(* validateBuildOptions: overwriting inputs is allowed exactly when the user
   allowed it or nothing is written *)
Theorem allow_overwrite_forced_only_without_write :
  forall o, effective_allow o = true <-> allow_overwrite o = true \/ write o = false.
Proof. exact effective_allow_spec. Qed.
Print Assumptions allow_overwrite_forced_only_without_write.

(* every file operation that creates or modifies a file writes a reported
   output at its reported path with its reported contents, in a build that had
   no error when the write phase started, with writing enabled *)
Theorem writes_are_reported :
  forall phys fixed opt st oc st' r p c,
    step_gen phys fixed opt st oc = (st', r) -> In (EWrite p c) (r_effects r) ->
    r_failed_early r = false /\ write opt = true /\ to_stdout opt = false /\
    exists o, In o (r_outputs r) /\ o_path o = p /\ o_data o = c.
Proof. exact writes_are_reported_all. Qed.
Print Assumptions writes_are_reported.
