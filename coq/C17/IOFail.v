(* C17: failures DURING the write phase (rebuildImpl: "Failed to create output
   directory" / "Failed to write to output file").

   [step_io] is [step_gen] with one more input from the world: [wfail], the
   output paths at which fs.MkdirAll or ioutil.WriteFile fails.  The goroutine
   of such a file logs an error and writes nothing; the other goroutines are
   unaffected; the path stays in newHashes.  [step_io ... [] = step_gen ...]
   (lemma [step_io_nil]), and the harness evaluates [step_io] on every case, so
   the theorems about [step_gen] are about the function that is tied to the
   code.  A write that fails half-way (disk full) and leaves a truncated file
   is outside the model. *)
From V Require Import Common.Base C17.WriteSM.

Section WithFS.
Variable phys : path -> path.

(* after the write phase: for absPath in failedWrites { if old has it, keep the old hash, else delete } *)
Definition forget_failed (newH old : fmap hash) (failed : list path) : fmap hash :=
  fold_left (fun m p => match lookup old p with Some h => upd m p h | None => remove m p end) failed newH.

Definition step_io_gen (fixed fixio : bool) (opt : options) (st : state) (oc : outcome) (wfail : list path) : state * result :=
  let '(results, err1) :=
    if scan_err oc then ([], true)
    else let '(res, cerr) := compile opt oc in
         (res, cerr || cancel_early oc || cancel_late oc) in
  let reported :=
    if err1 then []
    else map (fun o => if to_stdout opt then mkOut stdout_path (o_data o) (o_hash o) (o_merge o) else o) results in
  let newH := hashes_of reported in
  let err2 := write opt && to_stdout opt && negb err1 && negb (length results =? 1)%nat in
  let attempted := if write opt && negb (to_stdout opt) && negb err1
                   then filter (fun o => negb (skip phys st newH o)) results else [] in
  let err3 := existsb (fun o => mem (o_path o) wfail) attempted in
  let effects :=
    if write opt && negb (to_stdout opt) then
      let toDelete := filter (fun p => negb (mem p (keys newH))) (keys (latest st)) in
      let writes := flat_map (fun o => if mem (o_path o) wfail then [] else [EWrite (o_path o) (o_data o)]) attempted in
      if fixed && err1 then [] else writes ++ map EDelete toDelete
    else [] in
  let out := if write opt && to_stdout opt && negb err1 && negb err2
             then match results with o :: _ => Some (o_data o) | [] => None end else None in
  let failed := map o_path (filter (fun o => mem (o_path o) wfail) attempted) in
  let newH' := if fixio then forget_failed newH (latest st) failed else newH in
  (mkState (apply phys (disk st) effects) (if fixed && err1 then latest st else newH'),
   mkResult err1 (err1 || err2 || err3 || onend_err oc) reported effects out).

Definition step_io (fixed : bool) := step_io_gen fixed true.
Definition step_io_before_b32af0b (fixed : bool) := step_io_gen fixed false.

Fixpoint trace_io (fixed : bool) (opt : options) (st : state) (ocs : list (outcome * list path)) : list result :=
  match ocs with
  | [] => []
  | (oc, wf) :: r => let '(st', res) := step_io fixed opt st oc wf in res :: trace_io fixed opt st' r
  end.

Lemma flat_map_filter_skip (f : outfile -> bool) (l : list outfile) :
  flat_map (fun o => if mem (o_path o) [] then [] else [EWrite (o_path o) (o_data o)]) (filter (fun o => negb (f o)) l)
  = flat_map (fun o => if f o then [] else [EWrite (o_path o) (o_data o)]) l.
Proof.
  induction l as [|a l IH]; simpl in *; [reflexivity|].
  destruct (f a); simpl in *; rewrite IH; reflexivity.
Qed.

Lemma existsb_mem_nil (l : list outfile) : existsb (fun o => mem (o_path o) []) l = false.
Proof. induction l as [|a l IH]; simpl; [reflexivity | exact IH]. Qed.

Lemma filter_mem_nil (l : list outfile) : filter (fun o => mem (o_path o) []) l = [].
Proof. induction l as [|a l IH]; simpl; [reflexivity | exact IH]. Qed.

(* without write failures [step_io] is [step_gen] (before and after b32af0b) *)
Lemma step_io_gen_nil fixed fixio opt st oc : step_io_gen fixed fixio opt st oc [] = step_gen phys fixed opt st oc.
Proof.
  unfold step_io_gen, step_gen.
  destruct (if scan_err oc then ([], true)
            else let '(res, cerr) := compile opt oc in (res, cerr || cancel_early oc || cancel_late oc)) as [results err1].
  rewrite existsb_mem_nil, orb_false_r, filter_mem_nil.
  change (forget_failed ?m ?o (map o_path [])) with m.
  assert (X : forall (m : fmap hash), (if fixio then m else m) = m) by (destruct fixio; reflexivity). rewrite X.
  destruct (write opt); cbn [andb]; [|reflexivity].
  destruct (to_stdout opt); cbn [andb negb]; [reflexivity|].
  destruct err1; cbn [negb].
  - reflexivity.
  - rewrite flat_map_filter_skip. reflexivity.
Qed.
Lemma step_io_nil fixed opt st oc : step_io fixed opt st oc [] = step_gen phys fixed opt st oc.
Proof. apply step_io_gen_nil. Qed.

(* every write of [step_io] is a reported output, in a build without error
   when the write phase started, at a path where writing does not fail *)
Lemma io_writes_are_reported fixed fixio opt st oc wf st' r p c :
  step_io_gen fixed fixio opt st oc wf = (st', r) -> In (EWrite p c) (r_effects r) ->
  r_failed_early r = false /\ write opt = true /\ to_stdout opt = false /\ ~ In p wf /\
  exists o, In o (r_outputs r) /\ o_path o = p /\ o_data o = c.
Proof.
  unfold step_io_gen.
  destruct (if scan_err oc then ([], true)
            else let '(res, cerr) := compile opt oc in (res, cerr || cancel_early oc || cancel_late oc)) as [results err1].
  intro E. injection E as E1 E2. subst st' r. cbn [r_effects r_failed_early r_outputs].
  destruct (write opt); cbn [andb]; [|intros []].
  destruct (to_stdout opt); cbn [andb negb]; [intros []|].
  destruct err1; cbn [negb].
  - destruct fixed; cbn [andb]; [intros []|]. simpl. intro H.
    apply in_map_iff in H as [x [Ex _]]. discriminate.
  - rewrite andb_false_r. intro H. apply in_app_or in H as [H|H].
    + apply in_flat_map in H as [o [Ho Hi]]. apply filter_In in Ho as [Ho _].
      destruct (mem (o_path o) wf) eqn:EM; simpl in Hi; [contradiction|]. destruct Hi as [Hi|[]].
      injection Hi as A B. subst p c. repeat split; try reflexivity.
      * intro Hin. assert (mem (o_path o) wf = true) as M.
        { unfold mem. apply existsb_exists. exists (o_path o). split; [exact Hin|].
          apply zlist_eqb_eq. reflexivity. }
        congruence.
      * exists o. rewrite map_id. auto.
    + apply in_map_iff in H as [x [Ex _]]. discriminate.
Qed.

(* a write that is attempted and fails makes the build report errors *)
Lemma io_failure_is_reported fixed fixio opt st oc wf st' r o :
  step_io_gen fixed fixio opt st oc wf = (st', r) ->
  r_failed_early r = false -> write opt = true -> to_stdout opt = false ->
  In o (r_outputs r) -> skip phys st (hashes_of (r_outputs r)) o = false -> In (o_path o) wf ->
  r_errors r = true.
Proof.
  unfold step_io_gen.
  destruct (if scan_err oc then ([], true)
            else let '(res, cerr) := compile opt oc in (res, cerr || cancel_early oc || cancel_late oc)) as [results err1].
  intro E. injection E as E1 E2. subst st' r. cbn [r_failed_early r_outputs r_errors].
  intros HF HW HS. subst err1. rewrite HW, HS. cbn [andb negb]. rewrite map_id.
  intros Ho Hs Hin.
  assert (X : existsb (fun o0 => mem (o_path o0) wf)
                (filter (fun o0 => negb (skip phys st (hashes_of results) o0)) results) = true).
  { apply existsb_exists. exists o. split.
    - apply filter_In. split; [exact Ho | rewrite Hs; reflexivity].
    - unfold mem. apply existsb_exists. exists (o_path o). split; [exact Hin | apply zlist_eqb_eq; reflexivity]. }
  rewrite X. rewrite orb_true_r. reflexivity.
Qed.

End WithFS.

(* the current step ([step_io] = [step_io_gen _ _ true]) *)
Lemma io_writes_are_reported_cur phys fixed opt st oc wf st' r p c :
  step_io phys fixed opt st oc wf = (st', r) -> In (EWrite p c) (r_effects r) ->
  r_failed_early r = false /\ write opt = true /\ to_stdout opt = false /\ ~ In p wf /\
  exists o, In o (r_outputs r) /\ o_path o = p /\ o_data o = c.
Proof. apply io_writes_are_reported. Qed.
Lemma io_failure_is_reported_cur phys fixed opt st oc wf st' r o :
  step_io phys fixed opt st oc wf = (st', r) ->
  r_failed_early r = false -> write opt = true -> to_stdout opt = false ->
  In o (r_outputs r) -> skip phys st (hashes_of (r_outputs r)) o = false -> In (o_path o) wf ->
  r_errors r = true.
Proof. apply io_failure_is_reported. Qed.
