(* C17: where a Cancel() can land relative to the write phase.

   The cancel flag of a build (config.CancelFlag, set by internalContext.Cancel
   while the build is active) is read at exactly these places:
   - bundler.ScanBundle: after the on-start callbacks and between the scan
     stages (returns an empty Bundle, logs nothing),
   - bundler.Bundle.Compile: once, on entry (returns nil),
   - api rebuildImpl: once, right after Compile returns ("The build was
     canceled" is logged, which blocks the hash table and the write phase).
   It is never read again: not before the hashes are computed, not in the write
   goroutines, not around the on-end callbacks.  So a Cancel() that lands after
   the check in rebuildImpl is ignored by the running build (Cancel() itself
   still waits for the build to end).

   [with_cancel oc cp] is the outcome of scan+link when Cancel() lands at
   [cp]; the flag, once set, stays set for the rest of the build. *)
From V Require Import Common.Base C17.WriteSM C17.Proofs C17.DiskProofs C17.SpecProofs.
From Coq Require Import String.

Inductive cancel_point :=
| NoCancel
| BeforeCompile      (* during on-start/scan, or before Compile's entry check *)
| DuringLink         (* after Compile's entry check, before rebuildImpl's check *)
| AfterCheck.        (* hashing, write phase, on-end callbacks *)

Definition with_cancel (oc : outcome) (cp : cancel_point) : outcome :=
  match cp with
  | NoCancel | AfterCheck =>
    mkOutcome (scan_err oc) (inputs oc) false (linked oc) (link_err oc) false (onend_err oc)
  | BeforeCompile =>
    mkOutcome (scan_err oc) (inputs oc) true (linked oc) (link_err oc) true (onend_err oc)
  | DuringLink =>
    mkOutcome (scan_err oc) (inputs oc) false (linked oc) (link_err oc) true (onend_err oc)
  end.

(* is "The build was canceled" logged? *)
Definition reports_cancel (cp : cancel_point) : bool :=
  match cp with BeforeCompile | DuringLink => true | _ => false end.

Lemma results_of_cancel opt oc cp :
  reports_cancel cp = true -> snd (results_of opt (with_cancel oc cp)) = true.
Proof.
  unfold results_of. destruct cp; try discriminate; intros _;
    cbn [with_cancel scan_err cancel_early cancel_late]; destruct (scan_err oc); try reflexivity;
    destruct (compile opt _) as [res cerr]; cbn [snd]; rewrite ?orb_true_r; reflexivity.
Qed.

Lemma cancel_before_check_fails_early phys opt st oc cp st' r :
  reports_cancel cp = true ->
  step phys opt st (with_cancel oc cp) = (st', r) ->
  r_failed_early r = true.
Proof.
  intros HC. unfold step. rewrite step_gen_unfold.
  pose proof (results_of_cancel opt oc cp HC) as HR.
  destruct (results_of opt (with_cancel oc cp)) as [results err1]. cbn [snd] in HR. subst err1. cbv zeta.
  intro E. injection E as E1 E2. subst r. reflexivity.
Qed.

(* a build that reports the cancellation changes nothing: not the disk, not the hash table *)
Lemma cancelled_build_changes_nothing phys opt st oc cp st' r :
  reports_cancel cp = true ->
  step phys opt st (with_cancel oc cp) = (st', r) ->
  st' = st /\ r_effects r = [] /\ r_errors r = true /\ r_outputs r = [].
Proof.
  intros HC E.
  pose proof (cancel_before_check_fails_early _ _ _ _ _ _ _ HC E) as HF.
  destruct (fixed_failed_step_is_identity _ _ _ _ _ _ E HF) as [A B].
  repeat split; try assumption.
  - revert E. unfold step. rewrite step_gen_unfold. destruct (results_of opt _) as [results err1]. cbv zeta.
    intro E. injection E as E1 E2. subst r. cbn [r_failed_early r_errors] in *. subst err1. reflexivity.
  - exact (failed_early_no_outputs _ _ _ _ _ _ _ E HF).
Qed.

(* a Cancel() that lands after the check is not seen by the build *)
Lemma cancel_after_check_is_ignored phys opt st oc :
  step phys opt st (with_cancel oc AfterCheck) = step phys opt st (with_cancel oc NoCancel).
Proof. reflexivity. Qed.

(* REFUTED: "whenever Cancel() lands while the build is active, the build
   writes nothing" - landing after the check *)
Lemma cancel_any_time_writes_nothing_refuted_w :
  exists opt d0 oc cp,
    cp <> NoCancel /\
    let st1 := fst (step phys_id opt (init d0) (with_cancel oc cp)) in
    let r1 := snd (step phys_id opt (init d0) (with_cancel oc cp)) in
    r_errors r1 = false /\ exists p, lookup d0 p = None /\ lookup (disk st1) p <> None.
Proof.
  exists w_opts, [(P "/src/a.js", [1])], w_oc_link, AfterCheck.
  split; [discriminate|]. split; [vm_compute; reflexivity|].
  exists (P "/out/a.js"). vm_compute. split; [reflexivity | discriminate].
Qed.
