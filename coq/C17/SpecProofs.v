(* C17: the model meets the specification predicates of Spec.v (one step,
   no symbolic links), the statements it does not meet (witnesses), and the
   repaired step. *)
From V Require Import Common.Base C17.WriteSM C17.Spec C17.Proofs C17.CompileProofs C17.DiskProofs.
From Coq Require Import String Ascii.

Definition P (s : string) : path := map (fun a => Z.of_N (N_of_ascii a)) (list_ascii_of_string s).

(* what an outside observer sees of one step *)
Definition obs_of (opt : options) (st st' : state) (oc : outcome) (r : result) (own : list path) : observation :=
  mkObs (disk st) (disk st') (map (fun o => (o_path o, o_data o)) (r_outputs r)) (inputs oc)
        (r_failed_early r) (write opt) (allow_overwrite opt) own.

Lemma reported_paths (l : list outfile) : map fst (map (fun o => (o_path o, o_data o)) l) = map o_path l.
Proof. rewrite map_map. reflexivity. Qed.

Lemma failed_early_no_outputs phys fixed opt st oc st' r :
  step_gen phys fixed opt st oc = (st', r) -> r_failed_early r = true -> r_outputs r = [].
Proof.
  rewrite step_gen_unfold. destruct (results_of opt oc) as [results err1]. cbv zeta.
  intros E H. injection E as E1 E2. subst r. cbn [r_failed_early r_outputs] in *. subst err1. reflexivity.
Qed.

Section OneStep.
Variables (fixed : bool) (opt : options) (st st' : state) (oc : outcome) (r : result) (own : list path).
Hypothesis Hstep : step_gen phys_id fixed opt st oc = (st', r).
Hypothesis Hdir : to_stdout opt = false.
Hypothesis Hown : forall p, In p (keys (latest st)) -> In p own.

Let o := obs_of opt st st' oc r own.

(* the disk after any step, case by case *)
Lemma step_disk_cases :
  (r_failed_early r = false /\ write opt = true /\
   NoDup (map o_path (r_outputs r)) /\
   forall p, lookup (disk st') p =
     match find (fun x => path_eqb (o_path x) p) (r_outputs r) with
     | Some x => Some (o_data x)
     | None => if mem p (keys (latest st)) then None else lookup (disk st) p
     end)
  \/
  ((r_failed_early r = true \/ write opt = false) /\
   exists dels, (forall p, In p dels -> In p (keys (latest st))) /\
                (dels <> [] -> r_failed_early r = true /\ fixed = false) /\
                forall p, lookup (disk st') p = if mem p dels then None else lookup (disk st) p).
Proof.
  destruct (r_failed_early r) eqn:HF; [|destruct (write opt) eqn:HW].
  2:{ left. destruct (successful_step_disk _ _ _ _ _ _ Hstep HF HW Hdir) as [ND HD]. auto. }
  all: right; split; [auto|];
    match goal with
    | |- _ =>
      assert (HH : r_failed_early r = true \/ write opt = false \/ to_stdout opt = true) by (rewrite ?HF; auto);
      destruct (failed_step_shape _ _ _ _ _ _ _ Hstep HH) as [dels [EE [ED [Hk Hne]]]];
      exists dels; split; [exact Hk|]; split; [intro N; destruct (Hne N) as [A [B _]]; split; [congruence | exact B]|];
      intro p; rewrite ED, lookup_apply_deletes;
      change (map phys_id dels) with (map (fun x : path => x) dels); rewrite map_id; reflexivity
    end.
Qed.

Lemma meets_only_reported : spec_only_reported o.
Proof.
  intros p Hc. unfold changed, o, obs_of in *. cbn [ob_after ob_before ob_reported ob_own] in *.
  rewrite reported_paths.
  destruct step_disk_cases as [[HF [HW [ND HD]]]|[HF [dels [Hk [Hne HD]]]]].
  - rewrite HD in Hc |- *.
    destruct (find (fun x => path_eqb (o_path x) p) (r_outputs r)) as [x|] eqn:EF.
    + apply find_path_In in EF as [Hx Ep]. left. exists (o_data x). split; [|reflexivity].
      apply in_map_iff. exists x. rewrite Ep. auto.
    + destruct (mem p (keys (latest st))) eqn:EM; [|contradiction Hc; reflexivity].
      right. apply mem_In in EM. repeat split; [apply Hown; exact EM | apply find_path_None; exact EF].
  - rewrite HD in Hc |- *. destruct (mem p dels) eqn:EM; [|contradiction Hc; reflexivity].
    right. apply mem_In in EM. repeat split; [apply Hown, Hk; exact EM|].
    assert (dels <> []) as N by (intro N; subst; contradiction).
    destruct (Hne N) as [A _]. rewrite (failed_early_no_outputs _ _ _ _ _ _ _ Hstep A). intros [].
Qed.

Lemma meets_all_reported_written : spec_all_reported_written o.
Proof.
  unfold spec_all_reported_written, o, obs_of. cbn [ob_after ob_reported ob_failed ob_write].
  intros HF HW p c Hin. apply in_map_iff in Hin as [x [Ex Hx]]. injection Ex as E1 E2. subst p c.
  destruct (successful_step_disk _ _ _ _ _ _ Hstep HF HW Hdir) as [ND HD].
  rewrite HD.
  destruct (find (fun y => path_eqb (o_path y) (o_path x)) (r_outputs r)) as [y|] eqn:EF.
  - apply find_path_In in EF as [Hy Ep].
    assert (y = x) by (apply (NoDup_map_eq o_path (r_outputs r)); assumption). subst. reflexivity.
  - exfalso. apply find_path_None in EF. apply EF. apply in_map. exact Hx.
Qed.

Lemma meets_deletes_own : spec_deletes_own o.
Proof.
  intros p Hb Ha.
  assert (Hc : changed o p) by (unfold changed; rewrite Ha; exact (fun E => Hb (eq_sym E))).
  destruct (meets_only_reported p Hc) as [[c [_ E]]|[_ H]]; [congruence | exact H].
Qed.

Lemma meets_failed_no_write : spec_failed_no_write o.
Proof.
  unfold spec_failed_no_write, o, obs_of. cbn [ob_after ob_before ob_failed ob_write].
  intros HH p Hne.
  destruct step_disk_cases as [[HF [HW _]]|[_ [dels [_ [_ HD]]]]].
  - destruct HH; congruence.
  - rewrite HD in Hne |- *. destruct (mem p dels); [contradiction Hne; reflexivity | reflexivity].
Qed.

Lemma meets_single_valued : spec_single_valued o.
Proof.
  unfold spec_single_valued, o, obs_of. cbn [ob_reported]. intros p c1 c2 H1 H2.
  apply in_map_iff in H1 as [x [Ex Hx]]. apply in_map_iff in H2 as [y [Ey Hy]].
  injection Ex as A1 A2. injection Ey as B1 B2. subst.
  destruct (r_failed_early r) eqn:HF.
  - rewrite (failed_early_no_outputs _ _ _ _ _ _ _ Hstep HF) in Hx. contradiction.
  - (* outputs of a successful step have pairwise distinct paths, also when nothing is written *)
    revert Hstep Hx Hy B1. rewrite step_gen_unfold. destruct (results_of opt oc) as [results err1] eqn:ER. cbv zeta.
    intro E. injection E as E1 E2. subst r. cbn [r_failed_early r_outputs] in *. subst err1. rewrite Hdir, map_id.
    intros Hx Hy B1.
    destruct (results_of_ok _ _ _ ER) as [_ [HC [_ ECo]]].
    destruct (compile_ok_facts _ _ _ HC Hdir ECo) as [ND _].
    assert (y = x) by (apply (NoDup_map_eq o_path results); assumption). subst. reflexivity.
Qed.

(* inputs: never overwritten (the part of spec_inputs_safe that holds) *)
Lemma meets_inputs_not_overwritten : spec_inputs_not_overwritten o.
Proof.
  unfold spec_inputs_not_overwritten, o, obs_of. cbn [ob_allow ob_inputs ob_after ob_before]. intros HA p Hp Hne.
  destruct (write opt) eqn:HW.
  - assert (HE : effective_allow opt = false) by (unfold effective_allow; rewrite HA, HW; reflexivity).
    destruct (input_safe_or_deleted _ _ _ _ _ _ _ Hstep HE Hp) as [H|[H _]]; [exact H | contradiction].
  - destruct step_disk_cases as [[_ [HW' _]]|[_ [dels [_ [_ HD]]]]]; [congruence|].
    rewrite HD in Hne |- *. destruct (mem p dels); [contradiction Hne; reflexivity | reflexivity].
Qed.

End OneStep.

Lemma step_meets_spec_all fixed opt st st' oc r own :
  step_gen phys_id fixed opt st oc = (st', r) -> to_stdout opt = false ->
  (forall p, In p (keys (latest st)) -> In p own) ->
  let o := obs_of opt st st' oc r own in
  spec_only_reported o /\ spec_all_reported_written o /\ spec_deletes_own o /\
  spec_failed_no_write o /\ spec_single_valued o /\ spec_inputs_not_overwritten o.
Proof.
  intros H D O. split; [|split; [|split; [|split; [|split]]]].
  - exact (meets_only_reported fixed opt st st' oc r own H D O).
  - exact (meets_all_reported_written fixed opt st st' oc r own H D).
  - exact (meets_deletes_own fixed opt st st' oc r own H D O).
  - exact (meets_failed_no_write fixed opt st st' oc r own H D).
  - exact (meets_single_valued fixed opt st st' oc r own H D).
  - exact (meets_inputs_not_overwritten fixed opt st st' oc r own H D).
Qed.

(* the current step (after d19e8cb): a build that has errors when the write
   phase starts changes neither the disk nor the hash table *)
Lemma fixed_failed_step_is_identity phys opt st oc st' r :
  step phys opt st oc = (st', r) -> r_failed_early r = true -> st' = st /\ r_effects r = [].
Proof.
  unfold step. rewrite step_gen_unfold. destruct (results_of opt oc) as [results err1]. cbv zeta.
  intros E H. injection E as E1 E2. subst st' r. cbn [r_failed_early r_effects] in *. subst err1.
  cbn [andb]. destruct (write opt && negb (to_stdout opt)); destruct st; split; reflexivity.
Qed.

Lemma failed_step_keeps_files phys opt st oc st' r q :
  step phys opt st oc = (st', r) -> r_failed_early r = true -> lookup (disk st') q = lookup (disk st) q.
Proof. intros E H. destruct (fixed_failed_step_is_identity _ _ _ _ _ _ E H) as [E1 _]. rewrite E1. reflexivity. Qed.

Lemma fixed_meets_failed_unchanged opt st st' oc r own :
  step phys_id opt st oc = (st', r) -> to_stdout opt = false ->
  spec_failed_unchanged (obs_of opt st st' oc r own).
Proof.
  intros E HS HH p. unfold obs_of in *. cbn [ob_after ob_before ob_failed ob_write] in *.
  assert (H3 : r_failed_early r = true \/ write opt = false \/ to_stdout opt = true) by tauto.
  destruct (failed_step_shape _ _ _ _ _ _ _ E H3) as [dels [_ [ED [_ Hne]]]].
  destruct dels as [|d dels]; [rewrite ED; reflexivity|].
  assert (N : d :: dels <> []) by discriminate. destruct (Hne N) as [_ [F _]]. discriminate.
Qed.

(* ---------- witnesses ---------- *)
Definition w_opts := mkOpts true false false.
Definition w_disk0 : fmap content := [(P "/src/a.js", [1]); (P "/src/old.js", [2])].
(* build 1: entries src/a.js src/old.js -> out/a.js out/old.js *)
Definition w_oc1 := mkOutcome false [P "/src/a.js"; P "/src/old.js"] false
  [mkOut (P "/out/a.js") [10] 110 false; mkOut (P "/out/old.js") [11] 111 false] false false false.
(* build 2: src/a.js now imports ../out/old.js, which is therefore an input *)
Definition w_oc2 := mkOutcome false [P "/src/a.js"; P "/src/old.js"; P "/out/old.js"] false
  [mkOut (P "/out/a.js") [12] 112 false; mkOut (P "/out/old.js") [11] 111 false] false false false.
(* build 2': src/old.js is no longer an entry; src/a.js imports ../out/old.js; the build succeeds *)
Definition w_oc2' := mkOutcome false [P "/src/a.js"; P "/out/old.js"] false
  [mkOut (P "/out/a.js") [13] 113 false] false false false.

(* before d19e8cb *)
Lemma witness_failed_rebuild_deletes (fixed := false) :
  let st1 := fst (step_gen phys_id fixed w_opts (init w_disk0) w_oc1) in
  let '(st2, r2) := step_gen phys_id fixed w_opts st1 w_oc2 in
  r_failed_early r2 = true /\ allow_overwrite w_opts = false /\ In (P "/out/old.js") (inputs w_oc2) /\
  lookup (disk st1) (P "/out/old.js") = Some [11] /\ lookup (disk st2) (P "/out/old.js") = None /\
  lookup (disk st1) (P "/out/a.js") = Some [10] /\ lookup (disk st2) (P "/out/a.js") = None.
Proof. vm_compute. repeat split; auto. Qed.

Lemma witness_successful_rebuild_deletes_input (fixed : bool) :
  let st1 := fst (step_gen phys_id fixed w_opts (init w_disk0) w_oc1) in
  let '(st2, r2) := step_gen phys_id fixed w_opts st1 w_oc2' in
  r_errors r2 = false /\ allow_overwrite w_opts = false /\ In (P "/out/old.js") (inputs w_oc2') /\
  lookup (disk st1) (P "/out/old.js") = Some [11] /\ lookup (disk st2) (P "/out/old.js") = None.
Proof. destruct fixed; vm_compute; repeat split; auto. Qed.

(* out -> src is a directory symlink; entry src/a.js, outdir=out *)
Definition w_links := [(P "/out", P "/src")].
Definition w_oc_link := mkOutcome false [P "/src/a.js"] false [mkOut (P "/out/a.js") [9] 109 false] false false false.
Lemma witness_symlink_overwrites_input :
  let '(st1, r1) := step (phys_links w_links) w_opts (init [(P "/src/a.js", [1])]) w_oc_link in
  r_errors r1 = false /\ allow_overwrite w_opts = false /\ In (P "/src/a.js") (inputs w_oc_link) /\
  lookup (disk st1) (P "/src/a.js") = Some [9].
Proof. vm_compute. repeat split; auto. Qed.

(* an on-end callback fails: the files are already written *)
Definition w_oc_onend := mkOutcome false [P "/src/a.js"] false [mkOut (P "/out/a.js") [9] 109 false] false false true.
Lemma witness_onend_error_after_write :
  let '(st1, r1) := step phys_id w_opts (init [(P "/src/a.js", [1])]) w_oc_onend in
  r_errors r1 = true /\ r_effects r1 = [EWrite (P "/out/a.js") [9]] /\ lookup (disk st1) (P "/out/a.js") = Some [9].
Proof. vm_compute. repeat split; auto. Qed.
