(* C17: the ways a build can be started, and what each does to
   BuildOptions.Write before validateBuildOptions sees it.  The two CLI
   constants are regenerated from pkg/cli/cli_impl.go on every run
   (gen/cmd/c17climodes): the CLI's serve mode suppresses writing by not
   executing `options.Write = true`. *)
From V Require Import Common.Base C17.WriteSM C17.Proofs C17.DiskProofs.
From V Require Import gen.C17CliModesGen.

Inductive mode := ApiBuild | ApiContext | ApiServe | ApiWatch | CliBuild | CliServe.

(* BuildOptions.Write as validateBuildOptions sees it *)
Definition mode_write (m : mode) (user_write : bool) : bool :=
  match m with
  | CliBuild => cli_build_write
  | CliServe => cli_serve_write
  | _ => user_write      (* the API never touches it: serve and watch are methods of an ordinary context *)
  end.
Definition mode_opts (m : mode) (user_write allow stdout : bool) : options :=
  mkOpts (mode_write m user_write) allow stdout.

Definition mode_of_Z (z : Z) : mode :=
  if z =? 0 then ApiBuild else if z =? 1 then ApiContext else if z =? 2 then ApiServe else if z =? 3 then ApiWatch
  else if z =? 4 then CliBuild else CliServe.

(* every mode goes through the same validation *)
Lemma mode_effective_allow m w a s :
  effective_allow (mode_opts m w a s) = true <-> a = true \/ mode_write m w = false.
Proof. apply effective_allow_spec. Qed.

(* the CLI's serve mode: overwriting inputs is "allowed" and nothing is ever written or deleted *)
Lemma cli_serve_never_touches_disk phys w a s st oc st' r :
  step phys (mode_opts CliServe w a s) st oc = (st', r) ->
  effective_allow (mode_opts CliServe w a s) = true /\ disk st' = disk st /\ r_effects r = [].
Proof.
  intro E. split.
  - apply mode_effective_allow. right. reflexivity.
  - apply (nonwriting_step_disk_unchanged _ _ _ _ _ _ E). right. left. reflexivity.
Qed.

(* the CLI's build (and watch) mode writes, so inputs are protected unless --allow-overwrite *)
Lemma cli_build_allow_is_the_flag w a s : effective_allow (mode_opts CliBuild w a s) = a.
Proof. unfold effective_allow, mode_opts. cbn [allow_overwrite write mode_write]. rewrite orb_false_r. reflexivity. Qed.
