(* C17: "no symbolic link on the output paths" as a boolean over the modelled
   file system, and the transfer of the link-free theorems. *)
From V Require Import Common.Base C17.WriteSM C17.Proofs C17.CompileProofs C17.DiskProofs.

(* every listed path denotes itself *)
Definition link_free (phys : path -> path) (ps : list path) : bool := forallb (fun p => path_eqb (phys p) p) ps.

Lemma link_free_In phys ps p : link_free phys ps = true -> In p ps -> phys p = p.
Proof. intros H Hp. unfold link_free in H. rewrite forallb_forall in H. apply path_eqb_eq. apply H. exact Hp. Qed.

Definition effect_path (e : effect) : path := match e with EWrite p _ => p | EDelete p => p end.

Lemma apply_link_free phys es : forall d,
  (forall e, In e es -> phys (effect_path e) = effect_path e) -> apply phys d es = apply phys_id d es.
Proof.
  induction es as [|e es IH]; intros d H; [reflexivity|].
  change (apply phys d (e :: es)) with (apply phys (apply1 phys d e) es).
  change (apply phys_id d (e :: es)) with (apply phys_id (apply1 phys_id d e) es).
  assert (E : apply1 phys d e = apply1 phys_id d e).
  { pose proof (H e (or_introl eq_refl)) as He. destruct e; simpl in *; unfold phys_id; rewrite He; reflexivity. }
  rewrite E. apply IH. intros e' He'. apply H. right. exact He'.
Qed.

Lemma flat_map_ext_in {A B} (f g : A -> list B) l : (forall a, In a l -> f a = g a) -> flat_map f l = flat_map g l.
Proof.
  induction l as [|a l IH]; intro H; [reflexivity|]. simpl.
  rewrite (H a (or_introl eq_refl)), IH; [reflexivity|]. intros x Hx. apply H. right. exact Hx.
Qed.

Lemma results_of_subset opt oc results e : results_of opt oc = (results, e) -> forall o, In o results -> In o (linked oc).
Proof.
  unfold results_of. destruct (scan_err oc).
  - intro E. injection E as E1 E2. subst. intros ? [].
  - destruct (compile opt oc) as [res cerr] eqn:EC. intro E. injection E as E1 E2. subst res.
    clear E2. revert EC. unfold compile. destruct (cancel_early oc).
    + intro E. injection E as F1 F2. subst. intros ? [].
    + destruct (to_stdout opt).
      * intro E. injection E as F1 F2. subst. auto.
      * destruct (dedupe [] (linked oc)) as [kept e2] eqn:ED. intro E. injection E as F1 F2. subst.
        intros o Ho. destruct (dedupe_kept _ _ _ ED) as [_ H]. apply H. exact Ho.
Qed.

(* when no output path and no path of the hash table goes through a link, the
   step is the step of the link-free file system *)
Lemma step_gen_link_free phys fixed opt st oc :
  link_free phys (map o_path (linked oc) ++ keys (latest st)) = true ->
  step_gen phys fixed opt st oc = step_gen phys_id fixed opt st oc.
Proof.
  intro LF. rewrite (step_gen_unfold phys), (step_gen_unfold phys_id).
  destruct (results_of opt oc) as [results err1] eqn:ER. cbv zeta.
  assert (HR : forall o, In o results -> phys (o_path o) = o_path o).
  { intros o Ho. apply (link_free_In _ _ _ LF). apply in_or_app. left. apply in_map.
    eapply results_of_subset; eassumption. }
  assert (HK : forall p, In p (keys (latest st)) -> phys p = p).
  { intros p Hp. apply (link_free_In _ _ _ LF). apply in_or_app. right. exact Hp. }
  set (reported := if err1 then [] else map (fun o => if to_stdout opt then mkOut stdout_path (o_data o) (o_hash o) (o_merge o) else o) results).
  assert (HS : forall o, In o results -> skip phys st (hashes_of reported) o = skip phys_id st (hashes_of reported) o).
  { intros o Ho. unfold skip. rewrite (HR o Ho). reflexivity. }
  assert (HW : flat_map (fun o => if skip phys st (hashes_of reported) o then [] else [EWrite (o_path o) (o_data o)]) results
             = flat_map (fun o => if skip phys_id st (hashes_of reported) o then [] else [EWrite (o_path o) (o_data o)]) results).
  { apply flat_map_ext_in. intros o Ho. rewrite (HS o Ho). reflexivity. }
  rewrite HW.
  set (effects := if write opt && negb (to_stdout opt)
                  then if fixed && err1 then []
                       else (if err1 then [] else flat_map (fun o => if skip phys_id st (hashes_of reported) o then [] else [EWrite (o_path o) (o_data o)]) results)
                            ++ map EDelete (filter (fun p => negb (mem p (keys (hashes_of reported)))) (keys (latest st)))
                  else []).
  assert (HA : apply phys (disk st) effects = apply phys_id (disk st) effects).
  { apply apply_link_free. intros e He. unfold effects in He.
    destruct (write opt && negb (to_stdout opt)); [|contradiction].
    destruct (fixed && err1); [contradiction|].
    apply in_app_or in He as [He|He].
    - destruct err1; [contradiction|]. apply in_flat_map in He as [o [Ho Hi]].
      destruct (skip phys_id st (hashes_of reported) o); simpl in Hi; [contradiction|].
      destruct Hi as [Hi|[]]. subst e. simpl. apply HR. exact Ho.
    - apply in_map_iff in He as [p [Ep Hp]]. subst e. simpl. apply HK. apply filter_In in Hp as [Hp _]. exact Hp. }
  fold effects. rewrite HA. reflexivity.
Qed.
