(* Independent specification: the reserved words of ECMA-262 (2023), written
   by hand from the standard's text, NOT from esbuild's tables.

   12.7.2 Keywords and Reserved Words
     ReservedWord :: one of
       await break case catch class const continue debugger default delete do
       else enum export extends false finally for function if import in
       instanceof new null return super switch this throw true try typeof var
       void while with yield
   "await" and "yield" are reserved only conditionally ([Await]/[Yield]
   parameters, module goal, strict mode); a lexer that serves both goals has to
   treat them as contextual, so they are listed separately here.
   In strict mode code, "let" and "static" are treated as reserved words
   through static semantic restrictions, and so are
     implements interface package private protected public. *)
From V Require Import Common.Base.
From Coq Require Import String Ascii.
Local Open Scope string_scope.

Fixpoint zs (s : string) : list Z :=
  match s with
  | EmptyString => []
  | String c r => Z.of_nat (nat_of_ascii c) :: zs r
  end.

Definition ecma_reserved_words : list (list Z) := map zs
  ["await"; "break"; "case"; "catch"; "class"; "const"; "continue"; "debugger";
   "default"; "delete"; "do"; "else"; "enum"; "export"; "extends"; "false";
   "finally"; "for"; "function"; "if"; "import"; "in"; "instanceof"; "new";
   "null"; "return"; "super"; "switch"; "this"; "throw"; "true"; "try";
   "typeof"; "var"; "void"; "while"; "with"; "yield"].

(* reserved only in some contexts: never unconditional keyword tokens *)
Definition ecma_contextually_reserved : list (list Z) := map zs ["await"; "yield"].

(* words additionally reserved in strict mode code *)
Definition ecma_strict_only_reserved : list (list Z) := map zs
  ["implements"; "interface"; "let"; "package"; "private"; "protected"; "public"; "static"].

Definition mem (w : list Z) (l : list (list Z)) : bool := existsb (zlist_eqb w) l.

Lemma mem_In w l : mem w l = true <-> In w l.
Proof.
  unfold mem. rewrite existsb_exists. split.
  - intros [x [Hin Heq]]. apply zlist_eqb_eq in Heq. subst. exact Hin.
  - intro Hin. exists w. split; [exact Hin | apply zlist_eqb_eq; reflexivity].
Qed.

(* unconditional reserved words: what a goal-independent lexer must tokenise as keywords *)
Definition ecma_unconditional_reserved : list (list Z) :=
  filter (fun w => negb (mem w ecma_contextually_reserved)) ecma_reserved_words.

(* words that may not be used as identifiers in strict mode beyond the
   unconditional ones: the strict-only list plus "yield" ("await" is reserved
   by goal (module), not by strictness) *)
Definition ecma_strict_reserved : list (list Z) := ecma_strict_only_reserved ++ [zs "yield"].

(* reserved words after which a "/" starts a regular expression (they cannot end
   an expression); the other reserved words that can end an expression are
   this null true false super *)
Definition ends_expression_kw : list (list Z) := map zs ["this"; "null"; "true"; "false"; "super"].
