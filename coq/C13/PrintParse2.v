(* The main induction: printed tokens parse back to the (normalised) tree. *)
From V Require Import Common.Base C13.KwSpec C13.Token C13.LexSpec C13.LexProofs C13.Toks C13.TokenProofs
  C13.ParseSpec C13.ParseMono C13.PrintParse.
From Coq Require Import String.

(* comma-normal trees: no comma directly in the right operand of a comma (on these norm is the identity) *)
Fixpoint cnf (e : expr) : Prop :=
  match e with
  | EDot t _ => cnf t
  | EUn _ v => cnf v
  | EBin o l r => cnf l /\ cnf r /\ (o = BComma -> not_comma r)
  | ECond c y n => cnf c /\ cnf y /\ cnf n
  | EIndex t i => cnf t /\ cnf i
  | _ => True
  end.

Lemma not_comma_norm r : not_comma r -> not_comma (norm r).
Proof.
  destruct r as [s|s|b f|t s|u v|o a b|c0 y0 n0|t0 i0]; simpl; auto.
  destruct (op_eqb o BComma) eqn:E; [destruct o; try discriminate; intros []|].
  intros _. destruct o; try discriminate; exact I.
Qed.
Lemma comma_app_plain l r : not_comma r -> comma_app l r = EBin BComma l r.
Proof. destruct r as [s|s|b f|t s|u v|o a b|c0 y0 n0|t0 i0]; simpl; auto. destruct o; auto. intros []. Qed.
Lemma norm_bin o l r : (o = BComma -> not_comma r) -> norm (EBin o l r) = EBin o (norm l) (norm r).
Proof.
  intro H. simpl. destruct (op_eqb o BComma) eqn:E; [|reflexivity].
  assert (o = BComma) by (destruct o; try discriminate; reflexivity). subst o.
  apply comma_app_plain. apply not_comma_norm. auto.
Qed.

Definition Gen (e : expr) : Prop :=
  forall P L rest res, 0 <= P -> L < S_Update -> lv_ok L P e -> fol P rest = true ->
    PSx L (norm e) (ll_of P e) rest res -> PEx L (toks (print_items P e) ++ rest) res.
Definition Unw (e : expr) : Prop :=
  forall P L rest res, 0 <= P -> P < lvl e -> L < S_Update -> lv_ok L P e -> fol P rest = true ->
    PSx L (norm e) (lvl e) rest res -> PEx L (toks (body e) ++ rest) res.

Lemma compound_lvl e : compound e = true -> 1 <= lvl e.
Proof. destruct e; simpl; intro H; try discriminate; apply op_level_pos. Qed.

Lemma gen_of_unw e : compound e = true -> Unw e -> Gen e.
Proof.
  intros Hc U P L rest res HP HL Hlv Hf Hs.
  rewrite print_items_split. unfold ll_of in Hs. destruct (wrapped P e) eqn:W.
  - rewrite !toks_app, <- !app_assoc. change (toks [IOpen]) with [TP [40]]. change (toks [IClose]) with [TP [41]].
    simpl app.
    destruct open_tok as (O1 & O2 & O3). destruct close_tok as (C1 & C2 & C3 & C4).
    apply (E_paren L (TP [40]) _ (norm e) (TP [41]) rest res O1 O2 O3); [|exact C4|exact Hs].
    pose proof (compound_lvl e Hc) as Hl.
    apply (U 0 0); try lia.
    + unfold S_Update. lia.
    + destruct e; simpl; auto; right; [pose proof (op_level_pos o); lia | unfold LConditional, LYield; lia].
    + reflexivity.
    + apply S_stop. reflexivity.
  - unfold wrapped in W. rewrite Hc in W. simpl in W. rewrite Z.geb_leb in W. apply Z.leb_gt in W.
    apply (U P L); assumption.
Qed.

Lemma pre_level o : op_kind o = KPre -> op_level o = S_Unary.
Proof. destruct o; intro H; try discriminate; reflexivity. Qed.
Lemma post_level o : op_kind o = KPost -> op_level o = S_Update /\ is_update o = true.
Proof. destruct o; intro H; try discriminate; split; reflexivity. Qed.
Lemma bin_level o : op_kind o = KBin -> op_level o <= 17 /\ right_level o <= 17 /\ 0 <= lpl o.
Proof. destruct o; intro H; try discriminate; vm_compute; repeat split; discriminate. Qed.

Lemma fol_bin o P r : op_kind o = KBin -> fol P (op_tok o :: r) = (lpl o <=? P).
Proof. destruct o; intro H; try discriminate; reflexivity. Qed.
Lemma fol_post o P r : op_kind o = KPost -> fol P (op_tok o :: r) = (LPrefix <=? P).
Proof. destruct o; intro H; try discriminate; reflexivity. Qed.
Lemma low_ops_stop o : op_kind o = KBin -> lpl o <= LYield -> spec_level o <=? 3 = true.
Proof. destruct o; intro H; try discriminate; vm_compute; intro H2; try reflexivity; exfalso; apply H2; reflexivity. Qed.

Lemma target_shape v : is_target v = true -> compound v = false /\ lvl v = S_Member.
Proof. destruct v; simpl; intro H; try discriminate; split; reflexivity. Qed.

Lemma wrapped19 t : compound t = true -> wrapped LPostfix t = true.
Proof.
  intro Hc. unfold wrapped. rewrite Hc. simpl. rewrite Z.geb_leb. apply Z.leb_le.
  destruct t as [| | | |u w|o2 a b2|c0 y0 n0|]; try discriminate; simpl;
    [pose proof (op_level_pos u) | pose proof (op_level_pos o2)]; unfold LPostfix; lia.
Qed.
Lemma target19 L t : lv_ok L LPostfix t /\ S_Member <=? ll_of LPostfix t = true.
Proof.
  destruct (compound t) eqn:Ec.
  - pose proof (wrapped19 t Ec) as W. split.
    + destruct t; simpl; auto.
    + unfold ll_of. rewrite W. reflexivity.
  - split; [destruct t; try discriminate; exact I|].
    unfold ll_of, wrapped. rewrite Ec. simpl. rewrite (lvl_atom t Ec). reflexivity.
Qed.
Lemma operand17 L t : wf t -> lv_ok L (LPrefix - 1) t.
Proof.
  intro Hw. destruct t as [| | | |u w|o2 a b2|c0 y0 n0|]; simpl; auto; left; unfold wrapped; simpl; rewrite Z.geb_leb; apply Z.leb_le.
  destruct Hw as (_ & _ & Hk & _). destruct (bin_level o2 Hk) as (Hle & _). unfold LPrefix. lia.
Qed.
Lemma lv_ok_low e : lv_ok 0 0 e /\ lv_ok 3 LYield e.
Proof.
  destruct e as [| | | |u w|o2 a b2|c0 y0 n0|]; simpl; auto; split.
  - right. pose proof (op_level_pos o2). lia.
  - destruct (LYield >=? op_level o2) eqn:E; [left; unfold wrapped; simpl; exact E|]. right.
    rewrite Z.geb_leb in E. apply Z.leb_gt in E. unfold LYield in E. lia.
  - right. unfold LConditional, LYield. lia.
  - right. unfold LConditional, LYield. lia.
Qed.

Lemma colon_stop M r : head_stop M (TP [58] :: r) = true /\ fol LYield (TP [58] :: r) = true.
Proof. split; reflexivity. Qed.
Lemma rbrack_stop M r : head_stop M (TP [93] :: r) = true /\ fol 0 (TP [93] :: r) = true.
Proof. split; reflexivity. Qed.

Theorem print_parse_gen : forall e, wf e -> cnf e -> Gen e.
Proof.
  induction e as [s|s|b f|t IHt s|o v IHv|o l IHl r IHr|c IHc y IHy n IHn|t IHt i IHi]; intros Hwf Hcn.
  - (* identifier *)
    intros P L rest res HP HL Hlv Hf Hs. simpl in *. destruct Hwf as [_ Hr].
    apply (E_atom L (TId s) rest (EId s)); [apply find_op_word; exact Hr | simpl; rewrite Hr; reflexivity | exact Hs].
  - intros P L rest res HP HL Hlv Hf Hs. simpl in *.
    apply (E_atom L (TNum s) rest (ENum s)); [apply find_op_num | reflexivity | exact Hs].
  - intros P L rest res HP HL Hlv Hf Hs. simpl in *.
    apply (E_atom L (TRe b f) rest (ERe b f)); [apply find_op_re | reflexivity | exact Hs].
  - (* member access *)
    intros P L rest res HP HL Hlv Hf Hs. destruct Hwf as (Hwt & Hs1 & Hs2). simpl in Hcn.
    cbn [print_items]. rewrite toks_app, <- app_assoc. change (toks [IDot s]) with [TP [46]; TId s]. simpl app.
    destruct (target19 L t) as [Hlt Hll].
    apply (IHt Hwt Hcn LPostfix L); try assumption.
    + unfold LPostfix. lia.
    + reflexivity.
    + apply S_dot; [reflexivity | exact Hll | exact Hs].
  - (* unary *)
    apply gen_of_unw; [reflexivity|].
    intros P L rest res HP HPl HL Hlv Hf Hs. destruct Hwf as (Hwv & Hku & Hupd). simpl in Hcn.
    rewrite body_un. simpl lvl in *. simpl norm in Hs.
    destruct (op_kind o) eqn:Ek.
    + (* prefix *)
      destruct (pre_tok o Ek) as [T1 T2]. rewrite (pre_level o Ek) in *.
      rewrite toks_app, <- app_assoc. change (toks [IOp o]) with (toks_of (IOp o) ++ []). rewrite T2. simpl app.
      apply (E_prefix L (op_tok o) _ o (norm v) rest res T1); [| |exact Hs].
      * apply (IHv Hwv Hcn (LPrefix - 1) S_Unary); try (unfold LPrefix, S_Unary, S_Update; lia).
        -- apply operand17. exact Hwv.
        -- apply (fol_weaken P); [unfold LPrefix, S_Unary in *; lia | exact Hf].
        -- apply S_stop. apply (fol_stop P); [exact Hf | unfold LPrefix, S_Unary in *; lia | unfold S_Unary in *; lia|].
           intros o' Hk' _. apply Z.leb_le. rewrite spec_level_is_op_level. destruct (bin_level o' Hk'). unfold S_Unary. lia.
      * destruct (is_update o) eqn:Eu; [|reflexivity]. simpl. rewrite is_target_norm. auto.
    + (* postfix *)
      destruct (post_tok o Ek) as (T1 & T2 & T3). destruct (post_level o Ek) as [El Eu]. rewrite El in *.
      specialize (Hupd Eu). destruct (target_shape v Hupd) as [Hcv Hlv'].
      rewrite toks_app, <- app_assoc. change (toks [IOp o]) with (toks_of (IOp o) ++ []). rewrite T3. simpl app.
      apply (IHv Hwv Hcn (LPostfix - 1) L); try assumption.
      * unfold LPostfix. lia.
      * destruct v; simpl in *; auto; discriminate.
      * rewrite (fol_post o _ _ Ek). reflexivity.
      * apply (S_post L (norm v) _ (op_tok o) o rest res T1 T2); [apply Z.leb_gt; exact HL| |exact Hs].
        rewrite is_target_norm, Hupd. unfold ll_of, wrapped. rewrite Hcv. simpl. rewrite Hlv'. reflexivity.
    + congruence.
  - (* binary *)
    apply gen_of_unw; [reflexivity|].
    intros P L rest res HP HPl HL Hlv Hf Hs. destruct Hwf as (Hwl & Hwr & Hk & Hta). destruct Hcn as (Hcl & Hcr & Hcm).
    rewrite body_bin. simpl lvl in *. rewrite (norm_bin o l r Hcm) in Hs.
    destruct (bin_tok o Hk) as (T1 & T2 & T3 & T4). destruct (bin_level o Hk) as (B1 & B2 & B3).
    assert (HLo : L < op_level o).
    { destruct Hlv as [W|W]; [|exact W]. unfold wrapped in W. simpl in W. rewrite Z.geb_leb in W. apply Z.leb_le in W. lia. }
    rewrite !toks_app, <- !app_assoc. change (toks [IOp o]) with (toks_of (IOp o) ++ []). rewrite T4. simpl app.
    pose proof (left_lvl_ge o l) as Hll. pose proof (right_lvl_ge o r Hk) as Hrl.
    apply (IHl Hwl Hcl (left_lvl o l) L); try assumption; try lia.
    + destruct l as [| | | | |o2 a b2|c0 y0 n0|]; simpl; auto.
      * unfold wrapped. simpl. destruct (left_lvl o (EBin o2 a b2) >=? op_level o2) eqn:E; [left; reflexivity|].
        right. rewrite Z.geb_leb in E. apply Z.leb_gt in E. unfold lpl in Hll. destruct (is_right_assoc o); lia.
      * (* a conditional as left operand: parenthesised except under a comma *)
        unfold wrapped. simpl. destruct (left_lvl o (ECond c0 y0 n0) >=? LConditional) eqn:E; [left; reflexivity|].
        right. rewrite Z.geb_leb in E. apply Z.leb_gt in E.
        destruct (is_assign o) eqn:Ea; [specialize (Hta eq_refl); discriminate|].
        assert (Hlow : (left_lvl o (ECond c0 y0 n0) = 0 /\ op_level o = 1) \/ LConditional <= left_lvl o (ECond c0 y0 n0)).
        { clear -Hk Ea. destruct o; try discriminate; vm_compute; auto; right; discriminate. }
        unfold LConditional, LYield in *. destruct Hlow as [[Hlow Hl1]|Hlow]; lia.
    + rewrite (fol_bin o _ _ Hk). apply Z.leb_le. exact Hll.
    + apply (S_bin L (norm l) _ (op_tok o) o _ (norm r) rest res T1 T2 T3).
      * rewrite spec_level_is_op_level. apply Z.leb_gt. exact HLo.
      * apply left_ok_print; assumption.
      * apply (IHr Hwr Hcr (right_lvl o r) (right_level o)); try (unfold S_Update; lia).
        -- apply right_ok_print; assumption.
        -- apply (fol_weaken P); [lia | exact Hf].
        -- apply S_stop. apply (fol_stop P); [exact Hf | unfold LPrefix; lia | |].
           ++ assert (Hrg : op_level o - 1 <= right_level o) by (clear -Hk; destruct o; try discriminate; vm_compute; discriminate). lia.
           ++ intros o' Hk' Hl'. apply (stop_level o o' P); assumption.
      * rewrite spec_level_is_op_level. exact Hs.
  - (* conditional *)
    apply gen_of_unw; [reflexivity|].
    intros P L rest res HP HPl HL Hlv Hf Hs. destruct Hwf as (Hwc & Hwy & Hwn). destruct Hcn as (Hcc & Hcy & Hcn).
    rewrite body_cond. simpl lvl in *. simpl norm in Hs.
    assert (HL5 : L < LConditional /\ P <= LYield).
    { destruct Hlv as [W|W]; [|exact W]. unfold wrapped in W. simpl in W. rewrite Z.geb_leb in W. apply Z.leb_le in W. lia. }
    destruct HL5 as [HL5 HP3].
    rewrite !toks_app, <- !app_assoc. change (toks [IQuest]) with [TP [63]]. change (toks [IColon]) with [TP [58]]. simpl app.
    apply (IHc Hwc Hcc LConditional L); try assumption.
    + unfold LConditional. lia.
    + destruct c as [| | | | |o2 a b2|c0 y0 n0|]; simpl; auto.
      * unfold wrapped. simpl. destruct (LConditional >=? op_level o2) eqn:E; [left; reflexivity|].
        right. rewrite Z.geb_leb in E. apply Z.leb_gt in E. lia.
    + reflexivity.
    + destruct (colon_stop 3 (toks (print_items LYield n) ++ rest)) as [Cs Cf].
      destruct (lv_ok_low y) as [_ Ly]. destruct (lv_ok_low n) as [_ Ln].
      apply (S_cond L (norm c) _ (TP [63]) _ (norm y) (TP [58]) (toks (print_items LYield n) ++ rest) (norm n) rest res);
        try reflexivity.
      * apply Z.leb_gt. unfold S_Cond, LConditional in *. lia.
      * apply Z.ltb_lt. unfold ll_of. destruct (wrapped LConditional c) eqn:W; [reflexivity|].
        unfold wrapped in W. destruct (compound c) eqn:Ec; [|rewrite (lvl_atom c Ec); reflexivity].
        simpl in W. rewrite Z.geb_leb in W. apply Z.leb_gt in W. unfold S_Cond, LConditional in *. lia.
      * apply (IHy Hwy Hcy LYield 3); try assumption; try (unfold LYield, S_Update; lia).
        apply S_stop. exact Cs.
      * apply (IHn Hwn Hcn LYield 3); try assumption; try (unfold LYield, S_Update; lia).
        -- apply (fol_weaken P); [exact HP3 | exact Hf].
        -- apply S_stop. apply (fol_stop P); [exact Hf | unfold LPrefix, LYield in *; lia | unfold LYield in *; lia|].
           intros o' Hk' Hl'. apply low_ops_stop; [exact Hk' | lia].
      * exact Hs.
  - (* index access *)
    intros P L rest res HP HL Hlv Hf Hs. destruct Hwf as (Hwt & Hwi). destruct Hcn as (Hct & Hci).
    cbn [print_items]. rewrite !toks_app, <- !app_assoc. change (toks [ILBrack]) with [TP [91]]. change (toks [IRBrack]) with [TP [93]]. simpl app.
    destruct (target19 L t) as [Hlt Hll].
    apply (IHt Hwt Hct LPostfix L); try assumption.
    + unfold LPostfix. lia.
    + reflexivity.
    + destruct (rbrack_stop 0 rest) as [Rs Rf]. destruct (lv_ok_low i) as [Li _].
      apply (S_index L (norm t) _ (TP [91]) _ (norm i) (TP [93]) rest res); try reflexivity; try assumption.
      apply (IHi Hwi Hci 0 0); try assumption; try (unfold S_Update; lia).
      apply S_stop. exact Rs.
Qed.

(* ---- whole expressions ---- *)
Lemma parse_fuel_mono n m ts e : (n <= m)%nat -> parse_fuel n ts = Some e -> parse_fuel m ts = Some e.
Proof.
  unfold parse_fuel. intros Hle H. destruct (parse_expr n 0 ts) as [[e' [|c r]]|] eqn:E; try discriminate.
  rewrite (parse_expr_mono n m _ _ _ Hle E). exact H.
Qed.

Theorem parse_print_items_cnf e :
  wf e -> cnf e -> exists n, forall m, (n <= m)%nat -> parse_fuel m (toks (print_items LLowest e)) = Some (norm e).
Proof.
  intros Hwf Hcn.
  destruct (print_parse_gen e Hwf Hcn LLowest 0 [] (norm e, [])) as [n Hn].
  - unfold LLowest. lia.
  - unfold S_Update. lia.
  - apply lv_ok_low.
  - reflexivity.
  - apply S_nil.
  - exists n. intros m Hm. rewrite app_nil_r in Hn. unfold parse_fuel.
    rewrite (parse_expr_mono n m _ _ _ Hm Hn). reflexivity.
Qed.
