(* The main induction: printed tokens parse back to the (normalised) tree. *)
From V Require Import Common.Base C13.KwSpec C13.Token C13.LexSpec C13.LexProofs C13.Toks C13.TokenProofs
  C13.ParseSpec C13.ParseMono C13.PrintParse.
From Coq Require Import String.

(* comma-normal trees: no comma directly in the right operand of a comma (on these norm is the identity) *)
Fixpoint cnf (e : expr) : Prop :=
  match e with
  | EDot t _ => cnf t
  | EUn _ v => cnf v
  | EBin o l r => cnf l /\ cnf r /\ (o = BComma -> not_comma r)
  | _ => True
  end.

Lemma not_comma_norm r : not_comma r -> not_comma (norm r).
Proof.
  destruct r as [s|s|b f|t s|u v|o a b]; simpl; auto.
  destruct (op_eqb o BComma) eqn:E; [destruct o; try discriminate; intros []|].
  intros _. destruct o; try discriminate; exact I.
Qed.
Lemma comma_app_plain l r : not_comma r -> comma_app l r = EBin BComma l r.
Proof. destruct r as [s|s|b f|t s|u v|o a b]; simpl; auto. destruct o; auto. intros []. Qed.
Lemma norm_bin o l r : (o = BComma -> not_comma r) -> norm (EBin o l r) = EBin o (norm l) (norm r).
Proof.
  intro H. simpl. destruct (op_eqb o BComma) eqn:E; [|reflexivity].
  assert (o = BComma) by (destruct o; try discriminate; reflexivity). subst o.
  apply comma_app_plain. apply not_comma_norm. auto.
Qed.

Definition Gen (e : expr) : Prop :=
  forall P L rest res, 0 <= P -> L < S_Update -> lv_ok L P e -> fol P rest = true ->
    PSx L (norm e) (ll_of P e) rest res -> PEx L (toks (print_items P e) ++ rest) res.
Definition Unw (e : expr) : Prop :=
  forall P L rest res, 0 <= P -> P < lvl e -> L < S_Update -> lv_ok L P e -> fol P rest = true ->
    PSx L (norm e) (lvl e) rest res -> PEx L (toks (body e) ++ rest) res.

Lemma compound_lvl e : compound e = true -> 1 <= lvl e.
Proof. destruct e; simpl; intro H; try discriminate; apply op_level_pos. Qed.

Lemma gen_of_unw e : compound e = true -> Unw e -> Gen e.
Proof.
  intros Hc U P L rest res HP HL Hlv Hf Hs.
  rewrite print_items_split. unfold ll_of in Hs. destruct (wrapped P e) eqn:W.
  - rewrite !toks_app, <- !app_assoc. change (toks [IOpen]) with [TP [40]]. change (toks [IClose]) with [TP [41]].
    simpl app.
    destruct open_tok as (O1 & O2 & O3). destruct close_tok as (C1 & C2 & C3 & C4).
    apply (E_paren L (TP [40]) _ (norm e) (TP [41]) rest res O1 O2 O3); [|exact C4|exact Hs].
    pose proof (compound_lvl e Hc) as Hl.
    apply (U 0 0); try lia.
    + unfold S_Update. lia.
    + destruct e; simpl; auto. right. pose proof (op_level_pos o). lia.
    + reflexivity.
    + apply S_stop. reflexivity.
  - unfold wrapped in W. rewrite Hc in W. simpl in W. rewrite Z.geb_leb in W. apply Z.leb_gt in W.
    apply (U P L); assumption.
Qed.

Lemma pre_level o : op_kind o = KPre -> op_level o = S_Unary.
Proof. destruct o; intro H; try discriminate; reflexivity. Qed.
Lemma post_level o : op_kind o = KPost -> op_level o = S_Update /\ is_update o = true.
Proof. destruct o; intro H; try discriminate; split; reflexivity. Qed.
Lemma bin_level o : op_kind o = KBin -> op_level o <= 17 /\ right_level o <= 17 /\ 0 <= lpl o.
Proof. destruct o; intro H; try discriminate; vm_compute; repeat split; discriminate. Qed.

Lemma target_shape v : is_target v = true -> compound v = false /\ lvl v = S_Member.
Proof. destruct v; simpl; intro H; try discriminate; split; reflexivity. Qed.

Theorem print_parse_gen : forall e, wf e -> cnf e -> Gen e.
Proof.
  induction e as [s|s|b f|t IHt s|o v IHv|o l IHl r IHr]; intros Hwf Hcn.
  - (* identifier *)
    intros P L rest res HP HL Hlv Hf Hs. simpl in *. destruct Hwf as [_ Hr].
    apply (E_atom L (TId s) rest (EId s)); [apply find_op_word; exact Hr | simpl; rewrite Hr; reflexivity | exact Hs].
  - intros P L rest res HP HL Hlv Hf Hs. simpl in *.
    apply (E_atom L (TNum s) rest (ENum s)); [apply find_op_num | reflexivity | exact Hs].
  - intros P L rest res HP HL Hlv Hf Hs. simpl in *.
    apply (E_atom L (TRe b f) rest (ERe b f)); [apply find_op_re | reflexivity | exact Hs].
  - (* member access *)
    intros P L rest res HP HL Hlv Hf Hs. destruct Hwf as (Hwt & Hs1 & Hs2). simpl in Hcn.
    cbn [print_items]. rewrite toks_app, <- app_assoc. change (toks [IDot s]) with [TP [46]; TId s]. simpl app.
    apply (IHt Hwt Hcn LPostfix L); try assumption.
    + unfold LPostfix. lia.
    + destruct t; simpl; auto. left. unfold wrapped. simpl. destruct Hwt as (_ & _ & Hk & _).
      destruct (bin_level o Hk) as (Hle & _). rewrite Z.geb_leb. apply Z.leb_le. unfold LPostfix. lia.
    + reflexivity.
    + apply S_dot; [reflexivity| |exact Hs].
      apply Z.leb_le. unfold ll_of. destruct (wrapped LPostfix t) eqn:W; [unfold S_Member; lia|].
      unfold wrapped in W. destruct (compound t) eqn:Ec; [|rewrite (lvl_atom t Ec); unfold S_Member; lia].
      simpl in W. rewrite Z.geb_leb in W. apply Z.leb_gt in W.
      destruct t as [| | | |u w|o2 a b2]; try discriminate; simpl in W |- *.
      * destruct Hwt as (_ & Hku & _). destruct (op_kind u) eqn:Eu.
        -- rewrite (pre_level u Eu) in W. unfold LPostfix, S_Unary in W. lia.
        -- destruct (post_level u Eu) as [E _]. rewrite E in W. unfold LPostfix, S_Update in W. lia.
        -- congruence.
      * destruct Hwt as (_ & _ & Hk & _). destruct (bin_level o2 Hk) as (Hle & _). unfold LPostfix in W. lia.
  - (* unary *)
    apply gen_of_unw; [reflexivity|].
    intros P L rest res HP HPl HL Hlv Hf Hs. destruct Hwf as (Hwv & Hku & Hupd). simpl in Hcn.
    rewrite body_un. simpl lvl in *. simpl norm in Hs.
    destruct (op_kind o) eqn:Ek.
    + (* prefix *)
      destruct (pre_tok o Ek) as [T1 T2]. rewrite (pre_level o Ek) in *.
      rewrite toks_app, <- app_assoc. change (toks [IOp o]) with (toks_of (IOp o) ++ []). rewrite T2. simpl app.
      apply (E_prefix L (op_tok o) _ o (norm v) rest res T1); [| |exact Hs].
      * apply (IHv Hwv Hcn (LPrefix - 1) S_Unary); try (unfold LPrefix, S_Unary, S_Update; lia).
        -- destruct v; simpl; auto. left. unfold wrapped. simpl. destruct Hwv as (_ & _ & Hk & _).
           destruct (bin_level o0 Hk) as (Hle & _). rewrite Z.geb_leb. apply Z.leb_le. unfold LPrefix. lia.
        -- apply (fol_weaken P); [unfold LPrefix, S_Unary in *; lia | exact Hf].
        -- apply S_stop. apply (fol_stop P); [exact Hf | unfold LPrefix, S_Unary in *; lia|].
           intros o' Hk' _. apply Z.leb_le. rewrite spec_level_is_op_level. destruct (bin_level o' Hk'). unfold S_Unary. lia.
      * destruct (is_update o) eqn:Eu; [|reflexivity]. simpl. rewrite is_target_norm. auto.
    + (* postfix *)
      destruct (post_tok o Ek) as (T1 & T2 & T3). destruct (post_level o Ek) as [El Eu]. rewrite El in *.
      specialize (Hupd Eu). destruct (target_shape v Hupd) as [Hcv Hlv'].
      rewrite toks_app, <- app_assoc. change (toks [IOp o]) with (toks_of (IOp o) ++ []). rewrite T3. simpl app.
      apply (IHv Hwv Hcn (LPostfix - 1) L); try assumption.
      * unfold LPostfix. lia.
      * destruct v; simpl in *; auto; discriminate.
      * simpl. rewrite T1, T2. reflexivity.
      * apply (S_post L (norm v) _ (op_tok o) o rest res T1 T2); [apply Z.leb_gt; exact HL| |exact Hs].
        rewrite is_target_norm, Hupd. unfold ll_of, wrapped. rewrite Hcv. simpl. rewrite Hlv'. reflexivity.
    + congruence.
  - (* binary *)
    apply gen_of_unw; [reflexivity|].
    intros P L rest res HP HPl HL Hlv Hf Hs. destruct Hwf as (Hwl & Hwr & Hk & Hta). destruct Hcn as (Hcl & Hcr & Hcm).
    rewrite body_bin. simpl lvl in *. rewrite (norm_bin o l r Hcm) in Hs.
    destruct (bin_tok o Hk) as (T1 & T2 & T3 & T4). destruct (bin_level o Hk) as (B1 & B2 & B3).
    assert (HLo : L < op_level o).
    { destruct Hlv as [W|W]; [|exact W]. unfold wrapped in W. simpl in W. rewrite Z.geb_leb in W. apply Z.leb_le in W. lia. }
    rewrite !toks_app, <- !app_assoc. change (toks [IOp o]) with (toks_of (IOp o) ++ []). rewrite T4. simpl app.
    pose proof (left_lvl_ge o l) as Hll. pose proof (right_lvl_ge o r Hk) as Hrl.
    apply (IHl Hwl Hcl (left_lvl o l) L); try assumption; try lia.
    + destruct l as [| | | | |o2 a b2]; simpl; auto.
      unfold wrapped. simpl. destruct (left_lvl o (EBin o2 a b2) >=? op_level o2) eqn:E; [left; reflexivity|].
      right. rewrite Z.geb_leb in E. apply Z.leb_gt in E. unfold lpl in Hll. destruct (is_right_assoc o); lia.
    + simpl. rewrite T1, T2, T3. apply Z.leb_le. exact Hll.
    + apply (S_bin L (norm l) _ (op_tok o) o _ (norm r) rest res T1 T2 T3).
      * rewrite spec_level_is_op_level. apply Z.leb_gt. exact HLo.
      * apply left_ok_print; assumption.
      * apply (IHr Hwr Hcr (right_lvl o r) (right_level o)); try (unfold S_Update; lia).
        -- apply right_ok_print; assumption.
        -- apply (fol_weaken P); [lia | exact Hf].
        -- apply S_stop. apply (fol_stop P); [exact Hf | unfold LPrefix; lia|].
           intros o' Hk' Hl'. apply (stop_level o o' P); assumption.
      * rewrite spec_level_is_op_level. exact Hs.
Qed.

(* ---- whole expressions ---- *)
Lemma parse_fuel_mono n m ts e : (n <= m)%nat -> parse_fuel n ts = Some e -> parse_fuel m ts = Some e.
Proof.
  unfold parse_fuel. intros Hle H. destruct (parse_expr n 0 ts) as [[e' [|c r]]|] eqn:E; try discriminate.
  rewrite (parse_expr_mono n m _ _ _ Hle E). exact H.
Qed.

Theorem parse_print_items_cnf e :
  wf e -> cnf e -> exists n, forall m, (n <= m)%nat -> parse_fuel m (toks (print_items LLowest e)) = Some (norm e).
Proof.
  intros Hwf Hcn.
  destruct (print_parse_gen e Hwf Hcn LLowest 0 [] (norm e, [])) as [n Hn].
  - unfold LLowest. lia.
  - unfold S_Update. lia.
  - destruct e; simpl; auto. right. pose proof (op_level_pos o). lia.
  - reflexivity.
  - apply S_nil.
  - exists n. intros m Hm. rewrite app_nil_r in Hn. unfold parse_fuel.
    rewrite (parse_expr_mono n m _ _ _ Hm Hn). reflexivity.
Qed.
