(* The main induction: printed tokens parse back to the (normalised) tree. *)
From V Require Import Common.Base C13.KwSpec C13.Token C13.LexSpec C13.LexProofs C13.Toks C13.TokenProofs
  C13.ParseSpec C13.ParseMono C13.PrintParse.
From Coq Require Import String.

(* comma-normal trees: no comma directly in the right operand of a comma (on these norm is the identity) *)
Fixpoint cnf (e : expr) : Prop :=
  match e with
  | EDot t _ => cnf t
  | EUn _ v => cnf v
  | EBin o l r => cnf l /\ cnf r /\ (o = BComma -> not_comma r)
  | ECond c y n => cnf c /\ cnf y /\ cnf n
  | EIndex t i => cnf t /\ cnf i
  | ECall f a | ENew f a => cnf f /\ cnf a
  | ACons x r => cnf x /\ cnf r
  | _ => True
  end.

Lemma not_comma_norm r : not_comma r -> not_comma (norm r).
Proof.
  destruct r as [s|s|b f|t s|u v|o a b|c0 y0 n0|t0 i0|f0 a0|f0 a0| |x0 r0]; simpl; auto.
  destruct (op_eqb o BComma) eqn:E; [destruct o; try discriminate; intros []|].
  intros _. destruct o; try discriminate; exact I.
Qed.
Lemma comma_app_plain l r : not_comma r -> comma_app l r = EBin BComma l r.
Proof. destruct r as [s|s|b f|t s|u v|o a b|c0 y0 n0|t0 i0|f0 a0|f0 a0| |x0 r0]; simpl; auto. destruct o; auto. intros []. Qed.
Lemma norm_bin o l r : (o = BComma -> not_comma r) -> norm (EBin o l r) = EBin o (norm l) (norm r).
Proof.
  intro H. simpl. destruct (op_eqb o BComma) eqn:E; [|reflexivity].
  assert (o = BComma) by (destruct o; try discriminate; reflexivity). subst o.
  apply comma_app_plain. apply not_comma_norm. auto.
Qed.

Lemma pre_level o : op_kind o = KPre -> op_eqb o UYield = false -> op_level o = S_Unary /\ pre_max o = 19 /\ pre_arg o = S_Unary /\ spec_level o = S_Unary.
Proof. destruct o; intros H Hy; try discriminate; repeat split; reflexivity. Qed.
Lemma post_level o : op_kind o = KPost -> op_level o = S_Update /\ is_update o = true.
Proof. destruct o; intro H; try discriminate; split; reflexivity. Qed.
Lemma bin_level o : op_kind o = KBin -> op_level o <= 17 /\ right_level o <= 17 /\ 0 <= lpl o.
Proof. destruct o; intro H; try discriminate; vm_compute; repeat split; discriminate. Qed.
Lemma fol_bin o P r : op_kind o = KBin -> fol P (op_tok o :: r) = (lpl o <=? P).
Proof. destruct o; intro H; try discriminate; reflexivity. Qed.
Lemma fol_post o P r : op_kind o = KPost -> fol P (op_tok o :: r) = (LPrefix <=? P).
Proof. destruct o; intro H; try discriminate; reflexivity. Qed.
Lemma low_ops_stop o : op_kind o = KBin -> lpl o <= LYield -> spec_level o <=? 3 = true.
Proof. destruct o; intro H; try discriminate; vm_compute; intro H2; try reflexivity; exfalso; apply H2; reflexivity. Qed.

Section WithMode.
Variable mw : bool.
Local Notation print_items := (Token.print_items mw).
Local Notation ll_of := (PrintParse.ll_of mw).
Local Notation strat := (PrintParse.strat mw).
Local Notation body := (PrintParse.body mw).
Local Notation new_parens := (PrintParse.new_parens mw).

(* HL: the loop level is below the call level, except while parsing the callee of "new"
   (printed at LNew, parsed with strength S_Call) *)
(* the parser may run with "no in" (ni) on a print made with the forbidIn flag (fp), or on any print
   at a level at which an "in" expression is parenthesised anyway *)
Definition flag_ok (ni fp : bool) (P : Z) : Prop := ni = true -> fp = true \/ LCompare <= P.
Lemma flag_ok_mono ni fp P P' : flag_ok ni fp P -> P <= P' -> flag_ok ni fp P'.
Proof. intros H Hle Hn. destruct (H Hn) as [E|E]; [left; exact E | right; lia]. Qed.
Lemma flag_ok_off fp P : flag_ok false fp P.
Proof. intro H. discriminate. Qed.
Lemma flag_ok_high ni fp P : LCompare <= P -> flag_ok ni fp P.
Proof. intros H _. right. exact H. Qed.

Definition Gen (e : expr) : Prop :=
  forall fp ss ni P L rest res, flag_ok ni fp P -> 0 <= P -> (L < S_Call \/ P = LNew) -> L <= S_Call -> lv_ok fp L P e -> fol P rest = true ->
    PSx ni L (norm e) (ll_of fp P e) rest res -> PEx ni L (toks (print_items fp ss P e) ++ rest) res.
Definition Unw (e : expr) : Prop :=
  forall fb sb ni Pb P L rest res, flag_ok ni fb P -> is_in e && fb = false ->
    0 <= P -> P < lvl e -> (forall f a, e = ENew f a -> P = Pb \/ LPostfix <= Pb) ->
    (L < S_Call \/ P = LNew) -> L <= S_Call -> lv_ok fb L P e -> fol P rest = true ->
    PSx ni L (norm e) (strat Pb e) rest res -> PEx ni L (toks (body fb sb Pb e) ++ rest) res.
Definition GenArgs (a : expr) : Prop :=
  forall rest, PAx (toks (print_items false false LComma a) ++ TP [41] :: rest) (norm a, rest).

Lemma unw_not_wrapped fb P e : compound e = true -> P < lvl e -> is_in e && fb = false -> wrapped fb P e = false.
Proof.
  intros Hc HP Hin. unfold wrapped. rewrite Hc, Hin, orb_false_r. simpl. rewrite Z.geb_leb. apply Z.leb_gt. exact HP.
Qed.

Lemma compound_lvl e : compound e = true -> 1 <= lvl e <= LCall.
Proof.
  destruct e; simpl; intro H; try discriminate; try (pose proof (op_level_pos o)); unfold LConditional, LNew, LCall; lia.
Qed.

Lemma lv_ok_low fp e : lv_ok fp 0 0 e /\ lv_ok fp 3 LYield e /\ lv_ok fp 3 LComma e.
Proof.
  destruct e as [| | | |u w|o2 a b2|c0 y0 n0| |f0 a0| | |]; simpl; auto; repeat split;
    try (right; unfold un_lim, S_Update, S_Call; destruct (op_eqb u UYield); lia);
    try (right; unfold S_Update, S_Call; lia).
  - right. pose proof (op_level_pos o2). lia.
  - destruct (LYield >=? op_level o2) eqn:E; [left; apply wrapped_level; [reflexivity | exact E]|]. right.
    rewrite Z.geb_leb in E. apply Z.leb_gt in E. unfold LYield in E. lia.
  - destruct (LComma >=? op_level o2) eqn:E; [left; apply wrapped_level; [reflexivity | exact E]|]. right.
    rewrite Z.geb_leb in E. apply Z.leb_gt in E. unfold LComma in E.
    assert (op_level o2 <> 2 /\ op_level o2 <> 3) by (destruct o2; vm_compute; split; discriminate). lia.
  - right. unfold LConditional, LYield. lia.
  - right. unfold LConditional, LYield. lia.
  - right. unfold LConditional, LYield, LComma. lia.
Qed.

Lemma gen_of_unw e : compound e = true -> Unw e -> Gen e.
Proof.
  intros Hc U fp ss ni P L rest res Hfl HP HL HL2 Hlv Hf Hs.
  rewrite print_items_split. unfold PrintParse.ll_of in Hs. destruct (wrapped fp P e) eqn:W.
  - rewrite !toks_app, <- !app_assoc. change (toks [IOpen]) with [TP [40]]. change (toks [IClose]) with [TP [41]].
    simpl app.
    destruct open_tok as (O0 & O1 & O2 & O3). destruct close_tok as (C1 & C2 & C3 & C4).
    apply (E_paren ni L (TP [40]) _ (norm e) (TP [41]) rest res O0 O1 O2 O3); [|exact C4|exact Hs].
    pose proof (compound_lvl e Hc) as Hl.
    apply (U false false false P 0 0); try lia.
    + apply flag_ok_off.
    + intros f a E. subst e. right. unfold wrapped in W. simpl in W. rewrite orb_false_r in W. rewrite Z.geb_leb in W. apply Z.leb_le in W.
      unfold LPostfix, LCall in *. lia.
    + left. unfold S_Call. lia.
    + unfold S_Call. lia.
    + apply lv_ok_low.
    + reflexivity.
    + apply S_stop. reflexivity.
  - destruct (unwrapped_level fp P e Hc W) as [W1 W2].
    apply (U fp ss ni P P L); try assumption. intros f a _. left. reflexivity.
Qed.

Lemma target_shape v : is_target v = true -> compound v = false /\ strat 0 v = S_Member.
Proof. destruct v; simpl; intro H; try discriminate; split; reflexivity. Qed.

(* what a member access / call is applied to: printed at LPostfix, or at LNew under the isNewTarget flag *)
Lemma targetT fp L T t : (T = LPostfix /\ L < S_Call) \/ T = LNew -> lv_ok fp L T t /\ S_Call <=? ll_of fp T t = true.
Proof.
  intro HT. split.
  - destruct t as [| | | |u w|o2 a b2|c0 y0 n0| |f0 a0| | |]; simpl; auto.
    + left. apply wrapped_level; [reflexivity|]. simpl. rewrite Z.geb_leb. apply Z.leb_le. pose proof (op_level_pos u).
      destruct HT as [[E _]|E]; subst T; unfold LPostfix, LNew; lia.
    + left. apply wrapped_level; [reflexivity|]. simpl. rewrite Z.geb_leb. apply Z.leb_le. pose proof (op_level_pos o2).
      destruct HT as [[E _]|E]; subst T; unfold LPostfix, LNew; lia.
    + left. destruct HT as [[E _]|E]; subst T; reflexivity.
    + destruct HT as [[E HL]|E]; subst T; [right; exact HL | left; reflexivity].
  - apply Z.leb_le. assert (HT19 : 19 <= T <= 20) by (destruct HT as [[E _]|E]; subst T; unfold LPostfix, LNew; lia).
    unfold PrintParse.ll_of. destruct (wrapped fp T t) eqn:W; [unfold S_Call, S_Member; lia|].
    destruct (compound t) eqn:Hct; [|destruct t; try discriminate; simpl; unfold S_Member, S_Call; lia].
    destruct (unwrapped_level fp T t Hct W) as [W1 _]. clear W. rename W1 into W.
    destruct t as [| | | |u w|o2 a b2|c0 y0 n0| |f0 a0|f0 a0| |]; simpl in *; unfold S_Member, S_Call in *; try lia; try discriminate.
    + pose proof (op_level_pos u). lia.
    + pose proof (op_level_pos o2). lia.
    + unfold LConditional in W. lia.
    + unfold PrintParse.new_parens. replace (T >=? LPostfix) with true by (symmetry; rewrite Z.geb_leb; apply Z.leb_le; unfold LPostfix; lia).
      rewrite orb_true_r. unfold S_Member. lia.
Qed.

Lemma tgt_level_cases P L : (L < S_Call \/ P = LNew) ->
  (tgt_level P = LPostfix /\ L < S_Call) \/ tgt_level P = LNew.
Proof.
  intros HL. unfold tgt_level. destruct (P =? LNew) eqn:E; [right; reflexivity|].
  left. split; [reflexivity|]. apply Z.eqb_neq in E. destruct HL as [HL|HL]; [exact HL | contradiction].
Qed.

Lemma operand17 fp L t : wf t -> L < S_Update -> lv_ok fp L (LPrefix - 1) t.
Proof.
  intros Hw HL. destruct t as [| | | |u w|o2 a b2|c0 y0 n0| |f0 a0| | |]; simpl; auto.
  - unfold un_lim. destruct (op_eqb u UYield) eqn:Ey; [|right; exact HL].
    left. assert (u = UYield) by (destruct u; try discriminate; reflexivity). subst u. reflexivity.
  - left. apply wrapped_level; [reflexivity|]. simpl. rewrite Z.geb_leb. apply Z.leb_le.
    destruct Hw as (_ & _ & Hk & _). destruct (bin_level o2 Hk) as (Hle & _). unfold LPrefix. lia.
  - right. unfold S_Update, S_Call in *. lia.
Qed.

Lemma colon_stop M r : head_stop M (TP [58] :: r) = true /\ fol LYield (TP [58] :: r) = true.
Proof. split; reflexivity. Qed.
Lemma rbrack_stop M r : head_stop M (TP [93] :: r) = true /\ fol 0 (TP [93] :: r) = true.
Proof. split; reflexivity. Qed.
Lemma close_stop M r : head_stop M (TP [41] :: r) = true /\ fol LComma (TP [41] :: r) = true.
Proof. split; reflexivity. Qed.
Lemma comma_stop r : head_stop 3 (TP [44] :: r) = true /\ fol LComma (TP [44] :: r) = true
  /\ is_close (TP [44]) = false /\ is_comma (TP [44]) = true.
Proof. repeat split; reflexivity. Qed.

(* below level 19 the token after an expression is none of . [ ( *)
Lemma fol_no_member P rest : fol P rest = true -> P < LPostfix ->
  head_stop S_Call rest = true /\ (match rest with p :: _ => is_open p = false | [] => True end).
Proof.
  intros H HP. destruct rest as [|t r]; [split; [reflexivity | exact I]|]. simpl in *.
  destruct (is_dot t); [apply Z.leb_le in H; lia|].
  destruct (is_lbrack t); [apply Z.leb_le in H; lia|].
  destruct (is_open t); [apply Z.leb_le in H; lia|]. simpl. split; [|reflexivity].
  apply andb_true_iff. split; [apply andb_true_iff; split|].
  - destruct (is_quest t); reflexivity.
  - destruct (postfix_op t); reflexivity.
  - destruct (binary_op t) eqn:Eb; [|reflexivity]. apply Z.leb_le. rewrite spec_level_is_op_level.
    pose proof (op_level_pos o). unfold S_Call. lia.
Qed.

Definition Both (e : expr) : Prop := (wf e -> cnf e -> Gen e) /\ (wfa e -> cnf e -> GenArgs e).

Theorem print_parse_both : forall e, Both e.
Proof.
  induction e as [s|s|b f|t IHt s|o v IHv|o l IHl r IHr|c IHc y IHy n IHn|t IHt i IHi|f IHf a IHa|f IHf a IHa| |x IHx r IHr];
    (split; [intros Hwf Hcn; try (destruct Hwf; fail) | intros Hwa Hcn; try (destruct Hwa; fail)]).
  - (* identifier *)
    intros fp ss ni P L rest res Hfl HP HL HL2 Hlv Hf Hs. simpl in *. destruct Hwf as [_ Hr].
    apply (E_atom ni L (TId s) rest (EId s)); [apply is_new_word; exact Hr | apply find_op_word; exact Hr | simpl; rewrite Hr; reflexivity | exact Hs].
  - intros fp ss ni P L rest res Hfl HP HL HL2 Hlv Hf Hs. simpl in *.
    apply (E_atom ni L (TNum s) rest (ENum s)); [reflexivity | apply find_op_num | reflexivity | exact Hs].
  - intros fp ss ni P L rest res Hfl HP HL HL2 Hlv Hf Hs. simpl in *.
    apply (E_atom ni L (TRe b f) rest (ERe b f)); [reflexivity | apply find_op_re | reflexivity | exact Hs].
  - (* member access *)
    intros fp ss ni P L rest res Hfl HP HL HL2 Hlv Hf Hs. destruct Hwf as (Hwt & Hs1 & Hs2). simpl in Hcn.
    cbn [Token.print_items]. rewrite toks_app, <- app_assoc. change (toks [IDot s]) with [TP [46]; TId s]. simpl app.
    destruct (targetT false L (tgt_level P) t (tgt_level_cases P L HL)) as [Hlt Hll].
    apply (proj1 IHt Hwt Hcn false ss ni (tgt_level P) L); try assumption.
    + apply flag_ok_high. unfold tgt_level. destruct (P =? LNew); unfold LNew, LPostfix, LCompare; lia.
    + unfold tgt_level. destruct (P =? LNew); unfold LNew, LPostfix; lia.
    + unfold tgt_level. destruct (P =? LNew) eqn:E; [right; reflexivity|]. left.
      destruct HL as [HL|HL]; [exact HL|]. apply Z.eqb_neq in E. contradiction.
    + unfold tgt_level. destruct (P =? LNew); reflexivity.
    + apply S_dot; [reflexivity | exact Hll | exact Hs].
  - (* unary *)
    apply gen_of_unw; [reflexivity|].
    intros fb sb ni Pb P L rest res Hfl Hin HP HPl _ HL HL2 Hlv Hf Hs. destruct Hwf as (Hwv & Hku & Hupd). simpl in Hcn.
    rewrite body_un. simpl lvl in *. simpl norm in Hs. simpl PrintParse.strat in Hs.
    assert (HLlim : L < un_lim o).
    { destruct Hlv as [W|W]; [|exact W]. rewrite (unw_not_wrapped fb P (EUn o v) eq_refl HPl Hin) in W. discriminate. }
    destruct (op_kind o) eqn:Ek.
    + (* prefix *)
      destruct (pre_tok o Ek) as (T0 & T1 & T2).
      rewrite toks_app, <- app_assoc. change (toks [IOp o]) with (toks_of (IOp o) ++ []). rewrite T2. simpl app.
      destruct (op_eqb o UYield) eqn:Ey.
      * (* yield: an AssignmentExpression whose operand is an AssignmentExpression with the same [In] *)
        assert (o = UYield) by (destruct o; try discriminate; reflexivity). subst o.
        unfold un_lim in HLlim. simpl in HLlim. change (op_level UYield) with 4 in *.
        assert (Hfl3 : flag_ok ni fb LYield).
        { intro Hn. destruct (Hfl Hn) as [E|E]; [left; exact E | unfold LCompare in E; lia]. }
        apply (E_prefix ni L (op_tok UYield) _ UYield (norm v) rest res T0 T1); [change (pre_max UYield) with 3; apply Z.ltb_ge; lia| |reflexivity|exact Hs].
        change (pre_in UYield ni) with ni. change (pre_arg UYield) with 3. change (op_eqb UYield UYield && fb) with fb. change (4 - 1) with LYield.
        destruct (lv_ok_low fb v) as (_ & Lv & _).
        apply (proj1 IHv Hwv Hcn fb false ni LYield 3); try assumption; try (unfold LYield, S_Call; lia).
        -- apply (fol_weaken P); [unfold LYield; lia | exact Hf].
        -- apply S_stop. apply (fol_stop P); [exact Hf | unfold LPrefix; lia | lia|].
           intros o' Hk' Hl'. apply low_ops_stop; [exact Hk' | unfold LYield; lia].
      * destruct (pre_level o Ek Ey) as (E1 & E2 & E3 & E4).
        unfold un_lim in HLlim. rewrite Ey in HLlim. rewrite E1 in *.
        apply (E_prefix ni L (op_tok o) _ o (norm v) rest res T0 T1); [rewrite E2; apply Z.ltb_ge; unfold S_Update in *; lia| | |rewrite E4; exact Hs].
        -- unfold pre_in. rewrite Ey, E3. simpl andb.
           apply (proj1 IHv Hwv Hcn false false false (LPrefix - 1) S_Unary); try (unfold LPrefix, S_Unary, S_Update, S_Call; lia).
           ++ apply flag_ok_off.
           ++ apply operand17; [exact Hwv | unfold S_Unary, S_Update; lia].
           ++ apply (fol_weaken P); [unfold LPrefix, S_Unary in *; lia | exact Hf].
           ++ apply S_stop. apply (fol_stop P); [exact Hf | unfold LPrefix, S_Unary in *; lia | unfold S_Unary in *; lia|].
              intros o' Hk' _. apply Z.leb_le. rewrite spec_level_is_op_level. destruct (bin_level o' Hk'). unfold S_Unary. lia.
        -- destruct (is_update o) eqn:Eu; [|reflexivity]. simpl. rewrite is_target_norm. auto.
    + (* postfix *)
      destruct (post_tok o Ek) as (T1 & T2 & T3). destruct (post_level o Ek) as [El Eu]. rewrite El in *.
      assert (HL19 : L < S_Update) by (unfold un_lim in HLlim; destruct o; try discriminate; exact HLlim).
      specialize (Hupd Eu). destruct (target_shape v Hupd) as [Hcv Hlv'].
      rewrite toks_app, <- app_assoc. change (toks [IOp o]) with (toks_of (IOp o) ++ []). rewrite T3. simpl app.
      apply (proj1 IHv Hwv Hcn false sb ni (LPostfix - 1) L); try assumption.
      * apply flag_ok_high. unfold LPostfix, LCompare. lia.
      * unfold LPostfix. lia.
      * left. unfold S_Update, S_Call in *. lia.
      * destruct v; simpl in *; auto; discriminate.
      * rewrite (fol_post o _ _ Ek). reflexivity.
      * apply (S_post ni L (norm v) _ (op_tok o) o rest res T1 T2); [apply Z.leb_gt; exact HL19| |exact Hs].
        rewrite is_target_norm, Hupd. unfold PrintParse.ll_of, wrapped. rewrite Hcv. simpl.
        destruct v; try discriminate; reflexivity.
    + congruence.
  - (* binary *)
    apply gen_of_unw; [reflexivity|].
    intros fb sb ni Pb P L rest res Hfl Hin HP HPl _ HL HL2 Hlv Hf Hs. destruct Hwf as (Hwl & Hwr & Hk & Hta). destruct Hcn as (Hcl & Hcr & Hcm).
    rewrite body_bin. simpl lvl in *. rewrite (norm_bin o l r Hcm) in Hs. simpl PrintParse.strat in Hs.
    destruct (bin_tok o Hk) as (T1 & T2 & T3 & T4). destruct (bin_level o Hk) as (B1 & B2 & B3).
    assert (HLo : L < op_level o).
    { destruct Hlv as [W|W]; [|exact W]. rewrite (unw_not_wrapped fb P (EBin o l r) eq_refl HPl Hin) in W. discriminate. }
    assert (Hni : ni && op_eqb o BIn = false).
    { destruct ni; [|reflexivity]. simpl. destruct (Hfl eq_refl) as [E|E].
      - subst fb. simpl in Hin. rewrite andb_true_r in Hin. exact Hin.
      - destruct (op_eqb o BIn) eqn:Eo; [|reflexivity]. assert (o = BIn) by (destruct o; try discriminate; reflexivity). subst o.
        exfalso. change (op_level BIn) with 13 in HPl. unfold LCompare in E. lia. }
    assert (HLc : L < S_Call) by (unfold S_Call; lia).
    rewrite !toks_app, <- !app_assoc. change (toks [IOp o]) with (toks_of (IOp o) ++ []). rewrite T4. simpl app.
    pose proof (left_lvl_ge o l) as Hll. pose proof (right_lvl_ge o r Hk) as Hrl.
    apply (proj1 IHl Hwl Hcl fb sb ni (left_lvl o l) L); try assumption; try lia.
    + apply (flag_ok_mono ni fb P); [exact Hfl | unfold lpl in Hll; destruct (is_right_assoc o); lia].
    + destruct l as [| | | |u w|o2 a b2|c0 y0 n0| |f0 a0| | |]; simpl; auto.
      * unfold un_lim. destruct (op_eqb u UYield) eqn:Ey; [|right; unfold S_Update; lia].
        assert (u = UYield) by (destruct u; try discriminate; reflexivity). subst u.
        destruct (left_lvl o (EUn UYield w) >=? 4) eqn:E; [left; apply wrapped_level; [reflexivity | exact E]|].
        right. rewrite Z.geb_leb in E. apply Z.leb_gt in E. unfold lpl in Hll. destruct (is_right_assoc o); lia.
      * destruct (left_lvl o (EBin o2 a b2) >=? op_level o2) eqn:E; [left; apply wrapped_level; [reflexivity | exact E]|].
        right. rewrite Z.geb_leb in E. apply Z.leb_gt in E. unfold lpl in Hll. destruct (is_right_assoc o); lia.
      * (* a conditional as left operand: parenthesised except under a comma *)
        destruct (left_lvl o (ECond c0 y0 n0) >=? LConditional) eqn:E; [left; apply wrapped_level; [reflexivity | exact E]|].
        right. rewrite Z.geb_leb in E. apply Z.leb_gt in E.
        destruct (is_assign o) eqn:Ea; [specialize (Hta eq_refl); discriminate|].
        assert (Hlow : (left_lvl o (ECond c0 y0 n0) = 0 /\ op_level o = 1) \/ LConditional <= left_lvl o (ECond c0 y0 n0)).
        { clear -Hk Ea. destruct o; try discriminate; vm_compute; auto; right; discriminate. }
        unfold LConditional, LYield in *. destruct Hlow as [[Hlow Hl1]|Hlow]; lia.
    + rewrite (fol_bin o _ _ Hk). apply Z.leb_le. exact Hll.
    + apply (S_bin ni L (norm l) _ (op_tok o) o _ (norm r) rest res T1 T2 T3).
      * rewrite spec_level_is_op_level. apply Z.leb_gt. exact HLo.
      * exact Hni.
      * apply left_ok_print; assumption.
      * apply (proj1 IHr Hwr Hcr fb false ni (right_lvl o r) (right_level o)); try (unfold S_Call; lia).
        -- apply (flag_ok_mono ni fb P); [exact Hfl | lia].
        -- apply right_ok_print; assumption.
        -- apply (fol_weaken P); [lia | exact Hf].
        -- apply S_stop. apply (fol_stop P); [exact Hf | unfold LPrefix; lia | |].
           ++ assert (Hrg : op_level o - 1 <= right_level o) by (clear -Hk; destruct o; try discriminate; vm_compute; discriminate). lia.
           ++ intros o' Hk' Hl'. apply (stop_level o o' P); assumption.
      * rewrite spec_level_is_op_level. exact Hs.
  - (* conditional *)
    apply gen_of_unw; [reflexivity|].
    intros fb sb ni Pb P L rest res Hfl Hin HP HPl _ HL HL2 Hlv Hf Hs. destruct Hwf as (Hwc & Hwy & Hwn). destruct Hcn as (Hcc & Hcy & Hcn).
    rewrite body_cond. simpl lvl in *. simpl norm in Hs. simpl PrintParse.strat in Hs.
    assert (HL5 : L < LConditional /\ P <= LYield).
    { destruct Hlv as [W|W]; [|exact W]. rewrite (unw_not_wrapped fb P (ECond c y n) eq_refl HPl Hin) in W. discriminate. }
    destruct HL5 as [HL5 HP3].
    assert (HLc : L < S_Call) by (unfold S_Call, LConditional in *; lia).
    rewrite !toks_app, <- !app_assoc. change (toks [IQuest]) with [TP [63]]. change (toks [IColon]) with [TP [58]]. simpl app.
    assert (Hfl3 : flag_ok ni fb LYield).
    { intro Hn. destruct (Hfl Hn) as [E|E]; [left; exact E | unfold LCompare, LYield in *; lia]. }
    apply (proj1 IHc Hwc Hcc fb sb ni LConditional L); try assumption.
    + unfold LConditional. lia.
    + left. exact HLc.
    + destruct c as [| | | |u w|o2 a b2|c0 y0 n0| |f0 a0| | |]; simpl; auto.
      * unfold un_lim. destruct (op_eqb u UYield) eqn:Ey; [|right; unfold S_Update, LConditional in *; lia].
        assert (u = UYield) by (destruct u; try discriminate; reflexivity). subst u. left. reflexivity.
      * destruct (LConditional >=? op_level o2) eqn:E; [left; apply wrapped_level; [reflexivity | exact E]|].
        right. rewrite Z.geb_leb in E. apply Z.leb_gt in E. lia.
    + reflexivity.
    + destruct (colon_stop 3 (toks (print_items fb false LYield n) ++ rest)) as [Cs Cf].
      destruct (lv_ok_low false y) as (_ & Ly & _). destruct (lv_ok_low fb n) as (_ & Ln & _).
      apply (S_cond ni L (norm c) _ (TP [63]) _ (norm y) (TP [58]) (toks (print_items fb false LYield n) ++ rest) (norm n) rest res);
        try reflexivity.
      * apply Z.leb_gt. unfold S_Cond, LConditional in *. lia.
      * apply Z.ltb_lt. pose proof (ll_of_ge mw fb LConditional c). unfold S_Cond, S_Member, LConditional in *. lia.
      * apply (proj1 IHy Hwy Hcy false false false LYield 3); try assumption; try (unfold LYield, S_Call; lia).
        -- apply flag_ok_off.
        -- apply S_stop. exact Cs.
      * apply (proj1 IHn Hwn Hcn fb false ni LYield 3); try assumption; try (unfold LYield, S_Call; lia).
        -- apply (fol_weaken P); [exact HP3 | exact Hf].
        -- apply S_stop. apply (fol_stop P); [exact Hf | unfold LPrefix, LYield in *; lia | unfold LYield in *; lia|].
           intros o' Hk' Hl'. apply low_ops_stop; [exact Hk' | lia].
      * exact Hs.
  - (* index access *)
    intros fp ss ni P L rest res Hfl HP HL HL2 Hlv Hf Hs. destruct Hwf as (Hwt & Hwi). destruct Hcn as (Hct & Hci).
    cbn [Token.print_items].
    assert (Hidx : forall lft llv, S_Call <=? llv = true -> lft = norm t ->
              PSx ni L lft llv (TP [91] :: toks (print_items false false LLowest i) ++ TP [93] :: rest) res).
    { intros lft llv Hllv El. subst lft. destruct (rbrack_stop 0 rest) as [Rs Rf]. destruct (lv_ok_low false i) as (Li & _).
      apply (S_index ni L (norm t) _ (TP [91]) _ (norm i) (TP [93]) rest res); try reflexivity; try assumption.
      apply (proj1 IHi Hwi Hci false false false 0 0); try assumption; try (unfold S_Call; lia).
      - apply flag_ok_off.
      - apply S_stop. exact Rs. }
    destruct (ss && is_let t) eqn:Elet.
    + (* "(let)[i]" at the start of a statement *)
      apply andb_true_iff in Elet as [_ Elet]. destruct t as [s| | | | | | | | | | |]; try discriminate.
      destruct Hwt as [_ Hr].
      unfold paren. cbn [Token.print_items]. rewrite !toks_app, <- !app_assoc.
      change (toks [IOpen]) with [TP [40]]. change (toks [IClose]) with [TP [41]]. change (toks [IId s]) with [TId s].
      change (toks [ILBrack]) with [TP [91]]. change (toks [IRBrack]) with [TP [93]]. simpl app.
      destruct open_tok as (O0 & O1 & O2 & O3). destruct close_tok as (C1 & C2 & C3 & C4).
      eapply (E_paren ni L (TP [40]) _ (EId s) (TP [41]) _ res O0 O1 O2 O3); [|exact C4|].
      * apply (E_atom false 0 (TId s) _ (EId s)); [apply is_new_word; exact Hr | apply find_op_word; exact Hr | simpl; rewrite Hr; reflexivity|].
        apply S_stop. reflexivity.
      * apply (Hidx (EId s) S_Member); reflexivity.
    + unfold paren. rewrite !toks_app, <- !app_assoc. change (toks [ILBrack]) with [TP [91]]. change (toks [IRBrack]) with [TP [93]]. simpl app.
      destruct (targetT false L (tgt_level P) t (tgt_level_cases P L HL)) as [Hlt Hll].
      apply (proj1 IHt Hwt Hct false ss ni (tgt_level P) L); try assumption.
      * apply flag_ok_high. unfold tgt_level. destruct (P =? LNew); unfold LNew, LPostfix, LCompare; lia.
      * unfold tgt_level. destruct (P =? LNew); unfold LNew, LPostfix; lia.
      * unfold tgt_level. destruct (P =? LNew) eqn:E; [right; reflexivity|]. left.
        destruct HL as [HL|HL]; [exact HL|]. apply Z.eqb_neq in E. contradiction.
      * unfold tgt_level. destruct (P =? LNew); reflexivity.
      * apply Hidx; [exact Hll | reflexivity].
  - (* call *)
    apply gen_of_unw; [reflexivity|].
    intros fb sb ni Pb P L rest res Hfl Hin HP HPl _ HL HL2 Hlv Hf Hs. destruct Hwf as (Hwf' & Hwa). destruct Hcn as (Hcf & Hca).
    rewrite body_call. simpl lvl in *. simpl norm in Hs. simpl PrintParse.strat in Hs.
    assert (HLc : L < S_Call).
    { destruct Hlv as [W|W]; [|exact W]. rewrite (unw_not_wrapped fb P (ECall f a) eq_refl HPl Hin) in W. discriminate. }
    rewrite !toks_app, <- !app_assoc. change (toks [ICallOpen]) with [TP [40]]. change (toks [IClose]) with [TP [41]]. simpl app.
    destruct (targetT false L LPostfix f (or_introl (conj eq_refl HLc))) as [Hlt Hll].
    apply (proj1 IHf Hwf' Hcf false sb ni LPostfix L); try assumption.
    + apply flag_ok_high. unfold LPostfix, LCompare. lia.
    + unfold LPostfix. lia.
    + left. exact HLc.
    + reflexivity.
    + apply (S_call ni L (norm f) _ (TP [40]) _ (norm a) rest res); try reflexivity.
      * apply Z.leb_gt. exact HLc.
      * exact Hll.
      * apply (proj2 IHa Hwa Hca).
      * exact Hs.
  - (* new *)
    apply gen_of_unw; [reflexivity|].
    intros fb sb ni Pb P L rest res Hfl Hin HP HPl HPb HL HL2 Hlv Hf Hs. destruct Hwf as (Hwf' & Hwa). destruct Hcn as (Hcf & Hca).
    specialize (HPb f a eq_refl).
    unfold PrintParse.body. simpl norm in Hs. simpl PrintParse.strat in Hs.
    rewrite !toks_app, <- !app_assoc. change (toks [INew]) with [TId [110; 101; 119]]. simpl app.
    destruct (targetT false S_Call LNew f (or_intror eq_refl)) as [Hlt _].
    destruct (PrintParse.new_parens mw Pb a) eqn:Enp.
    + (* with an argument list *)
      change (toks (ICallOpen :: print_items false false LComma a ++ [IClose])) with (TP [40] :: toks (print_items false false LComma a ++ [IClose])).
      rewrite toks_app. change (toks [IClose]) with [TP [41]]. simpl app. rewrite <- app_assoc. simpl app.
      apply (E_new_args ni L (TId [110; 101; 119]) _ (norm f) (TP [40]) (toks (print_items false false LComma a) ++ TP [41] :: rest) (norm a) rest res); try reflexivity.
      * apply (proj1 IHf Hwf' Hcf false false false LNew S_Call); try assumption; try (unfold LNew, S_Call; lia).
        -- apply flag_ok_off.
        -- reflexivity.
        -- apply S_stop. reflexivity.
      * apply (proj2 IHa Hwa Hca).
      * exact Hs.
    + (* "new f" without parentheses: minified, no arguments, below LPostfix *)
      unfold PrintParse.new_parens in Enp. apply orb_false_iff in Enp as [Enp Ep19]. apply orb_false_iff in Enp as [_ Eha].
      rewrite Z.geb_leb in Ep19. apply Z.leb_gt in Ep19.
      assert (a = ANil) by (destruct a; try (destruct Hwa; fail); [reflexivity | discriminate]). subst a.
      assert (HPP : P = Pb) by (destruct HPb as [E|E]; [exact E | lia]). subst Pb.
      simpl app. destruct (fol_no_member P rest Hf Ep19) as [Hst Hno].
      apply (E_new_bare ni L (TId [110; 101; 119]) _ (norm f) rest res); try reflexivity.
      * apply (proj1 IHf Hwf' Hcf false false false LNew S_Call); try assumption; try (unfold LNew, S_Call; lia).
        -- apply flag_ok_off.
        -- apply (fol_weaken P); [unfold LNew, LPostfix in *; lia | exact Hf].
        -- apply S_stop. exact Hst.
      * exact Hno.
      * exact Hs.
  - (* no arguments *)
    intro rest. simpl. apply A_nil. reflexivity.
  - (* argument list *)
    intro rest. destruct Hwa as (Hwx & Hwr). destruct Hcn as (Hcx & Hcr).
    cbn [Token.print_items]. simpl norm. destruct (lv_ok_low false x) as (_ & _ & Lx).
    destruct r as [| | | | | | | | | | |x2 r2]; try (destruct Hwr; fail).
    + (* last argument *)
      rewrite app_nil_r. destruct (close_stop 3 rest) as [Cs Cf].
      apply (A_last _ (norm x) (TP [41]) rest); [|reflexivity].
      apply (proj1 IHx Hwx Hcx false false false LComma 3); try assumption; try (unfold LComma, S_Call; lia).
      * apply flag_ok_off.
      * apply S_stop. exact Cs.
    + rewrite !toks_app, <- !app_assoc. change (toks [IOp BComma]) with [TP [44]]. simpl app.
      destruct (comma_stop (toks (print_items false false LComma (ACons x2 r2)) ++ TP [41] :: rest)) as (Ks & Kf & Kc & Kk).
      apply (A_more _ (norm x) (TP [44]) (toks (print_items false false LComma (ACons x2 r2)) ++ TP [41] :: rest) (norm (ACons x2 r2)) rest); [|exact Kc | exact Kk|].
      * apply (proj1 IHx Hwx Hcx false false false LComma 3); try assumption; try (unfold LComma, S_Call; lia).
        -- apply flag_ok_off.
        -- apply S_stop. exact Ks.
      * apply (proj2 IHr Hwr Hcr).
Qed.

Theorem print_parse_gen : forall e, wf e -> cnf e -> Gen e.
Proof. intros e. apply (proj1 (print_parse_both e)). Qed.

(* ---- whole expressions ---- *)
Lemma parse_fuel_mono n m ni ts e : (n <= m)%nat -> parse_fuel n ni ts = Some e -> parse_fuel m ni ts = Some e.
Proof.
  unfold parse_fuel. intros Hle H. destruct (parse_expr n ni 0 ts) as [[e' [|c r]]|] eqn:E; try discriminate.
  rewrite (parse_expr_mono n m _ _ _ _ Hle E). exact H.
Qed.

Theorem parse_print_items_cnf fi ss e :
  wf e -> cnf e -> exists n, forall m, (n <= m)%nat -> parse_fuel m fi (toks (print_items fi ss LLowest e)) = Some (norm e).
Proof.
  intros Hwf Hcn.
  destruct (print_parse_gen e Hwf Hcn fi ss fi LLowest 0 [] (norm e, [])) as [n Hn].
  - intro H. left. exact H.
  - unfold LLowest. lia.
  - left. unfold S_Call. lia.
  - unfold S_Call. lia.
  - apply lv_ok_low.
  - reflexivity.
  - apply S_nil.
  - exists n. intros m Hm. rewrite app_nil_r in Hn. unfold parse_fuel.
    rewrite (parse_expr_mono n m _ _ _ _ Hm Hn). reflexivity.
Qed.

End WithMode.
