(* The items of a printed well-formed tree form a grammatical chain of well-formed
   items: render_lex applies to every printed tree. *)
From V Require Import Common.Base C13.KwSpec C13.Token C13.LexSpec C13.LexProofs C13.Toks C13.TokenProofs
  C13.ParseSpec C13.PrintParse.
From Coq Require Import String.

(* lexical side condition of render_lex: a prefix "++"/"--" is not directly followed by a
   regular expression or a number (the leftmost token of its operand is an identifier or "(") *)
Fixpoint lead (e : expr) : bool :=
  match e with
  | EId _ => true
  | EDot t _ => lead t
  | ENum _ | ERe _ _ => false
  | _ => true
  end.
Fixpoint lexok (e : expr) : Prop :=
  match e with
  | EDot t _ => lexok t
  | EUn o v => lexok v /\ (is_update_pre (IOp o) = true -> lead v = true)
  | EBin _ l r => lexok l /\ lexok r
  | _ => True
  end.

Definition Good (l : list item) : Prop :=
  exists f tl, l = f :: tl /\ starts_operand f = true /\ chain (Some f) tl = true /\ ends_operand (last l f) = true.

Lemma last_cons_default {A} (x : A) l d d' : l <> [] -> last (x :: l) d = last l d'.
Proof.
  revert x. induction l as [|y l IH]; intros x H; [congruence|].
  destruct l as [|z l']; [reflexivity|]. change (last (x :: y :: z :: l') d) with (last (y :: z :: l') d).
  rewrite (IH y) by discriminate. symmetry. destruct l'; reflexivity.
Qed.
Lemma last_indep {A} (l : list A) d d' : l <> [] -> last l d = last l d'.
Proof. induction l as [|x l IH]; [congruence|]. intros _. destruct l; [reflexivity|]. apply IH. discriminate. Qed.
Lemma last_app_ne {A} (a b : list A) d : b <> [] -> last (a ++ b) d = last b d.
Proof.
  intro H. induction a as [|x a IH]; [reflexivity|]. simpl app.
  assert (Hne : a ++ b <> []) by (destruct a; [exact H | discriminate]).
  destruct (a ++ b) as [|y l] eqn:E; [congruence|]. exact IH.
Qed.

Lemma chain_app prev a : forall b,
  chain prev (a ++ b) = chain prev a && chain (match a with [] => prev | x :: _ => Some (last a x) end) b.
Proof.
  revert prev. induction a as [|x a IH]; intros prev b; [reflexivity|].
  simpl app. cbn [chain]. rewrite IH. rewrite andb_assoc. f_equal.
  destruct a as [|y a']; [reflexivity|]. f_equal. f_equal. change (last (x :: y :: a') x) with (last (y :: a') x). apply last_indep. discriminate.
Qed.

Lemma G_atom i : starts_operand i = true -> ends_operand i = true -> Good [i].
Proof. intros H1 H2. exists i, []. repeat split; auto. Qed.

Lemma G_paren a : Good a -> Good ([IOpen] ++ a ++ [IClose]).
Proof.
  intros (f & tl & E & Hs & Hc & He). subst a. exists IOpen, ((f :: tl) ++ [IClose]). repeat split.
  - rewrite chain_app. cbn [chain]. rewrite Hc.
    assert (A1 : adj IOpen f = true) by (unfold adj; simpl; rewrite Hs; reflexivity).
    assert (A2 : adj (last (f :: tl) f) IClose = true) by (unfold adj; rewrite He; reflexivity).
    rewrite A1, A2. reflexivity.
  - simpl app. rewrite (last_cons_default IOpen _ IOpen IOpen) by (destruct tl; discriminate).
    change (f :: tl ++ [IClose]) with ((f :: tl) ++ [IClose]). rewrite last_app_ne by discriminate. reflexivity.
Qed.

Lemma G_bin a b o : Good a -> Good b -> op_kind o = KBin -> Good (a ++ [IOp o] ++ b).
Proof.
  intros (fa & ta & Ea & Hsa & Hca & Hea) (fb & tb & Eb & Hsb & Hcb & Heb) Hk. subst a b.
  exists fa, (ta ++ [IOp o] ++ fb :: tb). repeat split; auto.
  - rewrite chain_app, Hca. simpl andb. simpl app. cbn [chain].
    assert (Hpost : is_post (IOp o) = false) by (simpl; rewrite Hk; reflexivity).
    assert (Hup : is_update_pre (IOp o) = false) by (destruct o; try discriminate; reflexivity).
    assert (A1 : forall z, ends_operand z = true -> adj z (IOp o) = true) by (intros z Hz; unfold adj; rewrite Hz, Hk; reflexivity).
    assert (A2 : adj (IOp o) fb = true).
    { unfold adj. change (ends_operand (IOp o)) with (is_post (IOp o)). rewrite Hpost, Hsb, Hup. reflexivity. }
    destruct ta as [|x ta']; cbn [chain]; rewrite A2, Hcb.
    + rewrite (A1 fa Hea). reflexivity.
    + rewrite A1; [reflexivity|]. rewrite <- Hea. rewrite (last_cons_default fa (x :: ta') fa x) by discriminate. reflexivity.
  - change ((fa :: ta) ++ [IOp o] ++ fb :: tb) with ((fa :: ta) ++ ([IOp o] ++ fb :: tb)).
    rewrite last_app_ne by discriminate. simpl app.
    rewrite (last_cons_default (IOp o) (fb :: tb) fa fb) by discriminate. exact Heb.
Qed.

Lemma G_pre a o : Good a -> op_kind o = KPre ->
  (is_update_pre (IOp o) = true -> match a with IId _ :: _ | IOpen :: _ => True | _ => False end) -> Good (IOp o :: a).
Proof.
  intros (f & tl & E & Hs & Hc & He) Hk Hl. subst a. exists (IOp o), (f :: tl). repeat split.
  - simpl. rewrite Hk. reflexivity.
  - cbn [chain]. rewrite Hc, andb_true_r. unfold adj. change (ends_operand (IOp o)) with (is_post (IOp o)).
    replace (is_post (IOp o)) with false by (simpl; rewrite Hk; reflexivity). rewrite Hs. cbv iota. rewrite andb_true_l.
    destruct (is_update_pre (IOp o)) eqn:Eu; [|reflexivity]. specialize (Hl eq_refl). destruct f; try destruct Hl; reflexivity.
  - rewrite (last_cons_default (IOp o) (f :: tl) (IOp o) f) by discriminate. exact He.
Qed.

Lemma G_post a o : Good a -> op_kind o = KPost ->
  (match last a IOpen with IId _ | IDot _ | IClose => True | _ => False end) -> Good (a ++ [IOp o]).
Proof.
  intros (f & tl & E & Hs & Hc & He) Hk Hl. subst a. exists f, (tl ++ [IOp o]). repeat split; auto.
  - rewrite chain_app, Hc. simpl andb. cbn [chain]. rewrite andb_true_r.
    rewrite (last_indep (f :: tl) IOpen f) in Hl by discriminate.
    assert (A : adj (last (f :: tl) f) (IOp o) = true).
    { unfold adj. rewrite He, Hk. destruct (last (f :: tl) f); try destruct Hl; reflexivity. }
    destruct tl as [|x tl']; [exact A|]. rewrite <- A.
    rewrite (last_cons_default f (x :: tl') f x) by discriminate. reflexivity.
  - change ((f :: tl) ++ [IOp o]) with ((f :: tl) ++ [IOp o]). rewrite last_app_ne by discriminate. simpl. rewrite Hk. reflexivity.
Qed.

Lemma G_dot a s : Good a -> is_post (last a IOpen) = false -> Good (a ++ [IDot s]).
Proof.
  intros (f & tl & E & Hs & Hc & He) Hl. subst a. exists f, (tl ++ [IDot s]). repeat split; auto.
  - rewrite chain_app, Hc. simpl andb. cbn [chain]. rewrite andb_true_r.
    rewrite (last_indep (f :: tl) IOpen f) in Hl by discriminate.
    assert (A : adj (last (f :: tl) f) (IDot s) = true) by (unfold adj; rewrite He, Hl; reflexivity).
    destruct tl as [|x tl']; [exact A|]. rewrite <- A.
    rewrite (last_cons_default f (x :: tl') f x) by discriminate. reflexivity.
  - rewrite last_app_ne by discriminate. reflexivity.
Qed.
