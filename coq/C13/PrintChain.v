(* The items of a printed well-formed tree form a grammatical chain of well-formed
   items: render_lex applies to every printed tree. *)
From V Require Import Common.Base C13.KwSpec C13.Token C13.LexSpec C13.LexProofs C13.Toks C13.TokenProofs
  C13.ParseSpec C13.PrintParse.
From Coq Require Import String.

(* lexical side condition of render_lex: a prefix "++"/"--" is not directly followed by a
   regular expression or a number (the leftmost token of its operand is an identifier or "(") *)
Fixpoint lead (e : expr) : bool :=
  match e with
  | EId _ => true
  | EDot t _ | EIndex t _ => lead t
  | ENum _ | ERe _ _ => false
  | _ => true
  end.
Fixpoint lexok (e : expr) : Prop :=
  match e with
  | EDot t _ => lexok t
  | EUn o v => lexok v /\ (is_update_pre (IOp o) = true -> lead v = true)
  | EBin _ l r => lexok l /\ lexok r
  | ECond c y n => lexok c /\ lexok y /\ lexok n
  | EIndex t i => lexok t /\ lexok i
  | _ => True
  end.

Definition Good (l : list item) : Prop :=
  exists f tl, l = f :: tl /\ starts_operand f = true /\ chain (Some f) tl = true /\ ends_operand (last l f) = true.

Lemma last_cons_default {A} (x : A) l d d' : l <> [] -> last (x :: l) d = last l d'.
Proof.
  revert x. induction l as [|y l IH]; intros x H; [congruence|].
  destruct l as [|z l']; [reflexivity|]. change (last (x :: y :: z :: l') d) with (last (y :: z :: l') d).
  rewrite (IH y) by discriminate. symmetry. destruct l'; reflexivity.
Qed.
Lemma last_indep {A} (l : list A) d d' : l <> [] -> last l d = last l d'.
Proof. induction l as [|x l IH]; [congruence|]. intros _. destruct l; [reflexivity|]. apply IH. discriminate. Qed.
Lemma last_app_ne {A} (a b : list A) d : b <> [] -> last (a ++ b) d = last b d.
Proof.
  intro H. induction a as [|x a IH]; [reflexivity|]. simpl app.
  assert (Hne : a ++ b <> []) by (destruct a; [exact H | discriminate]).
  destruct (a ++ b) as [|y l] eqn:E; [congruence|]. exact IH.
Qed.

Lemma chain_app prev a : forall b,
  chain prev (a ++ b) = chain prev a && chain (match a with [] => prev | x :: _ => Some (last a x) end) b.
Proof.
  revert prev. induction a as [|x a IH]; intros prev b; [reflexivity|].
  simpl app. cbn [chain]. rewrite IH. rewrite andb_assoc. f_equal.
  destruct a as [|y a']; [reflexivity|]. f_equal. f_equal. change (last (x :: y :: a') x) with (last (y :: a') x). apply last_indep. discriminate.
Qed.

Lemma G_atom i : starts_operand i = true -> ends_operand i = true -> Good [i].
Proof. intros H1 H2. exists i, []. repeat split; auto. Qed.

Lemma G_paren a : Good a -> Good ([IOpen] ++ a ++ [IClose]).
Proof.
  intros (f & tl & E & Hs & Hc & He). subst a. exists IOpen, ((f :: tl) ++ [IClose]). repeat split.
  - rewrite chain_app. cbn [chain]. rewrite Hc.
    assert (A1 : adj IOpen f = true) by (unfold adj; simpl; rewrite Hs; reflexivity).
    assert (A2 : adj (last (f :: tl) f) IClose = true) by (unfold adj; rewrite He; reflexivity).
    rewrite A1, A2. reflexivity.
  - simpl app. rewrite (last_cons_default IOpen _ IOpen IOpen) by (destruct tl; discriminate).
    change (f :: tl ++ [IClose]) with ((f :: tl) ++ [IClose]). rewrite last_app_ne by discriminate. reflexivity.
Qed.

Lemma G_bin a b o : Good a -> Good b -> op_kind o = KBin -> Good (a ++ [IOp o] ++ b).
Proof.
  intros (fa & ta & Ea & Hsa & Hca & Hea) (fb & tb & Eb & Hsb & Hcb & Heb) Hk. subst a b.
  exists fa, (ta ++ [IOp o] ++ fb :: tb). repeat split; auto.
  - rewrite chain_app, Hca. simpl andb. simpl app. cbn [chain].
    assert (Hpost : is_post (IOp o) = false) by (simpl; rewrite Hk; reflexivity).
    assert (Hup : is_update_pre (IOp o) = false) by (destruct o; try discriminate; reflexivity).
    assert (A1 : forall z, ends_operand z = true -> adj z (IOp o) = true) by (intros z Hz; unfold adj; rewrite Hz, Hk; reflexivity).
    assert (A2 : adj (IOp o) fb = true).
    { unfold adj. change (ends_operand (IOp o)) with (is_post (IOp o)). rewrite Hpost, Hsb, Hup. reflexivity. }
    destruct ta as [|x ta']; cbn [chain]; rewrite A2, Hcb.
    + rewrite (A1 fa Hea). reflexivity.
    + rewrite A1; [reflexivity|]. rewrite <- Hea. rewrite (last_cons_default fa (x :: ta') fa x) by discriminate. reflexivity.
  - change ((fa :: ta) ++ [IOp o] ++ fb :: tb) with ((fa :: ta) ++ ([IOp o] ++ fb :: tb)).
    rewrite last_app_ne by discriminate. simpl app.
    rewrite (last_cons_default (IOp o) (fb :: tb) fa fb) by discriminate. exact Heb.
Qed.

(* a separator that takes an operand on both sides ("?", ":", "[") *)
Lemma G_infix a b x : Good a -> Good b ->
  ends_operand x = false -> is_update_pre x = false -> adj (last a IOpen) x = true -> Good (a ++ [x] ++ b).
Proof.
  intros (fa & ta & Ea & Hsa & Hca & Hea) (fb & tb & Eb & Hsb & Hcb & Heb) Hx Hu Hadj. subst a b.
  exists fa, (ta ++ [x] ++ fb :: tb). repeat split; auto.
  - rewrite chain_app, Hca. simpl andb. simpl app.
    rewrite (last_indep (fa :: ta) IOpen fa) in Hadj by discriminate.
    assert (A2 : adj x fb = true) by (unfold adj; rewrite Hx, Hsb, Hu; reflexivity).
    destruct ta as [|y ta']; cbn [chain]; rewrite A2, Hcb.
    + simpl in Hadj. rewrite Hadj. reflexivity.
    + rewrite (last_cons_default fa (y :: ta') fa y) in Hadj by discriminate. rewrite Hadj. reflexivity.
  - change ((fa :: ta) ++ [x] ++ fb :: tb) with ((fa :: ta) ++ ([x] ++ fb :: tb)).
    rewrite last_app_ne by discriminate. simpl app.
    rewrite (last_cons_default x (fb :: tb) fa fb) by discriminate. exact Heb.
Qed.
Lemma G_closer a x : Good a -> ends_operand x = true -> (forall z, ends_operand z = true -> adj z x = true) -> Good (a ++ [x]).
Proof.
  intros (f & tl & E & Hs & Hc & He) Hx Hadj. subst a. exists f, (tl ++ [x]). repeat split; auto.
  - rewrite chain_app, Hc. simpl andb. cbn [chain]. rewrite andb_true_r.
    destruct tl as [|y tl']; [apply Hadj; exact He|]. apply Hadj. rewrite <- He.
    rewrite (last_cons_default f (y :: tl') f y) by discriminate. reflexivity.
  - rewrite last_app_ne by discriminate. exact Hx.
Qed.
Lemma good_last_ends a : Good a -> ends_operand (last a IOpen) = true.
Proof. intros (f & tl & E & _ & _ & He). subst a. rewrite (last_indep (f :: tl) IOpen f) by discriminate. exact He. Qed.

Lemma G_pre a o : Good a -> op_kind o = KPre ->
  (is_update_pre (IOp o) = true -> match a with IId _ :: _ | IOpen :: _ => True | _ => False end) -> Good (IOp o :: a).
Proof.
  intros (f & tl & E & Hs & Hc & He) Hk Hl. subst a. exists (IOp o), (f :: tl). repeat split.
  - simpl. rewrite Hk. reflexivity.
  - cbn [chain]. rewrite Hc, andb_true_r. unfold adj. change (ends_operand (IOp o)) with (is_post (IOp o)).
    replace (is_post (IOp o)) with false by (simpl; rewrite Hk; reflexivity). rewrite Hs. cbv iota. rewrite andb_true_l.
    destruct (is_update_pre (IOp o)) eqn:Eu; [|reflexivity]. specialize (Hl eq_refl). destruct f; try destruct Hl; reflexivity.
  - rewrite (last_cons_default (IOp o) (f :: tl) (IOp o) f) by discriminate. exact He.
Qed.

Lemma G_post a o : Good a -> op_kind o = KPost ->
  (match last a IOpen with IId _ | IDot _ | IClose | IRBrack => True | _ => False end) -> Good (a ++ [IOp o]).
Proof.
  intros (f & tl & E & Hs & Hc & He) Hk Hl. subst a. exists f, (tl ++ [IOp o]). repeat split; auto.
  - rewrite chain_app, Hc. simpl andb. cbn [chain]. rewrite andb_true_r.
    rewrite (last_indep (f :: tl) IOpen f) in Hl by discriminate.
    assert (A : adj (last (f :: tl) f) (IOp o) = true).
    { unfold adj. rewrite He, Hk. destruct (last (f :: tl) f); try destruct Hl; reflexivity. }
    destruct tl as [|x tl']; [exact A|]. rewrite <- A.
    rewrite (last_cons_default f (x :: tl') f x) by discriminate. reflexivity.
  - change ((f :: tl) ++ [IOp o]) with ((f :: tl) ++ [IOp o]). rewrite last_app_ne by discriminate. simpl. rewrite Hk. reflexivity.
Qed.

Lemma G_dot a s : Good a -> is_post (last a IOpen) = false -> Good (a ++ [IDot s]).
Proof.
  intros (f & tl & E & Hs & Hc & He) Hl. subst a. exists f, (tl ++ [IDot s]). repeat split; auto.
  - rewrite chain_app, Hc. simpl andb. cbn [chain]. rewrite andb_true_r.
    rewrite (last_indep (f :: tl) IOpen f) in Hl by discriminate.
    assert (A : adj (last (f :: tl) f) (IDot s) = true) by (unfold adj; rewrite He, Hl; reflexivity).
    destruct tl as [|x tl']; [exact A|]. rewrite <- A.
    rewrite (last_cons_default f (x :: tl') f x) by discriminate. reflexivity.
  - rewrite last_app_ne by discriminate. reflexivity.
Qed.

Lemma good_nonempty l : Good l -> l <> [].
Proof. intros (f & tl & E & _). subst. discriminate. Qed.

Lemma hd_app_ne {A} (a b : list A) d : a <> [] -> hd d (a ++ b) = hd d a.
Proof. destruct a; [congruence | reflexivity]. Qed.

Definition simple_head (l : list item) : Prop := match l with IId _ :: _ | IOpen :: _ => True | _ => False end.

Lemma wrapped19c t : compound t = true -> wrapped LPostfix t = true.
Proof.
  intro Hc. unfold wrapped. rewrite Hc. simpl. rewrite Z.geb_leb. apply Z.leb_le.
  destruct t as [| | | |u w|o2 a b2|c0 y0 n0|]; try discriminate; simpl;
    [pose proof (op_level_pos u) | pose proof (op_level_pos o2)]; unfold LPostfix; lia.
Qed.

(* the last item of a member-access target is never a postfix operator *)
Lemma last19 t : is_post (last (print_items LPostfix t) IOpen) = false.
Proof.
  rewrite print_items_split. destruct (compound t) eqn:Ec.
  - rewrite (wrapped19c t Ec). rewrite app_assoc, last_app_ne by discriminate. reflexivity.
  - unfold wrapped. rewrite Ec. simpl. destruct t; try discriminate; try reflexivity; unfold body; cbn [print_items].
    + rewrite last_app_ne by discriminate. reflexivity.
    + rewrite !app_assoc, last_app_ne by discriminate. reflexivity.
Qed.

(* leftmost item of a member chain whose base leads with an identifier or "(" *)
Lemma lead_head : forall t, lead t = true -> simple_head (print_items LPostfix t).
Proof.
  induction t as [s0| | |t0 IH0 s0|u w IHw|o2 a IHa b2 IHb|c0 IHc0 y0 IHy0 n0 IHn0|t0 IH0 i0 IHi0]; intro Hl; try discriminate; try exact I.
  - cbn [print_items]. specialize (IH0 Hl).
    destruct (print_items LPostfix t0) as [|x l0]; [destruct IH0|]. destruct x; try destruct IH0; exact I.
  - rewrite print_items_split, (wrapped19c (EUn u w) eq_refl). exact I.
  - rewrite print_items_split, (wrapped19c (EBin o2 a b2) eq_refl). exact I.
  - cbn [print_items]. specialize (IH0 Hl).
    destruct (print_items LPostfix t0) as [|x l0]; [destruct IH0|]. destruct x; try destruct IH0; exact I.
Qed.

Lemma ender_adj x : (x = IClose \/ x = IRBrack \/ x = IQuest \/ x = IColon) -> forall z, ends_operand z = true -> adj z x = true.
Proof. intros Hx z Hz. unfold adj. rewrite Hz. destruct Hx as [E|[E|[E|E]]]; subst x; reflexivity. Qed.

Theorem print_items_good : forall e, wf e -> lexok e -> forall P,
  Good (print_items P e) /\ Forall item_ok (print_items P e).
Proof.
  induction e as [s|s|b f|t IHt s|o v IHv|o l IHl r IHr|c IHc y IHy n IHn|t IHt i IHi]; intros Hwf Hlx P.
  - split; [apply G_atom; reflexivity | constructor; [exact Hwf | constructor]].
  - split; [apply G_atom; reflexivity | constructor; [exact Hwf | constructor]].
  - split; [apply G_atom; reflexivity | constructor; [exact Hwf | constructor]].
  - destruct Hwf as (Hwt & Hs1 & Hs2). simpl in Hlx. destruct (IHt Hwt Hlx LPostfix) as [Gt Ft].
    cbn [print_items]. split.
    + apply G_dot; [exact Gt | apply last19].
    + apply Forall_app. split; [exact Ft | constructor; [split; assumption | constructor]].
  - destruct Hwf as (Hwv & Hku & Hupd). destruct Hlx as (Hlv & Hlead).
    assert (B : Good (body (EUn o v)) /\ Forall item_ok (body (EUn o v))).
    { rewrite body_un. destruct (op_kind o) eqn:Ek.
      - destruct (IHv Hwv Hlv (LPrefix - 1)) as [Gv Fv]. split; [|constructor; [exact I | exact Fv]].
        apply G_pre; [exact Gv | exact Ek|]. intro Hu.
        assert (Hio : is_update o = true) by (destruct o; try discriminate; reflexivity).
        specialize (Hupd Hio). specialize (Hlead Hu).
        destruct v as [s| | |t s| | | |t i]; try discriminate; [exact I| |]; cbn [print_items]; simpl in Hlead;
          pose proof (lead_head t Hlead) as H; (destruct (print_items LPostfix t) as [|x l0]; [destruct H|]); destruct x; try destruct H; exact I.
      - destruct (IHv Hwv Hlv (LPostfix - 1)) as [Gv Fv]. split; [|apply Forall_app; split; [exact Fv | constructor; [exact I | constructor]]].
        apply G_post; [exact Gv | exact Ek|].
        assert (Hio : is_update o = true) by (destruct o; try discriminate; reflexivity).
        specialize (Hupd Hio). destruct v; try discriminate; [exact I| |]; cbn [print_items].
        + rewrite last_app_ne by discriminate. exact I.
        + rewrite !app_assoc, last_app_ne by discriminate. exact I.
      - congruence. }
    destruct B as [GB FB]. rewrite print_items_split. destruct (wrapped P (EUn o v)).
    + split; [apply G_paren; exact GB|]. apply Forall_app. split; [constructor; [exact I | constructor]|]. apply Forall_app. split; [exact FB | constructor; [exact I | constructor]].
    + split; assumption.
  - destruct Hwf as (Hwl & Hwr & Hk & Hta). destruct Hlx as (Hll & Hlr).
    assert (B : Good (body (EBin o l r)) /\ Forall item_ok (body (EBin o l r))).
    { rewrite body_bin. destruct (IHl Hwl Hll (left_lvl o l)) as [Gl Fl]. destruct (IHr Hwr Hlr (right_lvl o r)) as [Gr Fr].
      split; [apply G_bin; assumption|]. apply Forall_app. split; [exact Fl|]. apply Forall_app. split; [constructor; [exact I | constructor] | exact Fr]. }
    destruct B as [GB FB]. rewrite print_items_split. destruct (wrapped P (EBin o l r)).
    + split; [apply G_paren; exact GB|]. apply Forall_app. split; [constructor; [exact I | constructor]|]. apply Forall_app. split; [exact FB | constructor; [exact I | constructor]].
    + split; assumption.
  - (* conditional *)
    destruct Hwf as (Hwc & Hwy & Hwn). destruct Hlx as (Hlc & Hly & Hln).
    assert (B : Good (body (ECond c y n)) /\ Forall item_ok (body (ECond c y n))).
    { rewrite body_cond. destruct (IHc Hwc Hlc LConditional) as [Gc Fc]. destruct (IHy Hwy Hly LYield) as [Gy Fy]. destruct (IHn Hwn Hln LYield) as [Gn Fn].
      split.
      - apply G_infix; [exact Gc | | reflexivity | reflexivity | apply ender_adj; [auto | apply good_last_ends; exact Gc]].
        apply G_infix; [exact Gy | exact Gn | reflexivity | reflexivity | apply ender_adj; [auto | apply good_last_ends; exact Gy]].
      - apply Forall_app. split; [exact Fc|]. apply Forall_app. split; [constructor; [exact I | constructor]|].
        apply Forall_app. split; [exact Fy|]. apply Forall_app. split; [constructor; [exact I | constructor] | exact Fn]. }
    destruct B as [GB FB]. rewrite print_items_split. destruct (wrapped P (ECond c y n)).
    + split; [apply G_paren; exact GB|]. apply Forall_app. split; [constructor; [exact I | constructor]|]. apply Forall_app. split; [exact FB | constructor; [exact I | constructor]].
    + split; assumption.
  - (* index access *)
    destruct Hwf as (Hwt & Hwi). destruct Hlx as (Hlt & Hli).
    destruct (IHt Hwt Hlt LPostfix) as [Gt Ft]. destruct (IHi Hwi Hli LLowest) as [Gi Fi].
    cbn [print_items]. split.
    + replace (print_items LPostfix t ++ [ILBrack] ++ print_items LLowest i ++ [IRBrack])
        with (print_items LPostfix t ++ [ILBrack] ++ (print_items LLowest i ++ [IRBrack])) by reflexivity.
      apply G_infix; [exact Gt | | reflexivity | reflexivity |].
      * apply G_closer; [exact Gi | reflexivity | apply ender_adj; auto].
      * unfold adj. rewrite (good_last_ends _ Gt), last19. reflexivity.
    + apply Forall_app. split; [exact Ft|]. apply Forall_app. split; [constructor; [exact I | constructor]|].
      apply Forall_app. split; [exact Fi | constructor; [exact I | constructor]].
Qed.

Lemma good_chain l : Good l -> chain None l = true.
Proof. intros (f & tl & E & Hs & Hc & _). subst. cbn [chain]. rewrite Hs, Hc. reflexivity. Qed.
