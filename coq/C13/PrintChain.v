(* The items of a printed well-formed tree form a grammatical chain of well-formed
   items: render_lex applies to every printed tree. *)
From V Require Import Common.Base C13.KwSpec C13.Token C13.LexSpec C13.LexProofs C13.Toks C13.TokenProofs
  C13.ParseSpec C13.PrintParse.
From Coq Require Import String.

(* lexical side condition of render_lex: a prefix "++"/"--" is not directly followed by a
   regular expression (the specification lexer chooses the division goal after "++"/"--") *)
Fixpoint lead (e : expr) : bool :=
  match e with
  | EId _ => true
  | EDot t _ | EIndex t _ | ECall t _ => lead t
  | ERe _ _ | ANil | ACons _ _ => false
  | _ => true
  end.
Fixpoint lexok (e : expr) : Prop :=
  match e with
  | EDot t _ => lexok t
  | EUn o v => lexok v /\ (is_update_pre (IOp o) = true -> lead v = true)
  | EBin _ l r => lexok l /\ lexok r
  | ECond c y n => lexok c /\ lexok y /\ lexok n
  | EIndex t i | ECall t i | ENew t i | ACons t i => lexok t /\ lexok i
  | _ => True
  end.

Section WithMode.
Variable mw : bool.
Local Notation print_items := (Token.print_items mw).
Local Notation body := (PrintParse.body mw).

Definition Good (l : list item) : Prop :=
  exists f tl, l = f :: tl /\ starts_operand f = true /\ chain (Some f) tl = true /\ ends_operand (last l f) = true.

Lemma last_cons_default {A} (x : A) l d d' : l <> [] -> last (x :: l) d = last l d'.
Proof.
  revert x. induction l as [|y l IH]; intros x H; [congruence|].
  destruct l as [|z l']; [reflexivity|]. change (last (x :: y :: z :: l') d) with (last (y :: z :: l') d).
  rewrite (IH y) by discriminate. symmetry. destruct l'; reflexivity.
Qed.
Lemma last_indep {A} (l : list A) d d' : l <> [] -> last l d = last l d'.
Proof. induction l as [|x l IH]; [congruence|]. intros _. destruct l; [reflexivity|]. apply IH. discriminate. Qed.
Lemma last_app_ne {A} (a b : list A) d : b <> [] -> last (a ++ b) d = last b d.
Proof.
  intro H. induction a as [|x a IH]; [reflexivity|]. simpl app.
  assert (Hne : a ++ b <> []) by (destruct a; [exact H | discriminate]).
  destruct (a ++ b) as [|y l] eqn:E; [congruence|]. exact IH.
Qed.

Lemma chain_app prev a : forall b,
  chain prev (a ++ b) = chain prev a && chain (match a with [] => prev | x :: _ => Some (last a x) end) b.
Proof.
  revert prev. induction a as [|x a IH]; intros prev b; [reflexivity|].
  simpl app. cbn [chain]. rewrite IH. rewrite andb_assoc. f_equal.
  destruct a as [|y a']; [reflexivity|]. f_equal. f_equal. change (last (x :: y :: a') x) with (last (y :: a') x). apply last_indep. discriminate.
Qed.

Lemma G_atom i : starts_operand i = true -> ends_operand i = true -> Good [i].
Proof. intros H1 H2. exists i, []. repeat split; auto. Qed.

Lemma G_paren a : Good a -> Good ([IOpen] ++ a ++ [IClose]).
Proof.
  intros (f & tl & E & Hs & Hc & He). subst a. exists IOpen, ((f :: tl) ++ [IClose]). repeat split.
  - rewrite chain_app. cbn [chain]. rewrite Hc.
    assert (A1 : adj IOpen f = true) by (unfold adj; simpl; rewrite Hs; reflexivity).
    assert (A2 : adj (last (f :: tl) f) IClose = true) by (unfold adj; rewrite He; reflexivity).
    rewrite A1, A2. reflexivity.
  - simpl app. rewrite (last_cons_default IOpen _ IOpen IOpen) by (destruct tl; discriminate).
    change (f :: tl ++ [IClose]) with ((f :: tl) ++ [IClose]). rewrite last_app_ne by discriminate. reflexivity.
Qed.

Lemma G_bin a b o : Good a -> Good b -> op_kind o = KBin -> Good (a ++ [IOp o] ++ b).
Proof.
  intros (fa & ta & Ea & Hsa & Hca & Hea) (fb & tb & Eb & Hsb & Hcb & Heb) Hk. subst a b.
  exists fa, (ta ++ [IOp o] ++ fb :: tb). repeat split; auto.
  - rewrite chain_app, Hca. simpl andb. simpl app. cbn [chain].
    assert (Hpost : is_post (IOp o) = false) by (simpl; rewrite Hk; reflexivity).
    assert (Hup : is_update_pre (IOp o) = false) by (destruct o; try discriminate; reflexivity).
    assert (A1 : forall z, ends_operand z = true -> adj z (IOp o) = true) by (intros z Hz; unfold adj; rewrite Hz, Hk; reflexivity).
    assert (A2 : adj (IOp o) fb = true).
    { unfold adj. change (ends_operand (IOp o)) with (is_post (IOp o)). rewrite Hpost, Hsb, Hup. reflexivity. }
    destruct ta as [|x ta']; cbn [chain]; rewrite A2, Hcb.
    + rewrite (A1 fa Hea). reflexivity.
    + rewrite A1; [reflexivity|]. rewrite <- Hea. rewrite (last_cons_default fa (x :: ta') fa x) by discriminate. reflexivity.
  - change ((fa :: ta) ++ [IOp o] ++ fb :: tb) with ((fa :: ta) ++ ([IOp o] ++ fb :: tb)).
    rewrite last_app_ne by discriminate. simpl app.
    rewrite (last_cons_default (IOp o) (fb :: tb) fa fb) by discriminate. exact Heb.
Qed.

(* a separator that takes an operand on both sides ("?", ":", "[") *)
Lemma G_infix a b x : Good a -> Good b ->
  ends_operand x = false -> is_update_pre x = false -> adj (last a IOpen) x = true -> Good (a ++ [x] ++ b).
Proof.
  intros (fa & ta & Ea & Hsa & Hca & Hea) (fb & tb & Eb & Hsb & Hcb & Heb) Hx Hu Hadj. subst a b.
  exists fa, (ta ++ [x] ++ fb :: tb). repeat split; auto.
  - rewrite chain_app, Hca. simpl andb. simpl app.
    rewrite (last_indep (fa :: ta) IOpen fa) in Hadj by discriminate.
    assert (A2 : adj x fb = true) by (unfold adj; rewrite Hx, Hsb, Hu; reflexivity).
    destruct ta as [|y ta']; cbn [chain]; rewrite A2, Hcb.
    + simpl in Hadj. rewrite Hadj. reflexivity.
    + rewrite (last_cons_default fa (y :: ta') fa y) in Hadj by discriminate. rewrite Hadj. reflexivity.
  - change ((fa :: ta) ++ [x] ++ fb :: tb) with ((fa :: ta) ++ ([x] ++ fb :: tb)).
    rewrite last_app_ne by discriminate. simpl app.
    rewrite (last_cons_default x (fb :: tb) fa fb) by discriminate. exact Heb.
Qed.
Lemma G_closer a x : Good a -> ends_operand x = true -> (forall z, ends_operand z = true -> adj z x = true) -> Good (a ++ [x]).
Proof.
  intros (f & tl & E & Hs & Hc & He) Hx Hadj. subst a. exists f, (tl ++ [x]). repeat split; auto.
  - rewrite chain_app, Hc. simpl andb. cbn [chain]. rewrite andb_true_r.
    destruct tl as [|y tl']; [apply Hadj; exact He|]. apply Hadj. rewrite <- He.
    rewrite (last_cons_default f (y :: tl') f y) by discriminate. reflexivity.
  - rewrite last_app_ne by discriminate. exact Hx.
Qed.
Lemma good_last_ends a : Good a -> ends_operand (last a IOpen) = true.
Proof. intros (f & tl & E & _ & _ & He). subst a. rewrite (last_indep (f :: tl) IOpen f) by discriminate. exact He. Qed.

Lemma G_pre a o : Good a -> op_kind o = KPre ->
  (is_update_pre (IOp o) = true -> match a with IId _ :: _ | IOpen :: _ | INum _ :: _ | INew :: _ => True | _ => False end) -> Good (IOp o :: a).
Proof.
  intros (f & tl & E & Hs & Hc & He) Hk Hl. subst a. exists (IOp o), (f :: tl). repeat split.
  - simpl. rewrite Hk. reflexivity.
  - cbn [chain]. rewrite Hc, andb_true_r. unfold adj. change (ends_operand (IOp o)) with (is_post (IOp o)).
    replace (is_post (IOp o)) with false by (simpl; rewrite Hk; reflexivity). rewrite Hs. cbv iota. rewrite andb_true_l.
    destruct (is_update_pre (IOp o)) eqn:Eu; [|reflexivity]. specialize (Hl eq_refl). destruct f; try destruct Hl; reflexivity.
  - rewrite (last_cons_default (IOp o) (f :: tl) (IOp o) f) by discriminate. exact He.
Qed.

Lemma G_post a o : Good a -> op_kind o = KPost ->
  (match last a IOpen with IId _ | IDot _ | IClose | IRBrack => True | _ => False end) -> Good (a ++ [IOp o]).
Proof.
  intros (f & tl & E & Hs & Hc & He) Hk Hl. subst a. exists f, (tl ++ [IOp o]). repeat split; auto.
  - rewrite chain_app, Hc. simpl andb. cbn [chain]. rewrite andb_true_r.
    rewrite (last_indep (f :: tl) IOpen f) in Hl by discriminate.
    assert (A : adj (last (f :: tl) f) (IOp o) = true).
    { unfold adj. rewrite He, Hk. destruct (last (f :: tl) f); try destruct Hl; reflexivity. }
    destruct tl as [|x tl']; [exact A|]. rewrite <- A.
    rewrite (last_cons_default f (x :: tl') f x) by discriminate. reflexivity.
  - change ((f :: tl) ++ [IOp o]) with ((f :: tl) ++ [IOp o]). rewrite last_app_ne by discriminate. simpl. rewrite Hk. reflexivity.
Qed.

Lemma G_dot a s : Good a -> is_post (last a IOpen) = false -> Good (a ++ [IDot s]).
Proof.
  intros (f & tl & E & Hs & Hc & He) Hl. subst a. exists f, (tl ++ [IDot s]). repeat split; auto.
  - rewrite chain_app, Hc. simpl andb. cbn [chain]. rewrite andb_true_r.
    rewrite (last_indep (f :: tl) IOpen f) in Hl by discriminate.
    assert (A : adj (last (f :: tl) f) (IDot s) = true) by (unfold adj; rewrite He, Hl; reflexivity).
    destruct tl as [|x tl']; [exact A|]. rewrite <- A.
    rewrite (last_cons_default f (x :: tl') f x) by discriminate. reflexivity.
  - rewrite last_app_ne by discriminate. reflexivity.
Qed.

Lemma good_nonempty l : Good l -> l <> [].
Proof. intros (f & tl & E & _). subst. discriminate. Qed.

Lemma hd_app_ne {A} (a b : list A) d : a <> [] -> hd d (a ++ b) = hd d a.
Proof. destruct a; [congruence | reflexivity]. Qed.

Definition simple_head (l : list item) : Prop := match l with IId _ :: _ | IOpen :: _ | INum _ :: _ | INew :: _ => True | _ => False end.

(* a prefix item that is not an operator of the table: the keyword "new" *)
Lemma G_new a : Good a -> Good (INew :: a).
Proof.
  intros (f & tl & E & Hs & Hc & He). subst a. exists INew, (f :: tl). repeat split.
  - cbn [chain]. rewrite Hc, andb_true_r. unfold adj. simpl. rewrite Hs. reflexivity.
  - rewrite (last_cons_default INew (f :: tl) INew f) by discriminate. exact He.
Qed.
(* an empty argument list "()" after a callee *)
Lemma G_call0 a : Good a -> is_post (last a IOpen) = false -> Good (a ++ [ICallOpen; IClose]).
Proof.
  intros (f & tl & E & Hs & Hc & He) Hl. subst a. exists f, (tl ++ [ICallOpen; IClose]). repeat split; auto.
  - rewrite chain_app, Hc. simpl andb. cbn [chain].
    rewrite (last_indep (f :: tl) IOpen f) in Hl by discriminate.
    assert (A : adj (last (f :: tl) f) ICallOpen = true) by (unfold adj; rewrite He, Hl; reflexivity).
    assert (A2 : adj ICallOpen IClose = true) by reflexivity.
    rewrite andb_true_r. destruct tl as [|x tl']; [exact A|].
    rewrite <- A. rewrite (last_cons_default f (x :: tl') f x) by discriminate. reflexivity.
  - rewrite last_app_ne by discriminate. reflexivity.
Qed.

Lemma lastT fp ss T t : T = LPostfix \/ T = LNew -> wf t -> is_post (last (print_items fp ss T t) IOpen) = false.
Proof.
  intros HT Hw. assert (HT19 : 19 <= T) by (destruct HT; subst T; unfold LPostfix, LNew; lia).
  rewrite print_items_split. destruct (wrapped fp T t) eqn:W.
  - rewrite app_assoc, last_app_ne by discriminate. reflexivity.
  - assert (W' : compound t = true -> T < lvl t) by (intro Hc; apply (unwrapped_level fp T t Hc W)).
    destruct t as [| | |t0 s0|u w|o2 a b2|c0 y0 n0|t0 i0|f0 a0|f0 a0| |]; try reflexivity; try (destruct Hw; fail); simpl in W'.
    + unfold PrintParse.body. cbn [Token.print_items]. rewrite last_app_ne by discriminate. reflexivity.
    + specialize (W' eq_refl). pose proof (op_level_pos u). lia.
    + specialize (W' eq_refl). pose proof (op_level_pos o2). lia.
    + specialize (W' eq_refl). unfold LConditional in W'. lia.
    + unfold PrintParse.body. cbn [Token.print_items]. rewrite !app_assoc, last_app_ne by discriminate. reflexivity.
    + rewrite body_call. rewrite !app_assoc, last_app_ne by discriminate. reflexivity.
    + unfold PrintParse.body, new_parens.
      replace (T >=? LPostfix) with true by (symmetry; rewrite Z.geb_leb; apply Z.leb_le; unfold LPostfix; lia).
      rewrite orb_true_r. rewrite !app_assoc, last_app_ne by discriminate. reflexivity.
Qed.

(* leftmost item of a member/call chain whose base leads with an identifier or "(" *)
Lemma lead_head : forall t T, T = LPostfix \/ T = LNew -> lead t = true -> simple_head (print_items false false T t).
Proof.
  induction t as [s0| | |t0 IH0 s0|u w IHw|o2 a IHa b2 IHb|c0 IHc0 y0 IHy0 n0 IHn0|t0 IH0 i0 IHi0|f0 IHf0 a0 IHa0|f0 IHf0 a0 IHa0| |x0 IHx0 r0 IHr0];
    intros T HT Hl; try discriminate; try exact I.
  - cbn [Token.print_items]. assert (HT' : tgt_level T = LPostfix \/ tgt_level T = LNew) by (unfold tgt_level; destruct (T =? LNew); auto).
    specialize (IH0 _ HT' Hl).
    destruct (print_items false false (tgt_level T) t0) as [|x l0]; [destruct IH0|]. destruct x; try destruct IH0; exact I.
  - rewrite print_items_split. replace (wrapped false T (EUn u w)) with true; [exact I|].
    symmetry. apply wrapped_level; [reflexivity|]. simpl. rewrite Z.geb_leb. apply Z.leb_le. pose proof (op_level_pos u). destruct HT; subst T; unfold LPostfix, LNew; lia.
  - rewrite print_items_split. replace (wrapped false T (EBin o2 a b2)) with true; [exact I|].
    symmetry. apply wrapped_level; [reflexivity|]. simpl. rewrite Z.geb_leb. apply Z.leb_le. pose proof (op_level_pos o2). destruct HT; subst T; unfold LPostfix, LNew; lia.
  - destruct HT; subst T; exact I.
  - cbn [Token.print_items]. assert (HT' : tgt_level T = LPostfix \/ tgt_level T = LNew) by (unfold tgt_level; destruct (T =? LNew); auto).
    specialize (IH0 _ HT' Hl).
    destruct (print_items false false (tgt_level T) t0) as [|x l0]; [destruct IH0|]. destruct x; try destruct IH0; exact I.
  - rewrite print_items_split. destruct (wrapped false T (ECall f0 a0)); [exact I|]. rewrite body_call.
    simpl in Hl. specialize (IHf0 LPostfix (or_introl eq_refl) Hl).
    destruct (print_items false false LPostfix f0) as [|x l0]; [destruct IHf0|]. destruct x; try destruct IHf0; exact I.
  - rewrite print_items_split. destruct (wrapped false T (ENew f0 a0)); exact I.
Qed.

Lemma ender_adj x : (x = IClose \/ x = IRBrack \/ x = IQuest \/ x = IColon) -> forall z, ends_operand z = true -> adj z x = true.
Proof. intros Hx z Hz. unfold adj. rewrite Hz. destruct Hx as [E|[E|[E|E]]]; subst x; reflexivity. Qed.

Lemma tgt_level_TT P : tgt_level P = LPostfix \/ tgt_level P = LNew.
Proof. unfold tgt_level. destruct (P =? LNew); auto. Qed.

Definition GoodE (e : expr) : Prop := forall fp ss P, Good (print_items fp ss P e) /\ Forall item_ok (print_items fp ss P e).
Definition GoodA (a : expr) : Prop :=
  (a = ANil \/ Good (print_items false false LComma a)) /\ Forall item_ok (print_items false false LComma a).

Lemma paren_good fp ss P e : (forall fb sb, Good (body fb sb P e) /\ Forall item_ok (body fb sb P e)) ->
  Good (print_items fp ss P e) /\ Forall item_ok (print_items fp ss P e).
Proof.
  intros HB. rewrite print_items_split. destruct (wrapped fp P e).
  - destruct (HB false false) as [GB FB]. split; [apply G_paren; exact GB|]. apply Forall_app. split; [constructor; [exact I | constructor]|].
    apply Forall_app. split; [exact FB | constructor; [exact I | constructor]].
  - apply HB.
Qed.

Theorem print_items_good_both : forall e, (wf e -> lexok e -> GoodE e) /\ (wfa e -> lexok e -> GoodA e).
Proof.
  induction e as [s|s|b f|t IHt s|o v IHv|o l IHl r IHr|c IHc y IHy n IHn|t IHt i IHi|f IHf a IHa|f IHf a IHa| |x IHx r IHr];
    (split; [intros Hwf Hlx; try (destruct Hwf; fail) | intros Hwa Hlx; try (destruct Hwa; fail)]).
  - intros fp ss P. split; [apply G_atom; reflexivity | constructor; [exact Hwf | constructor]].
  - intros fp ss P. split; [apply G_atom; reflexivity | constructor; [exact Hwf | constructor]].
  - intros fp ss P. split; [apply G_atom; reflexivity | constructor; [exact Hwf | constructor]].
  - intros fp ss P. destruct Hwf as (Hwt & Hs1 & Hs2). simpl in Hlx. destruct (proj1 IHt Hwt Hlx false ss (tgt_level P)) as [Gt Ft].
    cbn [Token.print_items]. split.
    + apply G_dot; [exact Gt | apply lastT; [apply tgt_level_TT | exact Hwt]].
    + apply Forall_app. split; [exact Ft | constructor; [split; assumption | constructor]].
  - intros fp ss P. apply paren_good. intros fb sb. destruct Hwf as (Hwv & Hku & Hupd). destruct Hlx as (Hlv & Hlead).
    rewrite body_un. destruct (op_kind o) eqn:Ek.
    + destruct (proj1 IHv Hwv Hlv (op_eqb o UYield && fb) false (op_level o - 1)) as [Gv Fv]. split; [|constructor; [exact I | exact Fv]].
      apply G_pre; [exact Gv | exact Ek|]. intro Hu.
      assert (Hio : is_update o = true) by (destruct o; try discriminate; reflexivity).
      specialize (Hupd Hio). specialize (Hlead Hu).
      assert (Ho : o = UPreDec \/ o = UPreInc) by (destruct o; try discriminate; auto).
      assert (Eo : print_items (op_eqb o UYield && fb) false (op_level o - 1) v = print_items false false (LPrefix - 1) v)
        by (destruct Ho; subst o; reflexivity).
      rewrite Eo. clear Eo Gv Fv Ho.
      destruct v as [s| | |t s| | | |t i| | | |]; try discriminate; [exact I| |]; cbn [Token.print_items]; simpl in Hlead;
        pose proof (lead_head t (tgt_level (LPrefix - 1)) (tgt_level_TT _) Hlead) as H;
        (destruct (print_items false false (tgt_level (LPrefix - 1)) t) as [|x l0]; [destruct H|]); destruct x; try destruct H; exact I.
    + destruct (proj1 IHv Hwv Hlv false sb (LPostfix - 1)) as [Gv Fv]. split; [|apply Forall_app; split; [exact Fv | constructor; [exact I | constructor]]].
      apply G_post; [exact Gv | exact Ek|].
      assert (Hio : is_update o = true) by (destruct o; try discriminate; reflexivity).
      specialize (Hupd Hio). destruct v; try discriminate; [exact I| |]; cbn [Token.print_items].
      * rewrite last_app_ne by discriminate. exact I.
      * rewrite !app_assoc, last_app_ne by discriminate. exact I.
    + congruence.
  - intros fp ss P. apply paren_good. intros fb sb. destruct Hwf as (Hwl & Hwr & Hk & Hta). destruct Hlx as (Hll & Hlr).
    rewrite body_bin. destruct (proj1 IHl Hwl Hll fb sb (left_lvl o l)) as [Gl Fl]. destruct (proj1 IHr Hwr Hlr fb false (right_lvl o r)) as [Gr Fr].
    split; [apply G_bin; assumption|]. apply Forall_app. split; [exact Fl|]. apply Forall_app. split; [constructor; [exact I | constructor] | exact Fr].
  - (* conditional *)
    intros fp ss P. apply paren_good. intros fb sb. destruct Hwf as (Hwc & Hwy & Hwn). destruct Hlx as (Hlc & Hly & Hln).
    rewrite body_cond. destruct (proj1 IHc Hwc Hlc fb sb LConditional) as [Gc Fc]. destruct (proj1 IHy Hwy Hly false false LYield) as [Gy Fy]. destruct (proj1 IHn Hwn Hln fb false LYield) as [Gn Fn].
    split.
    + apply G_infix; [exact Gc | | reflexivity | reflexivity | apply ender_adj; [auto | apply good_last_ends; exact Gc]].
      apply G_infix; [exact Gy | exact Gn | reflexivity | reflexivity | apply ender_adj; [auto | apply good_last_ends; exact Gy]].
    + apply Forall_app. split; [exact Fc|]. apply Forall_app. split; [constructor; [exact I | constructor]|].
      apply Forall_app. split; [exact Fy|]. apply Forall_app. split; [constructor; [exact I | constructor] | exact Fn].
  - (* index access *)
    intros fp ss P. destruct Hwf as (Hwt & Hwi). destruct Hlx as (Hlt & Hli).
    destruct (proj1 IHt Hwt Hlt false ss (tgt_level P)) as [Gt Ft]. destruct (proj1 IHi Hwi Hli false false LLowest) as [Gi Fi].
    cbn [Token.print_items].
    assert (GP : Good (paren (ss && is_let t) (print_items false ss (tgt_level P) t))
                 /\ Forall item_ok (paren (ss && is_let t) (print_items false ss (tgt_level P) t))
                 /\ is_post (last (paren (ss && is_let t) (print_items false ss (tgt_level P) t)) IOpen) = false).
    { unfold paren. destruct (ss && is_let t).
      - split; [apply G_paren; exact Gt|]. split.
        + apply Forall_app. split; [constructor; [exact I | constructor]|]. apply Forall_app. split; [exact Ft | constructor; [exact I | constructor]].
        + rewrite app_assoc, last_app_ne by discriminate. reflexivity.
      - split; [exact Gt|]. split; [exact Ft|]. apply lastT; [apply tgt_level_TT | exact Hwt]. }
    destruct GP as (GP & FP & LP). set (tp := paren (ss && is_let t) (print_items false ss (tgt_level P) t)) in *. split.
    + replace (tp ++ [ILBrack] ++ print_items false false LLowest i ++ [IRBrack])
        with (tp ++ [ILBrack] ++ (print_items false false LLowest i ++ [IRBrack])) by reflexivity.
      apply G_infix; [exact GP | | reflexivity | reflexivity |].
      * apply G_closer; [exact Gi | reflexivity | apply ender_adj; auto].
      * unfold adj. rewrite (good_last_ends _ GP), LP. reflexivity.
    + apply Forall_app. split; [exact FP|]. apply Forall_app. split; [constructor; [exact I | constructor]|].
      apply Forall_app. split; [exact Fi | constructor; [exact I | constructor]].
  - (* call *)
    intros fp ss P. apply paren_good. intros fb sb. destruct Hwf as (Hwf' & Hwa). destruct Hlx as (Hlf & Hla).
    rewrite body_call. destruct (proj1 IHf Hwf' Hlf false sb LPostfix) as [Gf Ff]. destruct (proj2 IHa Hwa Hla) as [Ga Fa].
    assert (Hlast : is_post (last (print_items false sb LPostfix f) IOpen) = false) by (apply lastT; [left; reflexivity | exact Hwf']).
    split.
    + destruct Ga as [Ea|Ga].
      * subst a. simpl. apply G_call0; assumption.
      * apply G_infix; [exact Gf | | reflexivity | reflexivity |].
        -- apply G_closer; [exact Ga | reflexivity | apply ender_adj; auto].
        -- unfold adj. rewrite (good_last_ends _ Gf), Hlast. reflexivity.
    + apply Forall_app. split; [exact Ff|]. apply Forall_app. split; [constructor; [exact I | constructor]|].
      apply Forall_app. split; [exact Fa | constructor; [exact I | constructor]].
  - (* new *)
    intros fp ss P. apply paren_good. intros fb sb. destruct Hwf as (Hwf' & Hwa). destruct Hlx as (Hlf & Hla).
    unfold PrintParse.body. destruct (proj1 IHf Hwf' Hlf false false LNew) as [Gf Ff]. destruct (proj2 IHa Hwa Hla) as [Ga Fa].
    assert (Hlast : is_post (last (print_items false false LNew f) IOpen) = false) by (apply lastT; [right; reflexivity | exact Hwf']).
    assert (GN : Good (INew :: print_items false false LNew f)) by (apply G_new; exact Gf).
    assert (HlastN : last (INew :: print_items false false LNew f) IOpen = last (print_items false false LNew f) IOpen).
    { apply last_cons_default. apply good_nonempty. exact Gf. }
    destruct (new_parens mw P a).
    + split.
      * change ([INew] ++ print_items false false LNew f ++ [ICallOpen] ++ print_items false false LComma a ++ [IClose])
          with ((INew :: print_items false false LNew f) ++ [ICallOpen] ++ (print_items false false LComma a ++ [IClose])).
        destruct Ga as [Ea|Ga].
        -- subst a. apply (G_call0 (INew :: print_items false false LNew f)); [exact GN | rewrite HlastN; exact Hlast].
        -- apply G_infix; [exact GN | | reflexivity | reflexivity |].
           ++ apply G_closer; [exact Ga | reflexivity | apply ender_adj; auto].
           ++ unfold adj. rewrite (good_last_ends _ GN), HlastN, Hlast. reflexivity.
      * constructor; [exact I|]. apply Forall_app. split; [exact Ff|]. constructor; [exact I|].
        apply Forall_app. split; [exact Fa | constructor; [exact I | constructor]].
    + rewrite app_nil_r. split; [exact GN | constructor; [exact I | exact Ff]].
  - (* no arguments *)
    split; [left; reflexivity | constructor].
  - (* argument list *)
    destruct Hwa as (Hwx & Hwr). destruct Hlx as (Hlx1 & Hlr).
    destruct (proj1 IHx Hwx Hlx1 false false LComma) as [Gx Fx]. destruct (proj2 IHr Hwr Hlr) as [Gr Fr].
    unfold GoodA in *.
    destruct r as [| | | | | | | | | | |x2 r2]; try (destruct Hwr; fail);
      change (print_items false false LComma (ACons x ?r)) with (print_items false false LComma x ++ match r with ACons _ _ => [IOp BComma] ++ print_items false false LComma r | _ => [] end);
      cbv iota.
    + rewrite app_nil_r. split; [right; exact Gx | exact Fx].
    + destruct Gr as [Er|Gr]; [discriminate|]. split.
      * right. apply G_bin; [exact Gx | exact Gr | reflexivity].
      * apply Forall_app. split; [exact Fx|]. constructor; [exact I | exact Fr].
Qed.

Theorem print_items_good : forall e, wf e -> lexok e -> forall fp ss P,
  Good (print_items fp ss P e) /\ Forall item_ok (print_items fp ss P e).
Proof. intros e Hw Hl. apply (proj1 (print_items_good_both e) Hw Hl). Qed.

Lemma good_chain l : Good l -> chain None l = true.
Proof. intros (f & tl & E & Hs & Hc & _). subst. cbn [chain]. rewrite Hs, Hc. reflexivity. Qed.

End WithMode.
