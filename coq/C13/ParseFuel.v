(* Fuel sufficiency: the nesting depth of a successful parse is at most the number of tokens
   plus one, so the concrete fuel used by [parse] is enough whenever any fuel is. *)
From V Require Import Common.Base C13.KwSpec C13.Token C13.LexSpec C13.Toks C13.ParseSpec C13.ParseMono.

Definition pe_short (pe : PE) : Prop := forall L ts e r, pe L ts = Some (e, r) -> (List.length r < List.length ts)%nat.
Definition ps_short (ps : PS) : Prop := forall L left ll ts e r, ps L left ll ts = Some (e, r) -> (List.length r <= List.length ts)%nat.

Lemma expr_step_short pe ps : pe_short pe -> ps_short ps -> pe_short (expr_step pe ps).
Proof.
  intros He Hs L ts e r H. unfold expr_step in H. destruct ts as [|t r0]; [discriminate|]. simpl.
  destruct (prefix_op t).
  - destruct (pe S_Unary r0) as [[v r']|] eqn:E; [|discriminate]. apply He in E.
    destruct (negb (is_update o) || is_target v); [|discriminate]. apply Hs in H. lia.
  - destruct (atom_of t); [apply Hs in H; lia|].
    destruct (is_open t); [|discriminate].
    destruct (pe 0 r0) as [[e0 [|c r'']]|] eqn:E; try discriminate. apply He in E. simpl in E.
    destruct (is_close c); [|discriminate]. apply Hs in H. lia.
Qed.

Lemma suffix_step_short pe ps : pe_short pe -> ps_short ps -> ps_short (suffix_step pe ps).
Proof.
  intros He Hs L left ll ts e r H. unfold suffix_step in H. destruct ts as [|t r0]; [inversion H; subst; simpl; lia|].
  destruct (is_dot t).
  - destruct r0 as [|[s| | |] r']; try discriminate.
    destruct (S_Member <=? ll); [|discriminate]. apply Hs in H. simpl. lia.
  - destruct (is_lbrack t).
    { destruct (S_Member <=? ll); [|discriminate].
      destruct (pe 0 r0) as [[i [|c r']]|] eqn:E; try discriminate. apply He in E. simpl in E.
      destruct (is_rbrack c); [|discriminate]. apply Hs in H. simpl. lia. }
    destruct (is_quest t).
    { destruct (S_Cond <=? L); [inversion H; subst; lia|]. destruct (S_Cond <? ll); [|discriminate].
      destruct (pe 3 r0) as [[y [|c r']]|] eqn:E; try discriminate. apply He in E. simpl in E.
      destruct (is_colon c); [|discriminate].
      destruct (pe 3 r') as [[no r'']|] eqn:E2; [|discriminate]. apply He in E2. apply Hs in H. simpl. lia. }
    destruct (postfix_op t).
    + destruct (S_Update <=? L); [inversion H; subst; lia|].
      destruct ((S_Member <=? ll) && is_target left); [|discriminate]. apply Hs in H. simpl. lia.
    + destruct (binary_op t); [|inversion H; subst; lia].
      destruct (spec_level o <=? L); [inversion H; subst; lia|].
      destruct (left_ok o ll left); [|discriminate].
      destruct (pe (right_level o) r0) as [[rt r']|] eqn:E; [|discriminate]. apply He in E.
      apply Hs in H. simpl. lia.
Qed.

Lemma parse_short n : pe_short (parse_expr n) /\ ps_short (parse_suffix n).
Proof.
  induction n as [|n [IHe IHs]].
  - split; [intros L ts e r H | intros L left ll ts e r H]; discriminate.
  - split.
    + intros L ts e r H. rewrite parse_expr_S in H. eapply expr_step_short; eauto.
    + intros L left ll ts e r H. rewrite parse_suffix_S in H. eapply suffix_step_short; eauto.
Qed.

(* transfer of a successful step to other sub-parsers that agree on strictly shorter inputs *)
Lemma expr_step_transfer pe pe' ps ps' L ts res :
  pe_short pe ->
  (forall L' ts' r, (List.length ts' < List.length ts)%nat -> pe L' ts' = Some r -> pe' L' ts' = Some r) ->
  (forall L' l' ll' ts' r, (List.length ts' < List.length ts)%nat -> ps L' l' ll' ts' = Some r -> ps' L' l' ll' ts' = Some r) ->
  expr_step pe ps L ts = Some res -> expr_step pe' ps' L ts = Some res.
Proof.
  intros Hsh He Hs H. unfold expr_step in *. destruct ts as [|t r0]; [discriminate|]. simpl in He, Hs.
  destruct (prefix_op t).
  - destruct (pe S_Unary r0) as [[v r']|] eqn:E; [|discriminate]. pose proof (Hsh _ _ _ _ E) as Hl.
    rewrite (He _ _ _ (Nat.lt_succ_diag_r _) E).
    destruct (negb (is_update o) || is_target v); [|discriminate]. apply Hs; [lia | exact H].
  - destruct (atom_of t); [apply Hs; [lia | exact H]|].
    destruct (is_open t); [|discriminate].
    destruct (pe 0 r0) as [[e [|c r'']]|] eqn:E; try discriminate. pose proof (Hsh _ _ _ _ E) as Hl. simpl in Hl.
    rewrite (He _ _ _ (Nat.lt_succ_diag_r _) E).
    destruct (is_close c); [|discriminate]. apply Hs; [lia | exact H].
Qed.

Lemma suffix_step_transfer pe pe' ps ps' L left ll ts res :
  pe_short pe ->
  (forall L' ts' r, (List.length ts' < List.length ts)%nat -> pe L' ts' = Some r -> pe' L' ts' = Some r) ->
  (forall L' l' ll' ts' r, (List.length ts' < List.length ts)%nat -> ps L' l' ll' ts' = Some r -> ps' L' l' ll' ts' = Some r) ->
  suffix_step pe ps L left ll ts = Some res -> suffix_step pe' ps' L left ll ts = Some res.
Proof.
  intros Hsh He Hs H. unfold suffix_step in *. destruct ts as [|t r0]; [exact H|]. simpl in He, Hs.
  destruct (is_dot t).
  - destruct r0 as [|[s| | |] r']; try discriminate.
    destruct (S_Member <=? ll); [|discriminate]. apply Hs; [simpl; lia | exact H].
  - destruct (is_lbrack t).
    { destruct (S_Member <=? ll); [|discriminate].
      destruct (pe 0 r0) as [[i [|c r']]|] eqn:E; try discriminate. pose proof (Hsh _ _ _ _ E) as Hl. simpl in Hl.
      rewrite (He _ _ _ (Nat.lt_succ_diag_r _) E).
      destruct (is_rbrack c); [|discriminate]. apply Hs; [lia | exact H]. }
    destruct (is_quest t).
    { destruct (S_Cond <=? L); [exact H|]. destruct (S_Cond <? ll); [|discriminate].
      destruct (pe 3 r0) as [[y [|c r']]|] eqn:E; try discriminate. pose proof (Hsh _ _ _ _ E) as Hl. simpl in Hl.
      rewrite (He _ _ _ (Nat.lt_succ_diag_r _) E).
      destruct (is_colon c); [|discriminate].
      destruct (pe 3 r') as [[no r'']|] eqn:E2; [|discriminate]. pose proof (Hsh _ _ _ _ E2) as Hl2.
      rewrite (He 3 r' _ ltac:(lia) E2). apply Hs; [lia | exact H]. }
    destruct (postfix_op t).
    + destruct (S_Update <=? L); [exact H|].
      destruct ((S_Member <=? ll) && is_target left); [|discriminate]. apply Hs; [lia | exact H].
    + destruct (binary_op t); [|exact H].
      destruct (spec_level o <=? L); [exact H|].
      destruct (left_ok o ll left); [|discriminate].
      destruct (pe (right_level o) r0) as [[rt r']|] eqn:E; [|discriminate]. pose proof (Hsh _ _ _ _ E) as Hl.
      rewrite (He _ _ _ (Nat.lt_succ_diag_r _) E). apply Hs; [lia | exact H].
Qed.

Lemma fuel_enough : forall k,
  (forall ts, (List.length ts <= k)%nat -> forall n L res, parse_expr n L ts = Some res -> parse_expr (S k) L ts = Some res) /\
  (forall ts, (List.length ts <= k)%nat -> forall n L left ll res, parse_suffix n L left ll ts = Some res -> parse_suffix (S k) L left ll ts = Some res).
Proof.
  induction k as [|k [IHe IHs]].
  - split; intros ts Hl n; (destruct ts as [|t0 ts0]; [|simpl in Hl; lia]).
    + intros L res H. destruct n as [|n]; [discriminate|]. rewrite parse_expr_S in H. discriminate.
    + intros L left ll res H. destruct n as [|n]; [discriminate|]. rewrite parse_suffix_S in H |- *. exact H.
  - split; intros ts Hl n.
    + intros L res H. destruct n as [|n]; [discriminate|]. rewrite parse_expr_S in H |- *.
      eapply (expr_step_transfer (parse_expr n) _ (parse_suffix n)); [apply parse_short | | | exact H].
      * intros L' ts' r Hlt Hr. eapply IHe; [lia | exact Hr].
      * intros L' l' ll' ts' r Hlt Hr. eapply IHs; [lia | exact Hr].
    + intros L left ll res H. destruct n as [|n]; [discriminate|]. rewrite parse_suffix_S in H |- *.
      eapply (suffix_step_transfer (parse_expr n) _ (parse_suffix n)); [apply parse_short | | | exact H].
      * intros L' ts' r Hlt Hr. eapply IHe; [lia | exact Hr].
      * intros L' l' ll' ts' r Hlt Hr. eapply IHs; [lia | exact Hr].
Qed.

Theorem parse_fuel_enough n ts e : parse_fuel n ts = Some e -> parse ts = Some e.
Proof.
  unfold parse, parse_fuel. intro H.
  destruct (parse_expr n 0 ts) as [[e' [|c r]]|] eqn:E; try discriminate.
  pose proof (proj1 (fuel_enough (List.length ts)) ts (Nat.le_refl _) n 0 _ E) as E1.
  rewrite (parse_expr_mono (S (List.length ts)) (2 * List.length ts + 2) _ _ _ ltac:(lia) E1). exact H.
Qed.
