(* Fuel sufficiency: the nesting depth of a successful parse is at most the number of tokens
   plus one, so the concrete fuel used by [parse] is enough whenever any fuel is. *)
From V Require Import Common.Base C13.KwSpec C13.Token C13.LexSpec C13.Toks C13.ParseSpec C13.ParseMono.

Definition pe_short (pe : PE) : Prop := forall ni L ts e r, pe ni L ts = Some (e, r) -> (List.length r < List.length ts)%nat.
Definition ps_short (ps : PS) : Prop := forall ni L left ll ts e r, ps ni L left ll ts = Some (e, r) -> (List.length r <= List.length ts)%nat.
Definition pa_short (pa : PA) : Prop := forall ts e r, pa ts = Some (e, r) -> (List.length r < List.length ts)%nat.

Lemma expr_step_short pe ps pa : pe_short pe -> ps_short ps -> pa_short pa -> pe_short (expr_step pe ps pa).
Proof.
  intros He Hs Ha ni L ts e r H. unfold expr_step in H. destruct ts as [|t r0]; [discriminate|]. simpl.
  destruct (is_new t).
  { destruct (pe false S_Call r0) as [[c r']|] eqn:E; [|discriminate]. apply He in E.
    destruct r' as [|p r'']; [apply Hs in H; simpl in *; lia|].
    destruct (is_open p); [|apply Hs in H; simpl in *; lia].
    destruct (pa r'') as [[a r3]|] eqn:E2; [|discriminate]. apply Ha in E2. apply Hs in H. simpl in *. lia. }
  destruct (prefix_op t).
  - destruct (pre_max o <? L); [discriminate|].
    destruct (pe (pre_in o ni) (pre_arg o) r0) as [[v r']|] eqn:E; [|discriminate]. apply He in E.
    destruct (negb (is_update o) || is_target v); [|discriminate]. apply Hs in H. lia.
  - destruct (atom_of t); [apply Hs in H; lia|].
    destruct (is_open t); [|discriminate].
    destruct (pe false 0 r0) as [[e0 [|c r'']]|] eqn:E; try discriminate. apply He in E. simpl in E.
    destruct (is_close c); [|discriminate]. apply Hs in H. lia.
Qed.

Lemma suffix_step_short pe ps pa : pe_short pe -> ps_short ps -> pa_short pa -> ps_short (suffix_step pe ps pa).
Proof.
  intros He Hs Ha ni L left ll ts e r H. unfold suffix_step in H. destruct ts as [|t r0]; [inversion H; subst; simpl; lia|].
  destruct (is_dot t).
  - destruct r0 as [|[s| | |] r']; try discriminate.
    destruct (S_Call <=? ll); [|discriminate]. apply Hs in H. simpl. lia.
  - destruct (is_lbrack t).
    { destruct (S_Call <=? ll); [|discriminate].
      destruct (pe false 0 r0) as [[i [|c r']]|] eqn:E; try discriminate. apply He in E. simpl in E.
      destruct (is_rbrack c); [|discriminate]. apply Hs in H. simpl. lia. }
    destruct (is_open t).
    { destruct (S_Call <=? L); [inversion H; subst; lia|]. destruct (S_Call <=? ll); [|discriminate].
      destruct (pa r0) as [[a r']|] eqn:E; [|discriminate]. apply Ha in E. apply Hs in H. simpl. lia. }
    destruct (is_quest t).
    { destruct (S_Cond <=? L); [inversion H; subst; lia|]. destruct (S_Cond <? ll); [|discriminate].
      destruct (pe false 3 r0) as [[y [|c r']]|] eqn:E; try discriminate. apply He in E. simpl in E.
      destruct (is_colon c); [|discriminate].
      destruct (pe ni 3 r') as [[no r'']|] eqn:E2; [|discriminate]. apply He in E2. apply Hs in H. simpl. lia. }
    destruct (postfix_op t).
    + destruct (S_Update <=? L); [inversion H; subst; lia|].
      destruct ((S_Member <=? ll) && is_target left); [|discriminate]. apply Hs in H. simpl. lia.
    + destruct (binary_op t); [|inversion H; subst; lia].
      destruct ((ni && op_eqb o BIn) || (spec_level o <=? L)); [inversion H; subst; lia|].
      destruct (left_ok o ll left); [|discriminate].
      destruct (pe ni (right_level o) r0) as [[rt r']|] eqn:E; [|discriminate]. apply He in E.
      apply Hs in H. simpl. lia.
Qed.

Lemma args_step_short pe pa : pe_short pe -> pa_short pa -> pa_short (args_step pe pa).
Proof.
  intros He Ha ts e r H. unfold args_step in H. destruct ts as [|t r0]; [discriminate|].
  destruct (is_close t); [inversion H; subst; simpl; lia|].
  destruct (pe false 3 (t :: r0)) as [[e0 [|c r']]|] eqn:E; try discriminate. apply He in E. simpl in E.
  destruct (is_close c); [inversion H; subst; simpl; lia|]. destruct (is_comma c); [|discriminate].
  destruct (pa r') as [[rest r'']|] eqn:E2; [|discriminate]. apply Ha in E2. inversion H; subst. simpl. lia.
Qed.

Lemma parse_short n : pe_short (parse_expr n) /\ ps_short (parse_suffix n) /\ pa_short (parse_args n).
Proof.
  induction n as [|n (IHe & IHs & IHa)].
  - repeat split; [intros ni L ts e r H | intros ni L left ll ts e r H | intros ts e r H]; discriminate.
  - repeat split.
    + intros ni L ts e r H. rewrite parse_expr_S in H. eapply expr_step_short; eauto.
    + intros ni L left ll ts e r H. rewrite parse_suffix_S in H. eapply suffix_step_short; eauto.
    + intros ts e r H. rewrite parse_args_S in H. eapply args_step_short; eauto.
Qed.

(* transfer of a successful step to other sub-parsers that agree on strictly shorter inputs *)
Definition agree_e (pe pe' : PE) (k : nat) : Prop :=
  forall ni' L' ts' r, (List.length ts' < k)%nat -> pe ni' L' ts' = Some r -> pe' ni' L' ts' = Some r.
Definition agree_s (ps ps' : PS) (k : nat) : Prop :=
  forall ni' L' l' ll' ts' r, (List.length ts' < k)%nat -> ps ni' L' l' ll' ts' = Some r -> ps' ni' L' l' ll' ts' = Some r.
Definition agree_a (pa pa' : PA) (k : nat) : Prop :=
  forall ts' r, (List.length ts' < k)%nat -> pa ts' = Some r -> pa' ts' = Some r.

Lemma expr_step_transfer pe pe' ps ps' pa pa' ni L ts res :
  pe_short pe -> pa_short pa ->
  agree_e pe pe' (List.length ts) -> agree_s ps ps' (List.length ts) -> agree_a pa pa' (List.length ts) ->
  expr_step pe ps pa ni L ts = Some res -> expr_step pe' ps' pa' ni L ts = Some res.
Proof.
  intros Hsh Hsa He Hs Ha H. unfold expr_step in *. destruct ts as [|t r0]; [discriminate|].
  unfold agree_e, agree_s, agree_a in *. simpl in He, Hs, Ha.
  destruct (is_new t).
  { destruct (pe false S_Call r0) as [[c r']|] eqn:E; [|discriminate]. pose proof (Hsh _ _ _ _ _ E) as Hl.
    rewrite (He _ _ _ _ (Nat.lt_succ_diag_r _) E).
    destruct r' as [|p r'']; [apply Hs; [simpl; lia | exact H]|].
    destruct (is_open p); [|apply Hs; [simpl in *; lia | exact H]].
    destruct (pa r'') as [[a r3]|] eqn:E2; [|discriminate]. pose proof (Hsa _ _ _ E2) as Hl2. simpl in Hl.
    rewrite (Ha r'' _ ltac:(lia) E2). apply Hs; [lia | exact H]. }
  destruct (prefix_op t).
  - destruct (pre_max o <? L); [discriminate|].
    destruct (pe (pre_in o ni) (pre_arg o) r0) as [[v r']|] eqn:E; [|discriminate]. pose proof (Hsh _ _ _ _ _ E) as Hl.
    rewrite (He _ _ _ _ (Nat.lt_succ_diag_r _) E).
    destruct (negb (is_update o) || is_target v); [|discriminate]. apply Hs; [lia | exact H].
  - destruct (atom_of t); [apply Hs; [lia | exact H]|].
    destruct (is_open t); [|discriminate].
    destruct (pe false 0 r0) as [[e [|c r'']]|] eqn:E; try discriminate. pose proof (Hsh _ _ _ _ _ E) as Hl. simpl in Hl.
    rewrite (He _ _ _ _ (Nat.lt_succ_diag_r _) E).
    destruct (is_close c); [|discriminate]. apply Hs; [lia | exact H].
Qed.

Lemma suffix_step_transfer pe pe' ps ps' pa pa' ni L left ll ts res :
  pe_short pe -> pa_short pa ->
  agree_e pe pe' (List.length ts) -> agree_s ps ps' (List.length ts) -> agree_a pa pa' (List.length ts) ->
  suffix_step pe ps pa ni L left ll ts = Some res -> suffix_step pe' ps' pa' ni L left ll ts = Some res.
Proof.
  intros Hsh Hsa He Hs Ha H. unfold suffix_step in *. destruct ts as [|t r0]; [exact H|].
  unfold agree_e, agree_s, agree_a in *. simpl in He, Hs, Ha.
  destruct (is_dot t).
  - destruct r0 as [|[s| | |] r']; try discriminate.
    destruct (S_Call <=? ll); [|discriminate]. apply Hs; [simpl; lia | exact H].
  - destruct (is_lbrack t).
    { destruct (S_Call <=? ll); [|discriminate].
      destruct (pe false 0 r0) as [[i [|c r']]|] eqn:E; try discriminate. pose proof (Hsh _ _ _ _ _ E) as Hl. simpl in Hl.
      rewrite (He _ _ _ _ (Nat.lt_succ_diag_r _) E).
      destruct (is_rbrack c); [|discriminate]. apply Hs; [lia | exact H]. }
    destruct (is_open t).
    { destruct (S_Call <=? L); [exact H|]. destruct (S_Call <=? ll); [|discriminate].
      destruct (pa r0) as [[a r']|] eqn:E; [|discriminate]. pose proof (Hsa _ _ _ E) as Hl.
      rewrite (Ha _ _ (Nat.lt_succ_diag_r _) E). apply Hs; [lia | exact H]. }
    destruct (is_quest t).
    { destruct (S_Cond <=? L); [exact H|]. destruct (S_Cond <? ll); [|discriminate].
      destruct (pe false 3 r0) as [[y [|c r']]|] eqn:E; try discriminate. pose proof (Hsh _ _ _ _ _ E) as Hl. simpl in Hl.
      rewrite (He _ _ _ _ (Nat.lt_succ_diag_r _) E).
      destruct (is_colon c); [|discriminate].
      destruct (pe ni 3 r') as [[no r'']|] eqn:E2; [|discriminate]. pose proof (Hsh _ _ _ _ _ E2) as Hl2.
      rewrite (He ni 3 r' _ ltac:(lia) E2). apply Hs; [lia | exact H]. }
    destruct (postfix_op t).
    + destruct (S_Update <=? L); [exact H|].
      destruct ((S_Member <=? ll) && is_target left); [|discriminate]. apply Hs; [lia | exact H].
    + destruct (binary_op t); [|exact H].
      destruct ((ni && op_eqb o BIn) || (spec_level o <=? L)); [exact H|].
      destruct (left_ok o ll left); [|discriminate].
      destruct (pe ni (right_level o) r0) as [[rt r']|] eqn:E; [|discriminate]. pose proof (Hsh _ _ _ _ _ E) as Hl.
      rewrite (He _ _ _ _ (Nat.lt_succ_diag_r _) E). apply Hs; [lia | exact H].
Qed.

(* the argument parser calls the expression parser on its whole input: it gets one more unit of fuel *)
Lemma args_step_transfer pe pe' pa pa' ts res :
  pe_short pe ->
  (forall ni' L' r, pe ni' L' ts = Some r -> pe' ni' L' ts = Some r) -> agree_a pa pa' (List.length ts) ->
  args_step pe pa ts = Some res -> args_step pe' pa' ts = Some res.
Proof.
  intros Hsh He Ha H. unfold args_step in *. destruct ts as [|t r0]; [discriminate|].
  destruct (is_close t); [exact H|].
  destruct (pe false 3 (t :: r0)) as [[e [|c r']]|] eqn:E; try discriminate. pose proof (Hsh _ _ _ _ _ E) as Hl. simpl in Hl.
  rewrite (He _ _ _ E).
  destruct (is_close c); [exact H|]. destruct (is_comma c); [|discriminate].
  destruct (pa r') as [[rest r'']|] eqn:E2; [|discriminate].
  rewrite (Ha r' _ ltac:(simpl; lia) E2). exact H.
Qed.

(* fuel 2k+1 for expressions/suffixes and 2k+2 for argument lists of at most k tokens *)
Lemma fuel_enough : forall k,
  (forall ts, (List.length ts <= k)%nat -> forall n ni L res, parse_expr n ni L ts = Some res -> parse_expr (2 * k + 1) ni L ts = Some res) /\
  (forall ts, (List.length ts <= k)%nat -> forall n ni L left ll res, parse_suffix n ni L left ll ts = Some res -> parse_suffix (2 * k + 1) ni L left ll ts = Some res) /\
  (forall ts, (List.length ts <= k)%nat -> forall n res, parse_args n ts = Some res -> parse_args (2 * k + 2) ts = Some res).
Proof.
  induction k as [|k (IHe & IHs & IHa)].
  - repeat split; intros ts Hl n; (destruct ts as [|t0 ts0]; [|simpl in Hl; lia]).
    + intros ni L res H. destruct n as [|n]; [discriminate|]. rewrite parse_expr_S in H. discriminate.
    + intros ni L left ll res H. destruct n as [|n]; [discriminate|]. rewrite parse_suffix_S in H. exact H.
    + intros res H. destruct n as [|n]; [discriminate|]. rewrite parse_args_S in H. discriminate.
  - assert (Ee : forall ts, (List.length ts <= S k)%nat -> forall n ni L res, parse_expr n ni L ts = Some res -> parse_expr (2 * S k + 1) ni L ts = Some res).
    { intros ts Hl n ni L res H. destruct n as [|n]; [discriminate|].
      replace (2 * S k + 1)%nat with (S (2 * k + 2)) by lia. rewrite parse_expr_S in H |- *.
      destruct (parse_short n) as (Se & _ & Sa).
      eapply (expr_step_transfer (parse_expr n) _ (parse_suffix n) _ (parse_args n)); [exact Se | exact Sa | | | | exact H].
      - intros ni' L' ts' r Hlt Hr. apply (parse_expr_mono (2 * k + 1)); [lia|]. eapply IHe; [lia | exact Hr].
      - intros ni' L' l' ll' ts' r Hlt Hr. apply (parse_suffix_mono (2 * k + 1)); [lia|]. eapply IHs; [lia | exact Hr].
      - intros ts' r Hlt Hr. eapply IHa; [lia | exact Hr]. }
    repeat split.
    + exact Ee.
    + intros ts Hl n ni L left ll res H. destruct n as [|n]; [discriminate|].
      replace (2 * S k + 1)%nat with (S (2 * k + 2)) by lia. rewrite parse_suffix_S in H |- *.
      destruct (parse_short n) as (Se & _ & Sa).
      eapply (suffix_step_transfer (parse_expr n) _ (parse_suffix n) _ (parse_args n)); [exact Se | exact Sa | | | | exact H].
      * intros ni' L' ts' r Hlt Hr. apply (parse_expr_mono (2 * k + 1)); [lia|]. eapply IHe; [lia | exact Hr].
      * intros ni' L' l' ll' ts' r Hlt Hr. apply (parse_suffix_mono (2 * k + 1)); [lia|]. eapply IHs; [lia | exact Hr].
      * intros ts' r Hlt Hr. eapply IHa; [lia | exact Hr].
    + intros ts Hl n res H. destruct n as [|n]; [discriminate|].
      replace (2 * S k + 2)%nat with (S (2 * S k + 1)) by lia. rewrite parse_args_S in H |- *.
      destruct (parse_short n) as (Se & _ & Sa).
      eapply (args_step_transfer (parse_expr n) _ (parse_args n)); [exact Se | | | exact H].
      * intros ni' L' r Hr. eapply Ee; [exact Hl | exact Hr].
      * intros ts' r Hlt Hr. apply (parse_args_mono (2 * k + 2)); [lia|]. eapply IHa; [lia | exact Hr].
Qed.

Theorem parse_fuel_enough n ni ts e : parse_fuel n ni ts = Some e -> parse ni ts = Some e.
Proof.
  unfold parse, parse_fuel. intro H.
  destruct (parse_expr n ni 0 ts) as [[e' [|c r]]|] eqn:E; try discriminate.
  pose proof (proj1 (fuel_enough (List.length ts)) ts (Nat.le_refl _) n ni 0 _ E) as E1.
  rewrite (parse_expr_mono (2 * List.length ts + 1) (2 * List.length ts + 2) _ _ _ _ ltac:(lia) E1). exact H.
Qed.
