(* Tree level: the tokens of a printed expression tree are parsed back by the
   specification parser to the tree itself (up to [norm]). *)
From V Require Import Common.Base C13.KwSpec C13.Token C13.LexSpec C13.LexProofs C13.Toks C13.TokenProofs
  C13.ParseSpec C13.ParseMono.
From Coq Require Import String.

(* ---- relational view of the fuelled parser ---- *)
Definition PEx (ni : bool) (L : Z) (ts : list tok) (res : expr * list tok) : Prop := exists n, parse_expr n ni L ts = Some res.
Definition PSx (ni : bool) (L : Z) (left : expr) (ll : Z) (ts : list tok) (res : expr * list tok) : Prop :=
  exists n, parse_suffix n ni L left ll ts = Some res.

Lemma tok_eqb_eq a b : tok_eqb a b = true -> a = b.
Proof.
  destruct a, b; simpl; intro H; try discriminate.
  - apply zlist_eqb_eq in H. congruence.
  - apply zlist_eqb_eq in H. congruence.
  - apply andb_true_iff in H as [H1 H2]. apply zlist_eqb_eq in H1. apply zlist_eqb_eq in H2. congruence.
  - apply zlist_eqb_eq in H. congruence.
Qed.

Definition PAx (ts : list tok) (res : expr * list tok) : Prop := exists n, parse_args n ts = Some res.

Lemma E_atom ni L t r a res :
  is_new t = false -> prefix_op t = None -> atom_of t = Some a -> PSx ni L a S_Member r res -> PEx ni L (t :: r) res.
Proof. intros H0 H1 H2 [n Hn]. exists (S n). rewrite parse_expr_S. unfold expr_step. rewrite H0, H1, H2. exact Hn. Qed.

Lemma E_new_args ni L t r c p r'' a r3 res :
  is_new t = true -> PEx false S_Call r (c, p :: r'') -> is_open p = true -> PAx r'' (a, r3) ->
  PSx ni L (ENew c a) S_Member r3 res -> PEx ni L (t :: r) res.
Proof.
  intros H0 [n1 Hn1] H1 [n2 Hn2] [n3 Hn3]. exists (S (Nat.max n1 (Nat.max n2 n3))). rewrite parse_expr_S. unfold expr_step.
  rewrite H0. rewrite (parse_expr_mono n1 _ _ _ _ _ (Nat.le_max_l _ _) Hn1). rewrite H1.
  rewrite (parse_args_mono n2 (Nat.max n1 (Nat.max n2 n3)) _ _ (Nat.le_trans _ _ _ (Nat.le_max_l n2 n3) (Nat.le_max_r n1 _)) Hn2).
  exact (parse_suffix_mono n3 _ _ _ _ _ _ _ (Nat.le_trans _ _ _ (Nat.le_max_r n2 n3) (Nat.le_max_r n1 _)) Hn3).
Qed.
Lemma E_new_bare ni L t r c r' res :
  is_new t = true -> PEx false S_Call r (c, r') -> (match r' with p :: _ => is_open p = false | [] => True end) ->
  PSx ni L (ENew c ANil) S_New r' res -> PEx ni L (t :: r) res.
Proof.
  intros H0 [n1 Hn1] H1 [n2 Hn2]. exists (S (Nat.max n1 n2)). rewrite parse_expr_S. unfold expr_step.
  rewrite H0. rewrite (parse_expr_mono n1 _ _ _ _ _ (Nat.le_max_l _ _) Hn1).
  pose proof (parse_suffix_mono n2 _ _ _ _ _ _ _ (Nat.le_max_r n1 n2) Hn2) as Hs.
  destruct r' as [|p r'']; [exact Hs|]. rewrite H1. exact Hs.
Qed.

Lemma E_prefix ni L t r o v r' res :
  is_new t = false -> prefix_op t = Some o -> pre_max o <? L = false ->
  PEx (pre_in o ni) (pre_arg o) r (v, r') -> negb (is_update o) || is_target v = true ->
  PSx ni L (EUn o v) (spec_level o) r' res -> PEx ni L (t :: r) res.
Proof.
  intros H0 H1 H1b [n1 Hn1] H2 [n2 Hn2]. exists (S (Nat.max n1 n2)). rewrite parse_expr_S. unfold expr_step. rewrite H0, H1, H1b.
  rewrite (parse_expr_mono n1 (Nat.max n1 n2) _ _ _ _ (Nat.le_max_l _ _) Hn1). rewrite H2.
  exact (parse_suffix_mono n2 _ _ _ _ _ _ _ (Nat.le_max_r _ _) Hn2).
Qed.

Lemma E_paren ni L t r e c r'' res :
  is_new t = false -> prefix_op t = None -> atom_of t = None -> is_open t = true ->
  PEx false 0 r (e, c :: r'') -> is_close c = true -> PSx ni L e S_Member r'' res -> PEx ni L (t :: r) res.
Proof.
  intros H0 H1 H2 H3 [n1 Hn1] H4 [n2 Hn2]. exists (S (Nat.max n1 n2)). rewrite parse_expr_S. unfold expr_step.
  rewrite H0, H1, H2, H3. rewrite (parse_expr_mono n1 (Nat.max n1 n2) _ _ _ _ (Nat.le_max_l _ _) Hn1). rewrite H4.
  exact (parse_suffix_mono n2 _ _ _ _ _ _ _ (Nat.le_max_r _ _) Hn2).
Qed.

Lemma S_nil ni L left ll : PSx ni L left ll [] (left, []).
Proof. exists 1%nat. reflexivity. Qed.

Lemma S_dot ni L left ll t s r res :
  is_dot t = true -> S_Call <=? ll = true -> PSx ni L (EDot left s) S_Member r res -> PSx ni L left ll (t :: TId s :: r) res.
Proof. intros H1 H2 [n Hn]. exists (S n). rewrite parse_suffix_S. unfold suffix_step. rewrite H1, H2. exact Hn. Qed.

Definition plain_tok (t : tok) : Prop := is_dot t = false /\ is_lbrack t = false /\ is_open t = false /\ is_quest t = false.

Lemma S_post ni L left ll t o r res :
  plain_tok t -> postfix_op t = Some o -> S_Update <=? L = false ->
  (S_Member <=? ll) && is_target left = true -> PSx ni L (EUn o left) S_Update r res -> PSx ni L left ll (t :: r) res.
Proof. intros (H1 & H1b & H1o & H1c) H2 H3 H4 [n Hn]. exists (S n). rewrite parse_suffix_S. unfold suffix_step. rewrite H1, H1b, H1o, H1c, H2, H3, H4. exact Hn. Qed.

Lemma S_call ni L left ll t r a r' res :
  is_dot t = false -> is_lbrack t = false -> is_open t = true -> S_Call <=? L = false -> S_Call <=? ll = true ->
  PAx r (a, r') -> PSx ni L (ECall left a) S_Call r' res -> PSx ni L left ll (t :: r) res.
Proof.
  intros H1 H2 H3 H4 H5 [n1 Hn1] [n2 Hn2]. exists (S (Nat.max n1 n2)). rewrite parse_suffix_S. unfold suffix_step.
  rewrite H1, H2, H3, H4, H5. rewrite (parse_args_mono n1 (Nat.max n1 n2) _ _ (Nat.le_max_l _ _) Hn1).
  exact (parse_suffix_mono n2 _ _ _ _ _ _ _ (Nat.le_max_r _ _) Hn2).
Qed.

Lemma A_nil t r : is_close t = true -> PAx (t :: r) (ANil, r).
Proof. intro H. exists 1%nat. rewrite parse_args_S. unfold args_step. rewrite H. reflexivity. Qed.
Lemma close_not_expr n ni L t r : is_close t = true -> parse_expr n ni L (t :: r) = None.
Proof.
  intro H. apply tok_eqb_eq in H. subst t. destruct n; [reflexivity|]. rewrite parse_expr_S. reflexivity.
Qed.
Lemma A_last ts e c r' : PEx false 3 ts (e, c :: r') -> is_close c = true -> PAx ts (ACons e ANil, r').
Proof.
  intros [n Hn] H1. exists (S n). rewrite parse_args_S. unfold args_step.
  destruct ts as [|t r]; [destruct n; discriminate|].
  destruct (is_close t) eqn:Ec; [rewrite (close_not_expr n false 3 t r Ec) in Hn; discriminate|].
  rewrite Hn, H1. reflexivity.
Qed.
Lemma A_more ts e c r' rest r'' :
  PEx false 3 ts (e, c :: r') -> is_close c = false -> is_comma c = true -> PAx r' (rest, r'') -> PAx ts (ACons e rest, r'').
Proof.
  intros [n1 Hn1] H1 H2 [n2 Hn2]. exists (S (Nat.max n1 n2)). rewrite parse_args_S. unfold args_step.
  destruct ts as [|t r]; [destruct n1; discriminate|].
  destruct (is_close t) eqn:Ec; [rewrite (close_not_expr n1 false 3 t r Ec) in Hn1; discriminate|].
  rewrite (parse_expr_mono n1 (Nat.max n1 n2) _ _ _ _ (Nat.le_max_l _ _) Hn1). rewrite H1, H2.
  rewrite (parse_args_mono n2 (Nat.max n1 n2) _ _ (Nat.le_max_r _ _) Hn2). reflexivity.
Qed.

Lemma S_index ni L left ll t r i c r' res :
  is_dot t = false -> is_lbrack t = true -> S_Call <=? ll = true ->
  PEx false 0 r (i, c :: r') -> is_rbrack c = true -> PSx ni L (EIndex left i) S_Member r' res -> PSx ni L left ll (t :: r) res.
Proof.
  intros H1 H2 H3 [n1 Hn1] H4 [n2 Hn2]. exists (S (Nat.max n1 n2)). rewrite parse_suffix_S. unfold suffix_step.
  rewrite H1, H2, H3. rewrite (parse_expr_mono n1 (Nat.max n1 n2) _ _ _ _ (Nat.le_max_l _ _) Hn1). rewrite H4.
  exact (parse_suffix_mono n2 _ _ _ _ _ _ _ (Nat.le_max_r _ _) Hn2).
Qed.

Lemma S_cond ni L left ll t r y c r' no r'' res :
  is_dot t = false -> is_lbrack t = false -> is_open t = false -> is_quest t = true -> S_Cond <=? L = false -> S_Cond <? ll = true ->
  PEx false 3 r (y, c :: r') -> is_colon c = true -> PEx ni 3 r' (no, r'') ->
  PSx ni L (ECond left y no) S_Cond r'' res -> PSx ni L left ll (t :: r) res.
Proof.
  intros H1 H2 H2o H3 H4 H5 [n1 Hn1] H6 [n2 Hn2] [n3 Hn3].
  exists (S (Nat.max n1 (Nat.max n2 n3))). rewrite parse_suffix_S. unfold suffix_step.
  rewrite H1, H2, H2o, H3, H4, H5.
  rewrite (parse_expr_mono n1 _ _ _ _ _ (Nat.le_max_l _ _) Hn1). rewrite H6.
  rewrite (parse_expr_mono n2 (Nat.max n1 (Nat.max n2 n3)) _ _ _ _ (Nat.le_trans _ _ _ (Nat.le_max_l n2 n3) (Nat.le_max_r n1 _)) Hn2).
  exact (parse_suffix_mono n3 _ _ _ _ _ _ _ (Nat.le_trans _ _ _ (Nat.le_max_r n2 n3) (Nat.le_max_r n1 _)) Hn3).
Qed.

Lemma S_bin ni L left ll t o r rt r' res :
  plain_tok t -> postfix_op t = None -> binary_op t = Some o -> spec_level o <=? L = false ->
  ni && op_eqb o BIn = false ->
  left_ok o ll left = true -> PEx ni (right_level o) r (rt, r') -> PSx ni L (EBin o left rt) (spec_level o) r' res ->
  PSx ni L left ll (t :: r) res.
Proof.
  intros (H1 & H1b & H1o & H1c) H2 H3 H4 Hin H5 [n1 Hn1] [n2 Hn2]. exists (S (Nat.max n1 n2)). rewrite parse_suffix_S. unfold suffix_step.
  rewrite H1, H1b, H1o, H1c, H2, H3, Hin, H4, H5. rewrite (parse_expr_mono n1 (Nat.max n1 n2) _ _ _ _ (Nat.le_max_l _ _) Hn1).
  exact (parse_suffix_mono n2 _ _ _ _ _ _ _ (Nat.le_max_r _ _) Hn2).
Qed.

(* the loop stops in front of a token it may not take *)
Definition head_stop (M : Z) (rest : list tok) : bool :=
  match rest with
  | [] => true
  | t :: _ => negb (is_dot t) && negb (is_lbrack t) && (if is_open t then S_Call <=? M else true)
              && (if is_quest t then S_Cond <=? M else true)
              && (match postfix_op t with Some _ => S_Update <=? M | None => true end)
              && (match binary_op t with Some o => spec_level o <=? M | None => true end)
  end.
Lemma S_stop ni L left ll rest : head_stop L rest = true -> PSx ni L left ll rest (left, rest).
Proof.
  intro H. exists 1%nat. rewrite parse_suffix_S. unfold suffix_step. destruct rest as [|t r]; [reflexivity|].
  simpl in H. apply andb_true_iff in H as [H H3]. apply andb_true_iff in H as [H H2]. apply andb_true_iff in H as [H Hq].
  apply andb_true_iff in H as [H Ho].
  apply andb_true_iff in H as [H1 Hb]. apply negb_true_iff in H1. apply negb_true_iff in Hb. rewrite H1, Hb.
  destruct (is_open t); [rewrite Ho; reflexivity|].
  destruct (is_quest t); [rewrite Hq; reflexivity|].
  destruct (postfix_op t); [rewrite H2; reflexivity|]. destruct (binary_op t); [rewrite H3, orb_true_r; reflexivity | reflexivity].
Qed.

(* ---- operator tokens ---- *)
Lemma spec_level_is_op_level o : spec_level o = op_level o.
Proof. destruct o; reflexivity. Qed.

Lemma bin_tok o : op_kind o = KBin ->
  plain_tok (op_tok o) /\ postfix_op (op_tok o) = None /\ binary_op (op_tok o) = Some o /\ toks_of (IOp o) = [op_tok o].
Proof. destruct o; intro H; try discriminate; repeat split; reflexivity. Qed.
Lemma post_tok o : op_kind o = KPost ->
  plain_tok (op_tok o) /\ postfix_op (op_tok o) = Some o /\ toks_of (IOp o) = [op_tok o].
Proof. destruct o; intro H; try discriminate; repeat split; reflexivity. Qed.
Lemma pre_tok o : op_kind o = KPre -> is_new (op_tok o) = false /\ prefix_op (op_tok o) = Some o /\ toks_of (IOp o) = [op_tok o].
Proof. destruct o; intro H; try discriminate; repeat split; reflexivity. Qed.

Lemma find_op_sound k t o : find_op k t = Some o -> op_tok o = t.
Proof.
  unfold find_op. intro H. apply find_some in H as [_ H]. apply andb_true_iff in H as [_ H].
  destruct (op_tok o) eqn:E1; destruct t; simpl in H; try discriminate.
  - apply zlist_eqb_eq in H. congruence.
  - apply zlist_eqb_eq in H. congruence.
  - apply andb_true_iff in H as [H1 H2]. apply zlist_eqb_eq in H1. apply zlist_eqb_eq in H2. congruence.
  - apply zlist_eqb_eq in H. congruence.
Qed.


Lemma op_tok_shape o : (op_is_keyword o = true /\ op_tok o = TId (op_text o)) \/ (op_is_keyword o = false /\ op_tok o = TP (op_text o)).
Proof. unfold op_tok. destruct (op_is_keyword o); [left | right]; split; reflexivity. Qed.

Lemma find_op_word k s : regex_after_word s = false -> find_op k (TId s) = None.
Proof.
  intro Hs. destruct (find_op k (TId s)) as [o|] eqn:E; [|reflexivity]. exfalso.
  apply find_op_sound in E. destruct (op_tok_shape o) as [[Hk Ht]|[Hk Ht]]; rewrite Ht in E; [|discriminate].
  inversion E; subst. destruct (op_facts o) as (_ & _ & Fk). destruct (Fk Hk) as (_ & _ & _ & R). congruence.
Qed.
Lemma find_op_num k s : find_op k (TNum s) = None.
Proof.
  destruct (find_op k (TNum s)) as [o|] eqn:E; [|reflexivity]. exfalso.
  apply find_op_sound in E. destruct (op_tok_shape o) as [[_ Ht]|[_ Ht]]; rewrite Ht in E; discriminate.
Qed.
Lemma find_op_re k b f : find_op k (TRe b f) = None.
Proof.
  destruct (find_op k (TRe b f)) as [o|] eqn:E; [|reflexivity]. exfalso.
  apply find_op_sound in E. destruct (op_tok_shape o) as [[_ Ht]|[_ Ht]]; rewrite Ht in E; discriminate.
Qed.

Lemma close_tok : is_dot (TP [41]) = false /\ postfix_op (TP [41]) = None /\ binary_op (TP [41]) = None /\ is_close (TP [41]) = true.
Proof. repeat split; reflexivity. Qed.
Lemma is_new_word s : regex_after_word s = false -> is_new (TId s) = false.
Proof.
  intro H. destruct (is_new (TId s)) eqn:E; [|reflexivity]. unfold is_new in E. apply tok_eqb_eq in E. inversion E; subst. discriminate.
Qed.
Lemma open_tok : is_new (TP [40]) = false /\ prefix_op (TP [40]) = None /\ atom_of (TP [40]) = None /\ is_open (TP [40]) = true.
Proof. repeat split; reflexivity. Qed.
Lemma dot_tok : is_dot (TP [46]) = true.
Proof. reflexivity. Qed.

(* ---- structure of print_items ---- *)
Section WithMode.
Variable mw : bool.
Local Notation print_items := (Token.print_items mw).

(* lvl: the level from which on printExpr parenthesises the node *)
Definition lvl (e : expr) : Z :=
  match e with
  | EUn o _ | EBin o _ _ => op_level o
  | ECond _ _ _ => LConditional
  | ECall _ _ => LNew
  | ENew _ _ => LCall
  | _ => LMember
  end.
Definition compound (e : expr) : bool :=
  match e with EUn _ _ | EBin _ _ _ | ECond _ _ _ | ECall _ _ | ENew _ _ => true | _ => false end.
(* fp: the forbidIn flag the node is printed with *)
Definition wrapped (fp : bool) (P : Z) (e : expr) : bool := compound e && ((P >=? lvl e) || (is_in e && fp)).
Definition new_parens (P : Z) (a : expr) : bool := negb mw || has_args a || (P >=? LPostfix).
(* grammar stratum of the unparenthesised printed form *)
Definition strat (P : Z) (e : expr) : Z :=
  match e with
  | EUn o _ | EBin o _ _ => op_level o
  | ECond _ _ _ => LConditional
  | ECall _ _ => S_Call
  | ENew _ a => if new_parens P a then S_Member else S_New
  | _ => S_Member
  end.
Definition ll_of (fp : bool) (P : Z) (e : expr) : Z := if wrapped fp P e then S_Member else strat P e.

Definition left_lvl (o : op) (l : expr) : Z :=
  if op_eqb o BPow && (match l with EUn u _ => negb (op_eqb u UPreDec || op_eqb u UPreInc || op_eqb u UPostDec || op_eqb u UPostInc) | ENum _ => true | _ => false end)
  then LCall
  else if op_eqb o BNullish && is_or_and l then LPrefix
  else if is_right_assoc o then op_level o else op_level o - 1.
Definition right_lvl (o : op) (r : expr) : Z :=
  if op_eqb o BNullish && is_or_and r then LPrefix
  else if is_left_assoc o then op_level o else op_level o - 1.

(* the unparenthesised item list, printed with the inner flags fb (forbidIn) and sb (statement start):
   the outer flags, or false inside parentheses; only "new" looks at the level (to decide about "()") *)
Definition body (fb sb : bool) (P : Z) (e : expr) : list item :=
  match e with
  | ENew f a => [INew] ++ print_items false false LNew f ++ (if new_parens P a then [ICallOpen] ++ print_items false false LComma a ++ [IClose] else [])
  | EUn o v => match op_kind o with KPost => print_items false sb (LPostfix - 1) v ++ [IOp o] | _ => [IOp o] ++ print_items (op_eqb o UYield && fb) false (op_level o - 1) v end
  | EBin o l r => print_items fb sb (left_lvl o l) l ++ [IOp o] ++ print_items fb false (right_lvl o r) r
  | ECond c y n => print_items fb sb LConditional c ++ [IQuest] ++ print_items false false LYield y ++ [IColon] ++ print_items fb false LYield n
  | ECall f a => print_items false sb LPostfix f ++ [ICallOpen] ++ print_items false false LComma a ++ [IClose]
  | _ => print_items fb sb P e
  end.

Lemma op_level_pos o : 1 <= op_level o <= 19.
Proof. destruct o; vm_compute; split; discriminate. Qed.

Lemma print_items_split fp ss P e :
  print_items fp ss P e = if wrapped fp P e then [IOpen] ++ body false false P e ++ [IClose] else body fp ss P e.
Proof.
  unfold wrapped, body. destruct e as [s|s|b f|t s|o v|o l r|c0 y0 n0|t0 i0|f0 a0|f0 a0| |x0 r0]; try reflexivity;
    simpl compound; simpl lvl; simpl is_in; cbn [Token.print_items]; cbv zeta; unfold paren, left_lvl, right_lvl, new_parens.
  - rewrite orb_false_r. destruct (P >=? op_level o); simpl negb; rewrite ?andb_false_r, ?andb_true_r; reflexivity.
  - destruct (P >=? op_level o); destruct fp; destruct (op_eqb o BIn); simpl; rewrite ?andb_false_r, ?andb_true_r; reflexivity.
  - rewrite orb_false_r. destruct (P >=? LConditional); destruct fp; simpl; rewrite ?andb_false_r, ?andb_true_r; reflexivity.
  - rewrite orb_false_r. destruct (P >=? LNew); simpl; rewrite ?andb_false_r, ?andb_true_r; reflexivity.
  - rewrite orb_false_r. destruct (P >=? LCall); reflexivity.
Qed.

Lemma body_cond fb sb P c y n : body fb sb P (ECond c y n) =
  print_items fb sb LConditional c ++ [IQuest] ++ print_items false false LYield y ++ [IColon] ++ print_items fb false LYield n.
Proof. reflexivity. Qed.
Lemma body_call fb sb P f a : body fb sb P (ECall f a) = print_items false sb LPostfix f ++ [ICallOpen] ++ print_items false false LComma a ++ [IClose].
Proof. reflexivity. Qed.
Lemma body_bin fb sb P o l r : body fb sb P (EBin o l r) = print_items fb sb (left_lvl o l) l ++ [IOp o] ++ print_items fb false (right_lvl o r) r.
Proof. reflexivity. Qed.
Lemma body_un fb sb P o v : body fb sb P (EUn o v) =
  match op_kind o with KPost => print_items false sb (LPostfix - 1) v ++ [IOp o] | _ => [IOp o] ++ print_items (op_eqb o UYield && fb) false (op_level o - 1) v end.
Proof. reflexivity. Qed.

Lemma toks_app a b : toks (a ++ b) = toks a ++ toks b.
Proof. unfold toks. apply flat_map_app. Qed.

(* ---- well-formed trees ---- *)
Definition not_comma (e : expr) : Prop := match e with EBin BComma _ _ => False | _ => True end.
Fixpoint wf (e : expr) : Prop :=
  match e with
  | EId s => word_ok s
  | ENum s => num_shape s
  | ERe b f => re_shape b f
  | EDot t s => wf t /\ id_shape s /\ regex_after_word s = false
  | EUn o v => wf v /\ op_kind o <> KBin /\ (is_update o = true -> is_target v = true)
  | EBin o l r => wf l /\ wf r /\ op_kind o = KBin /\ (is_assign o = true -> is_target l = true)
  | ECond c y n => wf c /\ wf y /\ wf n
  | EIndex t i => wf t /\ wf i
  | ECall f a => wf f /\ wfa a
  | ENew f a => wf f /\ wfa a
  | ANil | ACons _ _ => False
  end
with wfa (a : expr) : Prop :=
  match a with
  | ANil => True
  | ACons x r => wf x /\ wfa r
  | _ => False
  end.

Lemma is_target_norm e : is_target (norm e) = is_target e.
Proof. destruct e as [s|s|b f|t s|o v|o l r|c0 y0 n0|t0 i0|f0 a0|f0 a0| |x0 r0]; try reflexivity. simpl. destruct (op_eqb o BComma); [|reflexivity]. destruct (norm r) as [| | | | |o0 ? ?| | | | | |]; try reflexivity. destruct o0; reflexivity. Qed.

(* ---- facts about the operand levels chosen by the printer (finite case analyses over the operator) ---- *)
Definition lpl (o : op) : Z := if is_right_assoc o then op_level o else op_level o - 1.

Lemma left_lvl_ge o l : lpl o <= left_lvl o l.
Proof.
  unfold lpl, left_lvl. pose proof (op_level_pos o).
  destruct (op_eqb o BPow && _); [unfold LCall; destruct (is_right_assoc o); lia|].
  destruct (op_eqb o BNullish && is_or_and l) eqn:E; [|lia].
  apply andb_true_iff in E as [E _]. destruct o; try discriminate.
Qed.
Lemma right_lvl_ge o r : op_kind o = KBin -> op_level o - 1 <= right_lvl o r.
Proof.
  intro Hk. unfold right_lvl. destruct (op_eqb o BNullish && is_or_and r) eqn:E; [|destruct (is_left_assoc o); lia].
  apply andb_true_iff in E as [E _]. destruct o; try discriminate.
Qed.

(* after an unparenthesised binary expression of operator o, any operator the context can
   continue with stops the parse of o's right operand *)
Definition chk_stop (o o' : op) : bool :=
  match op_kind o, op_kind o' with
  | KBin, KBin => implb (lpl o' <? op_level o) (spec_level o' <=? right_level o)
  | _, _ => true
  end.
Lemma chk_stop_all : forall_ops (fun o => forall_ops (chk_stop o)) = true.
Proof. vm_compute. reflexivity. Qed.
Lemma stop_level o o' P : op_kind o = KBin -> op_kind o' = KBin -> lpl o' <= P -> P < op_level o ->
  spec_level o' <=? right_level o = true.
Proof.
  intros Hk Hk' H1 H2. pose proof (forall_ops_sound _ (forall_ops_sound _ chk_stop_all o) o') as C.
  unfold chk_stop in C. rewrite Hk, Hk' in C.
  replace (lpl o' <? op_level o) with true in C by (symmetry; apply Z.ltb_lt; lia). exact C.
Qed.

Lemma left_ok_eq o ll left :
  left_ok o ll left =
  if is_assign o then (S_Member <=? ll) && is_target left
  else if op_eqb o BPow then (S_Update <=? ll) || (match left with EUn u _ => op_eqb u UPreInc || op_eqb u UPreDec | _ => false end)
  else if op_eqb o BNullish then (ll =? 6) || (9 <=? ll)
  else spec_level o <=? ll.
Proof. destruct o; reflexivity. Qed.

Lemma assoc_facts o : op_kind o = KBin ->
  is_right_assoc o = is_assign o || op_eqb o BPow.
Proof. destruct o; intro H; try discriminate; reflexivity. Qed.

Lemma lvl_atom e : compound e = false -> lvl e = S_Member.
Proof. destruct e; simpl; intro H; try discriminate; reflexivity. Qed.
Lemma lvl_le e : lvl e <= S_Member.
Proof. destruct e; simpl; unfold S_Member, LMember, LConditional, LNew, LCall; try lia; pose proof (op_level_pos o); lia. Qed.

Lemma wrapped_level fp P e : compound e = true -> P >=? lvl e = true -> wrapped fp P e = true.
Proof. intros Hc H. unfold wrapped. rewrite Hc, H. reflexivity. Qed.
Lemma unwrapped_level fp P e : compound e = true -> wrapped fp P e = false -> P < lvl e /\ (is_in e && fp = false).
Proof.
  intros Hc W. unfold wrapped in W. rewrite Hc in W. simpl in W. apply orb_false_iff in W as [W1 W2].
  rewrite Z.geb_leb in W1. apply Z.leb_gt in W1. split; assumption.
Qed.

Lemma unw_strat fp P e : wrapped fp P e = false -> P < S_Member -> P < strat P e.
Proof.
  intros W HP. destruct (compound e) eqn:Hc; [|destruct e; try discriminate; exact HP].
  destruct (unwrapped_level fp P e Hc W) as [W1 _]. clear W. rename W1 into W.
  destruct e; simpl in *; try exact HP; try discriminate;
    try (unfold LConditional, LNew, LCall, S_Call in *; lia).
  unfold new_parens.
  destruct (negb mw || has_args e2 || (P >=? LPostfix)) eqn:E; [exact HP|].
  apply orb_false_iff in E as [_ E]. rewrite Z.geb_leb in E. apply Z.leb_gt in E. unfold S_New, LPostfix in *. lia.
Qed.
Lemma ll_of_ge fp P e : P < S_Member -> P < ll_of fp P e.
Proof. intro HP. unfold ll_of. destruct (wrapped fp P e) eqn:W; [exact HP | apply (unw_strat fp); assumption]. Qed.

Lemma left_ok_print fp o l :
  wf l -> op_kind o = KBin -> (is_assign o = true -> is_target l = true) ->
  left_ok o (ll_of fp (left_lvl o l) l) (norm l) = true.
Proof.
  intros Hwf Hk Ht. rewrite left_ok_eq. destruct (is_assign o) eqn:Ea.
  - specialize (Ht eq_refl). rewrite is_target_norm, Ht.
    destruct l; try discriminate; reflexivity.
  - destruct (op_eqb o BPow) eqn:Ep.
    + assert (o = BPow) by (destruct o; try discriminate; reflexivity). subst o.
      destruct l as [s|s|b f|t s|u v|o2 a b|c0 y0 n0|t0 i0|f0 a0|f0 a0| |x0 r0]; try reflexivity; try (destruct Hwf; fail).
      * destruct u; reflexivity.
      * unfold left_lvl, ll_of, wrapped. simpl.
        replace (LExponentiation >=? op_level o2) with true; [reflexivity|].
        symmetry. rewrite Z.geb_leb. apply Z.leb_le. destruct Hwf as (_ & _ & Hk2 & _).
        destruct o2; try discriminate; vm_compute; discriminate.
      * unfold left_lvl, ll_of, wrapped, strat. simpl. destruct (new_parens _ a0); reflexivity.
    + destruct (op_eqb o BNullish) eqn:En.
      * assert (o = BNullish) by (destruct o; try discriminate; reflexivity). subst o.
        destruct l as [s|s|b f|t s|u v|o2 a b|c0 y0 n0|t0 i0|f0 a0|f0 a0| |x0 r0]; try reflexivity; try (destruct Hwf; fail).
        -- destruct Hwf as (_ & Hku & _). destruct u; try (exfalso; apply Hku; reflexivity); reflexivity.
        -- destruct o2; try reflexivity; destruct fp; reflexivity.
        -- unfold left_lvl, ll_of, wrapped, strat. simpl. destruct (new_parens _ a0); reflexivity.
      * unfold left_lvl. rewrite Ep, En. simpl andb. cbv iota.
        rewrite (assoc_facts o Hk), Ea, Ep. simpl orb. cbv iota.
        rewrite spec_level_is_op_level. pose proof (op_level_pos o) as Hp.
        apply Z.leb_le. pose proof (ll_of_ge fp (op_level o - 1) l). unfold S_Member in *. lia.
Qed.

(* below which loop level an unparenthesised unary expression may stand: an UpdateExpression/UnaryExpression
   anywhere below the update level, a YieldExpression only where an AssignmentExpression is expected *)
Definition un_lim (o : op) : Z := if op_eqb o UYield then 4 else S_Update.
Definition lv_ok (fp : bool) (L P : Z) (e : expr) : Prop :=
  match e with
  | EBin o _ _ => wrapped fp P e = true \/ L < op_level o
  | ECond _ _ _ => wrapped fp P e = true \/ (L < LConditional /\ P <= LYield)
  | ECall _ _ => wrapped fp P e = true \/ L < S_Call
  | EUn o _ => wrapped fp P e = true \/ L < un_lim o
  | _ => True
  end.

Lemma right_level_eq o : right_level o = if is_assign o then 3 else if op_eqb o BPow then 16 else if op_eqb o BNullish then 8 else spec_level o.
Proof. destruct o; reflexivity. Qed.

Lemma right_ok_print fp o r :
  op_kind o = KBin -> (o = BComma -> not_comma r) -> lv_ok fp (right_level o) (right_lvl o r) r.
Proof.
  intros Hk Hc. destruct r as [s|s|b f|t s|u v|o2 a b|c0 y0 n0|t0 i0|f0 a0|f0 a0| |x0 r0]; try exact I;
    [unfold lv_ok, un_lim; destruct (op_eqb u UYield) eqn:Ey;
       [assert (u = UYield) by (destruct u; try discriminate; reflexivity); subst u; destruct o; try discriminate; first [left; reflexivity | right; reflexivity]
       |right; destruct o; try discriminate; reflexivity]| |unfold lv_ok; destruct o; try discriminate; first [left; reflexivity | right; split; [reflexivity | discriminate]]
     |right; destruct o; try discriminate; reflexivity].
  unfold lv_ok, wrapped. simpl compound. simpl lvl. simpl andb.
  destruct (op_eqb o BNullish) eqn:En.
  - assert (o = BNullish) by (destruct o; try discriminate; reflexivity). subst o.
    destruct o2; vm_compute; auto.
  - destruct (op_eqb o BComma) eqn:Ecm.
    + assert (o = BComma) by (destruct o; try discriminate; reflexivity). subst o.
      specialize (Hc eq_refl). destruct o2; try (destruct Hc); vm_compute; auto.
    + unfold right_lvl. rewrite En. simpl andb. cbv iota.
      assert (Hle : right_level o <= (if is_left_assoc o then op_level o else op_level o - 1)).
      { destruct o; try discriminate; vm_compute; discriminate. }
      destruct ((if is_left_assoc o then op_level o else op_level o - 1) >=? op_level o2) eqn:E; [left; reflexivity|].
      right. rewrite Z.geb_leb in E. apply Z.leb_gt in E. lia.
Qed.

(* what may follow the tokens of an expression printed at level P *)
Definition fol (P : Z) (rest : list tok) : bool :=
  match rest with
  | [] => true
  | t :: _ =>
      if is_dot t || is_lbrack t || is_open t then LPostfix <=? P
      else if is_quest t then LConditional <=? P
      else match postfix_op t with
           | Some _ => LPrefix <=? P
           | None => match binary_op t with Some o => lpl o <=? P | None => true end
           end
  end.

Lemma fol_weaken P P' rest : P <= P' -> fol P rest = true -> fol P' rest = true.
Proof.
  intros Hle H. destruct rest as [|t r]; [reflexivity|]. simpl in *.
  destruct (is_dot t || is_lbrack t || is_open t); [apply Z.leb_le in H; apply Z.leb_le; lia|].
  destruct (is_quest t); [apply Z.leb_le in H; apply Z.leb_le; lia|].
  destruct (postfix_op t); [apply Z.leb_le in H; apply Z.leb_le; lia|].
  destruct (binary_op t); [apply Z.leb_le in H; apply Z.leb_le; lia | reflexivity].
Qed.

Lemma binary_op_kind t o : binary_op t = Some o -> op_kind o = KBin.
Proof.
  unfold binary_op, find_op. intro H. apply find_some in H as [_ H]. apply andb_true_iff in H as [H _].
  destruct (op_kind o); try discriminate; reflexivity.
Qed.

(* below level 18 nothing but a binary operator of bounded level can follow, and it stops an operand parse *)
Lemma fol_stop P M rest :
  fol P rest = true -> P < LPrefix -> P <= M ->
  (forall o, op_kind o = KBin -> lpl o <= P -> spec_level o <=? M = true) ->
  head_stop M rest = true.
Proof.
  intros H HP HPM HM. destruct rest as [|t r]; [reflexivity|]. simpl in *.
  destruct (is_dot t); [apply Z.leb_le in H; unfold LPostfix, LPrefix in *; lia|].
  destruct (is_lbrack t); [apply Z.leb_le in H; unfold LPostfix, LPrefix in *; lia|]. simpl.
  destruct (is_open t); [apply Z.leb_le in H; unfold LPostfix, LPrefix in *; lia|]. simpl.
  destruct (is_quest t) eqn:Eq.
  { apply Z.leb_le in H. replace (S_Cond <=? M) with true by (symmetry; apply Z.leb_le; unfold S_Cond, LConditional in *; lia).
    apply tok_eqb_eq in Eq. subst t. reflexivity. }
  destruct (postfix_op t); [apply Z.leb_le in H; lia|]. simpl.
  destruct (binary_op t) as [o|] eqn:Eb; [|reflexivity].
  apply HM; [eapply binary_op_kind; eauto | apply Z.leb_le in H; exact H].
Qed.

End WithMode.
