(* Keyword tables regenerated from the source (T6) against the hand-written
   ECMA-262 lists: both inclusions, no duplicates, token names consistent.
   The domains are genuinely finite (38 and 9 words): the boolean checks are
   decided by vm_compute and lifted with forallb_forall. *)
From V Require Import Common.Base C13.KwSpec gen.KeywordsGen.

Definition gen_kw_words : list (list Z) := map fst gen_keywords.

Definition incl_b (a b : list (list Z)) : bool := forallb (fun w => mem w b) a.

Lemma incl_b_sound a b : incl_b a b = true -> forall w, In w a -> In w b.
Proof.
  unfold incl_b. intros H w Hin. rewrite forallb_forall in H.
  apply mem_In. apply H. exact Hin.
Qed.

Lemma kw_sub_spec : incl_b gen_kw_words ecma_unconditional_reserved = true.
Proof. vm_compute. reflexivity. Qed.
Lemma spec_sub_kw : incl_b ecma_unconditional_reserved gen_kw_words = true.
Proof. vm_compute. reflexivity. Qed.

Lemma unconditional_char w :
  In w ecma_unconditional_reserved <-> (In w ecma_reserved_words /\ ~ In w ecma_contextually_reserved).
Proof.
  unfold ecma_unconditional_reserved. rewrite filter_In. split.
  - intros [H1 H2]. split; [exact H1|]. intro H3. apply mem_In in H3. rewrite H3 in H2. discriminate.
  - intros [H1 H2]. split; [exact H1|]. destruct (mem w ecma_contextually_reserved) eqn:E; [|reflexivity].
    apply mem_In in E. contradiction.
Qed.

Lemma keywords_eq_ecma262_all :
  forall w, In w gen_kw_words <-> (In w ecma_reserved_words /\ ~ In w ecma_contextually_reserved).
Proof.
  intro w. rewrite <- unconditional_char. split.
  - apply incl_b_sound. exact kw_sub_spec.
  - apply incl_b_sound. exact spec_sub_kw.
Qed.

Lemma strict_sub_spec : incl_b gen_strict_reserved ecma_strict_reserved = true.
Proof. vm_compute. reflexivity. Qed.
Lemma spec_sub_strict : incl_b ecma_strict_reserved gen_strict_reserved = true.
Proof. vm_compute. reflexivity. Qed.

Lemma strict_eq_ecma262_all : forall w, In w gen_strict_reserved <-> In w ecma_strict_reserved.
Proof.
  intro w. split.
  - apply incl_b_sound. exact strict_sub_spec.
  - apply incl_b_sound. exact spec_sub_strict.
Qed.

(* no word is in both tables, and neither table lists a word twice *)
Fixpoint nodup_b (l : list (list Z)) : bool :=
  match l with [] => true | x :: r => negb (mem x r) && nodup_b r end.
Lemma nodup_b_sound l : nodup_b l = true -> NoDup l.
Proof.
  induction l as [|x r IH]; simpl; intro H; [constructor|].
  apply andb_true_iff in H as [H1 H2]. constructor; [|apply IH; exact H2].
  intro Hin. apply mem_In in Hin. rewrite Hin in H1. discriminate.
Qed.
Lemma tables_nodup_all : NoDup (gen_kw_words ++ gen_strict_reserved).
Proof. apply nodup_b_sound. vm_compute. reflexivity. Qed.

(* every keyword maps to the token constant of the same name (T<Keyword>) *)
Lemma keyword_tokens_consistent_all : forall e, In e gen_keywords -> fst e = snd e.
Proof.
  assert (H : forallb (fun e => zlist_eqb (fst e) (snd e)) gen_keywords = true) by (vm_compute; reflexivity).
  intros e Hin. rewrite forallb_forall in H. apply zlist_eqb_eq. apply H. exact Hin.
Qed.
