From V Require Import Common.Base C13.KwSpec C13.Token C13.LexSpec C13.LexProofs C13.Toks C13.TokenProofs C13.RenderLex C13.ParseSpec C13.PrintParse C13.PrintParse2 C13.PrintNorm C13.PrintChain C13.ParseFuel C13.RoundTrip C13.Harness gen.KeywordsGen.
From Coq Require Import String.
(* non-vacuity / sanity: concrete values *)
Example kw_count : (List.length gen_keywords = 36)%nat /\ (List.length gen_strict_reserved = 9)%nat /\ (List.length ecma_reserved_words = 38)%nat.
Proof. vm_compute. repeat split. Qed.
Example render_ex :
  render true st0 [IId (zs "a"); IOp BAdd; IOp UPos; IId (zs "b"); IOp BLt; IOp UNot; IOp UPreDec; IId (zs "b");
                   IOp BDiv; IRe (zs "x") (zs "g"); IOp BIn; INum (zs "1"); IDot (zs "c"); IOp UPostDec; IOp BGt; IId (zs "a")]
  = zs "a+ +b<! --b/ /x/g in 1 .c-- >a".
Proof. vm_compute. reflexivity. Qed.
Example print_ex :
  print_expr false false true (EBin BAdd (EId (zs "a")) (EBin BMul (EUn UPos (EId (zs "b"))) (EBin BSub (EId (zs "a")) (EUn UNeg (ENum (zs "1"))))))
  = zs "a + +b * (a - -1)".
Proof. vm_compute. reflexivity. Qed.

(* the hypotheses of render_lex are satisfiable by a chain that exercises every gluing rule *)
Definition ex_chain : list item :=
  [IId (zs "a"); IOp BAdd; IOp UPos; IId (zs "b"); IOp BLt; IOp UNot; IOp UPreDec; IId (zs "b");
   IOp BDiv; IRe (zs "x") (zs "g"); IOp BIn; INum (zs "1"); IDot (zs "c"); IOp UPostDec; IOp BGt; IOpen; IOp UTypeof; IId (zs "of"); IClose].
Example ex_chain_ok : Forall item_ok ex_chain /\ chain None ex_chain = true.
Proof.
  split; [|vm_compute; reflexivity].
  unfold ex_chain. repeat constructor; try discriminate; try (vm_compute; congruence); vm_compute; reflexivity.
Qed.
Example ex_chain_lex : lex (render true st0 ex_chain) = Some (toks ex_chain).
Proof. apply RenderLex.render_lex_all; apply ex_chain_ok. Qed.

(* identifiers ending in a \u{...} escape (fix 6d63f64): the hypotheses of render_lex hold and
   the word that follows is separated *)
Definition ex_esc_chain : list item :=
  [IId (zs "a\u{10000}"); IOp BIn; IId (zs "x"); IOp BInstanceof; IOp UTypeof; IId (zs "b\u{1F600}"); IOp UPostInc; IOp BAdd; IId (zs "c")].
Example ex_esc_render : render true st0 ex_esc_chain = zs "a\u{10000} in x instanceof typeof b\u{1F600}+++c".
Proof. vm_compute. reflexivity. Qed.
Lemma ex_esc_word pre hex : id_shape pre -> hex <> [] -> forallb hexd hex = true ->
  regex_after_word (pre ++ esc_seq hex) = false -> item_ok (IId (pre ++ esc_seq hex)).
Proof. intros H1 H2 H3 H4. split; [right; exists pre, hex; split; [reflexivity | split; [exact H1 | split; [exact H2 | exact H3]]] | exact H4]. Qed.
Lemma ex_plain_word s : id_shape s -> regex_after_word s = false -> item_ok (IId s).
Proof. intros H1 H2. split; [left; exact H1 | exact H2]. Qed.
Example ex_esc_ok : Forall item_ok ex_esc_chain /\ chain None ex_esc_chain = true.
Proof.
  split; [|vm_compute; reflexivity].
  unfold ex_esc_chain.
  constructor; [apply (ex_esc_word (zs "a") (zs "10000")); repeat split; try discriminate; vm_compute; reflexivity|].
  constructor; [exact I|].
  constructor; [apply ex_plain_word; repeat split; try discriminate; vm_compute; reflexivity|].
  constructor; [exact I|]. constructor; [exact I|].
  constructor; [apply (ex_esc_word (zs "b") (zs "1F600")); repeat split; try discriminate; vm_compute; reflexivity|].
  constructor; [exact I|]. constructor; [exact I|].
  constructor; [apply ex_plain_word; repeat split; try discriminate; vm_compute; reflexivity|].
  constructor.
Qed.
Example ex_esc_lex : lex (render true st0 ex_esc_chain) = Some (toks ex_esc_chain).
Proof. apply RenderLex.render_lex_all; apply ex_esc_ok. Qed.

(* tree level: a well-formed tree with a right-nested comma, "**" with a unary base, "??" next to "||" *)
Definition ex_tree : expr :=
  EBin BComma (EBin BAssign (EDot (EId (zs "a")) (zs "b")) (EBin BPow (EUn UNeg (EId (zs "c"))) (ENum (zs "2"))))
              (EBin BComma (EBin BNullish (EBin BLogOr (EId (zs "d")) (EId (zs "e"))) (EUn UPostInc (EId (zs "f"))))
                           (EUn UTypeof (ERe (zs "x") (zs "g")))).
Example ex_tree_wf : wf ex_tree.
Proof.
  unfold ex_tree. simpl. unfold word_ok, word_shape, id_shape, num_shape, re_shape.
  repeat split; try discriminate; try (left; repeat split; try discriminate; vm_compute; reflexivity); try (vm_compute; reflexivity); try (intro; reflexivity); try (intro; discriminate).
Qed.
Example ex_tree_print : print_expr true false true ex_tree = zs "a.b=(-c)**2,(d||e)??f++,typeof/x/g".
Proof. vm_compute. reflexivity. Qed.
Example ex_tree_parse : parse_text false (print_expr true false true ex_tree) = Some (norm ex_tree) /\ norm ex_tree <> ex_tree.
Proof. split; [vm_compute; reflexivity | vm_compute; discriminate]. Qed.
Example ex_tree_lexok : lexok ex_tree /\ lexok (EUn UPreInc (EDot (EBin BAdd (ENum (zs "1")) (EId (zs "a"))) (zs "b"))).
Proof. simpl. repeat split; try (intro; reflexivity); try (intro; discriminate). Qed.
Example ex_tree_roundtrip : parse_text false (print_expr false false true ex_tree) = Some (norm ex_tree).
Proof. apply print_parse_roundtrip_concrete; [apply ex_tree_wf | apply ex_tree_lexok]. Qed.
Example ex_tree_fixed : print_expr true false true (norm ex_tree) = print_expr true false true ex_tree.
Proof. apply (print_fixed_point_concrete false false true ex_tree); [apply ex_tree_wf | apply ex_tree_lexok | apply ex_tree_roundtrip]. Qed.

(* conditional and index access: nested conditionals, assignment in a branch, comma in a branch and in an index *)
Definition ex_tree2 : expr :=
  ECond (EBin BNullish (EId (zs "a")) (EIndex (EId (zs "b")) (EBin BComma (EId (zs "c")) (EId (zs "d")))))
        (EBin BAssign (EIndex (EDot (EId (zs "e")) (zs "f")) (ENum (zs "0"))) (ECond (EId (zs "g")) (EId (zs "h")) (EId (zs "i"))))
        (EBin BAdd (ECond (EId (zs "j")) (EBin BComma (EId (zs "k")) (EId (zs "l"))) (EId (zs "m"))) (EUn UPostInc (EIndex (EId (zs "n")) (EId (zs "o"))))).
Example ex_tree2_print : print_expr true false true ex_tree2 = zs "a??b[c,d]?e.f[0]=g?h:i:(j?(k,l):m)+n[o]++".
Proof. vm_compute. reflexivity. Qed.
Example ex_tree2_wf : wf ex_tree2 /\ lexok ex_tree2.
Proof.
  unfold ex_tree2. simpl. unfold word_ok, word_shape, id_shape, num_shape.
  repeat split; try discriminate; try (left; repeat split; try discriminate; vm_compute; reflexivity); try (vm_compute; reflexivity); try (intro; reflexivity); try (intro; discriminate).
Qed.
Example ex_tree2_roundtrip : parse_text false (print_expr true false true ex_tree2) = Some (norm ex_tree2).
Proof. apply print_parse_roundtrip_concrete; apply ex_tree2_wf. Qed.

(* calls and new: a call inside the callee of "new" (directly, under a member access, as the base of an
   index), "new" as a member target keeps its parentheses, the empty "()" is dropped only when minifying
   and only where the grammar allows it, argument lists hold assignments and conditionals but a comma
   operator argument is parenthesised *)
Definition ex_tree3 : expr :=
  ECall (EDot (ENew (EDot (ECall (EId (zs "a")) ANil) (zs "b")) ANil) (zs "c"))
        (ACons (ENew (ENew (EId (zs "d")) ANil) ANil)
        (ACons (EBin BComma (EId (zs "e")) (EId (zs "f")))
        (ACons (EBin BAssign (EId (zs "g")) (ENew (EIndex (EId (zs "h")) (ECall (EId (zs "i")) (ACons (ENum (zs "1")) ANil))) (ACons (EId (zs "j")) ANil)))
        (ACons (EUn UPostInc (EDot (ENew (EId (zs "k")) ANil) (zs "l"))) ANil)))).
Example ex_tree3_print_min : print_expr true false true ex_tree3 = zs "new(a()).b().c(new new d(),(e,f),g=new h[i(1)](j),new k().l++)".
Proof. vm_compute. reflexivity. Qed.
Example ex_tree3_print : print_expr false false true ex_tree3 = zs "new (a()).b().c(new new d()(), (e, f), g = new h[i(1)](j), new k().l++)".
Proof. vm_compute. reflexivity. Qed.
Example ex_tree3_wf : wf ex_tree3 /\ lexok ex_tree3.
Proof.
  unfold ex_tree3. simpl. unfold word_ok, word_shape, id_shape, num_shape.
  repeat split; try discriminate; try (left; repeat split; try discriminate; vm_compute; reflexivity); try (vm_compute; reflexivity); try (intro; reflexivity); try (intro; discriminate).
Qed.
Example ex_tree3_roundtrip : forall mw, parse_text false (print_expr mw false true ex_tree3) = Some (norm ex_tree3).
Proof. intro mw. apply print_parse_roundtrip_concrete; apply ex_tree3_wf. Qed.
Example ex_tree3_fixed : forall mw, print_expr mw false true (norm ex_tree3) = print_expr mw false true ex_tree3.
Proof. intro mw. apply (print_fixed_point_concrete true false true ex_tree3 _ (proj1 ex_tree3_wf) (proj2 ex_tree3_wf) (ex_tree3_roundtrip true)). Qed.

(* numeric literal texts: only a plain integer needs the space before "." *)
Definition ex_tree4 : expr :=
  EBin BSub (EBin BAdd (EDot (ENum (zs "1.5")) (zs "a")) (EBin BMul (EDot (ENum (zs "1e21")) (zs "b")) (EDot (ENum (zs "0xff")) (zs "c"))))
            (EBin BPow (EDot (ENum (zs "2")) (zs "d")) (EIndex (ENum (zs "5e-7")) (ENum (zs "12")))).
Example ex_tree4_print : print_expr true false true ex_tree4 = zs "1.5.a+1e21.b*0xff.c-2 .d**5e-7[12]".
Proof. vm_compute. reflexivity. Qed.
Example ex_tree4_wf : wf ex_tree4 /\ lexok ex_tree4.
Proof.
  unfold ex_tree4. simpl. unfold word_ok, word_shape, id_shape.
  repeat split; try discriminate; try (vm_compute; reflexivity).
  - right. left. exists (zs "1"), (zs "5"). repeat split; discriminate.
  - right. right. left. exists (zs "1"), [], (zs "21"). repeat split; try discriminate. left. reflexivity.
  - right. right. right. left. exists (zs "ff"). repeat split; discriminate.
  - left. repeat split; discriminate.
  - right. right. left. exists (zs "5"), [45], (zs "7"). repeat split; try discriminate. right. reflexivity.
  - left. repeat split; discriminate.
Qed.
Example ex_tree4_roundtrip : forall mw, parse_text false (print_expr mw false true ex_tree4) = Some (norm ex_tree4).
Proof. intro mw. apply print_parse_roundtrip_concrete; apply ex_tree4_wf. Qed.

(* forbidIn (the head of a for loop): "in" is parenthesised where the grammar parameter [~In] reaches, and only there *)
Definition ex_tree5 : expr :=
  EBin BComma
    (EBin BAssign (EId (zs "a")) (EBin BIn (EId (zs "b")) (EId (zs "c"))))
    (ECond (EBin BIn (EId (zs "d")) (EId (zs "e")))
           (EBin BIn (EId (zs "f")) (EId (zs "g")))
           (EBin BLogOr (EUn UNot (EBin BIn (EId (zs "h")) (EId (zs "i"))))
                        (ECall (EId (zs "j")) (ACons (EBin BIn (EId (zs "k")) (EIndex (EId (zs "l")) (EBin BIn (EId (zs "m")) (EId (zs "n"))))) ANil)))).
Example ex_tree5_print_fi : print_expr true true false ex_tree5 = zs "a=(b in c),(d in e)?f in g:!(h in i)||j(k in l[m in n])".
Proof. vm_compute. reflexivity. Qed.
Example ex_tree5_print : print_expr true false true ex_tree5 = zs "a=b in c,d in e?f in g:!(h in i)||j(k in l[m in n])".
Proof. vm_compute. reflexivity. Qed.
Example ex_tree5_wf : wf ex_tree5 /\ lexok ex_tree5.
Proof.
  unfold ex_tree5. simpl. unfold word_ok, word_shape, id_shape.
  repeat split; try discriminate; try (left; repeat split; try discriminate; vm_compute; reflexivity); try (vm_compute; reflexivity); try (intro; reflexivity); try (intro; discriminate).
Qed.
Example ex_tree5_roundtrip : forall mw fi, parse_text fi (print_expr mw fi false ex_tree5) = Some (norm ex_tree5).
Proof. intros mw fi. apply print_parse_roundtrip_concrete; apply ex_tree5_wf. Qed.
(* the flag matters: without the parentheses the [~In] parser does not read the text back *)
Example ex_tree5_flag_needed : parse_text true (print_expr true false true ex_tree5) = None.
Proof. vm_compute. reflexivity. Qed.

(* statement start (fix ac301ad, finding C13-D7): an expression statement must not begin with "let [" *)
Definition ex_let : expr :=
  EBin BAssign (EIndex (EId (zs "let")) (EId (zs "x")))
               (EBin BAdd (EUn UPostInc (EDot (EIndex (EId (zs "let")) (EIndex (EId (zs "let")) (EId (zs "y")))) (zs "z")))
                          (ECall (EIndex (EId (zs "let")) (ENum (zs "0"))) ANil)).
Example ex_let_stmt : print_expr true false true ex_let = zs "(let)[x]=let[let[y]].z+++let[0]()".
Proof. vm_compute. reflexivity. Qed.
Example ex_let_for_init : print_expr true true false ex_let = zs "let[x]=let[let[y]].z+++let[0]()".
Proof. vm_compute. reflexivity. Qed.
Example ex_let_wf : wf ex_let /\ lexok ex_let.
Proof.
  unfold ex_let. simpl. unfold word_ok, word_shape, id_shape, num_shape.
  repeat split; try discriminate; try (left; repeat split; try discriminate; vm_compute; reflexivity); try (vm_compute; reflexivity); try (intro; reflexivity); try (intro; discriminate).
Qed.
Example ex_let_roundtrip : forall mw, parse_stmt_text (print_expr mw false true ex_let) = Some (norm ex_let).
Proof. intro mw. apply print_stmt_roundtrip_all; apply ex_let_wf. Qed.
(* the guard is needed: without the parentheses the text is not an expression statement *)
Example ex_let_guard_needed : parse_stmt_text (print_expr true false false ex_let) = None.
Proof. vm_compute. reflexivity. Qed.
(* the witnesses of C13-D7 *)
Example d7_witnesses :
  print_expr true false true (EIndex (EId (zs "let")) (EId (zs "x"))) = zs "(let)[x]" /\
  print_expr true false true (EUn UPostInc (EDot (EIndex (EId (zs "let")) (EId (zs "x"))) (zs "y"))) = zs "(let)[x].y++" /\
  print_expr true false true (ECall (EIndex (EId (zs "let")) (EId (zs "x"))) ANil) = zs "(let)[x]()" /\
  print_expr true false true (EBin BAssign (EId (zs "a")) (EIndex (EId (zs "let")) (EId (zs "x")))) = zs "a=let[x]".
Proof. vm_compute. repeat split. Qed.

(* finding C13-D10 (repaired by 177d11f): the head of a for loop; without the guard the text "let[x]" would be a
   lexical declaration, not the expression that was printed *)
Example for_head_let :
  print_expr true true true (EIndex (EId (zs "let")) (EId (zs "x"))) = zs "(let)[x]" /\
  parse_for_head_text (print_expr true true true (EIndex (EId (zs "let")) (EId (zs "x")))) = Some (EIndex (EId (zs "let")) (EId (zs "x"))) /\
  parse_for_head_text (print_expr true true false (EIndex (EId (zs "let")) (EId (zs "x")))) = None.
Proof. vm_compute. repeat split. Qed.

(* await and yield (with operand) as keyword prefix operators: await binds like typeof, yield like an assignment;
   the operand of yield inherits forbidIn, a parenthesised yield does not *)
Definition ex_tree6 : expr :=
  EUn UYield (EBin BAssign (EId (zs "a"))
    (ECond (EUn UAwait (EBin BIn (EId (zs "b")) (EId (zs "c"))))
           (EBin BPow (EUn UAwait (EId (zs "d"))) (EUn UYield (EId (zs "e"))))
           (EBin BAdd (EUn UYield (EBin BIn (EId (zs "f")) (EId (zs "g")))) (EUn UAwait (EUn UNot (ERe (zs "x") (zs ""))))))).
Example ex_tree6_print : print_expr true false true ex_tree6 = zs "yield a=await(b in c)?(await d)**(yield e):(yield f in g)+await!/x/".
Proof. vm_compute. reflexivity. Qed.
Example ex_tree6_print_fi : print_expr true true false (EUn UYield (EBin BIn (EId (zs "f")) (EId (zs "g")))) = zs "yield(f in g)".
Proof. vm_compute. reflexivity. Qed.
Example ex_tree6_wf : wf ex_tree6 /\ lexok ex_tree6.
Proof.
  unfold ex_tree6. simpl. unfold word_ok, word_shape, id_shape, re_shape.
  repeat split; try discriminate; try (left; repeat split; try discriminate; vm_compute; reflexivity); try (vm_compute; reflexivity); try (intro; reflexivity); try (intro; discriminate).
Qed.
Example ex_tree6_roundtrip : forall mw fi ss, parse_text fi (print_expr mw fi ss ex_tree6) = Some (norm ex_tree6).
Proof. intros mw fi ss. apply print_parse_roundtrip_concrete; apply ex_tree6_wf. Qed.

(* the lexical side condition only excludes a regular expression directly behind a prefix ++/-- *)
Example lexok_wide : lexok (EUn UPreInc (EDot (ENew (EId (zs "a")) ANil) (zs "b"))) /\ lexok (EUn UPreDec (EIndex (ENum (zs "1")) (EId (zs "x"))))
  /\ ~ lexok (EUn UPreInc (EDot (ERe (zs "x") (zs "")) (zs "y"))).
Proof. simpl. repeat split; try (intro; reflexivity). intros [_ H]. specialize (H eq_refl). discriminate. Qed.
Example lexok_wide_print : print_expr true false true (EUn UPreInc (EDot (ENew (EId (zs "a")) ANil) (zs "b"))) = zs "++new a().b"
  /\ print_expr true false true (EUn UPreDec (EIndex (ENum (zs "1")) (EId (zs "x")))) = zs "--1[x]".
Proof. vm_compute. split; reflexivity. Qed.

(* a number text with a leading dot (minify-whitespace prints 0.5 as .5): "?" followed by ".5" lexes as "?" and ".5",
   never as the optional-chaining punctuator "?." *)
Definition ex_dot5 : expr :=
  ECond (EId (zs "a")) (ENum (zs ".5")) (EBin BAdd (EDot (ENum (zs ".25")) (zs "x")) (EBin BIn (EId (zs "b")) (ENum (zs ".5")))).
Example ex_dot5_print : print_expr true false true ex_dot5 = zs "a?.5:.25.x+(b in .5)".
Proof. vm_compute. reflexivity. Qed.
Example ex_dot5_wf : wf ex_dot5 /\ lexok ex_dot5.
Proof.
  unfold ex_dot5. simpl. unfold word_ok, word_shape, id_shape.
  repeat split; try discriminate; try (left; repeat split; try discriminate; vm_compute; reflexivity); try (vm_compute; reflexivity).
  - right. right. right. right. exists (zs "5"). repeat split; discriminate.
  - right. right. right. right. exists (zs "25"). repeat split; discriminate.
  - right. right. right. right. exists (zs "5"). repeat split; discriminate.
Qed.
Example ex_dot5_roundtrip : forall mw, parse_stmt_text (print_expr mw false true ex_dot5) = Some (norm ex_dot5).
Proof. intro mw. apply print_stmt_roundtrip_all; apply ex_dot5_wf. Qed.
