From V Require Import Common.Base C13.KwSpec C13.Token C13.LexSpec C13.LexProofs C13.Toks C13.TokenProofs C13.RenderLex C13.Harness gen.KeywordsGen.
From Coq Require Import String.
(* non-vacuity / sanity: concrete values *)
Example kw_count : (List.length gen_keywords = 36)%nat /\ (List.length gen_strict_reserved = 9)%nat /\ (List.length ecma_reserved_words = 38)%nat.
Proof. vm_compute. repeat split. Qed.
Example render_ex :
  render true st0 [IId (zs "a"); IOp BAdd; IOp UPos; IId (zs "b"); IOp BLt; IOp UNot; IOp UPreDec; IId (zs "b");
                   IOp BDiv; IRe (zs "x") (zs "g"); IOp BIn; INum (zs "1"); IDot (zs "c"); IOp UPostDec; IOp BGt; IId (zs "a")]
  = zs "a+ +b<! --b/ /x/g in 1 .c-- >a".
Proof. vm_compute. reflexivity. Qed.
Example print_ex :
  print_expr false (EBin BAdd (EId (zs "a")) (EBin BMul (EUn UPos (EId (zs "b"))) (EBin BSub (EId (zs "a")) (EUn UNeg (ENum (zs "1"))))))
  = zs "a + +b * (a - -1)".
Proof. vm_compute. reflexivity. Qed.

(* the hypotheses of render_lex are satisfiable by a chain that exercises every gluing rule *)
Definition ex_chain : list item :=
  [IId (zs "a"); IOp BAdd; IOp UPos; IId (zs "b"); IOp BLt; IOp UNot; IOp UPreDec; IId (zs "b");
   IOp BDiv; IRe (zs "x") (zs "g"); IOp BIn; INum (zs "1"); IDot (zs "c"); IOp UPostDec; IOp BGt; IOpen; IOp UTypeof; IId (zs "of"); IClose].
Example ex_chain_ok : Forall item_ok ex_chain /\ chain None ex_chain = true.
Proof.
  split; [|vm_compute; reflexivity].
  unfold ex_chain. repeat constructor; try discriminate; try (vm_compute; congruence); vm_compute; reflexivity.
Qed.
Example ex_chain_lex : lex (render true st0 ex_chain) = Some (toks ex_chain).
Proof. apply RenderLex.render_lex_all; apply ex_chain_ok. Qed.
