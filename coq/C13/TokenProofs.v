(* Printer side: shape of what each emission appends, the state it leaves,
   and the main theorem render_lex. *)
From V Require Import Common.Base C13.KwSpec C13.Token C13.LexSpec C13.LexProofs C13.Toks.
From Coq Require Import String.

(* model and specification use the same ASCII character classes *)
Lemma id_part_same c : is_id_part c = id_part c. Proof. reflexivity. Qed.

Definition text (i : item) : list Z :=
  match i with
  | IId s => s | INum s => s
  | IRe b f => [47] ++ b ++ [47] ++ f
  | IOp o => op_text o
  | IDot s => 46 :: s
  | IOpen => [40] | IClose => [41]
  | IQuest => [63] | IColon => [58] | ILBrack => [91] | IRBrack => [93]
  | INew => [110; 101; 119] | ICallOpen => [40]
  end.
Definition sp (b : bool) : list Z := if b then [32] else [].

Definition id_hazard (st : pst) : bool :=
  is_id_part (lastc st) || (match mk st with MRe => true | _ => false end) || esc st.
Definition op_hazard (st : pst) (o : op) : bool :=
  match mk st with MOp prev => space_rule prev o st | _ => false end.

Definition pre_sp (mw : bool) (st : pst) (i : item) : bool :=
  match i with
  | IId _ | INum _ => id_hazard st
  | IRe b _ => (lastc st =? 47) || ((lastc st =? 60) && starts_script b)
  | IOp o =>
      match op_kind o with
      | KBin => if op_eqb o BComma then (if op_is_keyword o then id_hazard st else op_hazard st o)
                else if mw then (if op_is_keyword o then id_hazard st else op_hazard st o) else true
      | _ => if op_is_keyword o then id_hazard st else op_hazard st o
      end
  | IDot _ => match mk st with MNum => true | _ => false end
  | INew => id_hazard st
  | IQuest | IColon => negb mw
  | _ => false
  end.
Definition post_sp (mw : bool) (i : item) : bool :=
  match i with
  | IOp o => match op_kind o with KBin => negb mw | _ => op_is_keyword o && negb mw end
  | IQuest | IColon | INew => negb mw
  | _ => false
  end.
Definition after (mw : bool) (st : pst) (i : item) : pst := fst (emit mw i st).

(* ---- primitives ---- *)
Lemma seq_snd (a b : act) st : snd ((a ;; b) st) = snd (a st) ++ snd (b (fst (a st))).
Proof. unfold seq. destruct (a st) as [s1 o1]. simpl. destruct (b s1). reflexivity. Qed.
Lemma seq_fst (a b : act) st : fst ((a ;; b) st) = fst (b (fst (a st))).
Proof. unfold seq. destruct (a st) as [s1 o1]. simpl. destruct (b s1). reflexivity. Qed.
Lemma pr_snd t st : snd (pr t st) = t.
Proof. destruct t; reflexivity. Qed.
Lemma pr_fst t st : t <> [] -> fst (pr t st) = mkPst (last t 0) (last (removelast t) (lastc st)) MNone (ends_esc t).
Proof. destruct t; [congruence | reflexivity]. Qed.
Lemma psbi_snd st : snd (printSpaceBeforeIdentifier st) = sp (id_hazard st).
Proof. unfold printSpaceBeforeIdentifier, id_hazard. destruct (is_id_part (lastc st) || _ || esc st); reflexivity. Qed.
Lemma psbi_fst st : fst (printSpaceBeforeIdentifier st) = if id_hazard st then mkPst 32 (lastc st) MNone false else st.
Proof. unfold printSpaceBeforeIdentifier, id_hazard. destruct (is_id_part (lastc st) || _ || esc st); reflexivity. Qed.
Lemma psbo_snd o st : snd (printSpaceBeforeOperator o st) = sp (op_hazard st o).
Proof. unfold printSpaceBeforeOperator, op_hazard. destruct (mk st); try reflexivity. destruct (space_rule _ _ _); reflexivity. Qed.
Lemma psbo_fst o st : fst (printSpaceBeforeOperator o st) = if op_hazard st o then mkPst 32 (lastc st) MNone false else st.
Proof. unfold printSpaceBeforeOperator, op_hazard. destruct (mk st); try reflexivity. destruct (space_rule _ _ _); reflexivity. Qed.
Lemma ps_snd mw st : snd (printSpace mw st) = sp (negb mw).
Proof. destruct mw; reflexivity. Qed.
Lemma ps_fst mw st : fst (printSpace mw st) = if mw then st else mkPst 32 (lastc st) MNone false.
Proof. destruct mw; reflexivity. Qed.

Lemma id_hazard_sp l2 : id_hazard (mkPst 32 l2 MNone false) = false. Proof. reflexivity. Qed.
Lemma op_hazard_sp l2 o : op_hazard (mkPst 32 l2 MNone false) o = false. Proof. reflexivity. Qed.

Lemma op_text_nonempty o : op_text o <> [].
Proof. destruct o; discriminate. Qed.

(* ---- what an emission appends ---- *)
Lemma emit_out mw i st : snd (emit mw i st) = sp (pre_sp mw st i) ++ text i ++ sp (post_sp mw i).
Proof.
  destruct i as [s|s|b f|o|s| | | | | | | |]; unfold emit, pre_sp, post_sp, text.
  - rewrite seq_snd, psbi_snd, pr_snd. simpl. rewrite app_nil_r. reflexivity.
  - rewrite !seq_snd, psbi_snd, pr_snd. destruct (no_dex s); simpl; rewrite !app_nil_r; reflexivity.
  - rewrite !seq_snd, pr_snd. simpl snd at 2. rewrite !app_nil_r.
    destruct ((lastc st =? 47) || _); reflexivity.
  - destruct (op_kind o) eqn:Ek.
    + destruct (op_is_keyword o) eqn:Ew.
      * rewrite !seq_snd, psbi_snd, pr_snd, ps_snd. simpl andb. rewrite <- app_assoc. reflexivity.
      * rewrite !seq_snd, psbo_snd, pr_snd. simpl. rewrite !app_nil_r. reflexivity.
    + destruct (op_is_keyword o) eqn:Ew.
      * rewrite !seq_snd, psbi_snd, pr_snd, ps_snd. simpl andb. rewrite <- app_assoc. reflexivity.
      * rewrite !seq_snd, psbo_snd, pr_snd. simpl. rewrite !app_nil_r. reflexivity.
    + destruct (op_eqb o BComma) eqn:Ec; destruct (op_is_keyword o) eqn:Ew; destruct mw;
        rewrite !seq_snd; unfold nop, printSpace, nop; simpl fst; simpl snd;
        rewrite ?seq_snd, ?seq_fst, ?psbi_snd, ?psbo_snd, ?pr_snd, ?ps_snd;
        simpl snd; rewrite ?id_hazard_sp, ?op_hazard_sp; simpl; rewrite ?app_nil_r; try reflexivity.
      all: try (rewrite <- app_assoc; reflexivity).
  - rewrite !seq_snd, !pr_snd. destruct (mk st); simpl; rewrite ?app_nil_r; reflexivity.
  - reflexivity.
  - reflexivity.
  - rewrite !seq_snd, !ps_snd, pr_snd. rewrite <- app_assoc. reflexivity.
  - rewrite !seq_snd, !ps_snd, pr_snd. rewrite <- app_assoc. reflexivity.
  - reflexivity.
  - reflexivity.
  - rewrite !seq_snd, psbi_snd, pr_snd, ps_snd. rewrite <- app_assoc. reflexivity.
  - reflexivity.
Qed.

(* ---- the state an emission leaves ---- *)
Definition natural_mark (i : item) : mark :=
  match i with
  | INum s => if no_dex s then MNum else MNone
  | IRe _ _ => MRe
  | IOp o => if op_is_keyword o then MNone else MOp o
  | _ => MNone
  end.

Lemma set_mark_fst m st : fst (set_mark m st) = mkPst (lastc st) (last2 st) m (esc st).
Proof. reflexivity. Qed.

Lemma last_cons_ne {A} (x : A) l d : l <> [] -> last (x :: l) d = last l d.
Proof. destruct l; [congruence | reflexivity]. Qed.

Lemma after_lastc_mk mw st i :
  text i <> [] ->
  lastc (after mw st i) = (if post_sp mw i then 32 else last (text i) 0) /\
  mk (after mw st i) = (if post_sp mw i then MNone else natural_mark i).
Proof.
  intro Hne. unfold after.
  destruct i as [s|s|b f|o|s| | | | | | | |]; unfold emit, post_sp, text, natural_mark in *.
  - rewrite seq_fst, pr_fst by exact Hne. split; reflexivity.
  - destruct (no_dex s); [rewrite !seq_fst, set_mark_fst, pr_fst by exact Hne; split; reflexivity|].
    rewrite seq_fst. unfold nop. simpl fst. rewrite seq_fst, pr_fst by exact Hne. split; reflexivity.
  - rewrite !seq_fst, set_mark_fst, pr_fst by discriminate. split; reflexivity.
  - pose proof (op_text_nonempty o) as Ho.
    destruct (op_kind o) eqn:Ek.
    + destruct (op_is_keyword o) eqn:Ew.
      * rewrite !seq_fst, ps_fst. destruct mw; simpl; [rewrite pr_fst by exact Ho; split; reflexivity | split; reflexivity].
      * rewrite !seq_fst, set_mark_fst, pr_fst by exact Ho. split; reflexivity.
    + destruct (op_is_keyword o) eqn:Ew.
      * rewrite !seq_fst, ps_fst. destruct mw; simpl; [rewrite pr_fst by exact Ho; split; reflexivity | split; reflexivity].
      * rewrite !seq_fst, set_mark_fst, pr_fst by exact Ho. split; reflexivity.
    + rewrite !seq_fst, ps_fst. destruct mw; simpl negb; cbv iota.
      * destruct (op_is_keyword o) eqn:Ew.
        -- rewrite !seq_fst, pr_fst by exact Ho. split; reflexivity.
        -- rewrite !seq_fst, set_mark_fst, pr_fst by exact Ho. split; reflexivity.
      * split; reflexivity.
  - rewrite !seq_fst. destruct s as [|c s'].
    + simpl. split; reflexivity.
    + rewrite (pr_fst (c :: s')) by discriminate. simpl. split; [|reflexivity].
      destruct s'; reflexivity.
  - split; reflexivity.
  - split; reflexivity.
  - destruct mw; split; reflexivity.
  - destruct mw; split; reflexivity.
  - split; reflexivity.
  - split; reflexivity.
  - rewrite !seq_fst, ps_fst. destruct mw; simpl; split; reflexivity.
  - split; reflexivity.
Qed.

Lemma after_last2_not mw st :
  pre_sp mw st (IOp UNot) = false -> last2 (after mw st (IOp UNot)) = lastc st.
Proof.
  unfold pre_sp, after, emit. change (op_kind UNot) with KPre. change (op_is_keyword UNot) with false. cbv iota. intro H.
  rewrite !seq_fst, set_mark_fst, pr_fst by discriminate. simpl.
  rewrite psbo_fst, H. reflexivity.
Qed.

(* render, one step *)
Lemma render_cons mw st i r :
  render mw st (i :: r) = sp (pre_sp mw st i) ++ text i ++ sp (post_sp mw i) ++ render mw (after mw st i) r.
Proof.
  simpl. unfold after. pose proof (emit_out mw i st) as H.
  destruct (emit mw i st) as [st' o]. simpl in *. rewrite H. rewrite <- !app_assoc. reflexivity.
Qed.

(* ---- well-formed items and grammatical adjacency ---- *)
(* identifiers: ASCII, or ASCII followed by one "\u{HEX}" escape (an astral character under the
   ASCII-only charset); never a word after which a regular expression could start *)
Definition word_ok (s : list Z) : Prop := word_shape s /\ regex_after_word s = false.
Definition item_ok (i : item) : Prop :=
  match i with
  | IId s => word_ok s
  | IDot s => id_shape s /\ regex_after_word s = false
  | INum s => num_shape s
  | IRe b f => re_shape b f
  | _ => True
  end.

Definition is_post (i : item) : bool :=
  match i with IOp o => match op_kind o with KPost => true | _ => false end | _ => false end.
Definition ends_operand (i : item) : bool :=
  match i with IId _ | INum _ | IRe _ _ | IDot _ | IClose | IRBrack => true | IOp _ => is_post i | _ => false end.
Definition starts_operand (i : item) : bool :=
  match i with
  | IId _ | INum _ | IRe _ _ | IOpen | INew => true
  | IOp o => match op_kind o with KPre => true | _ => false end
  | _ => false
  end.
Definition is_update_pre (i : item) : bool :=
  match i with IOp UPreDec | IOp UPreInc => true | _ => false end.
(* which item may follow which in an expression of the fragment *)
Definition adj (a b : item) : bool :=
  if ends_operand a then
    match b with
    | IOp o => match op_kind o with
               | KBin => true
               | KPost => match a with IId _ | IDot _ | IClose | IRBrack => true | _ => false end
               | KPre => false
               end
    | IDot _ | ILBrack | ICallOpen => negb (is_post a)
    | IClose | IRBrack | IQuest | IColon => true
    | _ => false
    end
  else (starts_operand b || (match a, b with ICallOpen, IClose => true | _, _ => false end))
       && (if is_update_pre a then match b with IId _ | IOpen | INum _ | INew => true | _ => false end else true).

Fixpoint chain (prev : option item) (l : list item) : bool :=
  match l with
  | [] => true
  | i :: r => (match prev with None => starts_operand i | Some p => adj p i end) && chain (Some i) r
  end.

Definition last_tok (i : item) : tok := last (toks_of i) (TP []).
Definition ctx_of (prev : option item) : ctx :=
  match prev with None => ctx0 | Some i => ctx_after (last_tok i) end.

(* ---- finite facts about the operator table ---- *)
Lemma all_ops_complete o : In o all_ops.
Proof. destruct o; simpl; tauto. Qed.

Definition forall_ops (f : op -> bool) : bool := forallb f all_ops.
Lemma forall_ops_sound f : forall_ops f = true -> forall o, f o = true.
Proof. intros H o. unfold forall_ops in H. rewrite forallb_forall in H. apply H. apply all_ops_complete. Qed.

Definition nonkw (o : op) : bool := negb (op_is_keyword o).

(* 32 and "nothing" (-1) are never hazards; hazard characters are never identifier characters *)
Definition chk_basic (o : op) : bool :=
  forallb (fun ls =>
    negb (memz 32 (hazard_chars ls (op_text o))) && negb (memz (-1) (hazard_chars ls (op_text o)))
    && negb (memz 40 (hazard_chars ls (op_text o)))
    && forallb (fun h => negb (id_part h)) (hazard_chars ls (op_text o))) [true; false]
  && (op_is_keyword o || (negb (id_part (hdz (op_text o))) && negb (hdz (op_text o) =? 46) && negb (hdz (op_text o) =? 32) && negb (hdz (op_text o) =? 92)
                          && is_punct (op_text o) && negb (zlist_eqb (op_text o) (zs "?."))))
  && (negb (op_is_keyword o) || (id_part (last (op_text o) 0) && id_start (hdz (op_text o))
                                 && forallb id_part (op_text o) && regex_after_word (op_text o))).
Lemma chk_basic_all : forall_ops chk_basic = true.
Proof. vm_compute. reflexivity. Qed.

(* a regular expression after an operator: only "/" itself is dangerous, and the printer separates it *)
Definition chk_re (o : op) : bool :=
  forallb (fun ls => (last (op_text o) 0 =? 47) || negb (memz 47 (hazard_chars ls (op_text o)))) [true; false].
Lemma chk_re_all : forall_ops chk_re = true.
Proof. vm_compute. reflexivity. Qed.

(* postfix operators have no hazards when they are not the first token *)
Lemma post_hazards o : op_kind o = KPost -> hazard_chars false (op_text o) = [].
Proof. destruct o; try discriminate; intros _; vm_compute; reflexivity. Qed.
Lemma paren_hazards ls : hazard_chars ls [40] = [] /\ hazard_chars ls [41] = [].
Proof. destruct ls; vm_compute; split; reflexivity. Qed.
Lemma simple_hazards ls : hazard_chars ls [63] = [63; 46; 63] /\ hazard_chars ls [58] = [] /\ hazard_chars ls [91] = [] /\ hazard_chars ls [93] = [].
Proof. destruct ls; vm_compute; repeat split; reflexivity. Qed.

(* operator followed by a prefix operator: when the printer inserts no space,
   the first character of the second is no hazard for the first, with the one
   exception "<" "!" (the HTML comment opener "<!--" needs two more characters) *)
Definition st_abs (lc : Z) (b60 : bool) (m : mark) (e : bool) : pst := mkPst lc (if b60 then 60 else 0) m e.
Definition chk_opop (o o' : op) : bool :=
  forallb (fun mw => forallb (fun ls => forallb (fun b60 => forallb (fun e =>
    implb (nonkw o && nonkw o' && negb (is_post (IOp o)) && adj (IOp o) (IOp o') && negb (post_sp mw (IOp o))
           && negb (pre_sp mw (st_abs (last (op_text o) 0) b60 (MOp o) e) (IOp o')))
          ((op_eqb o BLt && op_eqb o' UNot) || negb (memz (hdz (op_text o')) (hazard_chars ls (op_text o)))))
    [true; false]) [true; false]) [true; false]) [true; false].
Lemma chk_opop_all : forall_ops (fun o => forall_ops (chk_opop o)) = true.
Proof. vm_compute. reflexivity. Qed.

Lemma pre_sp_abs mw st i :
  pre_sp mw st i = pre_sp mw (st_abs (lastc st) (last2 st =? 60) (mk st) (esc st)) i.
Proof.
  assert (E : forall p n, space_rule p n st = space_rule p n (st_abs (lastc st) (last2 st =? 60) (mk st) (esc st))).
  { intros p n. unfold space_rule, st_abs. simpl last2. destruct (last2 st =? 60); reflexivity. }
  destruct i; simpl; try reflexivity; unfold op_hazard, id_hazard; simpl mk; simpl lastc; simpl esc;
    destruct (mk st); try reflexivity; rewrite <- ?E; reflexivity.
Qed.

Ltac split_andb := repeat match goal with H : _ && _ = true |- _ => apply andb_true_iff in H; destruct H end.

Lemma op_facts o :
  (forall ls, memz 32 (hazard_chars ls (op_text o)) = false /\ memz (-1) (hazard_chars ls (op_text o)) = false
              /\ memz 40 (hazard_chars ls (op_text o)) = false
              /\ forallb (fun h => negb (id_part h)) (hazard_chars ls (op_text o)) = true) /\
  (op_is_keyword o = false ->
     id_part (hdz (op_text o)) = false /\ hdz (op_text o) <> 46 /\ hdz (op_text o) <> 32 /\ hdz (op_text o) <> 92
     /\ is_punct (op_text o) = true /\ zlist_eqb (op_text o) (zs "?.") = false) /\
  (op_is_keyword o = true ->
     id_part (last (op_text o) 0) = true /\ id_start (hdz (op_text o)) = true
     /\ forallb id_part (op_text o) = true /\ regex_after_word (op_text o) = true).
Proof.
  pose proof (forall_ops_sound _ chk_basic_all o) as C. unfold chk_basic in C. simpl forallb in C.
  split_andb. split; [|split].
  - intro ls. destruct ls; repeat split; try (apply negb_true_iff; assumption); assumption.
  - intro Ew. match goal with H : op_is_keyword o || _ = true |- _ => rewrite Ew in H; simpl in H end. split_andb.
    repeat split; try (apply negb_true_iff; assumption); try assumption.
    + match goal with H : negb (_ =? 46) = true |- _ => apply negb_true_iff in H; apply Z.eqb_neq in H; exact H end.
    + match goal with H : negb (_ =? 32) = true |- _ => apply negb_true_iff in H; apply Z.eqb_neq in H; exact H end.
    + match goal with H : negb (_ =? 92) = true |- _ => apply negb_true_iff in H; apply Z.eqb_neq in H; exact H end.
  - intro Ew. match goal with H : negb (op_is_keyword o) || _ = true |- _ => rewrite Ew in H; simpl in H end. split_andb.
    repeat split; assumption.
Qed.

(* ---- the character that follows an item's text in the rendering ---- *)
Definition next_hd (mw : bool) (st' : pst) (post : bool) (r : list item) : Z :=
  if post then 32 else
  match r with [] => -1 | j :: _ => if pre_sp mw st' j then 32 else hdz (text j) end.

Lemma text_ok i : item_ok i -> text i <> [] /\ hdz (text i) <> 32.
Proof.
  destruct i as [s|s|b f|o|s| | | | | | | |]; simpl; intro H.
  - destruct H as [Hw _]. destruct (word_shape_hd s Hw) as [Hne Hs]. split; [exact Hne|]. apply id_start_facts in Hs. tauto.
  - destruct (num_hd s H) as (c & s' & E & Hc). subst s. split; [discriminate|]. simpl. unfold digit in Hc. lia.
  - split; [discriminate | lia].
  - destruct (op_facts o) as (_ & Fn & Fk). split; [apply op_text_nonempty|].
    destruct (op_is_keyword o) eqn:Ew.
    + destruct (Fk eq_refl) as (_ & Hs & _). apply id_start_facts in Hs. tauto.
    + destruct (Fn eq_refl) as (_ & _ & H32 & _). exact H32.
  - split; [discriminate | simpl; lia].
  - split; [discriminate | simpl; lia].
  - split; [discriminate | simpl; lia].
  - split; [discriminate | simpl; lia].
  - split; [discriminate | simpl; lia].
  - split; [discriminate | simpl; lia].
  - split; [discriminate | simpl; lia].
  - split; [discriminate | simpl; lia].
  - split; [discriminate | simpl; lia].
Qed.

Lemma hdz_rest mw st' post r :
  Forall item_ok r -> hdz (sp post ++ render mw st' r) = next_hd mw st' post r.
Proof.
  intro Hr. unfold next_hd. destruct post; [reflexivity|]. simpl.
  destruct r as [|j r']; [reflexivity|].
  rewrite render_cons. destruct (pre_sp mw st' j); [reflexivity|]. simpl.
  inversion Hr; subst. destruct (text_ok j H1) as [Hne _]. apply hdz_app. exact Hne.
Qed.

(* what the follower must not be, per item *)
Definition need (ls : bool) (i : item) (c : Z) : bool :=
  match i with
  | IId _ | IDot _ | IRe _ _ => negb (id_part c) && negb (c =? 92)
  | INum s => negb (id_part c) && (negb (no_dex s) || negb (c =? 46))
  | IOp o => if op_is_keyword o then negb (id_part c) && negb (c =? 92) else negb (memz c (hazard_chars ls (op_text o)))
  | IOpen => negb (memz c (hazard_chars ls [40]))
  | IClose => negb (memz c (hazard_chars ls [41]))
  | IQuest => negb (memz c (hazard_chars ls [63]))
  | IColon => negb (memz c (hazard_chars ls [58]))
  | ILBrack => negb (memz c (hazard_chars ls [91]))
  | IRBrack => negb (memz c (hazard_chars ls [93]))
  | INew => negb (id_part c) && negb (c =? 92)
  | ICallOpen => negb (memz c (hazard_chars ls [40]))
  end.

Lemma need_trivial ls i c : c = 32 \/ c = -1 -> need ls i c = true.
Proof.
  intros Hc. destruct i as [s|s|b f|o|s| | | | | | | |]; simpl.
  - destruct Hc; subst; reflexivity.
  - destruct Hc; subst; simpl; rewrite orb_true_r; reflexivity.
  - destruct Hc; subst; reflexivity.
  - destruct (op_facts o) as (Fh & _ & _). destruct (Fh ls) as (A & B & _).
    destruct (op_is_keyword o); [destruct Hc; subst; reflexivity|].
    destruct Hc; subst; [rewrite A | rewrite B]; reflexivity.
  - destruct Hc; subst; reflexivity.
  - destruct (paren_hazards ls) as [E _]. rewrite E. reflexivity.
  - destruct (paren_hazards ls) as [_ E]. rewrite E. reflexivity.
  - destruct ls; destruct Hc; subst; reflexivity.
  - destruct ls; destruct Hc; subst; reflexivity.
  - destruct ls; destruct Hc; subst; reflexivity.
  - destruct ls; destruct Hc; subst; reflexivity.
  - destruct Hc; subst; reflexivity.
  - destruct ls; destruct Hc; subst; reflexivity.
Qed.

Lemma hazard_not_id ls o c : id_part c = true -> memz c (hazard_chars ls (op_text o)) = false.
Proof.
  intro Hc. destruct (op_facts o) as (Fh & _ & _). destruct (Fh ls) as (_ & _ & _ & C).
  destruct (memz c (hazard_chars ls (op_text o))) eqn:E; [|reflexivity].
  apply memz_In in E. rewrite forallb_forall in C. specialize (C c E). rewrite Hc in C. discriminate.
Qed.

(* "." continues no operator of the table (only "?", which is not one of them, and "." itself) *)
Lemma chk_dot_all : forall_ops (fun o => negb (memz 46 (hazard_chars true (op_text o))) && negb (memz 46 (hazard_chars false (op_text o)))) = true.
Proof. vm_compute. reflexivity. Qed.
Lemma hazard_not_dot ls o : memz 46 (hazard_chars ls (op_text o)) = false.
Proof.
  pose proof (forall_ops_sound _ chk_dot_all o) as C. simpl in C. apply andb_true_iff in C as [C1 C2].
  destruct ls; apply negb_true_iff; assumption.
Qed.
Lemma hazard_not_numhead ls o c : id_part c = true \/ c = 46 -> memz c (hazard_chars ls (op_text o)) = false.
Proof. intros [H|H]; [apply hazard_not_id; exact H | subst c; apply hazard_not_dot]. Qed.

Lemma ends_esc_seq pre hex : hex <> [] -> forallb hexd hex = true -> ends_esc (pre ++ esc_seq hex) = true.
Proof.
  intros Hne Hh. unfold ends_esc, esc_seq.
  rewrite !rev_app_distr. simpl rev. rewrite <- !app_assoc. simpl app.
  change (125 =? 125) with true. cbv iota.
  assert (Htw : forall a rest, forallb is_hex a = true -> (forall c r, rest = c :: r -> is_hex c = false) ->
                               take_while is_hex (a ++ rest) = (a, rest)).
  { induction a as [|x a IH]; intros rest Ha Hr; simpl in *.
    - destruct rest as [|c r]; [reflexivity|]. simpl. rewrite (Hr c r eq_refl). reflexivity.
    - apply andb_true_iff in Ha as [Hx Ha]. rewrite Hx, (IH rest Ha Hr). reflexivity. }
  rewrite Htw.
  - destruct (rev hex) eqn:Er; [apply (f_equal (@List.length Z)) in Er; rewrite rev_length in Er; destruct hex; [congruence | discriminate]|].
    reflexivity.
  - rewrite forallb_forall in *. intros c Hin. apply in_rev in Hin. apply (Hh c Hin).
  - intros c r E. inversion E; subst. reflexivity.
Qed.

Lemma word_last_gen s : word_shape s -> (is_id_part (last s 0) = true \/ ends_esc s = true) /\ id_part (hdz s) = true.
Proof.
  intro Hw. destruct (word_shape_hd s Hw) as [Hne Hs]. split; [|unfold id_part; rewrite Hs; reflexivity].
  destruct Hw as [[_ [_ Hall]] | (pre & hex & E & _ & Hhne & Hh)].
  - left. rewrite forallb_forall in Hall. apply Hall. apply (@exists_last _ s) in Hne as [l' [a E]].
    rewrite E, last_last. apply in_or_app. right. left. reflexivity.
  - right. subst s. apply ends_esc_seq; assumption.
Qed.

Lemma after_esc_id mw st s : s <> [] -> esc (after mw st (IId s)) = ends_esc s.
Proof. intro Hne. unfold after, emit. rewrite seq_fst, pr_fst by exact Hne. reflexivity. Qed.

Lemma word_last s : id_shape s -> is_id_part (last s 0) = true /\ id_part (hdz s) = true.
Proof.
  intros [Hne [Hs Hall]]. split.
  - rewrite forallb_forall in Hall. apply Hall. destruct s; [congruence|]. apply (@exists_last _ (z :: s)) in Hne as [l' [a E]].
    rewrite E. rewrite last_last. apply in_or_app. right. left. reflexivity.
  - unfold id_part. rewrite Hs. reflexivity.
Qed.
Lemma num_last s : num_shape s -> is_id_part (last s 0) = true /\ (id_part (hdz s) = true \/ hdz s = 46).
Proof.
  intro H. split; [rewrite id_part_same; apply num_last_idpart; exact H|].
  destruct (num_hd s H) as (c & s' & E & [Hc|Hc]); subst s; simpl; [left; apply digit_id_part; exact Hc | right; exact Hc].
Qed.

(* ---- the follower of every item is harmless (pair level) ---- *)
Lemma op_eqb_BLt o : op_eqb o BLt = true -> o = BLt.
Proof. destruct o; simpl; intro H; try discriminate; reflexivity. Qed.
Lemma op_eqb_UNot o : op_eqb o UNot = true -> o = UNot.
Proof. destruct o; simpl; intro H; try discriminate; reflexivity. Qed.

Lemma opop_use mw ls b60 e o o' :
  nonkw o && nonkw o' && negb (is_post (IOp o)) && adj (IOp o) (IOp o') && negb (post_sp mw (IOp o))
    && negb (pre_sp mw (st_abs (last (op_text o) 0) b60 (MOp o) e) (IOp o')) = true ->
  (o = BLt /\ o' = UNot) \/ memz (hdz (op_text o')) (hazard_chars ls (op_text o)) = false.
Proof.
  intro Hp. pose proof (forall_ops_sound _ (forall_ops_sound _ chk_opop_all o) o') as C.
  unfold chk_opop in C. rewrite forallb_forall in C.
  assert (Hb : forall b : bool, In b [true; false]) by (intros [|]; simpl; tauto).
  specialize (C mw (Hb mw)). rewrite forallb_forall in C. specialize (C ls (Hb ls)).
  rewrite forallb_forall in C. specialize (C b60 (Hb b60)).
  rewrite forallb_forall in C. specialize (C e (Hb e)). rewrite Hp in C. simpl in C.
  apply orb_true_iff in C as [C|C].
  - left. apply andb_true_iff in C as [C1 C2]. split; [apply op_eqb_BLt | apply op_eqb_UNot]; assumption.
  - right. apply negb_true_iff. exact C.
Qed.

Lemma kw_not_post o : op_is_keyword o = true -> is_post (IOp o) = false /\ is_update_pre (IOp o) = false.
Proof. destruct o; simpl; intro H; try discriminate; split; reflexivity. Qed.

Lemma ctx_after_ls t : line_start (ctx_after t) = false.
Proof. destruct t; reflexivity. Qed.

(* the two places where one character of look-ahead is not enough: "<" "!" (the comment opener "<!--" needs two
   more characters) and "?" followed by a number that starts with "." ("?." followed by a digit is "?") *)
Definition special (mw : bool) (st : pst) (i : item) (r : list item) : Prop :=
  (i = IOp BLt /\ post_sp mw i = false /\ exists r', r = IOp UNot :: r' /\ pre_sp mw (after mw st i) (IOp UNot) = false)
  \/ (i = IQuest /\ post_sp mw i = false /\ exists s' r', r = INum (46 :: s') :: r' /\ pre_sp mw (after mw st i) (INum (46 :: s')) = false).

Lemma need_holds mw prev st i r :
  item_ok i -> Forall item_ok r -> chain prev (i :: r) = true ->
  need (line_start (ctx_of prev)) i (next_hd mw (after mw st i) (post_sp mw i) r) = true \/ special mw st i r.
Proof.
  intros Hi Hr Hc. set (ls := line_start (ctx_of prev)).
  unfold next_hd. destruct (post_sp mw i) eqn:Ep; [left; apply need_trivial; tauto|].
  destruct r as [|j r']; [left; apply need_trivial; tauto|].
  destruct (pre_sp mw (after mw st i) j) eqn:Epre; [left; apply need_trivial; tauto|].
  simpl in Hc. apply andb_true_iff in Hc as [Hprev Hc]. apply andb_true_iff in Hc as [Hadj _].
  destruct (text_ok i Hi) as [Hne _].
  destruct (after_lastc_mk mw st i Hne) as [Hlc Hmk]. rewrite Ep in Hlc, Hmk.
  assert (Hj : item_ok j) by (inversion Hr; assumption).
  pose proof Epre as Epre0.
  rewrite pre_sp_abs, Hlc, Hmk in Epre. set (b60 := last2 (after mw st i) =? 60) in Epre. clearbody b60.
  pose proof (eq_refl (esc (after mw st i))) as Hesc. set (e := esc (after mw st i)) in Epre, Hesc at 1. clearbody e.
  (* items that end an operand and glue like identifiers: the follower is an operator, ".", or ")" *)
  assert (OPER : forall (lc : Z) (m : mark),
            ends_operand i = true -> is_post i = false ->
            is_id_part lc = true \/ m = MRe \/ e = true ->
            pre_sp mw (st_abs lc b60 m e) j = false ->
            negb (id_part (hdz (text j))) && negb (hdz (text j) =? 92) = true /\ (m = MNum -> (hdz (text j) =? 46) = false)).
  { intros lc m He Hnp Hhaz Hpre. unfold adj in Hadj. rewrite He in Hadj.
    assert (Hid : id_hazard (st_abs lc b60 m e) = true).
    { unfold id_hazard, st_abs. simpl. destruct Hhaz as [Hh|[Hh|Hh]]; [rewrite Hh; reflexivity | subst m; rewrite orb_true_r; reflexivity | rewrite Hh; apply orb_true_r]. }
    destruct j as [s'|s'|b' f'|o'|s'| | | | | | | |]; try discriminate.
    - destruct (op_facts o') as (_ & Fn & Fk).
      destruct (op_is_keyword o') eqn:Ew'.
      + exfalso. unfold pre_sp in Hpre. rewrite Ew', Hid in Hpre.
        destruct (op_kind o'); try discriminate. destruct (op_eqb o' BComma); try discriminate. destruct mw; discriminate.
      + destruct (Fn eq_refl) as (A & B & _ & B92 & _). simpl text. rewrite A. apply Z.eqb_neq in B92. rewrite B92.
        split; [reflexivity|]. intros _. apply Z.eqb_neq. exact B.
    - simpl. split; [reflexivity|]. intro Hm. subst m. unfold pre_sp, st_abs in Hpre. simpl in Hpre. discriminate.
    - simpl. split; [reflexivity|]. intros _. reflexivity.
    - simpl. split; [reflexivity|]. intros _. reflexivity.
    - simpl. split; [reflexivity|]. intros _. reflexivity.
    - simpl. split; [reflexivity|]. intros _. reflexivity.
    - simpl. split; [reflexivity|]. intros _. reflexivity.
    - simpl. split; [reflexivity|]. intros _. reflexivity. }
  destruct i as [s|s|b f|o|s| | | | | | | |].
  - (* IId *) left. destruct Hi as [Hs _]. destruct (word_last_gen s Hs) as [Hl _].
    assert (Hhz : is_id_part (last s 0) = true \/ MNone = MRe \/ e = true).
    { destruct Hl as [Hl|Hl]; [left; exact Hl | right; right].
      rewrite Hesc, after_esc_id; [exact Hl | destruct (word_shape_hd s Hs); assumption]. }
    destruct (OPER (last s 0) MNone eq_refl eq_refl Hhz Epre) as [A _]. exact A.
  - (* INum *) left. destruct (num_last s Hi) as [Hl _].
    simpl natural_mark in Epre. simpl need. destruct (no_dex s).
    + destruct (OPER (last s 0) MNum eq_refl eq_refl (or_introl Hl) Epre) as [A B].
      apply andb_true_iff in A as [A _]. rewrite A, (B eq_refl). reflexivity.
    + destruct (OPER (last s 0) MNone eq_refl eq_refl (or_introl Hl) Epre) as [A _].
      apply andb_true_iff in A as [A _]. rewrite A. reflexivity.
  - (* IRe *) left.
    destruct (OPER (last (text (IRe b f)) 0) MRe eq_refl eq_refl (or_intror (or_introl eq_refl)) Epre) as [A _]. exact A.
  - (* IOp *)
    destruct (op_facts o) as (Fh & Fn & Fk).
    destruct (op_is_keyword o) eqn:Ew.
    + (* keyword operator *) left. simpl need. rewrite Ew.
      destruct (Fk eq_refl) as (Hl & _). destruct (kw_not_post o Ew) as [Hnp Hnu].
      unfold adj in Hadj. change (ends_operand (IOp o)) with (is_post (IOp o)) in Hadj. rewrite Hnp in Hadj. apply andb_true_iff in Hadj as [Hso _].
      simpl natural_mark in Epre. rewrite Ew in Epre.
      assert (Hid : id_hazard (st_abs (last (text (IOp o)) 0) b60 MNone e) = true).
      { unfold id_hazard, st_abs. simpl lastc. simpl text. rewrite id_part_same, Hl. reflexivity. }
      destruct j as [s'|s'|b' f'|o'|s'| | | | | | | |]; try discriminate.
      * exfalso. unfold pre_sp in Epre. rewrite Hid in Epre. discriminate.
      * exfalso. unfold pre_sp in Epre. rewrite Hid in Epre. discriminate.
      * reflexivity.
      * destruct (op_facts o') as (_ & Fn' & Fk'). simpl in Hso.
        destruct (op_kind o') eqn:Ek'; try discriminate.
        destruct (op_is_keyword o') eqn:Ew'.
        -- exfalso. unfold pre_sp in Epre. rewrite Ek', Ew', Hid in Epre. discriminate.
        -- destruct (Fn' eq_refl) as (A & _ & _ & B92 & _). simpl text. rewrite A. apply Z.eqb_neq in B92. rewrite B92. reflexivity.
      * reflexivity.
      * exfalso. unfold pre_sp in Epre. rewrite Hid in Epre. discriminate.
    + (* punctuator operator *)
      simpl need. rewrite Ew. simpl natural_mark in Epre. rewrite Ew in Epre. simpl text in Epre.
      destruct (is_post (IOp o)) eqn:Epost.
      * (* postfix: never the first token, no hazards *) left.
        assert (Hls : ls = false).
        { unfold ls. destruct prev as [a|]; [apply ctx_after_ls|].
          simpl in Hprev. simpl in Epost. destruct (op_kind o); discriminate. }
        rewrite Hls. rewrite post_hazards; [reflexivity|]. simpl in Epost. destruct (op_kind o); try discriminate. reflexivity.
      * unfold adj in Hadj. change (ends_operand (IOp o)) with (is_post (IOp o)) in Hadj. rewrite Epost in Hadj. apply andb_true_iff in Hadj as [Hso Hupd].
        destruct j as [s'|s'|b' f'|o'|s'| | | | | | | |]; try discriminate.
        -- left. destruct Hj as [Hs' _]. destruct (word_last_gen s' Hs') as [_ Hh]. simpl text. rewrite (hazard_not_id ls o _ Hh). reflexivity.
        -- left. destruct (num_last s' Hj) as [_ Hh]. simpl text. rewrite (hazard_not_numhead ls o _ Hh). reflexivity.
        -- left. simpl text. simpl hdz.
           pose proof (forall_ops_sound _ chk_re_all o) as C. unfold chk_re in C. simpl forallb in C. split_andb.
           unfold pre_sp, st_abs in Epre. simpl lastc in Epre. apply orb_false_iff in Epre as [E47 _].
           destruct ls; [match goal with H : _ || negb (memz 47 (hazard_chars true _)) = true |- _ => rewrite E47 in H; exact H end
                        | match goal with H : _ || negb (memz 47 (hazard_chars false _)) = true |- _ => rewrite E47 in H; exact H end].
        -- destruct (op_facts o') as (_ & Fn' & Fk'). simpl in Hso. destruct (op_kind o') eqn:Ek'; try discriminate.
           destruct (op_is_keyword o') eqn:Ew'.
           ++ left. destruct (Fk' eq_refl) as (_ & Hs' & _). simpl text.
              rewrite (hazard_not_id ls o (hdz (op_text o'))); [reflexivity|]. unfold id_part. rewrite Hs'. reflexivity.
           ++ assert (Hp : nonkw o && nonkw o' && negb (is_post (IOp o)) && adj (IOp o) (IOp o') && negb (post_sp mw (IOp o))
                             && negb (pre_sp mw (st_abs (last (op_text o) 0) b60 (MOp o) e) (IOp o')) = true).
              { unfold nonkw. rewrite Ew, Ew', Epost, Ep, Epre. simpl.
                unfold adj. change (ends_operand (IOp o)) with (is_post (IOp o)). rewrite Epost. simpl starts_operand. rewrite Ek'. change (is_update_pre (IOp o)) with (match o with UPreDec | UPreInc => true | _ => false end) in Hupd. simpl. rewrite Hupd. reflexivity. }
              destruct (opop_use mw ls b60 e o o' Hp) as [[E1 E2]|E].
              ** right. left. subst o o'. split; [reflexivity|]. split; [exact Ep|].
                 exists r'. split; [reflexivity | exact Epre0].
              ** left. simpl text. rewrite E. reflexivity.
        -- left. simpl text. simpl hdz. destruct (Fh ls) as (_ & _ & A & _). rewrite A. reflexivity.
        -- left. simpl text. simpl hdz. rewrite (hazard_not_id ls o 110); reflexivity.
  - (* IDot *) left. destruct Hi as [Hs _]. destruct (word_last s Hs) as [Hl _].
    assert (Hl' : is_id_part (last (text (IDot s)) 0) = true).
    { simpl text. destruct Hs as [Hne' _]. rewrite last_cons_ne by exact Hne'. exact Hl. }
    destruct (OPER (last (text (IDot s)) 0) MNone eq_refl eq_refl (or_introl Hl') Epre) as [A _]. exact A.
  - left. simpl need. destruct (paren_hazards ls) as [E _]. rewrite E. reflexivity.
  - left. simpl need. destruct (paren_hazards ls) as [_ E]. rewrite E. reflexivity.
  - (* "?" : its hazards are "?" and "." , no operand starts with those *)
    assert (Hdotnum : (exists s', j = INum (46 :: s')) \/ (forall s', j <> INum (46 :: s'))).
    { destruct j as [s0|s0|b0 f0|o0|s0| | | | | | | |]; try (right; intros s' X; discriminate).
      destruct s0 as [|c0 s1]; [right; intros s' X; discriminate|].
      destruct (Z.eq_dec c0 46) as [E46|N46]; [left; subst c0; exists s1; reflexivity | right; intros s' X; inversion X; congruence]. }
    destruct Hdotnum as [(s' & Ej)|Hnd].
    { right. right. subst j. split; [reflexivity|]. split; [exact Ep|]. exists s', r'. split; [reflexivity | exact Epre0]. }
    left. unfold need. destruct (simple_hazards ls) as (E & _). rewrite E.
    unfold adj in Hadj. simpl ends_operand in Hadj. apply andb_true_iff in Hadj as [Hso _].
    assert (Hc : hdz (text j) <> 63 /\ hdz (text j) <> 46).
    { destruct j as [s'|s'|b' f'|o'|s'| | | | | | | |]; try discriminate; simpl text; simpl hdz; try (split; discriminate).
      - destruct Hj as [Hs' _]. destruct (word_last_gen s' Hs') as [_ Hh]. unfold id_part, id_start, digit in Hh. lia.
      - destruct (num_last s' Hj) as [_ [Hh|Hh]]; [unfold id_part, id_start, digit in Hh; lia|].
        exfalso. destruct s' as [|c0 s1]; [simpl in Hh; discriminate|]. simpl in Hh. subst c0. apply (Hnd s1). reflexivity.
      - simpl in Hso. destruct o'; try discriminate; split; discriminate. }
    destruct Hc as [H63 H46]. simpl. apply Z.eqb_neq in H63. apply Z.eqb_neq in H46. rewrite H63, H46. reflexivity.
  - left. unfold need. destruct (simple_hazards ls) as (_ & E & _). rewrite E. reflexivity.
  - left. unfold need. destruct (simple_hazards ls) as (_ & _ & E & _). rewrite E. reflexivity.
  - left. unfold need. destruct (simple_hazards ls) as (_ & _ & _ & E). rewrite E. reflexivity.
  - (* "new": glues like a keyword operator *)
    left. unfold need.
    unfold adj in Hadj. simpl ends_operand in Hadj. apply andb_true_iff in Hadj as [Hso _].
    assert (Hid : id_hazard (st_abs (last (text INew) 0) b60 (natural_mark INew) e) = true) by reflexivity.
    destruct j as [s'|s'|b' f'|o'|s'| | | | | | | |]; try discriminate.
    + reflexivity.
    + destruct (op_facts o') as (_ & Fn' & Fk'). simpl in Hso.
      destruct (op_kind o') eqn:Ek'; try discriminate.
      destruct (op_is_keyword o') eqn:Ew'.
      * exfalso. unfold pre_sp in Epre. rewrite Ek', Ew', Hid in Epre. discriminate.
      * destruct (Fn' eq_refl) as (A & _ & _ & B92 & _). simpl text. rewrite A. apply Z.eqb_neq in B92. rewrite B92. reflexivity.
    + reflexivity.
  - left. unfold need. destruct (paren_hazards ls) as [E _]. rewrite E. reflexivity.
Qed.
