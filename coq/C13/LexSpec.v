(* Independent specification: a maximal-munch lexer for the token classes of
   the fragment, written from ECMA-262 (12.4 Comments, 12.7 Names and Keywords,
   12.8 Punctuators, 12.9.3 Numeric Literals, 12.9.5 Regular Expression
   Literals, B.1.1 HTML-like Comments), not from esbuild's lexer.

   - input elements are recognised left to right, each the longest possible;
   - the goal symbol (InputElementDiv vs InputElementRegExp) is chosen from the
     previous token the way the syntactic grammar does for expressions: after
     an identifier, a literal, ")", "]", "}", "++", "--" or one of
     this/null/true/false/super a "/" is a division, otherwise it starts a
     regular expression;
   - a comment opener at a token boundary ("//", "/*", "<!--" anywhere, "-->"
     at the start of a line) makes the lexer answer None: the expected token
     lists contain no comments, so "a comment was created" is a failure;
   - a numeric literal must not be immediately followed by an IdentifierStart
     or a decimal digit (12.9.3), otherwise None.
   Restrictions (stated in the theorems' hypotheses): ASCII (identifiers may contain
   \u escapes); regular
   expression bodies without "\", "[" and line terminators; numeric literals are
   decimal (fraction, exponent) or hex integers: no separators, BigInt, binary or octal forms.  White space is U+0020 only (the fragment has no line
   breaks), so "start of line" is true only for the first token. *)
From V Require Import Common.Base C13.KwSpec.
From Coq Require Import String.

Inductive tok :=
 | TId (s : list Z)        (* IdentifierName, reserved or not *)
 | TNum (s : list Z)       (* NumericLiteral, its source text *)
 | TRe (b f : list Z)      (* RegularExpressionLiteral body, flags *)
 | TP (p : list Z).        (* Punctuator *)

Definition digit (c : Z) : bool := (48 <=? c) && (c <=? 57).
Definition id_start (c : Z) : bool :=
  ((97 <=? c) && (c <=? 122)) || ((65 <=? c) && (c <=? 90)) || (c =? 95) || (c =? 36).
Definition id_part (c : Z) : bool := id_start c || digit c.

Fixpoint span (f : Z -> bool) (s : list Z) : list Z * list Z :=
  match s with
  | c :: r => if f c then let '(a, b) := span f r in (c :: a, b) else ([], s)
  | [] => ([], [])
  end.

Fixpoint prefix_b (p s : list Z) : bool :=
  match p, s with
  | [], _ => true
  | a :: p', b :: s' => (a =? b) && prefix_b p' s'
  | _ :: _, [] => false
  end.

(* 12.7 IdentifierName with UnicodeEscapeSequence: after the backslash, "u{" HexDigits "}" or
   "u" Hex4Digits.  (Whether the escaped code point has ID_Start/ID_Continue is not checked.) *)
Definition hexd (c : Z) : bool :=
  ((48 <=? c) && (c <=? 57)) || ((97 <=? c) && (c <=? 102)) || ((65 <=? c) && (c <=? 70)).
Definition lex_escape (s : list Z) : option (list Z * list Z) :=
  match s with
  | u :: r =>
      if u =? 117 then
        match r with
        | ob :: r2 =>
            if ob =? 123 then
              let '(h, r3) := span hexd r2 in
              match h, r3 with
              | _ :: _, cb :: r4 => if cb =? 125 then Some ([117; 123] ++ h ++ [125], r4) else None
              | _, _ => None
              end
            else
              match r with
              | a :: b :: c :: d :: r5 => if hexd a && hexd b && hexd c && hexd d then Some ([117; a; b; c; d], r5) else None
              | _ => None
              end
        | [] => None
        end
      else None
  | [] => None
  end.
Fixpoint span_id (fuel : nat) (s : list Z) : option (list Z * list Z) :=
  match fuel with
  | O => None
  | S n =>
    match s with
    | c :: r =>
        if id_part c then match span_id n r with Some (a, b) => Some (c :: a, b) | None => None end
        else if c =? 92 then
          match lex_escape r with
          | Some (e, r') => match span_id n r' with Some (a, b) => Some (92 :: e ++ a, b) | None => None end
          | None => None
          end
        else Some ([], s)
    | [] => Some ([], [])
    end
  end.

(* 12.8: all punctuators of ES2023 (including "}" and the division ones) *)
Definition puncts : list (list Z) := map zs
 ["{"; "}"; "("; ")"; "["; "]"; "."; "..."; ";"; ","; "<"; ">"; "<="; ">="; "=="; "!="; "==="; "!==";
  "+"; "-"; "*"; "/"; "%"; "**"; "++"; "--"; "<<"; ">>"; ">>>"; "&"; "|"; "^"; "!"; "~"; "&&"; "||"; "??";
  "?"; "?."; ":"; "="; "+="; "-="; "*="; "/="; "%="; "**="; "<<="; ">>="; ">>>="; "&="; "|="; "^=";
  "&&="; "||="; "??="; "=>"]%string.
Definition is_punct (p : list Z) : bool := mem p puncts.

(* longest punctuator that is a prefix of s (at most 4 characters) *)
Definition try_len (k : nat) (s : list Z) : option (list Z * list Z) :=
  if (k <=? List.length s)%nat && is_punct (firstn k s) then Some (firstn k s, skipn k s) else None.
Definition lex_punct (s : list Z) : option (list Z * list Z) :=
  match try_len 4 s with Some r => Some r | None =>
  match try_len 3 s with Some r => Some r | None =>
  match try_len 2 s with Some r => Some r | None => try_len 1 s end end end.

(* "?." followed by a decimal digit is "?" (12.8 OptionalChainingPunctuator lookahead) *)
Definition lex_punct' (s : list Z) : option (list Z * list Z) :=
  match lex_punct s with
  | Some (p, r) =>
      if zlist_eqb p (zs "?.") && (match r with c :: _ => digit c | [] => false end)
      then Some (zs "?", 46 :: r) else Some (p, r)
  | None => None
  end.

Record ctx := mkCtx { regex_ok : bool; line_start : bool }.
Definition ctx0 : ctx := mkCtx true true.

(* 12.4 and B.1.1: "-->" opens a comment only at the start of a line *)
Definition openers (ls : bool) : list (list Z) :=
  map zs ["//"; "/*"; "<!--"]%string ++ (if ls then [zs "-->"] else []).
Definition comment_start (ls : bool) (s : list Z) : bool :=
  existsb (fun w => prefix_b w s) (openers ls).

Definition re_char_ok (c : Z) : bool :=
  negb ((c =? 47) || (c =? 92) || (c =? 91) || (c =? 10) || (c =? 13)) && (32 <=? c) && (c <? 127).

(* ExponentPart :: ExponentIndicator SignedInteger; absent when "e" is not followed by [+-]? digits
   (the "e" is then an IdentifierStart directly behind the literal, which 12.9.3 forbids) *)
Definition exp_part (r : list Z) : list Z * list Z :=
  match r with
  | e :: r1 =>
    if (e =? 101) || (e =? 69) then
      let '(sg, r2) := match r1 with
                       | sgn :: r2' => if (sgn =? 43) || (sgn =? 45) then ([sgn], r2') else ([], r1)
                       | [] => ([], r1)
                       end in
      let '(ds, r3) := span digit r2 in
      match ds with [] => ([], r) | _ => (e :: sg ++ ds, r3) end
    else ([], r)
  | [] => ([], r)
  end.

Definition lex1 (cx : ctx) (s : list Z) : option (tok * list Z) :=
  match s with
  | [] => None
  | c :: s1 =>
    if comment_start (line_start cx) s then None
    else if id_start c || (c =? 92) then
      match span_id (S (List.length s)) s with
      | Some (w, r) => match w with [] => None | _ => Some (TId w, r) end
      | None => None
      end
    else if (c =? 48) && (match s1 with x :: _ => (x =? 120) || (x =? 88) | [] => false end) then
      (* HexIntegerLiteral :: 0x HexDigits *)
      match s1 with
      | x :: s2 =>
        let '(h, r2) := span hexd s2 in
        match h with
        | [] => None
        | _ => match r2 with
               | d :: _ => if id_part d then None else Some (TNum (c :: x :: h), r2)
               | [] => Some (TNum (c :: x :: h), r2)
               end
        end
      | [] => None
      end
    else if digit c || ((c =? 46) && (match s1 with d :: _ => digit d | [] => false end)) then
      (* DecimalLiteral :: DecimalIntegerLiteral . DecimalDigits? ExponentPart? | . DecimalDigits ExponentPart?
                         | DecimalIntegerLiteral ExponentPart? *)
      let '(ip, r1) := span digit s in
      let '(mant, r2) :=
        match r1 with
        | d :: r1' => if d =? 46 then let '(fp, r2) := span digit r1' in (ip ++ [46] ++ fp, r2) else (ip, r1)
        | [] => (ip, r1)
        end in
      let '(ex, r3) := exp_part r2 in
      match r3 with
      | d :: _ => if id_part d then None else Some (TNum (mant ++ ex), r3)
      | [] => Some (TNum (mant ++ ex), r3)
      end
    else if (c =? 47) && regex_ok cx then
      let '(b, r1) := span re_char_ok s1 in
      match b, r1 with
      | _ :: _, d :: r2 => if d =? 47 then let '(f, r3) := span id_part r2 in Some (TRe b f, r3) else None
      | _, _ => None
      end
    else match lex_punct' s with Some (p, r) => Some (TP p, r) | None => None end
  end.

(* reserved words after which an expression (hence a regular expression) may start *)
Definition regex_after_word (w : list Z) : bool :=
  mem w ecma_reserved_words && negb (mem w ends_expression_kw).

Definition ctx_after (t : tok) : ctx :=
  match t with
  | TId w => mkCtx (regex_after_word w) false
  | TNum _ | TRe _ _ => mkCtx false false
  | TP p => mkCtx (negb (mem p (map zs [")"; "]"; "}"; "++"; "--"]%string))) false
  end.

Fixpoint skip_ws (s : list Z) : list Z :=
  match s with c :: r => if c =? 32 then skip_ws r else s | [] => s end.

Fixpoint lex_all (fuel : nat) (cx : ctx) (s : list Z) : option (list tok) :=
  match fuel with
  | O => None
  | S n =>
    match skip_ws s with
    | [] => Some []
    | s' => match lex1 cx s' with
            | Some (t, r) => match lex_all n (ctx_after t) r with Some ts => Some (t :: ts) | None => None end
            | None => None
            end
    end
  end.

Definition lex (s : list Z) : option (list tok) := lex_all (S (List.length s)) ctx0 s.
