(* Text level: lexing and parsing what the printer model prints gives back the tree
   (up to norm), and printing that again gives the same text. *)
From V Require Import Common.Base C13.KwSpec C13.Token C13.LexSpec C13.LexProofs C13.Toks C13.TokenProofs C13.RenderLex
  C13.ParseSpec C13.ParseMono C13.ParseFuel C13.PrintParse C13.PrintParse2 C13.PrintNorm C13.PrintChain.

Definition parse_text_fuel (m : nat) (ni : bool) (s : list Z) : option expr :=
  match lex s with Some ts => parse_fuel m ni ts | None => None end.

Lemma print_lex_all mw fi e : wf e -> lexok e ->
  lex (print_expr mw fi e) = Some (toks (print_items mw fi LLowest e)).
Proof.
  intros Hwf Hlx. destruct (print_items_good mw e Hwf Hlx fi LLowest) as [G F].
  unfold print_expr. apply render_lex_all; [exact F | apply good_chain; exact G].
Qed.

(* fi: the expression is printed with the forbidIn flag and read back with the grammar parameter [~In] *)
Theorem print_parse_roundtrip_all mw fi e : wf e -> lexok e ->
  exists n, forall m, (n <= m)%nat -> parse_text_fuel m fi (print_expr mw fi e) = Some (norm e).
Proof.
  intros Hwf Hlx. destruct (parse_print_items_all mw fi e Hwf) as [n Hn]. exists n. intros m Hm.
  unfold parse_text_fuel. rewrite (print_lex_all mw fi e Hwf Hlx). apply Hn. exact Hm.
Qed.

Theorem print_fixed_point_all mw fi e : wf e -> lexok e ->
  exists n, forall m e', (n <= m)%nat -> parse_text_fuel m fi (print_expr mw fi e) = Some e' ->
    forall mw' fi', print_expr mw' fi' e' = print_expr mw' fi' e.
Proof.
  intros Hwf Hlx. destruct (print_parse_roundtrip_all mw fi e Hwf Hlx) as [n Hn]. exists n.
  intros m e' Hm H mw' fi'. rewrite (Hn m Hm) in H. inversion H; subst e'.
  unfold print_expr. rewrite print_norm. reflexivity.
Qed.

(* with the concrete fuel of ParseSpec.parse (twice the number of tokens plus two) *)
Theorem print_parse_roundtrip_concrete mw fi e : wf e -> lexok e -> parse_text fi (print_expr mw fi e) = Some (norm e).
Proof.
  intros Hwf Hlx. destruct (print_parse_roundtrip_all mw fi e Hwf Hlx) as [n Hn]. specialize (Hn n (Nat.le_refl _)).
  unfold parse_text_fuel in Hn. unfold parse_text. destruct (lex (print_expr mw fi e)) as [ts|]; [|discriminate].
  apply (parse_fuel_enough n). exact Hn.
Qed.

Theorem print_fixed_point_concrete mw fi e e' : wf e -> lexok e ->
  parse_text fi (print_expr mw fi e) = Some e' -> forall mw' fi', print_expr mw' fi' e' = print_expr mw' fi' e.
Proof.
  intros Hwf Hlx H mw' fi'. rewrite (print_parse_roundtrip_concrete mw fi e Hwf Hlx) in H. inversion H; subst e'.
  unfold print_expr. rewrite print_norm. reflexivity.
Qed.
