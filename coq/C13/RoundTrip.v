(* Text level: lexing and parsing what the printer model prints gives back the tree
   (up to norm), and printing that again gives the same text. *)
From V Require Import Common.Base C13.KwSpec C13.Token C13.LexSpec C13.LexProofs C13.Toks C13.TokenProofs C13.RenderLex
  C13.ParseSpec C13.ParseMono C13.ParseFuel C13.PrintParse C13.PrintParse2 C13.PrintNorm C13.PrintChain.

Definition parse_text_fuel (m : nat) (s : list Z) : option expr :=
  match lex s with Some ts => parse_fuel m ts | None => None end.

Lemma print_lex_all mw e : wf e -> lexok e ->
  lex (print_expr mw e) = Some (toks (print_items mw LLowest e)).
Proof.
  intros Hwf Hlx. destruct (print_items_good mw e Hwf Hlx LLowest) as [G F].
  unfold print_expr. apply render_lex_all; [exact F | apply good_chain; exact G].
Qed.

Theorem print_parse_roundtrip_all mw e : wf e -> lexok e ->
  exists n, forall m, (n <= m)%nat -> parse_text_fuel m (print_expr mw e) = Some (norm e).
Proof.
  intros Hwf Hlx. destruct (parse_print_items_all mw e Hwf) as [n Hn]. exists n. intros m Hm.
  unfold parse_text_fuel. rewrite (print_lex_all mw e Hwf Hlx). apply Hn. exact Hm.
Qed.

Theorem print_fixed_point_all mw e : wf e -> lexok e ->
  exists n, forall m e', (n <= m)%nat -> parse_text_fuel m (print_expr mw e) = Some e' ->
    forall mw', print_expr mw' e' = print_expr mw' e.
Proof.
  intros Hwf Hlx. destruct (print_parse_roundtrip_all mw e Hwf Hlx) as [n Hn]. exists n.
  intros m e' Hm H mw'. rewrite (Hn m Hm) in H. inversion H; subst e'.
  unfold print_expr. rewrite print_norm. reflexivity.
Qed.

(* with the concrete fuel of ParseSpec.parse (twice the number of tokens plus two) *)
Theorem print_parse_roundtrip_concrete mw e : wf e -> lexok e -> parse_text (print_expr mw e) = Some (norm e).
Proof.
  intros Hwf Hlx. destruct (print_parse_roundtrip_all mw e Hwf Hlx) as [n Hn]. specialize (Hn n (Nat.le_refl _)).
  unfold parse_text_fuel in Hn. unfold parse_text. destruct (lex (print_expr mw e)) as [ts|]; [|discriminate].
  apply (parse_fuel_enough n). exact Hn.
Qed.

Theorem print_fixed_point_concrete mw e e' : wf e -> lexok e ->
  parse_text (print_expr mw e) = Some e' -> forall mw', print_expr mw' e' = print_expr mw' e.
Proof.
  intros Hwf Hlx H mw'. rewrite (print_parse_roundtrip_concrete mw e Hwf Hlx) in H. inversion H; subst e'.
  unfold print_expr. rewrite print_norm. reflexivity.
Qed.
