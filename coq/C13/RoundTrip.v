(* Text level: lexing and parsing what the printer model prints gives back the tree
   (up to norm), and printing that again gives the same text. *)
From V Require Import Common.Base C13.KwSpec C13.Token C13.LexSpec C13.LexProofs C13.Toks C13.TokenProofs C13.RenderLex
  C13.ParseSpec C13.ParseMono C13.ParseFuel C13.PrintParse C13.PrintParse2 C13.PrintNorm C13.PrintChain.

Definition parse_text_fuel (m : nat) (ni : bool) (s : list Z) : option expr :=
  match lex s with Some ts => parse_fuel m ni ts | None => None end.

Lemma print_lex_all mw fi ss e : wf e -> lexok e ->
  lex (print_expr mw fi ss e) = Some (toks (print_items mw fi ss LLowest e)).
Proof.
  intros Hwf Hlx. destruct (print_items_good mw e Hwf Hlx fi ss LLowest) as [G F].
  unfold print_expr. apply render_lex_all; [exact F | apply good_chain; exact G].
Qed.

(* fi: the expression is printed with the forbidIn flag and read back with the grammar parameter [~In] *)
Theorem print_parse_roundtrip_all mw fi ss e : wf e -> lexok e ->
  exists n, forall m, (n <= m)%nat -> parse_text_fuel m fi (print_expr mw fi ss e) = Some (norm e).
Proof.
  intros Hwf Hlx. destruct (parse_print_items_all mw fi ss e Hwf) as [n Hn]. exists n. intros m Hm.
  unfold parse_text_fuel. rewrite (print_lex_all mw fi ss e Hwf Hlx). apply Hn. exact Hm.
Qed.

Theorem print_fixed_point_all mw fi ss e : wf e -> lexok e ->
  exists n, forall m e', (n <= m)%nat -> parse_text_fuel m fi (print_expr mw fi ss e) = Some e' ->
    forall mw' fi' ss', print_expr mw' fi' ss' e' = print_expr mw' fi' ss' e.
Proof.
  intros Hwf Hlx. destruct (print_parse_roundtrip_all mw fi ss e Hwf Hlx) as [n Hn]. exists n.
  intros m e' Hm H mw' fi' ss'. rewrite (Hn m Hm) in H. inversion H; subst e'.
  unfold print_expr. rewrite print_norm. reflexivity.
Qed.

(* with the concrete fuel of ParseSpec.parse (twice the number of tokens plus two) *)
Theorem print_parse_roundtrip_concrete mw fi ss e : wf e -> lexok e -> parse_text fi (print_expr mw fi ss e) = Some (norm e).
Proof.
  intros Hwf Hlx. destruct (print_parse_roundtrip_all mw fi ss e Hwf Hlx) as [n Hn]. specialize (Hn n (Nat.le_refl _)).
  unfold parse_text_fuel in Hn. unfold parse_text. destruct (lex (print_expr mw fi ss e)) as [ts|]; [|discriminate].
  apply (parse_fuel_enough n). exact Hn.
Qed.

Theorem print_fixed_point_concrete mw fi ss e e' : wf e -> lexok e ->
  parse_text fi (print_expr mw fi ss e) = Some e' -> forall mw' fi' ss', print_expr mw' fi' ss' e' = print_expr mw' fi' ss' e.
Proof.
  intros Hwf Hlx H mw' fi' ss'. rewrite (print_parse_roundtrip_concrete mw fi ss e Hwf Hlx) in H. inversion H; subst e'.
  unfold print_expr. rewrite print_norm. reflexivity.
Qed.

(* ---- expression statements ----
   14.5 ExpressionStatement : [lookahead not in { "{", function, async function, class, let "[" }] Expression ";"
   On the fragment (no object literals, function or class expressions) the only restriction that can
   bite is the two-token lookahead "let [".  parse_stmt refuses such a token list; the theorem says
   that what the printer prints at the start of a statement (ss = true) is never refused. *)
Definition starts_let_bracket (ts : list tok) : bool :=
  match ts with
  | TId s :: TP p :: _ => zlist_eqb s [108; 101; 116] && zlist_eqb p [91]
  | _ => false
  end.
(* the same two-token restriction holds at the start of the head of a for loop (14.7.4:
   for ( [lookahead <> let [] Expression[~In] ; ...  and  for ( [lookahead <> let [] LeftHandSideExpression in ...) *)
Definition parse_start (ni : bool) (ts : list tok) : option expr := if starts_let_bracket ts then None else parse ni ts.
Definition parse_stmt (ts : list tok) : option expr := parse_start false ts.
Definition parse_stmt_text (s : list Z) : option expr :=
  match lex s with Some ts => parse_stmt ts | None => None end.
Definition parse_for_head_text (s : list Z) : option expr :=
  match lex s with Some ts => parse_start true ts | None => None end.

(* the first two tokens of an expression printed at the start of a statement: either the expression is a
   single identifier (one token), or the token list does not start with "let [" whatever follows *)
Definition safe (l : list tok) : Prop := forall rest, starts_let_bracket (l ++ rest) = false.
Definition Inv (e : expr) (l : list tok) : Prop := (exists s, e = EId s /\ l = [TId s]) \/ safe l.
Definition not_lbrack (t : tok) : Prop := match t with TP p => zlist_eqb p [91] = false | _ => True end.

Lemma safe_app l r : safe l -> safe (l ++ r).
Proof. intros H rest. rewrite <- app_assoc. apply H. Qed.
Lemma safe_tp p l : safe (TP p :: l).
Proof. intro rest. reflexivity. Qed.
Lemma safe_optok o l : safe (op_tok o :: l).
Proof.
  intro rest. simpl app. destruct (l ++ rest) as [|t2 r2]; destruct o; try reflexivity; destruct t2; reflexivity.
Qed.
Lemma optok_not_lbrack o : not_lbrack (op_tok o).
Proof. destruct o; reflexivity. Qed.
Lemma toks_op o : toks [IOp o] = [op_tok o].
Proof. destruct o; reflexivity. Qed.
Lemma inv_then e l t r : Inv e l -> not_lbrack t -> safe (l ++ t :: r).
Proof.
  intros [(s & _ & E)|H] Ht; [|apply safe_app; exact H]. subst l. intro rest. simpl.
  destruct t as [x|x|b f|p]; try reflexivity. simpl in Ht. rewrite Ht. apply andb_false_r.
Qed.

Section WithMode.
Variable mw : bool.
Local Notation print_items := (Token.print_items mw).

Lemma stmt_start_inv : forall e fi P, wf e -> Inv e (toks (print_items fi true P e)).
Proof.
  induction e as [s|s|b f|t IHt s|o v IHv|o l IHl r IHr|c IHc y IHy n IHn|t IHt i IHi|f IHf a IHa|f IHf a IHa| |x IHx r IHr];
    intros fi P Hwf; try (destruct Hwf; fail).
  - left. exists s. split; reflexivity.
  - right. intro rest. reflexivity.
  - right. intro rest. reflexivity.
  - (* a.b *) right. destruct Hwf as (Hwt & _). cbn [Token.print_items]. rewrite toks_app. change (toks [IDot s]) with [TP [46]; TId s].
    apply (inv_then t); [apply IHt; exact Hwt | reflexivity].
  - (* unary *)
    right. destruct Hwf as (Hwv & Hk & _). rewrite print_items_split. destruct (wrapped fi P (EUn o v)).
    + rewrite !toks_app. apply safe_tp.
    + rewrite body_un. destruct (op_kind o) eqn:Ek.
      * rewrite toks_app. rewrite toks_op. apply safe_optok.
      * rewrite toks_app. rewrite toks_op.
        apply (inv_then v); [apply IHv; exact Hwv | apply optok_not_lbrack].
      * congruence.
  - (* binary *)
    right. destruct Hwf as (Hwl & _). rewrite print_items_split. destruct (wrapped fi P (EBin o l r)).
    + rewrite !toks_app. apply safe_tp.
    + rewrite body_bin, !toks_app. rewrite toks_op. simpl app.
      apply (inv_then l); [apply IHl; exact Hwl | apply optok_not_lbrack].
  - (* conditional *)
    right. destruct Hwf as (Hwc & _). rewrite print_items_split. destruct (wrapped fi P (ECond c y n)).
    + rewrite !toks_app. apply safe_tp.
    + rewrite body_cond, !toks_app. change (toks [IQuest]) with [TP [63]]. simpl app.
      apply (inv_then c); [apply IHc; exact Hwc | reflexivity].
  - (* index access: the guard of fix ac301ad *)
    right. destruct Hwf as (Hwt & _). cbn [Token.print_items]. simpl andb.
    destruct (is_let t) eqn:El.
    + unfold paren. rewrite !toks_app. apply safe_tp.
    + unfold paren. rewrite toks_app.
      change (toks ([ILBrack] ++ print_items false false LLowest i ++ [IRBrack])) with (TP [91] :: toks (print_items false false LLowest i ++ [IRBrack])).
      destruct (IHt false (tgt_level P) Hwt) as [(s & Et & E)|H]; [|apply safe_app; exact H].
      subst t. rewrite E. intro rest. simpl. simpl in El. rewrite El. reflexivity.
  - (* call *)
    right. destruct Hwf as (Hwf' & _). rewrite print_items_split. destruct (wrapped fi P (ECall f a)).
    + rewrite !toks_app. apply safe_tp.
    + rewrite body_call, !toks_app. change (toks [ICallOpen]) with [TP [40]]. simpl app.
      apply (inv_then f); [apply IHf; exact Hwf' | reflexivity].
  - (* new *)
    right. rewrite print_items_split. destruct (wrapped fi P (ENew f a)).
    + rewrite !toks_app. apply safe_tp.
    + unfold PrintParse.body. rewrite toks_app. change (toks [INew]) with [TId [110; 101; 119]]. intro rest. simpl app.
      match goal with |- starts_let_bracket (_ :: ?l) = false => destruct l as [|t2 r2]; [reflexivity | destruct t2; reflexivity] end.
Qed.

(* statement-level round trip: the text printed for an expression statement is read back, as a statement, as the tree *)
Lemma print_start_roundtrip_all fi e : wf e -> lexok e ->
  match lex (print_expr mw fi true e) with Some ts => parse_start fi ts | None => None end = Some (norm e).
Proof.
  intros Hwf Hlx. rewrite (print_lex_all mw fi true e Hwf Hlx). unfold parse_start.
  assert (Hs : starts_let_bracket (toks (print_items fi true LLowest e)) = false).
  { destruct (stmt_start_inv e fi LLowest Hwf) as [(s & _ & E)|H]; [rewrite E; reflexivity|].
    specialize (H []). rewrite app_nil_r in H. exact H. }
  rewrite Hs. destruct (parse_print_items_all mw fi true e Hwf) as [n Hn].
  apply (parse_fuel_enough n). apply Hn. apply Nat.le_refl.
Qed.
Theorem print_stmt_roundtrip_all e : wf e -> lexok e -> parse_stmt_text (print_expr mw false true e) = Some (norm e).
Proof. intros Hwf Hlx. exact (print_start_roundtrip_all false e Hwf Hlx). Qed.
(* what the printer would have to do in the head of a for loop: print with the guard on (ss = true) *)
Theorem print_for_head_roundtrip_guarded e : wf e -> lexok e -> parse_for_head_text (print_expr mw true true e) = Some (norm e).
Proof. intros Hwf Hlx. exact (print_start_roundtrip_all true e Hwf Hlx). Qed.
End WithMode.
