(* norm (comma re-association) does not change what is printed; hence the round trip
   holds for every well-formed tree, with norm on the right-hand side. *)
From V Require Import Common.Base C13.KwSpec C13.Token C13.LexSpec C13.LexProofs C13.Toks C13.TokenProofs
  C13.ParseSpec C13.ParseMono C13.PrintParse C13.PrintParse2.
From Coq Require Import String.

Section WithMode.
Variable mw : bool.
Local Notation print_items := (Token.print_items mw).

Lemma print_comma_unfold fi ss P l r :
  print_items fi ss P (EBin BComma l r) =
  paren (P >=? LComma) (print_items (fi && negb (P >=? LComma)) (ss && negb (P >=? LComma)) 0 l ++ [IOp BComma] ++ print_items (fi && negb (P >=? LComma)) false 0 r).
Proof. cbn [Token.print_items]. cbv zeta. change (op_eqb BComma BIn && fi) with false. rewrite orb_false_r. reflexivity. Qed.

Lemma print0_comma_app fi ss a : forall b,
  print_items fi ss 0 (comma_app a b) = print_items fi ss 0 a ++ [IOp BComma] ++ print_items fi false 0 b.
Proof.
  assert (Hpl : forall b, not_comma b -> print_items fi ss 0 (EBin BComma a b) = print_items fi ss 0 a ++ [IOp BComma] ++ print_items fi false 0 b).
  { intros b _. rewrite print_comma_unfold. change (0 >=? LComma) with false. simpl negb. rewrite !andb_true_r. reflexivity. }
  induction b as [s|s|b0 f|t IHt s|u v IHv|o b1 IH1 b2 IH2|c0 IHc0 y0 IHy0 n0 IHn0|t0 IHt0 i0 IHi0|f0 IHf0 a0 IHa0|f0 IHf0 a0 IHa0| |x0 IHx0 r0 IHr0];
    try (apply Hpl; exact I).
  destruct o; try (apply Hpl; exact I).
  change (comma_app a (EBin BComma b1 b2)) with (EBin BComma (comma_app a b1) b2).
  rewrite !print_comma_unfold. change (0 >=? LComma) with false. unfold paren. simpl negb. rewrite !andb_true_r.
  rewrite IH1. rewrite <- !app_assoc. reflexivity.
Qed.

Lemma shape_norm_or_and e : is_or_and (norm e) = is_or_and e.
Proof.
  destruct e as [s|s|b f|t s|u v|o l r|c0 y0 n0|t0 i0|f0 a0|f0 a0| |x0 r0]; try reflexivity. simpl.
  destruct (op_eqb o BComma) eqn:E; [|reflexivity].
  assert (o = BComma) by (destruct o; try discriminate; reflexivity). subst o.
  destruct (norm r) as [| | | | |o2 ? ?| | | | | |]; try reflexivity. destruct o2; reflexivity.
Qed.

Lemma is_let_norm e : is_let (norm e) = is_let e.
Proof.
  destruct e as [s|s|b f|t s|u v|o l r|c0 y0 n0|t0 i0|f0 a0|f0 a0| |x0 r0]; try reflexivity. simpl.
  destruct (op_eqb o BComma); [|reflexivity]. destruct (norm r) as [| | | | |o2 ? ?| | | | | |]; try reflexivity. destruct o2; reflexivity.
Qed.

Lemma print_norm : forall e fi ss P, print_items fi ss P (norm e) = print_items fi ss P e.
Proof.
  induction e as [s|s|b f|t IHt s|u v IHv|o l IHl r IHr|c0 IHc0 y0 IHy0 n0 IHn0|t0 IHt0 i0 IHi0|f0 IHf0 a0 IHa0|f0 IHf0 a0 IHa0| |x0 IHx0 r0 IHr0]; intros fi ss P; try reflexivity.
  - simpl. rewrite IHt. reflexivity.
  - simpl. rewrite !IHv. reflexivity.
  - simpl norm. destruct (op_eqb o BComma) eqn:E.
    + assert (o = BComma) by (destruct o; try discriminate; reflexivity). subst o.
      rewrite print_comma_unfold. set (fb := fi && negb (P >=? LComma)). set (sb := ss && negb (P >=? LComma)).
      assert (H0 : print_items fb sb 0 (comma_app (norm l) (norm r)) = print_items fb sb 0 l ++ [IOp BComma] ++ print_items fb false 0 r)
        by (rewrite print0_comma_app, IHl, IHr; reflexivity).
      (* the wrapping decision only looks at the operator, which is a comma on both sides *)
      assert (Hc : exists x y, comma_app (norm l) (norm r) = EBin BComma x y).
      { destruct (norm r) as [| | | | |o2 ? ?| | | | | |]; simpl; eauto. destruct o2; simpl; eauto. }
      destruct Hc as (x & y & Hxy). rewrite Hxy in *. rewrite print_comma_unfold in *.
      change (0 >=? LComma) with false in H0. unfold paren in H0 at 1. simpl negb in H0. rewrite !andb_true_r in H0. fold fb. fold sb. rewrite H0. reflexivity.
    + cbn [print_items]. cbv zeta. rewrite !IHl, !IHr, !shape_norm_or_and.
      assert (Hs : match norm l with EUn u _ => negb (op_eqb u UPreDec || op_eqb u UPreInc || op_eqb u UPostDec || op_eqb u UPostInc) | ENum _ => true | _ => false end
                 = match l with EUn u _ => negb (op_eqb u UPreDec || op_eqb u UPreInc || op_eqb u UPostDec || op_eqb u UPostInc) | ENum _ => true | _ => false end).
      { destruct l as [| | | | |o2 a b2| | | | | |]; try reflexivity. simpl. destruct (op_eqb o2 BComma); [|reflexivity].
        destruct (norm b2) as [| | | | |o3 ? ?| | | | | |]; try reflexivity. destruct o3; reflexivity. }
      rewrite Hs. reflexivity.
  - cbn [norm Token.print_items]. rewrite !IHc0, !IHy0, !IHn0. reflexivity.
  - cbn [norm Token.print_items]. rewrite !IHt0, !IHi0, is_let_norm. reflexivity.
  - cbn [norm Token.print_items]. rewrite !IHf0, !IHa0. reflexivity.
  - cbn [norm Token.print_items]. rewrite !IHf0, !IHa0.
    replace (has_args (norm a0)) with (has_args a0) by (destruct a0; try reflexivity; simpl; destruct (op_eqb o BComma); [|reflexivity]; destruct (norm a0_2) as [| | | | |o9 ? ?| | | | | |]; try reflexivity; destruct o9; reflexivity).
    reflexivity.
  - cbn [norm Token.print_items]. rewrite !IHx0.
    destruct r0 as [| | | | |o9 l9 r9| | | | | |x9 r9]; try reflexivity.
    + simpl norm. destruct (op_eqb o9 BComma); [|reflexivity]. destruct (norm r9) as [| | | | |o8 ? ?| | | | | |]; try reflexivity. destruct o8; reflexivity.
    + change (norm (ACons x9 r9)) with (ACons (norm x9) (norm r9)). cbv iota. rewrite <- IHr0. reflexivity.
Qed.

Lemma wf_comma_plain a b : wf a -> wf b -> wf (EBin BComma a b).
Proof. intros Ha Hb. simpl. repeat split; auto. discriminate. Qed.
Lemma wf_comma_app a : forall b, wf a -> wf b -> wf (comma_app a b).
Proof.
  induction b as [s|s|b0 f|t IHt s|u v IHv|o b1 IH1 b2 IH2|c0 IHc0 y0 IHy0 n0 IHn0|t0 IHt0 i0 IHi0|f0 IHf0 a0 IHa0|f0 IHf0 a0 IHa0| |x0 IHx0 r0 IHr0]; intros Ha Hb;
    try (apply wf_comma_plain; assumption).
  destruct o; try (apply wf_comma_plain; assumption).
  change (comma_app a (EBin BComma b1 b2)) with (EBin BComma (comma_app a b1) b2).
  destruct Hb as (H1 & H2 & _). apply wf_comma_plain; auto.
Qed.
Lemma wf_norm_both : forall e, (wf e -> wf (norm e)) /\ (wfa e -> wfa (norm e)).
Proof.
  induction e as [s|s|b f|t IHt s|u v IHv|o l IHl r IHr|c0 IHc0 y0 IHy0 n0 IHn0|t0 IHt0 i0 IHi0|f0 IHf0 a0 IHa0|f0 IHf0 a0 IHa0| |x0 IHx0 r0 IHr0];
    (split; intro H; try exact H; try (destruct H; fail)).
  - destruct H as (H1 & H2 & H3). simpl. split; [apply IHt; exact H1 | auto].
  - destruct H as (H1 & H2 & H3). simpl. repeat split; [apply IHv; exact H1 | exact H2 |]. rewrite is_target_norm. exact H3.
  - destruct H as (H1 & H2 & H3 & H4). simpl. destruct (op_eqb o BComma) eqn:E.
    + apply wf_comma_app; [apply IHl; exact H1 | apply IHr; exact H2].
    + simpl. repeat split; [apply IHl; exact H1 | apply IHr; exact H2 | exact H3 |]. rewrite is_target_norm. exact H4.
  - destruct H as (H1 & H2 & H3). simpl. repeat split; [apply IHc0 | apply IHy0 | apply IHn0]; assumption.
  - destruct H as (H1 & H2). simpl. split; [apply IHt0 | apply IHi0]; assumption.
  - destruct H as (H1 & H2). simpl. split; [apply IHf0 | apply IHa0]; assumption.
  - destruct H as (H1 & H2). simpl. split; [apply IHf0 | apply IHa0]; assumption.
  - destruct H as (H1 & H2). simpl. split; [apply IHx0 | apply IHr0]; assumption.
Qed.
Lemma wf_norm e : wf e -> wf (norm e).
Proof. apply (proj1 (wf_norm_both e)). Qed.

Lemma cnf_comma_plain a b : cnf a -> cnf b -> not_comma b -> cnf (EBin BComma a b).
Proof. intros Ha Hb Hn. simpl. auto. Qed.
Lemma cnf_comma_app a : forall b, cnf a -> cnf b -> cnf (comma_app a b).
Proof.
  induction b as [s|s|b0 f|t IHt s|u v IHv|o b1 IH1 b2 IH2|c0 IHc0 y0 IHy0 n0 IHn0|t0 IHt0 i0 IHi0|f0 IHf0 a0 IHa0|f0 IHf0 a0 IHa0| |x0 IHx0 r0 IHr0]; intros Ha Hb;
    try (apply cnf_comma_plain; [assumption | assumption | exact I]).
  destruct o; try (apply cnf_comma_plain; [assumption | assumption | exact I]).
  change (comma_app a (EBin BComma b1 b2)) with (EBin BComma (comma_app a b1) b2).
  destruct Hb as (H1 & H2 & H3). apply cnf_comma_plain; auto.
Qed.
Lemma cnf_norm : forall e, cnf (norm e).
Proof.
  induction e as [s|s|b f|t IHt s|u v IHv|o l IHl r IHr|c0 IHc0 y0 IHy0 n0 IHn0|t0 IHt0 i0 IHi0|f0 IHf0 a0 IHa0|f0 IHf0 a0 IHa0| |x0 IHx0 r0 IHr0]; simpl; auto.
  destruct (op_eqb o BComma) eqn:E.
  - apply cnf_comma_app; auto.
  - simpl. repeat split; auto. intro H. subst o. discriminate.
Qed.
Lemma norm_cnf_id : forall e, cnf e -> norm e = e.
Proof.
  induction e as [s|s|b f|t IHt s|u v IHv|o l IHl r IHr|c0 IHc0 y0 IHy0 n0 IHn0|t0 IHt0 i0 IHi0|f0 IHf0 a0 IHa0|f0 IHf0 a0 IHa0| |x0 IHx0 r0 IHr0]; intro H; simpl in *; try reflexivity.
  - rewrite IHt; auto.
  - rewrite IHv; auto.
  - destruct H as (H1 & H2 & H3). rewrite IHl, IHr by assumption.
    destruct (op_eqb o BComma) eqn:E; [|reflexivity].
    assert (o = BComma) by (destruct o; try discriminate; reflexivity). subst o.
    apply comma_app_plain. auto.
  - destruct H as (H1 & H2 & H3). rewrite IHc0, IHy0, IHn0 by assumption. reflexivity.
  - destruct H as (H1 & H2). rewrite IHt0, IHi0 by assumption. reflexivity.
  - destruct H as (H1 & H2). rewrite IHf0, IHa0 by assumption. reflexivity.
  - destruct H as (H1 & H2). rewrite IHf0, IHa0 by assumption. reflexivity.
  - destruct H as (H1 & H2). rewrite IHx0, IHr0 by assumption. reflexivity.
Qed.
Lemma norm_idem e : norm (norm e) = norm e.
Proof. apply norm_cnf_id. apply cnf_norm. Qed.

(* tree-level round trip over tokens, every well-formed tree *)
Theorem parse_print_items_all fi ss e :
  wf e -> exists n, forall m, (n <= m)%nat -> parse_fuel m fi (toks (print_items fi ss LLowest e)) = Some (norm e).
Proof.
  intro Hwf. destruct (parse_print_items_cnf mw fi ss (norm e) (wf_norm e Hwf) (cnf_norm e)) as [n Hn].
  exists n. intros m Hm. specialize (Hn m Hm). rewrite print_norm, norm_idem in Hn. exact Hn.
Qed.

End WithMode.
