(* Lemmas about the specification lexer (LexSpec.v): when one token's text
   followed by an arbitrary remainder is read back as exactly that token. *)
From V Require Import Common.Base C13.KwSpec C13.LexSpec.
From Coq Require Import String.

Definition hdz (l : list Z) : Z := match l with c :: _ => c | [] => -1 end.

Lemma hdz_app a b : a <> [] -> hdz (a ++ b) = hdz a.
Proof. destruct a; [congruence | reflexivity]. Qed.

(* ---- span ---- *)
Lemma span_app (f : Z -> bool) a rest :
  forallb f a = true -> f (hdz rest) = false -> (rest = [] \/ rest <> []) ->
  (forall c r, rest = c :: r -> f c = false) ->
  span f (a ++ rest) = (a, rest).
Proof.
  intros Ha _ _ Hr. induction a as [|x a IH]; simpl in *.
  - destruct rest as [|c r]; [reflexivity|]. simpl. rewrite (Hr c r eq_refl). reflexivity.
  - apply andb_true_iff in Ha as [Hx Ha]. rewrite Hx, (IH Ha). reflexivity.
Qed.

Lemma span_app' (f : Z -> bool) a rest :
  forallb f a = true -> (forall c r, rest = c :: r -> f c = false) -> span f (a ++ rest) = (a, rest).
Proof.
  intros Ha Hr. induction a as [|x a IH]; simpl in *.
  - destruct rest as [|c r]; [reflexivity|]. simpl. rewrite (Hr c r eq_refl). reflexivity.
  - apply andb_true_iff in Ha as [Hx Ha]. rewrite Hx, (IH Ha). reflexivity.
Qed.

Definition nohead (f : Z -> bool) (rest : list Z) : Prop := forall c r, rest = c :: r -> f c = false.

(* ---- tables: which character can extend p inside a table entry ---- *)
Definition next_chars_tbl (p : list Z) (T : list (list Z)) : list Z :=
  flat_map (fun w => if prefix_b p w then match skipn (List.length p) w with c :: _ => [c] | [] => [] end else []) T.

Lemma prefix_b_app p q : prefix_b p (p ++ q) = true.
Proof. induction p as [|a p IH]; simpl; [reflexivity|]. rewrite Z.eqb_refl, IH. reflexivity. Qed.

Lemma skipn_app_len {A} (p q : list A) : skipn (List.length p) (p ++ q) = q.
Proof. induction p; simpl; auto. Qed.

Lemma firstn_app_len {A} (p q : list A) : firstn (List.length p) (p ++ q) = p.
Proof. induction p; simpl; [reflexivity|]. f_equal. assumption. Qed.

Lemma eq_next T p c q : mem (p ++ c :: q) T = true -> In c (next_chars_tbl p T).
Proof.
  intro H. apply mem_In in H. unfold next_chars_tbl. apply in_flat_map.
  exists (p ++ c :: q). split; [exact H|]. rewrite prefix_b_app, skipn_app_len. left. reflexivity.
Qed.

(* w is a prefix of p ++ c :: q: either w is already a prefix of p, or p ++ [c] is a prefix of w *)
Lemma prefix_split w : forall p c q,
  prefix_b w (p ++ c :: q) = true ->
  prefix_b w p = true \/ (prefix_b p w = true /\ exists t, skipn (List.length p) w = c :: t).
Proof.
  induction w as [|a w IH]; intros p c q H.
  - left. destruct p; reflexivity.
  - destruct p as [|x p]; simpl in *.
    + apply andb_true_iff in H as [H1 H2]. apply Z.eqb_eq in H1. subst. right. split; [reflexivity|]. eexists. reflexivity.
    + apply andb_true_iff in H as [H1 H2]. destruct (IH p c q H2) as [Hl | [Hp [t Ht]]].
      * left. rewrite H1, Hl. reflexivity.
      * right. apply Z.eqb_eq in H1. subst. split; [simpl; rewrite Z.eqb_refl, Hp; reflexivity | exists t; exact Ht].
Qed.

Lemma pfx_next T p c q :
  existsb (fun w => prefix_b w (p ++ c :: q)) T = true ->
  existsb (fun w => prefix_b w p) T = true \/ In c (next_chars_tbl p T).
Proof.
  intro H. apply existsb_exists in H as [w [Hin Hw]].
  destruct (prefix_split w p c q Hw) as [Hl | [Hp [t Ht]]].
  - left. apply existsb_exists. exists w. split; assumption.
  - right. unfold next_chars_tbl. apply in_flat_map. exists w. split; [exact Hin|].
    rewrite Hp, Ht. left. reflexivity.
Qed.

Definition memz (c : Z) (l : list Z) : bool := existsb (Z.eqb c) l.
Lemma memz_In c l : memz c l = true <-> In c l.
Proof.
  unfold memz. rewrite existsb_exists. split.
  - intros [x [Hin He]]. apply Z.eqb_eq in He. subst. exact Hin.
  - intro Hin. exists c. split; [exact Hin | apply Z.eqb_refl].
Qed.
Lemma memz_false c l : memz c l = false -> ~ In c l.
Proof. intros H Hin. apply memz_In in Hin. congruence. Qed.

(* ---- punctuators ---- *)
Definition next_chars (p : list Z) : list Z := next_chars_tbl p puncts.

Lemma try_len_longer k p R :
  (List.length p < k)%nat -> ~ In (hdz R) (next_chars p) -> try_len k (p ++ R) = None.
Proof.
  intros Hk Hn. unfold try_len.
  destruct ((k <=? List.length (p ++ R))%nat) eqn:E1; [|reflexivity].
  destruct (is_punct (firstn k (p ++ R))) eqn:E2; [|reflexivity].
  exfalso. apply Nat.leb_le in E1. rewrite app_length in E1.
  rewrite firstn_app in E2. rewrite (firstn_all2 p) in E2 by lia.
  destruct R as [|c R1]; [simpl in E1; lia|].
  destruct (k - List.length p)%nat as [|m] eqn:Em; [lia|].
  simpl in E2. apply eq_next in E2. apply Hn. exact E2.
Qed.

Lemma try_len_exact p R : is_punct p = true -> try_len (List.length p) (p ++ R) = Some (p, R).
Proof.
  intro Hp. unfold try_len. rewrite app_length.
  replace ((List.length p <=? List.length p + List.length R)%nat) with true by (symmetry; apply Nat.leb_le; lia).
  rewrite firstn_app_len, skipn_app_len, Hp. reflexivity.
Qed.

Lemma lex_punct_app p R :
  is_punct p = true -> (1 <= List.length p <= 4)%nat -> ~ In (hdz R) (next_chars p) ->
  lex_punct (p ++ R) = Some (p, R).
Proof.
  intros Hp Hl Hn. unfold lex_punct.
  destruct (List.length p) as [|[|[|[|[|n]]]]] eqn:El; try lia.
  - rewrite (try_len_longer 4), (try_len_longer 3), (try_len_longer 2) by (try lia; assumption).
    rewrite <- El. apply try_len_exact. exact Hp.
  - rewrite (try_len_longer 4), (try_len_longer 3) by (try lia; assumption).
    rewrite <- El, try_len_exact by exact Hp. reflexivity.
  - rewrite (try_len_longer 4) by (try lia; assumption).
    rewrite <- El, try_len_exact by exact Hp. reflexivity.
  - rewrite <- El, try_len_exact by exact Hp. reflexivity.
Qed.

(* ---- comment openers ---- *)
Definition opener_next (ls : bool) (p : list Z) : list Z := next_chars_tbl p (openers ls).

Lemma comment_start_app ls p R :
  existsb (fun w => prefix_b w p) (openers ls) = false ->
  ~ In (hdz R) (opener_next ls p) ->
  p <> [] ->
  comment_start ls (p ++ R) = false.
Proof.
  intros H1 H2 Hne. unfold comment_start.
  destruct R as [|c q].
  - rewrite app_nil_r. exact H1.
  - destruct (existsb (fun w => prefix_b w (p ++ c :: q)) (openers ls)) eqn:E; [|reflexivity].
    exfalso. apply pfx_next in E as [E | E]; [congruence | apply H2; exact E].
Qed.

(* ---- one-token lemmas ---- *)
Definition id_shape (s : list Z) : Prop :=
  s <> [] /\ id_start (hdz s) = true /\ forallb id_part s = true.

Lemma prefix_hd a w c s : prefix_b (a :: w) (c :: s) = true -> a = c.
Proof. simpl. intro H. apply andb_true_iff in H as [H _]. apply Z.eqb_eq in H. exact H. Qed.

Lemma openers_heads ls w : In w (openers ls) -> exists t, w = 47 :: t \/ w = 60 :: t \/ w = 45 :: t.
Proof.
  intro H. assert (H' : In w (openers true)).
  { unfold openers in *. apply in_app_or in H. apply in_or_app. destruct H as [H|H]; [left; exact H|].
    destruct ls; [right; exact H | destruct H]. }
  clear H. vm_compute in H'.
  repeat (destruct H' as [H'|H']; [subst w; eexists; eauto|]). destruct H'.
Qed.

Lemma comment_start_hd ls c s :
  c <> 47 -> c <> 60 -> c <> 45 -> comment_start ls (c :: s) = false.
Proof.
  intros H1 H2 H3. unfold comment_start.
  destruct (existsb (fun w => prefix_b w (c :: s)) (openers ls)) eqn:E; [|reflexivity].
  exfalso. apply existsb_exists in E as [w [Hin Hw]].
  destruct (openers_heads ls w Hin) as [t [Ht|[Ht|Ht]]]; subst w; apply prefix_hd in Hw; congruence.
Qed.

Lemma id_start_facts c : id_start c = true -> c <> 47 /\ c <> 60 /\ c <> 45 /\ digit c = false /\ c <> 46 /\ c <> 32.
Proof. unfold id_start, digit. intro H. lia. Qed.

Lemma span_id_plain a : forall n R,
  forallb id_part a = true -> nohead id_part R -> nohead (fun c => c =? 92) R ->
  (n > List.length a)%nat -> span_id n (a ++ R) = Some (a, R).
Proof.
  induction a as [|x a IH]; intros n R Ha HR H92 Hn; (destruct n as [|n]; [simpl in Hn; lia|]).
  - simpl. destruct R as [|c r]; [reflexivity|].
    rewrite (HR c r eq_refl), (H92 c r eq_refl). reflexivity.
  - simpl in Ha. apply andb_true_iff in Ha as [Hx Ha]. simpl app. cbn [span_id]. rewrite Hx.
    rewrite (IH n R Ha HR H92) by (simpl in Hn; lia). reflexivity.
Qed.

Definition esc_seq (hex : list Z) : list Z := [92; 117; 123] ++ hex ++ [125].
Definition esc_id_shape (s : list Z) : Prop :=
  exists pre hex, s = pre ++ esc_seq hex /\ id_shape pre /\ hex <> [] /\ forallb hexd hex = true.
Definition word_shape (s : list Z) : Prop := id_shape s \/ esc_id_shape s.

Lemma lex_escape_braces hex R :
  hex <> [] -> forallb hexd hex = true ->
  lex_escape (117 :: 123 :: hex ++ 125 :: R) = Some ([117; 123] ++ hex ++ [125], R).
Proof.
  intros Hne Hh. unfold lex_escape. change (117 =? 117) with true. change (123 =? 123) with true. cbv iota.
  assert (H125 : nohead hexd (125 :: R)) by (intros c r E; inversion E; subst; reflexivity).
  rewrite (span_app' hexd _ _ Hh H125). destruct hex as [|h0 hex']; [congruence|].
  change (125 =? 125) with true. reflexivity.
Qed.

Lemma span_id_esc pre hex : forall n R,
  forallb id_part pre = true -> hex <> [] -> forallb hexd hex = true ->
  nohead id_part R -> nohead (fun c => c =? 92) R ->
  (n > List.length pre + 2)%nat ->
  span_id n (pre ++ esc_seq hex ++ R) = Some (pre ++ esc_seq hex, R).
Proof.
  induction pre as [|x pre IH]; intros n R Hp Hne Hh HR H92 Hn; (destruct n as [|n]; [lia|]).
  - unfold esc_seq. simpl app. cbn [span_id]. change (id_part 92) with false. change (92 =? 92) with true. cbv iota.
    replace (117 :: 123 :: (hex ++ [125]) ++ R) with (117 :: 123 :: hex ++ 125 :: R) by (rewrite <- app_assoc; reflexivity).
    rewrite (lex_escape_braces hex R Hne Hh).
    pose proof (span_id_plain [] n R eq_refl HR H92) as Hp0. simpl app in Hp0. rewrite Hp0 by (simpl in *; lia).
    rewrite app_nil_r. reflexivity.
  - simpl in Hp. apply andb_true_iff in Hp as [Hx Hp].
    change ((x :: pre) ++ esc_seq hex ++ R) with (x :: (pre ++ esc_seq hex ++ R)). cbn [span_id]. rewrite Hx.
    rewrite (IH n R Hp Hne Hh HR H92) by (simpl in Hn; lia). reflexivity.
Qed.

Lemma word_shape_hd s : word_shape s -> s <> [] /\ id_start (hdz s) = true.
Proof.
  intros [[Hne [Hs _]] | (pre & hex & E & [Hne [Hs _]] & _)].
  - split; assumption.
  - subst s. split; [destruct pre; [congruence | discriminate] | rewrite hdz_app by exact Hne; exact Hs].
Qed.

Lemma lex1_word cx s R :
  word_shape s -> nohead id_part R -> nohead (fun c => c =? 92) R -> lex1 cx (s ++ R) = Some (TId s, R).
Proof.
  intros Hw HR H92. destruct (word_shape_hd s Hw) as [Hne Hs].
  assert (Hspan : span_id (S (List.length (s ++ R))) (s ++ R) = Some (s, R)).
  { destruct Hw as [[_ [_ Hall]] | (pre & hex & E & [_ [_ Hall]] & Hhne & Hh)].
    - apply span_id_plain; try assumption. rewrite app_length. lia.
    - subst s. rewrite <- app_assoc. apply span_id_esc; try assumption.
      rewrite !app_length. unfold esc_seq. simpl. lia. }
  destruct s as [|c s']; [congruence|]. simpl in Hs.
  destruct (id_start_facts c Hs) as (A & B & C & D & E & F).
  unfold lex1. change ((c :: s') ++ R) with (c :: (s' ++ R)) in *.
  rewrite comment_start_hd by assumption. rewrite Hs. simpl orb. cbv iota.
  rewrite Hspan. reflexivity.
Qed.

Lemma lex1_id cx s R :
  id_shape s -> nohead id_part R -> nohead (fun c => c =? 92) R -> lex1 cx (s ++ R) = Some (TId s, R).
Proof. intro H. apply lex1_word. left. exact H. Qed.

(* the texts printNonNegativeFloat produces: digits, digits.digits, digits e [-] digits, 0x hexdigits,
   and .digits (minify-whitespace strips the zero of "0.5") *)
Definition int_shape (s : list Z) : Prop := s <> [] /\ forallb digit s = true.
Definition num_shape (s : list Z) : Prop :=
  int_shape s
  \/ (exists ip fp, s = ip ++ 46 :: fp /\ int_shape ip /\ int_shape fp)
  \/ (exists m sg ds, s = m ++ 101 :: sg ++ ds /\ int_shape m /\ (sg = [] \/ sg = [45]) /\ int_shape ds)
  \/ (exists h, s = 48 :: 120 :: h /\ h <> [] /\ forallb hexd h = true)
  \/ (exists fp, s = 46 :: fp /\ int_shape fp).
(* printNonNegativeFloat: needSpaceBeforeDot is set unless the text contains ".", "e" or "x" *)
Definition dex (c : Z) : bool := (c =? 46) || (c =? 101) || (c =? 120).
Definition plain_int (s : list Z) : bool := negb (existsb dex s).

Lemma digit_facts c : digit c = true -> c <> 47 /\ c <> 60 /\ c <> 45 /\ id_start c = false /\ id_part c = true.
Proof. unfold digit, id_part, id_start, digit. intro H. lia. Qed.

Lemma existsb_app {A} (f : A -> bool) a b : existsb f (a ++ b) = existsb f a || existsb f b.
Proof. induction a as [|x a IH]; [reflexivity|]. simpl. rewrite IH. apply orb_assoc. Qed.
Lemma digits_no_dex s : forallb digit s = true -> existsb dex s = false.
Proof.
  induction s as [|c s IH]; [reflexivity|]. simpl. intro H. apply andb_true_iff in H as [Hc Hs].
  rewrite (IH Hs), orb_false_r. unfold dex, digit in *. lia.
Qed.
Lemma plain_int_spec s : num_shape s -> plain_int s = true -> int_shape s.
Proof.
  unfold plain_int. intros [H|[(ip & fp & E & _)|[(m & sg & ds & E & _)|[(h & E & _)|(fp & E & _)]]]] Hp; [exact H| | | |]; subst s; exfalso.
  - rewrite existsb_app in Hp. simpl in Hp. rewrite orb_true_r in Hp. discriminate.
  - rewrite existsb_app in Hp. simpl in Hp. rewrite orb_true_r in Hp. discriminate.
  - simpl in Hp. discriminate.
  - simpl in Hp. discriminate.
Qed.
Lemma int_plain s : int_shape s -> plain_int s = true.
Proof. intros [_ H]. unfold plain_int. rewrite (digits_no_dex s H). reflexivity. Qed.

Lemma int_hd s : int_shape s -> exists c s', s = c :: s' /\ digit c = true.
Proof. intros [Hne H]. destruct s as [|c s']; [congruence|]. exists c, s'. split; [reflexivity|]. simpl in H. apply andb_true_iff in H. tauto. Qed.

Lemma num_hd s : num_shape s -> exists c s', s = c :: s' /\ (digit c = true \/ c = 46).
Proof.
  intros [H|[(ip & fp & E & Hi & _)|[(m & sg & ds & E & Hi & _)|[(h & E & _)|(fp & E & _)]]]].
  - destruct (int_hd s H) as (c & s' & E & Hc). exists c, s'. auto.
  - destruct (int_hd ip Hi) as (c & ip' & E' & Hc). subst. exists c, (ip' ++ 46 :: fp). split; [reflexivity | left; exact Hc].
  - destruct (int_hd m Hi) as (c & m' & E' & Hc). subst. exists c, (m' ++ 101 :: sg ++ ds). split; [reflexivity | left; exact Hc].
  - subst. exists 48, (120 :: h). split; [reflexivity | left; reflexivity].
  - subst. exists 46, fp. split; [reflexivity | right; reflexivity].
Qed.
Lemma last_app_cons {A} (a : list A) x b d : last (a ++ x :: b) d = last (x :: b) d.
Proof. induction a as [|y a IH]; [reflexivity|]. simpl app. remember (a ++ x :: b) as l. destruct l as [|z l']; [destruct a; discriminate|]. exact IH. Qed.
Lemma forallb_last (f : Z -> bool) s d : s <> [] -> forallb f s = true -> f (last s d) = true.
Proof.
  intros Hne H. apply (@exists_last _ s) in Hne as [l' [a E]]. subst s. rewrite last_last.
  rewrite forallb_app in H. apply andb_true_iff in H as [_ H]. simpl in H. rewrite andb_true_r in H. exact H.
Qed.
Lemma hexd_id_part c : hexd c = true -> id_part c = true.
Proof. unfold hexd, id_part, id_start, digit. lia. Qed.
Lemma digit_id_part c : digit c = true -> id_part c = true.
Proof. unfold id_part. intro H. rewrite H. apply orb_true_r. Qed.
Lemma num_last_idpart s : num_shape s -> id_part (last s 0) = true.
Proof.
  intros [[Hne H]|[(ip & fp & E & _ & [Hne H])|[(m & sg & ds & E & _ & _ & [Hne H])|[(h & E & Hne & H)|(fp & E & [Hne H])]]]].
  - apply digit_id_part. apply forallb_last; assumption.
  - subst. destruct fp as [|x fp']; [congruence|]. rewrite last_app_cons. change (last (46 :: x :: fp') 0) with (last (x :: fp') 0).
    apply digit_id_part. apply forallb_last; assumption.
  - subst. rewrite last_app_cons. destruct ds as [|x ds']; [congruence|].
    replace (last (101 :: sg ++ x :: ds') 0) with (last (x :: ds') 0).
    + apply digit_id_part. apply forallb_last; assumption.
    + symmetry. change (101 :: sg ++ x :: ds') with ((101 :: sg) ++ x :: ds'). apply last_app_cons.
  - subst. destruct h as [|x h']; [congruence|]. change (last (48 :: 120 :: x :: h') 0) with (last (x :: h') 0).
    apply hexd_id_part. apply forallb_last; assumption.
  - subst. destruct fp as [|x fp']; [congruence|]. change (last (46 :: x :: fp') 0) with (last (x :: fp') 0).
    apply digit_id_part. apply forallb_last; assumption.
Qed.

Lemma num_dot_inv s' : num_shape (46 :: s') -> exists d s'', s' = d :: s'' /\ digit d = true.
Proof.
  intros [H|[(ip & fp & E & Hi & _)|[(m & sg & ds & E & Hi & _)|[(h & E & _)|(fp & E & Hf)]]]].
  - destruct (int_hd _ H) as (c & r & E & Hc). inversion E; subst. discriminate.
  - destruct (int_hd _ Hi) as (c & r & E' & Hc). subst ip. inversion E; subst. discriminate.
  - destruct (int_hd _ Hi) as (c & r & E' & Hc). subst m. inversion E; subst. discriminate.
  - discriminate.
  - inversion E; subst. apply int_hd. exact Hf.
Qed.

Lemma nohead_digit_of_idpart R : nohead id_part R -> nohead digit R.
Proof. intros HR d r Hd. specialize (HR d r Hd). unfold id_part in HR. apply orb_false_iff in HR. tauto. Qed.

Lemma exp_part_none R : nohead id_part R -> exp_part R = ([], R).
Proof.
  intro HR. destruct R as [|e r]; [reflexivity|]. specialize (HR e r eq_refl). unfold exp_part.
  replace ((e =? 101) || (e =? 69)) with false; [reflexivity|]. unfold id_part, id_start in HR. lia.
Qed.

Lemma lex1_num cx s R :
  num_shape s -> nohead id_part R -> (plain_int s = true -> nohead (fun c => c =? 46) R) -> lex1 cx (s ++ R) = Some (TNum s, R).
Proof.
  intros Hshape HR Hdot.
  assert (HRd : nohead digit R) by (apply nohead_digit_of_idpart; exact HR).
  assert (Hcase : (exists fp, s = 46 :: fp /\ int_shape fp) \/
                  (int_shape s \/ (exists ip fp, s = ip ++ 46 :: fp /\ int_shape ip /\ int_shape fp) \/ (exists m sg ds, s = m ++ 101 :: sg ++ ds /\ int_shape m /\ (sg = [] \/ sg = [45]) /\ int_shape ds) \/ (exists h, s = 48 :: 120 :: h /\ h <> [] /\ forallb hexd h = true)))
    by (unfold num_shape in Hshape; tauto).
  clear Hshape. destruct Hcase as [(fp & Es & Hne & Hfp)|Hshape].
  { (* .digits *)
    subst s. destruct fp as [|d0 fp']; [congruence|].
    assert (Hd0 : digit d0 = true) by (simpl in Hfp; apply andb_true_iff in Hfp; tauto).
    unfold lex1. change ((46 :: d0 :: fp') ++ R) with (46 :: d0 :: fp' ++ R).
    rewrite comment_start_hd by lia. change (id_start 46) with false. change (46 =? 92) with false. change (46 =? 48) with false.
    change (digit 46) with false. change (46 =? 46) with true. simpl orb. simpl andb. cbv iota. rewrite Hd0. cbv iota.
    change (span digit (46 :: d0 :: fp' ++ R)) with (@nil Z, 46 :: d0 :: fp' ++ R). cbv beta iota.
    change (46 =? 46) with true. cbv iota.
    change (d0 :: fp' ++ R) with ((d0 :: fp') ++ R). rewrite (span_app' digit _ _ Hfp HRd). cbv beta iota.
    rewrite (exp_part_none R HR). rewrite app_nil_r. simpl app.
    destruct R as [|d r]; [reflexivity|]. rewrite (HR d r eq_refl). reflexivity. }
  assert (Hhead : exists c s', s = c :: s' /\ digit c = true /\ (c = 48 -> match s' ++ R with x :: _ => (x =? 120) || (x =? 88) | [] => false end = true -> exists h, s' = 120 :: h /\ h <> [] /\ forallb hexd h = true)).
  { destruct Hshape as [H|[(ip & fp & E & Hi & _)|[(m & sg & ds & E & Hi & _)|(h & E & Hne & Hh)]]].
    - destruct (int_hd s H) as (c & s' & E & Hc). exists c, s'. split; [exact E|]. split; [exact Hc|].
      intros _ Hx. exfalso. subst s. destruct H as [_ H]. simpl in H. apply andb_true_iff in H as [_ H].
      destruct s' as [|x s'']; simpl in Hx.
      + destruct R as [|x r]; [discriminate|]. specialize (HR x r eq_refl). unfold id_part, id_start in HR. lia.
      + simpl in H. apply andb_true_iff in H as [H _]. unfold digit in H. lia.
    - destruct (int_hd ip Hi) as (c & ip' & E' & Hc). subst ip. exists c, (ip' ++ 46 :: fp). split; [subst s; reflexivity|]. split; [exact Hc|].
      intros _ Hx. exfalso. destruct Hi as [_ H]. simpl in H. apply andb_true_iff in H as [_ H].
      destruct ip' as [|x ip'']; simpl in Hx; [discriminate|]. simpl in H. apply andb_true_iff in H as [H _]. unfold digit in H. lia.
    - destruct (int_hd m Hi) as (c & m' & E' & Hc). subst m. exists c, (m' ++ 101 :: sg ++ ds). split; [subst s; reflexivity|]. split; [exact Hc|].
      intros _ Hx. exfalso. destruct Hi as [_ H]. simpl in H. apply andb_true_iff in H as [_ H].
      destruct m' as [|x m'']; simpl in Hx; [discriminate|]. simpl in H. apply andb_true_iff in H as [H _]. unfold digit in H. lia.
    - exists 48, (120 :: h). split; [exact E|]. split; [reflexivity|]. intros _ _. exists h. auto. }
  destruct Hhead as (c & s' & Es & Hc & Hhex).
  destruct (digit_facts c Hc) as (A & B & C & D & E).
  assert (H92c : (c =? 92) = false) by (unfold digit in Hc; lia).
  unfold lex1. rewrite Es. change ((c :: s') ++ R) with (c :: (s' ++ R)).
  rewrite comment_start_hd by assumption. rewrite D, H92c. simpl orb. cbv iota.
  destruct ((c =? 48) && match s' ++ R with x :: _ => (x =? 120) || (x =? 88) | [] => false end) eqn:Ehx.
  - (* hex *)
    apply andb_true_iff in Ehx as [E48 Ex]. apply Z.eqb_eq in E48. destruct (Hhex E48 Ex) as (h & Eh & Hne & Hh). subst s'.
    change ((120 :: h) ++ R) with (120 :: (h ++ R)). cbv iota.
    assert (HRh : nohead hexd R).
    { intros d r Hd. specialize (HR d r Hd). unfold id_part, id_start, digit in HR. unfold hexd, digit. lia. }
    rewrite (span_app' hexd _ _ Hh HRh). destruct h as [|h0 h']; [congruence|].
    destruct R as [|d r]; [reflexivity|]. rewrite (HR d r eq_refl). reflexivity.
  - (* decimal *)
    rewrite Hc. simpl orb. cbv iota. change (c :: s' ++ R) with ((c :: s') ++ R). rewrite <- Es.
    destruct Hshape as [H|[(ip & fp & E' & Hi & Hf)|[(m & sg & ds & E' & Hi & Hsg & Hd)|(h & E' & Hne & Hh)]]].
    + destruct H as [Hne Hall]. rewrite (span_app' digit _ _ Hall HRd).
      assert (Hd46 : nohead (fun c => c =? 46) R) by (apply Hdot; apply int_plain; split; assumption).
      assert (Em : (match R with d :: r1' => if d =? 46 then let '(fp, r2) := span digit r1' in (s ++ [46] ++ fp, r2) else (s, R) | [] => (s, R) end) = (s, R)).
      { destruct R as [|d r]; [reflexivity|]. rewrite (Hd46 d r eq_refl). reflexivity. }
      rewrite Em. rewrite (exp_part_none R HR). rewrite app_nil_r.
      destruct R as [|d r]; [reflexivity|]. rewrite (HR d r eq_refl). reflexivity.
    + subst s. destruct Hi as [_ Hi]. destruct Hf as [_ Hf]. rewrite <- app_assoc. change ((46 :: fp) ++ R) with (46 :: (fp ++ R)).
      assert (N46 : nohead digit (46 :: fp ++ R)) by (intros d r Hd; inversion Hd; reflexivity).
      rewrite (span_app' digit _ _ Hi N46). change (46 =? 46) with true. cbv iota.
      rewrite (span_app' digit _ _ Hf HRd). rewrite (exp_part_none R HR). rewrite app_nil_r.
      replace (ip ++ [46] ++ fp) with (ip ++ 46 :: fp) by reflexivity.
      destruct R as [|d r]; [reflexivity|]. rewrite (HR d r eq_refl). reflexivity.
    + subst s. destruct Hi as [_ Hi]. destruct Hd as [Hdne Hd]. rewrite <- app_assoc. change ((101 :: sg ++ ds) ++ R) with (101 :: ((sg ++ ds) ++ R)).
      assert (N101 : nohead digit (101 :: (sg ++ ds) ++ R)) by (intros d r Hd'; inversion Hd'; reflexivity).
      rewrite (span_app' digit _ _ Hi N101). change (101 =? 46) with false. cbv iota.
      assert (Eexp : exp_part (101 :: (sg ++ ds) ++ R) = (101 :: sg ++ ds, R)).
      { unfold exp_part. change ((101 =? 101) || (101 =? 69)) with true. cbv iota.
        destruct ds as [|d0 ds']; [congruence|].
        assert (Hd0 : digit d0 = true) by (simpl in Hd; apply andb_true_iff in Hd; tauto).
        destruct Hsg as [Esg|Esg]; subst sg.
        - simpl app. cbv iota. replace ((d0 =? 43) || (d0 =? 45)) with false by (unfold digit in Hd0; lia).
          change (d0 :: ds' ++ R) with ((d0 :: ds') ++ R). cbv beta iota. rewrite (span_app' digit _ _ Hd HRd). reflexivity.
        - simpl app. cbv iota. change ((45 =? 43) || (45 =? 45)) with true. cbv beta iota.
          change (d0 :: ds' ++ R) with ((d0 :: ds') ++ R). rewrite (span_app' digit _ _ Hd HRd). reflexivity. }
      rewrite Eexp.
      destruct R as [|d r]; [reflexivity|]. rewrite (HR d r eq_refl). reflexivity.
    + exfalso. subst s. inversion Es; subst c s'. simpl in Ehx. discriminate.
Qed.

(* ---- regular expression literal ---- *)
Definition re_shape (b f : list Z) : Prop :=
  b <> [] /\ forallb re_char_ok b = true /\ hdz b <> 42 /\ forallb id_part f = true.

Lemma re_char_ok_facts c : re_char_ok c = true -> c <> 47.
Proof. unfold re_char_ok. intro H. lia. Qed.

Lemma lex1_re cx b f R :
  regex_ok cx = true -> re_shape b f -> nohead id_part R ->
  lex1 cx (47 :: b ++ 47 :: f ++ R) = Some (TRe b f, R).
Proof.
  intros Hg (Hne & Hb & Hstar & Hf) HR.
  assert (Hcs : comment_start (line_start cx) ([47] ++ (b ++ 47 :: f ++ R)) = false).
  { apply comment_start_app.
    - destruct (line_start cx); vm_compute; reflexivity.
    - rewrite hdz_app by exact Hne.
      assert (Hh : re_char_ok (hdz b) = true).
      { destruct b as [|x b']; [congruence|]. simpl in Hb. apply andb_true_iff in Hb. simpl. tauto. }
      apply re_char_ok_facts in Hh.
      assert (E : forall ls, opener_next ls [47] = [47; 42]) by (intros [|]; vm_compute; reflexivity).
      rewrite E. simpl. intros [X|[X|[]]]; congruence.
    - discriminate. }
  simpl app in Hcs. unfold lex1. rewrite Hcs.
  change (id_start 47) with false. change (47 =? 92) with false. change (digit 47) with false. change (47 =? 46) with false.
  change (47 =? 47) with true. rewrite Hg. cbv beta iota. simpl orb. simpl andb. cbv iota.
  assert (H47 : nohead re_char_ok (47 :: f ++ R)).
  { intros c r E. inversion E; subst. reflexivity. }
  rewrite (span_app' re_char_ok _ _ Hb H47).
  destruct b as [|x b']; [congruence|].
  change (47 =? 47) with true. cbv iota.
  rewrite (span_app' id_part _ _ Hf HR). reflexivity.
Qed.

(* ---- punctuators ---- *)
Definition punct_facts (p : list Z) : bool :=
  (1 <=? List.length p)%nat && (List.length p <=? 4)%nat
  && negb (id_start (hdz p)) && negb (hdz p =? 92) && negb (digit (hdz p))
  && (negb (hdz p =? 46) || zlist_eqb p [46] || zlist_eqb p [46; 46; 46])
  && negb (existsb (fun w => prefix_b w p) (openers true)).

Lemma all_punct_facts : forallb punct_facts puncts = true.
Proof. vm_compute. reflexivity. Qed.

Lemma punct_facts_of p : is_punct p = true -> punct_facts p = true.
Proof.
  intro H. apply mem_In in H. pose proof all_punct_facts as A. rewrite forallb_forall in A. apply A. exact H.
Qed.

Lemma openers_sub ls p :
  existsb (fun w => prefix_b w p) (openers true) = false -> existsb (fun w => prefix_b w p) (openers ls) = false.
Proof.
  intro H. destruct ls; [exact H|].
  unfold openers in *. rewrite existsb_app in H. apply orb_false_iff in H as [H _].
  rewrite app_nil_r. exact H.
Qed.

Lemma lex1_punct cx p R :
  is_punct p = true -> zlist_eqb p (zs "?.") = false ->
  comment_start (line_start cx) (p ++ R) = false ->
  ~ In (hdz R) (next_chars p) ->
  (hdz p = 47 -> regex_ok cx = false) ->
  (p = [46] -> digit (hdz R) = false) ->
  lex1 cx (p ++ R) = Some (TP p, R).
Proof.
  intros Hp Hq Hcs Hn Hre Hdot.
  pose proof (punct_facts_of p Hp) as F. unfold punct_facts in F.
  repeat (apply andb_true_iff in F as [F ?]).
  apply Nat.leb_le in F.
  match goal with H : (List.length p <=? 4)%nat = true |- _ => apply Nat.leb_le in H end.
  destruct p as [|c0 p']; [simpl in F; lia|].
  simpl hdz in *.
  assert (Hlp : lex_punct ((c0 :: p') ++ R) = Some (c0 :: p', R)) by (apply lex_punct_app; [exact Hp | lia | exact Hn]).
  unfold lex1. change ((c0 :: p') ++ R) with (c0 :: (p' ++ R)) in *.
  rewrite Hcs.
  match goal with H : negb (id_start c0) = true |- _ => apply negb_true_iff in H; rewrite H end.
  match goal with H : negb (c0 =? 92) = true |- _ => apply negb_true_iff in H; rewrite H end.
  match goal with H : negb (digit c0) = true |- _ => apply negb_true_iff in H; rewrite H end.
  simpl orb.
  replace (c0 =? 48) with false by (symmetry; unfold digit in *; lia). simpl andb. cbv iota.
  assert (Hd : (c0 =? 46) && match p' ++ R with d :: _ => digit d | [] => false end = false).
  { destruct (c0 =? 46) eqn:E46; [|reflexivity]. simpl.
    match goal with HH : _ || zlist_eqb _ [46; 46; 46] = true |- _ => change (negb true) with false in HH; rewrite orb_false_l in HH; apply orb_true_iff in HH as [HA|HA] end.
    - apply zlist_eqb_eq in HA. inversion HA; subst. simpl. specialize (Hdot eq_refl).
      destruct R; [reflexivity | exact Hdot].
    - apply zlist_eqb_eq in HA. inversion HA; subst. reflexivity. }
  rewrite Hd.
  assert (Hr : (c0 =? 47) && regex_ok cx = false).
  { destruct (c0 =? 47) eqn:E47; [|reflexivity]. apply Z.eqb_eq in E47. rewrite (Hre E47). reflexivity. }
  rewrite Hr. unfold lex_punct'. rewrite Hlp. rewrite Hq. reflexivity.
Qed.

(* 12.8: "?." followed by a decimal digit is the punctuator "?" (then a number that starts with ".") *)
Lemma lex1_quest_dot cx d R : digit d = true -> lex1 cx (63 :: 46 :: d :: R) = Some (TP [63], 46 :: d :: R).
Proof.
  intro Hd.
  assert (Hlp : lex_punct ([63; 46] ++ d :: R) = Some ([63; 46], d :: R)).
  { apply lex_punct_app; [reflexivity | simpl; lia|]. simpl hdz. vm_compute. intros []. }
  unfold lex1.
  assert (Hcs : comment_start (line_start cx) (63 :: 46 :: d :: R) = false) by (destruct (line_start cx); reflexivity).
  rewrite Hcs. change (id_start 63) with false. change (63 =? 92) with false. change (63 =? 48) with false.
  change (digit 63) with false. change (63 =? 46) with false. change (63 =? 47) with false. simpl orb. simpl andb. cbv iota.
  unfold lex_punct'. change (63 :: 46 :: d :: R) with ([63; 46] ++ d :: R). rewrite Hlp.
  change (zlist_eqb [63; 46] (zs "?.")) with true. rewrite Hd. reflexivity.
Qed.

(* how a punctuator's follow conditions are established from the next character alone *)
Definition hazard_chars (ls : bool) (p : list Z) : list Z := next_chars p ++ opener_next ls p.

Lemma punct_follow_char cx p R :
  is_punct p = true -> zlist_eqb p (zs "?.") = false ->
  memz (hdz R) (hazard_chars (line_start cx) p) = false ->
  (hdz p = 47 -> regex_ok cx = false) ->
  (p = [46] -> digit (hdz R) = false) ->
  lex1 cx (p ++ R) = Some (TP p, R).
Proof.
  intros Hp Hq Hm Hre Hdot. apply memz_false in Hm. unfold hazard_chars in Hm.
  pose proof (punct_facts_of p Hp) as F. unfold punct_facts in F.
  repeat (apply andb_true_iff in F as [F ?]).
  apply lex1_punct; try assumption.
  - apply comment_start_app.
    + apply openers_sub. match goal with H : negb (existsb _ _) = true |- _ => apply negb_true_iff in H; exact H end.
    + intro Hin. apply Hm. apply in_or_app. right. exact Hin.
    + intro E. subst p. apply Nat.leb_le in F. simpl in F. lia.
  - intro Hin. apply Hm. apply in_or_app. left. exact Hin.
Qed.

(* ---- whitespace ---- *)
Lemma skip_ws_sp s : skip_ws (32 :: s) = skip_ws s.
Proof. reflexivity. Qed.
Lemma skip_ws_nonsp c s : c <> 32 -> skip_ws (c :: s) = c :: s.
Proof. intro H. simpl. apply Z.eqb_neq in H. rewrite H. reflexivity. Qed.
