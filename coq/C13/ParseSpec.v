(* Independent specification: a precedence-climbing parser for the ECMA-262
   expression grammar (13.5-13.16) over the token model of LexSpec.v, written
   from the grammar, not from esbuild's parser.  Fuelled (fuel = nesting depth).

   Covered productions: PrimaryExpression (IdentifierReference, this/null/true/
   false, NumericLiteral, RegularExpressionLiteral, ParenthesizedExpression),
   MemberExpression "." IdentifierName, UpdateExpression (prefix and postfix
   ++/--, operand must be a simple assignment target), UnaryExpression
   (delete void typeof + - ~ ! and, the grammar being taken with the parameter [+Await], await),
   ExponentiationExpression (left operand must be
   an UpdateExpression: "-a ** b" is not derivable), Multiplicative ... BitwiseOR,
   LogicalAND/OR, ConditionalExpression (the test is a ShortCircuitExpression, the branches are
   AssignmentExpressions), MemberExpression "[" Expression "]", CoalesceExpression (its operands are BitwiseOR expressions or
   a CoalesceExpression on the left: "a ?? b || c" and "a || b ?? c" are not
   derivable), AssignmentExpression (right associative, simple targets only),
   Expression (comma).  The binding strengths below are the stratification of
   those productions; [ll] is the stratum of the expression parsed so far. *)
From V Require Import Common.Base C13.KwSpec C13.Token C13.LexSpec C13.Toks.
From Coq Require Import String.

(* stratum numbers (Expression = 1 ... MemberExpression = 22), from the grammar *)
Definition spec_level (o : op) : Z :=
  match o with
  | BComma => 1
  | BAssign | BAddAssign | BSubAssign | BMulAssign | BDivAssign | BRemAssign | BPowAssign
  | BShlAssign | BShrAssign | BUShrAssign | BBitOrAssign | BBitAndAssign | BBitXorAssign
  | BNullishAssign | BLogOrAssign | BLogAndAssign | UYield => 4
  | BNullish => 6 | BLogOr => 7 | BLogAnd => 8 | BBitOr => 9 | BBitXor => 10 | BBitAnd => 11
  | BLooseEq | BLooseNe | BStrictEq | BStrictNe => 12
  | BLt | BLe | BGt | BGe | BIn | BInstanceof => 13
  | BShl | BShr | BUShr => 14
  | BAdd | BSub => 15
  | BMul | BDiv | BRem => 16
  | BPow => 17
  | UPos | UNeg | UCpl | UNot | UVoid | UTypeof | UDelete | UPreDec | UPreInc | UAwait => 18
  | UPostDec | UPostInc => 19
  end.
Definition S_Unary := 18. Definition S_Update := 19. Definition S_Member := 22.

Definition is_assign (o : op) : bool := (spec_level o =? 4) && negb (op_eqb o UYield).
Definition is_update (o : op) : bool :=
  match o with UPreDec | UPreInc | UPostDec | UPostInc => true | _ => false end.

Definition tok_eqb (a b : tok) : bool :=
  match a, b with
  | TId x, TId y | TNum x, TNum y | TP x, TP y => zlist_eqb x y
  | TRe b1 f1, TRe b2 f2 => zlist_eqb b1 b2 && zlist_eqb f1 f2
  | _, _ => false
  end.
Definition op_tok (o : op) : tok := if op_is_keyword o then TId (op_text o) else TP (op_text o).
Definition find_op (k : okind) (t : tok) : option op :=
  find (fun o => (match op_kind o, k with KPre, KPre | KPost, KPost | KBin, KBin => true | _, _ => false end)
                 && tok_eqb (op_tok o) t) all_ops.
Definition prefix_op := find_op KPre.
Definition postfix_op := find_op KPost.
Definition binary_op := find_op KBin.

(* prefix operators: the binding strength up to which one may start an operand, the strength with which
   its own operand is parsed, and whether the [In] parameter reaches the operand.
   UnaryExpression : (delete | void | typeof | + | - | ~ | ! | await) UnaryExpression   -- anywhere below "new"
   YieldExpression[In] : yield AssignmentExpression[?In]   -- an AssignmentExpression (the grammar is taken with
   [+Yield]; "yield" without operand and "yield *" are outside the fragment) *)
Definition pre_max (o : op) : Z := if op_eqb o UYield then 3 else 19.
Definition pre_arg (o : op) : Z := if op_eqb o UYield then 3 else 18.
Definition pre_in (o : op) (ni : bool) : bool := op_eqb o UYield && ni.

Definition is_dot (t : tok) : bool := tok_eqb t (TP [46]).
Definition is_quest (t : tok) : bool := tok_eqb t (TP [63]).
Definition is_colon (t : tok) : bool := tok_eqb t (TP [58]).
Definition is_lbrack (t : tok) : bool := tok_eqb t (TP [91]).
Definition is_rbrack (t : tok) : bool := tok_eqb t (TP [93]).
Definition S_Cond := 5.
Definition is_new (t : tok) : bool := tok_eqb t (TId [110; 101; 119]).
Definition is_comma (t : tok) : bool := tok_eqb t (TP [44]).
Definition S_New := 20. Definition S_Call := 21.
Definition is_open (t : tok) : bool := tok_eqb t (TP [40]).
Definition is_close (t : tok) : bool := tok_eqb t (TP [41]).

(* PrimaryExpression tokens: identifiers that are not reserved words (or are this/null/true/false/super), literals *)
Definition atom_of (t : tok) : option expr :=
  match t with
  | TId s => if regex_after_word s then None else Some (EId s)
  | TNum s => Some (ENum s)
  | TRe b f => Some (ERe b f)
  | TP _ => None
  end.

(* simple assignment targets: an IdentifierReference that is not a reserved word, or a member access *)
Definition is_target (e : expr) : bool :=
  match e with
  | EId s => negb (mem s ecma_reserved_words)
  | EDot _ _ | EIndex _ _ => true
  | _ => false
  end.

(* may [left] (of stratum ll) be the left operand of o? *)
Definition left_ok (o : op) (ll : Z) (left : expr) : bool :=
  if is_assign o then (S_Member <=? ll) && is_target left
  else match o with
       | BPow => (S_Update <=? ll) || (match left with EUn u _ => op_eqb u UPreInc || op_eqb u UPreDec | _ => false end)
       | BNullish => (ll =? 6) || (9 <=? ll)
       | _ => spec_level o <=? ll
       end.
(* binding strength with which the right operand is parsed (operators strictly above it are consumed) *)
Definition right_level (o : op) : Z :=
  if is_assign o then 3
  else match o with BPow => 16 | BNullish => 8 | _ => spec_level o end.

(* 13.3 Left-Hand-Side Expressions:
     MemberExpression : PrimaryExpression | MemberExpression [ Expression ] | MemberExpression . IdentifierName
                      | new MemberExpression Arguments
     NewExpression    : MemberExpression | new NewExpression
     CallExpression   : MemberExpression Arguments | CallExpression Arguments
                      | CallExpression [ Expression ] | CallExpression . IdentifierName
   The callee of "new" is parsed with binding strength S_Call: member accesses are taken, an
   argument list is not (it belongs to the "new"), and no prefix operator may start it.
   Arguments : ( ) | ( ArgumentList ,opt ), each argument an AssignmentExpression.
   The grammar parameter [In] (13.10: RelationalExpression[In] has the production with "in" only for +In;
   a for-loop head uses Expression[~In]) is the flag ni ("no in"): it is handed down to the operands of
   binary operators and to the last branch of a conditional, and reset inside parentheses, brackets,
   argument lists and the middle branch of a conditional (these use [+In] in the grammar); unary
   operands and callees have no [In] parameter. *)
Fixpoint parse_expr (fuel : nat) (ni : bool) (L : Z) (ts : list tok) : option (expr * list tok) :=
  match fuel with
  | O => None
  | S n =>
    match ts with
    | [] => None
    | t :: r =>
      if is_new t then
        match parse_expr n false S_Call r with
        | Some (c, r') =>
            match r' with
            | p :: r'' =>
                if is_open p then
                  match parse_args n r'' with
                  | Some (a, r3) => parse_suffix n ni L (ENew c a) S_Member r3
                  | None => None
                  end
                else parse_suffix n ni L (ENew c ANil) S_New r'
            | [] => parse_suffix n ni L (ENew c ANil) S_New r'
            end
        | None => None
        end
      else match prefix_op t with
      | Some o =>
          if pre_max o <? L then None
          else match parse_expr n (pre_in o ni) (pre_arg o) r with
          | Some (v, r') => if negb (is_update o) || is_target v then parse_suffix n ni L (EUn o v) (spec_level o) r' else None
          | None => None
          end
      | None =>
          match atom_of t with
          | Some a => parse_suffix n ni L a S_Member r
          | None =>
              if is_open t then
                match parse_expr n false 0 r with
                | Some (e, c :: r'') => if is_close c then parse_suffix n ni L e S_Member r'' else None
                | _ => None
                end
              else None
          end
      end
    end
  end
with parse_suffix (fuel : nat) (ni : bool) (L : Z) (left : expr) (ll : Z) (ts : list tok) : option (expr * list tok) :=
  match fuel with
  | O => None
  | S n =>
    match ts with
    | [] => Some (left, [])
    | t :: r =>
      if is_dot t then
        match r with
        | TId s :: r' => if S_Call <=? ll then parse_suffix n ni L (EDot left s) S_Member r' else None
        | _ => None
        end
      else if is_lbrack t then
        (* MemberExpression [ Expression ] *)
        if S_Call <=? ll then
          match parse_expr n false 0 r with
          | Some (i, c :: r') => if is_rbrack c then parse_suffix n ni L (EIndex left i) S_Member r' else None
          | _ => None
          end
        else None
      else if is_open t then
        (* Arguments after a MemberExpression or CallExpression *)
        if S_Call <=? L then Some (left, ts)
        else if S_Call <=? ll then
          match parse_args n r with
          | Some (a, r') => parse_suffix n ni L (ECall left a) S_Call r'
          | None => None
          end
        else None
      else if is_quest t then
        (* ConditionalExpression : ShortCircuitExpression ? AssignmentExpression : AssignmentExpression *)
        if S_Cond <=? L then Some (left, ts)
        else if S_Cond <? ll then
          match parse_expr n false 3 r with
          | Some (y, c :: r') =>
              if is_colon c then
                match parse_expr n ni 3 r' with
                | Some (no, r'') => parse_suffix n ni L (ECond left y no) S_Cond r''
                | None => None
                end
              else None
          | _ => None
          end
        else None
      else match postfix_op t with
      | Some o =>
          if S_Update <=? L then Some (left, ts)
          else if (S_Member <=? ll) && is_target left then parse_suffix n ni L (EUn o left) S_Update r else None
      | None =>
          match binary_op t with
          | Some o =>
              if (ni && op_eqb o BIn) || (spec_level o <=? L) then Some (left, ts)
              else if left_ok o ll left then
                match parse_expr n ni (right_level o) r with
                | Some (rt, r') => parse_suffix n ni L (EBin o left rt) (spec_level o) r'
                | None => None
                end
              else None
          | None => Some (left, ts)
          end
      end
    end
  end
with parse_args (fuel : nat) (ts : list tok) : option (expr * list tok) :=
  match fuel with
  | O => None
  | S n =>
    match ts with
    | [] => None
    | t :: r =>
      if is_close t then Some (ANil, r)
      else match parse_expr n false 3 ts with
           | Some (e, c :: r') =>
               if is_close c then Some (ACons e ANil, r')
               else if is_comma c then
                 match parse_args n r' with
                 | Some (rest, r'') => Some (ACons e rest, r'')
                 | None => None
                 end
               else None
           | _ => None
           end
    end
  end.

(* a whole token list is one expression *)
Definition parse_fuel (n : nat) (ni : bool) (ts : list tok) : option expr :=
  match parse_expr n ni 0 ts with Some (e, []) => Some e | _ => None end.
Definition parse (ni : bool) (ts : list tok) : option expr := parse_fuel (2 * List.length ts + 2) ni ts.
Definition parse_text (ni : bool) (s : list Z) : option expr :=
  match lex s with Some ts => parse ni ts | None => None end.

(* the printer's only normalisation on this fragment: the comma operator is printed without
   parentheses on either side ("a, (b, c)" prints as "a, b, c"), so comma trees come back
   left-nested.  Comma is associative, so this preserves meaning by construction. *)
Fixpoint comma_app (l r : expr) : expr :=
  match r with
  | EBin BComma r1 r2 => EBin BComma (comma_app l r1) r2
  | _ => EBin BComma l r
  end.
Fixpoint norm (e : expr) : expr :=
  match e with
  | EDot t s => EDot (norm t) s
  | EUn o v => EUn o (norm v)
  | EBin o l r => if op_eqb o BComma then comma_app (norm l) (norm r) else EBin o (norm l) (norm r)
  | ECond c y n => ECond (norm c) (norm y) (norm n)
  | EIndex t i => EIndex (norm t) (norm i)
  | ECall f a => ECall (norm f) (norm a)
  | ENew f a => ENew (norm f) (norm a)
  | ACons x r => ACons (norm x) (norm r)
  | _ => e
  end.
