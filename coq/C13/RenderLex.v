(* Main theorem: the text rendered by the printer model for any grammatical
   operator/operand chain is read back by the specification lexer as exactly
   the emitted tokens. *)
From V Require Import Common.Base C13.KwSpec C13.Token C13.LexSpec C13.LexProofs C13.Toks C13.TokenProofs.
From Coq Require Import String.

Lemma nohead_of_hdz (f : Z -> bool) R : f (hdz R) = false -> nohead f R.
Proof. intros H c r E. subst R. exact H. Qed.

Lemma skip_ws_spaces w s : Forall (fun c => c = 32) w -> skip_ws (w ++ s) = skip_ws s.
Proof. induction 1 as [|c w Hc Hw IH]; [reflexivity|]. subst c. simpl. exact IH. Qed.
Lemma skip_ws_sp_b b s : skip_ws (sp b ++ s) = skip_ws s.
Proof. destruct b; reflexivity. Qed.
Lemma skip_ws_hd s : hdz s <> 32 -> skip_ws s = s.
Proof. destruct s as [|c s']; [reflexivity|]. simpl. intro H. apply Z.eqb_neq in H. rewrite H. reflexivity. Qed.

Lemma lex_all_step n cx s s' t R :
  skip_ws s = s' -> s' <> [] -> lex1 cx s' = Some (t, R) ->
  lex_all (S n) cx s = match lex_all n (ctx_after t) R with Some ts => Some (t :: ts) | None => None end.
Proof. intros H1 H2 H3. destruct s' as [|c0 s0]; [congruence|]. cbn [lex_all]. rewrite H1. rewrite H3. reflexivity. Qed.

Lemma sp_spaces b : Forall (fun c => c = 32) (sp b).
Proof. destruct b; simpl; repeat constructor. Qed.

(* ---- the goal symbol chosen from the previous token is the right one ---- *)
Lemma goal_op o : is_post (IOp o) = false -> is_update_pre (IOp o) = false ->
  regex_ok (ctx_after (last_tok (IOp o))) = true.
Proof. destruct o; simpl; intros; try discriminate; reflexivity. Qed.

Lemma goal_regex prev b f r :
  chain prev (IRe b f :: r) = true -> regex_ok (ctx_of prev) = true.
Proof.
  simpl. intro H. apply andb_true_iff in H as [H _]. destruct prev as [a|]; [|reflexivity].
  unfold adj in H. destruct (ends_operand a) eqn:Ee; [discriminate|].
  apply andb_true_iff in H as [_ H]. destruct (is_update_pre a) eqn:Eu; [discriminate|].
  destruct a as [s|s|b' f'|o|s| | | | | | | |]; try discriminate.
  - apply goal_op; assumption.
  - reflexivity.
  - reflexivity.
  - reflexivity.
  - reflexivity.
  - reflexivity.
  - reflexivity.
Qed.

Lemma ends_div a : item_ok a -> ends_operand a = true -> regex_ok (ctx_after (last_tok a)) = false.
Proof.
  destruct a as [s|s|b f|o|s| | | | | | | |]; simpl; intros Hi He; try reflexivity; try discriminate.
  - destruct Hi as [_ H]. exact H.
  - destruct o; try discriminate; reflexivity.
  - destruct Hi as [_ H]. exact H.
Qed.

Lemma goal_div prev o r :
  (forall a, prev = Some a -> item_ok a) -> hdz (op_text o) = 47 -> chain prev (IOp o :: r) = true ->
  regex_ok (ctx_of prev) = false.
Proof.
  intros Hp H47 H. simpl in H. apply andb_true_iff in H as [H _].
  assert (Hk : op_kind o = KBin) by (destruct o; try discriminate; reflexivity).
  destruct prev as [a|]; [|simpl in H; rewrite Hk in H; discriminate].
  unfold adj in H. destruct (ends_operand a) eqn:Ee.
  - apply ends_div; [apply Hp; reflexivity | exact Ee].
  - destruct a; simpl in H; rewrite ?Hk in H; discriminate.
Qed.

(* ---- "<" "!" : the two characters after the "!" are never "--" ---- *)
Lemma hd_neg_ops o : op_kind o = KPre -> hdz (op_text o) = 45 -> o = UNeg \/ o = UPreDec.
Proof. destruct o; simpl; intros; try discriminate; auto. Qed.

Lemma starts_hd45 k : item_ok k -> starts_operand k = true -> hdz (text k) = 45 -> k = IOp UNeg \/ k = IOp UPreDec.
Proof.
  intros Hk Hs H45. destruct k as [s|s|b f|o|s| | | | | | | |]; try discriminate.
  - destruct Hk as [Hw _]. destruct (word_shape_hd s Hw) as [_ Hs']. simpl in H45. rewrite H45 in Hs'. discriminate.
  - destruct (num_last s Hk) as [_ [Hd|Hd]]; simpl in H45; rewrite H45 in Hd; discriminate.
  - simpl in Hs. destruct (op_kind o) eqn:Ek; try discriminate.
    destruct (hd_neg_ops o Ek H45); subst; auto.
Qed.

Lemma render_hd mw st k r :
  item_ok k -> hdz (render mw st (k :: r)) = if pre_sp mw st k then 32 else hdz (text k).
Proof.
  intro Hk. rewrite render_cons. destruct (pre_sp mw st k); [reflexivity|]. simpl.
  apply hdz_app. apply text_ok. exact Hk.
Qed.

Lemma lt_not_safe mw st r' R3 :
  Forall item_ok r' -> chain (Some (IOp UNot)) r' = true ->
  lastc st = 60 -> pre_sp mw st (IOp UNot) = false ->
  render mw (after mw st (IOp UNot)) r' = 45 :: 45 :: R3 -> False.
Proof.
  intros Hr Hc H60 Hpre E.
  set (st2 := after mw st (IOp UNot)) in *.
  assert (Hl2 : last2 st2 = 60) by (unfold st2; rewrite after_last2_not by exact Hpre; exact H60).
  destruct (after_lastc_mk mw st (IOp UNot) (op_text_nonempty UNot)) as [_ Hmk2].
  change (post_sp mw (IOp UNot)) with false in Hmk2. simpl in Hmk2. fold st2 in Hmk2.
  destruct r' as [|k r'']; [discriminate|].
  inversion Hr as [|? ? Hk Hr'']; subst.
  simpl in Hc. apply andb_true_iff in Hc as [Hadj Hc].
  assert (Hso : starts_operand k = true).
  { unfold adj in Hadj. simpl in Hadj. apply andb_true_iff in Hadj as [H _]. rewrite orb_false_r in H. exact H. }
  pose proof (render_hd mw st2 k r'' Hk) as Hh. rewrite E in Hh. simpl in Hh.
  destruct (pre_sp mw st2 k) eqn:Epk; [discriminate|].
  destruct (starts_hd45 k Hk Hso (eq_sym Hh)) as [Ek|Ek]; subst k.
  - (* "-" : look at the next item *)
    rewrite render_cons, Epk in E. change (post_sp mw (IOp UNeg)) with false in E. simpl in E.
    inversion E as [E']. clear E.
    set (st3 := after mw st2 (IOp UNeg)) in *.
    destruct (after_lastc_mk mw st2 (IOp UNeg) (op_text_nonempty UNeg)) as [_ Hmk3].
    change (post_sp mw (IOp UNeg)) with false in Hmk3. simpl in Hmk3. fold st3 in Hmk3.
    destruct r'' as [|l r3]; [discriminate|].
    inversion Hr'' as [|? ? Hl Hr3]; subst.
    simpl in Hc. apply andb_true_iff in Hc as [Hadj2 _].
    assert (Hso2 : starts_operand l = true).
    { unfold adj in Hadj2. simpl in Hadj2. apply andb_true_iff in Hadj2 as [H _]. rewrite orb_false_r in H. exact H. }
    pose proof (render_hd mw st3 l r3 Hl) as Hh2. rewrite E' in Hh2. simpl in Hh2.
    destruct (pre_sp mw st3 l) eqn:Epl; [discriminate|].
    destruct (starts_hd45 l Hl Hso2 (eq_sym Hh2)) as [El|El]; subst l;
      unfold pre_sp in Epl; simpl in Epl; unfold op_hazard in Epl; rewrite Hmk3 in Epl; simpl in Epl; discriminate.
  - (* "--" directly: the printer's "<!--" rule fires *)
    unfold pre_sp in Epk. simpl in Epk. unfold op_hazard in Epk. rewrite Hmk2 in Epk.
    unfold space_rule in Epk. rewrite Hl2 in Epk. simpl in Epk. discriminate.
Qed.

Lemma prefix_cons a w c s : prefix_b (a :: w) (c :: s) = true -> a = c /\ prefix_b w s = true.
Proof. simpl. intro H. apply andb_true_iff in H as [H1 H2]. apply Z.eqb_eq in H1. tauto. Qed.

Lemma comment_lt_bang R2 :
  comment_start false (60 :: 33 :: R2) = true -> exists R3, R2 = 45 :: 45 :: R3.
Proof.
  unfold comment_start. intro H. apply existsb_exists in H as [w [Hin Hw]].
  vm_compute in Hin. destruct Hin as [E|[E|[E|[]]]]; subst w.
  - apply prefix_hd in Hw. discriminate.
  - apply prefix_hd in Hw. discriminate.
  - apply prefix_cons in Hw as [_ Hw]. apply prefix_cons in Hw as [_ Hw].
    destruct R2 as [|a R2']; [discriminate|]. apply prefix_cons in Hw as [Ha Hw].
    destruct R2' as [|b R3]; [discriminate|]. apply prefix_cons in Hw as [Hb _].
    subst. exists R3. reflexivity.
Qed.

(* ---- one item is read back ---- *)
Definition single (i : item) : Prop := match i with IDot _ => False | _ => True end.

Lemma single_toks i : single i -> toks_of i = [last_tok i].
Proof. destruct i; unfold last_tok; simpl; intro H; try reflexivity; [destruct (op_is_keyword o); reflexivity | destruct H]. Qed.

Lemma hz_dot ls : hazard_chars ls [46] = [46].
Proof. destruct ls; vm_compute; reflexivity. Qed.

Lemma item_lex mw prev st i r :
  (forall a, prev = Some a -> item_ok a) -> item_ok i -> Forall item_ok r -> chain prev (i :: r) = true ->
  let R := sp (post_sp mw i) ++ render mw (after mw st i) r in
  match i with
  | IDot s => lex1 (ctx_of prev) (46 :: s ++ R) = Some (TP [46], s ++ R)
              /\ lex1 (ctx_after (TP [46])) (s ++ R) = Some (TId s, R)
  | _ => lex1 (ctx_of prev) (text i ++ R) = Some (last_tok i, R)
  end.
Proof.
  intros Hp Hi Hr Hc R.
  pose proof (need_holds mw prev st i r Hi Hr Hc) as N.
  rewrite <- (hdz_rest mw _ _ r Hr) in N. fold R in N.
  destruct i as [s|s|b f|o|s| | | | | | | |].
  - destruct N as [N|[[X _]|[X _]]]; [|discriminate|discriminate]. simpl in N. apply andb_true_iff in N as [N N92].
    apply negb_true_iff in N. apply negb_true_iff in N92.
    apply lex1_word; [destruct Hi; assumption | apply nohead_of_hdz; exact N | apply nohead_of_hdz; exact N92].
  - destruct N as [N|[[X _]|[X _]]]; [|discriminate|discriminate]. simpl in N. apply andb_true_iff in N as [N1 N2].
    apply negb_true_iff in N1.
    apply lex1_num; [exact Hi | apply nohead_of_hdz; exact N1 |].
    intro Hpl. apply nohead_of_hdz. change (plain_int (text (INum s))) with (no_dex s) in Hpl. rewrite Hpl in N2. simpl in N2. apply negb_true_iff in N2. exact N2.
  - destruct N as [N|[[X _]|[X _]]]; [|discriminate|discriminate]. simpl in N. apply andb_true_iff in N as [N _]. apply negb_true_iff in N.
    change (text (IRe b f) ++ R) with (47 :: (b ++ 47 :: f) ++ R). rewrite <- app_assoc. change ((47 :: f) ++ R) with (47 :: f ++ R).
    apply lex1_re; [eapply goal_regex; exact Hc | exact Hi | apply nohead_of_hdz; exact N].
  - destruct (op_facts o) as (Fh & Fn & Fk). simpl text. unfold last_tok. simpl toks_of.
    destruct (op_is_keyword o) eqn:Ew.
    + destruct N as [N|[[X _]|[X _]]]; [|inversion X; subst; discriminate|discriminate]. simpl in N. rewrite Ew in N.
      apply andb_true_iff in N as [N N92]. apply negb_true_iff in N. apply negb_true_iff in N92.
      destruct (Fk eq_refl) as (_ & Hs & Hall & _). simpl last.
      apply lex1_id; [|apply nohead_of_hdz; exact N | apply nohead_of_hdz; exact N92].
      split; [apply op_text_nonempty | split; assumption].
    + destruct (Fn eq_refl) as (_ & H46 & _ & _ & Hpu & Hq). simpl last.
      destruct N as [N|[(X & Ep & r' & Er & Epre)|[X _]]]; [| |discriminate].
      * simpl in N. rewrite Ew in N. apply negb_true_iff in N.
        apply punct_follow_char; try assumption.
        -- intro H47. eapply goal_div; eassumption.
        -- intro E. rewrite E in H46. simpl in H46. congruence.
      * (* "<" followed by "!" *)
        inversion X; subst o. subst r.
        assert (Hprev : exists a, prev = Some a).
        { destruct prev as [a|]; [eexists; reflexivity|]. simpl in Hc. discriminate. }
        destruct Hprev as [a Ea]. subst prev.
        assert (Hls : line_start (ctx_of (Some a)) = false) by apply ctx_after_ls.
        set (R2 := render mw (after mw (after mw st (IOp BLt)) (IOp UNot)) r').
        assert (ER : R = 33 :: R2).
        { unfold R. rewrite Ep. rewrite render_cons, Epre. reflexivity. }
        rewrite ER. change (op_text BLt) with [60].
        apply lex1_punct.
        -- reflexivity.
        -- reflexivity.
        -- rewrite Hls. change ([60] ++ 33 :: R2) with (60 :: 33 :: R2).
           destruct (comment_start false (60 :: 33 :: R2)) eqn:Ecs; [|reflexivity]. exfalso.
           apply comment_lt_bang in Ecs as [R3 E3].
           inversion Hr as [|? ? Hnot Hr']; subst.
           simpl in Hc. apply andb_true_iff in Hc as [_ Hc].
           refine (lt_not_safe mw (after mw st (IOp BLt)) r' R3 Hr' Hc _ Epre E3).
           destruct (after_lastc_mk mw st (IOp BLt) (op_text_nonempty BLt)) as [Hlc _]. rewrite Ep in Hlc. exact Hlc.
        -- apply memz_false. vm_compute. reflexivity.
        -- simpl. discriminate.
        -- discriminate.
  - (* IDot *)
    destruct N as [N|[[X _]|[X _]]]; [|discriminate|discriminate]. simpl in N. apply andb_true_iff in N as [N N92].
    apply negb_true_iff in N. apply negb_true_iff in N92.
    destruct Hi as [Hs Hw]. pose proof Hs as (Hne & Hst & Hall).
    split.
    + change (46 :: s ++ R) with ([46] ++ (s ++ R)).
      assert (Hh : hdz (s ++ R) = hdz s) by (apply hdz_app; exact Hne).
      apply id_start_facts in Hst as (_ & _ & _ & Hd & H46 & _).
      apply punct_follow_char.
      * reflexivity.
      * reflexivity.
      * rewrite hz_dot, Hh. simpl. apply orb_false_iff. split; [apply Z.eqb_neq; exact H46 | reflexivity].
      * simpl. discriminate.
      * intros _. rewrite Hh. exact Hd.
    + apply lex1_id; [exact Hs | apply nohead_of_hdz; exact N | apply nohead_of_hdz; exact N92].
  - destruct N as [N|[[X _]|[X _]]]; [|discriminate|discriminate]. simpl in N. apply negb_true_iff in N.
    apply punct_follow_char; try reflexivity; try exact N; simpl; discriminate.
  - destruct N as [N|[[X _]|[X _]]]; [|discriminate|discriminate]. simpl in N. apply negb_true_iff in N.
    apply punct_follow_char; try reflexivity; try exact N; simpl; discriminate.
  - destruct N as [N|[[X _]|(_ & Ep & s' & r' & Er & Epre)]]; [|discriminate|].
    2: { (* "?" directly followed by a number that starts with ".": "?." before a digit is "?" *)
      subst r. inversion Hr as [|? ? Hnum Hr']; subst.
      destruct (num_dot_inv s' Hnum) as (d & s'' & Es & Hd). subst s'.
      assert (ER : exists R2, R = 46 :: d :: R2).
      { unfold R. rewrite Ep. change (sp false) with (@nil Z). rewrite app_nil_l, render_cons, Epre. change (sp false) with (@nil Z). simpl text. simpl app. eexists. reflexivity. }
      destruct ER as [R2 ER]. rewrite ER. simpl text. apply lex1_quest_dot. exact Hd. }
    simpl in N. apply negb_true_iff in N.
    apply punct_follow_char; try reflexivity; try exact N; simpl; discriminate.
  - destruct N as [N|[[X _]|[X _]]]; [|discriminate|discriminate]. simpl in N. apply negb_true_iff in N.
    apply punct_follow_char; try reflexivity; try exact N; simpl; discriminate.
  - destruct N as [N|[[X _]|[X _]]]; [|discriminate|discriminate]. simpl in N. apply negb_true_iff in N.
    apply punct_follow_char; try reflexivity; try exact N; simpl; discriminate.
  - destruct N as [N|[[X _]|[X _]]]; [|discriminate|discriminate]. simpl in N. apply negb_true_iff in N.
    apply punct_follow_char; try reflexivity; try exact N; simpl; discriminate.
  - (* new *)
    destruct N as [N|[[X _]|[X _]]]; [|discriminate|discriminate]. simpl in N. apply andb_true_iff in N as [N N92].
    apply negb_true_iff in N. apply negb_true_iff in N92.
    apply lex1_id; [|apply nohead_of_hdz; exact N | apply nohead_of_hdz; exact N92].
    repeat split; try discriminate; reflexivity.
  - destruct N as [N|[[X _]|[X _]]]; [|discriminate|discriminate]. simpl in N. apply negb_true_iff in N.
    apply punct_follow_char; try reflexivity; try exact N; simpl; discriminate.
Qed.

(* ---- render_lex ---- *)
Lemma text_len_pos i : item_ok i -> (List.length (text i) >= 1)%nat.
Proof. intro H. destruct (text_ok i H) as [Hne _]. destruct (text i); [congruence | simpl; lia]. Qed.

Theorem render_lex_gen mw : forall items prev st w n,
  (forall a, prev = Some a -> item_ok a) -> Forall item_ok items -> chain prev items = true ->
  Forall (fun c => c = 32) w ->
  (n > List.length (w ++ render mw st items))%nat ->
  lex_all n (ctx_of prev) (w ++ render mw st items) = Some (toks items).
Proof.
  induction items as [|i r IH]; intros prev st w n Hp Hall Hc Hw Hn.
  - simpl. rewrite app_nil_r in *. destruct n; [lia|]. cbn [lex_all].
    rewrite <- (app_nil_r w), skip_ws_spaces by exact Hw. reflexivity.
  - inversion Hall as [|? ? Hi Hr]; subst.
    pose proof (item_lex mw prev st i r Hp Hi Hr Hc) as L. cbv zeta in L.
    rewrite render_cons in *.
    set (R := sp (post_sp mw i) ++ render mw (after mw st i) r) in *.
    destruct (text_ok i Hi) as [Hne H32].
    assert (Hskip : skip_ws (w ++ sp (pre_sp mw st i) ++ text i ++ R) = text i ++ R).
    { rewrite skip_ws_spaces by exact Hw. rewrite skip_ws_sp_b. apply skip_ws_hd. rewrite hdz_app by exact Hne. exact H32. }
    assert (Hne2 : text i ++ R <> []) by (destruct (text i); [congruence | discriminate]).
    assert (Hc' : chain (Some i) r = true) by (simpl in Hc; apply andb_true_iff in Hc; tauto).
    assert (Hp' : forall a, Some i = Some a -> item_ok a) by (intros a E; inversion E; subst; exact Hi).
    pose proof (text_len_pos i Hi) as Hlen.
    rewrite !app_length in Hn. fold R in Hn.
    destruct n as [|n]; [lia|].
    assert (Hsingle : single i -> lex_all (S n) (ctx_of prev) (w ++ sp (pre_sp mw st i) ++ text i ++ R) = Some (toks (i :: r))).
    { intro Hs. assert (L1 : lex1 (ctx_of prev) (text i ++ R) = Some (last_tok i, R)) by (destruct i; try exact L; destruct Hs).
      rewrite (lex_all_step n _ _ _ _ _ Hskip Hne2 L1).
      change (ctx_after (last_tok i)) with (ctx_of (Some i)). unfold R.
      rewrite (IH (Some i) (after mw st i) (sp (post_sp mw i)) n Hp' Hr Hc' (sp_spaces _)).
      - simpl toks. rewrite (single_toks i Hs). reflexivity.
      - fold R. lia. }
    destruct i as [s|s|b f|o|s| | | | | | | |]; try (apply Hsingle; exact I).
    (* IDot: two tokens *)
    destruct L as [L1 L2]. simpl text in *.
    rewrite (lex_all_step n _ _ _ _ _ Hskip Hne2 L1).
    destruct Hi as [Hs Hwd]. pose proof Hs as (Hsne & Hst & _).
    assert (Hskip2 : skip_ws (s ++ R) = s ++ R).
    { apply skip_ws_hd. rewrite hdz_app by exact Hsne. apply id_start_facts in Hst. tauto. }
    assert (Hne3 : s ++ R <> []) by (destruct s; [congruence | discriminate]).
    assert (Hsl : (List.length s >= 1)%nat) by (destruct s; [congruence | simpl; lia]).
    simpl List.length in Hn.
    destruct n as [|n]; [lia|].
    rewrite (lex_all_step n _ _ _ _ _ Hskip2 Hne3 L2).
    change (ctx_after (TId s)) with (ctx_of (Some (IDot s))). unfold R.
    rewrite (IH (Some (IDot s)) (after mw st (IDot s)) (sp (post_sp mw (IDot s))) n Hp' Hr Hc' (sp_spaces _)).
    + reflexivity.
    + fold R. lia.
Qed.

Theorem render_lex_all mw items :
  Forall item_ok items -> chain None items = true ->
  lex (render mw st0 items) = Some (toks items).
Proof.
  intros Hall Hc. unfold lex.
  apply (render_lex_gen mw items None st0 [] (S (List.length (render mw st0 items)))); try assumption.
  - intros a E. discriminate.
  - constructor.
  - simpl. lia.
Qed.

(* no comment opener is created, no two tokens fuse: stated separately *)
Corollary render_no_comment_all mw items :
  Forall item_ok items -> chain None items = true -> lex (render mw st0 items) <> None.
Proof. intros H1 H2. rewrite (render_lex_all mw items H1 H2). discriminate. Qed.
