(* C13 property theorems. Only statements closed by [exact lemma] and Print Assumptions. *)
From V Require Import Common.Base C13.KwSpec C13.KwProofs gen.KeywordsGen.
From V Require Import C13.Token C13.LexSpec C13.Toks C13.TokenProofs C13.RenderLex.
From V Require Import C13.ParseSpec C13.PrintParse C13.PrintParse2 C13.PrintNorm C13.PrintChain C13.ParseFuel C13.RoundTrip.

(* the keyword table of the lexer (regenerated from the source by T6) is exactly the
   ECMA-262 reserved-word list minus the two contextually reserved words await/yield *)
Theorem keywords_eq_ecma262 :
  forall w, In w (map fst gen_keywords) <-> (In w ecma_reserved_words /\ ~ In w ecma_contextually_reserved).
Proof. exact keywords_eq_ecma262_all. Qed.
Print Assumptions keywords_eq_ecma262.

(* the strict-mode reserved words are exactly implements interface let package private protected public static yield *)
Theorem strict_reserved_eq_ecma262 : forall w, In w gen_strict_reserved <-> In w ecma_strict_reserved.
Proof. exact strict_eq_ecma262_all. Qed.
Print Assumptions strict_reserved_eq_ecma262.

(* no word is listed twice or in both tables *)
Theorem keyword_tables_nodup : NoDup (map fst gen_keywords ++ gen_strict_reserved).
Proof. exact tables_nodup_all. Qed.
Print Assumptions keyword_tables_nodup.

(* every keyword is mapped to the token constant of its own name *)
Theorem keyword_tokens_consistent : forall e, In e gen_keywords -> fst e = snd e.
Proof. exact keyword_tokens_consistent_all. Qed.
Print Assumptions keyword_tokens_consistent.

(* render_lex: for every grammatical operator/operand chain (identifiers, numeric
   literals of the shapes 12, 1.5, 15e-8, 0xff with the space-before-dot rule for plain integers, regular expressions, all 53 unary/binary/postfix operators, member
   access, parentheses), in both whitespace modes, the text produced by the
   printer's gluing rules is read back by the ECMA-262 maximal-munch lexer as
   exactly the emitted tokens: no two tokens fuse and no comment opener
   (//, /*, <!--, -->) appears at a token boundary *)
Theorem render_lex : forall mw items,
  Forall item_ok items -> chain None items = true ->
  lex (render mw st0 items) = Some (toks items).
Proof. exact render_lex_all. Qed.
Print Assumptions render_lex.

Theorem render_creates_no_comment : forall mw items,
  Forall item_ok items -> chain None items = true -> lex (render mw st0 items) <> None.
Proof. exact render_no_comment_all. Qed.
Print Assumptions render_creates_no_comment.

(* the binding levels of js_ast.OpTable (tied to the source by the correspondence run) are the
   strata of the ECMA-262 expression grammar as written down independently in ParseSpec.v *)
Theorem op_levels_match_grammar : forall o, spec_level o = op_level o.
Proof. exact spec_level_is_op_level. Qed.
Print Assumptions op_levels_match_grammar.

(* tree level, tokens: for every well-formed expression tree of the fragment (identifiers,
   numeric literals, regexps, member access a.b and index access a[b], the conditional c ? y : n,
   calls f(x, y) and new f(x, y) with argument lists of any length, all 11 unary/update and 42
   binary/assignment/comma operators), in both whitespace modes (minification omits the empty
   "()" of a new-expression where the grammar allows it),
   the tokens of what printExpr prints (parentheses chosen by level, the "**" and "??" operand
   rules, the isNewTarget rule: a call inside the callee of "new" is parenthesised, at any depth of
   member access, and a new-expression keeps its "()" when it is itself a member/call target)
   under either value of the forbidIn flag fi of a for-loop head (an "in" operator is parenthesised wherever the grammar
   parameter [~In] reaches: operands of unparenthesised binary operators, test and last branch of an
   unparenthesised conditional; the parser runs with the matching parameter)
   are parsed by the independent ECMA-262 precedence-climbing parser back to the tree,
   up to norm (left-nesting of comma chains, which the printer prints without parentheses) *)
Theorem print_parse_tokens : forall mw fi ss e, wf e ->
  exists n, forall m, (n <= m)%nat -> parse_fuel m fi (toks (print_items mw fi ss LLowest e)) = Some (norm e).
Proof. exact parse_print_items_all. Qed.
Print Assumptions print_parse_tokens.

(* norm is invisible to the printer (so it only re-associates what is printed identically) and idempotent *)
Theorem norm_prints_the_same : forall mw e fi ss P, print_items mw fi ss P (norm e) = print_items mw fi ss P e.
Proof. exact print_norm. Qed.
Print Assumptions norm_prints_the_same.
Theorem norm_idempotent : forall e, norm (norm e) = norm e.
Proof. exact norm_idem. Qed.
Print Assumptions norm_idempotent.

(* every printed well-formed tree is a grammatical chain of well-formed items, so render_lex applies:
   the text of a printed tree lexes to the tokens of its items, in both whitespace modes *)
Theorem print_lex : forall mw fi ss e, wf e -> lexok e ->
  lex (print_expr mw fi ss e) = Some (toks (print_items mw fi ss LLowest e)).
Proof. exact print_lex_all. Qed.
Print Assumptions print_lex.

(* if some fuel parses a token list, the concrete fuel of [parse] (2 * tokens + 2) does too *)
Theorem parse_fuel_sufficient : forall n ni ts e, parse_fuel n ni ts = Some e -> parse ni ts = Some e.
Proof. exact parse_fuel_enough. Qed.
Print Assumptions parse_fuel_sufficient.

(* print_parse_roundtrip: the printed text of every well-formed expression tree of the fragment,
   in either whitespace mode, is read back (ECMA-262 lexer, then ECMA-262 expression parser) as the
   same tree up to norm.  [lexok] is the one lexical side condition of render_lex: the operand of a
   prefix ++/-- does not start with a regular expression (the specification lexer chooses the
   division goal after ++/--; "++/re/.x" is valid JavaScript outside the fragment). *)
Theorem print_parse_roundtrip : forall mw fi ss e, wf e -> lexok e -> parse_text fi (print_expr mw fi ss e) = Some (norm e).
Proof. exact print_parse_roundtrip_concrete. Qed.
Print Assumptions print_parse_roundtrip.

(* print_fixed_point: printing what was read back reproduces the text exactly, in both modes *)
Theorem print_fixed_point : forall mw fi ss e e', wf e -> lexok e ->
  parse_text fi (print_expr mw fi ss e) = Some e' -> forall mw' fi' ss', print_expr mw' fi' ss' e' = print_expr mw' fi' ss' e.
Proof. exact print_fixed_point_concrete. Qed.
Print Assumptions print_fixed_point.

(* print_stmt_roundtrip: statement start.  ss is the printer's "p.stmtStart == len(p.js)", handed down the
   leftmost operands as long as nothing is printed in front of them; an index access on the identifier "let"
   in that position is printed "(let)[...]" (fix ac301ad; the witnesses of finding C13-D7 are instances).
   The text printed for an expression statement is read back AS A STATEMENT (14.5: an ExpressionStatement
   must not start with the two tokens "let" "[") as the same tree. *)
Theorem print_stmt_roundtrip : forall mw e, wf e -> lexok e -> parse_stmt_text (print_expr mw false true e) = Some (norm e).
Proof. exact print_stmt_roundtrip_all. Qed.
Print Assumptions print_stmt_roundtrip.

(* the head of a for loop has the same restriction (14.7.4), and since fix 177d11f (finding C13-D10) the printer
   applies the same guard there: the initialiser of a for loop, printed with forbidIn, is read back as the first
   expression of a for head, with [~In], as the same tree *)
Theorem print_for_head_roundtrip : forall mw e, wf e -> lexok e ->
  parse_for_head_text (print_expr mw true true e) = Some (norm e).
Proof. exact print_for_head_roundtrip_guarded. Qed.
Print Assumptions print_for_head_roundtrip.
