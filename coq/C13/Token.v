(* Model of the token-gluing rules of internal/js_printer/js_printer.go for the
   operator/operand fragment of expressions.  Executable definitions only.

   Mirrors (Go function -> here):
     printer.print                      -> pr        (append; any non-empty print invalidates the position markers)
     printer.printSpace                 -> printSpace
     printer.printSpaceBeforeIdentifier -> printSpaceBeforeIdentifier (with endsWithIdentifierEscape of fix 6d63f64 -> ends_esc)
     printer.printSpaceBeforeOperator   -> printSpaceBeforeOperator
     printExpr case EUnary              -> emit (IOp o), o prefix/postfix
     binaryExprVisitor.visitRightAndFinish (operator part) -> emit (IOp o), o binary
     printExpr case EIdentifier         -> emit (IId s)
     printNumber/printNonNegativeFloat (the text of the non-negative literal is given; the needSpaceBeforeDot rule) -> emit (INum s)
     printExpr case ERegExp             -> emit (IRe b f)
     printExpr case EDot (non-optional, identifier name) -> emit (IDot s)
     printExpr case EIf  -> print_items (ECond), emit IQuest / IColon
     printExpr case EIndex (non-optional) -> print_items (EIndex), emit ILBrack / IRBrack
     printExpr case ECall (non-optional, no "(0, f)" guard) / ENew -> print_items (ECall / ENew), emit ICallOpen / INew
     js_ast.OpTable                     -> op_text / op_level / op_is_keyword (tied by the correspondence run)

   Abstraction: the Go printer keeps byte positions (prevOpEnd, needSpaceBeforeDot,
   prevRegExpEnd) and tests `marker == len(p.js)`.  Every print in this fragment
   that changes len(p.js) is non-empty and each marker is set immediately after
   the print it describes, so `marker == len(p.js)` holds exactly when the last
   non-empty print was the one that set it: [mk].  The buffer itself is
   represented by its last two bytes (all the rules look at). *)
From V Require Import Common.Base C13.KwSpec.
From Coq Require Import String.

Inductive op :=
 | UPos | UNeg | UCpl | UNot | UVoid | UTypeof | UDelete | UPreDec | UPreInc
 | UPostDec | UPostInc
 | BAdd | BSub | BMul | BDiv | BRem | BPow | BLt | BLe | BGt | BGe | BIn | BInstanceof
 | BShl | BShr | BUShr | BLooseEq | BLooseNe | BStrictEq | BStrictNe
 | BNullish | BLogOr | BLogAnd | BBitOr | BBitAnd | BBitXor
 | BComma
 | BAssign | BAddAssign | BSubAssign | BMulAssign | BDivAssign | BRemAssign | BPowAssign
 | BShlAssign | BShrAssign | BUShrAssign | BBitOrAssign | BBitAndAssign | BBitXorAssign
 | BNullishAssign | BLogOrAssign | BLogAndAssign
 | UAwait   (* not a js_ast.OpCode: EAwait, which printExpr treats like a keyword prefix operator of level LPrefix *)
 | UYield.  (* not a js_ast.OpCode: EYield with an operand and without the star: a keyword prefix operator of level LAssign whose operand is printed at LYield *)

(* the operators of js_ast.OpTable, in OpCode order *)
Definition table_ops : list op :=
 [UPos; UNeg; UCpl; UNot; UVoid; UTypeof; UDelete; UPreDec; UPreInc; UPostDec; UPostInc;
  BAdd; BSub; BMul; BDiv; BRem; BPow; BLt; BLe; BGt; BGe; BIn; BInstanceof;
  BShl; BShr; BUShr; BLooseEq; BLooseNe; BStrictEq; BStrictNe;
  BNullish; BLogOr; BLogAnd; BBitOr; BBitAnd; BBitXor; BComma;
  BAssign; BAddAssign; BSubAssign; BMulAssign; BDivAssign; BRemAssign; BPowAssign;
  BShlAssign; BShrAssign; BUShrAssign; BBitOrAssign; BBitAndAssign; BBitXorAssign;
  BNullishAssign; BLogOrAssign; BLogAndAssign].
Definition all_ops : list op := table_ops ++ [UAwait; UYield].

(* js_ast.OpCode value: position in all_ops (UnOpPos = 0 ... ) *)
Fixpoint index_of (eqb : op -> op -> bool) (o : op) (l : list op) (i : Z) : Z :=
  match l with [] => -1 | x :: r => if eqb o x then i else index_of eqb o r (i + 1) end.

Definition op_str (o : op) : string :=
  match o with
  | UPos => "+" | UNeg => "-" | UCpl => "~" | UNot => "!" | UVoid => "void" | UTypeof => "typeof"
  | UDelete => "delete" | UPreDec => "--" | UPreInc => "++" | UPostDec => "--" | UPostInc => "++"
  | BAdd => "+" | BSub => "-" | BMul => "*" | BDiv => "/" | BRem => "%" | BPow => "**"
  | BLt => "<" | BLe => "<=" | BGt => ">" | BGe => ">=" | BIn => "in" | BInstanceof => "instanceof"
  | BShl => "<<" | BShr => ">>" | BUShr => ">>>" | BLooseEq => "==" | BLooseNe => "!="
  | BStrictEq => "===" | BStrictNe => "!==" | BNullish => "??" | BLogOr => "||" | BLogAnd => "&&"
  | BBitOr => "|" | BBitAnd => "&" | BBitXor => "^" | BComma => ","
  | BAssign => "=" | BAddAssign => "+=" | BSubAssign => "-=" | BMulAssign => "*=" | BDivAssign => "/="
  | BRemAssign => "%=" | BPowAssign => "**=" | BShlAssign => "<<=" | BShrAssign => ">>="
  | BUShrAssign => ">>>=" | BBitOrAssign => "|=" | BBitAndAssign => "&=" | BBitXorAssign => "^="
  | BNullishAssign => "??=" | BLogOrAssign => "||=" | BLogAndAssign => "&&="
  | UAwait => "await" | UYield => "yield"
  end%string.
Definition op_text (o : op) : list Z := zs (op_str o).

Inductive okind := KPre | KPost | KBin.
Definition op_kind (o : op) : okind :=
  match o with
  | UPos | UNeg | UCpl | UNot | UVoid | UTypeof | UDelete | UPreDec | UPreInc | UAwait | UYield => KPre
  | UPostDec | UPostInc => KPost
  | _ => KBin
  end.
Definition op_is_keyword (o : op) : bool :=
  match o with UVoid | UTypeof | UDelete | BIn | BInstanceof | UAwait | UYield => true | _ => false end.

(* js_ast.L as a number: LLowest = 0 ... LMember = 22 *)
Definition LLowest := 0. Definition LComma := 1. Definition LYield := 3. Definition LAssign := 4. Definition LConditional := 5.
Definition LNullish := 6. Definition LLogicalOr := 7. Definition LLogicalAnd := 8.
Definition LBitOr := 9. Definition LBitXor := 10. Definition LBitAnd := 11.
Definition LEquals := 12. Definition LCompare := 13. Definition LShift := 14.
Definition LAdd := 15. Definition LMultiply := 16. Definition LExponentiation := 17.
Definition LPrefix := 18. Definition LPostfix := 19. Definition LNew := 20. Definition LCall := 21. Definition LMember := 22.

Definition op_level (o : op) : Z :=
  match o with
  | UPos | UNeg | UCpl | UNot | UVoid | UTypeof | UDelete | UPreDec | UPreInc | UAwait => LPrefix
  | UPostDec | UPostInc => LPostfix
  | BAdd | BSub => LAdd
  | BMul | BDiv | BRem => LMultiply
  | BPow => LExponentiation
  | BLt | BLe | BGt | BGe | BIn | BInstanceof => LCompare
  | BShl | BShr | BUShr => LShift
  | BLooseEq | BLooseNe | BStrictEq | BStrictNe => LEquals
  | BNullish => LNullish | BLogOr => LLogicalOr | BLogAnd => LLogicalAnd
  | BBitOr => LBitOr | BBitAnd => LBitAnd | BBitXor => LBitXor
  | BComma => LComma
  | _ => LAssign
  end.

Definition op_eqb (a b : op) : bool :=
  match a, b with
  | UPos, UPos | UNeg, UNeg | UCpl, UCpl | UNot, UNot | UVoid, UVoid | UTypeof, UTypeof | UDelete, UDelete
  | UPreDec, UPreDec | UPreInc, UPreInc | UPostDec, UPostDec | UPostInc, UPostInc
  | BAdd, BAdd | BSub, BSub | BMul, BMul | BDiv, BDiv | BRem, BRem | BPow, BPow | BLt, BLt | BLe, BLe
  | BGt, BGt | BGe, BGe | BIn, BIn | BInstanceof, BInstanceof | BShl, BShl | BShr, BShr | BUShr, BUShr
  | BLooseEq, BLooseEq | BLooseNe, BLooseNe | BStrictEq, BStrictEq | BStrictNe, BStrictNe
  | BNullish, BNullish | BLogOr, BLogOr | BLogAnd, BLogAnd | BBitOr, BBitOr | BBitAnd, BBitAnd
  | BBitXor, BBitXor | BComma, BComma | BAssign, BAssign | BAddAssign, BAddAssign | BSubAssign, BSubAssign
  | BMulAssign, BMulAssign | BDivAssign, BDivAssign | BRemAssign, BRemAssign | BPowAssign, BPowAssign
  | BShlAssign, BShlAssign | BShrAssign, BShrAssign | BUShrAssign, BUShrAssign | BBitOrAssign, BBitOrAssign
  | BBitAndAssign, BBitAndAssign | BBitXorAssign, BBitXorAssign | BNullishAssign, BNullishAssign
  | BLogOrAssign, BLogOrAssign | BLogAndAssign, BLogAndAssign | UAwait, UAwait | UYield, UYield => true
  | _, _ => false
  end.
Definition op_code (o : op) : Z := index_of op_eqb o all_ops 0.

(* ---- characters (ASCII fragment of js_ast.IsIdentifierStart/Continue) ---- *)
Definition is_digit (c : Z) : bool := (48 <=? c) && (c <=? 57).
Definition is_id_start (c : Z) : bool :=
  ((97 <=? c) && (c <=? 122)) || ((65 <=? c) && (c <=? 90)) || (c =? 95) || (c =? 36).
Definition is_id_part (c : Z) : bool := is_id_start c || is_digit c.

(* ---- emitted items ---- *)
Inductive item :=
 | IId (s : list Z)
 | INum (s : list Z)
 | IRe (b f : list Z)
 | IOp (o : op)
 | IDot (s : list Z)
 | IOpen
 | IClose
 | IQuest            (* "?" of a conditional *)
 | IColon            (* ":" of a conditional *)
 | ILBrack           (* "[" of an index access *)
 | IRBrack           (* "]" *)
 | INew              (* the keyword "new" *)
 | ICallOpen.        (* "(" that opens an argument list (follows its callee) *)

Inductive mark := MNone | MOp (o : op) | MNum | MRe.
(* lastc/last2 = -1 when the buffer is shorter *)
(* esc: the buffer ends in a "\u{HEX}" identifier escape (endsWithIdentifierEscape(p.js),
   added by fix 6d63f64; in the fragment only an identifier print can end that way) *)
Record pst := mkPst { lastc : Z; last2 : Z; mk : mark; esc : bool }.
Definition st0 : pst := mkPst (-1) (-1) MNone false.

Definition is_hex (c : Z) : bool :=
  ((48 <=? c) && (c <=? 57)) || ((97 <=? c) && (c <=? 102)) || ((65 <=? c) && (c <=? 70)).
Fixpoint take_while (f : Z -> bool) (s : list Z) : list Z * list Z :=
  match s with
  | c :: r => if f c then let '(a, b) := take_while f r in (c :: a, b) else ([], s)
  | [] => ([], [])
  end.
(* endsWithIdentifierEscape: "}" preceded by at least one hex digit preceded by "\u{" *)
Definition ends_esc (t : list Z) : bool :=
  match rev t with
  | c :: r =>
      if c =? 125 then
        let '(h, r') := take_while is_hex r in
        match h, r' with
        | _ :: _, ob :: u :: bs :: _ => (ob =? 123) && (u =? 117) && (bs =? 92)
        | _, _ => false
        end
      else false
  | [] => false
  end.

(* a printing action: state -> state * appended bytes *)
Definition act := pst -> pst * list Z.
Definition pr (t : list Z) : act := fun st =>
  match t with
  | [] => (st, [])
  | _ => (mkPst (last t 0) (last (removelast t) (lastc st)) MNone (ends_esc t), t)
  end.
Definition seq (a b : act) : act := fun st =>
  let '(s1, o1) := a st in let '(s2, o2) := b s1 in (s2, o1 ++ o2).
Infix ";;" := seq (at level 61, left associativity).
Definition nop : act := fun st => (st, []).
Definition set_mark (m : mark) : act := fun st => (mkPst (lastc st) (last2 st) m (esc st), []).

Definition printSpace (mw : bool) : act := if mw then nop else pr [32].

Definition printSpaceBeforeIdentifier : act := fun st =>
  if is_id_part (lastc st) || (match mk st with MRe => true | _ => false end) || esc st then pr [32] st else nop st.

Definition space_rule (prev next : op) (st : pst) : bool :=
  ((op_eqb prev BAdd || op_eqb prev UPos) && (op_eqb next BAdd || op_eqb next UPos || op_eqb next UPreInc))
  || ((op_eqb prev BSub || op_eqb prev UNeg) && (op_eqb next BSub || op_eqb next UNeg || op_eqb next UPreDec))
  || (op_eqb prev UPostDec && op_eqb next BGt)
  || (op_eqb prev UNot && op_eqb next UPreDec && (last2 st =? 60)).

Definition printSpaceBeforeOperator (next : op) : act := fun st =>
  match mk st with
  | MOp prev => if space_rule prev next st then pr [32] st else nop st
  | _ => nop st
  end.

(* case-insensitive "script" at the start of a regexp body (the "</script" guard) *)
Definition lower (c : Z) : Z := if (65 <=? c) && (c <=? 90) then c + 32 else c.
Definition starts_script (b : list Z) : bool :=
  zlist_eqb (map lower (firstn 6 b)) (zs "script").

(* printNonNegativeFloat: "We'll need a space before "." if it could be parsed as a decimal point":
   needSpaceBeforeDot is set unless the printed text contains ".", "e" or "x" *)
Definition no_dex (s : list Z) : bool := negb (existsb (fun c => (c =? 46) || (c =? 101) || (c =? 120)) s).

Definition emit (mw : bool) (i : item) : act :=
  match i with
  | IId s => printSpaceBeforeIdentifier ;; pr s
  | INum s => printSpaceBeforeIdentifier ;; pr s ;; (if no_dex s then set_mark MNum else nop)
  | IRe b f =>
      (fun st => if (lastc st =? 47) || ((lastc st =? 60) && starts_script b) then pr [32] st else nop st)
      ;; pr ([47] ++ b ++ [47] ++ f) ;; set_mark MRe
  | IOp o =>
      match op_kind o with
      | KBin =>
          (if op_eqb o BComma then nop else printSpace mw)
          ;; (if op_is_keyword o then printSpaceBeforeIdentifier ;; pr (op_text o)
              else printSpaceBeforeOperator o ;; pr (op_text o) ;; set_mark (MOp o))
          ;; printSpace mw
      | _ =>
          if op_is_keyword o then printSpaceBeforeIdentifier ;; pr (op_text o) ;; printSpace mw
          else printSpaceBeforeOperator o ;; pr (op_text o) ;; set_mark (MOp o)
      end
  | IDot s =>
      (fun st => match mk st with MNum => pr [32] st | _ => nop st end) ;; pr [46] ;; pr s
  | IOpen => pr [40]
  | IClose => pr [41]
  | IQuest => printSpace mw ;; pr [63] ;; printSpace mw
  | IColon => printSpace mw ;; pr [58] ;; printSpace mw
  | ILBrack => pr [91]
  | IRBrack => pr [93]
  | INew => printSpaceBeforeIdentifier ;; pr [110; 101; 119] ;; printSpace mw
  | ICallOpen => pr [40]
  end.

Fixpoint render (mw : bool) (st : pst) (l : list item) : list Z :=
  match l with
  | [] => []
  | i :: r => let '(st', o) := emit mw i st in o ++ render mw st' r
  end.

(* ---- expression trees of the fragment and printExpr's parenthesisation ---- *)
Inductive expr :=
 | EId (s : list Z)
 | ENum (s : list Z)
 | ERe (b f : list Z)
 | EDot (e : expr) (s : list Z)
 | EUn (o : op) (e : expr)       (* prefix or postfix operator *)
 | EBin (o : op) (l r : expr)
 | ECond (c y n : expr)          (* EIf: c ? y : n *)
 | EIndex (e i : expr)           (* EIndex (non-optional): e[i] *)
 | ECall (f a : expr)            (* ECall (non-optional): f(a), a an argument list *)
 | ENew (f a : expr)             (* ENew: new f(a) *)
 | ANil                          (* argument lists: empty *)
 | ACons (e rest : expr).        (* argument lists: e, rest *)

Definition is_left_assoc (o : op) : bool :=
  match op_kind o with KBin => (op_level o >? LAssign) && negb (op_eqb o BPow) | _ => false end.
Definition is_right_assoc (o : op) : bool :=
  match op_kind o with KBin => (op_level o =? LAssign) || op_eqb o BPow | _ => false end.

Definition paren (w : bool) (l : list item) : list item := if w then [IOpen] ++ l ++ [IClose] else l.

Definition is_or_and (e : expr) : bool :=
  match e with EBin o _ _ => op_eqb o BLogOr || op_eqb o BLogAnd | _ => false end.

Definition has_args (a : expr) : bool := match a with ACons _ _ => true | _ => false end.

(* The isNewTarget flag.  printExpr passes it from ENew to its callee (printed at LNew) and from
   there along EDot/EIndex targets (printed at LPostfix); everything else drops it; its only effect
   is that an ECall is parenthesised.  On this fragment nothing prints differently at LPostfix
   and at LNew except ECall (which is parenthesised at LNew anyway), and LNew is used as a level
   only for the callee of ENew.  The flag is therefore represented by the level itself:
   "level = LNew" stands for "isNewTarget is set", and the target of a member access is printed
   at [tgt_level level] (LNew again under the flag, LPostfix otherwise).  Tied to the code by the
   correspondence run on new (a()).b, new (a.b()), new (a().b[c])() ... *)
Definition tgt_level (level : Z) : Z := if level =? LNew then LNew else LPostfix.

(* printExpr(expr, level, flags) restricted to the fragment; binaryExprVisitor.checkAndPrepare
   for the operand levels.  mw = MinifyWhitespace (only ENew looks at it: "new a" without "()").
   fi = the forbidIn flag (set for the head of a for loop): an "in" operator is parenthesised; the
   flag is handed to the operands of an unparenthesised binary operator and to the test and the
   last branch of an unparenthesised conditional, and dropped everywhere else (parentheses, unary
   operands, member/call targets, index, arguments, the middle branch of a conditional). *)
Definition is_in (e : expr) : bool := match e with EBin o _ _ => op_eqb o BIn | _ => false end.
(* ss = "p.stmtStart == len(p.js) || p.forInitStart == len(p.js)": nothing has been printed since the start of
   an expression statement or of the expression that opens the head of a for loop (fix 177d11f).
   The flag reaches the leftmost operand as long as nothing (no parenthesis, no prefix operator) is
   printed in front of it.  Its only effect on the fragment (fixes ac301ad, 177d11f): an index access on
   the identifier "let" in that position is printed as "(let)[...]", because neither an expression
   statement nor the head of a for loop can start with "let [". *)
Definition is_let (e : expr) : bool := match e with EId s => zlist_eqb s [108; 101; 116] | _ => false end.
Fixpoint print_items (mw : bool) (fi ss : bool) (level : Z) (e : expr) : list item :=
  match e with
  | EId s => [IId s]
  | ENum s => [INum s]
  | ERe b f => [IRe b f]
  | EDot t s => print_items mw false ss (tgt_level level) t ++ [IDot s]
  | EUn o v =>
      let wrap := level >=? op_level o in
      paren wrap
        (match op_kind o with
         | KPost => print_items mw false (ss && negb wrap) (LPostfix - 1) v ++ [IOp o]
         | _ => [IOp o] ++ print_items mw (op_eqb o UYield && fi && negb wrap) false (op_level o - 1) v
         end)
  | EBin o l r =>
      let lv := op_level o in
      let left_level :=
        if op_eqb o BPow && (match l with EUn u _ => negb (op_eqb u UPreDec || op_eqb u UPreInc || op_eqb u UPostDec || op_eqb u UPostInc) | ENum _ => true | _ => false end)
        then LCall
        else if op_eqb o BNullish && is_or_and l then LPrefix
        else if is_right_assoc o then lv else lv - 1 in
      let right_level :=
        if op_eqb o BNullish && is_or_and r then LPrefix
        else if is_left_assoc o then lv else lv - 1 in
      let wrap := (level >=? lv) || (op_eqb o BIn && fi) in
      let fb := fi && negb wrap in
      paren wrap (print_items mw fb (ss && negb wrap) left_level l ++ [IOp o] ++ print_items mw fb false right_level r)
  | ECond c y n =>
      let wrap := level >=? LConditional in
      let fb := fi && negb wrap in
      paren wrap
        (print_items mw fb (ss && negb wrap) LConditional c ++ [IQuest] ++ print_items mw false false LYield y ++ [IColon] ++ print_items mw fb false LYield n)
  | EIndex t i =>
      paren (ss && is_let t) (print_items mw false ss (tgt_level level) t) ++ [ILBrack] ++ print_items mw false false LLowest i ++ [IRBrack]
  | ECall f a =>
      let wrap := level >=? LNew in
      paren wrap (print_items mw false (ss && negb wrap) LPostfix f ++ [ICallOpen] ++ print_items mw false false LComma a ++ [IClose])
  | ENew f a =>
      paren (level >=? LCall)
        ([INew] ++ print_items mw false false LNew f ++
         (if negb mw || has_args a || (level >=? LPostfix)
          then [ICallOpen] ++ print_items mw false false LComma a ++ [IClose] else []))
  | ANil => []
  | ACons x rest =>
      print_items mw false false LComma x ++ (match rest with ACons _ _ => [IOp BComma] ++ print_items mw false false LComma rest | _ => [] end)
  end.

(* ss = true for an expression statement and for the expression that opens the head of a for loop *)
Definition print_expr (mw fi ss : bool) (e : expr) : list Z := render mw st0 (print_items mw fi ss LLowest e).
