(* The tokens an emitted item stands for (what the printer intends to be read back). *)
From V Require Import Common.Base C13.KwSpec C13.Token C13.LexSpec.

Definition toks_of (i : item) : list tok :=
  match i with
  | IId s => [TId s]
  | INum s => [TNum s]
  | IRe b f => [TRe b f]
  | IOp o => if op_is_keyword o then [TId (op_text o)] else [TP (op_text o)]
  | IDot s => [TP [46]; TId s]
  | IOpen => [TP [40]]
  | IClose => [TP [41]]
  | IQuest => [TP [63]]
  | IColon => [TP [58]]
  | ILBrack => [TP [91]]
  | IRBrack => [TP [93]]
  | INew => [TId [110; 101; 119]]
  | ICallOpen => [TP [40]]
  end.
Definition toks (l : list item) : list tok := flat_map toks_of l.
