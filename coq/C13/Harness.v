(* Checkers evaluated by the correspondence run: each returns the indices of
   the cases on which model and implementation (or spec and observed output)
   differ. *)
From V Require Import Common.Base C13.KwSpec C13.Token C13.LexSpec C13.Toks C13.ParseSpec C13.RoundTrip gen.KeywordsGen.

Fixpoint mism_from {A} (f : A -> bool) (l : list A) (i : nat) : list nat :=
  match l with
  | [] => []
  | x :: r => if f x then mism_from f r (S i) else i :: mism_from f r (S i)
  end.
Definition mismatches {A} (f : A -> bool) (l : list A) : list nat := mism_from f l 0.

(* op table: (OpCode, text, level, isKeyword, isPrefix, isLeftAssoc, isRightAssoc) read from js_ast.OpTable *)
Definition nth_op (code : Z) : option op := nth_error all_ops (Z.to_nat code).
Definition optab_ok (c : Z * bytes * Z * bool * bool * bool * bool) : bool :=
  let '(code, text, level, kw, pre, la, ra) := c in
  match nth_op code with
  | Some o => (op_code o =? code) && zlist_eqb (op_text o) text && (op_level o =? level)
              && Bool.eqb (op_is_keyword o) kw
              && Bool.eqb (match op_kind o with KPre => true | _ => false end) pre
              && Bool.eqb (is_left_assoc o) la && Bool.eqb (is_right_assoc o) ra
  | None => false
  end.
Definition check_optab (l : list (Z * bytes * Z * bool * bool * bool * bool)) : list nat :=
  mismatches optab_ok l ++ (if (length l =? length table_ops)%nat then [] else [length l]).

(* keywords: (word, is key of js_lexer.Keywords at run time, is key of StrictModeReservedWords, lexer token is TIdentifier) *)
Definition kw_ok (c : bytes * bool * bool * bool) : bool :=
  let '(w, iskw, isstrict, lexes_as_ident) := c in
  Bool.eqb (mem w (map fst gen_keywords)) iskw
  && Bool.eqb (mem w gen_strict_reserved) isstrict
  && Bool.eqb (negb (mem w ecma_unconditional_reserved)) lexes_as_ident.
Definition check_kw := mismatches kw_ok.

(* printer: (minify-whitespace, forbidIn, statement start, expression tree, bytes printed by js_printer.Print):
   an expression statement without its terminator (forbidIn = false), or the initialiser of a for loop
   without the loop around it (forbidIn = true); both are printed with the start flag on, and are read back
   with the two-token restriction "let [" of 14.5 / 14.7.4 *)
Definition print_ok (c : bool * bool * bool * expr * bytes) : bool :=
  let '(mw, fi, ss, e, out) := c in zlist_eqb (print_expr mw fi ss e) out.
Definition check_print := mismatches print_ok.

(* item lists rendered through hand-built trees are covered by check_print;
   the specification lexer must read the real output back as the expected tokens *)
Definition tok_eqb (a b : tok) : bool :=
  match a, b with
  | TId x, TId y | TNum x, TNum y | TP x, TP y => zlist_eqb x y
  | TRe b1 f1, TRe b2 f2 => zlist_eqb b1 b2 && zlist_eqb f1 f2
  | _, _ => false
  end.
Definition relex_ok (c : bool * bool * bool * expr * bytes) : bool :=
  let '(mw, fi, ss, e, out) := c in
  match lex out with
  | Some ts => list_eqb tok_eqb ts (toks (print_items mw fi ss LLowest e))
  | None => false
  end.
Definition check_relex := mismatches relex_ok.

(* tree level: the specification parser reads the real output back as the tree that was
   printed, up to the comma re-association norm *)
Fixpoint expr_eqb (a b : expr) : bool :=
  match a, b with
  | EId x, EId y | ENum x, ENum y => zlist_eqb x y
  | ERe b1 f1, ERe b2 f2 => zlist_eqb b1 b2 && zlist_eqb f1 f2
  | EDot t1 s1, EDot t2 s2 => expr_eqb t1 t2 && zlist_eqb s1 s2
  | EUn o1 v1, EUn o2 v2 => op_eqb o1 o2 && expr_eqb v1 v2
  | EBin o1 l1 r1, EBin o2 l2 r2 => op_eqb o1 o2 && expr_eqb l1 l2 && expr_eqb r1 r2
  | ECond c1 y1 n1, ECond c2 y2 n2 => expr_eqb c1 c2 && expr_eqb y1 y2 && expr_eqb n1 n2
  | EIndex t1 i1, EIndex t2 i2 | ECall t1 i1, ECall t2 i2 | ENew t1 i1, ENew t2 i2 | ACons t1 i1, ACons t2 i2 =>
      expr_eqb t1 t2 && expr_eqb i1 i2
  | ANil, ANil => true
  | _, _ => false
  end.
Definition reparse_ok (c : bool * bool * bool * expr * bytes) : bool :=
  let '(_, fi, ss, e, out) := c in
  match (match lex out with Some ts => if ss then parse_start fi ts else parse fi ts | None => None end)
  with Some e' => expr_eqb e' (norm e) | None => false end.
Definition check_reparse := mismatches reparse_ok.
