(* The fuelled specification parser: one-step unfolding and monotonicity in the fuel
   (more fuel never changes a successful result). *)
From V Require Import Common.Base C13.KwSpec C13.Token C13.LexSpec C13.Toks C13.ParseSpec.

Definition PE := bool -> Z -> list tok -> option (expr * list tok).
Definition PS := bool -> Z -> expr -> Z -> list tok -> option (expr * list tok).
Definition PA := list tok -> option (expr * list tok).

Definition expr_step (pe : PE) (ps : PS) (pa : PA) (ni : bool) (L : Z) (ts : list tok) : option (expr * list tok) :=
  match ts with
  | [] => None
  | t :: r =>
    if is_new t then
      match pe false S_Call r with
      | Some (c, r') =>
          match r' with
          | p :: r'' =>
              if is_open p then
                match pa r'' with
                | Some (a, r3) => ps ni L (ENew c a) S_Member r3
                | None => None
                end
              else ps ni L (ENew c ANil) S_New r'
          | [] => ps ni L (ENew c ANil) S_New r'
          end
      | None => None
      end
    else match prefix_op t with
    | Some o =>
        if pre_max o <? L then None
        else match pe (pre_in o ni) (pre_arg o) r with
        | Some (v, r') => if negb (is_update o) || is_target v then ps ni L (EUn o v) (spec_level o) r' else None
        | None => None
        end
    | None =>
        match atom_of t with
        | Some a => ps ni L a S_Member r
        | None =>
            if is_open t then
              match pe false 0 r with
              | Some (e, c :: r'') => if is_close c then ps ni L e S_Member r'' else None
              | _ => None
              end
            else None
        end
    end
  end.

Definition suffix_step (pe : PE) (ps : PS) (pa : PA) (ni : bool) (L : Z) (left : expr) (ll : Z) (ts : list tok) : option (expr * list tok) :=
  match ts with
  | [] => Some (left, [])
  | t :: r =>
    if is_dot t then
      match r with
      | TId s :: r' => if S_Call <=? ll then ps ni L (EDot left s) S_Member r' else None
      | _ => None
      end
    else if is_lbrack t then
      if S_Call <=? ll then
        match pe false 0 r with
        | Some (i, c :: r') => if is_rbrack c then ps ni L (EIndex left i) S_Member r' else None
        | _ => None
        end
      else None
    else if is_open t then
      if S_Call <=? L then Some (left, ts)
      else if S_Call <=? ll then
        match pa r with
        | Some (a, r') => ps ni L (ECall left a) S_Call r'
        | None => None
        end
      else None
    else if is_quest t then
      if S_Cond <=? L then Some (left, ts)
      else if S_Cond <? ll then
        match pe false 3 r with
        | Some (y, c :: r') =>
            if is_colon c then
              match pe ni 3 r' with
              | Some (no, r'') => ps ni L (ECond left y no) S_Cond r''
              | None => None
              end
            else None
        | _ => None
        end
      else None
    else match postfix_op t with
    | Some o =>
        if S_Update <=? L then Some (left, ts)
        else if (S_Member <=? ll) && is_target left then ps ni L (EUn o left) S_Update r else None
    | None =>
        match binary_op t with
        | Some o =>
            if (ni && op_eqb o BIn) || (spec_level o <=? L) then Some (left, ts)
            else if left_ok o ll left then
              match pe ni (right_level o) r with
              | Some (rt, r') => ps ni L (EBin o left rt) (spec_level o) r'
              | None => None
              end
            else None
        | None => Some (left, ts)
        end
    end
  end.

Definition args_step (pe : PE) (pa : PA) (ts : list tok) : option (expr * list tok) :=
  match ts with
  | [] => None
  | t :: r =>
    if is_close t then Some (ANil, r)
    else match pe false 3 ts with
         | Some (e, c :: r') =>
             if is_close c then Some (ACons e ANil, r')
             else if is_comma c then
               match pa r' with
               | Some (rest, r'') => Some (ACons e rest, r'')
               | None => None
               end
             else None
         | _ => None
         end
  end.

Lemma parse_expr_S n ni L ts : parse_expr (S n) ni L ts = expr_step (parse_expr n) (parse_suffix n) (parse_args n) ni L ts.
Proof. reflexivity. Qed.
Lemma parse_suffix_S n ni L left ll ts :
  parse_suffix (S n) ni L left ll ts = suffix_step (parse_expr n) (parse_suffix n) (parse_args n) ni L left ll ts.
Proof. reflexivity. Qed.
Lemma parse_args_S n ts : parse_args (S n) ts = args_step (parse_expr n) (parse_args n) ts.
Proof. reflexivity. Qed.

Definition pe_le (a b : PE) : Prop := forall ni L ts r, a ni L ts = Some r -> b ni L ts = Some r.
Definition ps_le (a b : PS) : Prop := forall ni L left ll ts r, a ni L left ll ts = Some r -> b ni L left ll ts = Some r.
Definition pa_le (a b : PA) : Prop := forall ts r, a ts = Some r -> b ts = Some r.

Lemma expr_step_mono pe pe' ps ps' pa pa' : pe_le pe pe' -> ps_le ps ps' -> pa_le pa pa' ->
  forall ni L ts r, expr_step pe ps pa ni L ts = Some r -> expr_step pe' ps' pa' ni L ts = Some r.
Proof.
  intros He Hs Ha ni L ts r H. unfold expr_step in *.
  destruct ts as [|t r0]; [discriminate|].
  destruct (is_new t).
  { destruct (pe false S_Call r0) as [[c r']|] eqn:E; [|discriminate]. rewrite (He _ _ _ _ E).
    destruct r' as [|p r'']; [apply Hs; exact H|].
    destruct (is_open p); [|apply Hs; exact H].
    destruct (pa r'') as [[a r3]|] eqn:E2; [|discriminate]. rewrite (Ha _ _ E2). apply Hs. exact H. }
  destruct (prefix_op t).
  - destruct (pre_max o <? L); [discriminate|].
    destruct (pe (pre_in o ni) (pre_arg o) r0) as [[v r']|] eqn:E; [|discriminate]. rewrite (He _ _ _ _ E).
    destruct (negb (is_update o) || is_target v); [|discriminate]. apply Hs. exact H.
  - destruct (atom_of t); [apply Hs; exact H|].
    destruct (is_open t); [|discriminate].
    destruct (pe false 0 r0) as [[e [|c r'']]|] eqn:E; try discriminate. rewrite (He _ _ _ _ E).
    destruct (is_close c); [|discriminate]. apply Hs. exact H.
Qed.

Lemma suffix_step_mono pe pe' ps ps' pa pa' : pe_le pe pe' -> ps_le ps ps' -> pa_le pa pa' ->
  forall ni L left ll ts r, suffix_step pe ps pa ni L left ll ts = Some r -> suffix_step pe' ps' pa' ni L left ll ts = Some r.
Proof.
  intros He Hs Ha ni L left ll ts r H. unfold suffix_step in *.
  destruct ts as [|t r0]; [exact H|].
  destruct (is_dot t).
  - destruct r0 as [|[s| | |] r']; try discriminate.
    destruct (S_Call <=? ll); [|discriminate]. apply Hs. exact H.
  - destruct (is_lbrack t).
    { destruct (S_Call <=? ll); [|discriminate].
      destruct (pe false 0 r0) as [[i [|c r']]|] eqn:E; try discriminate. rewrite (He _ _ _ _ E).
      destruct (is_rbrack c); [|discriminate]. apply Hs. exact H. }
    destruct (is_open t).
    { destruct (S_Call <=? L); [exact H|]. destruct (S_Call <=? ll); [|discriminate].
      destruct (pa r0) as [[a r']|] eqn:E; [|discriminate]. rewrite (Ha _ _ E). apply Hs. exact H. }
    destruct (is_quest t).
    { destruct (S_Cond <=? L); [exact H|]. destruct (S_Cond <? ll); [|discriminate].
      destruct (pe false 3 r0) as [[y [|c r']]|] eqn:E; try discriminate. rewrite (He _ _ _ _ E).
      destruct (is_colon c); [|discriminate].
      destruct (pe ni 3 r') as [[no r'']|] eqn:E2; [|discriminate]. rewrite (He _ _ _ _ E2). apply Hs. exact H. }
    destruct (postfix_op t).
    + destruct (S_Update <=? L); [exact H|].
      destruct ((S_Member <=? ll) && is_target left); [|discriminate]. apply Hs. exact H.
    + destruct (binary_op t); [|exact H].
      destruct ((ni && op_eqb o BIn) || (spec_level o <=? L)); [exact H|].
      destruct (left_ok o ll left); [|discriminate].
      destruct (pe ni (right_level o) r0) as [[rt r']|] eqn:E; [|discriminate]. rewrite (He _ _ _ _ E).
      apply Hs. exact H.
Qed.

Lemma args_step_mono pe pe' pa pa' : pe_le pe pe' -> pa_le pa pa' ->
  forall ts r, args_step pe pa ts = Some r -> args_step pe' pa' ts = Some r.
Proof.
  intros He Ha ts r H. unfold args_step in *. destruct ts as [|t r0]; [discriminate|].
  destruct (is_close t); [exact H|].
  destruct (pe false 3 (t :: r0)) as [[e [|c r']]|] eqn:E; try discriminate. rewrite (He _ _ _ _ E).
  destruct (is_close c); [exact H|]. destruct (is_comma c); [|discriminate].
  destruct (pa r') as [[rest r'']|] eqn:E2; [|discriminate]. rewrite (Ha _ _ E2). exact H.
Qed.

Lemma parse_mono_S n :
  pe_le (parse_expr n) (parse_expr (S n)) /\ ps_le (parse_suffix n) (parse_suffix (S n)) /\ pa_le (parse_args n) (parse_args (S n)).
Proof.
  induction n as [|n (IHe & IHs & IHa)].
  - repeat split; [intros ni L ts r H | intros ni L left ll ts r H | intros ts r H]; discriminate.
  - repeat split.
    + intros ni L ts r H. rewrite parse_expr_S in *. eapply expr_step_mono; eauto.
    + intros ni L left ll ts r H. rewrite parse_suffix_S in *. eapply suffix_step_mono; eauto.
    + intros ts r H. rewrite parse_args_S in *. eapply args_step_mono; eauto.
Qed.

Lemma parse_expr_mono n m ni L ts r : (n <= m)%nat -> parse_expr n ni L ts = Some r -> parse_expr m ni L ts = Some r.
Proof. induction 1 as [|m Hle IH]; [auto|]. intro H0. apply (proj1 (parse_mono_S m)). auto. Qed.
Lemma parse_suffix_mono n m ni L left ll ts r :
  (n <= m)%nat -> parse_suffix n ni L left ll ts = Some r -> parse_suffix m ni L left ll ts = Some r.
Proof. induction 1 as [|m Hle IH]; [auto|]. intro H0. apply (proj1 (proj2 (parse_mono_S m))). auto. Qed.
Lemma parse_args_mono n m ts r : (n <= m)%nat -> parse_args n ts = Some r -> parse_args m ts = Some r.
Proof. induction 1 as [|m Hle IH]; [auto|]. intro H0. apply (proj2 (proj2 (parse_mono_S m))). auto. Qed.
