(* same final name => same hashed ingredients; every reachable chunk's isolated
   hash is part of the final hash input (cyclic graphs included). *)
From V Require Import Common.Base C18.Pieces C18.PiecesProofs C18.Hash C18.HashProofs C18.NameProofs C18.Ingredients.

Lemma app_eq_tail_inv {A} : forall (a b h1 h2 : list A),
  length h1 = length h2 -> a ++ h1 = b ++ h2 -> a = b /\ h1 = h2.
Proof.
  intros a b h1 h2 L E.
  assert (La : length a = length b).
  { assert (X : length (a ++ h1) = length (b ++ h2)) by (rewrite E; reflexivity). rewrite !app_length in X. lia. }
  apply app_eq_length_inv in E; assumption.
Qed.

Lemma concat_map_eq_inv {A} (f g : A -> bytes) : forall o,
  (forall i, In i o -> length (f i) = length (g i)) ->
  concat (map f o) = concat (map g o) -> forall i, In i o -> f i = g i.
Proof.
  induction o as [|a o IH]; intros L E i Hi; [destruct Hi|].
  cbn in E. apply app_eq_length_inv in E as [E1 E2]; [|apply L; left; reflexivity].
  destruct Hi as [<-|Hi]; [exact E1|].
  apply IH; [intros j Hj; apply L; right; exact Hj|exact E2|exact Hi].
Qed.

Section Deep.
  Variable H : bytes -> bytes.
  Hypothesis Hlen : forall a b, length (H a) = length (H b).

  (* the root is written last *)
  Lemma final_order_ends_with_root chunks root o :
    (root < length chunks)%nat -> Z.of_nat (length chunks) < 4294967296 ->
    final_order chunks root = Some o -> exists o', o = o' ++ [root].
  Proof.
    intros Hr Hn. unfold final_order. cbn [dfs].
    rewrite (repeat_nth_error chunks) by assumption.
    destruct (nth_error chunks root) as [c|] eqn:Ec; [|discriminate].
    destruct (0 =? stamp_of root) eqn:Es; [unfold stamp_of in Es; lia|].
    destruct (visit_all _ (c_imports c) _) as [[v o1]|]; [|discriminate].
    intro E. inversion E. eexists; reflexivity.
  Qed.

  Lemma stream_of_order_app public ar chunks a b :
    stream_of_order H public ar chunks (a ++ b) =
    stream_of_order H public ar chunks a ++ stream_of_order H public ar chunks b.
  Proof. unfold stream_of_order. rewrite map_app, concat_app. reflexivity. Qed.

  (* same_name_same_ingredients: two builds (any graphs, any options) that give
     a chunk the same final name hash the same ingredients for that chunk *)
  Lemma same_name_same_own_ingredients public1 public2 ar1 ar2 cs1 cs2 r1 r2 c1 c2 s1 s2 :
    (r1 < length cs1)%nat -> (r2 < length cs2)%nat ->
    Z.of_nat (length cs1) < 4294967296 -> Z.of_nat (length cs2) < 4294967296 ->
    nth_error cs1 r1 = Some c1 -> nth_error cs2 r2 = Some c2 ->
    final_stream H public1 ar1 cs1 r1 = Some s1 -> final_stream H public2 ar2 cs2 r2 = Some s2 ->
    (* the same [hash] in the name, and no collision of the (truncated) final hash on these two streams *)
    hash_for_file_name (H s1) = hash_for_file_name (H s2) ->
    (hash_for_file_name (H s1) = hash_for_file_name (H s2) -> s1 = s2) ->
    (* no collision of the isolated hash on these two streams *)
    (H (isolated_stream public1 c1) = H (isolated_stream public2 c2) ->
     isolated_stream public1 c1 = isolated_stream public2 c2) ->
    (* same shape (number of parts, template parts, pieces; public path present or not), sizes below 2^32 *)
    map ishape (iso_ingredients public1 c1) = map ishape (iso_ingredients public2 c2) ->
    Forall ing_ok (iso_ingredients public1 c1) -> Forall ing_ok (iso_ingredients public2 c2) ->
    iso_ingredients public1 c1 = iso_ingredients public2 c2.
  Proof.
    intros Hr1 Hr2 Hn1 Hn2 Ec1 Ec2 E1 E2 Hname Hcoll Hiso Hshape F1 F2.
    specialize (Hcoll Hname). subst s2.
    unfold final_stream in E1, E2.
    destruct (final_order cs1 r1) as [o1|] eqn:O1; [|discriminate].
    destruct (final_order cs2 r2) as [o2|] eqn:O2; [|discriminate].
    destruct (final_order_ends_with_root _ _ _ Hr1 Hn1 O1) as [p1 ->].
    destruct (final_order_ends_with_root _ _ _ Hr2 Hn2 O2) as [p2 ->].
    inversion E1 as [X1]. inversion E2 as [X2]. rewrite <- X1 in X2. clear E1 E2 X1.
    rewrite !stream_of_order_app in X2.
    unfold stream_of_order at 2 4 in X2. cbn [map concat] in X2. rewrite Ec1, Ec2 in X2.
    unfold item, iso_hash in X2. rewrite !app_nil_r, !app_assoc in X2.
    apply app_eq_tail_inv in X2 as [_ Eh]; [|apply Hlen].
    apply isolated_stream_determines_ingredients; try assumption.
    apply Hiso. symmetry. exact Eh.
  Qed.

  (* ... and, when the two builds have the same import graph and the same asset
     references, the same isolated hash for EVERY chunk reachable from it *)
  Lemma same_stream_same_reachable_hashes public ar1 ar2 cs1 cs2 root x c1 c2 s :
    map c_imports cs1 = map c_imports cs2 ->
    wf_graph cs1 -> (root < length cs1)%nat -> Z.of_nat (length cs1) < 4294967296 ->
    (forall i d1 d2, nth_error cs1 i = Some d1 -> nth_error cs2 i = Some d2 ->
       length (assets_stream ar1 d1) = length (assets_stream ar2 d2)) ->
    final_stream H public ar1 cs1 root = Some s -> final_stream H public ar2 cs2 root = Some s ->
    reach cs1 root x -> nth_error cs1 x = Some c1 -> nth_error cs2 x = Some c2 ->
    assets_stream ar1 c1 = assets_stream ar2 c2 /\ iso_hash H public c1 = iso_hash H public c2.
  Proof.
    intros Ei Hwf Hr Hn Hass E1 E2 R Ex1 Ex2.
    destruct (final_order_spec cs1 Hwf root Hr Hn) as (o & Eo & _ & Ho).
    assert (Eo2 : final_order cs2 root = Some o).
    { unfold final_order in *. assert (L : length cs2 = length cs1).
      { rewrite <- (map_length c_imports cs2), <- Ei, map_length. reflexivity. }
      rewrite L. rewrite <- (dfs_ext cs1 cs2 Ei). exact Eo. }
    unfold final_stream in E1, E2. rewrite Eo in E1. rewrite Eo2 in E2.
    inversion E1 as [X1]. inversion E2 as [X2]. rewrite <- X1 in X2. clear E1 E2 X1.
    unfold stream_of_order in X2.
    assert (Lall : forall i, In i o ->
      length (match nth_error cs2 i with Some c => item H public ar2 c | None => [] end) =
      length (match nth_error cs1 i with Some c => item H public ar1 c | None => [] end)).
    { intros i Hi.
      assert (E' : option_map c_imports (nth_error cs1 i) = option_map c_imports (nth_error cs2 i)).
      { rewrite <- !nth_error_map. rewrite Ei. reflexivity. }
      destruct (nth_error cs1 i) as [d1|] eqn:D1, (nth_error cs2 i) as [d2|] eqn:D2; cbn in E'; try discriminate; [|reflexivity].
      unfold item, iso_hash. rewrite !app_length, (Hass i d1 d2 D1 D2). f_equal. apply Hlen. }
    pose proof (concat_map_eq_inv _ _ o Lall X2 x (proj2 (Ho x) R)) as Ex.
    cbv beta in Ex. rewrite Ex1, Ex2 in Ex. unfold item in Ex.
    apply app_eq_tail_inv in Ex as [Ea Eh]; [|apply Hlen].
    split; [symmetry; exact Ea|symmetry; exact Eh].
  Qed.
End Deep.

(* every chunk's final hash input contains the isolated hash of every chunk
   reachable from it - cycles of dynamic imports included *)
Lemma final_stream_contains_reachable (H : bytes -> bytes) public ar chunks root x c :
  wf_graph chunks -> (root < length chunks)%nat -> Z.of_nat (length chunks) < 4294967296 ->
  reach chunks root x -> nth_error chunks x = Some c ->
  exists pre post, final_stream H public ar chunks root = Some (pre ++ iso_hash H public c ++ post).
Proof.
  intros Hwf Hr Hn R Ex.
  destruct (final_order_spec chunks Hwf root Hr Hn) as (o & Eo & _ & Ho).
  unfold final_stream. rewrite Eo.
  destruct (in_split x o (proj2 (Ho x) R)) as (o1 & o2 & ->).
  exists (stream_of_order H public ar chunks o1 ++ assets_stream ar c), (stream_of_order H public ar chunks o2).
  f_equal. rewrite stream_of_order_app. unfold stream_of_order at 2. cbn [map concat]. rewrite Ex.
  unfold item. rewrite <- !app_assoc. reflexivity.
Qed.

(* two chunks on a cycle: each one's final hash input contains the other's isolated hash *)
Lemma cycle_members_hash_each_other (H : bytes -> bytes) public ar chunks a b ca cb :
  wf_graph chunks -> (a < length chunks)%nat -> (b < length chunks)%nat -> Z.of_nat (length chunks) < 4294967296 ->
  reach chunks a b -> reach chunks b a -> nth_error chunks a = Some ca -> nth_error chunks b = Some cb ->
  (exists pre post, final_stream H public ar chunks a = Some (pre ++ iso_hash H public cb ++ post)) /\
  (exists pre post, final_stream H public ar chunks b = Some (pre ++ iso_hash H public ca ++ post)).
Proof.
  intros Hwf Ha Hb Hn Rab Rba Ea Eb. split; eapply final_stream_contains_reachable; eassumption.
Qed.
