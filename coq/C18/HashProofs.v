(* Lemmas about the hash-stream model: unambiguous length-prefixed encoding,
   the traversal of appendIsolatedHashesForImportedChunks. *)
From V Require Import Common.Base C18.Pieces C18.Hash.

(* ---------------- length prefixes ---------------- *)

Lemma u32le_inj a b : 0 <= a < 4294967296 -> 0 <= b < 4294967296 -> u32le a = u32le b -> a = b.
Proof. unfold u32le. intros Ha Hb E. inversion E. lia. Qed.

Lemma app_eq_length_inv {A} : forall (a b r1 r2 : list A),
  length a = length b -> a ++ r1 = b ++ r2 -> a = b /\ r1 = r2.
Proof.
  induction a as [|x a IH]; intros [|y b] r1 r2 L E; cbn in *; try discriminate.
  - split; [reflexivity|exact E].
  - inversion E; subst. destruct (IH b r1 r2) as [-> ->]; [lia|assumption|]. split; reflexivity.
Qed.

Definition fits32 (b : bytes) : Prop := Z.of_nat (length b) < 4294967296.

Lemma lenpref_inj_app a b r1 r2 : fits32 a -> fits32 b ->
  lenpref a ++ r1 = lenpref b ++ r2 -> a = b /\ r1 = r2.
Proof.
  unfold fits32, lenpref. intros Ha Hb E. rewrite <- !app_assoc in E.
  apply app_eq_length_inv in E as [E1 E2]; [|reflexivity].
  apply u32le_inj in E1; [|lia|lia].
  apply app_eq_length_inv in E2; [exact E2|lia].
Qed.

(* hashWriteLengthPrefixed: "a"+"bc" never hashes like "ab"+"c": the written
   stream determines the list of items *)
Lemma lenpref_concat_inj : forall l1 l2, Forall fits32 l1 -> Forall fits32 l2 ->
  concat (map lenpref l1) = concat (map lenpref l2) -> l1 = l2.
Proof.
  induction l1 as [|a l1 IH]; intros [|b l2] F1 F2 E; cbn in E.
  - reflexivity.
  - unfold lenpref, u32le in E. discriminate.
  - unfold lenpref, u32le in E. discriminate.
  - inversion F1; inversion F2; subst.
    apply lenpref_inj_app in E as [-> E]; [|assumption|assumption].
    f_equal. apply IH; assumption.
Qed.

(* the same with a remainder, when the number of items is known *)
Lemma lenpref_concat_inj_app : forall l1 l2 r1 r2, Forall fits32 l1 -> Forall fits32 l2 ->
  length l1 = length l2 ->
  concat (map lenpref l1) ++ r1 = concat (map lenpref l2) ++ r2 -> l1 = l2 /\ r1 = r2.
Proof.
  induction l1 as [|a l1 IH]; intros [|b l2] r1 r2 F1 F2 L E; cbn in *; try discriminate.
  - split; [reflexivity|exact E].
  - inversion F1; inversion F2; subst. rewrite <- !app_assoc in E.
    apply lenpref_inj_app in E as [-> E]; [|assumption|assumption].
    destruct (IH l2 r1 r2) as [-> ->]; try assumption; [lia|]. split; reflexivity.
Qed.

Lemma NoDup_app_intro {A} : forall (a b : list A), NoDup a -> NoDup b ->
  (forall x, In x a -> In x b -> False) -> NoDup (a ++ b).
Proof.
  induction a as [|x a IH]; intros b Ha Hb D; cbn; [exact Hb|].
  inversion Ha; subst. constructor.
  - intro Hin. apply in_app_iff in Hin as [Hin|Hin]; [contradiction|]. apply (D x); [left; reflexivity|exact Hin].
  - apply IH; [assumption|assumption|]. intros y Hy Hy'. apply (D y); [right; exact Hy|exact Hy'].
Qed.

(* ---------------- the traversal ---------------- *)

Section Dfs.
  Variable chunks : list chunk.
  Let n := length chunks.

  Definition edge (i j : nat) : Prop := exists c, nth_error chunks i = Some c /\ In j (c_imports c).
  Inductive reach (r : nat) : nat -> Prop :=
  | reach_refl : reach r r
  | reach_step x y : reach r x -> edge x y -> reach r y.

  Lemma reach_trans_edge r x y : edge r x -> reach x y -> reach r y.
  Proof. intros E R. induction R; [eapply reach_step; [apply reach_refl|exact E]|eapply reach_step; eassumption]. Qed.

  (* every import names an existing chunk (otherwise the Go code panics) *)
  Definition wf_graph : Prop := forall i c, nth_error chunks i = Some c -> forall j, In j (c_imports c) -> (j < n)%nat.

  Definition marked (vis : list Z) (key : Z) (x : nat) : Prop := nth_error vis x = Some key.

  Lemma set_nth_length {A} (x : A) : forall l i, length (set_nth i x l) = length l.
  Proof. induction l as [|y l IH]; intros [|i]; cbn; try reflexivity. rewrite IH. reflexivity. Qed.

  Lemma nth_error_set_nth {A} (x : A) : forall l i j, (i < length l)%nat ->
    nth_error (set_nth i x l) j = if Nat.eqb j i then Some x else nth_error l j.
  Proof.
    induction l as [|y l IH]; intros i j Hi; cbn in Hi; [lia|].
    destruct i as [|i], j as [|j]; cbn; try reflexivity.
    rewrite IH by lia. reflexivity.
  Qed.

  Lemma marked_set_nth vis key i x : (i < length vis)%nat ->
    (marked (set_nth i key vis) key x <-> x = i \/ marked vis key x).
  Proof.
    intro Hi. unfold marked. rewrite nth_error_set_nth by assumption.
    destruct (Nat.eqb x i) eqn:E.
    - apply Nat.eqb_eq in E. subst. split; [left; reflexivity|reflexivity].
    - apply Nat.eqb_neq in E. split; [right; assumption|intros [->|H]; [congruence|exact H]].
  Qed.

  (* what one call establishes *)
  Record dfs_post (roots : list nat) (vis : list Z) (key : Z) (vis' : list Z) (o : list nat) : Prop := {
    dp_len : length vis' = length vis;
    dp_marked : forall x, marked vis' key x <-> marked vis key x \/ In x o;
    dp_nodup : NoDup o;
    dp_new : forall x, In x o -> ~ marked vis key x;
    dp_reach : forall x, In x o -> exists r, In r roots /\ reach r x;
    dp_closed : forall x, In x o -> forall y, edge x y -> marked vis' key y;
    dp_roots : forall r, In r roots -> marked vis' key r;
    dp_other : forall x s, s <> key -> nth_error vis' x = Some s -> nth_error vis x = Some s
  }.

  Lemma visit_all_post (rec : list Z -> nat -> option (list Z * list nat)) key :
    (forall vis j vis' o, length vis = n -> (j < n)%nat -> rec vis j = Some (vis', o) -> dfs_post [j] vis key vis' o) ->
    forall l vis vis' o, length vis = n -> (forall j, In j l -> (j < n)%nat) ->
      visit_all rec l vis = Some (vis', o) -> dfs_post l vis key vis' o.
  Proof.
    intros Hrec. induction l as [|j l IH]; intros vis vis' o Hl Hin H; cbn in H.
    - inversion H; subst. constructor.
      + reflexivity.
      + intro x. cbn [In]. tauto.
      + constructor.
      + intros x [].
      + intros x [].
      + intros x [].
      + intros r [].
      + intros x s _ E; exact E.
    - destruct (rec vis j) as [[v1 o1]|] eqn:E1; [|discriminate].
      destruct (visit_all rec l v1) as [[v2 o2]|] eqn:E2; [|discriminate].
      inversion H; subst vis' o. clear H.
      pose proof (Hrec _ _ _ _ Hl (Hin j (or_introl eq_refl)) E1) as P1.
      assert (L1 : length v1 = n) by (rewrite (dp_len _ _ _ _ _ P1); exact Hl).
      pose proof (IH _ _ _ L1 (fun j' Hj' => Hin j' (or_intror Hj')) E2) as P2.
      constructor.
      + rewrite (dp_len _ _ _ _ _ P2). apply (dp_len _ _ _ _ _ P1).
      + intro x. rewrite (dp_marked _ _ _ _ _ P2), (dp_marked _ _ _ _ _ P1), in_app_iff. tauto.
      + apply NoDup_app_intro; [apply (dp_nodup _ _ _ _ _ P1)|apply (dp_nodup _ _ _ _ _ P2)|].
        intros x H1 H2. apply (dp_new _ _ _ _ _ P2 x H2). apply (dp_marked _ _ _ _ _ P1). right; exact H1.
      + intros x Hx. apply in_app_iff in Hx as [Hx|Hx]; [apply (dp_new _ _ _ _ _ P1 x Hx)|].
        intro M. apply (dp_new _ _ _ _ _ P2 x Hx). apply (dp_marked _ _ _ _ _ P1). left; exact M.
      + intros x Hx. apply in_app_iff in Hx as [Hx|Hx].
        * destruct (dp_reach _ _ _ _ _ P1 x Hx) as (r & [<-|[]] & R). exists j. split; [left; reflexivity|exact R].
        * destruct (dp_reach _ _ _ _ _ P2 x Hx) as (r & Hr & R). exists r. split; [right; exact Hr|exact R].
      + intros x Hx y E. apply in_app_iff in Hx as [Hx|Hx].
        * apply (dp_marked _ _ _ _ _ P2). left. apply (dp_closed _ _ _ _ _ P1 x Hx y E).
        * apply (dp_closed _ _ _ _ _ P2 x Hx y E).
      + intros r [<-|Hr].
        * apply (dp_marked _ _ _ _ _ P2). left. apply (dp_roots _ _ _ _ _ P1). left; reflexivity.
        * apply (dp_roots _ _ _ _ _ P2 r Hr).
      + intros x s Hs E. apply (dp_other _ _ _ _ _ P1 x s Hs). apply (dp_other _ _ _ _ _ P2 x s Hs E).
  Qed.

  Lemma dfs_post_holds (Hwf : wf_graph) key : forall fuel vis i vis' o,
    length vis = n -> (i < n)%nat -> dfs chunks fuel vis key i = Some (vis', o) -> dfs_post [i] vis key vis' o.
  Proof.
    induction fuel as [|f IH]; intros vis i vis' o Hl Hi H; [discriminate|].
    cbn [dfs] in H.
    destruct (nth_error vis i) as [stamp|] eqn:Es; [|discriminate].
    destruct (nth_error chunks i) as [c|] eqn:Ec; [|discriminate].
    destruct (stamp =? key) eqn:Ek.
    - inversion H; subst vis' o. apply Z.eqb_eq in Ek. subst stamp.
      constructor.
      + reflexivity.
      + intro x. cbn [In]. tauto.
      + constructor.
      + intros x [].
      + intros x [].
      + intros x [].
      + intros r [<-|[]]. exact Es.
      + intros x s _ E; exact E.
    - destruct (visit_all (fun vis0 j => dfs chunks f vis0 key j) (c_imports c) (set_nth i key vis)) as [[v2 o2]|] eqn:Ev; [|discriminate].
      inversion H; subst vis' o. clear H.
      assert (L1 : length (set_nth i key vis) = n) by (rewrite set_nth_length; exact Hl).
      pose proof (visit_all_post _ key (fun v j v' o' A B C => IH v j v' o' A B C) _ _ _ _ L1 (Hwf i c Ec) Ev) as P.
      assert (Hi' : (i < length vis)%nat) by lia.
      assert (Nm : ~ marked vis key i) by (unfold marked; rewrite Es; intro X; inversion X; lia).
      constructor.
      + rewrite (dp_len _ _ _ _ _ P). apply set_nth_length.
      + intro x. rewrite (dp_marked _ _ _ _ _ P), marked_set_nth, in_app_iff by assumption. cbn [In]. intuition.
      + apply NoDup_app_intro; [apply (dp_nodup _ _ _ _ _ P)|constructor; [intros []|constructor]|].
        intros x H1 [<-|[]]. apply (dp_new _ _ _ _ _ P _ H1). apply marked_set_nth; [assumption|left; reflexivity].
      + intros x Hx. apply in_app_iff in Hx as [Hx|[<-|[]]]; [|exact Nm].
        intro M. apply (dp_new _ _ _ _ _ P x Hx). apply marked_set_nth; [assumption|right; exact M].
      + intros x Hx. exists i. split; [left; reflexivity|].
        apply in_app_iff in Hx as [Hx|[<-|[]]]; [|apply reach_refl].
        destruct (dp_reach _ _ _ _ _ P x Hx) as (r & Hr & R).
        eapply reach_trans_edge; [|exact R]. exists c. split; assumption.
      + intros x Hx y E. apply in_app_iff in Hx as [Hx|[<-|[]]].
        * apply (dp_closed _ _ _ _ _ P x Hx y E).
        * destruct E as (c' & Ec' & Hy). rewrite Ec in Ec'. inversion Ec'; subst c'.
          apply (dp_roots _ _ _ _ _ P y Hy).
      + intros r [<-|[]]. apply (dp_marked _ _ _ _ _ P). left. apply marked_set_nth; [assumption|left; reflexivity].
      + intros x s Hs E. pose proof (dp_other _ _ _ _ _ P x s Hs E) as E'.
        rewrite nth_error_set_nth in E' by assumption.
        destruct (Nat.eqb x i); [inversion E'; congruence|exact E'].
  Qed.

  (* ---- termination: the fuel [S n] suffices ---- *)

  Fixpoint cnt (vis : list Z) (key : Z) : nat :=
    match vis with [] => O | s :: r => (if s =? key then O else 1%nat) + cnt r key end.

  Lemma cnt_le_length vis key : (cnt vis key <= length vis)%nat.
  Proof. induction vis as [|s r IH]; cbn; [lia|]. destruct (s =? key); cbn; lia. Qed.

  Lemma cnt_set_nth key : forall vis i s, nth_error vis i = Some s -> s <> key ->
    S (cnt (set_nth i key vis) key) = cnt vis key.
  Proof.
    induction vis as [|y vis IH]; intros [|i] s E Hs; cbn in E; try discriminate.
    - inversion E; subst y. cbn. rewrite Z.eqb_refl. destruct (s =? key) eqn:K; [lia|cbn; lia].
    - cbn. rewrite <- (IH i s E Hs). destruct (y =? key); cbn; lia.
  Qed.

  Lemma cnt_mono key : forall v v', length v' = length v ->
    (forall x, marked v key x -> marked v' key x) -> (cnt v' key <= cnt v key)%nat.
  Proof.
    induction v as [|s v IH]; intros [|s' v'] L M; cbn in L; try discriminate; [cbn; lia|].
    cbn. assert (cnt v' key <= cnt v key)%nat.
    { apply IH; [lia|]. intros x Hx. apply (M (S x)). exact Hx. }
    destruct (s =? key) eqn:K.
    - apply Z.eqb_eq in K. subst s. specialize (M O eq_refl). unfold marked in M. cbn in M. inversion M; subst s'.
      rewrite Z.eqb_refl. cbn. lia.
    - destruct (s' =? key); cbn; lia.
  Qed.

  Lemma visit_all_total (rec : list Z -> nat -> option (list Z * list nat)) key bound :
    (forall vis j, length vis = n -> (j < n)%nat -> (cnt vis key <= bound)%nat ->
       exists vis' o, rec vis j = Some (vis', o) /\ dfs_post [j] vis key vis' o) ->
    forall l vis, length vis = n -> (forall j, In j l -> (j < n)%nat) -> (cnt vis key <= bound)%nat ->
      exists r, visit_all rec l vis = Some r.
  Proof.
    intros Hrec. induction l as [|j l IH]; intros vis Hl Hin Hc; cbn; [eexists; reflexivity|].
    destruct (Hrec vis j Hl (Hin j (or_introl eq_refl)) Hc) as (v1 & o1 & E1 & P1). rewrite E1.
    assert (L1 : length v1 = n) by (rewrite (dp_len _ _ _ _ _ P1); exact Hl).
    assert (C1 : (cnt v1 key <= bound)%nat).
    { etransitivity; [|exact Hc]. apply cnt_mono; [rewrite L1, Hl; reflexivity|].
      intros x Hx. apply (dp_marked _ _ _ _ _ P1). left; exact Hx. }
    destruct (IH v1 L1 (fun j' Hj' => Hin j' (or_intror Hj')) C1) as [[v2 o2] E2]. rewrite E2.
    eexists; reflexivity.
  Qed.

  Lemma dfs_total_gen (Hwf : wf_graph) key : forall fuel vis i,
    length vis = n -> (i < n)%nat -> (cnt vis key < fuel)%nat ->
    exists vis' o, dfs chunks fuel vis key i = Some (vis', o).
  Proof.
    induction fuel as [|f IH]; intros vis i Hl Hi Hc; [lia|].
    cbn [dfs].
    destruct (nth_error vis i) as [stamp|] eqn:Es.
    2:{ apply nth_error_None in Es. lia. }
    destruct (nth_error chunks i) as [c|] eqn:Ec.
    2:{ apply nth_error_None in Ec. unfold n in Hi. lia. }
    destruct (stamp =? key) eqn:Ek; [do 2 eexists; reflexivity|].
    assert (Hs : stamp <> key) by lia.
    pose proof (cnt_set_nth key vis i stamp Es Hs) as C.
    assert (L1 : length (set_nth i key vis) = n) by (rewrite set_nth_length; exact Hl).
    destruct (visit_all_total (fun vis0 j => dfs chunks f vis0 key j) key (cnt (set_nth i key vis) key)) with (l := c_imports c) (vis := set_nth i key vis) as [[v2 o2] E2].
    - intros v j Lv Hj Cv. destruct (IH v j Lv Hj) as (v' & o' & E); [lia|].
      exists v', o'. split; [exact E|]. eapply dfs_post_holds; eassumption.
    - exact L1.
    - apply (Hwf i c Ec).
    - lia.
    - rewrite E2. do 2 eexists; reflexivity.
  Qed.

  (* ---- the traversal from one root ---- *)

  Lemma repeat_nth_error {A} (x : A) : forall k i, (i < k)%nat -> nth_error (repeat x k) i = Some x.
  Proof. induction k as [|k IH]; intros [|i] Hi; cbn; try lia; [reflexivity|apply IH; lia]. Qed.

  Lemma stamp_nonzero root : (root < n)%nat -> Z.of_nat n < 4294967296 -> stamp_of root <> 0.
  Proof. unfold stamp_of. lia. Qed.

  (* dfs_visits_reachable_once *)
  Lemma final_order_spec (Hwf : wf_graph) root : (root < n)%nat -> Z.of_nat n < 4294967296 ->
    exists o, final_order chunks root = Some o /\ NoDup o /\ (forall x, In x o <-> reach root x).
  Proof.
    intros Hr Hn. unfold final_order. fold n.
    assert (L0 : length (repeat 0 n) = n) by apply repeat_length.
    destruct (dfs_total_gen Hwf (stamp_of root) (S n) (repeat 0 n) root L0 Hr) as (v & o & E).
    { pose proof (cnt_le_length (repeat 0 n) (stamp_of root)). lia. }
    rewrite E. exists o. split; [reflexivity|].
    pose proof (dfs_post_holds Hwf _ _ _ _ _ _ L0 Hr E) as P.
    assert (Un : forall x, ~ marked (repeat 0 n) (stamp_of root) x).
    { intros x M. unfold marked in M. destruct (lt_dec x n) as [Hx|Hx].
      - rewrite repeat_nth_error in M by assumption. inversion M. pose proof (stamp_nonzero root Hr Hn). congruence.
      - assert (nth_error (repeat 0 n) x = None) by (apply nth_error_None; rewrite L0; lia). congruence. }
    split; [apply (dp_nodup _ _ _ _ _ P)|].
    intro x. split.
    - intro Hx. destruct (dp_reach _ _ _ _ _ P x Hx) as (r & [<-|[]] & R). exact R.
    - intro R. induction R as [|x y R IHR E'].
      + pose proof (dp_roots _ _ _ _ _ P root (or_introl eq_refl)) as M.
        apply (dp_marked _ _ _ _ _ P) in M as [M|M]; [exfalso; eapply Un; exact M|exact M].
      + pose proof (dp_closed _ _ _ _ _ P x IHR y E') as M.
        apply (dp_marked _ _ _ _ _ P) in M as [M|M]; [exfalso; eapply Un; exact M|exact M].
  Qed.
End Dfs.
