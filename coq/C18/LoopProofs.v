(* The final-hash loop of generateChunksInParallel shares one visited array
   between all roots and tells them apart by the stamp ^uint32(chunkIndex).
   Here: that is the same as running every root on a fresh array. *)
From V Require Import Common.Base C18.Pieces C18.Hash C18.HashProofs.

Section Loop.
  Variable H : bytes -> bytes.
  Variable public : bytes.
  Variable asset_rel : Z -> bytes.
  Variable chunks : list chunk.
  Let n := length chunks.

  Definition same_marks (key : Z) (v1 v2 : list Z) : Prop :=
    length v1 = length v2 /\ forall x, marked v1 key x <-> marked v2 key x.

  Definition related (key : Z) (r1 r2 : option (list Z * list nat)) : Prop :=
    match r1, r2 with
    | Some (a, o1), Some (b, o2) => o1 = o2 /\ same_marks key a b
    | None, None => True
    | _, _ => False
    end.

  Lemma same_marks_set key v1 v2 i : same_marks key v1 v2 -> same_marks key (set_nth i key v1) (set_nth i key v2).
  Proof.
    intros [L M]. split; [rewrite !set_nth_length; exact L|].
    intro x. destruct (lt_dec i (length v1)) as [Hi|Hi].
    - assert (Hi2 : (i < length v2)%nat) by (rewrite <- L; exact Hi).
      rewrite (marked_set_nth chunks v1 key i x Hi), (marked_set_nth chunks v2 key i x Hi2), M. tauto.
    - assert (E1 : set_nth i key v1 = v1).
      { clear - Hi. revert i Hi. induction v1 as [|y v IH]; intros [|i] Hi; cbn in *; try reflexivity; try lia. f_equal. apply IH. lia. }
      assert (E2 : set_nth i key v2 = v2).
      { rewrite L in Hi. clear - Hi. revert i Hi. induction v2 as [|y v IH]; intros [|i] Hi; cbn in *; try reflexivity; try lia. f_equal. apply IH. lia. }
      rewrite E1, E2. apply M.
  Qed.

  Lemma visit_all_related key rec1 rec2 :
    (forall v1 v2 j, same_marks key v1 v2 -> related key (rec1 v1 j) (rec2 v2 j)) ->
    forall l v1 v2, same_marks key v1 v2 -> related key (visit_all rec1 l v1) (visit_all rec2 l v2).
  Proof.
    intros Hrec. induction l as [|j l IH]; intros v1 v2 S; cbn [visit_all].
    - cbn. split; [reflexivity|exact S].
    - pose proof (Hrec v1 v2 j S) as R.
      destruct (rec1 v1 j) as [[a o1]|], (rec2 v2 j) as [[b o2]|]; cbn in R; try contradiction; [|exact I].
      destruct R as [-> S']. pose proof (IH a b S') as R2.
      destruct (visit_all rec1 l a) as [[a' o1']|], (visit_all rec2 l b) as [[b' o2']|]; cbn in R2; try contradiction; [|exact I].
      destruct R2 as [-> S'']. cbn. split; [reflexivity|exact S''].
  Qed.

  Lemma dfs_related key : forall fuel v1 v2 i, same_marks key v1 v2 ->
    related key (dfs chunks fuel v1 key i) (dfs chunks fuel v2 key i).
  Proof.
    induction fuel as [|f IH]; intros v1 v2 i S; [exact I|].
    cbn [dfs]. destruct S as [L M].
    destruct (nth_error v1 i) as [s1|] eqn:E1, (nth_error v2 i) as [s2|] eqn:E2.
    - destruct (nth_error chunks i) as [c|]; [|exact I].
      assert (Es : (s1 =? key) = (s2 =? key)).
      { specialize (M i). unfold marked in M. rewrite E1, E2 in M.
        destruct (s1 =? key) eqn:K1, (s2 =? key) eqn:K2; try reflexivity.
        - apply Z.eqb_eq in K1. subst s1. destruct M as [M _]. specialize (M eq_refl). inversion M. lia.
        - apply Z.eqb_eq in K2. subst s2. destruct M as [_ M]. specialize (M eq_refl). inversion M. lia. }
      rewrite <- Es. destruct (s1 =? key).
      + cbn. split; [reflexivity|split; assumption].
      + pose proof (visit_all_related key _ _ (fun a b j S' => IH a b j S') (c_imports c) _ _
                      (same_marks_set key v1 v2 i (conj L M))) as R.
        destruct (visit_all _ (c_imports c) (set_nth i key v1)) as [[a o1]|],
                 (visit_all _ (c_imports c) (set_nth i key v2)) as [[b o2]|]; cbn in R; try contradiction; [|exact I].
        destruct R as [-> S']. cbn. split; [reflexivity|exact S'].
    - apply nth_error_None in E2. assert (nth_error v1 i <> None) by congruence. apply nth_error_Some in H0. lia.
    - apply nth_error_None in E1. assert (nth_error v2 i <> None) by congruence. apply nth_error_Some in H0. lia.
    - exact I.
  Qed.

  (* stamps present while root [i] is processed: 0 or the stamp of an earlier root *)
  Definition stamps_below (i : nat) (vis : list Z) : Prop :=
    length vis = n /\ forall x s, nth_error vis x = Some s -> s = 0 \/ exists j, (j < i)%nat /\ s = stamp_of j.

  Definition expected (i : nat) : option bytes :=
    match nth_error chunks i with
    | Some c => if has_hash (c_template c) then final_stream H public asset_rel chunks i else None
    | None => None
    end.

  Lemma final_loop_gen (Hwf : wf_graph chunks) (Hn : Z.of_nat n < 4294967296) :
    forall m k vis, (k + m = n)%nat -> stamps_below k vis ->
      final_loop H public asset_rel chunks (seq k m) vis = Some (map expected (seq k m)).
  Proof.
    induction m as [|m IH]; intros k vis Hk [Hl Hs]; [reflexivity|].
    cbn [seq final_loop map].
    assert (Hkn : (k < n)%nat) by lia.
    destruct (nth_error chunks k) as [c|] eqn:Ec.
    2:{ apply nth_error_None in Ec. unfold n in Hkn. lia. }
    unfold expected at 1. rewrite Ec.
    destruct (has_hash (c_template c)).
    - (* no chunk carries the stamp of k yet: same marks as the fresh array *)
      assert (S0 : same_marks (stamp_of k) vis (repeat 0 n)).
      { split; [rewrite repeat_length; exact Hl|]. intro x. unfold marked. split; intro M.
        - exfalso. destruct (Hs x _ M) as [Z0|(j & Hj & Ej)]; unfold stamp_of in *; lia.
        - exfalso. destruct (lt_dec x n) as [Hx|Hx].
          + rewrite (repeat_nth_error chunks) in M by assumption. inversion M. unfold stamp_of in *. lia.
          + assert (nth_error (repeat 0 n) x = None) by (apply nth_error_None; rewrite repeat_length; lia). congruence. }
      pose proof (dfs_related (stamp_of k) (S n) vis (repeat 0 n) k S0) as R.
      destruct (dfs_total_gen chunks Hwf (stamp_of k) (S n) vis k Hl Hkn) as (v' & o & E).
      { pose proof (cnt_le_length chunks vis (stamp_of k)). lia. }
      fold n. rewrite E in R.
      unfold final_stream, final_order. fold n.
      destruct (dfs chunks (S n) (repeat 0 n) (stamp_of k) k) as [[b o2]|].
      2:{ unfold related in R. contradiction. }
      unfold related in R. destruct R as [<- _].
      pose proof (dfs_post_holds chunks Hwf (stamp_of k) (S n) vis k v' o Hl Hkn E) as P.
      rewrite E. rewrite (IH (S k) v'); [reflexivity|lia|].
      split; [rewrite (dp_len _ _ _ _ _ _ P); exact Hl|].
      intros x s Ex. destruct (Z.eq_dec s (stamp_of k)) as [->|Ne].
      + right. exists k. split; [lia|reflexivity].
      + pose proof (dp_other _ _ _ _ _ _ P x s Ne Ex) as Ex'.
        destruct (Hs x s Ex') as [Z0|(j & Hj & Ej)]; [left; exact Z0|right; exists j; split; [lia|exact Ej]].
    - rewrite (IH (S k) vis); [reflexivity|lia|].
      split; [exact Hl|]. intros x s Ex. destruct (Hs x s Ex) as [Z0|(j & Hj & Ej)]; [left; exact Z0|right; exists j; split; [lia|exact Ej]].
  Qed.

  (* the shared, stamped visited array is transparent *)
  Lemma final_streams_fresh (Hwf : wf_graph chunks) (Hn : Z.of_nat n < 4294967296) :
    final_streams H public asset_rel chunks = Some (map expected (seq 0 n)).
  Proof.
    unfold final_streams. fold n. apply final_loop_gen; try assumption; [lia|].
    split; [apply repeat_length|].
    intros x s E. left. destruct (lt_dec x n) as [Hx|Hx].
    - rewrite (repeat_nth_error chunks) in E by assumption. inversion E. reflexivity.
    - assert (nth_error (repeat 0 n) x = None) by (apply nth_error_None; rewrite repeat_length; lia). congruence.
  Qed.
End Loop.
