From V Require Import Common.Base C17.WriteSM C17.PathModel C18.Pieces C18.Escape C18.EscapeProofs C18.Paths C18.PathsProofs.

(* import_path_resolves: what is printed for a reference, read as a string of
   the output's language and resolved against the importing file's directory,
   is the final path of the imported file *)
Lemma import_path_resolves_all isCSS dir to :
  dir <> [] -> is_rooted dir = false -> is_rooted to = false ->
  Forall plain (clean_segs dir) -> Forall plain (clean_segs to) -> clean_segs to <> [] ->
  Forall (fun c => 0 <= c < 256) (path_between [] dir to) ->
  exists spec, unescape isCSS (escape_final_path isCSS (path_between [] dir to)) = Some spec /\
               fs_join dir spec = clean to.
Proof.
  intros. exists (path_between [] dir to). split; [apply unescape_escape; assumption|].
  apply path_between_resolves; assumption.
Qed.
