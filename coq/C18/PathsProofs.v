(* import_path_resolves: joining the importing chunk's directory with the
   relative import path that pathBetweenChunks prints gives the imported
   chunk's final path (as goFilepath/Node/a browser resolve it: clean of the
   join).  Over the C17 path model (clean, fs_join, rel). *)
From V Require Import Common.Base C17.WriteSM C17.PathModel C18.Paths.

Lemma peqb_eq a b : path_eqb a b = true <-> a = b.
Proof. apply zlist_eqb_eq. Qed.
Lemma peqb_neq a b : a <> b -> path_eqb a b = false.
Proof. intro N. destruct (path_eqb a b) eqn:E; [apply peqb_eq in E; contradiction|reflexivity]. Qed.

(* ---- split / join ---- *)
Lemma split_on_nonempty' c p : split_on c p <> [].
Proof.
  induction p as [|x r IH]; simpl; [discriminate|].
  destruct (x =? c); [discriminate|]. destruct (split_on c r); discriminate.
Qed.

Lemma split_on_app' c a b : split_on c (a ++ c :: b) = split_on c a ++ split_on c b.
Proof.
  induction a as [|x a IH]; simpl.
  - rewrite Z.eqb_refl. reflexivity.
  - destruct (x =? c) eqn:E.
    + rewrite IH. reflexivity.
    + rewrite IH. destruct (split_on c a) as [|s t] eqn:ES.
      * exfalso. exact (split_on_nonempty' c a ES).
      * reflexivity.
Qed.

Definition no_byte (b : Z) (s : path) : Prop := Forall (fun c => c <> b) s.

Lemma split_on_nosep c s : no_byte c s -> split_on c s = [s].
Proof.
  induction 1 as [|x s Hx _ IH]; [reflexivity|].
  simpl. replace (x =? c) with false by lia. rewrite IH. reflexivity.
Qed.

Lemma split_join c : forall l, l <> [] -> Forall (no_byte c) l -> split_on c (join_with c l) = l.
Proof.
  induction l as [|s r IH]; intros NE F; [congruence|].
  inversion F; subst. destruct r as [|s2 r].
  - cbn [join_with]. apply split_on_nosep. assumption.
  - change (join_with c (s :: s2 :: r)) with (s ++ c :: join_with c (s2 :: r)).
    rewrite split_on_app', IH by (try discriminate; assumption).
    rewrite split_on_nosep by assumption. reflexivity.
Qed.

(* ---- plain path elements ---- *)
Definition plain (s : path) : Prop :=
  s <> [] /\ s <> seg_dot /\ s <> seg_dotdot /\ no_byte SL s /\ no_byte 92 s.

Lemma push_plain st s : plain s -> push false st s = s :: st.
Proof.
  intros (N1 & N2 & N3 & _). unfold push.
  rewrite (peqb_neq s []), (peqb_neq s seg_dot), (peqb_neq s seg_dotdot) by assumption. reflexivity.
Qed.

Lemma clean_stack_plain : forall l st, Forall plain l -> clean_stack false st l = rev l ++ st.
Proof.
  induction l as [|s l IH]; intros st F; [reflexivity|].
  inversion F; subst. unfold clean_stack in *. cbn [fold_left].
  rewrite push_plain by assumption. rewrite IH by assumption.
  cbn [rev]. rewrite <- app_assoc. reflexivity.
Qed.

Lemma clean_stack_pop : forall s st, Forall plain s ->
  clean_stack false (s ++ st) (repeat seg_dotdot (length s)) = st.
Proof.
  induction s as [|x s IH]; intros st F; [reflexivity|].
  inversion F as [|? ? Hx Hs]; subst. cbn [length repeat app]. unfold clean_stack in *. cbn [fold_left].
  destruct Hx as (_ & _ & N3 & _).
  assert (E : push false (x :: s ++ st) seg_dotdot = s ++ st).
  { unfold push. cbn. rewrite (peqb_neq x seg_dotdot) by assumption. reflexivity. }
  rewrite E. apply IH. assumption.
Qed.

Lemma clean_stack_app' r st a b : clean_stack r st (a ++ b) = clean_stack r (clean_stack r st a) b.
Proof. unfold clean_stack. apply fold_left_app. Qed.

Lemma strip_common_spec : forall a b a' b', strip_common a b = (a', b') ->
  exists c, a = c ++ a' /\ b = c ++ b'.
Proof.
  induction a as [|x a IH]; intros b a' b' H.
  - cbn in H. inversion H. exists []. split; reflexivity.
  - destruct b as [|y b]; [cbn in H; inversion H; exists []; split; reflexivity|].
    cbn [strip_common] in H. destruct (path_eqb x y) eqn:E.
    + apply peqb_eq in E. subst y. destruct (IH _ _ _ H) as (c & -> & ->). exists (x :: c). split; reflexivity.
    + inversion H. exists []. split; reflexivity.
Qed.

Lemma no92_join l : Forall (no_byte 92) l -> no_byte 92 (join_with SL l).
Proof.
  induction 1 as [|s r Hs _ IH]; [constructor|].
  destruct r as [|s2 r]; [exact Hs|].
  change (join_with SL (s :: s2 :: r)) with (s ++ SL :: join_with SL (s2 :: r)).
  apply Forall_app. split; [exact Hs|]. constructor; [unfold SL; lia|exact IH].
Qed.

Lemma bs_to_slash_id s : no_byte 92 s -> bs_to_slash s = s.
Proof.
  induction 1 as [|x s Hx _ IH]; [reflexivity|].
  cbn. replace (x =? 92) with false by lia. f_equal. exact IH.
Qed.

Lemma plain_no92 l : Forall plain l -> Forall (no_byte 92) l.
Proof. induction 1 as [|s l (_ & _ & _ & _ & H) _ IH]; constructor; assumption. Qed.
Lemma plain_noSL l : Forall plain l -> Forall (no_byte SL) l.
Proof. induction 1 as [|s l (_ & _ & _ & H & _) _ IH]; constructor; assumption. Qed.

Lemma dotdot_props : no_byte SL seg_dotdot /\ no_byte 92 seg_dotdot.
Proof. split; repeat constructor; unfold SL; lia. Qed.

Lemma Forall_repeat {A} (P : A -> Prop) x n : P x -> Forall P (repeat x n).
Proof. intro H. induction n; constructor; assumption. Qed.

(* the element list of the relative path, pushed on the directory's stack, gives the target's stack *)
Lemma rel_segments_resolve D T b' t' c :
  D = c ++ b' -> T = c ++ t' -> Forall plain D -> Forall plain T ->
  clean_stack false (rev D) (repeat seg_dotdot (length b') ++ t') = rev T.
Proof.
  intros -> -> FD FT.
  apply Forall_app in FD as [Fc Fb]. apply Forall_app in FT as [_ Ft].
  rewrite clean_stack_app'. rewrite rev_app_distr.
  rewrite <- (rev_length b'). rewrite clean_stack_pop by (apply Forall_rev; exact Fb).
  rewrite clean_stack_plain by exact Ft. rewrite rev_app_distr. reflexivity.
Qed.

(* import_path_resolves, no public path *)
Lemma path_between_resolves dir to :
  dir <> [] -> is_rooted dir = false -> is_rooted to = false ->
  Forall plain (clean_segs dir) -> Forall plain (clean_segs to) ->
  fs_join dir (path_between [] dir to) = clean to.
Proof.
  intros NEd Rd Rt FD FT.
  set (D := clean_segs dir) in *. set (T := clean_segs to) in *.
  assert (SD : clean_stack false [] (split_on SL dir) = rev D).
  { unfold D, clean_segs. rewrite Rd, rev_involutive. reflexivity. }
  unfold path_between, rel. fold D T.
  destruct (strip_common D T) as [b' t'] eqn:ES.
  destruct (strip_common_spec _ _ _ _ ES) as (c & ED & ET).
  pose proof (rel_segments_resolve D T b' t' c ED ET FD FT) as RS.
  set (l := repeat seg_dotdot (length b') ++ t') in *.
  assert (Fl92 : Forall (no_byte 92) l).
  { unfold l. apply Forall_app. split; [apply Forall_repeat, dotdot_props|].
    apply plain_no92. rewrite ET in FT. apply Forall_app in FT. apply FT. }
  assert (FlSL : Forall (no_byte SL) l).
  { unfold l. apply Forall_app. split; [apply Forall_repeat, dotdot_props|].
    apply plain_noSL. rewrite ET in FT. apply Forall_app in FT. apply FT. }
  (* the printed path [spec] splits into no-op elements followed by l *)
  assert (Hspec : exists spec, spec <> [] /\
     (match l with [] => seg_dot | p :: l0 => join_with SL (p :: l0) end = match l with [] => seg_dot | p :: l0 => join_with SL (p :: l0) end) /\
     (let r := bs_to_slash (match l with [] => seg_dot | p :: l0 => join_with SL (p :: l0) end) in
      (if has_prefix [46; 47] r || has_prefix [46; 46; 47] r then r else [46; 47] ++ r) = spec) /\
     clean_stack false (rev D) (split_on SL spec) = rev T).
  { destruct l as [|s0 l0] eqn:El.
    - (* same directory: "." *)
      exists [46; 47; 46]. split; [discriminate|]. split; [reflexivity|]. split; [reflexivity|].
      cbn. exact RS.
    - set (r := join_with SL (s0 :: l0)).
      assert (Er : bs_to_slash r = r) by (apply bs_to_slash_id, no92_join; exact Fl92).
      assert (Sr : split_on SL r = s0 :: l0) by (apply split_join; [discriminate|exact FlSL]).
      cbv zeta. rewrite Er.
      destruct (has_prefix [46; 47] r || has_prefix [46; 46; 47] r).
      + exists r. split; [|split; [reflexivity|split; [reflexivity|rewrite Sr; exact RS]]].
        unfold r. destruct l0; cbn [join_with]; [|destruct s0; discriminate].
        inversion FlSL; subst. intro X. subst s0.
        (* an empty first element cannot be: it is ".." or a plain element *)
        unfold l in El. destruct b'; cbn in El; [|inversion El].
        rewrite ET in FT. apply Forall_app in FT as [_ Ft]. rewrite El in Ft.
        inversion Ft as [|? ? (N & _) _]. congruence.
      + exists ([46; 47] ++ r). split; [discriminate|]. split; [reflexivity|]. split; [reflexivity|].
        change ([46; 47] ++ r) with ([46] ++ SL :: r). rewrite split_on_app', Sr.
        cbn [split_on app]. rewrite clean_stack_app'. cbn. exact RS. }
  destruct Hspec as (spec & NEs & _ & Es & Hst). cbv zeta in Es. rewrite Es.
  unfold fs_join. destruct dir as [|d0 dir']; [congruence|]. destruct spec as [|s0 spec']; [congruence|].
  set (dirp := d0 :: dir') in *. set (specp := s0 :: spec') in *.
  unfold clean.
  assert (Rj : is_rooted (dirp ++ SL :: specp) = false) by (unfold dirp in *; cbn in *; exact Rd).
  rewrite Rj, Rt.
  assert (Ej : clean_segs (dirp ++ SL :: specp) = T).
  { unfold clean_segs. rewrite Rj, split_on_app', clean_stack_app', SD, Hst. apply rev_involutive. }
  rewrite Ej. reflexivity.
Qed.

(* with a public path the printed reference is the public path, one slash, the final path *)
Lemma path_between_public public dir to :
  public <> [] -> has_prefix [46; 47] to = false ->
  path_between public dir to = public ++ (if ends_with_slash public then [] else [SL]) ++ to.
Proof.
  intros NE Hp. unfold path_between, join_with_public_path. rewrite Hp.
  destruct public; [congruence|reflexivity].
Qed.

(* K3: a backslash in a file name is turned into a slash in the reference (Unix) *)
Lemma path_between_backslash_refuted :
  exists dir to, dir <> [] /\ is_rooted dir = false /\ is_rooted to = false /\
    fs_join dir (path_between [] dir to) <> clean to.
Proof.
  exists [46], [100; 92; 113; 46; 106; 115].
  split; [discriminate|]. split; [reflexivity|]. split; [reflexivity|]. vm_compute. discriminate.
Qed.
