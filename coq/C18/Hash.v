(* Model of the hash input streams in /repo/internal/linker/linker.go:

     hashWriteUint32 / hashWriteLengthPrefixed        -> u32le / lenpref
     generateIsolatedHash                             -> isolated_stream, iso_hash
     appendIsolatedHashesForImportedChunks            -> dfs (visited stamps, imports first,
                                                         asset paths, own isolated hash)
     generateChunksInParallel, "Compute the final hashes" loop -> final_loop
       (one [visited] array shared by all roots, stamp ^uint32(chunkIndex))
     config.TemplateToString(SubstituteTemplate(.., {Hash})) -> final_name

   The hash function is the Section variable H (bytes -> bytes); xxhash is
   modelled separately (XXHash.v) and only plugged in when cases are evaluated.
   Executable definitions only. *)
From V Require Import Common.Base C18.Pieces.

Definition u32le (v : Z) : bytes :=
  [v mod 256; (v / 256) mod 256; (v / 65536) mod 256; (v / 16777216) mod 256].
Definition lenpref (b : bytes) : bytes := u32le (Z.of_nat (length b)) ++ b.

(* one entry of partsInChunkInOrder with the fields of its file that are hashed *)
Record part := mkPart {
  pt_ns : bytes;       (* Source.KeyPath.Namespace *)
  pt_key : bytes;      (* Source.KeyPath.Text *)
  pt_pretty : bytes;   (* Source.PrettyPaths.Rel *)
  pt_begin : Z;
  pt_end : Z }.

Definition ns_file : bytes := [102; 105; 108; 101].   (* "file" *)

Definition part_stream (p : part) : bytes :=
  let path := if zlist_eqb (pt_ns p) ns_file then pt_pretty p else pt_key p in
  lenpref (pt_ns p) ++ lenpref path ++ u32le (pt_begin p) ++ u32le (pt_end p).

(* template part: data and placeholder (0 none, 1 dir, 2 name, 3 hash, 4 ext) *)
Definition tpart := (bytes * Z)%type.

Record chunk := mkChunk {
  c_is_js : bool;
  c_parts : list part;
  c_template : list tpart;
  c_pieces : option (list piece);   (* None: intermediateOutput.pieces == nil, joiner kept *)
  c_joiner : bytes;
  c_sm_prefix : bytes;
  c_sm_mappings : bytes;
  c_sm_suffix : bytes;
  c_imports : list nat }.           (* crossChunkImports, chunk indices *)

Definition pieces_stream (c : chunk) : bytes :=
  match c_pieces c with
  | Some ps => concat (map (fun p => lenpref (pdata p)) ps)
  | None => lenpref (c_joiner c)
  end.

Definition isolated_stream (public : bytes) (c : chunk) : bytes :=
  (if c_is_js c then concat (map part_stream (c_parts c)) else [])
  ++ concat (map (fun t : tpart => lenpref (fst t)) (c_template c))
  ++ (match public with [] => [] | _ => lenpref public end)
  ++ pieces_stream c
  ++ lenpref (c_sm_prefix c) ++ lenpref (c_sm_mappings c) ++ lenpref (c_sm_suffix c).

Definition has_hash (t : list tpart) : bool := existsb (fun p : tpart => snd p =? 3) t.

Definition placeholder_text (k : Z) : bytes :=
  if k =? 1 then [91;100;105;114;93] else if k =? 2 then [91;110;97;109;101;93]
  else if k =? 3 then [91;104;97;115;104;93] else if k =? 4 then [91;101;120;116;93] else [].

(* TemplateToString (SubstituteTemplate template {Hash: hs}) *)
Definition final_name (t : list tpart) (hs : option bytes) : bytes :=
  concat (map (fun p : tpart =>
     fst p ++ (if snd p =? 3 then match hs with Some h => h | None => placeholder_text 3 end
               else placeholder_text (snd p))) t).

Fixpoint set_nth {A} (i : nat) (x : A) (l : list A) : list A :=
  match l, i with
  | [], _ => []
  | _ :: r, O => x :: r
  | y :: r, S k => y :: set_nth k x r
  end.

(* "for _, chunkImport := range chunk.crossChunkImports { recurse }" with the visited stamps threaded *)
Fixpoint visit_all (rec : list Z -> nat -> option (list Z * list nat)) (l : list nat) (vis : list Z)
  : option (list Z * list nat) :=
  match l with
  | [] => Some (vis, [])
  | j :: r =>
    match rec vis j with
    | None => None
    | Some (vis1, o1) =>
      match visit_all rec r vis1 with
      | None => None
      | Some (vis2, o2) => Some (vis2, o1 ++ o2)
      end
    end
  end.

Section WithHash.
  Variable H : bytes -> bytes.          (* xxhash.New(); Write*; Sum(nil) *)
  Variable public : bytes.              (* c.options.PublicPath *)
  Variable asset_rel : Z -> bytes.      (* fs.Rel(AbsOutputDir, AdditionalFiles[0].AbsPath) of file [i], "/"-separated *)
  Variable chunks : list chunk.

  Definition iso_hash (c : chunk) : bytes := H (isolated_stream public c).

  (* "Mix in hashes for referenced asset paths" *)
  Definition assets_stream (c : chunk) : bytes :=
    match c_pieces c with
    | Some ps => concat (map (fun p => if pkind p =? 1 then lenpref (asset_rel (pidx p)) else []) ps)
    | None => []
    end.

  (* what visiting chunk [c] itself appends *)
  Definition item (c : chunk) : bytes := assets_stream c ++ iso_hash c.

  (* appendIsolatedHashesForImportedChunks as a traversal: returns the updated
     stamps and the chunk indices in the order in which their items are written.
     A chunk index out of range panics in Go: None.  Fuel: PiecesProofs /
     HashProofs.dfs_total shows [S (length chunks)] suffices. *)
  Fixpoint dfs (fuel : nat) (visited : list Z) (key : Z) (i : nat) : option (list Z * list nat) :=
    match fuel with
    | O => None
    | S f =>
      match nth_error visited i, nth_error chunks i with
      | Some stamp, Some c =>
        if stamp =? key then Some (visited, [])
        else
          match visit_all (fun vis j => dfs f vis key j) (c_imports c) (set_nth i key visited) with
          | None => None
          | Some (vis', o) => Some (vis', o ++ [i])
          end
      | _, _ => None
      end
    end.

  Definition stream_of_order (o : list nat) : bytes :=
    concat (map (fun i => match nth_error chunks i with Some c => item c | None => [] end) o).

  Definition stamp_of (i : nat) : Z := 4294967295 - Z.of_nat i.     (* ^uint32(chunkIndex) *)

  (* the loop "for chunkIndex := range c.chunks" computing the final hashes:
     the visited array is allocated once and shared; chunks whose template has
     no [hash] are skipped.  Result: per chunk, the stream hashed (None when
     skipped), or None overall on a panic / fuel exhaustion. *)
  Fixpoint final_loop (idxs : list nat) (visited : list Z) : option (list (option bytes)) :=
    match idxs with
    | [] => Some []
    | i :: r =>
      match nth_error chunks i with
      | None => None
      | Some c =>
        if has_hash (c_template c) then
          match dfs (S (length chunks)) visited (stamp_of i) i with
          | None => None
          | Some (vis', o) =>
            match final_loop r vis' with
            | None => None
            | Some rest => Some (Some (stream_of_order o) :: rest)
            end
          end
        else
          match final_loop r visited with
          | None => None
          | Some rest => Some (None :: rest)
          end
      end
    end.

  Definition final_streams : option (list (option bytes)) :=
    final_loop (seq 0 (length chunks)) (repeat 0 (length chunks)).

  (* the traversal from one root with a fresh visited array *)
  Definition final_order (root : nat) : option (list nat) :=
    match dfs (S (length chunks)) (repeat 0 (length chunks)) (stamp_of root) root with
    | Some (_, o) => Some o
    | None => None
    end.
  Definition final_stream (root : nat) : option bytes :=
    match final_order root with Some o => Some (stream_of_order o) | None => None end.
End WithHash.
