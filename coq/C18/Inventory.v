(* The tie between the ingredient list of the model (Ingredients.iso_ingredients,
   Hash.item, Hash.final_loop) and the source: the translator c18hashinv
   regenerates, on every run, the ordered inventory of everything
   generateIsolatedHash / appendIsolatedHashesForImportedChunks write into the
   hasher, with the guards under which each write happens.  The inventory must
   be the one transcribed here next to the model component that mirrors it; a
   write that is dropped, added, reordered or put under a new condition (e.g.
   "unless the source map is inline") changes the generated file and this
   obligation no longer checks. *)
From Coq Require Import String List.
Import ListNotations.
From V Require Import gen.HashInventoryGen.
Local Open Scope string_scope.

Definition js_parts : list string :=
  ["if chunkRepr, ok := chunk.chunkRepr.(*chunkReprJS); ok"; "for _, partRange := range chunkRepr.partsInChunkInOrder"].

(* (ingredient tag of Ingredients.v, (kind, argument, guards)) *)
Definition iso_expected : list (nat * (string * string * list string)) := [
  (1,  ("lenpref", "[]byte(file.InputFile.Source.KeyPath.Namespace)", js_parts));   (* ILen 1 (pt_ns p) *)
  (2,  ("lenpref", "[]byte(filePath)", js_parts));                                   (* ILen 2 (pretty or key path) *)
  (3,  ("u32", "partRange.partIndexBegin", js_parts));                               (* IU32 3 *)
  (4,  ("u32", "partRange.partIndexEnd", js_parts));                                 (* IU32 4 *)
  (5,  ("lenpref", "[]byte(part.Data)", ["for _, part := range chunk.finalTemplate"]));
  (6,  ("lenpref", "[]byte(c.options.PublicPath)", ["if c.options.PublicPath != """""]));
  (7,  ("lenpref", "piece.data", ["if chunk.intermediateOutput.pieces != nil"; "for _, piece := range chunk.intermediateOutput.pieces"]));
  (8,  ("lenpref", "bytes", ["else chunk.intermediateOutput.pieces != nil"]));
  (9,  ("lenpref", "chunk.outputSourceMap.Prefix", []));                             (* unconditional *)
  (10, ("lenpref", "chunk.outputSourceMap.Mappings", []));
  (11, ("lenpref", "chunk.outputSourceMap.Suffix", []));
  (0,  ("sum", "", []))
].

(* Hash.dfs / Hash.item: stamp test, mark, imports first, asset paths, own isolated hash *)
Definition final_expected : list (string * string * list string) := [
  ("return", "", ["if visited[chunkIndex] == visitedKey"]);
  ("mark", "visited[chunkIndex] = visitedKey", []);
  ("recurse", "hash, chunkImport.chunkIndex, visited, visitedKey", ["for _, chunkImport := range chunk.crossChunkImports"]);
  ("lenpref", "[]byte(relPath)", ["for _, piece := range chunk.intermediateOutput.pieces"; "if piece.kind == outputPieceAssetIndex"]);
  ("raw", "chunk.waitForIsolatedHash()", [])
].

(* Hash.final_loop: every chunk whose template has [hash], stamp ^uint32(chunkIndex) *)
Definition loop_guards : list string :=
  ["for chunkIndex := range c.chunks"; "if config.HasPlaceholder(chunk.finalTemplate, config.HashPlaceholder)"].
Definition loop_expected : list (string * string * list string) := [
  ("recurse", "hash, uint32(chunkIndex), visited, ^uint32(chunkIndex)", loop_guards);
  ("sum", "", loop_guards)
].

(* Hash.u32le / Hash.lenpref *)
Definition helpers_expected : list (string * string * list string) := [
  ("func", "hashWriteUint32 func(hash hash.Hash, value uint32)", []);
  ("stmt", "var lengthBytes [4]byte", []);
  ("stmt", "binary.LittleEndian.PutUint32(lengthBytes[:], value)", []);
  ("stmt", "hash.Write(lengthBytes[:])", []);
  ("func", "hashWriteLengthPrefixed func(hash hash.Hash, bytes []byte)", []);
  ("stmt", "hashWriteUint32(hash, uint32(len(bytes)))", []);
  ("stmt", "hash.Write(bytes)", [])
].

Lemma inventory_matches :
  iso_writes = map snd iso_expected /\ final_writes = final_expected /\
  loop_calls = loop_expected /\ helper_bodies = helpers_expected.
Proof. repeat split; reflexivity. Qed.
