(* Lemmas about the shared pieces model (used by C18 and C19). *)
From V Require Import Common.Base C18.Pieces.

Lemma is_prefix_app p t : is_prefix p (p ++ t) = true.
Proof. induction p as [|x p IH]; cbn; [reflexivity|]. rewrite Z.eqb_refl, IH. reflexivity. Qed.

Lemma is_prefix_true p : forall s, is_prefix p s = true -> s = p ++ skipn (length p) s.
Proof.
  induction p as [|x p IH]; intros s H; cbn in *; [reflexivity|].
  destruct s as [|y s]; [discriminate|].
  apply andb_true_iff in H as [H1 H2]. apply Z.eqb_eq in H1. subst y.
  cbn. f_equal. apply IH, H2.
Qed.

Lemma is_prefix_iff p s : is_prefix p s = true <-> exists t, s = p ++ t.
Proof.
  split.
  - intro H. eexists. apply is_prefix_true, H.
  - intros [t ->]. apply is_prefix_app.
Qed.

Lemma index_of_unfold p s :
  index_of p s = if is_prefix p s then Some O else
    match s with [] => None | _ :: s' => match index_of p s' with Some n => Some (S n) | None => None end end.
Proof. destruct s; reflexivity. Qed.

(* the offset found is an occurrence and it is the first one *)
Lemma index_of_some p : forall s b, index_of p s = Some b ->
  s = firstn b s ++ p ++ skipn (b + length p) s /\
  (forall j, (j < b)%nat -> is_prefix p (skipn j s) = false).
Proof.
  induction s as [|y s IH]; intros b H; rewrite index_of_unfold in H.
  - destruct (is_prefix p []) eqn:E; [|discriminate]. inversion H; subst b. split.
    + cbn. apply is_prefix_true in E. exact E.
    + intros j Hj; lia.
  - destruct (is_prefix p (y :: s)) eqn:E.
    + inversion H; subst b. split; [cbn [firstn app plus]; apply is_prefix_true, E | intros j Hj; lia].
    + destruct (index_of p s) as [n|] eqn:En; [|discriminate]. inversion H; subst b.
      destruct (IH n eq_refl) as [H1 H2]. split.
      * cbn [firstn plus skipn]. cbn [app]. f_equal. exact H1.
      * intros [|j] Hj; [exact E|]. cbn [skipn]. apply H2. lia.
Qed.

Lemma index_of_none p : forall s, index_of p s = None -> forall j, is_prefix p (skipn j s) = false.
Proof.
  induction s as [|y s IH]; intros H j; rewrite index_of_unfold in H.
  - destruct (is_prefix p []) eqn:E; [discriminate|]. destruct j; exact E.
  - destruct (is_prefix p (y :: s)) eqn:E; [discriminate|].
    destruct (index_of p s) eqn:En; [discriminate|].
    destruct j; [exact E|]. cbn [skipn]. apply IH. reflexivity.
Qed.

Lemma is_prefix_length p : forall s, is_prefix p s = true -> (length p <= length s)%nat.
Proof.
  induction p as [|x p IH]; intros s H; cbn in *; [lia|].
  destruct s as [|y s]; [discriminate|]. apply andb_true_iff in H as [_ H]. apply IH in H. cbn. lia.
Qed.

Lemma index_of_le p : forall s b, index_of p s = Some b -> (b + length p <= length s)%nat.
Proof.
  induction s as [|y s IH]; intros b H; rewrite index_of_unfold in H.
  - destruct (is_prefix p []) eqn:E; [|discriminate]. inversion H. apply is_prefix_length in E. lia.
  - destruct (is_prefix p (y :: s)) eqn:E.
    + inversion H. apply is_prefix_length in E. lia.
    + destruct (index_of p s) as [n|] eqn:En; [|discriminate]. inversion H. specialize (IH n eq_refl). cbn [length]. lia.
Qed.

(* first occurrence characterisation, converse direction *)
Lemma index_of_first p : forall s b,
  is_prefix p (skipn b s) = true -> (b <= length s)%nat ->
  (forall j, (j < b)%nat -> is_prefix p (skipn j s) = false) ->
  index_of p s = Some b.
Proof.
  induction s as [|y s IH]; intros b Hb Hl Hf; rewrite index_of_unfold.
  - cbn in Hl. assert (b = O) by lia. subst b. cbn in Hb. rewrite Hb. reflexivity.
  - destruct b as [|b].
    + cbn in Hb. rewrite Hb. reflexivity.
    + pose proof (Hf O ltac:(lia)) as H0. cbn [skipn] in H0. rewrite H0. cbn [skipn] in Hb. rewrite (IH b); [reflexivity|exact Hb|cbn in Hl; lia|].
      intros j Hj. apply (Hf (S j)). lia.
Qed.

(* ---- digits ---- *)

Definition is_digit (c : Z) : bool := negb ((c <? 48) || (57 <? c)).

Lemma parse_digits_snoc ds : forall c acc,
  parse_digits (ds ++ [c]) acc =
  match parse_digits ds acc with
  | Some a => if (c <? 48) || (57 <? c) then None else Some (a * 10 + c - 48)
  | None => None
  end.
Proof.
  induction ds as [|d ds IH]; intros c acc; cbn.
  - destruct ((c <? 48) || (57 <? c)); reflexivity.
  - destruct ((d <? 48) || (57 <? d)); [reflexivity|]. apply IH.
Qed.

Lemma parse_digits_format : forall ds v,
  parse_digits ds 0 = Some v -> digits_n (length ds) v = ds /\ 0 <= v.
Proof.
  induction ds as [|c ds IH] using rev_ind; intros v H.
  - cbn in H. inversion H. split; [reflexivity|lia].
  - rewrite parse_digits_snoc in H. destruct (parse_digits ds 0) as [a|] eqn:Ea; [|discriminate].
    destruct ((c <? 48) || (57 <? c)) eqn:Ec; [discriminate|]. inversion H; subst v. clear H.
    destruct (IH a eq_refl) as [IH1 IH2].
    rewrite app_length. cbn [length]. replace (length ds + 1)%nat with (S (length ds)) by lia.
    cbn [digits_n].
    replace ((a * 10 + c - 48) / 10) with a by lia.
    replace (48 + (a * 10 + c - 48) mod 10) with c by lia.
    rewrite IH1. split; [reflexivity|lia].
Qed.

Lemma digits_n_length n : forall v, length (digits_n n v) = n.
Proof. induction n; intro v; cbn; [reflexivity|]. rewrite app_length, IHn. cbn. lia. Qed.

Lemma parse_digits_digits_n n : forall v, 0 <= v < 10 ^ Z.of_nat n -> parse_digits (digits_n n v) 0 = Some v.
Proof.
  induction n as [|n IH]; intros v Hv.
  - cbn in *. f_equal. lia.
  - cbn [digits_n]. rewrite parse_digits_snoc.
    rewrite Nat2Z.inj_succ, Z.pow_succ_r in Hv by lia.
    rewrite IH by lia.
    assert (0 <= v mod 10 < 10) by (apply Z.mod_pos_bound; lia).
    destruct ((48 + v mod 10 <? 48) || (57 <? 48 + v mod 10)) eqn:E; [lia|].
    f_equal. lia.
Qed.

(* ---- parse_key ---- *)

Lemma parse_key_spec nf nc after k idx :
  parse_key nf nc after = Some (k, idx) ->
  after = byte_of_kind k :: digits_n 8 idx ++ skipn 9 after /\
  is_ref k = true /\ 0 <= idx /\ (k = 1 -> idx < nf) /\ (k = 2 -> idx < nc).
Proof.
  unfold parse_key. intro H.
  destruct (length after <? 9)%nat eqn:El; [discriminate|].
  destruct after as [|c rest]; [discriminate|].
  destruct (parse_digits (firstn 8 rest) 0) as [v|] eqn:Ed; [|discriminate].
  apply parse_digits_format in Ed as [Ed Hv].
  assert (L8 : length (firstn 8 rest) = 8%nat) by (rewrite firstn_length; cbn [length] in El; lia).
  rewrite L8 in Ed.
  assert (R : rest = firstn 8 rest ++ skipn 8 rest) by (symmetry; apply firstn_skipn).
  unfold kind_of_byte in H.
  destruct (c =? 65) eqn:E65.
  - cbn in H. destruct (v <? nf) eqn:Ev; [|discriminate]. inversion H; subst k idx.
    cbn [byte_of_kind Z.eqb]. replace c with 65 by lia.
    rewrite Ed. change (skipn 9 (65 :: rest)) with (skipn 8 rest).
    repeat split; try lia; try (f_equal; exact R).
  - destruct (c =? 67) eqn:E67.
    + cbn in H. destruct (v <? nc) eqn:Ev; [|discriminate]. inversion H; subst k idx.
      replace c with 67 by lia. rewrite Ed. change (skipn 9 (67 :: rest)) with (skipn 8 rest).
      repeat split; try lia; try (f_equal; exact R).
    + cbn in H. discriminate.
Qed.

Lemma parse_key_key nf nc k idx rest :
  is_ref k = true -> 0 <= idx < 10 ^ 8 -> (k = 1 -> idx < nf) -> (k = 2 -> idx < nc) ->
  parse_key nf nc (byte_of_kind k :: digits_n 8 idx ++ rest) = Some (k, idx).
Proof.
  intros Hk Hi H1 H2. unfold parse_key.
  assert (L : length (digits_n 8 idx) = 8%nat) by apply digits_n_length.
  destruct (length (byte_of_kind k :: digits_n 8 idx ++ rest) <? 9)%nat eqn:El.
  { cbn [length] in El. rewrite app_length, L in El. lia. }
  assert (F : forall a b : bytes, firstn (length a) (a ++ b) = a).
  { intros a b. rewrite firstn_app, firstn_all, Nat.sub_diag. cbn. apply app_nil_r. }
  pose proof (F (digits_n 8 idx) rest) as F'. rewrite L in F'. rewrite F'. clear F F'.
  rewrite parse_digits_digits_n by (change (Z.of_nat 8) with 8; lia).
  unfold is_ref in Hk. unfold byte_of_kind, kind_of_byte.
  destruct (k =? 1) eqn:E1.
  - cbn. assert (k = 1) by lia. subst k. destruct (idx <? nf) eqn:E; [reflexivity|]. specialize (H1 eq_refl). lia.
  - destruct (k =? 2) eqn:E2; [|discriminate]. cbn. assert (k = 2) by lia. subst k.
    destruct (idx <? nc) eqn:E; [reflexivity|]. specialize (H2 eq_refl). lia.
Qed.

(* ---- breakOutputIntoPieces ---- *)

(* pieces_lossless: putting the keys back gives the intermediate output *)
Lemma break_lossless prefix nf nc : forall fuel out ps,
  break_pieces fuel prefix nf nc out = Some ps -> join_with_keys prefix ps = out.
Proof.
  induction fuel as [|f IH]; intros out ps H; [discriminate|].
  cbn [break_pieces] in H.
  destruct (index_of prefix out) as [b|] eqn:Eb.
  2:{ inversion H; subst ps. cbn. apply app_nil_r. }
  destruct (parse_key nf nc (skipn (b + length prefix) out)) as [[k idx]|] eqn:Ek.
  2:{ inversion H; subst ps. cbn. apply app_nil_r. }
  destruct (break_pieces f prefix nf nc (skipn 9 (skipn (b + length prefix) out))) as [ps'|] eqn:Er; [|discriminate].
  inversion H; subst ps. clear H.
  apply index_of_some in Eb as [Eo _].
  apply parse_key_spec in Ek as (Ea & Hk & _).
  cbn [join_with_keys pdata pkind pidx]. rewrite Hk.
  rewrite (IH _ _ Er). unfold key_bytes.
  etransitivity; [|symmetry; exact Eo]. f_equal. rewrite <- app_assoc. f_equal.
  cbn [app]. rewrite Ea at 2. reflexivity.
Qed.

Lemma skipn_length_le {A} n (l : list A) : (length (skipn n l) <= length l)%nat.
Proof. rewrite skipn_length. lia. Qed.

(* the fuel [S (length out)] always suffices *)
Lemma break_fuel_ok prefix nf nc : forall fuel out, (length out < fuel)%nat ->
  exists ps, break_pieces fuel prefix nf nc out = Some ps.
Proof.
  induction fuel as [|f IH]; intros out Hl; [lia|].
  cbn [break_pieces].
  destruct (index_of prefix out) as [b|] eqn:Eb; [|eexists; reflexivity].
  destruct (parse_key nf nc (skipn (b + length prefix) out)) as [[k idx]|] eqn:Ek; [|eexists; reflexivity].
  assert (L9 : (9 <= length (skipn (b + length prefix) out))%nat).
  { unfold parse_key in Ek. destruct (length (skipn (b + length prefix) out) <? 9)%nat eqn:E; [discriminate|lia]. }
  destruct (IH (skipn 9 (skipn (b + length prefix) out))) as [ps Hps].
  { rewrite skipn_length. pose proof (skipn_length_le (b + length prefix) out). lia. }
  rewrite Hps. eexists; reflexivity.
Qed.

Lemma break_total prefix nf nc out : exists ps, break_output prefix nf nc out = Some ps.
Proof. apply break_fuel_ok. lia. Qed.

(* more fuel never changes the result *)
Lemma break_fuel_mono prefix nf nc : forall fuel out ps,
  break_pieces fuel prefix nf nc out = Some ps -> forall fuel', (fuel <= fuel')%nat ->
  break_pieces fuel' prefix nf nc out = Some ps.
Proof.
  induction fuel as [|f IH]; intros out ps H fuel' Hf; [discriminate|].
  destruct fuel' as [|f']; [lia|].
  cbn [break_pieces] in *.
  destruct (index_of prefix out) as [b|]; [|exact H].
  destruct (parse_key nf nc (skipn (b + length prefix) out)) as [[k idx]|]; [|exact H].
  destruct (break_pieces f prefix nf nc (skipn 9 (skipn (b + length prefix) out))) as [ps'|] eqn:Er; [|discriminate].
  rewrite (IH _ _ Er f') by lia. exact H.
Qed.

(* ---- substitution and byte count ---- *)

Lemma accurate_count_length pathOf : forall ps,
  accurate_count pathOf ps = Z.of_nat (length (substitute pathOf ps)).
Proof.
  induction ps as [|p r IH]; [reflexivity|].
  cbn [accurate_count substitute]. rewrite !app_length, IH.
  destruct (is_ref (pkind p)); cbn [length]; lia.
Qed.

(* structure of the result: all pieces but the last are references whose data
   is free of the prefix; the last piece is kind 0 *)
Inductive broken (prefix : bytes) (nf nc : Z) : list piece -> Prop :=
| broken_last d : broken prefix nf nc [mkPiece d 0 0]
| broken_cons d k i r :
    occurs prefix d = false -> is_ref k = true -> 0 <= i < 10 ^ 8 ->
    (k = 1 -> i < nf) -> (k = 2 -> i < nc) ->
    broken prefix nf nc r -> broken prefix nf nc (mkPiece d i k :: r).

Lemma occurs_firstn_index p s b : p <> [] -> index_of p s = Some b -> occurs p (firstn b s) = false.
Proof.
  intros NE H. unfold occurs. destruct (index_of p (firstn b s)) as [c|] eqn:Ec; [|reflexivity]. exfalso.
  pose proof (index_of_le _ _ _ Ec) as Lc.
  apply index_of_some in Ec as [Ec _].
  pose proof (index_of_le _ _ _ H) as Lb.
  apply index_of_some in H as [Hs Hf].
  rewrite firstn_length_le in Lc by lia.
  destruct (Nat.eq_dec (length p) 0) as [Z0|NZ].
  - destruct p; [congruence|discriminate].
  - assert (c < b)%nat by lia.
    specialize (Hf c H).
    assert (E : is_prefix p (skipn c s) = true).
    { apply is_prefix_iff. exists (skipn (c + length p) (firstn b s) ++ skipn b s).
      rewrite <- (firstn_skipn b s) at 1. rewrite Ec at 1.
      rewrite <- app_assoc. rewrite skipn_app.
      assert (Lf : length (firstn c (firstn b s)) = c) by (rewrite firstn_length, firstn_length_le by lia; lia).
      rewrite Lf. replace (c - c)%nat with O by lia. rewrite skipn_all2 by lia. cbn [skipn app].
      rewrite <- app_assoc. reflexivity. }
    congruence.
Qed.

Lemma digits_bound ds v : parse_digits ds 0 = Some v -> v < 10 ^ Z.of_nat (length ds).
Proof.
  revert v. induction ds as [|c ds IH] using rev_ind; intros v H.
  - cbn in H. inversion H. cbn. lia.
  - rewrite parse_digits_snoc in H. destruct (parse_digits ds 0) as [a|] eqn:Ea; [|discriminate].
    destruct ((c <? 48) || (57 <? c)) eqn:Ec; [discriminate|]. inversion H; subst v.
    specialize (IH a eq_refl). rewrite app_length. cbn [length].
    replace (Z.of_nat (length ds + 1)) with (Z.succ (Z.of_nat (length ds))) by lia.
    rewrite Z.pow_succ_r by lia. lia.
Qed.

Lemma parse_key_bound nf nc after k idx : parse_key nf nc after = Some (k, idx) -> idx < 10 ^ 8.
Proof.
  unfold parse_key. intro H.
  destruct (length after <? 9)%nat eqn:El; [discriminate|].
  destruct after as [|c rest]; [discriminate|].
  destruct (parse_digits (firstn 8 rest) 0) as [v|] eqn:Ed; [|discriminate].
  apply digits_bound in Ed.
  assert (L8 : length (firstn 8 rest) = 8%nat) by (rewrite firstn_length; cbn [length] in El; lia).
  rewrite L8 in Ed. change (Z.of_nat 8) with 8 in Ed.
  destruct (kind_of_byte c =? 1); [destruct (v <? nf); inversion H; subst; exact Ed|].
  destruct (kind_of_byte c =? 2); [destruct (v <? nc); inversion H; subst; exact Ed|discriminate].
Qed.

Lemma break_broken prefix nf nc : prefix <> [] -> forall fuel out ps,
  break_pieces fuel prefix nf nc out = Some ps -> broken prefix nf nc ps.
Proof.
  intro NE. induction fuel as [|f IH]; intros out ps H; [discriminate|].
  cbn [break_pieces] in H.
  destruct (index_of prefix out) as [b|] eqn:Eb; [|inversion H; constructor].
  destruct (parse_key nf nc (skipn (b + length prefix) out)) as [[k idx]|] eqn:Ek; [|inversion H; constructor].
  destruct (break_pieces f prefix nf nc (skipn 9 (skipn (b + length prefix) out))) as [ps'|] eqn:Er; [|discriminate].
  inversion H; subst ps.
  pose proof (parse_key_bound _ _ _ _ _ Ek) as Hb.
  apply parse_key_spec in Ek as (_ & Hk & H0 & H1 & H2).
  constructor; try assumption; try lia.
  - apply occurs_firstn_index; assumption.
  - eapply IH, Er.
Qed.

Lemma break_nonempty prefix nf nc fuel out : break_pieces fuel prefix nf nc out = Some [] -> False.
Proof.
  destruct fuel as [|f]; [discriminate|]. cbn [break_pieces].
  destruct (index_of prefix out) as [b|]; [|discriminate].
  destruct (parse_key nf nc (skipn (b + length prefix) out)) as [[k idx]|]; [|discriminate].
  destruct (break_pieces f prefix nf nc (skipn 9 (skipn (b + length prefix) out))); discriminate.
Qed.

(* the last piece: either free of the prefix, or its first occurrence of the
   prefix is not a valid key (input contained placeholder-like text) *)
Lemma break_last prefix nf nc : forall fuel out ps,
  break_pieces fuel prefix nf nc out = Some ps ->
  exists d, last ps (mkPiece [] 0 0) = mkPiece d 0 0 /\
    (occurs prefix d = false \/
     exists b, index_of prefix d = Some b /\ parse_key nf nc (skipn (b + length prefix) d) = None).
Proof.
  induction fuel as [|f IH]; intros out ps H; [discriminate|].
  cbn [break_pieces] in H.
  destruct (index_of prefix out) as [b|] eqn:Eb.
  2:{ inversion H. exists out. split; [reflexivity|]. left. unfold occurs. rewrite Eb. reflexivity. }
  destruct (parse_key nf nc (skipn (b + length prefix) out)) as [[k idx]|] eqn:Ek.
  2:{ inversion H. exists out. split; [reflexivity|]. right. exists b. split; assumption. }
  destruct (break_pieces f prefix nf nc (skipn 9 (skipn (b + length prefix) out))) as [ps'|] eqn:Er; [|discriminate].
  inversion H; subst ps. destruct (IH _ _ Er) as (d & Hl & Hd).
  exists d. split; [|exact Hd].
  destruct ps' as [|q ps']; [|exact Hl].
  exfalso. eapply break_nonempty; eassumption.
Qed.

Lemma break_total_lossless prefix nf nc out :
  exists ps, break_output prefix nf nc out = Some ps /\ join_with_keys prefix ps = out.
Proof.
  destruct (break_total prefix nf nc out) as [ps H]. exists ps. split; [exact H|].
  eapply break_lossless. exact H.
Qed.

(* ---- no placeholder survives / references resolve ---- *)

Lemma broken_interior prefix nf nc ps : broken prefix nf nc ps ->
  Forall (fun p => occurs prefix (pdata p) = false /\ is_ref (pkind p) = true /\
                   0 <= pidx p /\ (pkind p = 1 -> pidx p < nf) /\ (pkind p = 2 -> pidx p < nc)) (removelast ps)
  /\ pkind (last ps (mkPiece [] 0 0)) = 0.
Proof.
  induction 1 as [d|d k i r Ho Hk Hi H1 H2 Hr [IH1 IH2]].
  - split; [constructor|reflexivity].
  - assert (r <> []) by (destruct Hr; discriminate).
    split.
    + destruct r as [|q r]; [congruence|]. cbn [removelast]. constructor; [|exact IH1].
      cbn. repeat split; try assumption; lia.
    + destruct r as [|q r]; [congruence|]. exact IH2.
Qed.

(* an occurrence of the prefix that lies entirely inside [d] is an occurrence in [d] *)
Lemma is_prefix_inside p : forall d b j, (j + length p <= length d)%nat ->
  is_prefix p (skipn j (d ++ b)) = true -> is_prefix p (skipn j d) = true.
Proof.
  intros d b j Hj H. rewrite skipn_app in H.
  replace (j - length d)%nat with O in H by lia. cbn [skipn] in H.
  apply is_prefix_iff in H as [t Ht]. apply is_prefix_iff.
  assert (L : (length p <= length (skipn j d))%nat) by (rewrite skipn_length; lia).
  exists (skipn (length p) (skipn j d)).
  rewrite <- (firstn_skipn (length p) (skipn j d)) at 1. f_equal.
  assert (E : firstn (length p) (skipn j d ++ b) = firstn (length p) (p ++ t)) by (rewrite Ht; reflexivity).
  rewrite firstn_app in E. replace (length p - length (skipn j d))%nat with O in E by lia.
  cbn [firstn] in E. rewrite app_nil_r in E. rewrite E.
  rewrite firstn_app, firstn_all, Nat.sub_diag. cbn. apply app_nil_r.
Qed.

Lemma occurs_of_is_prefix p : forall d j, is_prefix p (skipn j d) = true -> (j <= length d)%nat -> occurs p d = true.
Proof.
  intros d j H Hj. unfold occurs.
  destruct (index_of p d) as [b|] eqn:E; [reflexivity|].
  pose proof (index_of_none p d E j). congruence.
Qed.

(* no occurrence of the prefix in the substituted output lies inside a data
   piece other than the last one *)
Lemma no_key_inside_interior_data prefix nf nc pathOf ps : broken prefix nf nc ps ->
  forall pre p rest, ps = pre ++ p :: rest -> rest <> [] ->
  forall k, (length (substitute pathOf pre) <= k)%nat ->
    (k + length prefix <= length (substitute pathOf pre) + length (pdata p))%nat ->
    is_prefix prefix (skipn k (substitute pathOf ps)) = false.
Proof.
  intros Hb pre p rest E Hr k H1 H2.
  destruct (broken_interior _ _ _ _ Hb) as [F _].
  assert (Hp : occurs prefix (pdata p) = false).
  { subst ps. rewrite Forall_forall in F. apply F.
    clear - Hr. induction pre as [|a pre IH]; cbn [app].
    - destruct rest; [congruence|]. left; reflexivity.
    - destruct (pre ++ p :: rest) eqn:E; [destruct pre; discriminate|]. right. exact IH. }
  destruct (is_prefix prefix (skipn k (substitute pathOf ps))) eqn:Ei; [|reflexivity]. exfalso.
  assert (Es : substitute pathOf ps = substitute pathOf pre ++ pdata p ++
            ((if is_ref (pkind p) then pathOf (pkind p) (pidx p) else []) ++ substitute pathOf rest)).
  { subst ps. clear. induction pre as [|a pre IH]; cbn [app substitute]; [reflexivity|]. rewrite IH, <- !app_assoc. reflexivity. }
  rewrite Es in Ei. rewrite skipn_app in Ei. rewrite skipn_all2 in Ei by lia. cbn [app] in Ei.
  apply is_prefix_inside in Ei; [|lia].
  apply occurs_of_is_prefix in Ei; [congruence|lia].
Qed.
