(* Shared model (C18 and C19) of the two-phase output generation in
   /repo/internal/linker/linker.go:

     breakOutputIntoPieces      -> break_pieces
     substituteFinalPaths       -> substitute      (the joined bytes; the source-map shifts are C07's)
     accurateFinalByteCount     -> accurate_count
     chunk.uniqueKey / bundler uniqueKey  ("%sC%08d" / "%sA%08d") -> key_bytes

   Executable definitions only.  Bytes are Z, Go ints are Z (an index has at
   most 8 decimal digits, < 2^32, so uint32 arithmetic never wraps here).
   Piece kinds: 0 = outputPieceNone, 1 = outputPieceAssetIndex, 2 = outputPieceChunkIndex. *)
From V Require Import Common.Base.

Record piece := mkPiece { pdata : bytes; pidx : Z; pkind : Z }.

Fixpoint is_prefix (p s : bytes) : bool :=
  match p, s with
  | [], _ => true
  | x :: p', y :: s' => (x =? y) && is_prefix p' s'
  | _ :: _, [] => false
  end.

(* bytes.Index(s, p): offset of the first occurrence of p in s *)
Fixpoint index_of (p s : bytes) {struct s} : option nat :=
  if is_prefix p s then Some O else
  match s with
  | [] => None
  | _ :: s' => match index_of p s' with Some n => Some (S n) | None => None end
  end.

Definition kind_of_byte (c : Z) : Z := if c =? 65 then 1 else if c =? 67 then 2 else 0.
Definition byte_of_kind (k : Z) : Z := if k =? 1 then 65 else 67.

(* the loop "for j := 1; j < 9; j++": stops with boundary = -1 at the first non-digit *)
Fixpoint parse_digits (ds : bytes) (acc : Z) : option Z :=
  match ds with
  | [] => Some acc
  | c :: r => if (c <? 48) || (57 <? c) then None else parse_digits r (acc * 10 + c - 48)
  end.

(* [after] = output[boundary+len(prefix):].  Result: (kind, index) of a valid
   boundary, None when the code sets boundary = -1. *)
Definition parse_key (nfiles nchunks : Z) (after : bytes) : option (Z * Z) :=
  if (length after <? 9)%nat then None else
  match after with
  | k :: rest =>
    let kind := kind_of_byte k in
    match parse_digits (firstn 8 rest) 0 with
    | None => None
    | Some idx =>
      if kind =? 1 then (if idx <? nfiles then Some (1, idx) else None)
      else if kind =? 2 then (if idx <? nchunks then Some (2, idx) else None)
      else None
    end
  | [] => None
  end.

(* breakOutputIntoPieces.  The first occurrence of the prefix that is not a
   valid key ends the scan: everything left becomes the final piece (later
   valid keys are NOT looked for - mirrored as is).  The recursion is on the
   remaining output, so it is fuelled; [S (length out)] always suffices
   (PiecesProofs.break_total). *)
Fixpoint break_pieces (fuel : nat) (prefix : bytes) (nf nc : Z) (out : bytes) : option (list piece) :=
  match fuel with
  | O => None
  | S f =>
    match index_of prefix out with
    | None => Some [mkPiece out 0 0]
    | Some b =>
      let after := skipn (b + length prefix) out in
      match parse_key nf nc after with
      | None => Some [mkPiece out 0 0]
      | Some (k, idx) =>
        match break_pieces f prefix nf nc (skipn 9 after) with
        | Some ps => Some (mkPiece (firstn b out) idx k :: ps)
        | None => None
        end
      end
    end
  end.

Definition break_output (prefix : bytes) (nf nc : Z) (out : bytes) : option (list piece) :=
  break_pieces (S (length out)) prefix nf nc out.

Definition is_ref (k : Z) : bool := (k =? 1) || (k =? 2).

(* substituteFinalPaths: [pathOf kind index] is modifyPath(relPath of asset) /
   modifyPath(chunk.finalRelPath) *)
Fixpoint substitute (pathOf : Z -> Z -> bytes) (ps : list piece) : bytes :=
  match ps with
  | [] => []
  | p :: r => pdata p ++ (if is_ref (pkind p) then pathOf (pkind p) (pidx p) else []) ++ substitute pathOf r
  end.

(* accurateFinalByteCount *)
Fixpoint accurate_count (pathOf : Z -> Z -> bytes) (ps : list piece) : Z :=
  match ps with
  | [] => 0
  | p :: r => Z.of_nat (length (pdata p))
              + (if is_ref (pkind p) then Z.of_nat (length (pathOf (pkind p) (pidx p))) else 0)
              + accurate_count pathOf r
  end.

(* fmt.Sprintf("%0nd", v) for 0 <= v < 10^n *)
Fixpoint digits_n (n : nat) (v : Z) : bytes :=
  match n with
  | O => []
  | S k => digits_n k (v / 10) ++ [48 + v mod 10]
  end.

(* the unique key of chunk/asset [idx]: prefix ++ "C"/"A" ++ %08d *)
Definition key_bytes (prefix : bytes) (k idx : Z) : bytes :=
  prefix ++ byte_of_kind k :: digits_n 8 idx.

(* the intermediate output denoted by a piece list: data with the unique keys in place *)
Fixpoint join_with_keys (prefix : bytes) (ps : list piece) : bytes :=
  match ps with
  | [] => []
  | p :: r => pdata p ++ (if is_ref (pkind p) then key_bytes prefix (pkind p) (pidx p) else []) ++ join_with_keys prefix r
  end.

(* does [p] occur in [s] *)
Definition occurs (p s : bytes) : bool :=
  match index_of p s with Some _ => true | None => false end.

(* piece-list concatenation as the joiner sees it: the last (kind 0) piece of
   the first list and the first piece of the second are one span of bytes *)
Fixpoint papp (a b : list piece) : list piece :=
  match a with
  | [] => b
  | [p] => if is_ref (pkind p) then p :: b
           else match b with
                | [] => [p]
                | q :: b' => mkPiece (pdata p ++ pdata q) (pidx q) (pkind q) :: b'
                end
  | p :: a' => p :: papp a' b
  end.

(* breakJoinerIntoPieces: a joiner without the prefix is kept whole (None);
   substituteFinalPaths then returns it unchanged *)
Definition break_joiner (prefix : bytes) (nf nc : Z) (out : bytes) : option (option (list piece)) :=
  if occurs prefix out then
    match break_output prefix nf nc out with Some ps => Some (Some ps) | None => None end
  else Some None.

Definition substitute_out (pathOf : Z -> Z -> bytes) (o : option (list piece)) (joiner : bytes) : bytes :=
  match o with Some ps => substitute pathOf ps | None => joiner end.
