(* pathBetweenChunks and joinWithPublicPath (/repo/internal/linker/linker.go)
   on top of the file-system path model of C17 (coq/C17/PathModel.v: clean,
   fs_join, rel, fs_dir - goFilepath, tied to fs.RealFS by C17's
   correspondence and, for the two functions here, by C18's paths_cases).

     pathBetweenChunks     -> path_between
     joinWithPublicPath    -> join_with_public_path
   Executable definitions only. *)
From V Require Import Common.Base C17.WriteSM C17.PathModel.

(* strings.ReplaceAll(relPath, "\\", "/") *)
Definition bs_to_slash (p : path) : path := map (fun c => if c =? 92 then SL else c) p.

(* the loop stripping no-op "/" and "./" after a leading "./" *)
Fixpoint strip_noop (r : path) : path :=
  match r with
  | 47 :: r' => strip_noop r'
  | 46 :: 47 :: r' => strip_noop r'
  | _ => r
  end.

Definition ends_with_slash (p : path) : bool := match rev p with 47 :: _ => true | _ => false end.

Definition join_with_public_path (public relPath : path) : path :=
  let r := if has_prefix [46; 47] relPath then strip_noop (skipn 2 relPath) else relPath in
  let pub := match public with [] => [46] | _ => public end in
  pub ++ (if ends_with_slash pub then [] else [SL]) ++ r.

(* fromRelDir = c.fs.Dir(chunk.finalRelPath), toRelPath = the imported chunk's
   finalRelPath (or the asset's path relative to the output directory);
   fs.Rel fails only for an absolute/relative mix, not modelled (both relative) *)
Definition path_between (public fromRelDir toRelPath : path) : path :=
  match public with
  | _ :: _ => join_with_public_path public toRelPath
  | [] =>
    let r := bs_to_slash (rel fromRelDir toRelPath) in
    if has_prefix [46; 47] r || has_prefix [46; 46; 47] r then r else [46; 47] ++ r
  end.
