(* Checkers evaluated by the correspondence run: each returns the indices of
   the cases on which the model and the implementation's observed output differ. *)
From V Require Import Common.Base C17.WriteSM C17.PathModel C18.Pieces C18.Hash C18.XXHash C18.Escape C18.Paths.

Fixpoint mism_from {A} (f : A -> bool) (l : list A) (i : nat) : list nat :=
  match l with
  | [] => []
  | x :: r => if f x then mism_from f r (S i) else i :: mism_from f r (S i)
  end.
Definition mismatches {A} (f : A -> bool) (l : list A) : list nat := mism_from f l 0.

Definition rawpiece := (bytes * Z * Z)%type.   (* data, index, kind *)
Definition mkp (r : rawpiece) : piece := let '(d, i, k) := r in mkPiece d i k.
Definition piece_eqb (a b : piece) : bool :=
  zlist_eqb (pdata a) (pdata b) && (pidx a =? pidx b) && (pkind a =? pkind b).

(* breakOutputIntoPieces / breakJoinerIntoPieces:
   (prefix, nfiles, nchunks, output, via joiner?, Go has pieces?, Go pieces) *)
Definition break_ok (c : bytes * Z * Z * bytes * bool * bool * list rawpiece) : bool :=
  let '(prefix, nf, nc, out, viaj, ghas, gps) := c in
  let m := if viaj then break_joiner prefix nf nc out
           else match break_output prefix nf nc out with Some ps => Some (Some ps) | None => None end in
  match m with
  | Some (Some ps) => ghas && list_eqb piece_eqb ps (map mkp gps)
                      && zlist_eqb (join_with_keys prefix ps) out
  | Some None => negb ghas
  | None => false
  end.
Definition check_break := mismatches break_ok.

Fixpoint lookup (t : list (Z * Z * bytes)) (k i : Z) : bytes :=
  match t with
  | [] => []
  | (k', i', p) :: r => if (k =? k') && (i =? i') then p else lookup r k i
  end.

(* substituteFinalPaths and accurateFinalByteCount on the same pieces:
   (isCSS flag of the intermediate output, has pieces?, pieces, joiner bytes,
    table of pathBetweenChunks results (unescaped) for the referenced (kind,index),
    Go substituted bytes, Go count) *)
Definition subst_ok (c : bool * bool * list rawpiece * bytes * list (Z * Z * bytes) * bytes * Z) : bool :=
  let '(css, has, gps, jb, tab, gout, gcount) := c in
  let ps := map mkp gps in
  zlist_eqb (substitute_out_esc css (lookup tab) (if has then Some ps else None) jb) gout
  && (accurate_count_esc css (lookup tab) (if has then ps else []) =? gcount)
  && (negb has || (gcount =? Z.of_nat (length gout))).
Definition check_subst := mismatches subst_ok.

(* ---- hash streams ---- *)

(* xxhash: (the byte strings written one after the other, Go Sum(nil)) *)
Definition xx_ok (c : list bytes * bytes) : bool :=
  let '(ws, gsum) := c in zlist_eqb (xxh64 (concat ws)) gsum.
Definition check_xx := mismatches xx_ok.

Definition rawpart := (bytes * bytes * bytes * Z * Z)%type.
Definition rawchunk :=
  (bool * list rawpart * list (bytes * Z) * bool * list rawpiece * bytes * (bytes * bytes * bytes) * list Z)%type.
Definition mkpart (r : rawpart) : part := let '(ns, k, pr, b, e) := r in mkPart ns k pr b e.
Definition mkchunk (r : rawchunk) : chunk :=
  let '(js, parts, tmpl, has, ps, jb, sm, imps) := r in
  let '(smp, smm, sms) := sm in
  mkChunk js (map mkpart parts) tmpl (if has then Some (map mkp ps) else None) jb smp smm sms (map Z.to_nat imps).

(* generateIsolatedHash: (public path, chunk, Go isolated hash) *)
Definition iso_ok (c : bytes * rawchunk * bytes) : bool :=
  let '(public, rc, g) := c in zlist_eqb (iso_hash xxh64 public (mkchunk rc)) g.
Definition check_iso := mismatches iso_ok.

Fixpoint lookup1 (t : list (Z * bytes)) (i : Z) : bytes :=
  match t with [] => [] | (i', p) :: r => if i =? i' then p else lookup1 r i end.

Definition optbytes_eqb (a b : option bytes) : bool := option_eqb zlist_eqb a b.

(* the final-hash loop: (public path, asset relative paths, chunks,
   per chunk: Go's stream written into the final hash (None = no [hash] in the template),
   per chunk: Go's final name for that stream) *)
Definition final_ok (c : bytes * list (Z * bytes) * list rawchunk * list (option bytes)) : bool :=
  let '(public, atab, rcs, g) := c in
  match final_streams xxh64 public (lookup1 atab) (map mkchunk rcs) with
  | Some m => list_eqb optbytes_eqb m g
  | None => false
  end.
Definition check_final := mismatches final_ok.

(* final_name: (template, hash text or none, Go TemplateToString(SubstituteTemplate ..)) *)
Definition name_ok (c : list (bytes * Z) * option bytes * bytes) : bool :=
  let '(t, hs, g) := c in zlist_eqb (final_name t hs) g.
Definition check_name := mismatches name_ok.

(* pathBetweenChunks / joinWithPublicPath on fs.RealFS:
   (public path, fromRelDir, toRelPath, Go pathBetweenChunks, Go joinWithPublicPath(public, toRelPath),
    Go fs.Dir(toRelPath), Go fs.Join(fromRelDir, result) when there is no public path else []) *)
Definition path_ok (c : bytes * bytes * bytes * bytes * bytes * bytes * bytes) : bool :=
  let '(public, dir, to, g, gj, gdir, gjoin) := c in
  zlist_eqb (path_between public dir to) g
  && zlist_eqb (join_with_public_path public to) gj
  && zlist_eqb (fs_dir to) gdir
  && match public with [] => zlist_eqb (fs_join dir g) gjoin | _ => true end.
Definition check_path := mismatches path_ok.
