(* Field-by-field view of what generateIsolatedHash writes into the hasher
   (the list the translator c18hashinv regenerates from the source as
   gen/HashInventoryGen.iso_writes), and: the written stream determines every
   ingredient, given the shape (how many parts / template parts / pieces,
   whether there is a public path). *)
From V Require Import Common.Base C18.Pieces C18.Hash C18.HashProofs.

(* tags: 1 namespace, 2 file path, 3 part begin, 4 part end, 5 template part,
   6 public path, 7 piece data, 8 whole output (no pieces), 9 source-map
   prefix, 10 source-map mappings, 11 source-map suffix *)
Inductive ingredient :=
| ILen (tag : Z) (b : bytes)      (* hashWriteLengthPrefixed *)
| IU32 (tag : Z) (v : Z).         (* hashWriteUint32 *)

Definition encode (i : ingredient) : bytes :=
  match i with ILen _ b => lenpref b | IU32 _ v => u32le v end.
Definition ishape (i : ingredient) : Z * Z :=
  match i with ILen t _ => (0, t) | IU32 t _ => (1, t) end.
Definition ing_ok (i : ingredient) : Prop :=
  match i with ILen _ b => fits32 b | IU32 _ v => 0 <= v < 4294967296 end.

Definition part_ingredients (p : part) : list ingredient :=
  [ILen 1 (pt_ns p);
   ILen 2 (if zlist_eqb (pt_ns p) ns_file then pt_pretty p else pt_key p);
   IU32 3 (pt_begin p); IU32 4 (pt_end p)].

Definition iso_ingredients (public : bytes) (c : chunk) : list ingredient :=
  (if c_is_js c then flat_map part_ingredients (c_parts c) else [])
  ++ map (fun t : tpart => ILen 5 (fst t)) (c_template c)
  ++ (match public with [] => [] | _ => [ILen 6 public] end)
  ++ (match c_pieces c with
      | Some ps => map (fun p => ILen 7 (pdata p)) ps
      | None => [ILen 8 (c_joiner c)]
      end)
  ++ [ILen 9 (c_sm_prefix c); ILen 10 (c_sm_mappings c); ILen 11 (c_sm_suffix c)].

Definition encode_all (l : list ingredient) : bytes := concat (map encode l).

Lemma encode_all_app a b : encode_all (a ++ b) = encode_all a ++ encode_all b.
Proof. unfold encode_all. rewrite map_app, concat_app. reflexivity. Qed.

Lemma encode_parts : forall ps, encode_all (flat_map part_ingredients ps) = concat (map part_stream ps).
Proof.
  induction ps as [|p r IH]; [reflexivity|].
  cbn [flat_map map concat]. rewrite encode_all_app, IH. f_equal.
  all: try (unfold part_stream, encode_all, part_ingredients; cbn [map concat encode]; rewrite app_nil_r; reflexivity).
Qed.

(* the model's stream is the encoding of the ingredient list *)
Lemma isolated_stream_is_ingredients public c :
  isolated_stream public c = encode_all (iso_ingredients public c).
Proof.
  unfold isolated_stream, iso_ingredients. rewrite !encode_all_app. f_equal.
  - destruct (c_is_js c); [symmetry; apply encode_parts|reflexivity].
  - f_equal.
    + unfold encode_all. rewrite map_map. reflexivity.
    + f_equal; [destruct public; [reflexivity|unfold encode_all; cbn; rewrite app_nil_r; reflexivity]|].
      f_equal.
      * unfold pieces_stream. destruct (c_pieces c) as [ps|].
        -- unfold encode_all. rewrite map_map. reflexivity.
        -- unfold encode_all. cbn. rewrite app_nil_r. reflexivity.
      * unfold encode_all. cbn [map concat encode]. rewrite ?app_nil_r, <- ?app_assoc. reflexivity.
Qed.

(* the stream determines the ingredients, given their shape *)
Lemma ingredients_determined : forall l1 l2 r1 r2,
  map ishape l1 = map ishape l2 -> Forall ing_ok l1 -> Forall ing_ok l2 ->
  encode_all l1 ++ r1 = encode_all l2 ++ r2 -> l1 = l2 /\ r1 = r2.
Proof.
  induction l1 as [|a l1 IH]; intros [|b l2] r1 r2 S F1 F2 E; cbn in S; try discriminate.
  - split; [reflexivity|exact E].
  - inversion S as [[Sa Sl]]. inversion F1; inversion F2; subst.
    unfold encode_all in E. cbn [map concat] in E. rewrite <- !app_assoc in E.
    destruct a as [ta ba|ta va], b as [tb bb|tb vb]; cbn in Sa; inversion Sa; subst; cbn [encode] in E.
    + match goal with Ha : ing_ok (ILen _ ba), Hb : ing_ok (ILen _ bb) |- _ => cbn in Ha, Hb;
        apply lenpref_inj_app in E as [-> E]; [|assumption|assumption] end.
      destruct (IH l2 r1 r2 Sl) as [-> ->]; try assumption. split; reflexivity.
    + match goal with Ha : ing_ok (IU32 _ va), Hb : ing_ok (IU32 _ vb) |- _ => cbn in Ha, Hb end.
      apply app_eq_length_inv in E as [E1 E]; [|reflexivity].
      apply u32le_inj in E1; [|assumption|assumption]. subst vb.
      destruct (IH l2 r1 r2 Sl) as [-> ->]; try assumption. split; reflexivity.
Qed.

Lemma isolated_stream_determines_ingredients public1 public2 c1 c2 :
  map ishape (iso_ingredients public1 c1) = map ishape (iso_ingredients public2 c2) ->
  Forall ing_ok (iso_ingredients public1 c1) -> Forall ing_ok (iso_ingredients public2 c2) ->
  isolated_stream public1 c1 = isolated_stream public2 c2 ->
  iso_ingredients public1 c1 = iso_ingredients public2 c2.
Proof.
  intros S F1 F2 E. rewrite !isolated_stream_is_ingredients in E.
  destruct (ingredients_determined _ _ [] [] S F1 F2) as [R _]; [rewrite !app_nil_r; exact E|exact R].
Qed.

(* without the shape the stream is ambiguous: a template part can be read as a piece *)
Definition amb1 : chunk := mkChunk false [] [([97], 0); ([98], 0)] (Some [mkPiece [99] 0 0]) [] [] [] [] [].
Definition amb2 : chunk := mkChunk false [] [([97], 0)] (Some [mkPiece [98] 0 2; mkPiece [99] 0 0]) [] [] [] [] [].
Lemma isolated_stream_ambiguous_across_shapes :
  isolated_stream [] amb1 = isolated_stream [] amb2 /\ iso_ingredients [] amb1 <> iso_ingredients [] amb2.
Proof. split; [reflexivity|discriminate]. Qed.
