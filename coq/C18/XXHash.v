(* Executable model of /repo/internal/xxhash/xxhash.go (XXH64, seed 0), one
   shot over the whole stream (the Go Digest buffers 32-byte blocks; writing a
   stream in several Write calls equals hashing the concatenation - that
   equality is what the correspondence run checks).  Used to instantiate the
   Section variable H of Hash.v when cases are evaluated; no theorem depends
   on properties of this function.  uint64 arithmetic is Z modulo 2^64. *)
From V Require Import Common.Base.

Definition M64 : Z := 18446744073709551616.
Definition w64 (x : Z) : Z := x mod M64.
Definition prime1 : Z := 11400714785074694791.
Definition prime2 : Z := 14029467366897019727.
Definition prime3 : Z := 1609587929392839161.
Definition prime4 : Z := 9650029242287828579.
Definition prime5 : Z := 2870177450012600261.

Definition rol (x r : Z) : Z := w64 (Z.lor (Z.shiftl x r) (Z.shiftr x (64 - r))).
Definition xround (acc input : Z) : Z := w64 (rol (w64 (acc + input * prime2)) 31 * prime1).
Definition merge_round (acc val : Z) : Z := w64 (w64 (Z.lxor acc (xround 0 val)) * prime1 + prime4).

Fixpoint le_int (b : bytes) : Z :=      (* little-endian integer of a byte list *)
  match b with [] => 0 | x :: r => x + 256 * le_int r end.
Definition u64 (b : bytes) : Z := le_int (firstn 8 b).
Definition u32 (b : bytes) : Z := le_int (firstn 4 b).

Fixpoint blocks (n : nat) (b : bytes) (v : Z * Z * Z * Z) : (Z * Z * Z * Z) * bytes :=
  match n with
  | O => (v, b)
  | S k =>
    let '(v1, v2, v3, v4) := v in
    blocks k (skipn 32 b)
      (xround v1 (u64 b), xround v2 (u64 (skipn 8 b)), xround v3 (u64 (skipn 16 b)), xround v4 (u64 (skipn 24 b)))
  end.

Fixpoint tail8 (n : nat) (b : bytes) (h : Z) : Z * bytes :=
  match n with
  | O => (h, b)
  | S k => tail8 k (skipn 8 b) (w64 (rol (Z.lxor h (xround 0 (u64 b))) 27 * prime1 + prime4))
  end.

Fixpoint tail1 (b : bytes) (h : Z) : Z :=
  match b with
  | [] => h
  | x :: r => tail1 r (w64 (rol (Z.lxor h (w64 (x * prime5))) 11 * prime1))
  end.

Definition sum64 (b : bytes) : Z :=
  let total := Z.of_nat (length b) in
  let '((v1, v2, v3, v4), rest) := blocks (length b / 32) b (w64 (prime1 + prime2), prime2, 0, w64 (- prime1)) in
  let h0 :=
    if 32 <=? total then
      merge_round (merge_round (merge_round (merge_round
        (w64 (rol v1 1 + rol v2 7 + rol v3 12 + rol v4 18)) v1) v2) v3) v4
    else w64 (v3 + prime5) in
  let h1 := w64 (h0 + total) in
  let '(h2, rest2) := tail8 (length rest / 8) rest h1 in
  let '(h3, rest3) :=
    if (4 <=? length rest2)%nat
    then (w64 (rol (Z.lxor h2 (w64 (u32 rest2 * prime1))) 23 * prime2 + prime3), skipn 4 rest2)
    else (h2, rest2) in
  let h4 := tail1 rest3 h3 in
  let h5 := Z.lxor h4 (Z.shiftr h4 33) in
  let h6 := w64 (h5 * prime2) in
  let h7 := Z.lxor h6 (Z.shiftr h6 29) in
  let h8 := w64 (h7 * prime3) in
  Z.lxor h8 (Z.shiftr h8 32).

(* Digest.Sum: big-endian bytes of Sum64 *)
Definition be8 (s : Z) : bytes :=
  [Z.shiftr s 56 mod 256; Z.shiftr s 48 mod 256; Z.shiftr s 40 mod 256; Z.shiftr s 32 mod 256;
   Z.shiftr s 24 mod 256; Z.shiftr s 16 mod 256; Z.shiftr s 8 mod 256; s mod 256].
Definition xxh64 (b : bytes) : bytes := be8 (sum64 b).

(* XXH64("") = ef46db3751d8e999, XXH64("a") = d24ec4f1a98c6e5b *)
Example xxh64_empty : sum64 [] = 17241709254077376921. Proof. vm_compute. reflexivity. Qed.
Example xxh64_a : sum64 [97] = 15154266338359012955. Proof. vm_compute. reflexivity. Qed.
