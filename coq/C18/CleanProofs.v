(* The converse of pieces_lossless: breakOutputIntoPieces finds exactly the keys
   of a CLEAN text (the prefix occurs nowhere but at the keys, overlapping
   occurrences included).  These lemmas were first written in the substitution
   layer of C19 (coq/C19/SubstProofs.v, same statements); they only use the
   shared pieces model, live here so that the C18 check does not depend on the
   JSON layers of C19 / C01, and C19 can import them from here. *)
From V Require Import Common.Base C18.Pieces C18.PiecesProofs.

(* ---- splitting a text whose only occurrences of the prefix are its keys ---- *)

Inductive clean (prefix : bytes) (nf nc : Z) : list piece -> Prop :=
| clean_last d : occurs prefix d = false -> clean prefix nf nc [mkPiece d 0 0]
| clean_cons d k i r :
    is_ref k = true -> 0 <= i < 10 ^ 8 -> (k = 1 -> i < nf) -> (k = 2 -> i < nc) ->
    index_of prefix (d ++ prefix) = Some (length d) ->
    clean prefix nf nc r -> clean prefix nf nc (mkPiece d i k :: r).

Lemma is_prefix_ext p : forall a t, (length p <= length a)%nat -> is_prefix p (a ++ t) = is_prefix p a.
Proof.
  induction p as [|x p IH]; intros a t H; [reflexivity|].
  destruct a as [|y a]; [cbn in H; lia|]. cbn [app is_prefix].
  rewrite IH by (cbn [length] in H; lia). reflexivity.
Qed.

Lemma index_of_clean p t : forall d,
  index_of p (d ++ p) = Some (length d) -> index_of p (d ++ p ++ t) = Some (length d).
Proof.
  induction d as [|x d IH]; intro H.
  - cbn [app length]. rewrite index_of_unfold, is_prefix_app. reflexivity.
  - cbn [app length] in *. rewrite index_of_unfold in H. rewrite index_of_unfold.
    assert (E : is_prefix p (x :: d ++ p ++ t) = is_prefix p (x :: d ++ p)).
    { change (x :: d ++ p ++ t) with ((x :: d) ++ p ++ t). rewrite app_assoc.
      apply is_prefix_ext. cbn [app length]. rewrite app_length. lia. }
    rewrite E. destruct (is_prefix p (x :: d ++ p)); [discriminate|].
    destruct (index_of p (d ++ p)) as [n|] eqn:En; [|discriminate].
    inversion H; subst n. rewrite (IH eq_refl). reflexivity.
Qed.

Lemma break_clean prefix nf nc ps : clean prefix nf nc ps ->
  forall fuel, (length (join_with_keys prefix ps) < fuel)%nat ->
  break_pieces fuel prefix nf nc (join_with_keys prefix ps) = Some ps.
Proof.
  induction 1 as [d Ho|d k i r Hk Hi H1 H2 Hx Hc IH]; intros fuel Hf.
  - cbn [join_with_keys pdata pkind pidx] in *. change (is_ref 0) with false in *. cbv iota in *.
    rewrite !app_nil_r in *. destruct fuel; [lia|]. cbn [break_pieces].
    unfold occurs in Ho. destruct (index_of prefix d); [discriminate|reflexivity].
  - cbn [join_with_keys pdata pkind pidx] in *. rewrite Hk in *.
    destruct fuel; [lia|]. cbn [break_pieces].
    unfold key_bytes in *. rewrite <- app_assoc in *.
    rewrite (index_of_clean prefix _ d Hx).
    assert (Es : skipn (length d + length prefix)
                   (d ++ prefix ++ (byte_of_kind k :: digits_n 8 i) ++ join_with_keys prefix r)
                 = byte_of_kind k :: digits_n 8 i ++ join_with_keys prefix r).
    { rewrite app_assoc. rewrite <- app_length. rewrite skipn_app, skipn_all, Nat.sub_diag. reflexivity. }
    rewrite Es. rewrite parse_key_key by assumption.
    assert (E9 : skipn 9 (byte_of_kind k :: digits_n 8 i ++ join_with_keys prefix r) = join_with_keys prefix r).
    { change (skipn 9 (?x :: ?l)) with (skipn 8 l).
      pose proof (digits_n_length 8 i) as L. rewrite <- L at 1.
      rewrite skipn_app, skipn_all, Nat.sub_diag. reflexivity. }
    rewrite E9. rewrite IH.
    2:{ rewrite !app_length in Hf. cbn [length] in Hf. lia. }
    rewrite firstn_app, firstn_all, Nat.sub_diag. cbn [firstn]. rewrite app_nil_r. reflexivity.
Qed.

