(* Model of escapeFinalPath (/repo/internal/linker/linker.go, fix b608b91):
   the final path substituted for a unique key stands inside a double-quoted
   string of JavaScript / JSON (isCSS = false) or CSS (isCSS = true);
   quotation mark, backslash and control characters are escaped.

     escapeFinalPath               -> escape_final_path
     substituteFinalPaths (paths escaped per output kind)      -> substitute_esc
     accurateFinalByteCount (escaped lengths)                   -> accurate_count_esc

   and an independent reading of such strings (spec side): unescape. *)
From V Require Import Common.Base C18.Pieces.

Definition hexdigit (v : Z) : Z := if v <? 10 then 48 + v else 87 + v.      (* %x: lower case *)

(* fmt "%x" of a byte below 0x20: one or two digits *)
Definition hex_min (c : Z) : bytes :=
  if c <? 16 then [hexdigit c] else [hexdigit (c / 16); hexdigit (c mod 16)].

Definition esc_byte (isCSS : bool) (c : Z) : bytes :=
  if (c =? 34) || (c =? 92) then [92; c]
  else if 32 <=? c then [c]
  else if isCSS then 92 :: hex_min c ++ [32]                              (* "\%x " *)
  else [92; 117; 48; 48; hexdigit (c / 16); hexdigit (c mod 16)].         (* "\u%04x" *)

(* (the Go code returns the path itself when nothing needs escaping: the same bytes) *)
Definition escape_final_path (isCSS : bool) (p : bytes) : bytes := flat_map (esc_byte isCSS) p.

Definition substitute_esc (isCSS : bool) (pathOf : Z -> Z -> bytes) (ps : list piece) : bytes :=
  substitute (fun k i => escape_final_path isCSS (pathOf k i)) ps.
Definition substitute_out_esc (isCSS : bool) (pathOf : Z -> Z -> bytes) (o : option (list piece)) (joiner : bytes) : bytes :=
  substitute_out (fun k i => escape_final_path isCSS (pathOf k i)) o joiner.
Definition accurate_count_esc (isCSS : bool) (pathOf : Z -> Z -> bytes) (ps : list piece) : Z :=
  accurate_count (fun k i => escape_final_path isCSS (pathOf k i)) ps.

(* ---- specification side: the contents of a double-quoted string ----
   JavaScript / JSON (ECMA-262 12.9.4, RFC 8259 section 7): backslash followed
   by quotation mark or backslash, or by u and four hex digits; no bare
   quotation mark, backslash or control character.
   CSS (css-syntax-3 section 4.3.7): backslash followed by a non-hex character,
   or by hex digits ended by one space (read here: one or two digits, which
   is all escapeFinalPath writes). *)
Definition hexval (h : Z) : option Z :=
  if (48 <=? h) && (h <=? 57) then Some (h - 48)
  else if (97 <=? h) && (h <=? 102) then Some (h - 87)
  else if (65 <=? h) && (h <=? 70) then Some (h - 55)
  else None.

Fixpoint unescape (isCSS : bool) (s : bytes) : option bytes :=
  match s with
  | [] => Some []
  | c :: r =>
    if c =? 92 then
      match r with
      | e :: r1 =>
        if (e =? 34) || (e =? 92) then
          match unescape isCSS r1 with Some t => Some (e :: t) | None => None end
        else if isCSS then
          match hexval e, r1 with
          | Some v1, sp :: r2 =>
            if sp =? 32 then match unescape isCSS r2 with Some t => Some (v1 :: t) | None => None end
            else match hexval sp, r2 with
                 | Some v2, sp2 :: r3 =>
                   if sp2 =? 32 then match unescape isCSS r3 with Some t => Some (v1 * 16 + v2 :: t) | None => None end
                   else None
                 | _, _ => None
                 end
          | _, _ => None
          end
        else
          match r1 with
          | h1 :: h2 :: h3 :: h4 :: r5 =>
            if e =? 117 then
              match hexval h1, hexval h2, hexval h3, hexval h4, unescape isCSS r5 with
              | Some a, Some b, Some c', Some d, Some t => Some (((a * 16 + b) * 16 + c') * 16 + d :: t)
              | _, _, _, _, _ => None
              end
            else None
          | _ => None
          end
      | [] => None
      end
    else if (c =? 34) || (c <? 32) then None
    else match unescape isCSS r with Some t => Some (c :: t) | None => None end
  end.
