(* Non-vacuity: concrete non-trivial values meeting each theorem's hypotheses. *)
From V Require Import Common.Base C18.Pieces.

Definition ex_prefix : bytes := [80;81;82;83].          (* "PQRS" *)
Definition ex_key_c1 : bytes := ex_prefix ++ [67;48;48;48;48;48;48;48;49].   (* PQRSC00000001 *)
Definition ex_key_a0 : bytes := ex_prefix ++ [65;48;48;48;48;48;48;48;48].   (* PQRSA00000000 *)
Definition ex_out : bytes := [105;40] ++ ex_key_c1 ++ [41;59;117;40] ++ ex_key_a0 ++ [41].

Example ex_break :
  break_output ex_prefix 1 2 ex_out =
  Some [mkPiece [105;40] 1 2; mkPiece [41;59;117;40] 0 1; mkPiece [41] 0 0].
Proof. vm_compute. reflexivity. Qed.

Example ex_join : join_with_keys ex_prefix [mkPiece [105;40] 1 2; mkPiece [41;59;117;40] 0 1; mkPiece [41] 0 0] = ex_out.
Proof. vm_compute. reflexivity. Qed.

(* an index out of range ends the scan: the later valid key is left in place *)
Example ex_break_stops :
  break_output ex_prefix 0 2 ex_out = Some [mkPiece [105;40] 1 2; mkPiece ([41;59;117;40] ++ ex_key_a0 ++ [41]) 0 0].
Proof. vm_compute. reflexivity. Qed.
