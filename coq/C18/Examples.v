(* Non-vacuity: concrete non-trivial values meeting each theorem's hypotheses. *)
From V Require Import Common.Base C18.Pieces.

Definition ex_prefix : bytes := [80;81;82;83].          (* "PQRS" *)
Definition ex_key_c1 : bytes := ex_prefix ++ [67;48;48;48;48;48;48;48;49].   (* PQRSC00000001 *)
Definition ex_key_a0 : bytes := ex_prefix ++ [65;48;48;48;48;48;48;48;48].   (* PQRSA00000000 *)
Definition ex_out : bytes := [105;40] ++ ex_key_c1 ++ [41;59;117;40] ++ ex_key_a0 ++ [41].

Example ex_break :
  break_output ex_prefix 1 2 ex_out =
  Some [mkPiece [105;40] 1 2; mkPiece [41;59;117;40] 0 1; mkPiece [41] 0 0].
Proof. vm_compute. reflexivity. Qed.

Example ex_join : join_with_keys ex_prefix [mkPiece [105;40] 1 2; mkPiece [41;59;117;40] 0 1; mkPiece [41] 0 0] = ex_out.
Proof. vm_compute. reflexivity. Qed.

(* an index out of range ends the scan: the later valid key is left in place *)
Example ex_break_stops :
  break_output ex_prefix 0 2 ex_out = Some [mkPiece [105;40] 1 2; mkPiece ([41;59;117;40] ++ ex_key_a0 ++ [41]) 0 0].
Proof. vm_compute. reflexivity. Qed.

From V Require Import C18.Hash C18.HashProofs C18.XXHash C18.NameProofs.

(* a cyclic import graph with a self loop and a duplicate edge: 0 -> 1,2 ; 1 -> 0,1 ; 2 -> 1,1 ; 3 isolated *)
Definition ex_leaf (imps : list nat) (body : bytes) : chunk := mkChunk true [] [([97], 3)] None body [] [] [] imps.
Definition ex_graph : list chunk := [ex_leaf [1;2]%nat [1]; ex_leaf [0;1]%nat [2]; ex_leaf [1;1]%nat [3]; ex_leaf [] [4]].

Example ex_wf : wf_graph ex_graph.
Proof.
  intros i c E j Hj. cbn [length ex_graph].
  destruct i as [|[|[|[|i]]]]; cbn in E.
  - inversion E as [Ec]. rewrite <- Ec in Hj. cbn in Hj. repeat (destruct Hj as [Hj|Hj]; [lia|]). destruct Hj.
  - inversion E as [Ec]. rewrite <- Ec in Hj. cbn in Hj. repeat (destruct Hj as [Hj|Hj]; [lia|]). destruct Hj.
  - inversion E as [Ec]. rewrite <- Ec in Hj. cbn in Hj. repeat (destruct Hj as [Hj|Hj]; [lia|]). destruct Hj.
  - inversion E as [Ec]. rewrite <- Ec in Hj. cbn in Hj. destruct Hj.
  - destruct i; discriminate.
Qed.

(* imports are written before the importer, every reachable chunk once, chunk 3 never *)
Example ex_order0 : final_order ex_graph 0 = Some [1; 2; 0]%nat. Proof. vm_compute. reflexivity. Qed.
Example ex_order1 : final_order ex_graph 1 = Some [2; 0; 1]%nat. Proof. vm_compute. reflexivity. Qed.

(* the shared visited array of the real loop gives the same streams as fresh traversals *)
Example ex_loop :
  final_streams xxh64 [] (fun _ => []) ex_graph =
  Some (map (fun i => final_stream xxh64 [] (fun _ => []) ex_graph i) [0;1;2;3]%nat).
Proof. vm_compute. reflexivity. Qed.

(* length prefixes: "a"+"bc" and "ab"+"c" are written differently *)
Example ex_lenpref : concat (map lenpref [[97]; [98; 99]]) <> concat (map lenpref [[97; 98]; [99]]).
Proof. vm_compute. discriminate. Qed.
Example ex_fits : Forall fits32 [[97]; [98; 99]]. Proof. repeat constructor; unfold fits32; cbn; lia. Qed.

(* final_name_changes_with_dependency: editing the body of chunk 2 (reachable from 0 through the cycle) *)
Definition ex_graph' : list chunk := [ex_leaf [1;2]%nat [1]; ex_leaf [0;1]%nat [2]; ex_leaf [1;1]%nat [33]; ex_leaf [] [4]].
Example ex_same_imports : map c_imports ex_graph = map c_imports ex_graph'. Proof. reflexivity. Qed.
Example ex_reach : reach ex_graph 0%nat 2%nat.
Proof. eapply reach_step; [apply reach_refl|]. exists (ex_leaf [1;2]%nat [1]). split; [reflexivity|right; left; reflexivity]. Qed.
Example ex_iso_differs :
  isolated_stream [] (ex_leaf [1;1]%nat [3]) <> isolated_stream [] (ex_leaf [1;1]%nat [33]).
Proof. vm_compute. discriminate. Qed.
Example ex_final_differs :
  final_stream xxh64 [] (fun _ => []) ex_graph 0 <> final_stream xxh64 [] (fun _ => []) ex_graph' 0.
Proof. vm_compute. discriminate. Qed.

(* the refutation witness, spelled out *)
Example ex_wit_name : name_of xxh64 (wit_build 1 2) 0 = name_of xxh64 (wit_build 2 1) 0. Proof. vm_compute. reflexivity. Qed.
Example ex_wit_bytes : bytes_of xxh64 (wit_build 1 2) 0 <> bytes_of xxh64 (wit_build 2 1) 0. Proof. vm_compute. discriminate. Qed.

(* ---- deepening round ---- *)
From V Require Import C18.Ingredients C18.DeepProofs C18.CleanProofs.

(* a clean text: two keys, the data before the second key ends with a proper beginning of the prefix *)
Example ex_clean : clean ex_prefix 1 2 [mkPiece [105;40] 1 2; mkPiece [41;59;80;81;117;40] 0 1; mkPiece [41] 0 0].
Proof.
  apply clean_cons; [reflexivity|lia|intro; lia|intro; lia|vm_compute; reflexivity|].
  apply clean_cons; [reflexivity|lia|intro; lia|intro; lia|vm_compute; reflexivity|].
  apply clean_last. vm_compute. reflexivity.
Qed.
(* not clean: a self-overlapping prefix completed by the text right before the key (thorough seed 1) *)
Example ex_not_clean_overlap : index_of [97;98;97] ([120;97;98] ++ [97;98;97]) <> Some 3%nat.
Proof. vm_compute. discriminate. Qed.

(* ingredients of a JavaScript chunk with a part in the "file" namespace, pieces and a source map *)
Definition ex_chunk : chunk :=
  mkChunk true [mkPart ns_file [47;97] [115;114;99;47;97] 0 3] [([97;45], 3); ([46;106;115], 0)]
    (Some [mkPiece [105;40] 1 2; mkPiece [41] 0 0]) [] [123] [65;65] [125] [1%nat].
Example ex_ingredients :
  iso_ingredients [47] ex_chunk =
  [ILen 1 ns_file; ILen 2 [115;114;99;47;97]; IU32 3 0; IU32 4 3; ILen 5 [97;45]; ILen 5 [46;106;115];
   ILen 6 [47]; ILen 7 [105;40]; ILen 7 [41]; ILen 9 [123]; ILen 10 [65;65]; ILen 11 [125]].
Proof. reflexivity. Qed.
Example ex_ing_ok : Forall ing_ok (iso_ingredients [47] ex_chunk).
Proof. repeat constructor; cbn; unfold fits32; cbn; lia. Qed.
(* an edit of the source-map mappings only: same shape, different ingredient, different stream *)
Definition ex_chunk' : chunk :=
  mkChunk true [mkPart ns_file [47;97] [115;114;99;47;97] 0 3] [([97;45], 3); ([46;106;115], 0)]
    (Some [mkPiece [105;40] 1 2; mkPiece [41] 0 0]) [] [123] [65;67] [125] [1%nat].
Example ex_same_shape : map ishape (iso_ingredients [47] ex_chunk) = map ishape (iso_ingredients [47] ex_chunk').
Proof. reflexivity. Qed.
Example ex_stream_differs : isolated_stream [47] ex_chunk <> isolated_stream [47] ex_chunk'.
Proof. vm_compute. discriminate. Qed.

(* chunks 0 and 1 of ex_graph lie on a cycle (0 -> 1 -> 0): each final hash input contains the other's hash *)
Example ex_cycle : reach ex_graph 0%nat 1%nat /\ reach ex_graph 1%nat 0%nat.
Proof.
  split; (eapply reach_step; [apply reach_refl|]).
  - exists (ex_leaf [1;2]%nat [1]). split; [reflexivity|left; reflexivity].
  - exists (ex_leaf [0;1]%nat [2]). split; [reflexivity|left; reflexivity].
Qed.

(* ---- escapeFinalPath ---- *)
From V Require Import C18.Escape.
(* the name dot slash d, quotation mark, q, newline, backslash, -H.js in JavaScript and in CSS *)
Definition ex_name : bytes := [46;47;100;34;113;10;92;45;72;46;106;115].
Example ex_escape_js : escape_final_path false ex_name = [46;47;100;92;34;113;92;117;48;48;48;97;92;92;45;72;46;106;115].
Proof. reflexivity. Qed.
Example ex_escape_css : escape_final_path true ex_name = [46;47;100;92;34;113;92;97;32;92;92;45;72;46;106;115].
Proof. reflexivity. Qed.
Example ex_unescape_js : unescape false (escape_final_path false ex_name) = Some ex_name. Proof. reflexivity. Qed.
Example ex_unescape_css : unescape true (escape_final_path true ex_name) = Some ex_name. Proof. reflexivity. Qed.
Example ex_raw_rejected : unescape false ex_name = None. Proof. reflexivity. Qed.
Example ex_name_bytes : Forall (fun c => 0 <= c < 256) ex_name. Proof. repeat constructor; lia. Qed.

(* ---- round 2: paths ---- *)
From V Require Import C17.WriteSM C17.PathModel C18.Paths C18.PathsProofs C18.SurviveProofs.
(* importer chunks/a-H.js, imported deep/er/z-H.js : ../deep/er/z-H.js *)
Definition ex_from : bytes := [99;104;117;110;107;115;47;97;45;72;46;106;115].
Definition ex_to : bytes := [100;101;101;112;47;101;114;47;122;45;72;46;106;115].
Example ex_dir : fs_dir ex_from = [99;104;117;110;107;115]. Proof. reflexivity. Qed.
Example ex_between : path_between [] (fs_dir ex_from) ex_to = [46;46;47] ++ ex_to. Proof. reflexivity. Qed.
Example ex_resolves : fs_join (fs_dir ex_from) (path_between [] (fs_dir ex_from) ex_to) = clean ex_to. Proof. reflexivity. Qed.
Ltac plain_tac := repeat split; try discriminate; repeat constructor; unfold SL; lia.
Example ex_plain_dir : Forall plain (clean_segs (fs_dir ex_from)).
Proof. vm_compute. constructor; [plain_tac|constructor]. Qed.
Example ex_plain_to : Forall plain (clean_segs ex_to).
Proof. vm_compute. repeat (constructor; [plain_tac|]). constructor. Qed.
Example ex_public : path_between [104;116;116;112;115;58;47;47;99;47;98] (fs_dir ex_from) ex_to =
  [104;116;116;112;115;58;47;47;99;47;98] ++ [47] ++ ex_to. Proof. reflexivity. Qed.

(* windows around the substituted path are free of the prefix *)
Example ex_windows : windows_free ex_prefix (fun _ _ => [46;47;120;46;106;115])
  [mkPiece [105;40] 1 2; mkPiece [41] 0 0].
Proof.
  constructor; [apply occ_free_occurs; [discriminate|reflexivity]|].
  constructor; [apply occ_free_occurs; [discriminate|reflexivity]|constructor].
Qed.
