(* Non-vacuity: concrete non-trivial values meeting each theorem's hypotheses. *)
From V Require Import Common.Base C18.Pieces.

Definition ex_prefix : bytes := [80;81;82;83].          (* "PQRS" *)
Definition ex_key_c1 : bytes := ex_prefix ++ [67;48;48;48;48;48;48;48;49].   (* PQRSC00000001 *)
Definition ex_key_a0 : bytes := ex_prefix ++ [65;48;48;48;48;48;48;48;48].   (* PQRSA00000000 *)
Definition ex_out : bytes := [105;40] ++ ex_key_c1 ++ [41;59;117;40] ++ ex_key_a0 ++ [41].

Example ex_break :
  break_output ex_prefix 1 2 ex_out =
  Some [mkPiece [105;40] 1 2; mkPiece [41;59;117;40] 0 1; mkPiece [41] 0 0].
Proof. vm_compute. reflexivity. Qed.

Example ex_join : join_with_keys ex_prefix [mkPiece [105;40] 1 2; mkPiece [41;59;117;40] 0 1; mkPiece [41] 0 0] = ex_out.
Proof. vm_compute. reflexivity. Qed.

(* an index out of range ends the scan: the later valid key is left in place *)
Example ex_break_stops :
  break_output ex_prefix 0 2 ex_out = Some [mkPiece [105;40] 1 2; mkPiece ([41;59;117;40] ++ ex_key_a0 ++ [41]) 0 0].
Proof. vm_compute. reflexivity. Qed.

From V Require Import C18.Hash C18.HashProofs C18.XXHash C18.NameProofs.

(* a cyclic import graph with a self loop and a duplicate edge: 0 -> 1,2 ; 1 -> 0,1 ; 2 -> 1,1 ; 3 isolated *)
Definition ex_leaf (imps : list nat) (body : bytes) : chunk := mkChunk true [] [([97], 3)] None body [] [] [] imps.
Definition ex_graph : list chunk := [ex_leaf [1;2]%nat [1]; ex_leaf [0;1]%nat [2]; ex_leaf [1;1]%nat [3]; ex_leaf [] [4]].

Example ex_wf : wf_graph ex_graph.
Proof.
  intros i c E j Hj. cbn [length ex_graph].
  destruct i as [|[|[|[|i]]]]; cbn in E.
  - inversion E as [Ec]. rewrite <- Ec in Hj. cbn in Hj. repeat (destruct Hj as [Hj|Hj]; [lia|]). destruct Hj.
  - inversion E as [Ec]. rewrite <- Ec in Hj. cbn in Hj. repeat (destruct Hj as [Hj|Hj]; [lia|]). destruct Hj.
  - inversion E as [Ec]. rewrite <- Ec in Hj. cbn in Hj. repeat (destruct Hj as [Hj|Hj]; [lia|]). destruct Hj.
  - inversion E as [Ec]. rewrite <- Ec in Hj. cbn in Hj. destruct Hj.
  - destruct i; discriminate.
Qed.

(* imports are written before the importer, every reachable chunk once, chunk 3 never *)
Example ex_order0 : final_order ex_graph 0 = Some [1; 2; 0]%nat. Proof. vm_compute. reflexivity. Qed.
Example ex_order1 : final_order ex_graph 1 = Some [2; 0; 1]%nat. Proof. vm_compute. reflexivity. Qed.

(* the shared visited array of the real loop gives the same streams as fresh traversals *)
Example ex_loop :
  final_streams xxh64 [] (fun _ => []) ex_graph =
  Some (map (fun i => final_stream xxh64 [] (fun _ => []) ex_graph i) [0;1;2;3]%nat).
Proof. vm_compute. reflexivity. Qed.

(* length prefixes: "a"+"bc" and "ab"+"c" are written differently *)
Example ex_lenpref : concat (map lenpref [[97]; [98; 99]]) <> concat (map lenpref [[97; 98]; [99]]).
Proof. vm_compute. discriminate. Qed.
Example ex_fits : Forall fits32 [[97]; [98; 99]]. Proof. repeat constructor; unfold fits32; cbn; lia. Qed.

(* final_name_changes_with_dependency: editing the body of chunk 2 (reachable from 0 through the cycle) *)
Definition ex_graph' : list chunk := [ex_leaf [1;2]%nat [1]; ex_leaf [0;1]%nat [2]; ex_leaf [1;1]%nat [33]; ex_leaf [] [4]].
Example ex_same_imports : map c_imports ex_graph = map c_imports ex_graph'. Proof. reflexivity. Qed.
Example ex_reach : reach ex_graph 0%nat 2%nat.
Proof. eapply reach_step; [apply reach_refl|]. exists (ex_leaf [1;2]%nat [1]). split; [reflexivity|right; left; reflexivity]. Qed.
Example ex_iso_differs :
  isolated_stream [] (ex_leaf [1;1]%nat [3]) <> isolated_stream [] (ex_leaf [1;1]%nat [33]).
Proof. vm_compute. discriminate. Qed.
Example ex_final_differs :
  final_stream xxh64 [] (fun _ => []) ex_graph 0 <> final_stream xxh64 [] (fun _ => []) ex_graph' 0.
Proof. vm_compute. discriminate. Qed.

(* the refutation witness, spelled out *)
Example ex_wit_name : name_of xxh64 (wit_build 1 2) 0 = name_of xxh64 (wit_build 2 1) 0. Proof. vm_compute. reflexivity. Qed.
Example ex_wit_bytes : bytes_of xxh64 (wit_build 1 2) 0 <> bytes_of xxh64 (wit_build 2 1) 0. Proof. vm_compute. discriminate. Qed.
