(* C18 property theorems. This file contains only statements closed by
   [exact lemma] and Print Assumptions. *)
From V Require Import Common.Base C18.Pieces C18.PiecesProofs C18.Hash C18.HashProofs C18.XXHash C18.NameProofs C18.LoopProofs.

(* breakOutputIntoPieces terminates on every output (the model's fuel always
   suffices) and re-inserting the unique keys into the pieces gives back
   exactly the intermediate output: the split loses and invents nothing. *)
Theorem pieces_lossless : forall prefix nf nc out,
  exists ps, break_output prefix nf nc out = Some ps /\ join_with_keys prefix ps = out.
Proof. exact break_total_lossless. Qed.
Print Assumptions pieces_lossless.

(* After substitution no occurrence of the unique-key prefix lies inside a data
   piece other than the last: every key the scan reached has been replaced by a
   path (an occurrence can only overlap bytes of a substituted path, or lie in
   the last piece - see last_piece_only_malformed). *)
Theorem no_placeholder_survives : forall prefix nf nc out ps pathOf,
  prefix <> [] -> break_output prefix nf nc out = Some ps ->
  forall pre p rest, ps = pre ++ p :: rest -> rest <> [] ->
  forall k, (length (substitute pathOf pre) <= k)%nat ->
    (k + length prefix <= length (substitute pathOf pre) + length (pdata p))%nat ->
    is_prefix prefix (skipn k (substitute pathOf ps)) = false.
Proof. exact no_placeholder_survives_all. Qed.
Print Assumptions no_placeholder_survives.

(* The last piece is free of the prefix unless the text itself contained the
   prefix followed by something that is not a valid key (wrong letter, a
   non-digit, index out of range, truncated): then the scan stops there and
   everything after it - including later valid keys - is left as it is. *)
Theorem last_piece_only_malformed : forall prefix nf nc out ps,
  break_output prefix nf nc out = Some ps ->
  exists d, last ps (mkPiece [] 0 0) = mkPiece d 0 0 /\
    (occurs prefix d = false \/
     exists b, index_of prefix d = Some b /\ parse_key nf nc (skipn (b + length prefix) d) = None).
Proof. exact last_piece_all. Qed.
Print Assumptions last_piece_only_malformed.

(* Every reference piece denotes a file (asset) or chunk index of this build;
   its data is free of the prefix; the last piece is not a reference. *)
Theorem references_resolve : forall prefix nf nc out ps,
  prefix <> [] -> break_output prefix nf nc out = Some ps ->
  Forall (fun p => occurs prefix (pdata p) = false /\ is_ref (pkind p) = true /\
                   0 <= pidx p /\ (pkind p = 1 -> pidx p < nf) /\ (pkind p = 2 -> pidx p < nc)) (removelast ps)
  /\ pkind (last ps (mkPiece [] 0 0)) = 0.
Proof. exact references_resolve_all. Qed.
Print Assumptions references_resolve.

(* appendIsolatedHashesForImportedChunks from a fresh visited array terminates
   on every import graph (cycles, self loops, duplicates) and writes the item
   of each chunk reachable from the root exactly once, and of no other chunk. *)
Theorem dfs_visits_reachable_once : forall chunks root,
  wf_graph chunks -> (root < length chunks)%nat -> Z.of_nat (length chunks) < 4294967296 ->
  exists o, final_order chunks root = Some o /\ NoDup o /\ (forall x, In x o <-> reach chunks root x).
Proof. exact dfs_visits_reachable_once_all. Qed.
Print Assumptions dfs_visits_reachable_once.

(* The real loop shares ONE visited array between all roots and tells them
   apart by the stamp ^uint32(chunkIndex): for fewer than 2^32 chunks that is
   the same as a fresh traversal per root (chunks without [hash] are skipped). *)
Theorem shared_visited_array_is_transparent : forall (H : bytes -> bytes) public asset_rel chunks,
  wf_graph chunks -> Z.of_nat (length chunks) < 4294967296 ->
  final_streams H public asset_rel chunks =
  Some (map (expected H public asset_rel chunks) (seq 0 (length chunks))).
Proof. exact final_streams_fresh. Qed.
Print Assumptions shared_visited_array_is_transparent.

(* hashWriteLengthPrefixed: the stream written for a list of items (each
   shorter than 2^32) determines the list - boundaries matter. *)
Theorem length_prefix_unambiguous : forall l1 l2, Forall fits32 l1 -> Forall fits32 l2 ->
  concat (map lenpref l1) = concat (map lenpref l2) -> l1 = l2.
Proof. exact lenpref_concat_inj. Qed.
Print Assumptions length_prefix_unambiguous.

(* Two builds with the same import graph: if the isolated hash input of a chunk
   x reachable from the root differs (and H does not collide on these two
   inputs, and outputs of H have one length), the root's final hash input differs. *)
Theorem final_name_changes_with_dependency : forall (H : bytes -> bytes) public ar1 ar2 cs1 cs2 root x,
  map c_imports cs1 = map c_imports cs2 ->
  wf_graph cs1 -> (root < length cs1)%nat -> Z.of_nat (length cs1) < 4294967296 ->
  (forall a b, length (H a) = length (H b)) ->
  (forall i c1 c2, nth_error cs1 i = Some c1 -> nth_error cs2 i = Some c2 ->
     length (assets_stream ar1 c1) = length (assets_stream ar2 c2)) ->
  reach cs1 root x ->
  (forall c1 c2, nth_error cs1 x = Some c1 -> nth_error cs2 x = Some c2 ->
     assets_stream ar1 c1 = assets_stream ar2 c2 /\
     isolated_stream public c1 <> isolated_stream public c2 /\
     (H (isolated_stream public c1) = H (isolated_stream public c2) ->
      isolated_stream public c1 = isolated_stream public c2)) ->
  exists s1 s2, final_stream H public ar1 cs1 root = Some s1 /\
                final_stream H public ar2 cs2 root = Some s2 /\ s1 <> s2.
Proof. exact final_stream_changes. Qed.
Print Assumptions final_name_changes_with_dependency.

(* same_name_same_bytes (equal final name => equal final bytes) is FALSE of the
   faithful model: with H := xxhash, two builds give chunk 0 the same name and
   different bytes (the two dynamic imports swapped; DESIGN section 7-E). *)
Theorem same_name_same_bytes_refuted :
  exists cs1 cs2 i nm b1 b2,
    name_of xxh64 cs1 i = Some nm /\ name_of xxh64 cs2 i = Some nm /\
    bytes_of xxh64 cs1 i = Some b1 /\ bytes_of xxh64 cs2 i = Some b2 /\ b1 <> b2.
Proof. exact same_name_same_bytes_refuted_xx. Qed.
Print Assumptions same_name_same_bytes_refuted.

(* ... and not because of xxhash: for EVERY hash function the two builds hash
   the very same stream for that chunk. *)
Theorem same_name_same_bytes_refuted_any_hash : forall H : bytes -> bytes,
  final_stream H [] (fun _ => []) (wit_build 1 2) 0 = final_stream H [] (fun _ => []) (wit_build 2 1) 0
  /\ final_stream H [] (fun _ => []) (wit_build 1 2) 0 <> None.
Proof. exact same_stream_different_refs. Qed.
Print Assumptions same_name_same_bytes_refuted_any_hash.

(* What does hold: equal hashed piece data gives equal final bytes PROVIDED the
   path substituted at each position is the same in both builds; the hash
   covers the data and the set of imported chunks, not the positions. *)
Theorem same_name_same_bytes_partial : forall pathOf1 pathOf2 ps1 ps2,
  Forall (fun p => fits32 (pdata p)) ps1 -> Forall (fun p => fits32 (pdata p)) ps2 ->
  concat (map (fun p => lenpref (pdata p)) ps1) = concat (map (fun p => lenpref (pdata p)) ps2) ->
  map (ref_path pathOf1) ps1 = map (ref_path pathOf2) ps2 ->
  substitute pathOf1 ps1 = substitute pathOf2 ps2.
Proof. exact same_bytes_partial. Qed.
Print Assumptions same_name_same_bytes_partial.
