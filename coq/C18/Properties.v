(* C18 property theorems. This file contains only statements closed by
   [exact lemma] and Print Assumptions. *)
From V Require Import Common.Base C18.Pieces C18.PiecesProofs C18.Hash C18.HashProofs C18.XXHash C18.NameProofs C18.LoopProofs C18.Ingredients C18.DeepProofs C18.Inventory C18.Escape C18.EscapeProofs C18.CleanProofs C18.SurviveProofs C18.Paths C18.PathsProofs C18.ResolveProofs.
From V Require Import C17.WriteSM C17.PathModel.
From V Require gen.HashInventoryGen.

(* breakOutputIntoPieces terminates on every output (the model's fuel always
   suffices) and re-inserting the unique keys into the pieces gives back
   exactly the intermediate output: the split loses and invents nothing. *)
Theorem pieces_lossless : forall prefix nf nc out,
  exists ps, break_output prefix nf nc out = Some ps /\ join_with_keys prefix ps = out.
Proof. exact break_total_lossless. Qed.
Print Assumptions pieces_lossless.

(* After substitution no occurrence of the unique-key prefix lies inside a data
   piece other than the last: every key the scan reached has been replaced by a
   path (an occurrence can only overlap bytes of a substituted path, or lie in
   the last piece - see last_piece_only_malformed). *)
Theorem no_placeholder_survives : forall prefix nf nc out ps pathOf,
  prefix <> [] -> break_output prefix nf nc out = Some ps ->
  forall pre p rest, ps = pre ++ p :: rest -> rest <> [] ->
  forall k, (length (substitute pathOf pre) <= k)%nat ->
    (k + length prefix <= length (substitute pathOf pre) + length (pdata p))%nat ->
    is_prefix prefix (skipn k (substitute pathOf ps)) = false.
Proof. exact no_placeholder_survives_all. Qed.
Print Assumptions no_placeholder_survives.

(* The last piece is free of the prefix unless the text itself contained the
   prefix followed by something that is not a valid key (wrong letter, a
   non-digit, index out of range, truncated): then the scan stops there and
   everything after it - including later valid keys - is left as it is. *)
Theorem last_piece_only_malformed : forall prefix nf nc out ps,
  break_output prefix nf nc out = Some ps ->
  exists d, last ps (mkPiece [] 0 0) = mkPiece d 0 0 /\
    (occurs prefix d = false \/
     exists b, index_of prefix d = Some b /\ parse_key nf nc (skipn (b + length prefix) d) = None).
Proof. exact last_piece_all. Qed.
Print Assumptions last_piece_only_malformed.

(* Every reference piece denotes a file (asset) or chunk index of this build;
   its data is free of the prefix; the last piece is not a reference. *)
Theorem references_resolve : forall prefix nf nc out ps,
  prefix <> [] -> break_output prefix nf nc out = Some ps ->
  Forall (fun p => occurs prefix (pdata p) = false /\ is_ref (pkind p) = true /\
                   0 <= pidx p /\ (pkind p = 1 -> pidx p < nf) /\ (pkind p = 2 -> pidx p < nc)) (removelast ps)
  /\ pkind (last ps (mkPiece [] 0 0)) = 0.
Proof. exact references_resolve_all. Qed.
Print Assumptions references_resolve.

(* appendIsolatedHashesForImportedChunks from a fresh visited array terminates
   on every import graph (cycles, self loops, duplicates) and writes the item
   of each chunk reachable from the root exactly once, and of no other chunk. *)
Theorem dfs_visits_reachable_once : forall chunks root,
  wf_graph chunks -> (root < length chunks)%nat -> Z.of_nat (length chunks) < 4294967296 ->
  exists o, final_order chunks root = Some o /\ NoDup o /\ (forall x, In x o <-> reach chunks root x).
Proof. exact dfs_visits_reachable_once_all. Qed.
Print Assumptions dfs_visits_reachable_once.

(* The real loop shares ONE visited array between all roots and tells them
   apart by the stamp ^uint32(chunkIndex): for fewer than 2^32 chunks that is
   the same as a fresh traversal per root (chunks without [hash] are skipped). *)
Theorem shared_visited_array_is_transparent : forall (H : bytes -> bytes) public asset_rel chunks,
  wf_graph chunks -> Z.of_nat (length chunks) < 4294967296 ->
  final_streams H public asset_rel chunks =
  Some (map (expected H public asset_rel chunks) (seq 0 (length chunks))).
Proof. exact final_streams_fresh. Qed.
Print Assumptions shared_visited_array_is_transparent.

(* hashWriteLengthPrefixed: the stream written for a list of items (each
   shorter than 2^32) determines the list - boundaries matter. *)
Theorem length_prefix_unambiguous : forall l1 l2, Forall fits32 l1 -> Forall fits32 l2 ->
  concat (map lenpref l1) = concat (map lenpref l2) -> l1 = l2.
Proof. exact lenpref_concat_inj. Qed.
Print Assumptions length_prefix_unambiguous.

(* Two builds with the same import graph: if the isolated hash input of a chunk
   x reachable from the root differs (and H does not collide on these two
   inputs, and outputs of H have one length), the root's final hash input differs. *)
Theorem final_name_changes_with_dependency : forall (H : bytes -> bytes) public ar1 ar2 cs1 cs2 root x,
  map c_imports cs1 = map c_imports cs2 ->
  wf_graph cs1 -> (root < length cs1)%nat -> Z.of_nat (length cs1) < 4294967296 ->
  (forall a b, length (H a) = length (H b)) ->
  (forall i c1 c2, nth_error cs1 i = Some c1 -> nth_error cs2 i = Some c2 ->
     length (assets_stream ar1 c1) = length (assets_stream ar2 c2)) ->
  reach cs1 root x ->
  (forall c1 c2, nth_error cs1 x = Some c1 -> nth_error cs2 x = Some c2 ->
     assets_stream ar1 c1 = assets_stream ar2 c2 /\
     isolated_stream public c1 <> isolated_stream public c2 /\
     (H (isolated_stream public c1) = H (isolated_stream public c2) ->
      isolated_stream public c1 = isolated_stream public c2)) ->
  exists s1 s2, final_stream H public ar1 cs1 root = Some s1 /\
                final_stream H public ar2 cs2 root = Some s2 /\ s1 <> s2.
Proof. exact final_stream_changes. Qed.
Print Assumptions final_name_changes_with_dependency.

(* same_name_same_bytes (equal final name => equal final bytes) is FALSE of the
   faithful model: with H := xxhash, two builds give chunk 0 the same name and
   different bytes (the two dynamic imports swapped; DESIGN section 7-E). *)
Theorem same_name_same_bytes_refuted :
  exists cs1 cs2 i nm b1 b2,
    name_of xxh64 cs1 i = Some nm /\ name_of xxh64 cs2 i = Some nm /\
    bytes_of xxh64 cs1 i = Some b1 /\ bytes_of xxh64 cs2 i = Some b2 /\ b1 <> b2.
Proof. exact same_name_same_bytes_refuted_xx. Qed.
Print Assumptions same_name_same_bytes_refuted.

(* ... and not because of xxhash: for EVERY hash function the two builds hash
   the very same stream for that chunk. *)
Theorem same_name_same_bytes_refuted_any_hash : forall H : bytes -> bytes,
  final_stream H [] (fun _ => []) (wit_build 1 2) 0 = final_stream H [] (fun _ => []) (wit_build 2 1) 0
  /\ final_stream H [] (fun _ => []) (wit_build 1 2) 0 <> None.
Proof. exact same_stream_different_refs. Qed.
Print Assumptions same_name_same_bytes_refuted_any_hash.

(* What does hold: equal hashed piece data gives equal final bytes PROVIDED the
   path substituted at each position is the same in both builds; the hash
   covers the data and the set of imported chunks, not the positions. *)
Theorem same_name_same_bytes_partial : forall pathOf1 pathOf2 ps1 ps2,
  Forall (fun p => fits32 (pdata p)) ps1 -> Forall (fun p => fits32 (pdata p)) ps2 ->
  concat (map (fun p => lenpref (pdata p)) ps1) = concat (map (fun p => lenpref (pdata p)) ps2) ->
  map (ref_path pathOf1) ps1 = map (ref_path pathOf2) ps2 ->
  substitute pathOf1 ps1 = substitute pathOf2 ps2.
Proof. exact same_bytes_partial. Qed.
Print Assumptions same_name_same_bytes_partial.

(* ---------------- deepening round ---------------- *)

(* breakOutputIntoPieces finds exactly the keys of a CLEAN text (the prefix
   occurs nowhere but at the keys, overlaps included: the first occurrence in
   data ++ prefix is at the end of data) - the converse of pieces_lossless,
   proved in C18/CleanProofs.v (same statements as in C19/SubstProofs.v, where they were first written). *)
Theorem clean_text_is_split_at_its_keys : forall prefix nf nc ps,
  CleanProofs.clean prefix nf nc ps -> break_output prefix nf nc (join_with_keys prefix ps) = Some ps.
Proof. exact (fun prefix nf nc ps Hc => break_clean prefix nf nc ps Hc _ (Nat.lt_succ_diag_r _)). Qed.
Print Assumptions clean_text_is_split_at_its_keys.

(* What exactly goes into the isolated hash: the stream the model hashes is the
   encoding of the ingredient list (namespace, path, part range of every part;
   template parts; public path; every piece's data or the whole output; the
   three source-map pieces) ... *)
Theorem isolated_stream_is_its_ingredients : forall public c,
  isolated_stream public c = encode_all (iso_ingredients public c).
Proof. exact isolated_stream_is_ingredients. Qed.
Print Assumptions isolated_stream_is_its_ingredients.

(* ... and that list, with its guards, is what the source writes into the hasher
   today (regenerated by the translator c18hashinv on every run; a write that
   is dropped, added, reordered or put under a new condition breaks this). *)
Theorem hash_inventory_is_the_modelled_one :
  HashInventoryGen.iso_writes = map snd iso_expected /\
  HashInventoryGen.final_writes = final_expected /\
  HashInventoryGen.loop_calls = loop_expected /\
  HashInventoryGen.helper_bodies = helpers_expected.
Proof. exact inventory_matches. Qed.
Print Assumptions hash_inventory_is_the_modelled_one.

(* same_name_same_ingredients (widens same_name_same_bytes_partial): two builds
   - any graphs, any options - that give a chunk the same [hash] hash the same
   ingredients for it, field by field.  Visible hypotheses: H has one output
   length; the truncated final hash and the isolated hash do not collide on the
   two streams at hand; same shape; sizes below 2^32. *)
Theorem same_name_same_ingredients : forall (H : bytes -> bytes),
  (forall a b, length (H a) = length (H b)) ->
  forall public1 public2 ar1 ar2 cs1 cs2 r1 r2 c1 c2 s1 s2,
  (r1 < length cs1)%nat -> (r2 < length cs2)%nat ->
  Z.of_nat (length cs1) < 4294967296 -> Z.of_nat (length cs2) < 4294967296 ->
  nth_error cs1 r1 = Some c1 -> nth_error cs2 r2 = Some c2 ->
  final_stream H public1 ar1 cs1 r1 = Some s1 -> final_stream H public2 ar2 cs2 r2 = Some s2 ->
  hash_for_file_name (H s1) = hash_for_file_name (H s2) ->
  (hash_for_file_name (H s1) = hash_for_file_name (H s2) -> s1 = s2) ->
  (H (isolated_stream public1 c1) = H (isolated_stream public2 c2) ->
   isolated_stream public1 c1 = isolated_stream public2 c2) ->
  map ishape (iso_ingredients public1 c1) = map ishape (iso_ingredients public2 c2) ->
  Forall ing_ok (iso_ingredients public1 c1) -> Forall ing_ok (iso_ingredients public2 c2) ->
  iso_ingredients public1 c1 = iso_ingredients public2 c2.
Proof. exact same_name_same_own_ingredients. Qed.
Print Assumptions same_name_same_ingredients.

(* the shape hypothesis cannot be dropped: the stream does not say where the
   template parts end and the pieces begin *)
Theorem same_stream_same_ingredients_without_shape_refuted :
  isolated_stream [] amb1 = isolated_stream [] amb2 /\ iso_ingredients [] amb1 <> iso_ingredients [] amb2.
Proof. exact isolated_stream_ambiguous_across_shapes. Qed.
Print Assumptions same_stream_same_ingredients_without_shape_refuted.

(* with the same import graph and asset references: the same final hash input
   means the same asset paths and the same isolated hash for every chunk
   reachable from the root (the converse of final_name_changes_with_dependency) *)
Theorem same_name_same_reachable_hashes : forall (H : bytes -> bytes),
  (forall a b, length (H a) = length (H b)) ->
  forall public ar1 ar2 cs1 cs2 root x c1 c2 s,
  map c_imports cs1 = map c_imports cs2 ->
  wf_graph cs1 -> (root < length cs1)%nat -> Z.of_nat (length cs1) < 4294967296 ->
  (forall i d1 d2, nth_error cs1 i = Some d1 -> nth_error cs2 i = Some d2 ->
     length (assets_stream ar1 d1) = length (assets_stream ar2 d2)) ->
  final_stream H public ar1 cs1 root = Some s -> final_stream H public ar2 cs2 root = Some s ->
  reach cs1 root x -> nth_error cs1 x = Some c1 -> nth_error cs2 x = Some c2 ->
  assets_stream ar1 c1 = assets_stream ar2 c2 /\ iso_hash H public c1 = iso_hash H public c2.
Proof. exact same_stream_same_reachable_hashes. Qed.
Print Assumptions same_name_same_reachable_hashes.

(* every chunk's final hash input contains the isolated hash of every chunk
   reachable from it, on every import graph - cycles of dynamic imports included *)
Theorem final_hash_input_contains_every_reachable_hash : forall (H : bytes -> bytes) public ar chunks root x c,
  wf_graph chunks -> (root < length chunks)%nat -> Z.of_nat (length chunks) < 4294967296 ->
  reach chunks root x -> nth_error chunks x = Some c ->
  exists pre post, final_stream H public ar chunks root = Some (pre ++ iso_hash H public c ++ post).
Proof. exact final_stream_contains_reachable. Qed.
Print Assumptions final_hash_input_contains_every_reachable_hash.

Theorem cycle_members_hash_each_other : forall (H : bytes -> bytes) public ar chunks a b ca cb,
  wf_graph chunks -> (a < length chunks)%nat -> (b < length chunks)%nat -> Z.of_nat (length chunks) < 4294967296 ->
  reach chunks a b -> reach chunks b a -> nth_error chunks a = Some ca -> nth_error chunks b = Some cb ->
  (exists pre post, final_stream H public ar chunks a = Some (pre ++ iso_hash H public cb ++ post)) /\
  (exists pre post, final_stream H public ar chunks b = Some (pre ++ iso_hash H public ca ++ post)).
Proof. exact DeepProofs.cycle_members_hash_each_other. Qed.
Print Assumptions cycle_members_hash_each_other.

(* ---------------- after fix b608b91 (escapeFinalPath) ---------------- *)

(* What escapeFinalPath writes between the quotation marks reads back - under
   the string syntax of JavaScript/JSON resp. CSS, which rejects a bare
   quotation mark, backslash or control character - as the path itself,
   whatever bytes the file name contains. *)
Theorem escaped_path_reads_back : forall isCSS p, Forall (fun c => 0 <= c < 256) p ->
  unescape isCSS (escape_final_path isCSS p) = Some p.
Proof. exact unescape_escape. Qed.
Print Assumptions escaped_path_reads_back.

(* references resolve, names with quotation marks / backslashes / control
   characters included: the substituted output is data and escaped paths in
   turn, and every escaped path decodes to the path of the file it denotes *)
Theorem references_decode_to_emitted_paths : forall isCSS pathOf ps,
  (forall k i, Forall (fun c => 0 <= c < 256) (pathOf k i)) ->
  substitute_esc isCSS pathOf ps =
    concat (map (fun p => pdata p ++ escape_final_path isCSS (ref_path pathOf p)) ps) /\
  forall p, In p ps -> unescape isCSS (escape_final_path isCSS (ref_path pathOf p)) = Some (ref_path pathOf p).
Proof. exact references_decode. Qed.
Print Assumptions references_decode_to_emitted_paths.

(* the byte count follows the escaping *)
Theorem accurate_count_with_escaping : forall isCSS pathOf ps,
  accurate_count_esc isCSS pathOf ps = Z.of_nat (length (substitute_esc isCSS pathOf ps)).
Proof. exact accurate_count_esc_length. Qed.
Print Assumptions accurate_count_with_escaping.

(* ---------------- round 2: paths out of the parameters ---------------- *)

(* import_path_resolves: fs.Rel / pathBetweenChunks are no longer a parameter
   (C17's goFilepath model: clean, fs_join, rel).  For relative final paths
   whose cleaned elements are plain (not empty, ".", "..", no slash, NO
   BACKSLASH; the target does not clean to "." - there goFilepath.rel has a quirk
   outside the tied domain of the model): the text printed for a reference, read as a string of the
   output's language, and joined with the importing file's directory the way
   Node / a browser / filepath.Join resolve it, is the imported file's path. *)
Theorem import_path_resolves : forall isCSS dir to,
  dir <> [] -> is_rooted dir = false -> is_rooted to = false ->
  Forall plain (clean_segs dir) -> Forall plain (clean_segs to) -> clean_segs to <> [] ->
  Forall (fun c => 0 <= c < 256) (path_between [] dir to) ->
  exists spec, unescape isCSS (escape_final_path isCSS (path_between [] dir to)) = Some spec /\
               fs_join dir spec = clean to.
Proof. exact import_path_resolves_all. Qed.
Print Assumptions import_path_resolves.

(* with a public path: public path, exactly one slash, the final path *)
Theorem import_path_resolves_public : forall public dir to,
  public <> [] -> has_prefix [46; 47] to = false ->
  path_between public dir to = public ++ (if ends_with_slash public then [] else [SL]) ++ to.
Proof. exact path_between_public. Qed.
Print Assumptions import_path_resolves_public.

(* without "no backslash in names" the statement is false (finding K3): the file
   d\q.js in the output directory is referred to as ./d/q.js *)
Theorem import_path_resolves_refuted :
  exists dir to, dir <> [] /\ is_rooted dir = false /\ is_rooted to = false /\
    fs_join dir (path_between [] dir to) <> clean to.
Proof. exact path_between_backslash_refuted. Qed.
Print Assumptions import_path_resolves_refuted.

(* no_placeholder_survives, occurrences that overlap a substituted path included:
   if the last data piece is free of the prefix (clean input) and no WINDOW
   around a substituted path (|prefix|-1 bytes before, the path, |prefix|-1
   bytes after) contains the prefix, the substituted output does not contain it *)
Theorem no_placeholder_survives_overlapping : forall prefix nf nc out ps pathOf,
  prefix <> [] -> break_output prefix nf nc out = Some ps ->
  occurs prefix (pdata (last ps (mkPiece [] 0 0))) = false ->
  windows_free prefix pathOf ps ->
  occurs prefix (substitute pathOf ps) = false.
Proof. exact no_placeholder_survives_overlap. Qed.
Print Assumptions no_placeholder_survives_overlapping.
