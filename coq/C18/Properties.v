(* C18 property theorems. This file contains only statements closed by
   [exact lemma] and Print Assumptions. *)
From V Require Import Common.Base C18.Pieces C18.PiecesProofs.

(* breakOutputIntoPieces always terminates with a piece list (the fuel the
   model uses is enough for every output), and re-inserting the unique keys
   into the pieces gives back exactly the intermediate output: nothing is
   lost or invented by the split. *)
Theorem pieces_lossless : forall prefix nf nc out,
  exists ps, break_output prefix nf nc out = Some ps /\ join_with_keys prefix ps = out.
Proof. exact break_total_lossless. Qed.
Print Assumptions pieces_lossless.
