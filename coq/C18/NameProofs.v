(* Lemmas about final names: a change in any transitively imported chunk
   changes the importer's final hash input; what a final name does and does
   not determine. *)
From V Require Import Common.Base C18.Pieces C18.PiecesProofs C18.Hash C18.HashProofs C18.XXHash.

Lemma visit_all_ext rec1 rec2 : (forall v j, rec1 v j = rec2 v j) ->
  forall l v, visit_all rec1 l v = visit_all rec2 l v.
Proof.
  intros E. induction l as [|j l IH]; intro v; cbn; [reflexivity|].
  rewrite E. destruct (rec2 v j) as [[v1 o1]|]; [|reflexivity]. rewrite IH. reflexivity.
Qed.

(* the traversal order depends on the import lists only *)
Lemma dfs_ext cs1 cs2 : map c_imports cs1 = map c_imports cs2 ->
  forall fuel vis key i, dfs cs1 fuel vis key i = dfs cs2 fuel vis key i.
Proof.
  intros E. induction fuel as [|f IH]; intros vis key i; [reflexivity|].
  cbn [dfs]. destruct (nth_error vis i) as [stamp|]; [|reflexivity].
  assert (E' : option_map c_imports (nth_error cs1 i) = option_map c_imports (nth_error cs2 i)).
  { rewrite <- !nth_error_map. rewrite E. reflexivity. }
  destruct (nth_error cs1 i) as [c1|], (nth_error cs2 i) as [c2|]; cbn in E'; try discriminate; [|reflexivity].
  inversion E' as [E'']. destruct (stamp =? key); [reflexivity|].
  rewrite (visit_all_ext _ _ (fun v j => IH v key j)). reflexivity.
Qed.

Lemma concat_map_neq {A} (f g : A -> bytes) : forall o,
  (forall i, In i o -> length (f i) = length (g i)) ->
  (exists x, In x o /\ f x <> g x) -> concat (map f o) <> concat (map g o).
Proof.
  induction o as [|a o IH]; intros L [x [Hx Nx]] E; [destruct Hx|].
  cbn in E. apply app_eq_length_inv in E as [E1 E2]; [|apply L; left; reflexivity].
  destruct Hx as [<-|Hx]; [contradiction|].
  apply IH; [intros i Hi; apply L; right; exact Hi|exists x; split; assumption|exact E2].
Qed.

Section Names.
  Variable H : bytes -> bytes.
  Variable public : bytes.

  (* final_name_changes_with_dependency *)
  Lemma final_stream_changes ar1 ar2 cs1 cs2 root x :
    map c_imports cs1 = map c_imports cs2 ->
    wf_graph cs1 -> (root < length cs1)%nat -> Z.of_nat (length cs1) < 4294967296 ->
    (forall a b, length (H a) = length (H b)) ->
    (forall i c1 c2, nth_error cs1 i = Some c1 -> nth_error cs2 i = Some c2 ->
       length (assets_stream ar1 c1) = length (assets_stream ar2 c2)) ->
    reach cs1 root x ->
    (forall c1 c2, nth_error cs1 x = Some c1 -> nth_error cs2 x = Some c2 ->
       assets_stream ar1 c1 = assets_stream ar2 c2 /\
       isolated_stream public c1 <> isolated_stream public c2 /\
       (H (isolated_stream public c1) = H (isolated_stream public c2) ->
        isolated_stream public c1 = isolated_stream public c2)) ->
    exists s1 s2, final_stream H public ar1 cs1 root = Some s1 /\
                  final_stream H public ar2 cs2 root = Some s2 /\ s1 <> s2.
  Proof.
    intros Ei Hwf Hr Hn Hlen Hass R Hx.
    destruct (final_order_spec cs1 Hwf root Hr Hn) as (o & Eo & _ & Ho).
    assert (Eo2 : final_order cs2 root = Some o).
    { unfold final_order in *. assert (L : length cs2 = length cs1).
      { rewrite <- (map_length c_imports cs2), <- Ei, map_length. reflexivity. }
      rewrite L. rewrite <- (dfs_ext cs1 cs2 Ei). exact Eo. }
    unfold final_stream. rewrite Eo, Eo2. do 2 eexists. split; [reflexivity|]. split; [reflexivity|].
    unfold stream_of_order. apply concat_map_neq.
    - intros i Hi.
      assert (E' : option_map c_imports (nth_error cs1 i) = option_map c_imports (nth_error cs2 i)).
      { rewrite <- !nth_error_map. rewrite Ei. reflexivity. }
      destruct (nth_error cs1 i) as [c1|] eqn:E1, (nth_error cs2 i) as [c2|] eqn:E2; cbn in E'; try discriminate; [|reflexivity].
      unfold item. rewrite !app_length. rewrite (Hass i c1 c2 E1 E2). unfold iso_hash. rewrite (Hlen _ (isolated_stream public c2)). reflexivity.
    - exists x. split; [apply Ho; exact R|].
      assert (E' : option_map c_imports (nth_error cs1 x) = option_map c_imports (nth_error cs2 x)).
      { rewrite <- !nth_error_map. rewrite Ei. reflexivity. }
      assert (Lx : (x < length cs1)%nat).
      { clear - R Hr Hwf. induction R as [|a b R IH [c [Ec Hin]]]; [exact Hr|]. eapply Hwf; eassumption. }
      destruct (nth_error cs1 x) as [c1|] eqn:E1.
      2:{ apply nth_error_None in E1. lia. }
      destruct (nth_error cs2 x) as [c2|] eqn:E2; [|discriminate].
      destruct (Hx c1 c2 eq_refl eq_refl) as (Ea & Ne & Inj).
      unfold item, iso_hash. rewrite Ea. intro E. apply app_inv_head in E. apply Ne, Inj, E.
  Qed.
End Names.

(* ---- what a name determines ---- *)

Definition ref_path (pathOf : Z -> Z -> bytes) (p : piece) : bytes :=
  if is_ref (pkind p) then pathOf (pkind p) (pidx p) else [].

Lemma substitute_as_map pathOf : forall ps,
  substitute pathOf ps = concat (map (fun p => pdata p ++ ref_path pathOf p) ps).
Proof. induction ps as [|p r IH]; [reflexivity|]. cbn [substitute map concat]. rewrite IH, <- app_assoc. reflexivity. Qed.

Lemma map_pair_eq {A B C} (f : A -> B) (g : A -> C) (f' : A -> B) (g' : A -> C) : forall l1 l2,
  map f l1 = map f' l2 -> map g l1 = map g' l2 ->
  map (fun x => (f x, g x)) l1 = map (fun x => (f' x, g' x)) l2.
Proof.
  induction l1 as [|a l1 IH]; intros [|b l2] E1 E2; cbn in *; try discriminate; try reflexivity.
  inversion E1; inversion E2. f_equal; try congruence. apply IH; assumption.
Qed.

(* same_name_same_bytes_partial: equal hashed piece data (which is what an
   equal isolated hash gives, up to collisions of H) yields equal final bytes
   PROVIDED the path substituted at every position is the same - and that
   proviso is exactly what the hash does not cover. *)
Lemma same_bytes_partial pathOf1 pathOf2 ps1 ps2 :
  Forall (fun p => fits32 (pdata p)) ps1 -> Forall (fun p => fits32 (pdata p)) ps2 ->
  concat (map (fun p => lenpref (pdata p)) ps1) = concat (map (fun p => lenpref (pdata p)) ps2) ->
  map (ref_path pathOf1) ps1 = map (ref_path pathOf2) ps2 ->
  substitute pathOf1 ps1 = substitute pathOf2 ps2.
Proof.
  intros F1 F2 E Er.
  assert (Ed : map pdata ps1 = map pdata ps2).
  { apply lenpref_concat_inj.
    - apply Forall_map. exact F1.
    - apply Forall_map. exact F2.
    - rewrite !map_map. exact E. }
  rewrite !substitute_as_map.
  pose proof (map_pair_eq pdata (ref_path pathOf1) pdata (ref_path pathOf2) ps1 ps2 Ed Er) as Ep.
  replace (map (fun p => pdata p ++ ref_path pathOf1 p) ps1)
    with (map (fun q : bytes * bytes => fst q ++ snd q) (map (fun x => (pdata x, ref_path pathOf1 x)) ps1))
    by (rewrite map_map; reflexivity).
  rewrite Ep, map_map. reflexivity.
Qed.

(* ---- the refutation witness (DESIGN section 7-E), with H := xxhash ---- *)

(* bundler.HashForFileName: base32 (RFC 4648 alphabet) of the sum, first 8 characters = first 40 bits *)
Definition b32char (v : Z) : Z := if v <? 26 then 65 + v else 24 + v.
Definition hash_for_file_name (sum : bytes) : bytes :=
  let v := fold_left (fun acc b => acc * 256 + b) (firstn 5 sum) 0 in
  map (fun k => b32char ((v / 2 ^ (5 * k)) mod 32)) [7; 6; 5; 4; 3; 2; 1; 0].

Definition wit_tmpl (name : bytes) : list tpart := [(name ++ [45], 3); ([46; 106; 115], 0)].  (* name-[hash].js *)
Definition wit_imp : bytes := [105;109;112;111;114;116;40;34].      (* import( and a quote *)
Definition wit_mid : bytes := [34;41;59;10] ++ wit_imp.               (* quote ) ; newline import( quote *)
Definition wit_end : bytes := [34;41;59;10].
Definition wit_leaf (name body : bytes) : chunk := mkChunk true [] (wit_tmpl name) None body [] [] [] [].
Definition wit_a (first second : Z) : chunk :=
  mkChunk true [] (wit_tmpl [97])
    (Some [mkPiece wit_imp first 2; mkPiece wit_mid second 2; mkPiece wit_end 0 0]) [] [] [] [] [1%nat; 2%nat].
Definition wit_build (first second : Z) : list chunk := [wit_a first second; wit_leaf [120] [120; 10]; wit_leaf [121] [121; 10]].

(* the names and bytes of one build, as generateChunksInParallel computes them
   (all chunks in the output directory: pathBetweenChunks gives dot slash name) *)
Definition name_of (H : bytes -> bytes) (cs : list chunk) (i : nat) : option bytes :=
  match nth_error cs i, final_stream H [] (fun _ => []) cs i with
  | Some c, Some s => Some (final_name (c_template c) (Some (hash_for_file_name (H s))))
  | _, _ => None
  end.
Definition bytes_of (H : bytes -> bytes) (cs : list chunk) (i : nat) : option bytes :=
  match nth_error cs i with
  | Some c =>
    Some (substitute_out (fun k idx => match name_of H cs (Z.to_nat idx) with Some nm => [46; 47] ++ nm | None => [] end)
            (c_pieces c) (c_joiner c))
  | None => None
  end.

Lemma same_name_same_bytes_refuted_xx :
  exists cs1 cs2 i nm b1 b2,
    name_of xxh64 cs1 i = Some nm /\ name_of xxh64 cs2 i = Some nm /\
    bytes_of xxh64 cs1 i = Some b1 /\ bytes_of xxh64 cs2 i = Some b2 /\ b1 <> b2.
Proof.
  exists (wit_build 1 2), (wit_build 2 1), 0%nat.
  eexists. eexists. eexists.
  split; [vm_compute; reflexivity|]. split; [vm_compute; reflexivity|].
  split; [vm_compute; reflexivity|]. split; [vm_compute; reflexivity|].
  intro E. discriminate E.
Qed.

(* the same for EVERY hash function: the two builds hash identical streams *)
Lemma same_stream_different_refs (H : bytes -> bytes) :
  final_stream H [] (fun _ => []) (wit_build 1 2) 0 = final_stream H [] (fun _ => []) (wit_build 2 1) 0
  /\ final_stream H [] (fun _ => []) (wit_build 1 2) 0 <> None.
Proof. split; [reflexivity|discriminate]. Qed.

(* ---- statements about break_output used by Properties.v ---- *)

Lemma no_placeholder_survives_all prefix nf nc out ps pathOf :
  prefix <> [] -> break_output prefix nf nc out = Some ps ->
  forall pre p rest, ps = pre ++ p :: rest -> rest <> [] ->
  forall k, (length (substitute pathOf pre) <= k)%nat ->
    (k + length prefix <= length (substitute pathOf pre) + length (pdata p))%nat ->
    is_prefix prefix (skipn k (substitute pathOf ps)) = false.
Proof.
  intros NE H. eapply no_key_inside_interior_data. eapply break_broken; eassumption.
Qed.

Lemma last_piece_all prefix nf nc out ps :
  break_output prefix nf nc out = Some ps ->
  exists d, last ps (mkPiece [] 0 0) = mkPiece d 0 0 /\
    (occurs prefix d = false \/
     exists b, index_of prefix d = Some b /\ parse_key nf nc (skipn (b + length prefix) d) = None).
Proof. apply break_last. Qed.

Lemma references_resolve_all prefix nf nc out ps :
  prefix <> [] -> break_output prefix nf nc out = Some ps ->
  Forall (fun p => occurs prefix (pdata p) = false /\ is_ref (pkind p) = true /\
                   0 <= pidx p /\ (pkind p = 1 -> pidx p < nf) /\ (pkind p = 2 -> pidx p < nc)) (removelast ps)
  /\ pkind (last ps (mkPiece [] 0 0)) = 0.
Proof. intros NE H. eapply broken_interior, break_broken; eassumption. Qed.

Lemma dfs_visits_reachable_once_all chunks root :
  wf_graph chunks -> (root < length chunks)%nat -> Z.of_nat (length chunks) < 4294967296 ->
  exists o, final_order chunks root = Some o /\ NoDup o /\ (forall x, In x o <-> reach chunks root x).
Proof. intros Hwf. apply final_order_spec. exact Hwf. Qed.
