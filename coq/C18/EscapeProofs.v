(* escapeFinalPath: what is written between the quotation marks reads back,
   under the string syntax of the output's language, as the path itself. *)
From V Require Import Common.Base C18.Pieces C18.PiecesProofs C18.Escape C18.NameProofs.

Lemma unescape_esc_byte isCSS c r t : 0 <= c < 256 ->
  unescape isCSS r = Some t -> unescape isCSS (esc_byte isCSS c ++ r) = Some (c :: t).
Proof.
  intros Hc Hr.
  destruct (Z_lt_dec c 32) as [Lo|Hi].
  - (* control characters: 32 concrete cases *)
    replace c with (Z.of_nat (Z.to_nat c)) by lia.
    remember (Z.to_nat c) as k eqn:Ek. assert (Hk : (k < 32)%nat) by lia. clear Ek Hc Lo.
    destruct isCSS;
      do 32 (destruct k as [|k]; [cbn; rewrite Hr; reflexivity|]); lia.
  - unfold esc_byte. destruct ((c =? 34) || (c =? 92)) eqn:E1.
    + cbn. rewrite E1, Hr. reflexivity.
    + replace (32 <=? c) with true by lia. cbn [app unescape].
      replace (c =? 92) with false by lia. replace ((c =? 34) || (c <? 32)) with false by lia.
      rewrite Hr. reflexivity.
Qed.

(* escaped_path_reads_back *)
Lemma unescape_escape isCSS : forall p, Forall (fun c => 0 <= c < 256) p ->
  unescape isCSS (escape_final_path isCSS p) = Some p.
Proof.
  induction p as [|c p IH]; intro F; [reflexivity|].
  inversion F; subst. unfold escape_final_path. cbn [flat_map].
  apply unescape_esc_byte; [assumption|]. apply IH. assumption.
Qed.

(* the escaped text never holds a bare quotation mark or control character:
   that is what [unescape] accepting it says; the string literal around the
   key stays one string literal *)

(* substitution with escaping, piece by piece *)
Lemma substitute_esc_as_map isCSS pathOf ps :
  substitute_esc isCSS pathOf ps =
  concat (map (fun p => pdata p ++ escape_final_path isCSS (ref_path pathOf p)) ps).
Proof.
  unfold substitute_esc. rewrite substitute_as_map. f_equal. apply map_ext. intro p.
  unfold ref_path. destruct (is_ref (pkind p)); reflexivity.
Qed.

Lemma accurate_count_esc_length isCSS pathOf ps :
  accurate_count_esc isCSS pathOf ps = Z.of_nat (length (substitute_esc isCSS pathOf ps)).
Proof. apply accurate_count_length. Qed.

(* references_decode_to_emitted_paths: after substitution every reference piece
   contributes a text that reads back, as string contents of the output's
   language, as exactly the path of the chunk / asset it denotes *)
Lemma references_decode isCSS pathOf ps :
  (forall k i, Forall (fun c => 0 <= c < 256) (pathOf k i)) ->
  substitute_esc isCSS pathOf ps =
    concat (map (fun p => pdata p ++ escape_final_path isCSS (ref_path pathOf p)) ps) /\
  forall p, In p ps -> unescape isCSS (escape_final_path isCSS (ref_path pathOf p)) = Some (ref_path pathOf p).
Proof.
  intro Hb. split; [apply substitute_esc_as_map|].
  intros p _. apply unescape_escape. unfold ref_path. destruct (is_ref (pkind p)); [apply Hb|constructor].
Qed.
