(* no_placeholder_survives, overlapping case: an occurrence of the prefix in
   the substituted output lies inside a data piece, or inside the rest, or
   inside the WINDOW around a substituted path (the last |prefix|-1 bytes
   before it, the path, the first |prefix|-1 bytes after it).  So if no such
   window contains the prefix - a condition on the final paths and on at most
   2(|prefix|-1) neighbouring bytes each - no placeholder prefix survives. *)
From V Require Import Common.Base C18.Pieces C18.PiecesProofs.

Definition occ_free (p s : bytes) : Prop := forall j, is_prefix p (skipn j s) = false.

Lemma occ_free_occurs p s : p <> [] -> (occ_free p s <-> occurs p s = false).
Proof.
  intro NE. split.
  - intro F. unfold occurs. destruct (index_of p s) as [b|] eqn:E; [|reflexivity].
    apply index_of_some in E as [E _].
    assert (X : is_prefix p (skipn b s) = true).
    { apply is_prefix_iff. exists (skipn (b + length p) s).
      rewrite E at 1. rewrite skipn_app.
      pose proof (index_of_le p s b) as L.
      assert (Lb : (b <= length s)%nat).
      { destruct (le_lt_dec b (length s)); [assumption|]. exfalso.
        assert (length s = length (firstn b s ++ p ++ skipn (b + length p) s)) by (rewrite <- E; reflexivity).
        rewrite !app_length, firstn_all2 in H by lia. destruct p; [congruence|cbn in H; lia]. }
      rewrite firstn_length_le by lia. rewrite skipn_all2 by (rewrite firstn_length_le; lia).
      replace (b - b)%nat with O by lia. reflexivity. }
    rewrite F in X. discriminate.
  - intros O j. unfold occurs in O. destruct (index_of p s) eqn:E; [discriminate|].
    apply index_of_none. exact E.
Qed.

(* an occurrence inside the middle part of U ++ V ++ W is an occurrence in V *)
Lemma occ_middle p U V W j : (length U <= j)%nat -> (j + length p <= length U + length V)%nat ->
  is_prefix p (skipn j (U ++ V ++ W)) = true -> is_prefix p (skipn (j - length U) V) = true.
Proof.
  intros H1 H2 H. rewrite skipn_app in H. rewrite skipn_all2 in H by lia. cbn [app] in H.
  eapply is_prefix_inside; [|exact H]. lia.
Qed.

Definition lastn (n : nat) (l : bytes) : bytes := skipn (length l - n) l.

(* the window lemma *)
Lemma occ_free_glue p A B C : p <> [] ->
  occ_free p A -> occ_free p C ->
  occ_free p (lastn (length p - 1) A ++ B ++ firstn (length p - 1) C) ->
  occ_free p (A ++ B ++ C).
Proof.
  intros NE FA FC FW j.
  destruct (is_prefix p (skipn j (A ++ B ++ C))) eqn:E; [|reflexivity]. exfalso.
  assert (Lp : (1 <= length p)%nat) by (destruct p; [congruence|cbn; lia]).
  assert (Hj : (j + length p <= length (A ++ B ++ C))%nat).
  { apply is_prefix_length in E. rewrite skipn_length in E. lia. }
  rewrite !app_length in Hj.
  destruct (le_lt_dec (j + length p) (length A)) as [InA|NotA].
  - (* inside A *)
    apply is_prefix_inside in E; [|lia]. rewrite FA in E. discriminate.
  - destruct (le_lt_dec (length A + length B) j) as [InC|NotC].
    + (* inside C *)
      rewrite app_assoc in E. rewrite skipn_app in E. rewrite skipn_all2 in E by (rewrite app_length; lia).
      cbn [app] in E. rewrite app_length in E. rewrite FC in E. discriminate.
    + (* inside the window *)
      set (n := (length p - 1)%nat) in *.
      set (U := firstn (length A - n) A).
      set (W := skipn n C).
      assert (EA : A = U ++ lastn n A) by (unfold U, lastn; symmetry; apply firstn_skipn).
      assert (EC : C = firstn n C ++ W) by (unfold W; symmetry; apply firstn_skipn).
      assert (LU : length U = (length A - n)%nat) by (unfold U; rewrite firstn_length; lia).
      assert (Ll : length (lastn n A) = Nat.min n (length A)).
      { unfold lastn. rewrite skipn_length. lia. }
      assert (Lf : length (firstn n C) = Nat.min n (length C)) by (rewrite firstn_length; reflexivity).
      assert (Ew : A ++ B ++ C = U ++ (lastn n A ++ B ++ firstn n C) ++ W).
      { rewrite EA at 1. rewrite EC at 1. rewrite <- !app_assoc. reflexivity. }
      rewrite Ew in E.
      apply occ_middle in E.
      * rewrite FW in E. discriminate.
      * rewrite LU. unfold n. lia.
      * rewrite !app_length, LU, Ll, Lf. unfold n. lia.
Qed.

(* substitution: data, path, rest *)
Definition path_of (pathOf : Z -> Z -> bytes) (p : piece) : bytes :=
  if is_ref (pkind p) then pathOf (pkind p) (pidx p) else [].

Lemma substitute_cons pathOf p r :
  substitute pathOf (p :: r) = pdata p ++ path_of pathOf p ++ substitute pathOf r.
Proof. reflexivity. Qed.

(* every window around a substituted path is free of the prefix *)
Inductive windows_free (prefix : bytes) (pathOf : Z -> Z -> bytes) : list piece -> Prop :=
| wf_nil : windows_free prefix pathOf []
| wf_cons p r :
    occ_free prefix (lastn (length prefix - 1) (pdata p) ++ path_of pathOf p ++
                     firstn (length prefix - 1) (substitute pathOf r)) ->
    windows_free prefix pathOf r -> windows_free prefix pathOf (p :: r).

Lemma no_prefix_after_substitution prefix pathOf : prefix <> [] -> forall ps,
  Forall (fun p => occurs prefix (pdata p) = false) ps ->
  windows_free prefix pathOf ps ->
  occurs prefix (substitute pathOf ps) = false.
Proof.
  intros NE ps F Wf. apply occ_free_occurs; [exact NE|].
  induction ps as [|p r IH].
  - intro j. cbn [substitute]. rewrite skipn_nil. destruct prefix; [congruence|reflexivity].
  - inversion F; subst. inversion Wf; subst. rewrite substitute_cons.
    apply occ_free_glue; try assumption.
    + apply occ_free_occurs; assumption.
    + apply IH; assumption.
Qed.

(* for the pieces of breakOutputIntoPieces: only the last data piece needs a hypothesis *)
Lemma broken_data_free prefix nf nc ps : broken prefix nf nc ps ->
  occurs prefix (pdata (last ps (mkPiece [] 0 0))) = false ->
  Forall (fun p => occurs prefix (pdata p) = false) ps.
Proof.
  induction 1 as [d|d k i r Ho Hk Hi H1 H2 Hr IH]; intro Hl.
  - constructor; [exact Hl|constructor].
  - constructor; [exact Ho|]. apply IH. destruct r; [inversion Hr|exact Hl].
Qed.

Lemma no_placeholder_survives_overlap prefix nf nc out ps pathOf :
  prefix <> [] -> break_output prefix nf nc out = Some ps ->
  occurs prefix (pdata (last ps (mkPiece [] 0 0))) = false ->
  windows_free prefix pathOf ps ->
  occurs prefix (substitute pathOf ps) = false.
Proof.
  intros NE Hb Hl Wf. apply no_prefix_after_substitution; try assumption.
  eapply broken_data_free; [eapply break_broken; eassumption|exact Hl].
Qed.
