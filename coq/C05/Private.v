(* C05 private names: model of esbuild's lowering of private-name expressions
   to the WeakMap/WeakSet helpers, the helpers themselves, and the native
   semantics.

   Go code mirrored (internal/js_parser):
     lowerPrivateGet / lowerPrivateSet / lowerPrivateBrandCheck   js_parser_lower_class.go
     lowerPrivateSetBinOp (maybeLowerSetBinOp)                    js_parser_lower_class.go, js_parser_lower.go
     the private branches of lowerExponentiationAssignmentOperator,
       lowerNullishCoalescingAssignmentOperator, lowerLogicalAssignmentOperator   js_parser_lower.go
     the ECall case "foo.#bar(123) => __privateGet(_a = foo, #bar).call(_a, 123)"  js_parser.go
     captureValueWithPossibleSideEffects in mode valueCouldBeMutated ([capture_mut]: identifiers
       are captured too) and valueDefinitelyNotMutated ([Lower.capture])
   Helpers mirrored (internal/runtime/runtime.go): __accessCheck, __privateIn,
   __privateGet, __privateAdd, __privateSet, __privateMethod.  The harness pins
   their source text, so a change of the helpers is reported until this model
   is updated.

   Native semantics written from ECMA-262: PrivateElementFind, PrivateGet,
   PrivateSet, PrivateFieldAdd, PrivateMethodOrAccessorAdd, the "in" operator
   with a private name (13.10.1), GetValue/PutValue on a private reference
   (ToObject of the base), EvaluateCall.

   State.  A class body gives every private FIELD its own storage (natively the
   private name, lowered a WeakMap "_x") and all its private METHODS AND
   ACCESSORS one storage (natively: InitializeInstanceElements installs all of
   them on an object in one step with no user code in between, so an object has
   one iff it has all - the class brand; lowered: one WeakSet "_C_instances" /
   "_C_static").  Both sides therefore work on the same mathematical object,
   a finite map (storage, object) -> value; what is compared is WHICH lookups,
   checks, calls and stores happen, in which ORDER relative to the evaluation
   of the operands, and which exceptions result.  Every TypeError is the one
   value [terr] (error classes are compared, messages are not).  The objects
   stored are opaque to the world except through private access. *)
From V Require Import Common.Base C05.Syntax C05.Sem C05.Lower C05.Frame.

Inductive pkind := KField | KMethod | KGet | KSet | KGetSet.
Record pname := mkPname {
  pn_kind : pkind;
  pn_store : Z;     (* "_x" for a field, the class brand "_C_instances"/"_C_static" otherwise *)
  pn_meth : Z;      (* "m_fn" *)
  pn_getter : Z;    (* "x_get" *)
  pn_setter : Z     (* "x_set" *)
}.
Inductive lop := LNullish | LOr | LAnd.

(* the private-name expression forms (operands are MiniJS expressions) *)
Inductive pform :=
| PGet (t : expr) (x : Z)                          (* t.#x *)
| PSet (t : expr) (x : Z) (v : expr)               (* t.#x = v *)
| PIn (x : Z) (t : expr)                           (* #x in t *)
| PCall (t : expr) (x : Z) (args : list expr)      (* t.#x(args) *)
| PArith (op : binop) (t : expr) (x : Z) (v : expr) (* t.#x -= v (any strict operator), t.#x **= v *)
| PLog (op : lop) (t : expr) (x : Z) (v : expr)    (* t.#x ??= v, ||=, &&= *)
| PTarget (t : expr) (x : Z).                      (* t.#x as the target of a destructuring element ([t.#x = d] = ...) or of for-in/of *)

(* what esbuild emits *)
Inductive pexp :=
| PE (e : expr)
| HGet (t : pexp) (st : Z) (g : option Z)          (* __privateGet(t, st [, g]) *)
| HMethod (t : pexp) (st fn : Z)                   (* __privateMethod(t, st, fn) *)
| HSet (t : pexp) (st : Z) (v : pexp) (sr : option Z)  (* __privateSet(t, st, v [, sr]) *)
| HIn (st : Z) (t : pexp)                          (* __privateIn(st, t) *)
| HCallCall (f t : pexp) (args : list expr)        (* f.call(t, args) *)
| HBin (op : binop) (a b : pexp)
| HPow (a b : pexp)                                (* __pow(a, b) *)
| HIf (c a b : pexp)
| HNeNull (e : pexp)                               (* e != null *)
| HTmpSet (n : Z) (e : pexp)                       (* _n = e *)
| HWrapper (t : pexp) (st : Z) (sr : option Z).    (* __privateWrapper(t, st [, sr])._  (an assignment target) *)

Definition is_const_value (e : expr) : bool :=
  match e with ENull | EUndef | EThis | EBool _ | ENum _ | EStr _ => true | _ => false end.

(* captureValueWithPossibleSideEffects, mode valueCouldBeMutated *)
Definition capture_mut (v : expr) (n : Z) : expr * expr * Z :=
  if is_const_value v then (v, v, n) else (EAssign (ETmp n) v, ETmp n, n + 1).

Definition lop_bin (o : lop) : binop :=
  match o with LNullish => BNullish | LOr => BOr | LAnd => BAnd end.

Section PLower.
  Variable names : Z -> pname.

  Definition lowerPrivateGet (t : pexp) (x : Z) : pexp :=
    let p := names x in
    match pn_kind p with
    | KMethod => HMethod t (pn_store p) (pn_meth p)
    | KGet | KGetSet => HGet t (pn_store p) (Some (pn_getter p))
    | KField | KSet => HGet t (pn_store p) None
    end.

  Definition lowerPrivateSet (t : pexp) (x : Z) (v : pexp) : pexp :=
    let p := names x in
    match pn_kind p with
    | KSet | KGetSet => HSet t (pn_store p) v (Some (pn_setter p))
    | KField | KMethod | KGet => HSet t (pn_store p) v None
    end.

  Definition plower (F : feat) (f : pform) (n : Z) : pexp * Z :=
    match f with
    | PGet t x => (lowerPrivateGet (PE t) x, n)
    | PSet t x v => (lowerPrivateSet (PE t) x (PE v), n)
    | PIn x t => (HIn (pn_store (names x)) (PE t), n)
    | PCall t x args =>
        let '(f, a, n1) := capture_mut t n in
        (HCallCall (lowerPrivateGet (PE f) x) (PE a) args, n1)
    | PArith op t x v =>
        let '(f, a, n1) := capture t n in
        let cur := lowerPrivateGet (PE a) x in
        let nv := match op with
                  | BPow => if f_exp F then HPow cur (PE v) else HBin BPow cur (PE v)
                  | _ => HBin op cur (PE v)
                  end in
        (lowerPrivateSet (PE f) x nv, n1)
    | PLog op t x v =>
        let '(f, a, n1) := capture t n in
        let left := lowerPrivateGet (PE f) x in
        let right := lowerPrivateSet (PE a) x (PE v) in
        match op with
        | LNullish =>
            if f_nullish F
            then (HIf (HNeNull (HTmpSet n1 left)) (PE (ETmp n1)) right, n1 + 1)
            else (HBin BNullish left right, n1)
        | _ => (HBin (lop_bin op) left right, n1)
        end
    | PTarget t x =>
        (* lowerSuperPropertyOrPrivateInAssign: the setter is passed, a getter never *)
        let p := names x in
        (match pn_kind p with
         | KSet | KGetSet => HWrapper (PE t) (pn_store p) (Some (pn_setter p))
         | KField | KMethod | KGet => HWrapper (PE t) (pn_store p) None
         end, n)
    end.
End PLower.

(* ---- comparison with the tree recovered from esbuild's output ---- *)
Definition opt_eqb (a b : option Z) : bool :=
  match a, b with
  | None, None => true
  | Some x, Some y => x =? y
  | _, _ => false
  end.

Fixpoint list_expr_eqb (l m : list expr) : bool :=
  match l, m with
  | [], [] => true
  | x :: l', y :: m' => expr_eqb x y && list_expr_eqb l' m'
  | _, _ => false
  end.

Fixpoint pexp_eqb (a b : pexp) : bool :=
  match a, b with
  | PE x, PE y => expr_eqb x y
  | HGet t st g, HGet t' st' g' => pexp_eqb t t' && (st =? st') && opt_eqb g g'
  | HMethod t st fn, HMethod t' st' fn' => pexp_eqb t t' && (st =? st') && (fn =? fn')
  | HSet t st v sr, HSet t' st' v' sr' => pexp_eqb t t' && (st =? st') && pexp_eqb v v' && opt_eqb sr sr'
  | HIn st t, HIn st' t' => (st =? st') && pexp_eqb t t'
  | HCallCall f t l, HCallCall f' t' l' => pexp_eqb f f' && pexp_eqb t t' && list_expr_eqb l l'
  | HBin op x y, HBin op' x' y' => binop_eqb op op' && pexp_eqb x x' && pexp_eqb y y'
  | HPow x y, HPow x' y' => pexp_eqb x x' && pexp_eqb y y'
  | HIf c x y, HIf c' x' y' => pexp_eqb c c' && pexp_eqb x x' && pexp_eqb y y'
  | HNeNull e, HNeNull e' => pexp_eqb e e'
  | HTmpSet n e, HTmpSet n' e' => (n =? n') && pexp_eqb e e'
  | HWrapper t st sr, HWrapper t' st' sr' => pexp_eqb t t' && (st =? st') && opt_eqb sr sr'
  | _, _ => false
  end.

Fixpoint canon_exprs (l : list expr) (m : list (Z * Z)) : list expr * list (Z * Z) :=
  match l with
  | [] => ([], m)
  | x :: r => let '(x', m1) := canon x m in
              let '(r', m2) := canon_exprs r m1 in (x' :: r', m2)
  end.

Definition canon_tmp (n : Z) (m : list (Z * Z)) : Z * list (Z * Z) :=
  match lookup m n with
  | Some k => (k, m)
  | None => let k := Z.of_nat (length m) in (k, (n, k) :: m)
  end.

Fixpoint pcanon (e : pexp) (m : list (Z * Z)) : pexp * list (Z * Z) :=
  match e with
  | PE x => let '(x', m1) := canon x m in (PE x', m1)
  | HGet t st g => let '(t', m1) := pcanon t m in (HGet t' st g, m1)
  | HMethod t st fn => let '(t', m1) := pcanon t m in (HMethod t' st fn, m1)
  | HSet t st v sr => let '(t', m1) := pcanon t m in let '(v', m2) := pcanon v m1 in (HSet t' st v' sr, m2)
  | HIn st t => let '(t', m1) := pcanon t m in (HIn st t', m1)
  | HCallCall f t l => let '(f', m1) := pcanon f m in let '(t', m2) := pcanon t m1 in
                       let '(l', m3) := canon_exprs l m2 in (HCallCall f' t' l', m3)
  | HBin op a b => let '(a', m1) := pcanon a m in let '(b', m2) := pcanon b m1 in (HBin op a' b', m2)
  | HPow a b => let '(a', m1) := pcanon a m in let '(b', m2) := pcanon b m1 in (HPow a' b', m2)
  | HIf c a b => let '(c', m1) := pcanon c m in let '(a', m2) := pcanon a m1 in
                 let '(b', m3) := pcanon b m2 in (HIf c' a' b', m3)
  | HNeNull x => let '(x', m1) := pcanon x m in (HNeNull x', m1)
  | HTmpSet n x => let '(k, m1) := canon_tmp n m in let '(x', m2) := pcanon x m1 in (HTmpSet k x', m2)
  | HWrapper t st sr => let '(t', m1) := pcanon t m in (HWrapper t' st sr, m1)
  end.
Definition pcanon_exp (e : pexp) : pexp := fst (pcanon e []).

(* ---- semantics ---- *)
Definition pst := list (Z * Z * val).
Fixpoint pfind (p : pst) (k l : Z) : option val :=
  match p with
  | [] => None
  | (k', l', v) :: r => if (k' =? k) && (l' =? l) then Some v else pfind r k l
  end.

Section PrivSem.
  Variable U : Type.
  Notation S := (U * pst)%type.
  Variable w : world S.
  Variable th : val.
  Variable terr : val.          (* a TypeError *)
  Variable names : Z -> pname.
  Variable fobj : Z -> Z.       (* the function objects bound to m_fn, x_get, x_set *)
  Variable isset : Z -> bool.   (* the storage is a WeakSet (brand), otherwise a WeakMap (field) *)

  Definition fval (i : Z) : val := VObj (fobj i).

  (* computations on the user state only *)
  Definition W (A : Type) := S -> list event * S * res A.
  Definition wret {A} (a : A) : W A := fun s => ([], s, Ok a).
  Definition wthrow {A} : W A := fun s => ([], s, Throw terr).
  Definition wbind {A B} (x : W A) (k : A -> W B) : W B := fun s =>
    match x s with
    | (t1, s1, Ok a) => let '(t2, s2, r) := k a s1 in (t1 ++ t2, s2, r)
    | (t1, s1, Throw v) => (t1, s1, Throw v)
    end.

  (* storage primitives: [[PrivateElements]] lookup = WeakMap/WeakSet has/get/set/add;
     a primitive value is never a key (ToObject gives a fresh wrapper; has() is false) *)
  Definition p_has (k : Z) (o : val) : W bool := fun s =>
    ([], s, Ok (match o with
                | VObj l => match pfind (snd s) k l with Some _ => true | None => false end
                | _ => false
                end)).
  Definition p_read (k : Z) (o : val) : W val := fun s =>
    ([], s, Ok (match o with
                | VObj l => match pfind (snd s) k l with Some v => v | None => VUndef end
                | _ => VUndef
                end)).
  Definition p_write (k : Z) (o v : val) : W unit := fun s =>
    match o with
    | VObj l => ([], (fst s, (k, l, v) :: snd s), Ok tt)
    | _ => ([], s, Throw terr)       (* "Invalid value used as weak map key" *)
    end.

  (* -- native (ECMA-262) -- *)
  Definition n_get (x : Z) (o : val) : W val :=
    let p := names x in
    if nullish o then wthrow else                      (* GetValue: ToObject(base) *)
    wbind (p_has (pn_store p) o) (fun h =>             (* PrivateElementFind *)
    if h then
      match pn_kind p with
      | KField => p_read (pn_store p) o
      | KMethod => wret (fval (pn_meth p))
      | KGet | KGetSet => w_call w (fval (pn_getter p)) o []
      | KSet => wthrow                                 (* accessor without a getter *)
      end
    else wthrow).

  Definition n_set (x : Z) (o v : val) : W unit :=
    let p := names x in
    if nullish o then wthrow else                      (* PutValue: ToObject(base) *)
    wbind (p_has (pn_store p) o) (fun h =>
    if h then
      match pn_kind p with
      | KField => p_write (pn_store p) o v
      | KMethod | KGet => wthrow                       (* methods are not writable; no setter *)
      | KSet | KGetSet => wbind (w_call w (fval (pn_setter p)) o [v]) (fun _ => wret tt)
      end
    else wthrow).

  Definition n_in (x : Z) (o : val) : W val :=
    match o with
    | VObj _ => wbind (p_has (pn_store (names x)) o) (fun h => wret (VBool h))
    | _ => wthrow
    end.

  (* PrivateFieldAdd / PrivateMethodOrAccessorAdd on an object *)
  Definition n_add (st : Z) (o v : val) : W unit :=
    wbind (p_has st o) (fun h => if h then wthrow else p_write st o v).

  (* -- the helpers of runtime.go -- *)
  (* member.has(obj) || __typeError(...) *)
  Definition h_check (st : Z) (o : val) : W unit :=
    wbind (p_has st o) (fun h => if h then wret tt else wthrow).
  (* f.call(t, args) *)
  Definition callcall (f t : val) (args : list val) : W val :=
    wbind (w_get w f (VStr name_call)) (fun _ => w_call w f t args).
  (* (__accessCheck(obj, member, ..), getter ? getter.call(obj) : member.get(obj)) *)
  Definition h_get (st : Z) (o : val) (g : option Z) : W val :=
    wbind (h_check st o) (fun _ =>
    match g with
    | Some i => callcall (fval i) o []
    | None => if isset st then wthrow (* a WeakSet has no get *) else p_read st o
    end).
  (* (__accessCheck(obj, member, ..), method) *)
  Definition h_method (st : Z) (o : val) (i : Z) : W val :=
    wbind (h_check st o) (fun _ => wret (fval i)).
  (* (__accessCheck(obj, member, ..), setter ? setter.call(obj, value) : member.set(obj, value), value) *)
  Definition h_set (st : Z) (o v : val) (sr : option Z) : W val :=
    wbind (h_check st o) (fun _ =>
    wbind (match sr with
           | Some i => wbind (callcall (fval i) o [v]) (fun _ => wret tt)
           | None => if isset st then wthrow (* a WeakSet has no set *) else p_write st o v
           end) (fun _ => wret v)).
  (* Object(obj) !== obj ? __typeError(..) : member.has(obj) *)
  Definition h_in (st : Z) (o : val) : W val :=
    match o with
    | VObj _ => wbind (p_has st o) (fun h => wret (VBool h))
    | _ => wthrow
    end.
  (* member.has(obj) ? __typeError(..) : member instanceof WeakSet ? member.add(obj) : member.set(obj, value) *)
  Definition h_add (st : Z) (o v : val) : W unit :=
    wbind (p_has st o) (fun h => if h then wthrow else p_write st o (if isset st then VBool true else v)).

  Notation ev := (eval w th).
  Notation evl := (eval_list S w th).

  Definition binsem (op : binop) (a b : M S out) : M S out :=
    match op with
    | BNullish => bind a (fun r =>
        if nullish (valof r) then bind b (fun r2 => ret (ov (valof r2))) else ret (ov (valof r)))
    | BOr => bind a (fun r =>
        if truthy (valof r) then ret (ov (valof r)) else bind b (fun r2 => ret (ov (valof r2))))
    | BAnd => bind a (fun r =>
        if truthy (valof r) then bind b (fun r2 => ret (ov (valof r2))) else ret (ov (valof r)))
    | BComma => bind a (fun _ => bind b (fun r2 => ret (ov (valof r2))))
    | BPow | BSub => bind a (fun r => bind b (fun r2 =>
        bind (lift (w_binop w op (valof r) (valof r2))) (fun v => ret (ov v))))
    end.

  (* the emitted expression: a helper call evaluates its arguments left to
     right (the storage and function identifiers are constant bindings made by
     the class lowering) and then runs the helper body *)
  Fixpoint peval (e : pexp) : M S out :=
    match e with
    | PE x => ev x
    | HGet t st g => bind (peval t) (fun r => bind (lift (h_get st (valof r) g)) (fun v => ret (ov v)))
    | HMethod t st fn => bind (peval t) (fun r => bind (lift (h_method st (valof r) fn)) (fun v => ret (ov v)))
    | HSet t st v sr => bind (peval t) (fun r => bind (peval v) (fun rv =>
        bind (lift (h_set st (valof r) (valof rv) sr)) (fun x => ret (ov x))))
    | HIn st t => bind (peval t) (fun r => bind (lift (h_in st (valof r))) (fun v => ret (ov v)))
    | HCallCall f t args =>
        bind (peval f) (fun fr =>
        bind (lift (w_get w (valof fr) (VStr name_call))) (fun _ =>
        bind (peval t) (fun tr =>
        bind (evl args) (fun vs =>
        bind (lift (w_call w (valof fr) (valof tr) vs)) (fun v => ret (ov v))))))
    | HBin op a b => binsem op (peval a) (peval b)
    | HPow a b => bind (peval a) (fun r => bind (peval b) (fun r2 =>
        bind (lift (w_binop w BPow (valof r) (valof r2))) (fun v => ret (ov v))))
    | HIf c a b => bind (peval c) (fun r =>
        if truthy (valof r) then bind (peval a) (fun r2 => ret (ov (valof r2)))
        else bind (peval b) (fun r2 => ret (ov (valof r2))))
    | HNeNull x => bind (peval x) (fun r => ret (ov (VBool (negb (nullish (valof r))))))
    | HTmpSet n x => bind (peval x) (fun r => fun m s => ([], tset m n (valof r), s, Ok (ov (valof r))))
    (* evaluating the REFERENCE: the wrapper object is created, nothing is read;
       the store through it is [ptarget] *)
    | HWrapper t st sr => bind (peval t) (fun r => ret (ov VUndef))
    end.

  (* the source forms, natively *)
  Definition lop_short (o : lop) (v : val) : bool :=
    match o with LNullish => negb (nullish v) | LOr => truthy v | LAnd => negb (truthy v) end.

  Definition neval (f : pform) : M S out :=
    match f with
    | PGet t x => bind (ev t) (fun r => bind (lift (n_get x (valof r))) (fun v => ret (ov v)))
    | PSet t x v => bind (ev t) (fun r => bind (ev v) (fun rv =>
        bind (lift (n_set x (valof r) (valof rv))) (fun _ => ret (ov (valof rv)))))
    | PIn x t => bind (ev t) (fun r => bind (lift (n_in x (valof r))) (fun v => ret (ov v)))
    | PCall t x args => bind (ev t) (fun r => bind (lift (n_get x (valof r))) (fun fv =>
        bind (evl args) (fun vs => bind (lift (w_call w fv (valof r) vs)) (fun v => ret (ov v)))))
    | PArith op t x v => bind (ev t) (fun r => bind (lift (n_get x (valof r))) (fun lv =>
        bind (ev v) (fun rv => bind (lift (w_binop w op lv (valof rv))) (fun nv =>
        bind (lift (n_set x (valof r) nv)) (fun _ => ret (ov nv))))))
    | PLog op t x v => bind (ev t) (fun r => bind (lift (n_get x (valof r))) (fun lv =>
        if lop_short op lv then ret (ov lv)
        else bind (ev v) (fun rv => bind (lift (n_set x (valof r) (valof rv))) (fun _ => ret (ov (valof rv))))))
    | PTarget t x => bind (ev t) (fun r => ret (ov VUndef))      (* the reference t.#x: only t is evaluated *)
    end.

  (* an assignment target: evaluating the reference yields what a later
     PutValue does.  Lowered: the setter "_" of the wrapper object,
        set _(value) { __privateSet(obj, member, value, setter) }      (runtime.go) *)
  Definition ptarget (e : pexp) : M S (val -> W unit) :=
    match e with
    | HWrapper t st sr => bind (peval t) (fun r => ret (fun v => wbind (h_set st (valof r) v sr) (fun _ => wret tt)))
    | _ => ret (fun _ => wthrow)
    end.
  Definition ntarget (f : pform) : M S (val -> W unit) :=
    match f with
    | PTarget t x => bind (ev t) (fun r => ret (fun v => n_set x (valof r) v))
    | _ => ret (fun _ => wthrow)
    end.
End PrivSem.

Arguments peval {U}. Arguments neval {U}. Arguments ptarget {U}. Arguments ntarget {U}.
