(* C05 model: executable Gallina mirror of the expression lowerings of
   /repo/internal/js_parser (minifySyntax = false, no private names, no super):

     capture                        js_parser.go  captureValueWithPossibleSideEffects (count = 2,
                                    mode valueDefinitelyNotMutated, not in a function-argument scope)
     lowerNullishCoalescing         js_parser_lower.go  lowerNullishCoalescing
     lowerAssignmentOperator        js_parser_lower.go  lowerAssignmentOperator
     lowerExpAsg                    lowerExponentiationAssignmentOperator
     lowerNullishAsg                lowerNullishCoalescingAssignmentOperator
     lowerLogicalAsg                lowerLogicalAssignmentOperator
     flatten / lowerOptionalChain   lowerOptionalChain (steps 1-5, early exits)
     (ECallThis in visit)           lowerParenthesizedOptionalChain
     to_null_or_undef               js_ast_helpers.go  ToNullOrUndefinedWithSideEffects (on this fragment)
     visit                          js_parser.go  visitExprInOut cases EDot, EIndex, ECall, EUnary(delete),
                                    EBinary (??, **, **=, ??=, ||=, &&=, =, comma, other)

   The Go closures valueFunc()/wrapFunc(e) are stateful: the first call of
   valueFunc returns "_t = value", later calls return "_t"; wrapFunc is the
   identity on a non-nil expression.  [capture] therefore returns the pair
   (first use, later use).  Temporaries are numbered by a counter; esbuild
   names them _a, _b ... by generateTempRef order; comparison is modulo the
   canonical renaming [Syntax.canon_expr].

   The model mirrors the code including its behaviour on identifiers (never
   captured) and parenthesised chains; it does not decide what is right. *)
From V Require Import Common.Base C05.Syntax.

Record feat := mkFeat {
  f_nullish : bool;   (* compat.NullishCoalescing is unsupported *)
  f_logasg : bool;    (* compat.LogicalAssignment is unsupported *)
  f_optchain : bool;  (* compat.OptionalChain is unsupported *)
  f_exp : bool        (* compat.ExponentOperator is unsupported *)
}.

Definition is_inline_value (e : expr) : bool :=
  match e with
  | ENull | EUndef | EThis | EBool _ | ENum _ | EStr _ | EId _ => true
  | ETmp _ => true      (* a temporary is an EIdentifier for the Go code *)
  | _ => false
  end.

(* (first reference, later references, next temporary) *)
Definition capture (v : expr) (n : Z) : expr * expr * Z :=
  if is_inline_value v then (v, v, n) else (EAssign (ETmp n) v, ETmp n, n + 1).

Definition lowerNullishCoalescing (left right : expr) (n : Z) : expr * Z :=
  let '(first, again, n1) := capture left n in
  (EIf (EEqNull true first) again right, n1).

Definition lowerAssignmentOperator (tgt : expr) (cb : expr -> expr -> Z -> expr * Z) (n : Z) : expr * Z :=
  match tgt with
  | EDot t name OcNone =>
      let '(f, a, n1) := capture t n in
      cb (EDot f name OcNone) (EDot a name OcNone) n1
  | EIndex t k OcNone =>
      let '(tf, ta, n1) := capture t n in
      let '(kf, ka, n2) := capture k n1 in
      cb (EIndex tf kf OcNone) (EIndex ta ka OcNone) n2
  | EId x => cb (EId x) (EId x) n
  | _ => (tgt, n)       (* "garbage in, garbage out": returns the left operand *)
  end.

Definition lowerExpAsg (tgt v : expr) (n : Z) : expr * Z :=
  lowerAssignmentOperator tgt (fun a b n => (EAssign a (EPowCall b v), n)) n.

Definition lowerNullishAsg (F : feat) (tgt v : expr) (n : Z) : option (expr * Z) :=
  if f_logasg F then
    Some (lowerAssignmentOperator tgt (fun a b n =>
            if f_nullish F then lowerNullishCoalescing a (EAssign b v) n
            else (EBin BNullish a (EAssign b v), n)) n)
  else None.

Definition lowerLogicalAsg (F : feat) (op : binop) (tgt v : expr) (n : Z) : option (expr * Z) :=
  if f_logasg F then
    Some (lowerAssignmentOperator tgt (fun a b n => (EBin op a (EAssign b v), n)) n)
  else None.

(* ---- optional chains ---- *)

Inductive link := LDot (name : Z) | LIndex (k : expr) | LCall (args : list expr) | LDelete.

(* Step 1.  Result: start expression, links from the inside out, startsWithCall.
   The Go loop walks from the root towards the start and stops at the first
   OptionalChainStart; a node that is not EDot/EIndex/ECall/delete panics
   (None here; unreachable from visit). *)
Fixpoint flatten (e : expr) : option (expr * list link * bool) :=
  match e with
  | EDot t name o =>
      match o with
      | OcStart => Some (t, [LDot name], false)
      | _ => match flatten t with
             | Some (s, ls, c) => Some (s, ls ++ [LDot name], c)
             | None => None
             end
      end
  | EIndex t k o =>
      match o with
      | OcStart => Some (t, [LIndex k], false)
      | _ => match flatten t with
             | Some (s, ls, c) => Some (s, ls ++ [LIndex k], c)
             | None => None
             end
      end
  | ECall f args o =>
      match o with
      | OcStart => Some (f, [LCall args], true)
      | _ => match flatten f with
             | Some (s, ls, c) => Some (s, ls ++ [LCall args], c)
             | None => None
             end
      end
  | EDelete v =>
      match flatten v with
      | Some (s, ls, c) => Some (s, ls ++ [LDelete], c)
      | None => None
      end
  | _ => None
  end.

Record xin := mkIn { hasChainParent : bool; storeThis : bool }.
Record xout := mkOut { thisArg : option expr; childChain : bool }.
Definition out0 := mkOut None false.

Definition is_delete (e : expr) : bool := match e with EDelete _ => true | _ => false end.
Definition ends_with_access (e : expr) : bool :=
  match e with EDot _ _ _ | EIndex _ _ _ => true | _ => false end.

(* Step 4: wrap [result] by the links; [inner] is true for the innermost link
   (i == len(chain)-1), the outermost link is the last element (i == 0). *)
Fixpoint apply_links (ls : list link) (result : expr) (thisA : option expr) (inner : bool)
         (store : bool) (n : Z) : expr * option expr * Z :=
  match ls with
  | [] => (result, None, n)
  | l :: rest =>
      let outermost := match rest with [] => true | _ => false end in
      let '(result, parentThis, n) :=
        if outermost && store then
          let '(f, a, n1) := capture result n in (f, Some a, n1)
        else (result, None, n) in
      let result :=
        match l with
        | LDot name => EDot result name OcNone
        | LIndex k => EIndex result k OcNone
        | LCall args =>
            match inner, thisA with
            | true, Some t => ECallThis result t args
            | _, _ => ECall result args OcNone
            end
        | LDelete => EDelete result
        end in
      if outermost then (result, parentThis, n)
      else apply_links rest result thisA false store n
  end.

Definition lowerOptionalChain (F : feat) (e : expr) (i : xin) (childOut : xout) (n : Z)
  : expr * xout * Z :=
  match flatten e with
  | None => (e, out0, n)
  | Some (start, links, startsWithCall) =>
      let whenUndef := if is_delete e then EBool true else EUndef in
      match start with
      | ENull | EUndef => (whenUndef, out0, n)
      | _ =>
        if negb (f_optchain F) then (e, out0, n) else
        (* Step 2 *)
        let '(start, thisA, n) :=
          if startsWithCall then
            match thisArg childOut with
            | Some t => (start, Some t, n)
            | None =>
                match start with
                | EDot tg name _ =>
                    let '(f, a, n1) := capture tg n in (EDot f name OcNone, Some a, n1)
                | EIndex tg k _ =>
                    let '(f, a, n1) := capture tg n in (EIndex f k OcNone, Some a, n1)
                | _ => (start, None, n)
                end
            end
          else (start, None, n) in
        (* Step 3 *)
        let '(first, again, n) := capture start n in
        (* Step 4 *)
        let '(result, parentThis, n) :=
          apply_links links again thisA true (storeThis i && ends_with_access e) n in
        (* Step 5 *)
        (EIf (EEqNull false first) whenUndef result, mkOut parentThis false, n)
      end
  end.

(* ToNullOrUndefinedWithSideEffects: Some (isNullOrUndefined, noSideEffects) *)
Fixpoint to_null_or_undef (e : expr) : option (bool * bool) :=
  match e with
  | ENull | EUndef => Some (true, true)
  | EBool _ | ENum _ | EStr _ => Some (false, true)
  | EDelete _ => Some (false, false)
  | EEqNull _ _ => Some (false, false)
  | EBin BPow _ _ | EBin BSub _ _ => Some (false, false)
  | EOpAsg APow _ _ | EOpAsg ASub _ _ => Some (false, false)
  | EBin BComma _ r =>
      match to_null_or_undef r with
      | Some (isn, _) => Some (isn, false)
      | None => None
      end
  | _ => None
  end.

Definition is_chain_access (e : expr) : bool :=
  match e with
  | EDot _ _ o | EIndex _ _ o => negb (oc_eqb o OcNone)
  | _ => false
  end.

Definition keep_this (i : xin) (o : xout) : option expr :=
  if hasChainParent i then thisArg o else None.

Fixpoint visit (F : feat) (i : xin) (e : expr) (n : Z) {struct e} : expr * xout * Z :=
  let fix visit_list (l : list expr) (n : Z) {struct l} : list expr * Z :=
    match l with
    | [] => ([], n)
    | x :: r => let '(x', _, n1) := visit F (mkIn false false) x n in
                let '(r', n2) := visit_list r n1 in (x' :: r', n2)
    end in
  match e with
  | EDot t name o =>
      let '(t', out, n1) := visit F (mkIn (oc_eqb o OcCont) false) t n in
      let contains := oc_eqb o OcStart || (oc_eqb o OcCont && childChain out) in
      if contains && negb (hasChainParent i) then lowerOptionalChain F (EDot t' name o) i out n1
      else (EDot t' name o, mkOut (keep_this i out) contains, n1)
  | EIndex t k o =>
      let '(t', out, n1) := visit F (mkIn (oc_eqb o OcCont) false) t n in
      let '(k', _, n2) := visit F (mkIn false false) k n1 in
      let contains := oc_eqb o OcStart || (oc_eqb o OcCont && childChain out) in
      if contains && negb (hasChainParent i) then lowerOptionalChain F (EIndex t' k' o) i out n2
      else (EIndex t' k' o, mkOut (keep_this i out) contains, n2)
  | ECall f args o =>
      let isParen := oc_eqb o OcNone && is_chain_access f in
      let '(f', out, n1) := visit F (mkIn (oc_eqb o OcCont) (oc_eqb o OcStart || isParen)) f n in
      let '(args', n2) := visit_list args n1 in
      (* ECall.Kind records whether the callee was a property access when it was
         parsed; if folding ("null ?? a.b" => "a.b") turned a callee that was not
         one into one, js_printer prints "(0, a.b)(...)" so that this stays
         undefined.  A call that starts a chain which is about to be lowered is
         consumed by lowerOptionalChain (step 2) before it is ever printed. *)
      let f' := if negb (ends_with_access f) && ends_with_access f' &&
                   (oc_eqb o OcNone || negb (f_optchain F))
                then EBin BComma (ENum 0) f' else f' in
      match isParen, thisArg out with
      | true, Some t => (ECallThis f' t args', out0, n2)
      | _, _ =>
          let contains := oc_eqb o OcStart || (oc_eqb o OcCont && childChain out) in
          if contains && negb (hasChainParent i) then lowerOptionalChain F (ECall f' args' o) i out n2
          else (ECall f' args' o, mkOut (keep_this i out) contains, n2)
      end
  | ECallThis f t args =>
      let '(f', _, n1) := visit F (mkIn false false) f n in
      let '(t', _, n2) := visit F (mkIn false false) t n1 in
      let '(args', n3) := visit_list args n2 in
      (ECallThis f' t' args', out0, n3)
  | EDelete v =>
      let '(v', out, n1) := visit F (mkIn true false) v n in
      if childChain out then lowerOptionalChain F (EDelete v') i out n1
      else (EDelete v', out0, n1)
  | EAssign t v =>
      let '(t', _, n1) := visit F (mkIn false false) t n in
      let '(v', _, n2) := visit F (mkIn false false) v n1 in
      (EAssign t' v', out0, n2)
  | EBin op a b =>
      let '(a', _, n1) := visit F (mkIn false false) a n in
      let '(b', _, n2) := visit F (mkIn false false) b n1 in
      match op with
      | BNullish =>
          match to_null_or_undef a' with
          | Some (false, _) => (a', out0, n2)
          | Some (true, true) => (b', out0, n2)
          | _ =>
              if f_nullish F then let '(r, n3) := lowerNullishCoalescing a' b' n2 in (r, out0, n3)
              else (EBin BNullish a' b', out0, n2)
          end
      | BPow => if f_exp F then (EPowCall a' b', out0, n2) else (EBin BPow a' b', out0, n2)
      | _ => (EBin op a' b', out0, n2)
      end
  | EOpAsg op t v =>
      let '(t', _, n1) := visit F (mkIn false false) t n in
      let '(v', _, n2) := visit F (mkIn false false) v n1 in
      let keep := (EOpAsg op t' v', out0, n2) in
      match op with
      | APow => if f_exp F then let '(r, n3) := lowerExpAsg t' v' n2 in (r, out0, n3) else keep
      | ANullish => match lowerNullishAsg F t' v' n2 with Some (r, n3) => (r, out0, n3) | None => keep end
      | AOr => match lowerLogicalAsg F BOr t' v' n2 with Some (r, n3) => (r, out0, n3) | None => keep end
      | AAnd => match lowerLogicalAsg F BAnd t' v' n2 with Some (r, n3) => (r, out0, n3) | None => keep end
      | ASub => keep
      end
  | EIf c a b =>
      let '(c', _, n1) := visit F (mkIn false false) c n in
      let '(a', _, n2) := visit F (mkIn false false) a n1 in
      let '(b', _, n3) := visit F (mkIn false false) b n2 in
      (EIf c' a' b', out0, n3)
  | EEqNull neg v => let '(v', _, n1) := visit F (mkIn false false) v n in (EEqNull neg v', out0, n1)
  | EPowCall a b =>
      let '(a', _, n1) := visit F (mkIn false false) a n in
      let '(b', _, n2) := visit F (mkIn false false) b n1 in
      (EPowCall a' b', out0, n2)
  | _ => (e, out0, n)
  end.

Definition lower (F : feat) (e : expr) : expr := fst (fst (visit F (mkIn false false) e 0)).
