(* Congruence of the evaluator: every construct behaves the same when its
   operands are replaced by expressions that behave the same in every
   temporary store.  Together with the per-step theorems (Steps.v) this gives
   the whole-visitor theorem (Visit.v). *)
From V Require Import Common.Base C05.Syntax C05.Sem C05.Lower C05.Frame C05.SimLogic C05.Steps.

Section Compose.
  Variable S : Type.
  Variable w : world S.
  Variable th : val.
  Notation ev := (eval w th).
  Notation evl := (eval_list S w th).
  Notation simM := (simM S).

  Definition Lall : tpred := fun _ => True.
  Definition T0 : tstore -> Prop := fun _ => True.

  (* e' (possibly containing temporaries) behaves like e whatever the two
     temporary stores are; results related by P *)
  Definition R (P : out -> out -> Prop) (e' e : expr) : Prop :=
    simM Lall T0 (fun _ a b => P a b) (ev e') (ev e).
  Definition pv (a b : out) : Prop := valof a = valof b.
  Definition pb (a b : out) : Prop := valof a = valof b /\ baseof a = baseof b.
  Definition Rv := R pv.
  Definition Rb := R pb.
  Definition Rx := R eq.

  Lemma simM_pre_const {A B} (L : tpred) (P : Prop) (Post : tstore -> A -> B -> Prop) cl cn :
    (P -> simM L T0 Post cl cn) -> simM L (fun _ => P) Post cl cn.
  Proof. intros H m m0 s Hs p. apply (H p m m0 s Hs I). Qed.

  Lemma simM_pre_and {A B} (L : tpred) (P : Prop) (Post : tstore -> A -> B -> Prop) cl cn :
    (P -> simM L T0 Post cl cn) -> simM L (fun m => P /\ T0 m) Post cl cn.
  Proof. intros H m m0 s Hs [p _]. apply (H p m m0 s Hs I). Qed.

  Lemma R_weaken (P Q : out -> out -> Prop) e' e : (forall a b, P a b -> Q a b) -> R P e' e -> R Q e' e.
  Proof. intros HPQ H. eapply simM_conseq; [| | exact H]; cbn; auto. Qed.

  Lemma Rx_Rb e' e : Rx e' e -> Rb e' e.
  Proof. apply R_weaken. intros a b ->. split; reflexivity. Qed.
  Lemma Rb_Rv e' e : Rb e' e -> Rv e' e.
  Proof. apply R_weaken. intros a b [H _]. exact H. Qed.
  Lemma Rx_Rv e' e : Rx e' e -> Rv e' e.
  Proof. intro H. apply Rb_Rv, Rx_Rb, H. Qed.

  Ltac pre H := cbn beta; first [apply simM_pre_const | apply simM_pre_and]; intro H.
  Ltac lft := eapply simM_bind; [apply simM_lift |]; let a := fresh "x" in let b := fresh "x" in
              let E := fresh "E" in intros a b; pre E; subst.
  Ltac fin := apply simM_ret; intros; cbn; auto.

  (* a source expression behaves the same in every store *)
  Lemma R_refl e : tmps e = [] -> Rx e e.
  Proof.
    intros Ht m m0 s _ _. destruct (eval_framed S w th e) as [F _].
    assert (Ha : agree (tmps e) m m0) by (rewrite Ht; intros k []).
    specialize (F m m0 s Ha).
    destruct (ev e m s) as [[[t1 m1] s1] r1], (ev e m0 s) as [[[t2 m2] s2] r2].
    destruct F as (-> & -> & -> & _). repeat split; try (intros k Hk; exfalso; apply Hk; exact I).
    destruct r2; reflexivity.
  Qed.

  (* an observation-level step followed by a congruence *)
  Lemma obs_then_R lo mid e :
    (forall m s, observe (ev lo m s) = observe (ev mid m s)) -> Rv mid e -> Rv lo e.
  Proof.
    intros Ho Hr m m0 s Hs Hp. specialize (Ho m s). specialize (Hr m m0 s Hs Hp).
    destruct (ev lo m s) as [[[t1 m1] s1] r1], (ev mid m s) as [[[t2 m2] s2] r2],
             (ev e m0 s) as [[[t3 m3] s3] r3].
    cbn in Ho. destruct Hr as (-> & -> & _ & Hr).
    assert (t1 = t3 /\ s1 = s3) as [-> ->] by (split; congruence).
    repeat split; try (intros k Hk; exfalso; apply Hk; exact I).
    destruct r1 as [a | v], r2 as [b | v2], r3 as [c | v3]; try contradiction; try discriminate;
      unfold pv in *; cbn in *; congruence.
  Qed.

  (* ---- congruences ---- *)
  Lemma cong_dot t' t name : Rv t' t -> Rx (EDot t' name OcNone) (EDot t name OcNone).
  Proof.
    intro H. unfold Rx, R. cbn [eval access].
    eapply simM_bind; [exact H |]. intros a a0. pre E. unfold pv in E. rewrite E.
    lft. fin.
  Qed.

  Lemma cong_index t' t k' k : Rv t' t -> Rv k' k -> Rx (EIndex t' k' OcNone) (EIndex t k OcNone).
  Proof.
    intros H Hk. unfold Rx, R. cbn [eval access].
    eapply simM_bind; [exact H |]. intros a a0. pre E. unfold pv in E. rewrite E.
    eapply simM_bind; [exact Hk |]. intros b b0. pre E2. unfold pv in E2. rewrite E2.
    lft. fin.
  Qed.

  Lemma cong_list args' args :
    Forall2 Rv args' args -> simM Lall T0 (fun _ a b => a = b) (evl args') (evl args).
  Proof.
    induction 1 as [| x y l l' Hxy Hl IH]; cbn [eval_list].
    - fin.
    - eapply simM_bind; [exact Hxy |]. intros a a0. pre E. unfold pv in E. rewrite E.
      eapply simM_bind; [exact IH |]. intros vs vs0. pre E2. subst. fin.
  Qed.

  Lemma cong_call f' f args' args :
    Rb f' f -> Forall2 Rv args' args -> Rx (ECall f' args' OcNone) (ECall f args OcNone).
  Proof.
    intros H Ha. unfold Rx, R. cbn [eval access]. fold (evl args'). fold (evl args).
    eapply simM_bind; [exact H |]. intros a a0. pre E. destruct E as [E1 E2]. rewrite E1, E2.
    eapply simM_bind; [apply cong_list, Ha |]. intros vs vs0. pre E. subst.
    lft. fin.
  Qed.

  Lemma cong_delete_dot t' t name : Rv t' t -> Rx (EDelete (EDot t' name OcNone)) (EDelete (EDot t name OcNone)).
  Proof.
    intro H. unfold Rx, R. cbn [eval access].
    eapply simM_bind; [exact H |]. intros a a0. pre E. unfold pv in E. rewrite E.
    eapply simM_bind with (Mid := fun _ (a b : out) => a = b); [lft; fin |]. intros b b0. pre E2. subst. fin.
  Qed.

  Lemma cong_delete_index t' t k' k :
    Rv t' t -> Rv k' k -> Rx (EDelete (EIndex t' k' OcNone)) (EDelete (EIndex t k OcNone)).
  Proof.
    intros H Hk. unfold Rx, R. cbn [eval access].
    eapply simM_bind; [exact H |]. intros a a0. pre E. unfold pv in E. rewrite E.
    eapply simM_bind with (Mid := fun _ (a b : out) => a = b).
    - eapply simM_bind; [exact Hk |]. intros b b0. pre E2. unfold pv in E2. rewrite E2. lft. fin.
    - intros b b0. pre E2. subst. fin.
  Qed.

  Lemma cong_assign_id x v' v : Rv v' v -> Rx (EAssign (EId x) v') (EAssign (EId x) v).
  Proof.
    intro H. unfold Rx, R. cbn [eval].
    eapply simM_bind; [exact H |]. intros a a0. pre E. unfold pv in E. rewrite E. lft. fin.
  Qed.

  Lemma cong_assign_dot t' t name v' v :
    Rv t' t -> Rv v' v -> Rx (EAssign (EDot t' name OcNone) v') (EAssign (EDot t name OcNone) v).
  Proof.
    intros Ht H. unfold Rx, R. cbn [eval].
    eapply simM_bind; [exact Ht |]. intros b b0. pre E0. unfold pv in E0. rewrite E0.
    eapply simM_bind; [exact H |]. intros a a0. pre E. unfold pv in E. rewrite E. lft. fin.
  Qed.

  Lemma cong_assign_index t' t k' k v' v :
    Rv t' t -> Rv k' k -> Rv v' v ->
    Rx (EAssign (EIndex t' k' OcNone) v') (EAssign (EIndex t k OcNone) v).
  Proof.
    intros Ht Hk H. unfold Rx, R. cbn [eval].
    eapply simM_bind; [exact Ht |]. intros b b0. pre E0. unfold pv in E0. rewrite E0.
    eapply simM_bind; [exact Hk |]. intros c c0. pre E1. unfold pv in E1. rewrite E1.
    eapply simM_bind; [exact H |]. intros a a0. pre E. unfold pv in E. rewrite E. lft. fin.
  Qed.

  Lemma cong_bin op a' a b' b : Rv a' a -> Rv b' b -> Rx (EBin op a' b') (EBin op a b).
  Proof.
    intros Ha Hb. unfold Rx, R. destruct op; cbn [eval];
      (eapply simM_bind; [exact Ha |]); intros x x0; pre E; unfold pv in E; rewrite ?E;
      try match goal with |- context [if ?c then _ else _] => destruct c end;
      try solve [fin];
      (eapply simM_bind; [exact Hb |]); intros y y0; pre E2; unfold pv in E2; rewrite ?E2;
      try solve [fin]; lft; fin.
  Qed.

  Lemma cong_pow a' a b' b : Rv a' a -> Rv b' b -> Rx (EPowCall a' b') (EBin BPow a b).
  Proof.
    intros Ha Hb. unfold Rx, R. cbn [eval].
    eapply simM_bind; [exact Ha |]. intros x x0. pre E. unfold pv in E. rewrite E.
    eapply simM_bind; [exact Hb |]. intros y y0. pre E2. unfold pv in E2. rewrite E2. lft. fin.
  Qed.

  Lemma cong_opasg_core op lval (ev' ev0 : M S out) (st : val -> M S unit) :
    simM Lall T0 (fun _ a b => pv a b) ev' ev0 ->
    (forall x, simM Lall T0 (fun _ a b => a = b) (st x) (st x)) ->
    simM Lall T0 (fun _ a b => a = b) (opasg S w op lval ev' st) (opasg S w op lval ev0 st).
  Proof.
    intros He Hs. unfold opasg.
    assert (Hassign : simM Lall T0 (fun _ a b => a = b)
              (bind ev' (fun r => bind (st (valof r)) (fun _ => ret (ov (valof r)))))
              (bind ev0 (fun r => bind (st (valof r)) (fun _ => ret (ov (valof r)))))).
    { eapply simM_bind; [exact He |]. intros a a0. pre E. unfold pv in E. rewrite E.
      eapply simM_bind; [apply Hs |]. intros u u0. pre E2. fin. }
    assert (Harith : forall b, simM Lall T0 (fun _ a b => a = b)
              (bind ev' (fun r => bind (lift (w_binop w b lval (valof r))) (fun x => bind (st x) (fun _ => ret (ov x)))))
              (bind ev0 (fun r => bind (lift (w_binop w b lval (valof r))) (fun x => bind (st x) (fun _ => ret (ov x)))))).
    { intro b. eapply simM_bind; [exact He |]. intros a a0. pre E. unfold pv in E. rewrite E.
      lft. eapply simM_bind; [apply Hs |]. intros u u0. pre E2. fin. }
    destruct op.
    - destruct (nullish lval); [exact Hassign | fin].
    - destruct (truthy lval); [fin | exact Hassign].
    - destruct (truthy lval); [exact Hassign | fin].
    - apply Harith.
    - apply Harith.
  Qed.

  Lemma lift_self {A} (f : S -> list event * S * res A) :
    simM Lall T0 (fun _ a b => a = b) (lift f) (lift f).
  Proof. eapply simM_conseq; [| | apply (simM_lift S Lall T0 f)]; cbn; auto. intros m a b [H _]; exact H. Qed.

  Lemma cong_opasg_id op x v' v : Rv v' v -> Rx (EOpAsg op (EId x) v') (EOpAsg op (EId x) v).
  Proof.
    intro H. unfold Rx, R. cbn [eval]. lft.
    apply cong_opasg_core; [exact H | intro; apply lift_self].
  Qed.

  Lemma cong_opasg_dot op t' t name v' v :
    Rv t' t -> Rv v' v -> Rx (EOpAsg op (EDot t' name OcNone) v') (EOpAsg op (EDot t name OcNone) v).
  Proof.
    intros Ht H. unfold Rx, R. cbn [eval].
    eapply simM_bind; [exact Ht |]. intros b b0. pre E0. unfold pv in E0. rewrite E0.
    lft. apply cong_opasg_core; [exact H | intro; apply lift_self].
  Qed.

  Lemma cong_opasg_index op t' t k' k v' v :
    Rv t' t -> Rv k' k -> Rv v' v ->
    Rx (EOpAsg op (EIndex t' k' OcNone) v') (EOpAsg op (EIndex t k OcNone) v).
  Proof.
    intros Ht Hk H. unfold Rx, R. cbn [eval].
    eapply simM_bind; [exact Ht |]. intros b b0. pre E0. unfold pv in E0. rewrite E0.
    eapply simM_bind; [exact Hk |]. intros c c0. pre E1. unfold pv in E1. rewrite E1.
    lft. apply cong_opasg_core; [exact H | intro; apply lift_self].
  Qed.

  (* (0, f) behaves like f but never has a base *)
  Lemma cong_comma0 f' f : Rv f' f -> Rv (EBin BComma (ENum 0) f') f.
  Proof.
    intro H. unfold Rv, R. cbn [eval]. apply simM_ret_l.
    intros m m0 s Hs Hp. specialize (H m m0 s Hs Hp). unfold bind.
    destruct (ev f' m s) as [[[t1 m1] s1] r1], (ev f m0 s) as [[[t2 m2] s2] r2].
    destruct H as (-> & -> & Hs' & Hr). cbn.
    destruct r1, r2; try contradiction; rewrite ?app_nil_r; repeat split; auto.
  Qed.
End Compose.
