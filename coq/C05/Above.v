(* Lower bounds on temporaries: everything visit creates from counter n on is
   numbered >= n (purely syntactic fact about the model). *)
From V Require Import Common.Base C05.Syntax C05.Lower.

Definition above (n : Z) (e : expr) : Prop := forall j, In j (tmps e) -> n <= j.

Lemma above_mono n n' e : n' <= n -> above n e -> above n' e.
Proof. intros Hn H j Hj. specialize (H j Hj). lia. Qed.

Ltac abv :=
  let j := fresh "j" in let Hj := fresh "Hj" in
  intros j Hj; cbn [tmps flat_map] in Hj; rewrite ?in_app_iff in Hj;
  repeat match goal with H : _ \/ _ |- _ => destruct H end;
  try contradiction;
  match goal with
  | H : In j (tmps ?e), B : above _ ?e |- _ => specialize (B j H); lia
  | H : In j [?k] |- _ => destruct H as [<- | []]; lia
  end.

Lemma capture_above t n f a n1 lo : capture t n = (f, a, n1) -> above lo t -> lo <= n ->
  above lo f /\ above lo a /\ n <= n1.
Proof.
  unfold capture. destruct (is_inline_value t); intros H Ha Hl; injection H as <- <- <-.
  - repeat split; auto; lia.
  - repeat split; try lia; abv.
Qed.

Lemma lowerNullish_above a b n r n1 lo :
  above lo a -> above lo b -> lo <= n -> lowerNullishCoalescing a b n = (r, n1) -> above lo r /\ n <= n1.
Proof.
  intros Ha Hb Hl. unfold lowerNullishCoalescing.
  destruct (capture a n) as [[f ag] k] eqn:Hc. intro E; injection E as <- <-.
  destruct (capture_above a n f ag k lo Hc Ha Hl) as (Hf & Hag & Hk). split; [abv | lia].
Qed.

Lemma lao_above tgt (cb : expr -> expr -> Z -> expr * Z) n r n1 lo :
  (forall a b k r' k', above lo a -> above lo b -> lo <= k -> cb a b k = (r', k') -> above lo r' /\ k <= k') ->
  above lo tgt -> lo <= n -> lowerAssignmentOperator tgt cb n = (r, n1) -> above lo r /\ n <= n1.
Proof.
  intros Hcb Ht Hl. unfold lowerAssignmentOperator.
  destruct tgt; try (intro E; injection E as <- <-; split; [exact Ht | lia]).
  - intro E. apply (Hcb _ _ _ _ _ Ht Ht Hl E).
  - destruct o; try (intro E; injection E as <- <-; split; [exact Ht | lia]).
    destruct (capture tgt n) as [[f a] k] eqn:Hc.
    destruct (capture_above tgt n f a k lo Hc Ht Hl) as (Hf & Ha & Hk).
    intro E. apply Hcb in E; [destruct E; split; [assumption | lia] | exact Hf | exact Ha | lia].
  - destruct o; try (intro E; injection E as <- <-; split; [exact Ht | lia]).
    assert (H1 : above lo tgt1) by (intros j Hj; apply Ht; cbn; apply in_app_iff; auto).
    assert (H2 : above lo tgt2) by (intros j Hj; apply Ht; cbn; apply in_app_iff; auto).
    destruct (capture tgt1 n) as [[f a] k] eqn:Hc.
    destruct (capture_above tgt1 n f a k lo Hc H1 Hl) as (Hf & Ha & Hk).
    destruct (capture tgt2 k) as [[kf ka] k2] eqn:Hck.
    destruct (capture_above tgt2 k kf ka k2 lo Hck H2 ltac:(lia)) as (Hkf & Hka & Hk2).
    intro E. apply Hcb in E; [destruct E; split; [assumption | lia] | abv | abv | lia].
Qed.

Lemma lowerExpAsg_above tgt v n lo :
  above lo tgt -> above lo v -> lo <= n ->
  above lo (fst (lowerExpAsg tgt v n)) /\ n <= snd (lowerExpAsg tgt v n).
Proof.
  intros Ht Hv Hl. unfold lowerExpAsg.
  destruct (lowerAssignmentOperator tgt (fun a b n0 => (EAssign a (EPowCall b v), n0)) n) as [r n1] eqn:E.
  apply (lao_above tgt _ n r n1 lo) in E; auto.
  intros a b k r' k' Ha Hb Hk E'. injection E' as <- <-. split; [abv | lia].
Qed.

Lemma lowerLogicalAsg_above F op tgt v n r lo :
  above lo tgt -> above lo v -> lo <= n -> lowerLogicalAsg F op tgt v n = Some r ->
  above lo (fst r) /\ n <= snd r.
Proof.
  intros Ht Hv Hl. unfold lowerLogicalAsg. destruct (f_logasg F); [| discriminate].
  intro E; injection E as <-.
  destruct (lowerAssignmentOperator tgt (fun a b n0 => (EBin op a (EAssign b v), n0)) n) as [r n1] eqn:E.
  apply (lao_above tgt _ n r n1 lo) in E; auto.
  intros a b k r' k' Ha Hb Hk E'. injection E' as <- <-. split; [abv | lia].
Qed.

Lemma lowerNullishAsg_above F tgt v n r lo :
  above lo tgt -> above lo v -> lo <= n -> lowerNullishAsg F tgt v n = Some r ->
  above lo (fst r) /\ n <= snd r.
Proof.
  intros Ht Hv Hl. unfold lowerNullishAsg. destruct (f_logasg F); [| discriminate].
  intro E; injection E as <-.
  match goal with |- above lo (fst ?x) /\ _ => destruct x as [r n1] eqn:E end.
  apply (lao_above tgt _ n r n1 lo) in E; auto.
  intros a b k r' k' Ha Hb Hk E'. destruct (f_nullish F).
  - apply (lowerNullish_above a (EAssign b v) k r' k' lo Ha) in E'; [exact E' | abv | exact Hk].
  - injection E' as <- <-. split; [abv | lia].
Qed.

(* ---- chains ---- *)
Definition ltmps (l : link) : list Z :=
  match l with LDot _ => [] | LIndex k => tmps k | LCall args => flat_map tmps args | LDelete => [] end.
Definition links_above (lo : Z) (ls : list link) : Prop :=
  forall l, In l ls -> forall j, In j (ltmps l) -> lo <= j.

Lemma flatten_above e : forall lo start ls swc, above lo e -> flatten e = Some (start, ls, swc) ->
  above lo start /\ links_above lo ls.
Proof.
  induction e using expr_ind'; intros lo start ls swc Hb E; cbn [flatten] in E; try discriminate E.
  - destruct o.
    + destruct (flatten e) as [[[st ls0] c0] |] eqn:E0; [| discriminate E]. injection E as <- <- <-.
      destruct (IHe lo st ls0 c0 Hb eq_refl) as [H1 H2]. split; [exact H1 |].
      intros l Hl j Hj. apply in_app_iff in Hl. destruct Hl as [Hl | [<- | []]]; [apply (H2 l Hl j Hj) | contradiction].
    + injection E as <- <- <-. split; [exact Hb |]. intros l [<- | []] j Hj. contradiction.
    + destruct (flatten e) as [[[st ls0] c0] |] eqn:E0; [| discriminate E]. injection E as <- <- <-.
      destruct (IHe lo st ls0 c0 Hb eq_refl) as [H1 H2]. split; [exact H1 |].
      intros l Hl j Hj. apply in_app_iff in Hl. destruct Hl as [Hl | [<- | []]]; [apply (H2 l Hl j Hj) | contradiction].
  - assert (Hb1 : above lo e1) by (intros j Hj; apply Hb; cbn; apply in_app_iff; auto).
    assert (Hb2 : above lo e2) by (intros j Hj; apply Hb; cbn; apply in_app_iff; auto).
    destruct o.
    + destruct (flatten e1) as [[[st ls0] c0] |] eqn:E0; [| discriminate E]. injection E as <- <- <-.
      destruct (IHe1 lo st ls0 c0 Hb1 eq_refl) as [H1 H2]. split; [exact H1 |].
      intros l Hl j Hj. apply in_app_iff in Hl. destruct Hl as [Hl | [<- | []]]; [apply (H2 l Hl j Hj) | apply Hb2, Hj].
    + injection E as <- <- <-. split; [exact Hb1 |]. intros l [<- | []] j Hj. apply Hb2, Hj.
    + destruct (flatten e1) as [[[st ls0] c0] |] eqn:E0; [| discriminate E]. injection E as <- <- <-.
      destruct (IHe1 lo st ls0 c0 Hb1 eq_refl) as [H1 H2]. split; [exact H1 |].
      intros l Hl j Hj. apply in_app_iff in Hl. destruct Hl as [Hl | [<- | []]]; [apply (H2 l Hl j Hj) | apply Hb2, Hj].
  - assert (Hb1 : above lo e) by (intros j Hj; apply Hb; cbn; apply in_app_iff; auto).
    assert (Hb2 : forall j, In j (flat_map tmps args) -> lo <= j) by (intros j Hj; apply Hb; cbn; apply in_app_iff; auto).
    destruct o.
    + destruct (flatten e) as [[[st ls0] c0] |] eqn:E0; [| discriminate E]. injection E as <- <- <-.
      destruct (IHe lo st ls0 c0 Hb1 eq_refl) as [H1 H2]. split; [exact H1 |].
      intros l Hl j Hj. apply in_app_iff in Hl. destruct Hl as [Hl | [<- | []]]; [apply (H2 l Hl j Hj) | apply Hb2, Hj].
    + injection E as <- <- <-. split; [exact Hb1 |]. intros l [<- | []] j Hj. apply Hb2, Hj.
    + destruct (flatten e) as [[[st ls0] c0] |] eqn:E0; [| discriminate E]. injection E as <- <- <-.
      destruct (IHe lo st ls0 c0 Hb1 eq_refl) as [H1 H2]. split; [exact H1 |].
      intros l Hl j Hj. apply in_app_iff in Hl. destruct Hl as [Hl | [<- | []]]; [apply (H2 l Hl j Hj) | apply Hb2, Hj].
  - destruct (flatten e) as [[[st ls0] c0] |] eqn:E0; [| discriminate E]. injection E as <- <- <-.
    destruct (IHe lo st ls0 c0 Hb eq_refl) as [H1 H2]. split; [exact H1 |].
    intros l Hl j Hj. apply in_app_iff in Hl. destruct Hl as [Hl | [<- | []]]; [apply (H2 l Hl j Hj) | contradiction].
Qed.

Lemma link_apply_above lo l result (thisA : option expr) (inner : bool) :
  above lo result -> (forall t, thisA = Some t -> above lo t) -> (forall j, In j (ltmps l) -> lo <= j) ->
  above lo (match l with
            | LDot name => EDot result name OcNone
            | LIndex k => EIndex result k OcNone
            | LCall args => match inner, thisA with
                            | true, Some t => ECallThis result t args
                            | _, _ => ECall result args OcNone
                            end
            | LDelete => EDelete result
            end).
Proof.
  intros Hr Ht Hl. destruct l; cbn [ltmps] in Hl.
  - exact Hr.
  - intros j Hj. cbn in Hj. apply in_app_iff in Hj. destruct Hj; [apply Hr | apply Hl]; assumption.
  - destruct inner, thisA as [t |]; intros j Hj; cbn in Hj; rewrite ?in_app_iff in Hj;
      repeat match goal with H : _ \/ _ |- _ => destruct H end;
      first [apply Hr; assumption | apply Hl; assumption | apply (Ht t eq_refl); assumption].
  - exact Hr.
Qed.

Lemma apply_links_above ls : forall lo result thisA inner store n res pth n4,
  apply_links ls result thisA inner store n = (res, pth, n4) ->
  above lo result -> (forall t, thisA = Some t -> above lo t) -> links_above lo ls -> lo <= n ->
  above lo res /\ (forall t, pth = Some t -> above lo t) /\ n <= n4.
Proof.
  induction ls as [| l rest IH]; intros lo result thisA inner store n res pth n4 E Hr Ht Hl Hlo; cbn [apply_links] in E.
  - injection E as <- <- <-. split; [exact Hr |]. split; [intros t Hpt; discriminate Hpt | lia].
  - assert (Hl1 : forall j, In j (ltmps l) -> lo <= j) by (apply Hl; left; reflexivity).
    assert (Hlr : links_above lo rest) by (intros x Hx; apply Hl; right; exact Hx).
    destruct rest as [| l2 rest2].
    + destruct (true && store) eqn:Est.
      * destruct (capture result n) as [[f a] n1] eqn:Hc.
        destruct (capture_above result n f a n1 lo Hc Hr Hlo) as (Hf & Ha & Hn1).
        injection E as <- <- <-. split; [apply link_apply_above; assumption |].
        split; [intros t Hpt; injection Hpt as <-; exact Ha | lia].
      * injection E as <- <- <-. split; [apply link_apply_above; assumption |].
        split; [intros t Hpt; discriminate Hpt | lia].
    + cbn [andb] in E. apply IH with (lo := lo) in E; auto. apply link_apply_above; assumption.
Qed.

Lemma loc_above F e0 i childOut n lo_e o n' lo :
  lowerOptionalChain F e0 i childOut n = (lo_e, o, n') ->
  above lo e0 -> (forall t, thisArg childOut = Some t -> above lo t) -> lo <= n ->
  above lo lo_e /\ (forall t, thisArg o = Some t -> above lo t) /\ n <= n'.
Proof.
  intros E Hb Ht Hlo. unfold lowerOptionalChain in E.
  destruct (flatten e0) as [[[start links] swc] |] eqn:Hfl.
  2: { injection E as <- <- <-. split; [exact Hb |]. split; [intros t H; discriminate H | lia]. }
  destruct (flatten_above e0 lo start links swc Hb Hfl) as [Hbs Hbl].
  assert (Hwhen : above lo (if is_delete e0 then EBool true else EUndef)).
  { destruct (is_delete e0); intros j Hj; cbn in Hj; contradiction. }
  assert (Hdead : (lo_e, o, n') = ((if is_delete e0 then EBool true else EUndef), out0, n) ->
                  above lo lo_e /\ (forall t, thisArg o = Some t -> above lo t) /\ n <= n').
  { intro E'. injection E' as -> -> ->. split; [exact Hwhen |]. split; [intros t H; discriminate H | lia]. }
  assert (Hmain : (if negb (f_optchain F) then (e0, out0, n) else
            let '(start0, thisA, n0) :=
              if swc then
                match thisArg childOut with
                | Some t => (start, Some t, n)
                | None =>
                    match start with
                    | EDot tg name _ => let '(f, a, n1) := capture tg n in (EDot f name OcNone, Some a, n1)
                    | EIndex tg k _ => let '(f, a, n1) := capture tg n in (EIndex f k OcNone, Some a, n1)
                    | _ => (start, None, n)
                    end
                end
              else (start, None, n) in
            let '(first, again, n1) := capture start0 n0 in
            let '(result, parentThis, n2) :=
              apply_links links again thisA true (storeThis i && ends_with_access e0) n1 in
            (EIf (EEqNull false first) (if is_delete e0 then EBool true else EUndef) result,
             mkOut parentThis false, n2)) = (lo_e, o, n') ->
          above lo lo_e /\ (forall t, thisArg o = Some t -> above lo t) /\ n <= n').
  { destruct (negb (f_optchain F)).
    { intro E'. injection E' as <- <- <-. split; [exact Hb |]. split; [intros t H; discriminate H | lia]. }
    assert (Hstep : forall start0 thisA n0, n <= n0 -> above lo start0 ->
              (forall t, thisA = Some t -> above lo t) ->
              (let '(first, again, n1) := capture start0 n0 in
               let '(result, parentThis, n2) :=
                 apply_links links again thisA true (storeThis i && ends_with_access e0) n1 in
               (EIf (EEqNull false first) (if is_delete e0 then EBool true else EUndef) result,
                mkOut parentThis false, n2)) = (lo_e, o, n') ->
              above lo lo_e /\ (forall t, thisArg o = Some t -> above lo t) /\ n <= n').
    { intros start0 thisA n0 Hn0 Hb0 Ht0.
      destruct (capture start0 n0) as [[first again] n1] eqn:Hc.
      destruct (capture_above start0 n0 first again n1 lo Hc Hb0 ltac:(lia)) as (Hbf & Hba & Hn1).
      destruct (apply_links links again thisA true (storeThis i && ends_with_access e0) n1) as [[result pth] n2] eqn:Hal.
      intro E'. injection E' as <- <- <-.
      destruct (apply_links_above links lo again thisA true _ n1 result pth n2 Hal Hba Ht0 Hbl ltac:(lia)) as (Hbr & Hbp & Hn2).
      split; [| split; [exact Hbp | lia]].
      intros j Hj. cbn in Hj. rewrite !in_app_iff in Hj. destruct Hj as [Hj | [Hj | Hj]];
        [apply Hbf, Hj | apply Hwhen, Hj | apply Hbr, Hj]. }
    destruct swc; [| apply Hstep; [lia | exact Hbs | intros t H; discriminate H]].
    destruct (thisArg childOut) as [t |] eqn:Hta.
    { apply Hstep; [lia | exact Hbs |]. intros t' H. injection H as <-. apply Ht. reflexivity. }
    destruct start; try (apply Hstep; [lia | exact Hbs | intros t H; discriminate H]).
    - cbn in Hbs. destruct (capture start n) as [[f a] n1] eqn:Hc.
      destruct (capture_above start n f a n1 lo Hc Hbs Hlo) as (Hbf & Hba & Hn1).
      apply Hstep; [lia | exact Hbf |]. intros t H. injection H as <-. exact Hba.
    - assert (Hb1 : above lo start1) by (intros j Hj; apply Hbs; cbn; apply in_app_iff; auto).
      assert (Hb2 : above lo start2) by (intros j Hj; apply Hbs; cbn; apply in_app_iff; auto).
      destruct (capture start1 n) as [[f a] n1] eqn:Hc.
      destruct (capture_above start1 n f a n1 lo Hc Hb1 Hlo) as (Hbf & Hba & Hn1).
      apply Hstep; [lia | | intros t H; injection H as <-; exact Hba].
      intros j Hj. cbn in Hj. apply in_app_iff in Hj. destruct Hj as [Hj | Hj]; [apply Hbf, Hj | apply Hb2, Hj]. }
  destruct start; try (apply Hmain; exact E); apply Hdead; symmetry; exact E.
Qed.

(* ---- the visitor ---- *)
Definition vres (lo n : Z) (r : expr * xout * Z) : Prop :=
  match r with (e', o, n') => above lo e' /\ (forall t, thisArg o = Some t -> above lo t) /\ n <= n' end.

Section VA.
Variable F : feat.

Fixpoint vlist' (l : list expr) (n : Z) : list expr * Z :=
  match l with
  | [] => ([], n)
  | x :: r => let '(x', _, n1) := visit F (mkIn false false) x n in
              let '(r', n2) := vlist' r n1 in (x' :: r', n2)
  end.

Lemma keep_this_above lo i o : (forall t, thisArg o = Some t -> above lo t) ->
  forall t, keep_this i o = Some t -> above lo t.
Proof. unfold keep_this. destruct (hasChainParent i); [auto | intros _ t H; discriminate H]. Qed.

Theorem visit_above : forall e lo i n, above lo e -> lo <= n -> vres lo n (visit F i e n).
Proof.
  induction e using expr_ind'; intros lo i c Ha Hlo; cbn [visit]; unfold vres.
  1-8: (split; [exact Ha |]; split; [intros t H; discriminate H | lia]).
  - (* EDot *)
    specialize (IHe lo (mkIn (oc_eqb o OcCont) false) c Ha Hlo).
    destruct (visit F (mkIn (oc_eqb o OcCont) false) e c) as [[t' ot] n1]. destruct IHe as (H1 & H2 & H3).
    match goal with |- context [if ?b then _ else _] => destruct b end.
    + destruct (lowerOptionalChain F (EDot t' name o) i ot n1) as [[lo_e o2] n'] eqn:El.
      destruct (loc_above F _ i ot n1 lo_e o2 n' lo El H1 H2 ltac:(lia)) as (G1 & G2 & G3). split; [exact G1 |]. split; [exact G2 | lia].
    + split; [exact H1 |]. split; [apply keep_this_above, H2 | exact H3].
  - (* EIndex *)
    assert (Ha1 : above lo e1) by (intros j Hj; apply Ha; cbn; apply in_app_iff; auto).
    assert (Ha2 : above lo e2) by (intros j Hj; apply Ha; cbn; apply in_app_iff; auto).
    specialize (IHe1 lo (mkIn (oc_eqb o OcCont) false) c Ha1 Hlo).
    destruct (visit F (mkIn (oc_eqb o OcCont) false) e1 c) as [[t' ot] n1]. destruct IHe1 as (H1 & H2 & H3).
    specialize (IHe2 lo (mkIn false false) n1 Ha2 ltac:(lia)).
    destruct (visit F (mkIn false false) e2 n1) as [[k' ok] n2]. destruct IHe2 as (K1 & _ & K3).
    assert (Hnode : above lo (EIndex t' k' o)) by abv.
    match goal with |- context [if ?b then _ else _] => destruct b end.
    + destruct (lowerOptionalChain F (EIndex t' k' o) i ot n2) as [[lo_e o2] n'] eqn:El.
      destruct (loc_above F _ i ot n2 lo_e o2 n' lo El Hnode H2 ltac:(lia)) as (G1 & G2 & G3). split; [exact G1 |]. split; [exact G2 | lia].
    + split; [exact Hnode |]. split; [apply keep_this_above, H2 | lia].
  - (* ECall *)
    fold (vlist' args).
    assert (Ha1 : above lo e) by (intros j Hj; apply Ha; cbn; apply in_app_iff; auto).
    assert (Ha2 : forall j, In j (flat_map tmps args) -> lo <= j) by (intros j Hj; apply Ha; cbn; apply in_app_iff; auto).
    match goal with |- context [visit F ?ii e c] => specialize (IHe lo ii c Ha1 Hlo); destruct (visit F ii e c) as [[f' of] n1] end.
    destruct IHe as (H1 & H2 & H3).
    assert (Hl : forall n0, lo <= n0 -> match vlist' args n0 with (args', n2) =>
                  (forall j, In j (flat_map tmps args') -> lo <= j) /\ n0 <= n2 end).
    { clear - H Ha2. induction H as [| x l Hx Hl IH]; intros n0 Hn0; cbn [vlist'].
      - split; [intros j [] | lia].
      - assert (Hax : above lo x) by (intros j Hj; apply Ha2; cbn; apply in_app_iff; auto).
        assert (Hal : forall j, In j (flat_map tmps l) -> lo <= j) by (intros j Hj; apply Ha2; cbn; apply in_app_iff; auto).
        specialize (Hx lo (mkIn false false) n0 Hax Hn0).
        destruct (visit F (mkIn false false) x n0) as [[x' ox] n1]. destruct Hx as (X1 & _ & X3).
        specialize (IH Hal n1 ltac:(lia)). destruct (vlist' l n1) as [l' n2]. destruct IH as [I1 I2].
        split; [| lia]. intros j Hj. cbn in Hj. apply in_app_iff in Hj. destruct Hj; [apply X1 | apply I1]; assumption. }
    specialize (Hl n1 ltac:(lia)). destruct (vlist' args n1) as [args' n2]. destruct Hl as [L1 L2].
    set (f'' := if negb (ends_with_access e) && ends_with_access f' && (oc_eqb o OcNone || negb (f_optchain F))
                then EBin BComma (ENum 0) f' else f').
    assert (Hf'' : above lo f'').
    { unfold f''. match goal with |- context [if ?b then _ else _] => destruct b end; [abv | exact H1]. }
    assert (Hnode : above lo (ECall f'' args' o)).
    { intros j Hj. cbn in Hj. apply in_app_iff in Hj. destruct Hj; [apply Hf'' | apply L1]; assumption. }
    destruct (oc_eqb o OcNone && is_chain_access e); [destruct (thisArg of) as [t |] eqn:Et |].
    + split; [| split; [intros t0 Hx; discriminate Hx | lia]].
      intros j Hj. cbn in Hj. rewrite !in_app_iff in Hj. destruct Hj as [Hj | [Hj | Hj]];
        [apply Hf'', Hj | apply (H2 t eq_refl), Hj | apply L1, Hj].
    + assert (H2' : forall t, thisArg of = Some t -> above lo t) by (intros t Hx; rewrite Et in Hx; discriminate Hx).
      match goal with |- context [if ?b then _ else _] => destruct b end.
      * destruct (lowerOptionalChain F (ECall f'' args' o) i of n2) as [[lo_e o2] n'] eqn:El.
        destruct (loc_above F _ i of n2 lo_e o2 n' lo El Hnode H2' ltac:(lia)) as (G1 & G2 & G3). split; [exact G1 |]. split; [exact G2 | lia].
      * split; [exact Hnode |]. split; [apply keep_this_above, H2' | lia].
    + match goal with |- context [if ?b then _ else _] => destruct b end.
      * destruct (lowerOptionalChain F (ECall f'' args' o) i of n2) as [[lo_e o2] n'] eqn:El.
        destruct (loc_above F _ i of n2 lo_e o2 n' lo El Hnode H2 ltac:(lia)) as (G1 & G2 & G3). split; [exact G1 |]. split; [exact G2 | lia].
      * split; [exact Hnode |]. split; [apply keep_this_above, H2 | lia].
  - (* ECallThis *)
    fold (vlist' args).
    assert (Ha1 : above lo e1) by (intros j Hj; apply Ha; cbn; apply in_app_iff; auto).
    assert (Ha2 : above lo e2) by (intros j Hj; apply Ha; cbn; rewrite !in_app_iff; auto).
    assert (Ha3 : forall j, In j (flat_map tmps args) -> lo <= j) by (intros j Hj; apply Ha; cbn; rewrite !in_app_iff; auto).
    specialize (IHe1 lo (mkIn false false) c Ha1 Hlo).
    destruct (visit F (mkIn false false) e1 c) as [[f' of] n1]. destruct IHe1 as (H1 & _ & H3).
    specialize (IHe2 lo (mkIn false false) n1 Ha2 ltac:(lia)).
    destruct (visit F (mkIn false false) e2 n1) as [[t' ot] n2]. destruct IHe2 as (K1 & _ & K3).
    assert (Hl : forall n0, lo <= n0 -> match vlist' args n0 with (args', n3) =>
                  (forall j, In j (flat_map tmps args') -> lo <= j) /\ n0 <= n3 end).
    { clear - H Ha3. induction H as [| x l Hx Hl IH]; intros n0 Hn0; cbn [vlist'].
      - split; [intros j [] | lia].
      - assert (Hax : above lo x) by (intros j Hj; apply Ha3; cbn; apply in_app_iff; auto).
        assert (Hal : forall j, In j (flat_map tmps l) -> lo <= j) by (intros j Hj; apply Ha3; cbn; apply in_app_iff; auto).
        specialize (Hx lo (mkIn false false) n0 Hax Hn0).
        destruct (visit F (mkIn false false) x n0) as [[x' ox] n1]. destruct Hx as (X1 & _ & X3).
        specialize (IH Hal n1 ltac:(lia)). destruct (vlist' l n1) as [l' n2]. destruct IH as [I1 I2].
        split; [| lia]. intros j Hj. cbn in Hj. apply in_app_iff in Hj. destruct Hj; [apply X1 | apply I1]; assumption. }
    specialize (Hl n2 ltac:(lia)). destruct (vlist' args n2) as [args' n3]. destruct Hl as [L1 L2].
    split; [| split; [intros t Hx; discriminate Hx | lia]].
    intros j Hj. cbn in Hj. rewrite !in_app_iff in Hj. destruct Hj as [Hj | [Hj | Hj]]; [apply H1 | apply K1 | apply L1]; assumption.
  - (* EDelete *)
    specialize (IHe lo (mkIn true false) c Ha Hlo).
    destruct (visit F (mkIn true false) e c) as [[v' ov] n1]. destruct IHe as (H1 & H2 & H3).
    destruct (childChain ov).
    + destruct (lowerOptionalChain F (EDelete v') i ov n1) as [[lo_e o2] n'] eqn:El.
      destruct (loc_above F _ i ov n1 lo_e o2 n' lo El H1 H2 ltac:(lia)) as (G1 & G2 & G3). split; [exact G1 |]. split; [exact G2 | lia].
    + split; [exact H1 |]. split; [intros t Hx; discriminate Hx | lia].
  - (* EAssign *)
    assert (Ha1 : above lo e1) by (intros j Hj; apply Ha; cbn; apply in_app_iff; auto).
    assert (Ha2 : above lo e2) by (intros j Hj; apply Ha; cbn; apply in_app_iff; auto).
    specialize (IHe1 lo (mkIn false false) c Ha1 Hlo).
    destruct (visit F (mkIn false false) e1 c) as [[t' ot] n1]. destruct IHe1 as (H1 & _ & H3).
    specialize (IHe2 lo (mkIn false false) n1 Ha2 ltac:(lia)).
    destruct (visit F (mkIn false false) e2 n1) as [[v' ov] n2]. destruct IHe2 as (K1 & _ & K3).
    split; [abv | split; [intros t Hx; discriminate Hx | lia]].
  - (* EBin *)
    assert (Ha1 : above lo e1) by (intros j Hj; apply Ha; cbn; apply in_app_iff; auto).
    assert (Ha2 : above lo e2) by (intros j Hj; apply Ha; cbn; apply in_app_iff; auto).
    specialize (IHe1 lo (mkIn false false) c Ha1 Hlo).
    destruct (visit F (mkIn false false) e1 c) as [[a' oa] n1]. destruct IHe1 as (H1 & _ & H3).
    specialize (IHe2 lo (mkIn false false) n1 Ha2 ltac:(lia)).
    destruct (visit F (mkIn false false) e2 n1) as [[b' ob] n2]. destruct IHe2 as (K1 & _ & K3).
    assert (Hk : forall op', above lo (EBin op' a' b')) by (intro; abv).
    assert (Hlow : match (let '(r, n3) := lowerNullishCoalescing a' b' n2 in (r, out0, n3)) with
                   | (e', o, n') => above lo e' /\ (forall t, thisArg o = Some t -> above lo t) /\ c <= n' end).
    { destruct (lowerNullishCoalescing a' b' n2) as [r n3] eqn:El.
      destruct (lowerNullish_above a' b' n2 r n3 lo H1 K1 ltac:(lia) El) as [G1 G2].
      split; [exact G1 | split; [intros t Hx; discriminate Hx | lia]]. }
    destruct op; try (split; [apply Hk | split; [intros t Hx; discriminate Hx | lia]]).
    + destruct (to_null_or_undef a') as [[[|] [|]] |];
        try (split; [exact H1 | split; [intros t Hx; discriminate Hx | lia]]);
        try (split; [exact K1 | split; [intros t Hx; discriminate Hx | lia]]);
        (destruct (f_nullish F); [exact Hlow | split; [apply Hk | split; [intros t Hx; discriminate Hx | lia]]]).
    + destruct (f_exp F); [split; [abv | split; [intros t Hx; discriminate Hx | lia]]
                          | split; [apply Hk | split; [intros t Hx; discriminate Hx | lia]]].
  - (* EOpAsg *)
    assert (Ha1 : above lo e1) by (intros j Hj; apply Ha; cbn; apply in_app_iff; auto).
    assert (Ha2 : above lo e2) by (intros j Hj; apply Ha; cbn; apply in_app_iff; auto).
    specialize (IHe1 lo (mkIn false false) c Ha1 Hlo).
    destruct (visit F (mkIn false false) e1 c) as [[t' ot] n1]. destruct IHe1 as (H1 & _ & H3).
    specialize (IHe2 lo (mkIn false false) n1 Ha2 ltac:(lia)).
    destruct (visit F (mkIn false false) e2 n1) as [[v' ov] n2]. destruct IHe2 as (K1 & _ & K3).
    assert (Hkeep : above lo (EOpAsg op t' v') /\ (forall t, thisArg out0 = Some t -> above lo t) /\ c <= n2).
    { split; [abv | split; [intros t Hx; discriminate Hx | lia]]. }
    destruct op.
    + destruct (lowerNullishAsg F t' v' n2) as [[r n3] |] eqn:El; [| exact Hkeep].
      destruct (lowerNullishAsg_above F t' v' n2 (r, n3) lo H1 K1 ltac:(lia) El) as [G1 G2]. cbn in G1, G2.
      split; [exact G1 | split; [intros t Hx; discriminate Hx | lia]].
    + destruct (lowerLogicalAsg F BOr t' v' n2) as [[r n3] |] eqn:El; [| exact Hkeep].
      destruct (lowerLogicalAsg_above F BOr t' v' n2 (r, n3) lo H1 K1 ltac:(lia) El) as [G1 G2]. cbn in G1, G2.
      split; [exact G1 | split; [intros t Hx; discriminate Hx | lia]].
    + destruct (lowerLogicalAsg F BAnd t' v' n2) as [[r n3] |] eqn:El; [| exact Hkeep].
      destruct (lowerLogicalAsg_above F BAnd t' v' n2 (r, n3) lo H1 K1 ltac:(lia) El) as [G1 G2]. cbn in G1, G2.
      split; [exact G1 | split; [intros t Hx; discriminate Hx | lia]].
    + destruct (f_exp F); [| exact Hkeep].
      pose proof (lowerExpAsg_above t' v' n2 lo H1 K1 ltac:(lia)) as [G1 G2].
      destruct (lowerExpAsg t' v' n2) as [r n3]. cbn in G1, G2.
      split; [exact G1 | split; [intros t Hx; discriminate Hx | lia]].
    + exact Hkeep.
  - (* EIf *)
    assert (Ha1 : above lo e1) by (intros j Hj; apply Ha; cbn; rewrite !in_app_iff; auto).
    assert (Ha2 : above lo e2) by (intros j Hj; apply Ha; cbn; rewrite !in_app_iff; auto).
    assert (Ha3 : above lo e3) by (intros j Hj; apply Ha; cbn; rewrite !in_app_iff; auto).
    specialize (IHe1 lo (mkIn false false) c Ha1 Hlo).
    destruct (visit F (mkIn false false) e1 c) as [[c' oc0] n1]. destruct IHe1 as (H1 & _ & H3).
    specialize (IHe2 lo (mkIn false false) n1 Ha2 ltac:(lia)).
    destruct (visit F (mkIn false false) e2 n1) as [[a' oa] n2]. destruct IHe2 as (K1 & _ & K3).
    specialize (IHe3 lo (mkIn false false) n2 Ha3 ltac:(lia)).
    destruct (visit F (mkIn false false) e3 n2) as [[b' ob] n3]. destruct IHe3 as (J1 & _ & J3).
    split; [abv | split; [intros t Hx; discriminate Hx | lia]].
  - (* EEqNull *)
    specialize (IHe lo (mkIn false false) c Ha Hlo).
    destruct (visit F (mkIn false false) e c) as [[v' ov] n1]. destruct IHe as (H1 & _ & H3).
    split; [exact H1 | split; [intros t Hx; discriminate Hx | lia]].
  - (* EPowCall *)
    assert (Ha1 : above lo e1) by (intros j Hj; apply Ha; cbn; apply in_app_iff; auto).
    assert (Ha2 : above lo e2) by (intros j Hj; apply Ha; cbn; apply in_app_iff; auto).
    specialize (IHe1 lo (mkIn false false) c Ha1 Hlo).
    destruct (visit F (mkIn false false) e1 c) as [[a' oa] n1]. destruct IHe1 as (H1 & _ & H3).
    specialize (IHe2 lo (mkIn false false) n1 Ha2 ltac:(lia)).
    destruct (visit F (mkIn false false) e2 n1) as [[b' ob] n2]. destruct IHe2 as (K1 & _ & K3).
    split; [abv | split; [intros t Hx; discriminate Hx | lia]].
Qed.
End VA.
