(* C05 specification side: a big-step evaluator for the MiniJS fragment,
   written from ECMA-262 (13.3 left-hand-side expressions and optional chains,
   13.15 assignment operators, 13.13 binary logical operators), NOT from
   esbuild's code.

   Everything observable is delegated to an arbitrary [world] acting on an
   arbitrary user state S: reading/writing identifiers (a global may be an
   accessor), property get/set/delete (getters, setters, proxies, TypeError on
   a null base), calls with an explicit this value, strict binary operators
   with their coercions (valueOf/toString probes).  Each operation returns the
   events it emitted, the new state and a value or a thrown value.  The
   evaluator only fixes the ORDER in which the operations are performed and
   which are skipped - exactly what the property is about.

   Temporaries live in their own store that the world cannot see ("fresh
   temporaries are unobservable").

   [out]: an evaluation yields a value together with the base object a call
   would use as this (undefined unless the expression is a property access),
   or OShort when an optional chain short-circuits (propagated through
   OcCont links, turned into undefined at the end of the chain). *)
From V Require Import Common.Base C05.Syntax.

Inductive val := VUndef | VNull | VBool (b : bool) | VNum (n : Z) | VStr (s : Z) | VObj (l : Z).

Definition nullish (v : val) : bool := match v with VUndef | VNull => true | _ => false end.
Definition truthy (v : val) : bool :=
  match v with
  | VUndef | VNull => false
  | VBool b => b
  | VNum n => negb (n =? 0)
  | VStr s => negb (s =? 0)      (* string id 0 is the empty string *)
  | VObj _ => true
  end.

Definition event := (Z * list val)%type.
Inductive res (A : Type) := Ok (a : A) | Throw (v : val).
Arguments Ok {A} a.
Arguments Throw {A} v.

Definition name_call : Z := 0.   (* the property name "call" *)

Inductive out := OVal (v base : val) | OShort.
Definition ov (v : val) : out := OVal v VUndef.
Definition valof (o : out) : val := match o with OVal v _ => v | OShort => VUndef end.
Definition baseof (o : out) : val := match o with OVal _ b => b | OShort => VUndef end.

Definition tstore := list (Z * val).
Fixpoint tget (m : tstore) (k : Z) : val :=
  match m with
  | [] => VUndef
  | (a, v) :: r => if a =? k then v else tget r k
  end.
Definition tset (m : tstore) (k : Z) (v : val) : tstore := (k, v) :: m.

Section Sem.
  Variable S : Type.

  Record world := mkWorld {
    w_getvar : Z -> S -> list event * S * res val;
    w_setvar : Z -> val -> S -> list event * S * res unit;
    w_get : val -> val -> S -> list event * S * res val;
    w_set : val -> val -> val -> S -> list event * S * res unit;
    w_del : val -> val -> S -> list event * S * res val;
    w_call : val -> val -> list val -> S -> list event * S * res val;
    w_binop : binop -> val -> val -> S -> list event * S * res val
  }.

  Definition M (A : Type) := tstore -> S -> list event * tstore * S * res A.

  Definition ret {A} (a : A) : M A := fun m s => ([], m, s, Ok a).
  Definition bind {A B} (x : M A) (k : A -> M B) : M B := fun m s =>
    match x m s with
    | (t1, m1, s1, Ok a) => let '(t2, m2, s2, r) := k a m1 s1 in (t1 ++ t2, m2, s2, r)
    | (t1, m1, s1, Throw v) => (t1, m1, s1, Throw v)
    end.
  Definition lift {A} (f : S -> list event * S * res A) : M A := fun m s =>
    let '(t, s', r) := f s in (t, m, s', r).

  Variable w : world.
  Variable th : val.     (* the value of this *)

  (* one link of a member/call chain *)
  Definition access (o : oc) (r : out) (k : val -> M out) : M out :=
    match o with
    | OcCont => match r with OShort => ret OShort | OVal v _ => k v end
    | OcStart => if nullish (valof r) then ret OShort else k (valof r)
    | OcNone => k (valof r)
    end.

  Definition opasg (op : asgop) (lval : val) (ev : M out) (store : val -> M unit) : M out :=
    let assign := bind ev (fun r => bind (store (valof r)) (fun _ => ret (ov (valof r)))) in
    let arith (b : binop) :=
      bind ev (fun r => bind (lift (w_binop w b lval (valof r))) (fun x =>
      bind (store x) (fun _ => ret (ov x)))) in
    match op with
    | ANullish => if nullish lval then assign else ret (ov lval)
    | AOr => if truthy lval then ret (ov lval) else assign
    | AAnd => if truthy lval then assign else ret (ov lval)
    | APow => arith BPow
    | ASub => arith BSub
    end.

  Definition unshort_true (r : out) : out := match r with OShort => ov (VBool true) | _ => r end.

  Fixpoint eval (e : expr) {struct e} : M out :=
    let fix eval_list (l : list expr) {struct l} : M (list val) :=
      match l with
      | [] => ret []
      | x :: r => bind (eval x) (fun o => bind (eval_list r) (fun vs => ret (valof o :: vs)))
      end in
    match e with
    | ENull => ret (ov VNull)
    | EUndef => ret (ov VUndef)
    | EThis => ret (ov th)
    | EBool b => ret (ov (VBool b))
    | ENum n => ret (ov (VNum n))
    | EStr s => ret (ov (VStr s))
    | EId x => bind (lift (w_getvar w x)) (fun v => ret (ov v))
    | ETmp n => fun m s => ([], m, s, Ok (ov (tget m n)))
    | EDot t name o =>
        bind (eval t) (fun r => access o r (fun b =>
        bind (lift (w_get w b (VStr name))) (fun v => ret (OVal v b))))
    | EIndex t k o =>
        bind (eval t) (fun r => access o r (fun b =>
        bind (eval k) (fun kr =>
        bind (lift (w_get w b (valof kr))) (fun v => ret (OVal v b)))))
    | ECall f args o =>
        bind (eval f) (fun r => access o r (fun fv =>
        bind (eval_list args) (fun vs =>
        bind (lift (w_call w fv (baseof r) vs)) (fun v => ret (ov v)))))
    | ECallThis f t args =>
        (* f.call(t, args): the property "call" is read from the value of f
           (TypeError if it is null/undefined) before t and args are evaluated *)
        bind (eval f) (fun fr =>
        bind (lift (w_get w (valof fr) (VStr name_call))) (fun _ =>
        bind (eval t) (fun tr =>
        bind (eval_list args) (fun vs =>
        bind (lift (w_call w (valof fr) (valof tr) vs)) (fun v => ret (ov v))))))
    | EDelete d =>
        match d with
        | EDot t name o =>
            bind (eval t) (fun r =>
            bind (access o r (fun b => bind (lift (w_del w b (VStr name))) (fun v => ret (ov v))))
                 (fun r' => ret (unshort_true r')))
        | EIndex t k o =>
            bind (eval t) (fun r =>
            bind (access o r (fun b => bind (eval k) (fun kr =>
                  bind (lift (w_del w b (valof kr))) (fun v => ret (ov v)))))
                 (fun r' => ret (unshort_true r')))
        | _ => bind (eval d) (fun _ => ret (ov (VBool true)))
        end
    | EAssign tgt v =>
        match tgt with
        | EId x => bind (eval v) (fun r => bind (lift (w_setvar w x (valof r))) (fun _ => ret (ov (valof r))))
        | ETmp n => bind (eval v) (fun r => fun m s => ([], tset m n (valof r), s, Ok (ov (valof r))))
        | EDot t name _ =>
            bind (eval t) (fun tr => bind (eval v) (fun r =>
            bind (lift (w_set w (valof tr) (VStr name) (valof r))) (fun _ => ret (ov (valof r)))))
        | EIndex t k _ =>
            bind (eval t) (fun tr => bind (eval k) (fun kr => bind (eval v) (fun r =>
            bind (lift (w_set w (valof tr) (valof kr) (valof r))) (fun _ => ret (ov (valof r))))))
        | _ => bind (eval v) (fun r => ret (ov (valof r)))
        end
    | EBin op a b =>
        match op with
        | BNullish => bind (eval a) (fun r =>
            if nullish (valof r) then bind (eval b) (fun r2 => ret (ov (valof r2))) else ret (ov (valof r)))
        | BOr => bind (eval a) (fun r =>
            if truthy (valof r) then ret (ov (valof r)) else bind (eval b) (fun r2 => ret (ov (valof r2))))
        | BAnd => bind (eval a) (fun r =>
            if truthy (valof r) then bind (eval b) (fun r2 => ret (ov (valof r2))) else ret (ov (valof r)))
        | BComma => bind (eval a) (fun _ => bind (eval b) (fun r2 => ret (ov (valof r2))))
        | BPow | BSub => bind (eval a) (fun r => bind (eval b) (fun r2 =>
            bind (lift (w_binop w op (valof r) (valof r2))) (fun v => ret (ov v))))
        end
    | EOpAsg op tgt v =>
        match tgt with
        | EId x => bind (lift (w_getvar w x)) (fun lval =>
            opasg op lval (eval v) (fun x' => lift (w_setvar w x x')))
        | EDot t name _ => bind (eval t) (fun tr =>
            bind (lift (w_get w (valof tr) (VStr name))) (fun lval =>
            opasg op lval (eval v) (fun x' => lift (w_set w (valof tr) (VStr name) x'))))
        | EIndex t k _ => bind (eval t) (fun tr => bind (eval k) (fun kr =>
            bind (lift (w_get w (valof tr) (valof kr))) (fun lval =>
            opasg op lval (eval v) (fun x' => lift (w_set w (valof tr) (valof kr) x')))))
        | _ => bind (eval v) (fun _ => ret (ov (VNum 0)))   (* not a valid target: an early SyntaxError in JavaScript, never evaluated *)
        end
    | EIf c a b => bind (eval c) (fun r =>
        if truthy (valof r) then bind (eval a) (fun r2 => ret (ov (valof r2)))
        else bind (eval b) (fun r2 => ret (ov (valof r2))))
    | EEqNull neg v => bind (eval v) (fun r => ret (ov (VBool (xorb neg (nullish (valof r))))))
    | EPowCall a b => bind (eval a) (fun r => bind (eval b) (fun r2 =>
        bind (lift (w_binop w BPow (valof r) (valof r2))) (fun v => ret (ov v))))
    end.

  (* what an observer sees of an evaluation at the end of a chain: the events,
     the user state and the value or exception; not the temporaries, and
     OShort has become undefined *)
  Definition observe (x : list event * tstore * S * res out) : list event * S * res val :=
    let '(t, _, s, r) := x in
    (t, s, match r with Ok o => Ok (valof o) | Throw v => Throw v end).

  Definition run (e : expr) (s : S) : list event * S * res val := observe (eval e [] s).
End Sem.

Arguments mkWorld {S}.
Arguments w_getvar {S}. Arguments w_setvar {S}. Arguments w_get {S}. Arguments w_set {S}.
Arguments w_del {S}. Arguments w_call {S}. Arguments w_binop {S}.
Arguments eval {S}. Arguments run {S}. Arguments observe {S}.
Arguments ret {S A}. Arguments bind {S A B}. Arguments lift {S A}.
