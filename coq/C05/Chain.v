(* Optional chains of arbitrary length: semantics of a chain as "start value,
   then links", and the evaluation of the expression that apply_links builds
   (induction over the list of links). *)
From V Require Import Common.Base C05.Syntax C05.Sem C05.Lower C05.Frame C05.LowerProofs C05.SimLogic C05.Steps.

Section Chain.
  Variable S : Type.
  Variable w : world S.
  Variable th : val.
  Notation ev := (eval w th).
  Notation evl := (eval_list S w th).
  Notation simM := (simM S).

  (* one link applied to the outcome r of what precedes it *)
  Definition run1 (l : link) (r : out) : M S out :=
    match l with
    | LDot name => bind (lift (w_get w (valof r) (VStr name))) (fun v => ret (OVal v (valof r)))
    | LIndex k => bind (ev k) (fun kr => bind (lift (w_get w (valof r) (valof kr))) (fun v => ret (OVal v (valof r))))
    | LCall args => bind (evl args) (fun vs => bind (lift (w_call w (valof r) (baseof r) vs)) (fun v => ret (ov v)))
    | LDelete => ret (ov (VBool true))
    end.

  Fixpoint run (ls : list link) (r : out) : M S out :=
    match ls with
    | [] => ret r
    | l :: rest => bind (run1 l r) (run rest)
    end.

  Definition link_expr (l : link) (result : expr) : expr :=
    match l with
    | LDot name => EDot result name OcNone
    | LIndex k => EIndex result k OcNone
    | LCall args => ECall result args OcNone
    | LDelete => EDelete result
    end.

  Definition no_delete (ls : list link) : Prop := Forall (fun l => l <> LDelete) ls.

  Definition link_tmps (l : link) : list Z :=
    match l with LDot _ => [] | LIndex k => tmps k | LCall args => flat_map tmps args | LDelete => [] end.
  Definition links_fresh (L : tpred) (ls : list link) : Prop :=
    forall l, In l ls -> forall k, L k -> ~ In k (link_tmps l).

  (* the expression link_expr builds evaluates as: evaluate result, apply the link *)
  Lemma ev_link_expr l result m s : l <> LDelete ->
    ev (link_expr l result) m s = bind (ev result) (run1 l) m s.
  Proof. destruct l; intro H; try contradiction; reflexivity. Qed.

  (* a link whose sub-expressions are fresh for L runs the same on both sides *)
  Lemma run1_fresh (L : tpred) Pre l r :
    (forall k, L k -> ~ In k (link_tmps l)) -> stable L Pre ->
    simM L Pre (fun m a b => a = b /\ Pre m) (run1 l r) (run1 l r).
  Proof.
    intros Hd Hst. destruct l; cbn [run1 link_tmps] in *.
    - eapply simM_bind; [apply simM_lift |]. intros a b. apply simM_pure. intros ->.
      apply simM_ret. auto.
    - eapply simM_bind; [apply (simM_fresh S w th L Pre k Hd Hst) |]. intros a b. apply simM_pure. intros ->.
      eapply simM_bind; [apply simM_lift |]. intros x y. apply simM_pure. intros ->. apply simM_ret. auto.
    - eapply simM_bind; [apply (simM_fresh_list S w th L Pre args Hd Hst) |]. intros a b. apply simM_pure. intros ->.
      eapply simM_bind; [apply simM_lift |]. intros x y. apply simM_pure. intros ->. apply simM_ret. auto.
    - apply simM_ret. auto.
  Qed.

  Lemma run_fresh (L : tpred) Pre ls : links_fresh L ls -> stable L Pre ->
    forall r, simM L Pre (fun m a b => a = b /\ Pre m) (run ls r) (run ls r).
  Proof.
    intros Hf Hst. induction ls as [| l rest IH]; intro r; cbn [run].
    - apply simM_ret. auto.
    - eapply simM_bind.
      + apply run1_fresh; [apply Hf; left; reflexivity | exact Hst].
      + intros a b. apply simM_pure. intros ->. apply IH. intros l' Hl'. apply Hf. right. exact Hl'.
  Qed.

  Lemma bind_cong_l {A B} (c c' : M S A) (k : A -> M S B) m s :
    (forall m s, c m s = c' m s) -> bind c k m s = bind c' k m s.
  Proof. intro H. unfold bind. rewrite H. reflexivity. Qed.

  Lemma bind_ret_r {A} (c : M S A) m s : bind c ret m s = c m s.
  Proof. unfold bind, ret. destruct (c m s) as [[[t1 m1] s1] [a | v]]; [rewrite app_nil_r |]; reflexivity. Qed.

  Lemma bind_post {A B} (Q : A -> Prop) (c : M S A) (k k' : A -> M S B) :
    (forall m s, match c m s with (_, _, _, Ok a) => Q a | _ => True end) ->
    (forall a, Q a -> forall m s, k a m s = k' a m s) ->
    forall m s, bind c k m s = bind c k' m s.
  Proof.
    intros Hc Hk m s. unfold bind. specialize (Hc m s).
    destruct (c m s) as [[[t1 m1] s1] [a | v]]; [| reflexivity]. rewrite (Hk a Hc). reflexivity.
  Qed.

  Lemma run_app ls l r m s : run (ls ++ [l]) r m s = bind (run ls r) (run1 l) m s.
  Proof.
    revert r m s. induction ls as [| x rest IH]; intros r m s; cbn [app run].
    - rewrite bind_ret_l. apply bind_ret_r.
    - rewrite bind_assoc. apply bind_post with (Q := fun _ => True); [intros; destruct (run1 x r m0 s0) as [[[? ?] ?] [?|?]]; exact I |].
      intros a _ m1 s1. apply IH.
  Qed.

  Lemma run1_nonshort l r : l <> LDelete \/ True ->
    forall m s, match run1 l r m s with (_, _, _, Ok o) => o <> OShort | _ => True end.
  Proof.
    intros _ m s. destruct l; cbn [run1]; unfold bind, lift, ret.
    - destruct (w_get w (valof r) (VStr name) s) as [[? ?] [?|?]]; [discriminate | exact I].
    - destruct (ev k m s) as [[[t1 m1] s1] [kr | x]]; [| exact I].
      destruct (w_get w (valof r) (valof kr) s1) as [[? ?] [?|?]]; [discriminate | exact I].
    - destruct (evl args m s) as [[[t1 m1] s1] [vs | x]]; [| exact I].
      destruct (w_call w (valof r) (baseof r) vs s1) as [[? ?] [?|?]]; [discriminate | exact I].
    - discriminate.
  Qed.

  Lemma run_nonshort ls : ls <> [] -> forall r m s,
    match run ls r m s with (_, _, _, Ok o) => o <> OShort | _ => True end.
  Proof.
    induction ls as [| l rest IH]; intros Hne r m s; [contradiction |]. cbn [run].
    destruct rest as [| l2 rest2].
    - cbn [run]. rewrite bind_ret_r. apply run1_nonshort. right; exact I.
    - unfold bind. destruct (run1 l r m s) as [[[t1 m1] s1] [a | v]]; [| exact I].
      assert (Hne2 : l2 :: rest2 <> []) by discriminate.
      specialize (IH Hne2 a m1 s1). destruct (run (l2 :: rest2) a m1 s1) as [[[t2 m2] s2] r2]. exact IH.
  Qed.

  (* a well-formed chain fragment: Start at the bottom, Cont above *)
  Fixpoint frag (e : expr) : Prop :=
    match e with
    | EDot t _ o | EIndex t _ o | ECall t _ o =>
        match o with OcStart => True | OcCont => frag t | OcNone => False end
    | _ => False
    end.

  Lemma frag_flatten e : frag e -> exists start ls swc, flatten e = Some (start, ls, swc) /\ ls <> [].
  Proof.
    induction e using expr_ind'; cbn [frag]; intro Hf; try contradiction; cbn [flatten].
    - destruct o; try contradiction.
      + eexists _, _, _. split; [reflexivity | discriminate].
      + destruct (IHe Hf) as (st & ls & c & E & Hne). rewrite E. eexists _, _, _. split; [reflexivity |].
        destruct ls; discriminate.
    - destruct o; try contradiction.
      + eexists _, _, _. split; [reflexivity | discriminate].
      + destruct (IHe1 Hf) as (st & ls & c & E & Hne). rewrite E. eexists _, _, _. split; [reflexivity |].
        destruct ls; discriminate.
    - destruct o; try contradiction.
      + eexists _, _, _. split; [reflexivity | discriminate].
      + destruct (IHe Hf) as (st & ls & c & E & Hne). rewrite E. eexists _, _, _. split; [reflexivity |].
        destruct ls; discriminate.
  Qed.

  (* native evaluation of a chain = start, nullish test, links *)
  Lemma native_chain e : frag e -> forall start ls swc, flatten e = Some (start, ls, swc) ->
    ls <> [] /\
    forall m s, ev e m s = bind (ev start) (fun r => if nullish (valof r) then ret OShort else run ls r) m s.
  Proof.
    induction e using expr_ind'; cbn [frag]; intro Hf; try contradiction; intros start ls swc E; cbn [flatten] in E.
    - (* EDot *)
      destruct o; try contradiction.
      + injection E as <- <- <-. split; [discriminate |]. intros m s. cbn [eval access run].
        apply bind_post with (Q := fun _ => True); [intros; destruct (ev e m0 s0) as [[[? ?] ?] [?|?]]; exact I |].
        intros r _ m1 s1. destruct (nullish (valof r)); [reflexivity |]. symmetry. apply bind_ret_r.
      + destruct (flatten e) as [[[st ls0] c0] |] eqn:E0; [| discriminate E]. injection E as <- <- <-.
        destruct (IHe Hf st ls0 c0 eq_refl) as [Hne IH]. split; [destruct ls0; discriminate |].
        intros m s. cbn [eval]. rewrite (bind_cong_l _ _ _ m s IH). rewrite bind_assoc.
        apply bind_post with (Q := fun _ => True); [intros; destruct (ev st m0 s0) as [[[? ?] ?] [?|?]]; exact I |].
        intros r _ m1 s1. destruct (nullish (valof r)).
        * rewrite bind_ret_l. reflexivity.
        * rewrite run_app. apply bind_post with (Q := fun o => o <> OShort); [apply run_nonshort, Hne |].
          intros a Ha m2 s2. destruct a; [reflexivity | contradiction].
    - (* EIndex *)
      destruct o; try contradiction.
      + injection E as <- <- <-. split; [discriminate |]. intros m s. cbn [eval access run].
        apply bind_post with (Q := fun _ => True); [intros; destruct (ev e1 m0 s0) as [[[? ?] ?] [?|?]]; exact I |].
        intros r _ m1 s1. destruct (nullish (valof r)); [reflexivity |]. symmetry. apply bind_ret_r.
      + destruct (flatten e1) as [[[st ls0] c0] |] eqn:E0; [| discriminate E]. injection E as <- <- <-.
        destruct (IHe1 Hf st ls0 c0 eq_refl) as [Hne IH]. split; [destruct ls0; discriminate |].
        intros m s. cbn [eval]. rewrite (bind_cong_l _ _ _ m s IH). rewrite bind_assoc.
        apply bind_post with (Q := fun _ => True); [intros; destruct (ev st m0 s0) as [[[? ?] ?] [?|?]]; exact I |].
        intros r _ m1 s1. destruct (nullish (valof r)).
        * rewrite bind_ret_l. reflexivity.
        * rewrite run_app. apply bind_post with (Q := fun o => o <> OShort); [apply run_nonshort, Hne |].
          intros a Ha m2 s2. destruct a; [reflexivity | contradiction].
    - (* ECall *)
      destruct o; try contradiction.
      + injection E as <- <- <-. split; [discriminate |]. intros m s. cbn [eval access run].
        apply bind_post with (Q := fun _ => True); [intros; destruct (ev e m0 s0) as [[[? ?] ?] [?|?]]; exact I |].
        intros r _ m1 s1. destruct (nullish (valof r)); [reflexivity |]. symmetry. apply bind_ret_r.
      + destruct (flatten e) as [[[st ls0] c0] |] eqn:E0; [| discriminate E]. injection E as <- <- <-.
        destruct (IHe Hf st ls0 c0 eq_refl) as [Hne IH]. split; [destruct ls0; discriminate |].
        intros m s. cbn [eval]. rewrite (bind_cong_l _ _ _ m s IH). rewrite bind_assoc.
        apply bind_post with (Q := fun _ => True); [intros; destruct (ev st m0 s0) as [[[? ?] ?] [?|?]]; exact I |].
        intros r _ m1 s1. destruct (nullish (valof r)).
        * rewrite bind_ret_l. reflexivity.
        * rewrite run_app. apply bind_post with (Q := fun o => o <> OShort); [apply run_nonshort, Hne |].
          intros a Ha m2 s2. destruct a; [reflexivity | contradiction].
  Qed.

  Definition head_call (ls : list link) : bool := match ls with LCall _ :: _ => true | _ => false end.

  Lemma head_call_app ls l : ls <> [] -> head_call (ls ++ [l]) = head_call ls.
  Proof. destruct ls; [contradiction | reflexivity]. Qed.

  Lemma flatten_head e : frag e -> forall start ls swc, flatten e = Some (start, ls, swc) -> swc = head_call ls.
  Proof.
    induction e using expr_ind'; cbn [frag]; intro Hf; try contradiction; intros start ls swc E; cbn [flatten] in E.
    - destruct o; try contradiction.
      + injection E as <- <- <-. reflexivity.
      + destruct (flatten e) as [[[st ls0] c0] |] eqn:E0; [| discriminate E]. injection E as <- <- <-.
        destruct (frag_flatten e Hf) as (? & ? & ? & E1 & Hne). rewrite E0 in E1. injection E1 as <- <- <-.
        rewrite head_call_app by exact Hne. apply (IHe Hf st ls0 c0 eq_refl).
    - destruct o; try contradiction.
      + injection E as <- <- <-. reflexivity.
      + destruct (flatten e1) as [[[st ls0] c0] |] eqn:E0; [| discriminate E]. injection E as <- <- <-.
        destruct (frag_flatten e1 Hf) as (? & ? & ? & E1 & Hne). rewrite E0 in E1. injection E1 as <- <- <-.
        rewrite head_call_app by exact Hne. apply (IHe1 Hf st ls0 c0 eq_refl).
    - destruct o; try contradiction.
      + injection E as <- <- <-. reflexivity.
      + destruct (flatten e) as [[[st ls0] c0] |] eqn:E0; [| discriminate E]. injection E as <- <- <-.
        destruct (frag_flatten e Hf) as (? & ? & ? & E1 & Hne). rewrite E0 in E1. injection E1 as <- <- <-.
        rewrite head_call_app by exact Hne. apply (IHe Hf st ls0 c0 eq_refl).
  Qed.

  Lemma run_base ls a b : ls <> [] -> head_call ls = false -> valof a = valof b ->
    forall m s, run ls a m s = run ls b m s.
  Proof.
    intros Hne Hh Hv m s. destruct ls as [| l rest]; [contradiction |]. cbn [run].
    destruct l; cbn [head_call] in Hh; try discriminate Hh; cbn [run1]; rewrite ?Hv; reflexivity.
  Qed.

  (* ---- the expression apply_links builds ---- *)
  Definition fold_links (ls : list link) (result : expr) : expr :=
    fold_left (fun acc l => link_expr l acc) ls result.

  Lemma apply_links_plain ls : ls <> [] -> forall result inner n,
    apply_links ls result None inner false n = (fold_links ls result, None, n).
  Proof.
    induction ls as [| l rest IH]; intros Hne result inner n; [contradiction |].
    cbn [apply_links fold_links fold_left]. destruct rest as [| l2 rest2].
    - cbn. destruct l; destruct inner; reflexivity.
    - cbn [andb]. rewrite IH by discriminate. destruct l; destruct inner; reflexivity.
  Qed.

  Lemma apply_links_noinner ls t : forall r1 n1,
    apply_links ls r1 (Some t) false false n1 = apply_links ls r1 None false false n1.
  Proof.
    induction ls as [| x xs IHx]; intros r1 n1; [reflexivity |]. cbn [apply_links].
    destruct xs; cbn [andb]; [destruct x; reflexivity | rewrite IHx; destruct x; reflexivity].
  Qed.

  Lemma apply_links_this args rest result t n :
    apply_links (LCall args :: rest) result (Some t) true false n
    = (fold_links rest (ECallThis result t args), None, n).
  Proof.
    cbn [apply_links]. destruct rest as [| l2 rest2]; [reflexivity |].
    cbn [andb]. rewrite apply_links_noinner. apply apply_links_plain. discriminate.
  Qed.

  Lemma ev_fold ls : no_delete ls -> forall result m s,
    ev (fold_links ls result) m s = bind (ev result) (run ls) m s.
  Proof.
    induction ls as [| l rest IH]; intros Hnd result m s; cbn [fold_links fold_left run].
    - symmetry. apply bind_ret_r.
    - inversion Hnd as [| ? ? Hl Hrest]; subst. fold (fold_links rest (link_expr l result)).
      rewrite (IH Hrest). rewrite (bind_cong_l _ _ _ m s (fun m0 s0 => ev_link_expr l result m0 s0 Hl)).
      apply bind_assoc.
  Qed.

  Lemma start_match {A} (start : expr) (X Y : A) : start <> ENull -> start <> EUndef ->
    match start with ENull | EUndef => X | _ => Y end = Y.
  Proof. destruct start; intros; try reflexivity; contradiction. Qed.

  Definition L1 (n : Z) : tpred := fun k => k = n.

  Lemma frag_not_delete e : frag e -> is_delete e = false.
  Proof. destruct e; cbn; intro H; try contradiction; reflexivity. Qed.

  (* a?.b.c(d)[k] ... : chains of any length that do not start with a call *)
  Theorem chain_plain F e' i n start ls :
    frag e' -> flatten e' = Some (start, ls, false) -> no_delete ls ->
    f_optchain F = true -> storeThis i = false ->
    start <> ENull -> start <> EUndef -> cap_ok S w start ->
    ~ In n (tmps start) -> links_fresh (L1 n) ls ->
    forall m s, observe (ev (fst (fst (lowerOptionalChain F e' i out0 n))) m s) = observe (ev e' m s).
  Proof.
    intros Hfr Hfl Hnd HF Hst Hn1 Hn2 Hok Hfresh Hlf.
    destruct (native_chain e' Hfr start ls false Hfl) as [Hne Hnat].
    pose proof (flatten_head e' Hfr start ls false Hfl) as Hhead. symmetry in Hhead.
    unfold lowerOptionalChain. rewrite Hfl, (frag_not_delete e' Hfr), (start_match start _ _ Hn1 Hn2), HF.
    cbn [negb]. destruct (capture start n) as [[first again] n3] eqn:Hc.
    rewrite Hst. cbn [andb]. rewrite (apply_links_plain ls Hne again true n3). cbn [fst].
    set (L := L1 n).
    apply (simM_observe S L (fun _ a b => valof a = valof b)); [intros ? ? ? H; exact H |].
    eapply simM_ext; [intros; reflexivity | intros m0 s0; apply Hnat |].
    assert (Hds : forall k, L k -> ~ In k (tmps start)) by (intros k ->; exact Hfresh).
    cbn [eval].
    apply simM_assoc_l. eapply simM_bind.
    - apply (piece_first S w th L (fun _ => True) start n first again n3 Hc Hok eq_refl Hds (stable_true L)). auto.
    - intros x y. apply simM_ret_l. apply simM_pure. intro E. cbn [valof ov]. rewrite E.
      destruct (nullish (valof y)) eqn:Hnull; cbn [xorb truthy].
      + apply simM_ret_l. apply simM_ret. intros; reflexivity.
      + eapply simM_ext; [intros m0 s0; apply (bind_cong_l _ _ _ m0 s0 (ev_fold ls Hnd again)) | intros; reflexivity |].
        apply simM_assoc_l. eapply simM_left_pure.
        * intros m0 s0 [Hr _]. apply (piece_again S w th start n first again n3 _ m0 s0 Hc Hr).
        * cbn beta.
          eapply simM_ext;
            [ intros; reflexivity
            | intros m0 s0; rewrite (run_base ls y (ov (valof y)) Hne Hhead eq_refl m0 s0);
              symmetry; apply bind_ret_r |].
          eapply simM_bind.
          -- apply run_fresh; [exact Hlf |].
             apply stable_and; [apply remp_stable; reflexivity | apply stable_true].
          -- intros a b. apply simM_pure. intros ->. apply simM_ret. intros; reflexivity.
  Qed.

  (* a step of the lowered side that has no effect and whose value is not used *)
  Lemma simM_left_skip {A B C} (L : tpred) (Pre : tstore -> Prop) (Post : tstore -> A -> B -> Prop)
        (c : M S C) k cn :
    (forall m s, Pre m -> exists a, c m s = ([], m, s, Ok a)) ->
    (forall a, simM L Pre Post (k a) cn) -> simM L Pre Post (bind c k) cn.
  Proof.
    intros Hc H m m0 s Hs Hp. unfold bind. destruct (Hc m s Hp) as [a Ea]. rewrite Ea.
    specialize (H a m m0 s Hs Hp).
    destruct (k a m s) as [[[t1 m1] s1] r1], (cn m0 s) as [[[t2 m2] s2] r2]. exact H.
  Qed.

  Definition L2 (n : Z) : tpred := fun k => n <= k < n + 2.

  (* tg.name?.(args) link link ... : the call at the start of the chain gets this = tg *)
  Theorem chain_call_member F e' i n tg name args rest :
    frag e' -> flatten e' = Some (EDot tg name OcNone, LCall args :: rest, true) -> no_delete rest ->
    f_optchain F = true -> storeThis i = false ->
    cap_ok S w tg -> call_intact S w ->
    (forall k, L2 n k -> ~ In k (tmps tg)) -> links_fresh (L2 n) (LCall args :: rest) ->
    forall m s, observe (ev (fst (fst (lowerOptionalChain F e' i out0 n))) m s) = observe (ev e' m s).
  Proof.
    intros Hfr Hfl Hnd HF Hst Hok Hci Hdt Hlf.
    destruct (native_chain e' Hfr _ _ _ Hfl) as [Hne Hnat].
    unfold lowerOptionalChain. rewrite Hfl, (frag_not_delete e' Hfr), HF.
    cbn [negb thisArg out0]. destruct (capture tg n) as [[f a] n1] eqn:Hc.
    pose proof (capture_next tg n f a n1 Hc) as Hn1.
    unfold capture at 1. cbn [is_inline_value].
    rewrite Hst. cbn [andb]. rewrite apply_links_this. cbn [fst].
    set (L := L2 n).
    assert (Ln : L n) by (unfold L, L2; lia).
    assert (Ln1 : L n1) by (unfold L, L2; destruct (is_inline_value tg); lia).
    apply (simM_observe S L (fun _ a b => valof a = valof b)); [intros ? ? ? H; exact H |].
    eapply simM_ext; [intros; reflexivity | intros m0 s0; apply Hnat |].
    assert (Hla : forall k, L k -> ~ In k (flat_map tmps args)).
    { intros k Hk. apply (Hlf (LCall args) (or_introl eq_refl) k Hk). }
    assert (Hlr : links_fresh L rest) by (intros l Hl; apply Hlf; right; exact Hl).
    cbn [eval access].
    (* object *)
    apply simM_assoc_l. apply simM_assoc_l. apply simM_assoc_l. apply simM_assoc_r. eapply simM_bind.
    - apply (piece_first S w th L (fun _ => True) tg n f a n1 Hc Hok Ln Hdt (stable_true L)). auto.
    - intros x y. apply simM_pure. intro E. rewrite E.
      (* the member *)
      apply simM_assoc_l. apply simM_assoc_r. eapply simM_bind; [apply simM_lift |].
      intros fv fv0. apply simM_pure. intros ->.
      apply simM_ret_l. apply simM_ret_r. cbn [valof].
      eapply (simM_left_write S L _ (fun m0 => tget m0 n1 = fv0 /\ remp S w th tg n (valof y) m0)); [exact Ln1 | |].
      + intros m0 [Hr _]. split; [apply tget_tset_same |].
        apply remp_tset'; [| exact Hr]. intro Hi. rewrite Hi in Hn1. lia.
      + apply simM_ret_l. cbn [valof ov xorb].
        destruct (nullish fv0) eqn:Hnull; cbn [truthy].
        * apply simM_ret_l. apply simM_ret. intros; reflexivity.
        * (* the call with explicit this, then the remaining links *)
          eapply simM_ext;
            [ intros m0 s0; apply (bind_cong_l _ _ _ m0 s0 (ev_fold rest Hnd (ECallThis (ETmp n1) a args)))
            | intros; reflexivity |].
          cbn [eval run run1]. fold (evl args).
          assert (Hstb : stable L (fun m0 : tstore => tget m0 n1 = fv0 /\ remp S w th tg n (valof y) m0)).
          { apply stable_and; [apply stable_tget; exact Ln1 | apply remp_stable; exact Ln]. }
          repeat apply simM_assoc_l.
          eapply simM_left_pure; [intros m0 s0 [Hr _]; cbn; rewrite Hr; reflexivity |].
          cbn [valof ov]. repeat apply simM_assoc_l.
          eapply simM_left_skip.
          { intros m0 s0 _. unfold lift. destruct (Hci fv0 s0 Hnull) as [c Ec]. rewrite Ec. eexists; reflexivity. }
          intros _. repeat apply simM_assoc_l.
          eapply simM_left_pure;
            [intros m0 s0 [_ Hr]; apply (piece_again S w th tg n f a n1 _ m0 s0 Hc Hr) |].
          cbn [valof ov baseof]. repeat apply simM_assoc_l. repeat apply simM_assoc_r.
          eapply simM_bind; [apply (simM_fresh_list S w th L _ args Hla Hstb) |].
          intros vs vs0. apply simM_pure. intros ->.
          repeat apply simM_assoc_l. repeat apply simM_assoc_r.
          eapply simM_bind; [apply simM_lift |].
          intros r r0. apply simM_pure. intros ->. apply simM_ret_l. apply simM_ret_r.
          eapply simM_ext; [intros; reflexivity | intros m0 s0; symmetry; apply bind_ret_r |].
          eapply simM_bind; [apply (run_fresh L _ rest Hlr Hstb) |].
          intros o1 o2. apply simM_pure. intros ->. apply simM_ret. intros; reflexivity.
  Qed.

  (* tg[key]?.(args) link link ... *)
  Theorem chain_call_index F e' i n tg key args rest :
    frag e' -> flatten e' = Some (EIndex tg key OcNone, LCall args :: rest, true) -> no_delete rest ->
    f_optchain F = true -> storeThis i = false ->
    cap_ok S w tg -> call_intact S w ->
    (forall k, L2 n k -> ~ In k (tmps tg)) -> (forall k, L2 n k -> ~ In k (tmps key)) ->
    links_fresh (L2 n) (LCall args :: rest) ->
    forall m s, observe (ev (fst (fst (lowerOptionalChain F e' i out0 n))) m s) = observe (ev e' m s).
  Proof.
    intros Hfr Hfl Hnd HF Hst Hok Hci Hdt Hdk Hlf.
    destruct (native_chain e' Hfr _ _ _ Hfl) as [Hne Hnat].
    unfold lowerOptionalChain. rewrite Hfl, (frag_not_delete e' Hfr), HF.
    cbn [negb thisArg out0]. destruct (capture tg n) as [[f a] n1] eqn:Hc.
    pose proof (capture_next tg n f a n1 Hc) as Hn1.
    unfold capture at 1. cbn [is_inline_value].
    rewrite Hst. cbn [andb]. rewrite apply_links_this. cbn [fst].
    set (L := L2 n).
    assert (Ln : L n) by (unfold L, L2; lia).
    assert (Ln1 : L n1) by (unfold L, L2; destruct (is_inline_value tg); lia).
    apply (simM_observe S L (fun _ a b => valof a = valof b)); [intros ? ? ? H; exact H |].
    eapply simM_ext; [intros; reflexivity | intros m0 s0; apply Hnat |].
    assert (Hla : forall k, L k -> ~ In k (flat_map tmps args)).
    { intros k Hk. apply (Hlf (LCall args) (or_introl eq_refl) k Hk). }
    assert (Hlr : links_fresh L rest) by (intros l Hl; apply Hlf; right; exact Hl).
    cbn [eval access].
    (* object *)
    apply simM_assoc_l. apply simM_assoc_l. apply simM_assoc_l. apply simM_assoc_r. eapply simM_bind.
    - apply (piece_first S w th L (fun _ => True) tg n f a n1 Hc Hok Ln Hdt (stable_true L)). auto.
    - intros x y. apply simM_pure. intro E. rewrite E.
      (* the key, then the member *)
      apply simM_assoc_l. apply simM_assoc_r. eapply simM_bind.
      { apply (simM_fresh S w th L _ key Hdk).
        apply stable_and; [apply remp_stable; exact Ln | apply stable_true]. }
      intros kr kr0. apply simM_pure. intros ->.
      apply simM_assoc_l. apply simM_assoc_r. eapply simM_bind; [apply simM_lift |].
      intros fv fv0. apply simM_pure. intros ->.
      apply simM_ret_l. apply simM_ret_r. cbn [valof].
      eapply (simM_left_write S L _ (fun m0 => tget m0 n1 = fv0 /\ remp S w th tg n (valof y) m0)); [exact Ln1 | |].
      + intros m0 [Hr _]. split; [apply tget_tset_same |].
        apply remp_tset'; [| exact Hr]. intro Hi. rewrite Hi in Hn1. lia.
      + apply simM_ret_l. cbn [valof ov xorb].
        destruct (nullish fv0) eqn:Hnull; cbn [truthy].
        * apply simM_ret_l. apply simM_ret. intros; reflexivity.
        * (* the call with explicit this, then the remaining links *)
          eapply simM_ext;
            [ intros m0 s0; apply (bind_cong_l _ _ _ m0 s0 (ev_fold rest Hnd (ECallThis (ETmp n1) a args)))
            | intros; reflexivity |].
          cbn [eval run run1]. fold (evl args).
          assert (Hstb : stable L (fun m0 : tstore => tget m0 n1 = fv0 /\ remp S w th tg n (valof y) m0)).
          { apply stable_and; [apply stable_tget; exact Ln1 | apply remp_stable; exact Ln]. }
          repeat apply simM_assoc_l.
          eapply simM_left_pure; [intros m0 s0 [Hr _]; cbn; rewrite Hr; reflexivity |].
          cbn [valof ov]. repeat apply simM_assoc_l.
          eapply simM_left_skip.
          { intros m0 s0 _. unfold lift. destruct (Hci fv0 s0 Hnull) as [c Ec]. rewrite Ec. eexists; reflexivity. }
          intros _. repeat apply simM_assoc_l.
          eapply simM_left_pure;
            [intros m0 s0 [_ Hr]; apply (piece_again S w th tg n f a n1 _ m0 s0 Hc Hr) |].
          cbn [valof ov baseof]. repeat apply simM_assoc_l. repeat apply simM_assoc_r.
          eapply simM_bind; [apply (simM_fresh_list S w th L _ args Hla Hstb) |].
          intros vs vs0. apply simM_pure. intros ->.
          repeat apply simM_assoc_l. repeat apply simM_assoc_r.
          eapply simM_bind; [apply simM_lift |].
          intros r r0. apply simM_pure. intros ->. apply simM_ret_l. apply simM_ret_r.
          eapply simM_ext; [intros; reflexivity | intros m0 s0; symmetry; apply bind_ret_r |].
          eapply simM_bind; [apply (run_fresh L _ rest Hlr Hstb) |].
          intros o1 o2. apply simM_pure. intros ->. apply simM_ret. intros; reflexivity.
  Qed.

  Lemma simM_post_right {A B} (L : tpred) (Pre : tstore -> Prop) (Post : tstore -> A -> B -> Prop)
        (Q : B -> Prop) cl cn :
    simM L Pre Post cl cn ->
    (forall m s, match cn m s with (_, _, _, Ok b) => Q b | _ => True end) ->
    simM L Pre (fun m a b => Post m a b /\ Q b) cl cn.
  Proof.
    intros H HQ m m0 s Hs Hp. specialize (H m m0 s Hs Hp). specialize (HQ m0 s).
    destruct (cl m s) as [[[t1 m1] s1] r1], (cn m0 s) as [[[t2 m2] s2] r2].
    destruct H as (-> & -> & Hs' & Hr). repeat split; auto. destruct r1, r2; auto.
  Qed.

  Lemma start_nonmember {A} (start : expr) (X : expr -> Z -> A) (Y : expr -> expr -> A) (Z0 : A) :
    ends_with_access start = false ->
    match start with
    | EDot tg name _ => X tg name
    | EIndex tg k _ => Y tg k
    | _ => Z0
    end = Z0.
  Proof. destruct start; cbn; intro H; try discriminate H; reflexivity. Qed.

  (* start?.(args) link link ... where start is not a member access: this is undefined *)
  Theorem chain_call_plain F e' i n start args rest :
    frag e' -> flatten e' = Some (start, LCall args :: rest, true) -> no_delete rest ->
    f_optchain F = true -> storeThis i = false ->
    start <> ENull -> start <> EUndef -> ends_with_access start = false ->
    (forall m s, match ev start m s with (_, _, _, Ok o) => baseof o = VUndef | _ => True end) ->
    cap_ok S w start -> ~ In n (tmps start) -> links_fresh (L1 n) (LCall args :: rest) ->
    forall m s, observe (ev (fst (fst (lowerOptionalChain F e' i out0 n))) m s) = observe (ev e' m s).
  Proof.
    intros Hfr Hfl Hnd HF Hst Hn1 Hn2 Hna Hnb Hok Hfresh Hlf.
    destruct (native_chain e' Hfr _ _ _ Hfl) as [Hne Hnat].
    unfold lowerOptionalChain. rewrite Hfl, (frag_not_delete e' Hfr), (start_match start _ _ Hn1 Hn2), HF.
    cbn [negb thisArg out0].
    rewrite (start_nonmember start _ _ _ Hna).
    destruct (capture start n) as [[first again] n3] eqn:Hc.
    rewrite Hst. cbn [andb]. rewrite (apply_links_plain _ Hne again true n3). cbn [fst].
    set (L := L1 n).
    apply (simM_observe S L (fun _ a b => valof a = valof b)); [intros ? ? ? H; exact H |].
    eapply simM_ext; [intros; reflexivity | intros m0 s0; apply Hnat |].
    assert (Hds : forall k, L k -> ~ In k (tmps start)) by (intros k ->; exact Hfresh).
    assert (Hnd' : no_delete (LCall args :: rest)) by (constructor; [discriminate | exact Hnd]).
    cbn [eval].
    apply simM_assoc_l. eapply simM_bind.
    - apply simM_post_right with (Q := fun o => baseof o = VUndef); [| exact Hnb].
      apply (piece_first S w th L (fun _ => True) start n first again n3 Hc Hok eq_refl Hds (stable_true L)). auto.
    - intros x y. apply simM_ret_l.
      eapply simM_conseq with (Pre := fun m0 => (valof x = valof y /\ baseof y = VUndef) /\ remp S w th start n (valof y) m0)
                              (Post := fun _ a b => valof a = valof b);
        [intros m0 [[E [Hr _]] Hb]; auto | intros; assumption |].
      apply simM_pure. intros [E Hb]. cbn [valof ov]. rewrite E.
      destruct (nullish (valof y)) eqn:Hnull; cbn [xorb truthy].
      + apply simM_ret_l. apply simM_ret. intros; reflexivity.
      + assert (Ey : y = ov (valof y)).
        { destruct y; cbn in *; [subst; reflexivity | discriminate Hnull]. }
        eapply simM_ext;
          [ intros m0 s0; apply (bind_cong_l _ _ _ m0 s0 (ev_fold _ Hnd' again))
          | intros m0 s0;
            replace (run (LCall args :: rest) y m0 s0) with (run (LCall args :: rest) (ov (valof y)) m0 s0)
              by (rewrite <- Ey; reflexivity);
            symmetry; apply bind_ret_r |].
        apply simM_assoc_l. eapply simM_left_pure.
        * intros m0 s0 Hr. apply (piece_again S w th start n first again n3 _ m0 s0 Hc Hr).
        * cbn beta. eapply simM_bind.
          -- apply run_fresh; [exact Hlf | apply remp_stable; reflexivity].
          -- intros a b. apply simM_pure. intros ->. apply simM_ret. intros; reflexivity.
  Qed.

  (* null?.a.b(c): the chain is dead code, whatever the feature set *)
  Theorem chain_dead F e' i childOut n start ls swc :
    frag e' -> flatten e' = Some (start, ls, swc) -> start = ENull \/ start = EUndef ->
    forall m s, observe (ev (fst (fst (lowerOptionalChain F e' i childOut n))) m s) = observe (ev e' m s).
  Proof.
    intros Hfr Hfl Hs m s. destruct (native_chain e' Hfr _ _ _ Hfl) as [_ Hnat]. rewrite Hnat.
    unfold lowerOptionalChain. rewrite Hfl, (frag_not_delete e' Hfr).
    destruct Hs as [-> | ->]; reflexivity.
  Qed.

  (* ---- delete of a chain ---- *)
  Definition run1d (l : link) (r : out) : M S out :=
    match l with
    | LDot name => bind (lift (w_del w (valof r) (VStr name))) (fun v => ret (ov v))
    | LIndex k => bind (ev k) (fun kr => bind (lift (w_del w (valof r) (valof kr))) (fun v => ret (ov v)))
    | _ => ret (ov (VBool true))
    end.

  Definition member_link (l : link) : Prop := match l with LDot _ | LIndex _ => True | _ => False end.

  Lemma run1d_fresh (L : tpred) Pre l r :
    (forall k, L k -> ~ In k (link_tmps l)) -> stable L Pre ->
    simM L Pre (fun m a b => a = b /\ Pre m) (run1d l r) (run1d l r).
  Proof.
    intros Hd Hst. destruct l; cbn [run1d link_tmps] in *; try (apply simM_ret; auto).
    - eapply simM_bind; [apply simM_lift |]. intros a b. apply simM_pure. intros ->. apply simM_ret. auto.
    - eapply simM_bind; [apply (simM_fresh S w th L Pre k Hd Hst) |]. intros a b. apply simM_pure. intros ->.
      eapply simM_bind; [apply simM_lift |]. intros x y. apply simM_pure. intros ->. apply simM_ret. auto.
  Qed.

  Lemma ev_delete_link l result m s : member_link l ->
    ev (EDelete (link_expr l result)) m s = bind (ev result) (run1d l) m s.
  Proof.
    intro Hm. destruct l; try contradiction; cbn [link_expr eval access run1d].
    - apply bind_post with (Q := fun _ => True); [intros; destruct (ev result m0 s0) as [[[? ?] ?] [?|?]]; exact I |].
      intros r _ m1 s1. rewrite bind_assoc.
      apply bind_post with (Q := fun _ => True); [intros; unfold lift; destruct (w_del w (valof r) (VStr name) s0) as [[? ?] [?|?]]; exact I |].
      intros v _ m2 s2. rewrite bind_ret_l. reflexivity.
    - apply bind_post with (Q := fun _ => True); [intros; destruct (ev result m0 s0) as [[[? ?] ?] [?|?]]; exact I |].
      intros r _ m1 s1. rewrite bind_assoc.
      apply bind_post with (Q := fun _ => True); [intros; destruct (ev k m0 s0) as [[[? ?] ?] [?|?]]; exact I |].
      intros kr _ m2 s2. rewrite bind_assoc.
      apply bind_post with (Q := fun _ => True); [intros; unfold lift; destruct (w_del w (valof r) (valof kr) s0) as [[? ?] [?|?]]; exact I |].
      intros v _ m3 s3. rewrite bind_ret_l. reflexivity.
  Qed.

  (* native: delete (t.name) / delete (t[k]) where t.name / t[k] is the end of a chain *)
  Lemma native_delete d : frag d -> ends_with_access d = true ->
    exists start ls0 l swc,
      flatten d = Some (start, ls0 ++ [l], swc) /\ member_link l /\ swc = head_call (ls0 ++ [l]) /\
      forall m s, ev (EDelete d) m s =
        bind (ev start) (fun r => if nullish (valof r) then ret (ov (VBool true))
                                  else bind (run ls0 r) (run1d l)) m s.
  Proof.
    intros Hf Ha. destruct d; cbn in Ha; try discriminate Ha; cbn [frag] in Hf.
    - (* EDot *)
      destruct o; try contradiction.
      + exists d, [], (LDot name), false. cbn [flatten app]. repeat split; auto.
        intros m s. cbn [eval access run run1d].
        apply bind_post with (Q := fun _ => True); [intros; destruct (ev d m0 s0) as [[[? ?] ?] [?|?]]; exact I |].
        intros r _ m1 s1. destruct (nullish (valof r)).
        * rewrite bind_ret_l. reflexivity.
        * rewrite bind_ret_l. rewrite bind_assoc.
          apply bind_post with (Q := fun _ => True); [intros; unfold lift; destruct (w_del w (valof r) (VStr name) s0) as [[? ?] [?|?]]; exact I |].
          intros v _ m2 s2. rewrite bind_ret_l. reflexivity.
      + destruct (frag_flatten d Hf) as (st & ls0 & c0 & E0 & Hne).
        destruct (native_chain d Hf st ls0 c0 E0) as [_ Hnat].
        exists st, ls0, (LDot name), c0. cbn [flatten]. rewrite E0. repeat split; auto.
        { rewrite head_call_app by exact Hne. apply (flatten_head d Hf st ls0 c0 E0). }
        intros m s. cbn [eval]. rewrite (bind_cong_l _ _ _ m s Hnat). rewrite bind_assoc.
        apply bind_post with (Q := fun _ => True); [intros; destruct (ev st m0 s0) as [[[? ?] ?] [?|?]]; exact I |].
        intros r _ m1 s1. destruct (nullish (valof r)).
        * rewrite bind_ret_l. cbn [access]. rewrite bind_ret_l. reflexivity.
        * apply bind_post with (Q := fun o => o <> OShort); [apply run_nonshort, Hne |].
          intros a Hna m2 s2. destruct a; [| contradiction]. cbn [access run1d valof]. rewrite bind_assoc.
          apply bind_post with (Q := fun _ => True); [intros; unfold lift; destruct (w_del w v (VStr name) s0) as [[? ?] [?|?]]; exact I |].
          intros x _ m3 s3. rewrite bind_ret_l. reflexivity.
    - (* EIndex *)
      destruct o; try contradiction.
      + exists d1, [], (LIndex d2), false. cbn [flatten app]. repeat split; auto.
        intros m s. cbn [eval access run run1d].
        apply bind_post with (Q := fun _ => True); [intros; destruct (ev d1 m0 s0) as [[[? ?] ?] [?|?]]; exact I |].
        intros r _ m1 s1. destruct (nullish (valof r)).
        * rewrite bind_ret_l. reflexivity.
        * rewrite bind_ret_l. rewrite bind_assoc.
          apply bind_post with (Q := fun _ => True); [intros; destruct (ev d2 m0 s0) as [[[? ?] ?] [?|?]]; exact I |].
          intros kr _ m2 s2. rewrite bind_assoc.
          apply bind_post with (Q := fun _ => True); [intros; unfold lift; destruct (w_del w (valof r) (valof kr) s0) as [[? ?] [?|?]]; exact I |].
          intros v _ m3 s3. rewrite bind_ret_l. reflexivity.
      + destruct (frag_flatten d1 Hf) as (st & ls0 & c0 & E0 & Hne).
        destruct (native_chain d1 Hf st ls0 c0 E0) as [_ Hnat].
        exists st, ls0, (LIndex d2), c0. cbn [flatten]. rewrite E0. repeat split; auto.
        { rewrite head_call_app by exact Hne. apply (flatten_head d1 Hf st ls0 c0 E0). }
        intros m s. cbn [eval]. rewrite (bind_cong_l _ _ _ m s Hnat). rewrite bind_assoc.
        apply bind_post with (Q := fun _ => True); [intros; destruct (ev st m0 s0) as [[[? ?] ?] [?|?]]; exact I |].
        intros r _ m1 s1. destruct (nullish (valof r)).
        * rewrite bind_ret_l. cbn [access]. rewrite bind_ret_l. reflexivity.
        * apply bind_post with (Q := fun o => o <> OShort); [apply run_nonshort, Hne |].
          intros a Hna m2 s2. destruct a; [| contradiction]. cbn [access run1d valof]. rewrite bind_assoc.
          apply bind_post with (Q := fun _ => True); [intros; destruct (ev d2 m0 s0) as [[[? ?] ?] [?|?]]; exact I |].
          intros kr _ m3 s3. rewrite bind_assoc.
          apply bind_post with (Q := fun _ => True); [intros; unfold lift; destruct (w_del w v (valof kr) s0) as [[? ?] [?|?]]; exact I |].
          intros x _ m4 s4. rewrite bind_ret_l. reflexivity.
  Qed.

  Lemma rund_base ls0 l a b : head_call (ls0 ++ [l]) = false -> member_link l -> valof a = valof b ->
    forall m s, bind (run ls0 a) (run1d l) m s = bind (run ls0 b) (run1d l) m s.
  Proof.
    intros Hh Hm Hv m s. destruct ls0 as [| x xs].
    - cbn [run]. rewrite !bind_ret_l. destruct l; try contradiction; cbn [run1d]; rewrite Hv; reflexivity.
    - apply bind_cong_l. intros m0 s0. apply run_base; [discriminate | exact Hh | exact Hv].
  Qed.

  Lemma fold_links_app ls ls2 r : fold_links (ls ++ ls2) r = fold_links ls2 (fold_links ls r).
  Proof. unfold fold_links. apply fold_left_app. Qed.

  (* delete a?.b.c[k] ... : chains of any length under delete (not starting with a call) *)
  Theorem chain_delete_plain F d i n :
    frag d -> ends_with_access d = true ->
    forall start ls0 l,
    flatten d = Some (start, ls0 ++ [l], false) -> no_delete (ls0 ++ [l]) ->
    f_optchain F = true ->
    start <> ENull -> start <> EUndef -> cap_ok S w start ->
    ~ In n (tmps start) -> links_fresh (L1 n) (ls0 ++ [l]) ->
    forall m s, observe (ev (fst (fst (lowerOptionalChain F (EDelete d) i out0 n))) m s)
              = observe (ev (EDelete d) m s).
  Proof.
    intros Hfr Ha start ls0 l Hfl Hnd HF Hn1 Hn2 Hok Hfresh Hlf.
    destruct (native_delete d Hfr Ha) as (st & ls1 & l1 & c1 & E1 & Hm & Hhd & Hnat).
    rewrite Hfl in E1. injection E1 as Est Els Ec. subst st c1.
    apply app_inj_tail in Els. destruct Els as [<- <-].
    unfold lowerOptionalChain. cbn [flatten]. rewrite Hfl. cbn [is_delete].
    rewrite (start_match start _ _ Hn1 Hn2), HF. cbn [negb].
    destruct (capture start n) as [[first again] n3] eqn:Hc.
    cbn [ends_with_access]. rewrite andb_false_r.
    rewrite (apply_links_plain ((ls0 ++ [l]) ++ [LDelete]) ltac:(destruct (ls0 ++ [l]); discriminate) again true n3).
    cbn [fst]. rewrite !fold_links_app. cbn [fold_links fold_left link_expr].
    fold (fold_links ls0 again).
    set (L := L1 n).
    apply (simM_observe S L (fun _ a b => valof a = valof b)); [intros ? ? ? H; exact H |].
    eapply simM_ext; [intros; reflexivity | intros m0 s0; apply Hnat |].
    assert (Hds : forall k, L k -> ~ In k (tmps start)) by (intros k ->; exact Hfresh).
    assert (Hnd0 : no_delete ls0).
    { apply Forall_forall. intros x Hx. unfold no_delete in Hnd. rewrite Forall_forall in Hnd. apply Hnd. apply in_app_iff. auto. }
    assert (Hlf0 : links_fresh L ls0) by (intros x Hx; apply Hlf; apply in_app_iff; auto).
    assert (Hlfl : forall k, L k -> ~ In k (link_tmps l)) by (apply Hlf; apply in_app_iff; right; left; reflexivity).
    cbn [eval].
    apply simM_assoc_l. eapply simM_bind.
    - apply (piece_first S w th L (fun _ => True) start n first again n3 Hc Hok eq_refl Hds (stable_true L)). auto.
    - intros x y. apply simM_ret_l. apply simM_pure. intro E. cbn [valof ov]. rewrite E.
      destruct (nullish (valof y)) eqn:Hnull; cbn [xorb truthy].
      + apply simM_ret_l. apply simM_ret. intros; reflexivity.
      + assert (Hst : stable L (fun m0 : tstore => remp S w th start n (valof y) m0 /\ True)).
        { apply stable_and; [apply remp_stable; reflexivity | apply stable_true]. }
        assert (Hlow : forall m0 s0, ev (EDelete (link_expr l (fold_links ls0 again))) m0 s0
                                   = bind (bind (ev again) (run ls0)) (run1d l) m0 s0).
        { intros m0 s0. rewrite (ev_delete_link l (fold_links ls0 again) m0 s0 Hm).
          apply bind_cong_l. intros m1 s1. apply (ev_fold ls0 Hnd0 again). }
        eapply simM_ext;
          [ intros m0 s0; apply (bind_cong_l _ _ _ m0 s0 Hlow)
          | intros m0 s0; rewrite (rund_base ls0 l y (ov (valof y)) (eq_sym Hhd) Hm eq_refl m0 s0);
            symmetry; apply bind_ret_r |].
        repeat apply simM_assoc_l. eapply simM_left_pure.
        * intros m0 s0 [Hr _]. apply (piece_again S w th start n first again n3 _ m0 s0 Hc Hr).
        * cbn beta. repeat apply simM_assoc_l. repeat apply simM_assoc_r. eapply simM_bind.
          -- apply run_fresh; [exact Hlf0 | exact Hst].
          -- intros a b. apply simM_pure. intros ->. eapply simM_bind.
             ++ apply run1d_fresh; [exact Hlfl | exact Hst].
             ++ intros a2 b2. apply simM_pure. intros ->. cbn beta. apply simM_ret. intros; reflexivity.
  Qed.

  Lemma run1_member_base l a b : member_link l -> valof a = valof b ->
    forall m s, run1 l a m s = run1 l b m s.
  Proof. intros Hm Hv m s. destruct l; try contradiction; cbn [run1]; rewrite Hv; reflexivity. Qed.

  Lemma run1_member_baseof l r : member_link l ->
    forall m s, match run1 l r m s with (_, _, _, Ok o) => baseof o = valof r | _ => True end.
  Proof.
    intros Hm m s. destruct l; try contradiction; cbn [run1]; unfold bind, lift, ret.
    - destruct (w_get w (valof r) (VStr name) s) as [[? ?] [?|?]]; [reflexivity | exact I].
    - destruct (ev k m s) as [[[t1 m1] s1] [kr | x]]; [| exact I].
      destruct (w_get w (valof r) (valof kr) s1) as [[? ?] [?|?]]; [reflexivity | exact I].
  Qed.

  Lemma member_not_delete l : member_link l -> l <> LDelete.
  Proof. destruct l; intro H; try contradiction; discriminate. Qed.

  (* ---- this passing: an optional call whose callee is an optional chain ---- *)
  Lemma apply_links_store pre l : member_link l -> forall again inner n,
    apply_links (pre ++ [l]) again None inner true n
    = (let '(f, a, n1) := capture (fold_links pre again) n in (link_expr l f, Some a, n1)).
  Proof.
    intro Hm. induction pre as [| x xs IH]; intros again inner n.
    - cbn [app apply_links fold_links fold_left andb]. destruct (capture again n) as [[f a] n1].
      destruct l; try contradiction; reflexivity.
    - cbn [app fold_links fold_left]. fold (fold_links xs (link_expr x again)).
      rewrite <- (IH (link_expr x again) false n).
      destruct xs as [| y ys]; cbn [app apply_links andb]; destruct x, inner; reflexivity.
  Qed.

  Lemma capture_again_inline t n f a n1 : capture t n = (f, a, n1) -> is_inline_value a = true.
  Proof.
    unfold capture. destruct (is_inline_value t) eqn:Hi; intro H; injection H as <- <- <-; [exact Hi | reflexivity].
  Qed.

  Definition L3 (n : Z) : tpred := fun k => n <= k < n + 3.

  (* what visiting the callee start?.lm produces when the parent is an optional call *)
  Lemma producer_single F P hcp n start lm first again n3 :
    frag P -> flatten P = Some (start, [lm], false) -> member_link lm -> ends_with_access P = true ->
    f_optchain F = true -> start <> ENull -> start <> EUndef ->
    capture start n = (first, again, n3) ->
    lowerOptionalChain F P (mkIn hcp true) out0 n
    = (EIf (EEqNull false first) EUndef (link_expr lm again), mkOut (Some again) false, n3).
  Proof.
    intros Hfr Hfl Hm Ha HF Hn1 Hn2 Hc.
    unfold lowerOptionalChain. rewrite Hfl, (frag_not_delete P Hfr), (start_match start _ _ Hn1 Hn2), HF.
    cbn [negb]. rewrite Hc. cbn [storeThis]. rewrite Ha. cbn [andb].
    pose proof (apply_links_store [] lm Hm again true n3) as Hal. cbn [app] in Hal. rewrite Hal. cbn [fold_links fold_left].
    unfold capture. rewrite (capture_again_inline start n first again n3 Hc). reflexivity.
  Qed.

  (* (start?.lm)?.(args) link ... , i.e.  a?.b?.(x).c : the this value of the call is the
     object the member was read from, passed from the inner chain to the outer one *)
  Theorem chain_call_over_member F eo eo' i n start lm args rest first again n3 :
    member_link lm ->
    capture start n = (first, again, n3) ->
    forall P, frag P -> flatten P = Some (start, [lm], false) ->
    frag eo -> flatten eo = Some (P, LCall args :: rest, true) ->
    frag eo' ->
    flatten eo' = Some (EIf (EEqNull false first) EUndef (link_expr lm again), LCall args :: rest, true) ->
    no_delete rest -> f_optchain F = true -> storeThis i = false ->
    cap_ok S w start -> call_intact S w ->
    (forall k, L3 n k -> ~ In k (tmps start)) ->
    (forall k, L3 n k -> ~ In k (link_tmps lm)) ->
    links_fresh (L3 n) (LCall args :: rest) ->
    forall m s, observe (ev (fst (fst (lowerOptionalChain F eo' i (mkOut (Some again) false) n3))) m s)
              = observe (ev eo m s).
  Proof.
    intros Hm Hc P HfP HflP Hfo Hflo Hfo' Hflo' Hnd HF Hst Hok Hci Hds Hdl Hlf.
    destruct (native_chain eo Hfo _ _ _ Hflo) as [_ Hnat].
    destruct (native_chain P HfP _ _ _ HflP) as [_ HnatP].
    unfold lowerOptionalChain. rewrite Hflo', (frag_not_delete eo' Hfo'), HF.
    cbn [negb thisArg]. unfold capture at 1. cbn [is_inline_value].
    rewrite Hst. cbn [andb]. rewrite apply_links_this. cbn [fst].
    pose proof (capture_next start n first again n3 Hc) as Hn3.
    set (L := L3 n).
    assert (Ln : L n) by (unfold L, L3; lia).
    assert (Ln3 : L n3) by (unfold L, L3; destruct (is_inline_value start); lia).
    apply (simM_observe S L (fun _ a b => valof a = valof b)); [intros ? ? ? H; exact H |].
    eapply simM_ext;
      [ intros; reflexivity
      | intros m0 s0; rewrite Hnat; apply (bind_cong_l _ _ _ m0 s0 HnatP) |].
    assert (Hla : forall k, L k -> ~ In k (flat_map tmps args)).
    { intros k Hk. apply (Hlf (LCall args) (or_introl eq_refl) k Hk). }
    assert (Hlr : links_fresh L rest) by (intros l Hl; apply Hlf; right; exact Hl).
    cbn [eval].
    repeat apply simM_assoc_l. repeat apply simM_assoc_r. eapply simM_bind.
    - apply (piece_first S w th L (fun _ => True) start n first again n3 Hc Hok Ln Hds (stable_true L)). auto.
    - intros x y. apply simM_pure. intro E.
      apply simM_ret_l. cbn [valof ov]. rewrite E.
      assert (Hst1 : stable L (fun m0 : tstore => remp S w th start n (valof y) m0 /\ True)).
      { apply stable_and; [apply remp_stable; exact Ln | apply stable_true]. }
      destruct (nullish (valof y)) eqn:Hnull; cbn [xorb truthy].
      + (* the inner chain short-circuits: so does the outer one *)
        repeat (first [apply simM_assoc_l | apply simM_ret_l]). cbn [valof ov].
        eapply (simM_left_write S L _ (fun _ => True)); [exact Ln3 | auto |].
        repeat (first [apply simM_assoc_l | apply simM_ret_l]). cbn [valof ov nullish truthy].
        repeat (first [apply simM_assoc_l | apply simM_ret_l]).
        apply simM_ret_r. cbn [valof nullish]. apply simM_ret. intros; reflexivity.
      + (* the member is read from the start value; it becomes the callee *)
        repeat (first [apply simM_assoc_l | apply simM_ret_l]).
        cbn [run]. repeat apply simM_assoc_r.
        eapply simM_ext;
          [ intros m0 s0; apply (bind_cong_l _ _ _ m0 s0 (fun m1 s1 => ev_link_expr lm again m1 s1 (member_not_delete lm Hm)))
          | intros m0 s0; apply (bind_cong_l _ _ _ m0 s0 (run1_member_base lm y (ov (valof y)) Hm eq_refl)) |].
        apply simM_assoc_l. eapply simM_left_pure.
        { intros m0 s0 [Hr _]. apply (piece_again S w th start n first again n3 _ m0 s0 Hc Hr). }
        cbn beta. eapply simM_bind.
        { apply simM_post_right with (Q := fun o => baseof o = valof y);
            [apply (run1_fresh L _ lm (ov (valof y)) Hdl Hst1) | apply (run1_member_baseof lm (ov (valof y)) Hm)]. }
        intros r r0. cbn beta.
        eapply simM_conseq with (Pre := fun m0 => (r = r0 /\ baseof r0 = valof y) /\ remp S w th start n (valof y) m0)
                                (Post := fun _ a b => valof a = valof b);
          [intros m0 [[-> [Hr _]] Hb]; auto | intros; assumption |].
        apply simM_pure. intros [-> Hbase].
        repeat (first [apply simM_assoc_l | apply simM_ret_l]). apply simM_ret_r. cbn [valof ov].
        eapply (simM_left_write S L _ (fun m0 => tget m0 n3 = valof r0 /\ remp S w th start n (valof y) m0)); [exact Ln3 | |].
        { intros m0 Hr. split; [apply tget_tset_same |]. apply remp_tset'; [| exact Hr]. intro Hi. rewrite Hi in Hn3. lia. }
        repeat (first [apply simM_assoc_l | apply simM_ret_l]). cbn [valof ov].
        assert (Hstb : stable L (fun m0 : tstore => tget m0 n3 = valof r0 /\ remp S w th start n (valof y) m0)).
        { apply stable_and; [apply stable_tget; exact Ln3 | apply remp_stable; exact Ln]. }
        destruct (nullish (valof r0)) eqn:Hnf; cbn [truthy].
        * repeat (first [apply simM_assoc_l | apply simM_ret_l]). apply simM_ret. intros; reflexivity.
        * eapply simM_ext;
            [ intros m0 s0; apply (bind_cong_l _ _ _ m0 s0 (ev_fold rest Hnd (ECallThis (ETmp n3) again args)))
            | intros; reflexivity |].
          cbn [eval run1]. fold (evl args).
          repeat apply simM_assoc_l.
          eapply simM_left_pure; [intros m0 s0 [Hr _]; cbn; rewrite Hr; reflexivity |].
          cbn [valof ov]. repeat apply simM_assoc_l.
          eapply simM_left_skip.
          { intros m0 s0 _. unfold lift. destruct (Hci (valof r0) s0 Hnf) as [c Ec]. rewrite Ec. eexists; reflexivity. }
          intros _. repeat apply simM_assoc_l.
          eapply simM_left_pure;
            [intros m0 s0 [_ Hr]; apply (piece_again S w th start n first again n3 _ m0 s0 Hc Hr) |].
          cbn [valof ov]. rewrite Hbase. repeat apply simM_assoc_l. repeat apply simM_assoc_r.
          eapply simM_bind; [apply (simM_fresh_list S w th L _ args Hla Hstb) |].
          intros vs vs0. apply simM_pure. intros ->.
          repeat apply simM_assoc_l. repeat apply simM_assoc_r.
          eapply simM_bind; [apply simM_lift |].
          intros q q0. apply simM_pure. intros ->. apply simM_ret_l. apply simM_ret_r.
          eapply simM_ext; [intros; reflexivity | intros m0 s0; symmetry; apply bind_ret_r |].
          eapply simM_bind; [apply (run_fresh L _ rest Hlr Hstb) |].
          intros o1 o2. apply simM_pure. intros ->. apply simM_ret. intros; reflexivity.
  Qed.

  Lemma fold_not_inline pre r : pre <> [] -> is_inline_value (fold_links pre r) = false.
  Proof.
    intro Hne. destruct (exists_last Hne) as (xs & x & ->). rewrite fold_links_app.
    cbn [fold_links fold_left]. destruct x; reflexivity.
  Qed.

  Lemma producer_general F P hcp n start pre lm first again n3 :
    frag P -> flatten P = Some (start, pre ++ [lm], false) -> member_link lm -> ends_with_access P = true ->
    pre <> [] ->
    f_optchain F = true -> start <> ENull -> start <> EUndef ->
    capture start n = (first, again, n3) ->
    lowerOptionalChain F P (mkIn hcp true) out0 n
    = (EIf (EEqNull false first) EUndef (link_expr lm (EAssign (ETmp n3) (fold_links pre again))),
       mkOut (Some (ETmp n3)) false, n3 + 1).
  Proof.
    intros Hfr Hfl Hm Ha Hne HF Hn1 Hn2 Hc.
    unfold lowerOptionalChain. rewrite Hfl, (frag_not_delete P Hfr), (start_match start _ _ Hn1 Hn2), HF.
    cbn [negb]. rewrite Hc. cbn [storeThis]. rewrite Ha. cbn [andb].
    rewrite (apply_links_store pre lm Hm again true n3).
    unfold capture. rewrite (fold_not_inline pre again Hne). reflexivity.
  Qed.

  (* (start?.l1...lk.lm)?.(args) link ... , e.g.  a?.b.c?.(x) : this = the value of a?.b *)
  Theorem chain_call_over_chain F eo eo' i n start pre lm args rest first again n3 :
    member_link lm -> pre <> [] -> no_delete pre ->
    capture start n = (first, again, n3) ->
    forall P, frag P -> flatten P = Some (start, pre ++ [lm], false) ->
    frag eo -> flatten eo = Some (P, LCall args :: rest, true) ->
    frag eo' ->
    flatten eo' = Some (EIf (EEqNull false first) EUndef (link_expr lm (EAssign (ETmp n3) (fold_links pre again))),
                        LCall args :: rest, true) ->
    no_delete rest -> f_optchain F = true -> storeThis i = false ->
    cap_ok S w start -> call_intact S w ->
    (forall k, L3 n k -> ~ In k (tmps start)) ->
    links_fresh (L3 n) (pre ++ [lm]) ->
    links_fresh (L3 n) (LCall args :: rest) ->
    forall m s, observe (ev (fst (fst (lowerOptionalChain F eo' i (mkOut (Some (ETmp n3)) false) (n3 + 1)))) m s)
              = observe (ev eo m s).
  Proof.
    intros Hm Hne Hndp Hc P HfP HflP Hfo Hflo Hfo' Hflo' Hnd HF Hst Hok Hci Hds Hlfp Hlf.
    destruct (native_chain eo Hfo _ _ _ Hflo) as [_ Hnat].
    destruct (native_chain P HfP _ _ _ HflP) as [_ HnatP].
    pose proof (flatten_head P HfP _ _ _ HflP) as Hhd. rewrite head_call_app in Hhd by exact Hne. symmetry in Hhd.
    unfold lowerOptionalChain. rewrite Hflo', (frag_not_delete eo' Hfo'), HF.
    cbn [negb thisArg]. unfold capture at 1. cbn [is_inline_value].
    rewrite Hst. cbn [andb]. rewrite apply_links_this. cbn [fst].
    pose proof (capture_next start n first again n3 Hc) as Hn3.
    set (L := L3 n).
    assert (Ln : L n) by (unfold L, L3; lia).
    assert (Ln3 : L n3) by (unfold L, L3; destruct (is_inline_value start); lia).
    assert (Ln4 : L (n3 + 1)) by (unfold L, L3; destruct (is_inline_value start); lia).
    apply (simM_observe S L (fun _ a b => valof a = valof b)); [intros ? ? ? H; exact H |].
    eapply simM_ext;
      [ intros; reflexivity
      | intros m0 s0; rewrite Hnat; apply (bind_cong_l _ _ _ m0 s0 HnatP) |].
    assert (Hla : forall k, L k -> ~ In k (flat_map tmps args)).
    { intros k Hk. apply (Hlf (LCall args) (or_introl eq_refl) k Hk). }
    assert (Hlr : links_fresh L rest) by (intros l Hl; apply Hlf; right; exact Hl).
    assert (Hlpre : links_fresh L pre) by (intros l Hl; apply Hlfp; apply in_app_iff; auto).
    assert (Hdl : forall k, L k -> ~ In k (link_tmps lm)) by (apply Hlfp; apply in_app_iff; right; left; reflexivity).
    cbn [eval].
    repeat apply simM_assoc_l. repeat apply simM_assoc_r. eapply simM_bind.
    - apply (piece_first S w th L (fun _ => True) start n first again n3 Hc Hok Ln Hds (stable_true L)). auto.
    - intros x y. apply simM_pure. intro E.
      apply simM_ret_l. cbn [valof ov]. rewrite E.
      assert (Hst1 : stable L (fun m0 : tstore => remp S w th start n (valof y) m0 /\ True)).
      { apply stable_and; [apply remp_stable; exact Ln | apply stable_true]. }
      destruct (nullish (valof y)) eqn:Hnull; cbn [xorb truthy].
      + repeat (first [apply simM_assoc_l | apply simM_ret_l]). cbn [valof ov].
        eapply (simM_left_write S L _ (fun _ => True)); [exact Ln4 | auto |].
        repeat (first [apply simM_assoc_l | apply simM_ret_l]). cbn [valof ov nullish truthy].
        repeat (first [apply simM_assoc_l | apply simM_ret_l]).
        apply simM_ret_r. cbn [valof nullish]. apply simM_ret. intros; reflexivity.
      + repeat (first [apply simM_assoc_l | apply simM_ret_l]).
        assert (Hlow : forall m0 s0,
                  ev (link_expr lm (EAssign (ETmp n3) (fold_links pre again))) m0 s0
                  = bind (bind (bind (ev again) (run pre))
                               (fun r m1 s1 => ([], tset m1 n3 (valof r), s1, Ok (ov (valof r)))))
                         (run1 lm) m0 s0).
        { intros m0 s0. rewrite (ev_link_expr lm _ m0 s0 (member_not_delete lm Hm)).
          apply bind_cong_l. intros m1 s1. cbn [eval]. apply bind_cong_l. intros m2 s2. apply (ev_fold pre Hndp again). }
        assert (Hrn : forall m1 s1, run (pre ++ [lm]) y m1 s1 = bind (run pre (ov (valof y))) (run1 lm) m1 s1).
        { intros m1 s1. rewrite run_app. apply bind_cong_l. intros m2 s2. apply (run_base pre y (ov (valof y)) Hne Hhd eq_refl). }
        eapply simM_ext;
          [ intros m0 s0; apply (bind_cong_l _ _ _ m0 s0 Hlow)
          | intros m0 s0; apply (bind_cong_l _ _ _ m0 s0 Hrn) |].
        repeat apply simM_assoc_l. repeat apply simM_assoc_r.
        eapply simM_left_pure.
        { intros m0 s0 [Hr _]. apply (piece_again S w th start n first again n3 _ m0 s0 Hc Hr). }
        cbn beta. repeat apply simM_assoc_l. eapply simM_bind; [apply (run_fresh L _ pre Hlpre Hst1) |].
        intros r1 r1'. apply simM_pure. intros ->.
        repeat apply simM_assoc_l.
        eapply (simM_left_write S L _ (fun m0 => tget m0 n3 = valof r1' /\ remp S w th start n (valof y) m0)); [exact Ln3 | |].
        { intros m0 [Hr _]. split; [apply tget_tset_same |]. apply remp_tset'; [| exact Hr]. intro Hi. rewrite Hi in Hn3. lia. }
        assert (Hstb : stable L (fun m0 : tstore => tget m0 n3 = valof r1' /\ remp S w th start n (valof y) m0)).
        { apply stable_and; [apply stable_tget; exact Ln3 | apply remp_stable; exact Ln]. }
        eapply simM_ext;
          [ intros; reflexivity
          | intros m0 s0; apply (bind_cong_l _ _ _ m0 s0 (run1_member_base lm r1' (ov (valof r1')) Hm eq_refl)) |].
        eapply simM_bind.
        { apply simM_post_right with (Q := fun o => baseof o = valof r1');
            [apply (run1_fresh L _ lm (ov (valof r1')) Hdl Hstb) | apply (run1_member_baseof lm (ov (valof r1')) Hm)]. }
        intros r r0. cbn beta.
        eapply simM_conseq with (Pre := fun m0 => (r = r0 /\ baseof r0 = valof r1') /\
                                         (tget m0 n3 = valof r1' /\ remp S w th start n (valof y) m0))
                                (Post := fun _ a b => valof a = valof b);
          [intros m0 [[-> Hr] Hb]; auto | intros; assumption |].
        apply simM_pure. intros [-> Hbase].
        repeat (first [apply simM_assoc_l | apply simM_ret_l]). cbn beta. cbn [valof ov].
        eapply (simM_left_write S L _ (fun m0 => tget m0 (n3 + 1) = valof r0 /\ tget m0 n3 = valof r1'));
          [exact Ln4 | |].
        { intros m0 [Hr _]. split; [apply tget_tset_same |]. rewrite tget_tset_other by lia. exact Hr. }
        repeat (first [apply simM_assoc_l | apply simM_ret_l]). cbn [valof ov].
        assert (Hstc : stable L (fun m0 : tstore => tget m0 (n3 + 1) = valof r0 /\ tget m0 n3 = valof r1')).
        { apply stable_and; apply stable_tget; assumption. }
        destruct (nullish (valof r0)) eqn:Hnf; cbn [truthy].
        * repeat (first [apply simM_assoc_l | apply simM_ret_l]). apply simM_ret. intros; reflexivity.
        * eapply simM_ext;
            [ intros m0 s0; apply (bind_cong_l _ _ _ m0 s0 (ev_fold rest Hnd (ECallThis (ETmp (n3 + 1)) (ETmp n3) args)))
            | intros; reflexivity |].
          cbn [eval run run1]. fold (evl args).
          repeat apply simM_assoc_l.
          eapply simM_left_pure; [intros m0 s0 [Hr _]; cbn; rewrite Hr; reflexivity |].
          cbn [valof ov]. repeat apply simM_assoc_l.
          eapply simM_left_skip.
          { intros m0 s0 _. unfold lift. destruct (Hci (valof r0) s0 Hnf) as [c Ec]. rewrite Ec. eexists; reflexivity. }
          intros _. repeat apply simM_assoc_l.
          eapply simM_left_pure; [intros m0 s0 [_ Hr]; cbn; rewrite Hr; reflexivity |].
          cbn [valof ov]. rewrite Hbase. repeat apply simM_assoc_l. repeat apply simM_assoc_r.
          eapply simM_bind; [apply (simM_fresh_list S w th L _ args Hla Hstc) |].
          intros vs vs0. apply simM_pure. intros ->.
          repeat apply simM_assoc_l. repeat apply simM_assoc_r.
          eapply simM_bind; [apply simM_lift |].
          intros q q0. apply simM_pure. intros ->. apply simM_ret_l. apply simM_ret_r.
          eapply simM_ext; [intros; reflexivity | intros m0 s0; symmetry; apply bind_ret_r |].
          eapply simM_bind; [apply (run_fresh L _ rest Hlr Hstc) |].
          intros o1 o2. apply simM_pure. intros ->. apply simM_ret. intros; reflexivity.
  Qed.
End Chain.
