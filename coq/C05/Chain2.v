(* A single, compositional account of lowerOptionalChain: how the lowered start
   remembers the value (and the this value) the links need [start_ok], how the
   expression built by apply_links evaluates for every list of links, every way
   the first call gets its this value, with or without the capture for the
   parent's this (storeThisArgForParentOptionalChain) and under delete. *)
From V Require Import Common.Base C05.Syntax C05.Sem C05.Lower C05.Frame C05.LowerProofs C05.SimLogic C05.Steps C05.Chain.

Section Chain2.
  Variable S : Type.
  Variable w : world S.
  Variable th : val.
  Notation ev := (eval w th).
  Notation evl := (eval_list S w th).
  Notation simM := (simM S).
  Notation run := (Chain.run S w th).
  Notation run1 := (Chain.run1 S w th).
  Notation run1d := (Chain.run1d S w th).

  Notation T0 := (fun _ : tstore => True).

  (* expression t reads value b in store m, without any effect *)
  Definition rd (t : expr) (b : val) (m : tstore) : Prop :=
    forall s, ev t m s = ([], m, s, Ok (ov b)).

  (* a reader that survives what the rest of the lowering does: evaluation of
     fresh sub-expressions and writes to later temporaries *)
  Definition robust (L : tpred) (bound : Z) (t : expr) : Prop :=
    (forall b, stable L (rd t b)) /\
    (forall b m k v, bound <= k -> rd t b m -> rd t b (tset m k v)).

  Lemma robust_tmp (L : tpred) bound k : L k -> k < bound -> robust L bound (ETmp k).
  Proof.
    intros Hk Hb. split.
    - intros b m m' H Hr s. specialize (Hr s). unfold rd in *. cbn [eval] in *.
      assert (E : tget m k = b) by (unfold ov in Hr; injection Hr as E; exact E). rewrite (H k Hk), E. reflexivity.
    - intros b m k' v Hk' Hr s. specialize (Hr s). cbn [eval] in *.
      assert (E : tget m k = b) by (unfold ov in Hr; injection Hr as E; exact E).
      rewrite tget_tset_other by lia. rewrite E. reflexivity.
  Qed.

  Lemma robust_const (L : tpred) bound t :
    is_inline_value t = true -> dupable S w t -> robust L bound t.
  Proof.
    intros Hi Hd. destruct (dup_const S w th t Hi Hd) as [c Hc]. split.
    - intros b m m' _ Hr s. specialize (Hr s). rewrite Hc in *. congruence.
    - intros b m k v _ Hr s. specialize (Hr s). rewrite Hc in *. congruence.
  Qed.

  Lemma capture_robust (L : tpred) bound t n f a n1 :
    capture t n = (f, a, n1) -> cap_ok S w t -> L n -> n < bound -> robust L bound a.
  Proof.
    unfold capture. destruct (is_inline_value t) eqn:Hi; intros Hc Hok Hn Hb; injection Hc as <- <- <-.
    - destruct Hok as [Hok | Hd]; [congruence |]. apply robust_const; assumption.
    - apply robust_tmp; assumption.
  Qed.

  Lemma remp_rd t n f a n1 v m : capture t n = (f, a, n1) -> remp S w th t n v m -> rd a v m.
  Proof. intros Hc Hr s. apply (piece_again S w th t n f a n1 v m s Hc Hr). Qed.

  Lemma simM_rd (L : tpred) (Pre : tstore -> Prop) t v :
    (forall m, Pre m -> rd t v m) ->
    simM L Pre (fun m a b => a = b /\ Pre m) (ev t) (ret (ov v)).
  Proof.
    intros H m m0 s Hs Hp. rewrite (H m Hp s). cbn. repeat split; auto.
  Qed.

  (* ---- the first link when it is a call with an explicit this ---- *)
  Lemma head_call_this (L : tpred) (Pre : tstore -> Prop) again t args r :
    (forall m, Pre m -> rd again (valof r) m /\ rd t (baseof r) m) -> stable L Pre ->
    call_intact S w -> nullish (valof r) = false ->
    (forall k, L k -> ~ In k (flat_map tmps args)) ->
    simM L Pre (fun m a b => a = b /\ Pre m) (ev (ECallThis again t args)) (run1 (LCall args) r).
  Proof.
    intros Hrd Hst Hci Hnn Hla. cbn [eval Chain.run1]. fold (evl args).
    eapply simM_left_pure; [intros m s Hp; apply (proj1 (Hrd m Hp)) |].
    cbn [valof ov].
    eapply simM_left_skip.
    { intros m s _. unfold lift. destruct (Hci (valof r) s Hnn) as [c Ec]. rewrite Ec. eexists; reflexivity. }
    intros _.
    eapply simM_left_pure; [intros m s Hp; apply (proj2 (Hrd m Hp)) |].
    cbn [valof ov].
    eapply simM_bind; [apply (simM_fresh_list S w th L Pre args Hla Hst) |].
    intros vs vs0. apply simM_pure. intros ->.
    eapply simM_bind; [apply simM_lift |].
    intros q q0. apply simM_pure. intros ->. apply simM_ret. auto.
  Qed.

  (* ---- the remaining links ---- *)
  Lemma tail_plain (L : tpred) (Pre : tstore -> Prop) h (cH : M S out) lt :
    simM L Pre (fun m a b => a = b /\ Pre m) (ev h) cH ->
    links_fresh L lt -> no_delete lt -> stable L Pre ->
    simM L Pre (fun m a b => a = b /\ Pre m) (ev (fold_links lt h)) (bind cH (run lt)).
  Proof.
    intros Hh Hlf Hnd Hst.
    eapply simM_ext; [intros m s; apply (ev_fold S w th lt Hnd h m s) | intros; reflexivity |].
    eapply simM_bind; [exact Hh |]. intros a b. apply simM_pure. intros ->.
    apply run_fresh; assumption.
  Qed.

  Lemma tail_delete (L : tpred) (Pre : tstore -> Prop) h (cH : M S out) pre l :
    simM L Pre (fun m a b => a = b /\ Pre m) (ev h) cH ->
    links_fresh L (pre ++ [l]) -> no_delete pre -> member_link l -> stable L Pre ->
    simM L Pre (fun m a b => a = b /\ Pre m) (ev (EDelete (link_expr l (fold_links pre h))))
         (bind cH (fun c => bind (run pre c) (run1d l))).
  Proof.
    intros Hh Hlf Hnd Hm Hst.
    assert (Hlfp : links_fresh L pre) by (intros x Hx; apply Hlf; apply in_app_iff; auto).
    assert (Hlfl : forall k, L k -> ~ In k (link_tmps l)) by (apply Hlf; apply in_app_iff; right; left; reflexivity).
    eapply simM_ext;
      [ intros m s; rewrite (ev_delete_link S w th l (fold_links pre h) m s Hm);
        apply (bind_cong_l S _ _ _ m s (ev_fold S w th pre Hnd h))
      | intros; reflexivity |].
    apply simM_assoc_l.
    eapply simM_bind; [exact Hh |]. intros a b. apply simM_pure. intros ->.
    eapply simM_bind; [apply run_fresh; assumption |]. intros a2 b2. apply simM_pure. intros ->.
    apply run1d_fresh; assumption.
  Qed.

  Lemma rd_tmp_intro k v m : tget m k = v -> rd (ETmp k) v m.
  Proof. intros E s. cbn. rewrite E. reflexivity. Qed.

  (* the last (member) link when the object it is read from is captured for the
     parent's this *)
  Lemma tail_store_cap (L : tpred) (Pre : tstore -> Prop) h (cH : M S out) pre lm n3 :
    simM L Pre (fun m a b => a = b /\ Pre m) (ev h) cH ->
    member_link lm -> links_fresh L (pre ++ [lm]) -> no_delete pre -> stable L Pre ->
    L n3 -> (forall m v, Pre m -> Pre (tset m n3 v)) ->
    simM L Pre (fun m a b => a = b /\ rd (ETmp n3) (baseof b) m /\ Pre m)
         (ev (link_expr lm (EAssign (ETmp n3) (fold_links pre h))))
         (bind cH (fun c => bind (run pre c) (run1 lm))).
  Proof.
    intros Hh Hm Hlf Hnd Hst Ln3 Hset.
    assert (Hlfp : links_fresh L pre) by (intros x Hx; apply Hlf; apply in_app_iff; auto).
    assert (Hlfl : forall k, L k -> ~ In k (link_tmps lm)) by (apply Hlf; apply in_app_iff; right; left; reflexivity).
    assert (Hlow : forall m0 s0,
              ev (link_expr lm (EAssign (ETmp n3) (fold_links pre h))) m0 s0
              = bind (bind (bind (ev h) (run pre))
                           (fun r m1 s1 => ([], tset m1 n3 (valof r), s1, Ok (ov (valof r)))))
                     (run1 lm) m0 s0).
    { intros m0 s0. rewrite (ev_link_expr S w th lm _ m0 s0 (member_not_delete lm Hm)).
      apply bind_cong_l. intros m1 s1. cbn [eval]. apply bind_cong_l. intros m2 s2. apply (ev_fold S w th pre Hnd h). }
    eapply simM_ext; [intros m0 s0; apply Hlow | intros; reflexivity |].
    repeat apply simM_assoc_l.
    eapply simM_bind; [exact Hh |]. intros a b. apply simM_pure. intros ->.
    repeat apply simM_assoc_l.
    eapply simM_bind; [apply run_fresh; assumption |]. intros c c0. apply simM_pure. intros ->.
    eapply (simM_left_write S L _ (fun m0 => tget m0 n3 = valof c0 /\ Pre m0)); [exact Ln3 | |].
    { intros m0 Hp. split; [apply tget_tset_same | apply Hset, Hp]. }
    assert (Hstb : stable L (fun m0 : tstore => tget m0 n3 = valof c0 /\ Pre m0)).
    { apply stable_and; [apply stable_tget; exact Ln3 | exact Hst]. }
    eapply simM_ext;
      [ intros; reflexivity
      | intros m0 s0; apply (run1_member_base S w th lm c0 (ov (valof c0)) Hm eq_refl) |].
    eapply simM_conseq with (Pre := fun m0 => tget m0 n3 = valof c0 /\ Pre m0)
                            (Post := fun m a b => (a = b /\ (tget m n3 = valof c0 /\ Pre m)) /\ baseof b = valof c0);
      [auto | |].
    - intros m x y [[-> [Ht Hp]] Hb]. split; [reflexivity |]. split; [| exact Hp].
      rewrite Hb. apply rd_tmp_intro, Ht.
    - apply simM_post_right;
        [apply (run1_fresh S w th L _ lm (ov (valof c0)) Hlfl Hstb) | apply (run1_member_baseof S w th lm (ov (valof c0)) Hm)].
  Qed.

  (* the same when the object is an expression esbuild does not capture (a temporary or a constant) *)
  Lemma tail_store_inl (L : tpred) (Pre : tstore -> Prop) h v lm :
    (forall m, Pre m -> rd h v m) -> member_link lm ->
    (forall k, L k -> ~ In k (link_tmps lm)) -> stable L Pre ->
    simM L Pre (fun m a b => a = b /\ rd h (baseof b) m /\ Pre m)
         (ev (link_expr lm h)) (bind (ret (ov v)) (run1 lm)).
  Proof.
    intros Hrd Hm Hlfl Hst.
    eapply simM_ext;
      [ intros m0 s0; apply (ev_link_expr S w th lm h m0 s0 (member_not_delete lm Hm)) | intros; reflexivity |].
    eapply simM_left_pure; [intros m s Hp; apply (Hrd m Hp) |].
    apply simM_ret_r.
    eapply simM_conseq with (Pre := Pre)
                            (Post := fun m a b => (a = b /\ Pre m) /\ baseof b = v);
      [auto | |].
    - intros m x y [[-> Hp] Hb]. split; [reflexivity |]. split; [| exact Hp]. rewrite Hb. apply Hrd, Hp.
    - apply simM_post_right;
        [apply (run1_fresh S w th L _ lm (ov v) Hlfl Hst) | apply (run1_member_baseof S w th lm (ov v) Hm)].
  Qed.

  (* ---- the conditional around the links ---- *)
  Lemma wrap_if (L : tpred) (StartPost : tstore -> out -> out -> Prop)
        (Post : tstore -> out -> out -> Prop) first whenU result (uv : val) (short : out) (cS : M S out)
        (body : out -> M S out) :
    simM L T0 StartPost (ev first) cS ->
    (forall m a r, StartPost m a r -> valof a = valof r) ->
    (forall m s, ev whenU m s = ([], m, s, Ok (ov uv))) ->
    (forall m, Post m (ov uv) short) ->
    (forall a r, nullish (valof r) = false ->
       simM L (fun m => StartPost m a r) (fun m x y => Post m (ov (valof x)) y) (ev result) (body r)) ->
    simM L T0 Post (ev (EIf (EEqNull false first) whenU result))
         (bind cS (fun r => if nullish (valof r) then ret short else body r)).
  Proof.
    intros Hs Hv Hu Hsh Hb. cbn [eval].
    repeat apply simM_assoc_l. eapply simM_bind; [exact Hs |].
    intros a r. apply simM_ret_l. cbn [valof ov xorb].
    intros m m0 s Hsm Hp. pose proof (Hv m a r Hp) as E. rewrite E.
    destruct (nullish (valof r)) eqn:Hn; cbn [truthy].
    - unfold bind. rewrite Hu. cbn. repeat split; auto.
    - specialize (Hb a r Hn m m0 s Hsm Hp). unfold bind.
      destruct (ev result m s) as [[[t1 m1] s1] r1], (body r m0 s) as [[[t2 m2] s2] r2].
      destruct Hb as (-> & -> & Hs' & Hr). destruct r1 as [x | v], r2 as [y | v0]; try contradiction;
        cbn; rewrite ?app_nil_r; repeat split; auto.
  Qed.

  (* ---- what apply_links builds, for every combination ---- *)
  Inductive tmode := TPlain | TStore | TDelete.

  Definition tail_expr (md : tmode) (lt : list link) (h : expr) (n3 : Z) : expr * option expr * Z :=
    match md with
    | TPlain => (fold_links lt h, None, n3)
    | TDelete => (EDelete (fold_links lt h), None, n3)
    | TStore => let '(f2, a2, n4) := capture (fold_links (removelast lt) h) n3 in
                (link_expr (last lt LDelete) f2, Some a2, n4)
    end.

  Definition tail_run (md : tmode) (lt : list link) (c : out) : M S out :=
    match md with
    | TDelete => bind (run (removelast lt) c) (run1d (last lt LDelete))
    | _ => run lt c
    end.

  Lemma apply_links_noinner_store ls t store : forall r1 n1,
    apply_links ls r1 (Some t) false store n1 = apply_links ls r1 None false store n1.
  Proof.
    induction ls as [| x xs IHx]; intros r1 n1; [reflexivity |]. cbn [apply_links].
    destruct xs.
    - destruct (true && store); [destruct (capture r1 n1) as [[? ?] ?] |]; destruct x; reflexivity.
    - cbn [andb]. rewrite IHx. destruct x; reflexivity.
  Qed.

  Lemma apply_links_none ls again store n3 : ls <> [] ->
    (store = true -> member_link (last ls LDelete)) ->
    apply_links ls again None true store n3 = tail_expr (if store then TStore else TPlain) ls again n3.
  Proof.
    intros Hne Hm. destruct store.
    - destruct (exists_last Hne) as (pre & lm & ->). rewrite last_last in Hm.
      rewrite (apply_links_store pre lm (Hm eq_refl) again true n3).
      cbn [tail_expr]. rewrite removelast_last, last_last. reflexivity.
    - apply apply_links_plain, Hne.
  Qed.

  Lemma apply_links_some args rest again t store n3 :
    (store = true -> rest <> [] /\ member_link (last rest LDelete)) ->
    apply_links (LCall args :: rest) again (Some t) true store n3
    = tail_expr (if store then TStore else TPlain) rest (ECallThis again t args) n3.
  Proof.
    intro Hm. destruct store.
    - destruct (Hm eq_refl) as [Hne Hml]. cbn [apply_links].
      destruct rest as [| l2 rest2]; [contradiction |]. cbn [andb].
      rewrite apply_links_noinner_store.
      destruct (exists_last Hne) as (pre & lm & E). rewrite E in *. rewrite last_last in Hml.
      rewrite (apply_links_store pre lm Hml (ECallThis again t args) false n3).
      cbn [tail_expr]. rewrite removelast_last, last_last. reflexivity.
    - apply apply_links_this.
  Qed.

  Lemma tail_sound md lt h (cH : M S out) n3 (L : tpred) (Pre : tstore -> Prop) :
    simM L Pre (fun m a b => a = b /\ Pre m) (ev h) cH ->
    links_fresh L lt -> no_delete lt -> stable L Pre ->
    (md = TStore -> exists pre lm, lt = pre ++ [lm] /\ member_link lm /\ L n3 /\
                      (forall m v, Pre m -> Pre (tset m n3 v)) /\
                      (is_inline_value (fold_links pre h) = true ->
                       exists v, (forall m s, cH m s = ret (ov v) m s) /\ forall m, Pre m -> rd h v m)) ->
    (md = TDelete -> exists pre l, lt = pre ++ [l] /\ member_link l) ->
    simM L Pre (fun m a b => valof a = valof b /\
                             (md = TStore -> exists t, snd (fst (tail_expr md lt h n3)) = Some t /\ rd t (baseof b) m))
         (ev (fst (fst (tail_expr md lt h n3)))) (bind cH (tail_run md lt)).
  Proof.
    intros Hh Hlf Hnd Hst Hstore Hdel. destruct md; cbn [tail_expr tail_run fst snd].
    - eapply simM_conseq; [| | apply (tail_plain L Pre h cH lt Hh Hlf Hnd Hst)]; cbn; auto.
      intros m a b [-> _]. split; [reflexivity | discriminate].
    - destruct (Hstore eq_refl) as (pre & lm & -> & Hm & Ln3 & Hset & Hinl).
      rewrite removelast_last, last_last.
      assert (Hndp : no_delete pre).
      { apply Forall_forall. intros x Hx. unfold no_delete in Hnd. rewrite Forall_forall in Hnd. apply Hnd, in_app_iff. auto. }
      assert (Hrun : forall c m s, run (pre ++ [lm]) c m s = bind (run pre c) (run1 lm) m s) by (intros; apply run_app).
      unfold capture. destruct (is_inline_value (fold_links pre h)) eqn:Hi; cbn [fst snd].
      + destruct (Hinl eq_refl) as (v & HcH & Hrd).
        assert (Hpre : pre = []).
        { destruct pre as [| p0 ps]; [reflexivity |].
          rewrite (fold_not_inline (p0 :: ps) h ltac:(discriminate)) in Hi. discriminate Hi. }
        subst pre. cbn [fold_links fold_left app] in *.
        eapply simM_ext;
          [ intros; reflexivity
          | intros m s; rewrite (bind_cong_l S _ _ _ m s HcH);
            apply (bind_post S (fun _ => True)); [intros; exact I |];
            intros c _ m1 s1; cbn [Chain.run]; apply bind_ret_r |].
        eapply simM_conseq; [| | apply (tail_store_inl L Pre h v lm Hrd Hm)]; cbn; auto.
        * intros m a b (-> & Hr & _). split; [reflexivity |]. intros _. exists h. auto.
        * apply Hlf. left. reflexivity.
      + eapply simM_ext;
          [ intros; reflexivity
          | intros m s; apply (bind_post S (fun _ => True)); [intros; destruct (cH m0 s0) as [[[? ?] ?] [?|?]]; exact I |];
            intros c _ m1 s1; apply Hrun |].
        eapply simM_conseq; [| | apply (tail_store_cap L Pre h cH pre lm n3 Hh Hm Hlf Hndp Hst Ln3 Hset)]; cbn; auto.
        intros m a b (-> & Hr & _). split; [reflexivity |]. intros _. exists (ETmp n3). auto.
    - destruct (Hdel eq_refl) as (pre & l & -> & Hm). unfold tail_run.
      rewrite removelast_last, last_last. rewrite fold_links_app. cbn [fold_links fold_left].
      fold (fold_links pre h).
      assert (Hndp : no_delete pre).
      { apply Forall_forall. intros x Hx. unfold no_delete in Hnd. rewrite Forall_forall in Hnd. apply Hnd, in_app_iff. auto. }
      eapply simM_conseq; [| | apply (tail_delete L Pre h cH pre l Hh Hlf Hndp Hm Hst)]; cbn; auto.
      intros m a b [-> _]. split; [reflexivity | discriminate].
  Qed.

  (* ---- the whole lowered chain ---- *)
  Definition StartPost (ls : list link) (again : expr) (thisA : option expr) (m : tstore) (a r : out) : Prop :=
    valof a = valof r /\ rd again (valof r) m /\
    (nullish (valof r) = false ->
     match thisA with
     | Some t => rd t (baseof r) m
     | None => head_call ls = true -> baseof r = VUndef
     end).

  Definition PostR (md : tmode) (pth : option expr) (m : tstore) (a b : out) : Prop :=
    valof a = valof b /\ (md = TStore -> b <> OShort -> exists t, pth = Some t /\ rd t (baseof b) m).

  Lemma StartPost_stable (L : tpred) bound ls again thisA a r :
    robust L bound again -> (forall t, thisA = Some t -> robust L bound t) ->
    stable L (fun m => StartPost ls again thisA m a r) /\
    (forall m k v, bound <= k -> StartPost ls again thisA m a r -> StartPost ls again thisA (tset m k v) a r).
  Proof.
    intros [Ha1 Ha2] Ht. split.
    - intros m m' H (E & Hr & Hth). split; [exact E |]. split; [apply (Ha1 _ m m' H Hr) |].
      intro Hn. specialize (Hth Hn). destruct thisA as [t |]; [| exact Hth].
      destruct (Ht t eq_refl) as [Ht1 _]. apply (Ht1 _ m m' H Hth).
    - intros m k v Hk (E & Hr & Hth). split; [exact E |]. split; [apply (Ha2 _ m k v Hk Hr) |].
      intro Hn. specialize (Hth Hn). destruct thisA as [t |]; [| exact Hth].
      destruct (Ht t eq_refl) as [_ Ht2]. apply (Ht2 _ m k v Hk Hth).
  Qed.

  Theorem root_sound (L : tpred) ls first again thisA (cS : M S out) md lt h (cH : out -> M S out)
          (NAT : out -> M S out) n3 whenU uv short :
    simM L T0 (StartPost ls again thisA) (ev first) cS ->
    robust L n3 again -> (forall t, thisA = Some t -> robust L n3 t) ->
    (forall m s, ev whenU m s = ([], m, s, Ok (ov uv))) -> valof short = uv -> (md = TStore -> short = OShort) ->
    (forall a r, nullish (valof r) = false ->
       simM L (fun m => StartPost ls again thisA m a r)
              (fun m x y => x = y /\ StartPost ls again thisA m a r) (ev h) (cH r)) ->
    (forall a r m0, nullish (valof r) = false -> StartPost ls again thisA m0 a r ->
       forall m s, NAT r m s = bind (cH r) (tail_run md lt) m s) ->
    links_fresh L lt -> no_delete lt ->
    (md = TStore -> exists pre lm, lt = pre ++ [lm] /\ member_link lm /\ L n3 /\
                      (is_inline_value (fold_links pre h) = true ->
                       forall r, exists v, (forall m s, cH r m s = ret (ov v) m s) /\
                                           forall m a, StartPost ls again thisA m a r -> rd h v m)) ->
    (md = TDelete -> exists pre l, lt = pre ++ [l] /\ member_link l) ->
    simM L T0 (PostR md (snd (fst (tail_expr md lt h n3))))
         (ev (EIf (EEqNull false first) whenU (fst (fst (tail_expr md lt h n3)))))
         (bind cS (fun r => if nullish (valof r) then ret short else NAT r)).
  Proof.
    intros Hs Hra Hrt Hu Hsh Hshs Hh Hnat Hlf Hnd Hstore Hdel.
    apply (wrap_if L (StartPost ls again thisA) (PostR md (snd (fst (tail_expr md lt h n3))))
                   first whenU _ uv short cS NAT Hs).
    - intros m a r (E & _). exact E.
    - exact Hu.
    - intro m. split; [cbn; symmetry; exact Hsh |]. intros Hm Hne. exfalso. apply Hne, Hshs, Hm.
    - intros a r Hn.
      destruct (StartPost_stable L n3 ls again thisA a r Hra Hrt) as [Hst Hset].
      intros m m0 s Hsm Hp.
      pose proof (Hnat a r m Hn Hp) as Hn'.
      assert (Hstore' : md = TStore -> exists pre lm, lt = pre ++ [lm] /\ member_link lm /\ L n3 /\
                (forall m v, StartPost ls again thisA m a r -> StartPost ls again thisA (tset m n3 v) a r) /\
                (is_inline_value (fold_links pre h) = true ->
                 exists v, (forall m s, cH r m s = ret (ov v) m s) /\
                           forall m, StartPost ls again thisA m a r -> rd h v m)).
      { intro Hm. destruct (Hstore Hm) as (pre & lm & E & Hml & Ln3 & Hinl).
        exists pre, lm. split; [exact E |]. split; [exact Hml |]. split; [exact Ln3 |]. split.
        - intros mx v Hp1. apply Hset; [lia | exact Hp1].
        - intro Hi. destruct (Hinl Hi r) as (v & Hc & Hrd). exists v. split; [exact Hc |].
          intros mx Hp1. apply (Hrd mx a Hp1). }
      pose proof (tail_sound md lt h (cH r) n3 L (fun m => StartPost ls again thisA m a r)
                             (Hh a r Hn) Hlf Hnd Hst Hstore' Hdel m m0 s Hsm Hp) as T.
      rewrite Hn'.
      destruct (ev (fst (fst (tail_expr md lt h n3))) m s) as [[[t1 mm1] s1] r1],
               (bind (cH r) (tail_run md lt) m0 s) as [[[t2 mm2] s2] r2].
      destruct T as (-> & -> & Hs' & Hr). repeat split; auto.
      destruct r1 as [x | v], r2 as [y | v0]; try contradiction; [| exact Hr].
      destruct Hr as [Ev Hpt]. split; [cbn; exact Ev |]. intros Hm _. apply Hpt, Hm.
  Qed.

  (* ---- how the start is lowered (steps 2 and 3 of lowerOptionalChain) ---- *)
  Lemma nonnull_not_short r : nullish (valof r) = false -> r <> OShort.
  Proof. intros H E. subst r. discriminate H. Qed.

  (* the start is captured (or duplicated) as it is; this is not needed or undefined *)
  Lemma start_plain (L : tpred) ls start n first again n3 :
    capture start n = (first, again, n3) -> cap_ok S w start -> L n ->
    (forall k, L k -> ~ In k (tmps start)) ->
    (head_call ls = true -> forall m s, match ev start m s with (_, _, _, Ok o) => baseof o = VUndef | _ => True end) ->
    simM L T0 (StartPost ls again None) (ev first) (ev start).
  Proof.
    intros Hc Hok Ln Hd Hnb.
    eapply simM_conseq with (Pre := T0)
      (Post := fun m a r => (valof a = valof r /\ remp S w th start n (valof r) m /\ True) /\
                            (head_call ls = true -> baseof r = VUndef)); [auto | |].
    - intros m a r [(E & Hr & _) Hb]. split; [exact E |]. split; [apply (remp_rd start n first again n3 _ m Hc Hr) |].
      intros _. exact Hb.
    - destruct (head_call ls) eqn:Hh.
      + apply simM_post_right with (Q := fun o => true = true -> baseof o = VUndef).
        * apply (piece_first S w th L T0 start n first again n3 Hc Hok Ln Hd (stable_true L)). auto.
        * intros m s. specialize (Hnb eq_refl m s). destruct (ev start m s) as [[[? ?] ?] [?|?]]; auto.
      + apply simM_post_right with (Q := fun o => false = true -> baseof o = VUndef).
        * apply (piece_first S w th L T0 start n first again n3 Hc Hok Ln Hd (stable_true L)). auto.
        * intros m s. destruct (ev start m s) as [[[? ?] ?] [?|?]]; auto. discriminate.
  Qed.

  (* tg.name as the callee of the call that starts the chain *)
  Lemma start_member (L : tpred) ls tg name n f a n1 :
    capture tg n = (f, a, n1) -> cap_ok S w tg -> L n -> L n1 ->
    (forall k, L k -> ~ In k (tmps tg)) ->
    simM L T0 (StartPost ls (ETmp n1) (Some a))
         (ev (EAssign (ETmp n1) (EDot f name OcNone))) (ev (EDot tg name OcNone)).
  Proof.
    intros Hc Hok Ln Ln1 Hd.
    pose proof (capture_next tg n f a n1 Hc) as Hn1.
    cbn [eval access].
    repeat apply simM_assoc_l. eapply simM_bind.
    - apply (piece_first S w th L T0 tg n f a n1 Hc Hok Ln Hd (stable_true L)). auto.
    - intros x y. apply simM_pure. intro E. rewrite E.
      repeat apply simM_assoc_l. eapply simM_bind; [apply simM_lift |].
      intros fv fv0. apply simM_pure. intros ->.
      apply simM_ret_l. cbn [valof].
      intros m m0 s Hs [Hr _]. cbn. repeat split; auto.
      + apply simL_tset; assumption.
      + apply rd_tmp_intro, tget_tset_same.
      + intros _. cbn [baseof].
        apply (remp_rd tg n f a n1 _ _ Hc). apply remp_tset'; [| exact Hr]. intro Hi. rewrite Hi in Hn1. lia.
  Qed.

  (* tg[key] as the callee *)
  Lemma start_index (L : tpred) ls tg key n f a n1 :
    capture tg n = (f, a, n1) -> cap_ok S w tg -> L n -> L n1 ->
    (forall k, L k -> ~ In k (tmps tg)) -> (forall k, L k -> ~ In k (tmps key)) ->
    simM L T0 (StartPost ls (ETmp n1) (Some a))
         (ev (EAssign (ETmp n1) (EIndex f key OcNone))) (ev (EIndex tg key OcNone)).
  Proof.
    intros Hc Hok Ln Ln1 Hd Hdk.
    pose proof (capture_next tg n f a n1 Hc) as Hn1.
    cbn [eval access].
    repeat apply simM_assoc_l. eapply simM_bind.
    - apply (piece_first S w th L T0 tg n f a n1 Hc Hok Ln Hd (stable_true L)). auto.
    - intros x y. apply simM_pure. intro E. rewrite E.
      repeat apply simM_assoc_l. eapply simM_bind.
      { apply (simM_fresh S w th L _ key Hdk).
        apply stable_and; [apply remp_stable; exact Ln | apply stable_true]. }
      intros kr kr0. apply simM_pure. intros ->.
      repeat apply simM_assoc_l. eapply simM_bind; [apply simM_lift |].
      intros fv fv0. apply simM_pure. intros ->.
      apply simM_ret_l. cbn [valof].
      intros m m0 s Hs [Hr _]. cbn. repeat split; auto.
      + apply simL_tset; assumption.
      + apply rd_tmp_intro, tget_tset_same.
      + intros _. cbn [baseof].
        apply (remp_rd tg n f a n1 _ _ Hc). apply remp_tset'; [| exact Hr]. intro Hi. rewrite Hi in Hn1. lia.
  Qed.

  (* the callee is an optional chain that was lowered first and left its this in t *)
  Lemma start_producer (L : tpred) ls lowP P' t n2 :
    simM L T0 (PostR TStore (Some t)) (ev lowP) (ev P') ->
    robust L n2 t -> L n2 ->
    simM L T0 (StartPost ls (ETmp n2) (Some t)) (ev (EAssign (ETmp n2) lowP)) (ev P').
  Proof.
    intros Hp [_ Hset] Ln2. cbn [eval].
    intros m m0 s Hs Hpre. specialize (Hp m m0 s Hs Hpre). unfold bind.
    destruct (ev lowP m s) as [[[t1 m1] s1] r1], (ev P' m0 s) as [[[t2 m2] s2] r2].
    destruct Hp as (-> & -> & Hs' & Hr).
    destruct r1 as [x | v], r2 as [y | v0]; try contradiction; [| auto].
    destruct Hr as [E Hth]. cbn. rewrite app_nil_r. repeat split; auto.
    - apply simL_tset; assumption.
    - rewrite E. apply rd_tmp_intro, tget_tset_same.
    - intro Hn. destruct (Hth eq_refl (nonnull_not_short y Hn)) as (t' & Et & Hrd).
      injection Et as <-. apply Hset; [lia | exact Hrd].
  Qed.

  (* ---- lowerOptionalChain itself ---- *)
  Definition step2 (swc : bool) (childThis : option expr) (start : expr) (n : Z) : expr * option expr * Z :=
    if swc then
      match childThis with
      | Some t => (start, Some t, n)
      | None =>
          match start with
          | EDot tg name _ => let '(f, a, n1) := capture tg n in (EDot f name OcNone, Some a, n1)
          | EIndex tg k _ => let '(f, a, n1) := capture tg n in (EIndex f k OcNone, Some a, n1)
          | _ => (start, None, n)
          end
      end
    else (start, None, n).

  Lemma loc_unfold F e0 i childOut n start links swc start2 thisA n2 first again n3 :
    flatten e0 = Some (start, links, swc) -> start <> ENull -> start <> EUndef -> f_optchain F = true ->
    step2 swc (thisArg childOut) start n = (start2, thisA, n2) ->
    capture start2 n2 = (first, again, n3) ->
    lowerOptionalChain F e0 i childOut n =
      (let '(result, pth, n4) := apply_links links again thisA true (storeThis i && ends_with_access e0) n3 in
       (EIf (EEqNull false first) (if is_delete e0 then EBool true else EUndef) result, mkOut pth false, n4)).
  Proof.
    intros Hfl Hn1 Hn2 HF H2 Hc. unfold lowerOptionalChain. rewrite Hfl, (start_match start _ _ Hn1 Hn2), HF.
    cbn [negb]. unfold step2 in H2.
    destruct swc.
    - destruct (thisArg childOut).
      + injection H2 as <- <- <-. rewrite Hc. reflexivity.
      + destruct start; try (injection H2 as <- <- <-; rewrite Hc; reflexivity).
        * destruct (capture start n) as [[f a] n1]. injection H2 as <- <- <-. rewrite Hc. reflexivity.
        * destruct (capture start1 n) as [[f a] n1]. injection H2 as <- <- <-. rewrite Hc. reflexivity.
    - injection H2 as <- <- <-. rewrite Hc. reflexivity.
  Qed.

  Definition mode_of (isdel store : bool) : tmode := if isdel then TDelete else if store then TStore else TPlain.

  (* native continuation after the start, for a chain (run) or a delete of a chain *)
  Definition nat_run (md : tmode) (ls : list link) (r : out) : M S out := tail_run md ls r.

  Lemma run_nobase ls r : ls <> [] -> (head_call ls = true -> baseof r = VUndef) -> nullish (valof r) = false ->
    forall m s, run ls r m s = run ls (ov (valof r)) m s.
  Proof.
    intros Hne Hb Hn m s. destruct (head_call ls) eqn:Hh.
    - destruct r; [| discriminate Hn]. cbn in Hb. rewrite (Hb eq_refl). reflexivity.
    - apply run_base; [exact Hne | exact Hh | reflexivity].
  Qed.

  Lemma tail_run_nobase md ls r : ls <> [] -> (md = TDelete -> exists pre l, ls = pre ++ [l] /\ member_link l) ->
    (head_call ls = true -> baseof r = VUndef) -> nullish (valof r) = false ->
    forall m s, tail_run md ls r m s = bind (ret (ov (valof r))) (tail_run md ls) m s.
  Proof.
    intros Hne Hd Hb Hn m s. rewrite bind_ret_l.
    destruct (head_call ls) eqn:Hh.
    - destruct r; [| discriminate Hn]. cbn in Hb. rewrite (Hb eq_refl). reflexivity.
    - destruct md; cbn [tail_run]; try (apply run_base; [exact Hne | exact Hh | reflexivity]).
      destruct (Hd eq_refl) as (pre & l & -> & Hm). rewrite removelast_last, last_last.
      apply rund_base; [exact Hh | exact Hm | reflexivity].
  Qed.

  (* the call at the start does not get an explicit this (thisA = None) *)
  Theorem loc_sound_none (L : tpred) F e0 i childOut n start ls swc first again n3 (cS : M S out) (isdel : bool) :
    flatten e0 = Some (start, (if isdel then ls ++ [LDelete] else ls), swc) ->
    is_delete e0 = isdel -> (isdel = true -> ends_with_access e0 = false) ->
    start <> ENull -> start <> EUndef -> f_optchain F = true ->
    step2 swc (thisArg childOut) start n = (start, None, n) ->
    capture start n = (first, again, n3) ->
    simM L T0 (StartPost ls again None) (ev first) cS -> robust L n3 again ->
    ls <> [] -> links_fresh L ls -> no_delete ls -> L n3 ->
    let store := storeThis i && ends_with_access e0 in
    let md := mode_of isdel store in
    (md = TStore -> member_link (last ls LDelete)) ->
    (md = TDelete -> exists pre l, ls = pre ++ [l] /\ member_link l) ->
    simM L T0 (PostR md (thisArg (snd (fst (lowerOptionalChain F e0 i childOut n)))))
         (ev (fst (fst (lowerOptionalChain F e0 i childOut n))))
         (bind cS (fun r => if nullish (valof r) then ret (if isdel then ov (VBool true) else OShort) else tail_run md ls r)).
  Proof.
    intros Hfl Hisd Hdacc Hn1 Hn2 HF H2 Hc Hs Hra Hne Hlf Hnd Ln3 store md Hmst Hmdel.
    rewrite (loc_unfold F e0 i childOut n start _ swc start None n first again n3 Hfl Hn1 Hn2 HF H2 Hc).
    fold store. rewrite Hisd.
    assert (Hres : apply_links (if isdel then ls ++ [LDelete] else ls) again None true store n3 = tail_expr md ls again n3).
    { unfold md, mode_of. destruct isdel.
      - assert (store = false) as -> by (unfold store; rewrite (Hdacc eq_refl); apply andb_false_r).
        rewrite apply_links_plain by (destruct ls; discriminate).
        cbn [tail_expr]. rewrite fold_links_app. reflexivity.
      - apply apply_links_none; [exact Hne |]. intro Hst. apply Hmst. unfold md, mode_of. rewrite Hst. reflexivity. }
    rewrite Hres.
    destruct (tail_expr md ls again n3) as [[res pth] n4] eqn:Ete. cbn [fst snd thisArg].
    replace res with (fst (fst (tail_expr md ls again n3))) by (rewrite Ete; reflexivity).
    replace pth with (snd (fst (tail_expr md ls again n3))) by (rewrite Ete; reflexivity).
    apply (root_sound L ls first again None cS md ls again (fun r => ret (ov (valof r))) (tail_run md ls) n3
                      (if isdel then EBool true else EUndef) (if isdel then VBool true else VUndef)
                      (if isdel then ov (VBool true) else OShort)); auto.
    - intros t Ht. discriminate Ht.
    - intros m s. destruct isdel; reflexivity.
    - destruct isdel; reflexivity.
    - unfold md, mode_of. destruct isdel; [discriminate | reflexivity].
    - intros a r Hn. apply simM_rd. intros m (_ & Hr & _). exact Hr.
    - intros a r m0 Hn (_ & _ & Hb) m s. apply tail_run_nobase; auto.
    - intro Hm. destruct (exists_last Hne) as (pre & lm & E). exists pre, lm. rewrite E in *.
      rewrite last_last in Hmst. repeat split; auto.
      intros Hi r. exists (valof r). split; [reflexivity |]. intros m a (_ & Hr & _). exact Hr.
  Qed.

  (* the call at the start is made with an explicit this (captured object, or the
     this left by a lowered callee chain) *)
  Theorem loc_sound_some (L : tpred) F e0 i childOut n start args rest swc start2 t n2 first again n3
          (cS : M S out) (isdel : bool) :
    flatten e0 = Some (start, (if isdel then (LCall args :: rest) ++ [LDelete] else LCall args :: rest), swc) ->
    is_delete e0 = isdel -> (isdel = true -> ends_with_access e0 = false) ->
    start <> ENull -> start <> EUndef -> f_optchain F = true ->
    step2 swc (thisArg childOut) start n = (start2, Some t, n2) ->
    capture start2 n2 = (first, again, n3) ->
    simM L T0 (StartPost (LCall args :: rest) again (Some t)) (ev first) cS ->
    robust L n3 again -> robust L n3 t -> call_intact S w ->
    links_fresh L (LCall args :: rest) -> no_delete rest -> L n3 ->
    let store := storeThis i && ends_with_access e0 in
    let md := mode_of isdel store in
    (md = TStore -> rest <> [] /\ member_link (last rest LDelete)) ->
    (md = TDelete -> exists pre l, rest = pre ++ [l] /\ member_link l) ->
    simM L T0 (PostR md (thisArg (snd (fst (lowerOptionalChain F e0 i childOut n)))))
         (ev (fst (fst (lowerOptionalChain F e0 i childOut n))))
         (bind cS (fun r => if nullish (valof r) then ret (if isdel then ov (VBool true) else OShort)
                            else tail_run md (LCall args :: rest) r)).
  Proof.
    intros Hfl Hisd Hdacc Hn1 Hn2 HF H2 Hc Hs Hra Hrt Hci Hlf Hnd Ln3 store md Hmst Hmdel.
    rewrite (loc_unfold F e0 i childOut n start _ swc start2 (Some t) n2 first again n3 Hfl Hn1 Hn2 HF H2 Hc).
    fold store. rewrite Hisd.
    set (H := ECallThis again t args).
    assert (Hres : apply_links (if isdel then (LCall args :: rest) ++ [LDelete] else LCall args :: rest)
                               again (Some t) true store n3 = tail_expr md rest H n3).
    { unfold md, mode_of. destruct isdel.
      - assert (store = false) as -> by (unfold store; rewrite (Hdacc eq_refl); apply andb_false_r).
        cbn [app]. rewrite apply_links_this. cbn [tail_expr]. rewrite fold_links_app. reflexivity.
      - apply apply_links_some. intro Hst. apply Hmst. unfold md, mode_of. rewrite Hst. reflexivity. }
    rewrite Hres.
    destruct (tail_expr md rest H n3) as [[res pth] n4] eqn:Ete. cbn [fst snd thisArg].
    replace res with (fst (fst (tail_expr md rest H n3))) by (rewrite Ete; reflexivity).
    replace pth with (snd (fst (tail_expr md rest H n3))) by (rewrite Ete; reflexivity).
    assert (Hla : forall k, L k -> ~ In k (flat_map tmps args)).
    { intros k Hk. apply (Hlf (LCall args) (or_introl eq_refl) k Hk). }
    assert (Hlr : links_fresh L rest) by (intros l Hl; apply Hlf; right; exact Hl).
    apply (root_sound L (LCall args :: rest) first again (Some t) cS md rest H
                      (fun r => run1 (LCall args) r) (tail_run md (LCall args :: rest)) n3
                      (if isdel then EBool true else EUndef) (if isdel then VBool true else VUndef)
                      (if isdel then ov (VBool true) else OShort)); auto.
    - intros t' Ht. injection Ht as <-. exact Hrt.
    - intros m s. destruct isdel; reflexivity.
    - destruct isdel; reflexivity.
    - unfold md, mode_of. destruct isdel; [discriminate | reflexivity].
    - intros a r Hn. unfold H.
      destruct (StartPost_stable L n3 (LCall args :: rest) again (Some t) a r Hra
                  (fun t' Ht => eq_ind t (robust L n3) Hrt t' (f_equal (fun o => match o with Some x => x | None => t end) Ht)))
        as [Hst _].
      apply head_call_this; auto.
      intros m (_ & Hr & Hth). split; [exact Hr | apply Hth, Hn].
    - intros a r m0 Hn _ m s. destruct md eqn:Emd; cbn [tail_run Chain.run]; try reflexivity.
      destruct (Hmdel eq_refl) as (pre & l & -> & Hm).
      change (LCall args :: pre ++ [l]) with ((LCall args :: pre) ++ [l]).
      rewrite removelast_last, last_last. unfold tail_run at 1. rewrite removelast_last, last_last.
      cbn [Chain.run]. apply bind_assoc.
    - intro Hm. destruct (Hmst Hm) as [Hner Hml].
      destruct (exists_last Hner) as (pre & lm & E). exists pre, lm. rewrite E in *.
      rewrite last_last in Hml. repeat split; auto.
      intros Hi r. destruct pre as [| p0 ps].
      + cbn in Hi. discriminate Hi.
      + rewrite (fold_not_inline (p0 :: ps) H ltac:(discriminate)) in Hi. discriminate Hi.
  Qed.
End Chain2.
