(* Non-vacuity: the hypotheses of the theorems are met by concrete,
   non-trivial instances, and the conclusions are visibly non-trivial. *)
From V Require Import Common.Base C05.Syntax C05.Sem C05.Lower C05.Frame C05.LowerProofs C05.SimLogic C05.Steps C05.Compose C05.Visit C05.Chain C05.Chain2 C05.Above C05.Visit2 C05.Witness C05.Private C05.PrivateProofs.

(* f() ?? g() : the left operand is captured in a temporary *)
Definition ex_a := ECall (EId 3) [] OcNone.
Definition ex_b := ECall (EId 4) [ENum 1] OcNone.
Example ex_nullish_lowered :
  fst (lowerNullishCoalescing ex_a ex_b 0) = EIf (EEqNull true (EAssign (ETmp 0) ex_a)) (ETmp 0) ex_b.
Proof. reflexivity. Qed.
Example ex_nullish_fresh : ~ In 0 (tmps ex_b).
Proof. cbn. tauto. Qed.
Example ex_nullish_no_identifier : forall x, ex_a = EId x -> pure_var Z wit_world x.
Proof. intros x H; discriminate H. Qed.
(* both sides really run and emit events *)
Example ex_nullish_runs :
  wit_run (fst (lowerNullishCoalescing ex_a ex_b 0)) = ([(4, [VObj 100; VUndef])], 1, Ok (VNum 7))
  /\ wit_run (EBin BNullish ex_a ex_b) = ([(4, [VObj 100; VUndef])], 1, Ok (VNum 7)).
Proof. split; vm_compute; reflexivity. Qed.
(* an identifier operand whose read is pure in the witness world (variable 3) *)
Example ex_pure_var : pure_var Z wit_world 3.
Proof. intro s. eexists. reflexivity. Qed.
(* ... and one whose read is not (variable 9, the accessor-backed global of F1) *)
Example ex_impure_var : ~ pure_var Z wit_world 9.
Proof. intro H. destruct (H 0) as [r Hr]. discriminate Hr. Qed.

(* the model lowers a nested chain with this-passing exactly like esbuild:
   a?.b?.()  =>  (_a = a == null ? void 0 : a.b) == null ? void 0 : _a.call(a) *)
Example ex_chain :
  lower all_features (ECall (EDot (EId 0) 1 OcStart) [] OcStart)
  = EIf (EEqNull false (EAssign (ETmp 0) (EIf (EEqNull false (EId 0)) EUndef (EDot (EId 0) 1 OcNone))))
        EUndef (ECallThis (ETmp 0) (EId 0) []).
Proof. reflexivity. Qed.

(* framing is about a real temporary *)
Example ex_framed_tmp : tmps (fst (lowerNullishCoalescing ex_a ex_b 0)) = [0; 0].
Proof. reflexivity. Qed.

(* hypotheses of the assignment / chain theorems are met by f().p1 op= g(1) and f().p1?.(g(1)) *)
Example ex_not_inline : is_inline_value ex_a = false.
Proof. reflexivity. Qed.
Example ex_logasg_some :
  lowerLogicalAsg all_features BOr (EDot ex_a 1 OcNone) ex_b 0
  = Some (EBin BOr (EDot (EAssign (ETmp 0) ex_a) 1 OcNone) (EAssign (EDot (ETmp 0) 1 OcNone) ex_b), 1).
Proof. reflexivity. Qed.
Example ex_nullasg_some :
  lowerNullishAsg all_features (EDot ex_a 1 OcNone) ex_b 0
  = Some (EIf (EEqNull true (EAssign (ETmp 1) (EDot (EAssign (ETmp 0) ex_a) 1 OcNone))) (ETmp 1)
              (EAssign (EDot (ETmp 0) 1 OcNone) ex_b), 2).
Proof. reflexivity. Qed.
Example ex_fresh2 : ~ In 0 (tmps ex_b) /\ ~ In (0 + 1) (tmps ex_b).
Proof. cbn. tauto. Qed.
Example ex_call_intact : call_intact Z wit_world.
Proof. intros fv s H. unfold wit_world; cbn. rewrite H. eexists; reflexivity. Qed.
Example ex_args_fresh : forall k, In k [0; 0 + 1] -> ~ In k (flat_map tmps [ex_b]).
Proof. cbn. tauto. Qed.
Example ex_optcall_lowered :
  fst (fst (lowerOptionalChain all_features (ECall (EDot ex_a 1 OcNone) [ex_b] OcStart) (mkIn false false) out0 0))
  = EIf (EEqNull false (EAssign (ETmp 1) (EDot (EAssign (ETmp 0) ex_a) 1 OcNone))) EUndef
        (ECallThis (ETmp 1) (ETmp 0) [ex_b]).
Proof. reflexivity. Qed.
Example ex_optcall_runs :
  wit_run (ECall (EDot ex_a 1 OcNone) [ex_b] OcStart)
  = ([(4, [VObj 100; VUndef]); (2, [VNum 7; VStr 1]); (4, [VObj 100; VUndef; VNum 1]); (4, [VObj 50; VNum 7; VNum 7])], 1, Ok (VNum 7)).
Proof. vm_compute. reflexivity. Qed.

Example ex_index_some :
  lowerLogicalAsg all_features BAnd (EIndex ex_a ex_b OcNone) (ENum 3) 0
  = Some (EBin BAnd (EIndex (EAssign (ETmp 0) ex_a) (EAssign (ETmp 1) ex_b) OcNone)
                    (EAssign (EIndex (ETmp 0) (ETmp 1) OcNone) (ENum 3)), 2).
Proof. reflexivity. Qed.

(* hypotheses of the general per-step theorems: v3[g(1)] ||= 3 with the constant
   identifier v3 (uncaptured) and an effectful key (captured) *)
Example ex_const_var : const_var Z wit_world 3.
Proof. exists (Ok (VObj 100)). intro s. reflexivity. Qed.
Example ex_not_const_var : ~ const_var Z wit_world 9.
Proof. intros [r H]. specialize (H 0). discriminate H. Qed.
Example ex_valid_target : valid_target Z wit_world (EIndex (EId 3) ex_b OcNone).
Proof. split; [right; exact ex_const_var | left; reflexivity]. Qed.
Example ex_below : below 0 (EIndex (EId 3) ex_b OcNone) /\ below 0 (ENum 3).
Proof. split; intros j H; cbn in H; contradiction. Qed.
Example ex_index_uncaptured :
  lowerLogicalAsg all_features BOr (EIndex (EId 3) ex_b OcNone) (ENum 3) 0
  = Some (EBin BOr (EIndex (EId 3) (EAssign (ETmp 0) ex_b) OcNone)
                   (EAssign (EIndex (EId 3) (ETmp 0) OcNone) (ENum 3)), 1).
Proof. reflexivity. Qed.
Example ex_cap_ok_this : cap_ok Z wit_world EThis /\ cap_ok Z wit_world ex_a.
Proof. split; [right; exact I | left; reflexivity]. Qed.

(* whole-visitor theorem: v3[g(1)] ||= (f() ?? 2 ** 3), everything lowered *)
Definition ex_big := EOpAsg AOr (EIndex (EId 3) ex_b OcNone) (EBin BNullish ex_a (EBin BPow (ENum 2) (ENum 3))).
Example ex_src : src all_features (fun x => x = 3) ex_big.
Proof. cbn. repeat split; auto; try (intros; contradiction); unfold all_const; cbn; intros; intuition congruence. Qed.
Example ex_C_const : forall x, x = 3 -> const_var Z wit_world x.
Proof. intros x ->. exact ex_const_var. Qed.
Example ex_world_arith : binop_nonnull Z wit_world /\ del_nonnull Z wit_world.
Proof. split; intros; intro; intros; cbn; reflexivity. Qed.
Example ex_big_lowered :
  lower all_features ex_big
  = EBin BOr (EIndex (EId 3) (EAssign (ETmp 1) ex_b) OcNone)
             (EAssign (EIndex (EId 3) (ETmp 1) OcNone)
                      (EIf (EEqNull true (EAssign (ETmp 0) ex_a)) (ETmp 0) (EPowCall (ENum 2) (ENum 3)))).
Proof. reflexivity. Qed.

(* chains of arbitrary length: f()?.p1.p2(g(1))[v3]  and  f().p1?.(g(1)).p2 *)
Definition ex_chain1 :=
  EIndex (ECall (EDot (EDot ex_a 1 OcStart) 2 OcCont) [ex_b] OcCont) (EId 3) OcCont.
Example ex_chain1_frag : frag ex_chain1.
Proof. exact I. Qed.
Example ex_chain1_flatten :
  flatten ex_chain1 = Some (ex_a, [LDot 1; LDot 2; LCall [ex_b]; LIndex (EId 3)], false).
Proof. reflexivity. Qed.
Example ex_chain1_hyps :
  no_delete [LDot 1; LDot 2; LCall [ex_b]; LIndex (EId 3)] /\ ex_a <> ENull /\ ex_a <> EUndef /\
  ~ In 0 (tmps ex_a) /\ links_fresh (L1 0) [LDot 1; LDot 2; LCall [ex_b]; LIndex (EId 3)].
Proof.
  repeat split; try discriminate.
  - repeat constructor; discriminate.
  - cbn. tauto.
  - intros l Hl k Hk. cbn in Hl. intuition subst; cbn; tauto.
Qed.
Example ex_chain1_lowered :
  fst (fst (lowerOptionalChain all_features ex_chain1 (mkIn false false) out0 0))
  = EIf (EEqNull false (EAssign (ETmp 0) ex_a)) EUndef
        (EIndex (ECall (EDot (EDot (ETmp 0) 1 OcNone) 2 OcNone) [ex_b] OcNone) (EId 3) OcNone).
Proof. reflexivity. Qed.

Definition ex_chain2 := EDot (ECall (EDot ex_a 1 OcNone) [ex_b] OcStart) 2 OcCont.
Example ex_chain2_flatten :
  frag ex_chain2 /\ flatten ex_chain2 = Some (EDot ex_a 1 OcNone, [LCall [ex_b]; LDot 2], true).
Proof. split; [exact I | reflexivity]. Qed.
Example ex_chain2_lowered :
  fst (fst (lowerOptionalChain all_features ex_chain2 (mkIn false false) out0 0))
  = EIf (EEqNull false (EAssign (ETmp 1) (EDot (EAssign (ETmp 0) ex_a) 1 OcNone))) EUndef
        (EDot (ECallThis (ETmp 1) (ETmp 0) [ex_b]) 2 OcNone).
Proof. reflexivity. Qed.
Example ex_chain2_fresh : links_fresh (L2 0) [LCall [ex_b]; LDot 2] /\ (forall k, L2 0 k -> ~ In k (tmps ex_a)).
Proof. split; [intros l Hl k Hk; cbn in Hl; intuition subst; cbn; tauto | intros k _; cbn; tauto]. Qed.

(* delete f()?.p1.p2 *)
Example ex_delete_flatten :
  flatten (EDot (EDot ex_a 1 OcStart) 2 OcCont) = Some (ex_a, [LDot 1] ++ [LDot 2], false).
Proof. reflexivity. Qed.

(* this passing: v3?.p1?.(g(1))  =>  (_a = v3 == null ? void 0 : v3.p1) == null ? void 0 : _a.call(v3, g(1)) *)
Definition ex_P := EDot (EId 3) 1 OcStart.
Definition ex_eo := ECall ex_P [ex_b] OcStart.
Example ex_nested_model :
  lower all_features ex_eo
  = EIf (EEqNull false (EAssign (ETmp 0) (EIf (EEqNull false (EId 3)) EUndef (EDot (EId 3) 1 OcNone))))
        EUndef (ECallThis (ETmp 0) (EId 3) [ex_b]).
Proof. reflexivity. Qed.
Example ex_nested_hyps :
  capture (EId 3) 0 = (EId 3, EId 3, 0) /\ frag ex_P /\ flatten ex_P = Some (EId 3, [LDot 1], false) /\
  frag ex_eo /\ flatten ex_eo = Some (ex_P, [LCall [ex_b]], true) /\
  cap_ok Z wit_world (EId 3) /\ call_intact Z wit_world.
Proof. repeat split; try reflexivity; try exact I; [right; exact ex_const_var | exact ex_call_intact]. Qed.
(* a?.b.c?.(x) : the callee chain has two links, this is the captured value of a?.b *)
Example ex_nested2_model :
  lower all_features (ECall (EDot (EDot ex_a 1 OcStart) 2 OcCont) [ENum 1] OcStart)
  = EIf (EEqNull false (EAssign (ETmp 2)
          (EIf (EEqNull false (EAssign (ETmp 0) ex_a)) EUndef
               (EDot (EAssign (ETmp 1) (EDot (ETmp 0) 1 OcNone)) 2 OcNone))))
        EUndef (ECallThis (ETmp 2) (ETmp 1) [ENum 1]).
Proof. reflexivity. Qed.

(* whole-visitor theorem with chains:
   delete (v3.p1?.(f() ?? 2).p2)  and  v3?.p1[g(1)] ||= f()?.p2 *)
Definition ex_c1 := EDelete (EDot (ECall (EDot (EId 3) 1 OcNone) [EBin BNullish ex_a (ENum 2)] OcStart) 2 OcCont).
Definition ex_c2 := EOpAsg AOr (EIndex (EDot (EId 3) 1 OcNone) ex_b OcNone) (EDot ex_a 2 OcStart).
Example ex_src2_c1 : src2 all_features (fun x => x = 3) ex_c1.
Proof. cbn. repeat split; auto; try (intros; discriminate); unfold Visit.all_const; cbn; intros; intuition congruence. Qed.
Example ex_src2_c2 : src2 all_features (fun x => x = 3) ex_c2.
Proof. cbn. repeat split; auto; try (intros; discriminate); unfold Visit.all_const; cbn; intros; intuition congruence. Qed.
Example ex_c1_lowered :
  lower all_features ex_c1
  = EIf (EEqNull false (EAssign (ETmp 1) (EDot (EId 3) 1 OcNone))) (EBool true)
        (EDelete (EDot (ECallThis (ETmp 1) (EId 3)
                          [EIf (EEqNull true (EAssign (ETmp 0) ex_a)) (ETmp 0) (ENum 2)]) 2 OcNone)).
Proof. reflexivity. Qed.

(* ---- private names ---- *)
(* c.#p ??= 5 with c a constant binding of an object that carries the brand:
   the model's output, the hypotheses of private_logical_assign_equiv, and the
   (non-trivial) common behaviour: getter called on object 1, then the setter *)
Definition ex_priv_log := PLog LNullish (EId 7) 2 (ENum 5).
Example ex_priv_log_lowered :
  fst (plower pwit_names all_features ex_priv_log 0)
  = HIf (HNeNull (HTmpSet 0 (HGet (PE (EId 7)) 11 (Some 20)))) (PE (ETmp 0))
        (HSet (PE (EId 7)) 11 (PE (ENum 5)) (Some 21)).
Proof. reflexivity. Qed.
Example ex_priv_log_hyps : pform_ok Z pwit_world pterr pwit_names ex_priv_log 0.
Proof.
  cbn. split.
  - right. exists (Ok (VObj 1)). intro s. reflexivity.
  - intros k _. cbn. tauto.
Qed.
Example ex_priv_log_sound : pwit_lowered ex_priv_log = pwit_native ex_priv_log.
Proof.
  unfold pwit_lowered, pwit_native.
  apply (plower_sound Z pwit_world VUndef pterr pwit_names pwit_fobj pwit_isset pwit_call_intact pwit_store
           all_features ex_priv_log 0 ex_priv_log_hyps).
Qed.
Example ex_priv_log_trace :
  fst (fst (pwit_native ex_priv_log)) = [(8, [VObj 1]); (9, [VObj 1; VNum 5])].
Proof. reflexivity. Qed.

(* g().#m(g()) : method call through a captured target *)
Definition ex_priv_call := PCall (ECall (EId 3) [] OcNone) 4 [ECall (EId 3) [] OcNone].
Example ex_priv_call_lowered :
  fst (plower pwit_names all_features ex_priv_call 0)
  = HCallCall (HMethod (PE (EAssign (ETmp 0) (ECall (EId 3) [] OcNone))) 11 22) (PE (ETmp 0)) [ECall (EId 3) [] OcNone].
Proof. reflexivity. Qed.
Example ex_priv_call_hyps : pform_ok Z pwit_world pterr pwit_names ex_priv_call 0.
Proof. cbn. split; [left; reflexivity | split; tauto]. Qed.
(* the target evaluates to a number here: both sides throw the TypeError after the target's call event *)
Example ex_priv_call_sound : pwit_lowered ex_priv_call = pwit_native ex_priv_call.
Proof.
  apply (plower_sound Z pwit_world VUndef pterr pwit_names pwit_fobj pwit_isset pwit_call_intact pwit_store
           all_features ex_priv_call 0 ex_priv_call_hyps).
Qed.
(* c.#m(g()) on the object that has the brand: the method is called with this = object 1 *)
Example ex_priv_call_trace :
  pwit_native (PCall (EId 7) 4 [ECall (EId 3) [] OcNone])
  = ([(4, [VObj 100; VUndef]); (4, [VObj 202; VObj 1; VNum 7])], pwit_state, Ok (VNum 7)).
Proof. reflexivity. Qed.

(* c.#f -= g()  on a field *)
Example ex_priv_arith_hyps : pform_ok Z pwit_world pterr pwit_names (PArith BSub (EId 7) 1 (ECall (EId 3) [] OcNone)) 0.
Proof.
  cbn. split; [left; reflexivity |]. split; [right; exists (Ok (VObj 1)); intro s; reflexivity |]. tauto.
Qed.
Example ex_priv_arith_trace :
  fst (fst (pwit_lowered (PArith BSub (EId 7) 1 (ECall (EId 3) [] OcNone))))
  = [(4, [VObj 100; VUndef]); (7, [VUndef; VNum 7])].
Proof. reflexivity. Qed.

(* constructor prologue: brand, then two fields *)
Example ex_priv_init_hyps :
  Forall (pinit_ok pwit_names pwit_isset) [IBrand 11; IField 1 (ENum 3); IField 5 (ECall (EId 3) [] OcNone)].
Proof. repeat constructor. Qed.

(* [c.#p = d] = ... / for (c.#p of ...): the target goes through the wrapper with the setter *)
Example ex_priv_target_lowered :
  fst (plower pwit_names all_features (PTarget (EId 7) 2) 0) = HWrapper (PE (EId 7)) 11 (Some 21)
  /\ fst (plower pwit_names all_features (PTarget (EId 7) 1) 0) = HWrapper (PE (EId 7)) 10 None.
Proof. split; reflexivity. Qed.
(* the store through it calls the setter on object 1 (event 9), after whatever ran in between (event 4) *)
Example ex_priv_target_trace :
  fst (fst (fst (bind (ptarget pwit_world VUndef pterr pwit_fobj pwit_isset (fst (plower pwit_names all_features (PTarget (EId 7) 2) 0)))
                      (fun k => bind (bind (eval pwit_world VUndef (ECall (EId 3) [] OcNone)) (fun _ => ret tt))
                                     (fun _ => lift (k (VNum 5)))) [] pwit_state)))
  = [(4, [VObj 100; VUndef]); (9, [VObj 1; VNum 5])].
Proof. reflexivity. Qed.
