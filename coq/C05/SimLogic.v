(* A small relational program logic for the evaluator: [simM L Pre Post cl cn]
   relates a "lowered" computation cl, running in a temporary store m, with a
   "native" computation cn running in a store m0 that agrees with m outside
   the set L of temporaries in flight.  Both emit the same events, reach the
   same user state, throw the same value or return results related by Post;
   Pre/Post speak about the lowered store (what the temporaries remember). *)
From V Require Import Common.Base C05.Syntax C05.Sem C05.Lower C05.Frame.

Section SimLogic.
  Variable S : Type.
  Variable w : world S.
  Variable th : val.
  Notation ev := (eval w th).
  Notation evl := (eval_list S w th).

  Definition tpred := Z -> Prop.
  Definition simL (L : tpred) (m m0 : tstore) : Prop := forall k, ~ L k -> tget m k = tget m0 k.

  Definition simM {A B} (L : tpred) (Pre : tstore -> Prop) (Post : tstore -> A -> B -> Prop)
             (cl : M S A) (cn : M S B) : Prop :=
    forall m m0 s, simL L m m0 -> Pre m ->
      match cl m s, cn m0 s with
      | (t, m', s', r), (t0, m0', s0', r0) =>
          t = t0 /\ s' = s0' /\ simL L m' m0' /\
          match r, r0 with
          | Ok a, Ok b => Post m' a b
          | Throw v, Throw v0 => v = v0
          | _, _ => False
          end
      end.

  (* Pre only depends on the temporaries in L *)
  Definition stable (L : tpred) (Pre : tstore -> Prop) : Prop :=
    forall m m', (forall k, L k -> tget m' k = tget m k) -> Pre m -> Pre m'.

  Lemma simL_refl (L : tpred) m : simL L m m.
  Proof. intros k _; reflexivity. Qed.

  Lemma simL_tset (L : tpred) m m0 n v : L n -> simL L m m0 -> simL L (tset m n v) m0.
  Proof. intros Hn Hs k Hk. rewrite tget_tset_other; [apply Hs, Hk | intro; subst; contradiction]. Qed.

  Lemma simM_ret {A B} (L : tpred) (Pre : tstore -> Prop) (Post : tstore -> A -> B -> Prop) a b :
    (forall m, Pre m -> Post m a b) -> simM L Pre Post (ret a) (ret b).
  Proof. intros H m m0 s Hs Hp. cbn. auto. Qed.

  Lemma simM_bind {A A0 B B0} (L : tpred) (Pre : tstore -> Prop) (Mid : tstore -> A -> A0 -> Prop) (Post : tstore -> B -> B0 -> Prop)
        (c : M S A) (c0 : M S A0) (k : A -> M S B) (k0 : A0 -> M S B0) :
    simM L Pre Mid c c0 ->
    (forall a a0, simM L (fun m => Mid m a a0) Post (k a) (k0 a0)) ->
    simM L Pre Post (bind c k) (bind c0 k0).
  Proof.
    intros Hc Hk m m0 s Hs Hp. unfold bind. specialize (Hc m m0 s Hs Hp).
    destruct (c m s) as [[[t1 m1] s1] r1], (c0 m0 s) as [[[t2 m2] s2] r2].
    destruct Hc as (-> & -> & Hs1 & Hr).
    destruct r1 as [a | v], r2 as [a0 | v0]; try contradiction.
    - specialize (Hk a a0 m1 m2 s2 Hs1 Hr).
      destruct (k a m1 s2) as [[[u1 n1] q1] x1], (k0 a0 m2 s2) as [[[u2 n2] q2] x2].
      destruct Hk as (-> & -> & Hs2 & Hx). auto.
    - subst. auto.
  Qed.

  Lemma simM_conseq {A B} (L : tpred) (Pre Pre' : tstore -> Prop) (Post Post' : tstore -> A -> B -> Prop) cl cn :
    (forall m, Pre' m -> Pre m) -> (forall m a b, Post m a b -> Post' m a b) ->
    simM L Pre Post cl cn -> simM L Pre' Post' cl cn.
  Proof.
    intros H1 H2 H m m0 s Hs Hp. specialize (H m m0 s Hs (H1 m Hp)).
    destruct (cl m s) as [[[t1 m1] s1] r1], (cn m0 s) as [[[t2 m2] s2] r2].
    destruct H as (-> & -> & Hs1 & Hr). repeat split; auto.
    destruct r1, r2; auto.
  Qed.

  Lemma simM_ext {A B} (L : tpred) (Pre : tstore -> Prop) (Post : tstore -> A -> B -> Prop) cl cl' cn cn' :
    (forall m s, cl' m s = cl m s) -> (forall m s, cn' m s = cn m s) ->
    simM L Pre Post cl cn -> simM L Pre Post cl' cn'.
  Proof. intros E1 E2 H m m0 s Hs Hp. rewrite E1, E2. apply H; assumption. Qed.

  Lemma simM_lift {A} (L : tpred) (Pre : tstore -> Prop) (f : S -> list event * S * res A) :
    simM L Pre (fun m a b => a = b /\ Pre m) (lift f) (lift f).
  Proof.
    intros m m0 s Hs Hp. unfold lift. destruct (f s) as [[t s'] r].
    repeat split; auto. destruct r; auto.
  Qed.

  Lemma simM_fresh (L : tpred) (Pre : tstore -> Prop) e :
    (forall k, L k -> ~ In k (tmps e)) -> stable L Pre ->
    simM L Pre (fun m a b => a = b /\ Pre m) (ev e) (ev e).
  Proof.
    intros Hd Hst m m0 s Hs Hp. destruct (eval_framed S w th e) as [F G].
    assert (Ha : agree (tmps e) m m0).
    { intros k Hk. apply Hs. intro HL. exact (Hd k HL Hk). }
    specialize (F m m0 s Ha). pose proof (G m s) as G1. pose proof (G m0 s) as G2.
    destruct (ev e m s) as [[[t1 m1] s1] r1], (ev e m0 s) as [[[t2 m2] s2] r2].
    destruct F as (-> & -> & -> & Ha').
    assert (Hp1 : Pre m1).
    { apply (Hst m m1); [| exact Hp]. intros k Hk. apply G1, Hd, Hk. }
    repeat split; auto.
    - intros k Hk. destruct (in_dec Z.eq_dec k (tmps e)) as [Hb | Hb].
      + apply Ha', Hb.
      + rewrite (G1 k Hb), (G2 k Hb). apply Hs, Hk.
    - destruct r2; auto.
  Qed.

  Lemma simM_fresh_list (L : tpred) (Pre : tstore -> Prop) args :
    (forall k, L k -> ~ In k (flat_map tmps args)) -> stable L Pre ->
    simM L Pre (fun m a b => a = b /\ Pre m) (evl args) (evl args).
  Proof.
    intros Hd Hst m m0 s Hs Hp.
    assert (Hf : framed S (flat_map tmps args) (evl args)).
    { apply framed_eval_list. apply Forall_forall. intros e _. apply eval_framed. }
    destruct Hf as [F G].
    assert (Ha : agree (flat_map tmps args) m m0).
    { intros k Hk. apply Hs. intro HL. exact (Hd k HL Hk). }
    specialize (F m m0 s Ha). pose proof (G m s) as G1. pose proof (G m0 s) as G2.
    destruct (evl args m s) as [[[t1 m1] s1] r1], (evl args m0 s) as [[[t2 m2] s2] r2].
    destruct F as (-> & -> & -> & Ha').
    assert (Hp1 : Pre m1).
    { apply (Hst m m1); [| exact Hp]. intros k Hk. apply G1, Hd, Hk. }
    repeat split; auto.
    - intros k Hk. destruct (in_dec Z.eq_dec k (flat_map tmps args)) as [Hb | Hb].
      + apply Ha', Hb.
      + rewrite (G1 k Hb), (G2 k Hb). apply Hs, Hk.
    - destruct r2; auto.
  Qed.

  (* steps taken by the lowered side only *)
  Lemma simM_left_pure {A B C} (L : tpred) (Pre : tstore -> Prop) (Post : tstore -> A -> B -> Prop) (c : M S C) (a : C) k cn :
    (forall m s, Pre m -> c m s = ([], m, s, Ok a)) ->
    simM L Pre Post (k a) cn -> simM L Pre Post (bind c k) cn.
  Proof.
    intros Hc H m m0 s Hs Hp. unfold bind. rewrite (Hc m s Hp).
    specialize (H m m0 s Hs Hp).
    destruct (k a m s) as [[[t1 m1] s1] r1], (cn m0 s) as [[[t2 m2] s2] r2]. exact H.
  Qed.

  Lemma simM_left_write {A B} (L : tpred) (Pre Pre' : tstore -> Prop) (Post : tstore -> A -> B -> Prop) n v k cn :
    L n -> (forall m, Pre m -> Pre' (tset m n v)) ->
    simM L Pre' Post (k (ov v)) cn ->
    simM L Pre Post (bind (fun m s => ([], tset m n v, s, Ok (ov v)) : list event * tstore * S * res out) k) cn.
  Proof.
    intros Hn Hpp H m m0 s Hs Hp. unfold bind.
    specialize (H (tset m n v) m0 s (simL_tset _ _ _ _ _ Hn Hs) (Hpp m Hp)).
    destruct (k (ov v) (tset m n v) s) as [[[t1 m1] s1] r1], (cn m0 s) as [[[t2 m2] s2] r2]. exact H.
  Qed.

  (* pointwise monad laws *)
  Lemma bind_assoc {A B C} (c : M S A) (k : A -> M S B) (h : B -> M S C) m s :
    bind (bind c k) h m s = bind c (fun a => bind (k a) h) m s.
  Proof.
    unfold bind. destruct (c m s) as [[[t1 m1] s1] [a | v]]; [| reflexivity].
    destruct (k a m1 s1) as [[[t2 m2] s2] [b | v]]; [| reflexivity].
    destruct (h b m2 s2) as [[[t3 m3] s3] r]. rewrite app_assoc. reflexivity.
  Qed.

  Lemma bind_ret_l {A B} (a : A) (k : A -> M S B) m s : bind (ret a) k m s = k a m s.
  Proof. unfold bind, ret. destruct (k a m s) as [[[t2 m2] s2] r]. reflexivity. Qed.

  Lemma simM_assoc_l {A B C D} (L : tpred) (Pre : tstore -> Prop) (Post : tstore -> C -> D -> Prop)
        (c : M S A) (k : A -> M S B) (h : B -> M S C) cn :
    simM L Pre Post (bind c (fun a => bind (k a) h)) cn -> simM L Pre Post (bind (bind c k) h) cn.
  Proof. apply simM_ext; intros; [apply bind_assoc | reflexivity]. Qed.

  Lemma simM_assoc_r {A B C D} (L : tpred) (Pre : tstore -> Prop) (Post : tstore -> D -> C -> Prop)
        (c : M S A) (k : A -> M S B) (h : B -> M S C) cl :
    simM L Pre Post cl (bind c (fun a => bind (k a) h)) -> simM L Pre Post cl (bind (bind c k) h).
  Proof. apply simM_ext; intros; [reflexivity | apply bind_assoc]. Qed.

  Lemma simM_ret_l {A B C} (L : tpred) (Pre : tstore -> Prop) (Post : tstore -> B -> C -> Prop) (a : A) (k : A -> M S B) cn :
    simM L Pre Post (k a) cn -> simM L Pre Post (bind (ret a) k) cn.
  Proof. apply simM_ext; intros; [apply bind_ret_l | reflexivity]. Qed.

  Lemma simM_ret_r {A B C} (L : tpred) (Pre : tstore -> Prop) (Post : tstore -> C -> B -> Prop) (a : A) (k : A -> M S B) cl :
    simM L Pre Post cl (k a) -> simM L Pre Post cl (bind (ret a) k).
  Proof. apply simM_ext; intros; [reflexivity | apply bind_ret_l]. Qed.

  (* from the logic back to observations *)
  Lemma simM_observe (L : tpred) (Post : tstore -> out -> out -> Prop) cl cn :
    (forall m a b, Post m a b -> valof a = valof b) ->
    simM L (fun _ => True) Post cl cn ->
    forall m s, observe (cl m s) = observe (cn m s).
  Proof.
    intros HP H m s. specialize (H m m s (simL_refl L m) I).
    destruct (cl m s) as [[[t1 m1] s1] r1], (cn m s) as [[[t2 m2] s2] r2].
    destruct H as (-> & -> & _ & Hr). cbn.
    destruct r1, r2; try contradiction; [rewrite (HP _ _ _ Hr) | subst]; reflexivity.
  Qed.

  Lemma stable_true (L : tpred) : stable L (fun _ => True).
  Proof. intros m m' _ _. exact I. Qed.

  Lemma stable_and (L : tpred) P Q : stable L P -> stable L Q -> stable L (fun m => P m /\ Q m).
  Proof. intros HP HQ m m' H [p q]. split; [eapply HP | eapply HQ]; eauto. Qed.

  Lemma stable_tget (L : tpred) n v : L n -> stable L (fun m => tget m n = v).
  Proof. intros Hn m m' H E. rewrite (H n Hn). exact E. Qed.

  Lemma stable_const (L : tpred) (P : Prop) : stable L (fun _ => P).
  Proof. intros m m' _ p. exact p. Qed.
End SimLogic.
