(* Checkers evaluated by the correspondence run (indices of mismatching cases). *)
From V Require Import Common.Base C05.Syntax C05.Lower C05.Private.

Fixpoint mism_from {A} (f : A -> bool) (l : list A) (i : nat) : list nat :=
  match l with
  | [] => []
  | x :: r => if f x then mism_from f r (S i) else i :: mism_from f r (S i)
  end.
Definition mismatches {A} (f : A -> bool) (l : list A) : list nat := mism_from f l 0.

(* The output is observed through esbuild's printer and a reparse by the real
   parser, which folds "literal == null" to a boolean even without
   minification; the same folding is applied to the model's tree. *)
Fixpoint obs_norm (e : expr) : expr :=
  match e with
  | EDot t n o => EDot (obs_norm t) n o
  | EIndex t k o => EIndex (obs_norm t) (obs_norm k) o
  | ECall f l o => ECall (obs_norm f) (map obs_norm l) o
  | ECallThis f t l => ECallThis (obs_norm f) (obs_norm t) (map obs_norm l)
  | EDelete d => EDelete (obs_norm d)
  | EAssign t v => EAssign (obs_norm t) (obs_norm v)
  | EBin op a b => EBin op (obs_norm a) (obs_norm b)
  | EOpAsg op a b => EOpAsg op (obs_norm a) (obs_norm b)
  | EIf c a b => EIf (obs_norm c) (obs_norm a) (obs_norm b)
  | EEqNull neg v =>
      match v with
      | EBool _ | ENum _ | EStr _ => EBool neg
      | _ => EEqNull neg (obs_norm v)
      end
  | EPowCall a b => EPowCall (obs_norm a) (obs_norm b)
  | _ => e
  end.

(* (features that must be lowered, input tree, tree recovered from esbuild's output) *)
Definition lower_ok (c : feat * expr * expr) : bool :=
  let '(F, src, observed) := c in
  expr_eqb (canon_expr (obs_norm (lower F src))) (canon_expr (obs_norm observed)).
Definition check_lower := mismatches lower_ok.

(* private names: (features, table of the private names of the class, source
   form, tree recovered from esbuild's output) *)
Fixpoint names_of (l : list (Z * pname)) (x : Z) : pname :=
  match l with
  | [] => mkPname KField 0 0 0 0
  | (k, p) :: r => if k =? x then p else names_of r x
  end.
Definition priv_ok (c : feat * list (Z * pname) * pform * pexp) : bool :=
  let '(F, l, f, observed) := c in
  pexp_eqb (pcanon_exp (fst (plower (names_of l) F f 0))) (pcanon_exp observed).
Definition check_priv := mismatches priv_ok.
