(* C05 MiniJS syntax: the fragment of esbuild's js_ast that the expression
   lowerings of internal/js_parser/js_parser_lower.go read and write.
   Self-contained (does not depend on coq/C03).

   js_ast correspondence
     EDot/EIndex/ECall carry js_ast.OptionalChain (None/Start/Continue);
     "(a?.b).c" is EDot (EDot a b OcStart) c OcNone (parentheses end a chain);
     ETmp n            the temporaries made by generateTempRef ("_a", "_b" ...)
     ECallThis f t xs  the shape  f.call(t, xs...)  emitted by lowerOptionalChain
     EEqNull false e   e == null      EEqNull true e   e != null
     EPowCall a b      __pow(a, b)    (runtime helper = Math.pow)
     EBin BSub         stands for every strict binary operator that is never lowered
     EOpAsg ASub       stands for every compound assignment that is never lowered *)
From V Require Import Common.Base.

Inductive oc := OcNone | OcStart | OcCont.
Inductive binop := BNullish | BOr | BAnd | BPow | BSub | BComma.
Inductive asgop := ANullish | AOr | AAnd | APow | ASub.

Inductive expr :=
| ENull | EUndef | EThis
| EBool (b : bool) | ENum (n : Z) | EStr (s : Z)
| EId (x : Z)
| ETmp (n : Z)
| EDot (t : expr) (name : Z) (o : oc)
| EIndex (t k : expr) (o : oc)
| ECall (f : expr) (args : list expr) (o : oc)
| ECallThis (f t : expr) (args : list expr)
| EDelete (e : expr)
| EAssign (tgt v : expr)
| EBin (op : binop) (a b : expr)
| EOpAsg (op : asgop) (tgt v : expr)
| EIf (c a b : expr)
| EEqNull (neg : bool) (e : expr)
| EPowCall (a b : expr).

(* induction principle with the nested lists *)
Section Ind.
  Variable P : expr -> Prop.
  Hypothesis Hnull : P ENull.
  Hypothesis Hundef : P EUndef.
  Hypothesis Hthis : P EThis.
  Hypothesis Hbool : forall b, P (EBool b).
  Hypothesis Hnum : forall n, P (ENum n).
  Hypothesis Hstr : forall s, P (EStr s).
  Hypothesis Hid : forall x, P (EId x).
  Hypothesis Htmp : forall n, P (ETmp n).
  Hypothesis Hdot : forall t name o, P t -> P (EDot t name o).
  Hypothesis Hindex : forall t k o, P t -> P k -> P (EIndex t k o).
  Hypothesis Hcall : forall f args o, P f -> Forall P args -> P (ECall f args o).
  Hypothesis Hcallthis : forall f t args, P f -> P t -> Forall P args -> P (ECallThis f t args).
  Hypothesis Hdelete : forall e, P e -> P (EDelete e).
  Hypothesis Hassign : forall t v, P t -> P v -> P (EAssign t v).
  Hypothesis Hbin : forall op a b, P a -> P b -> P (EBin op a b).
  Hypothesis Hopasg : forall op t v, P t -> P v -> P (EOpAsg op t v).
  Hypothesis Hif : forall c a b, P c -> P a -> P b -> P (EIf c a b).
  Hypothesis Heqnull : forall neg e, P e -> P (EEqNull neg e).
  Hypothesis Hpow : forall a b, P a -> P b -> P (EPowCall a b).

  Fixpoint expr_ind' (e : expr) : P e :=
    let fix all (l : list expr) : Forall P l :=
      match l with
      | [] => Forall_nil P
      | x :: r => Forall_cons x (expr_ind' x) (all r)
      end in
    match e with
    | ENull => Hnull | EUndef => Hundef | EThis => Hthis
    | EBool b => Hbool b | ENum n => Hnum n | EStr s => Hstr s
    | EId x => Hid x | ETmp n => Htmp n
    | EDot t name o => Hdot t name o (expr_ind' t)
    | EIndex t k o => Hindex t k o (expr_ind' t) (expr_ind' k)
    | ECall f args o => Hcall f args o (expr_ind' f) (all args)
    | ECallThis f t args => Hcallthis f t args (expr_ind' f) (expr_ind' t) (all args)
    | EDelete e => Hdelete e (expr_ind' e)
    | EAssign t v => Hassign t v (expr_ind' t) (expr_ind' v)
    | EBin op a b => Hbin op a b (expr_ind' a) (expr_ind' b)
    | EOpAsg op t v => Hopasg op t v (expr_ind' t) (expr_ind' v)
    | EIf c a b => Hif c a b (expr_ind' c) (expr_ind' a) (expr_ind' b)
    | EEqNull neg e => Heqnull neg e (expr_ind' e)
    | EPowCall a b => Hpow a b (expr_ind' a) (expr_ind' b)
    end.
End Ind.

Definition oc_eqb (a b : oc) : bool :=
  match a, b with OcNone, OcNone | OcStart, OcStart | OcCont, OcCont => true | _, _ => false end.
Definition binop_eqb (a b : binop) : bool :=
  match a, b with
  | BNullish, BNullish | BOr, BOr | BAnd, BAnd | BPow, BPow | BSub, BSub | BComma, BComma => true
  | _, _ => false
  end.
Definition asgop_eqb (a b : asgop) : bool :=
  match a, b with
  | ANullish, ANullish | AOr, AOr | AAnd, AAnd | APow, APow | ASub, ASub => true
  | _, _ => false
  end.

Fixpoint expr_eqb (a b : expr) {struct a} : bool :=
  let fix list_eq (l m : list expr) {struct l} : bool :=
    match l, m with
    | [], [] => true
    | x :: l', y :: m' => expr_eqb x y && list_eq l' m'
    | _, _ => false
    end in
  match a, b with
  | ENull, ENull | EUndef, EUndef | EThis, EThis => true
  | EBool x, EBool y => Bool.eqb x y
  | ENum x, ENum y | EStr x, EStr y | EId x, EId y | ETmp x, ETmp y => x =? y
  | EDot t n o, EDot t' n' o' => expr_eqb t t' && (n =? n') && oc_eqb o o'
  | EIndex t k o, EIndex t' k' o' => expr_eqb t t' && expr_eqb k k' && oc_eqb o o'
  | ECall f l o, ECall f' l' o' => expr_eqb f f' && list_eq l l' && oc_eqb o o'
  | ECallThis f t l, ECallThis f' t' l' => expr_eqb f f' && expr_eqb t t' && list_eq l l'
  | EDelete e, EDelete e' => expr_eqb e e'
  | EAssign t v, EAssign t' v' => expr_eqb t t' && expr_eqb v v'
  | EBin op x y, EBin op' x' y' => binop_eqb op op' && expr_eqb x x' && expr_eqb y y'
  | EOpAsg op x y, EOpAsg op' x' y' => asgop_eqb op op' && expr_eqb x x' && expr_eqb y y'
  | EIf c x y, EIf c' x' y' => expr_eqb c c' && expr_eqb x x' && expr_eqb y y'
  | EEqNull n e, EEqNull n' e' => Bool.eqb n n' && expr_eqb e e'
  | EPowCall x y, EPowCall x' y' => expr_eqb x x' && expr_eqb y y'
  | _, _ => false
  end.

(* the temporaries that occur in an expression *)
Fixpoint tmps (e : expr) : list Z :=
  match e with
  | ENull | EUndef | EThis | EBool _ | ENum _ | EStr _ | EId _ => []
  | ETmp n => [n]
  | EDot t _ _ => tmps t
  | EIndex t k _ => tmps t ++ tmps k
  | ECall f l _ => tmps f ++ flat_map tmps l
  | ECallThis f t l => tmps f ++ tmps t ++ flat_map tmps l
  | EDelete e => tmps e
  | EAssign t v => tmps t ++ tmps v
  | EBin _ a b => tmps a ++ tmps b
  | EOpAsg _ t v => tmps t ++ tmps v
  | EIf c a b => tmps c ++ tmps a ++ tmps b
  | EEqNull _ e => tmps e
  | EPowCall a b => tmps a ++ tmps b
  end.

(* Canonical renaming of temporaries: number them by first occurrence in a
   left-to-right traversal.  Both the model's output and the tree recovered
   from esbuild's printed output go through it before they are compared. *)
Fixpoint lookup (m : list (Z * Z)) (k : Z) : option Z :=
  match m with
  | [] => None
  | (a, b) :: r => if a =? k then Some b else lookup r k
  end.

Fixpoint canon (e : expr) (m : list (Z * Z)) : expr * list (Z * Z) :=
  let fix canon_list (l : list expr) (m : list (Z * Z)) : list expr * list (Z * Z) :=
    match l with
    | [] => ([], m)
    | x :: r => let '(x', m1) := canon x m in
                let '(r', m2) := canon_list r m1 in (x' :: r', m2)
    end in
  match e with
  | ETmp n => match lookup m n with
              | Some k => (ETmp k, m)
              | None => let k := Z.of_nat (length m) in (ETmp k, (n, k) :: m)
              end
  | EDot t n o => let '(t', m1) := canon t m in (EDot t' n o, m1)
  | EIndex t k o => let '(t', m1) := canon t m in let '(k', m2) := canon k m1 in (EIndex t' k' o, m2)
  | ECall f l o => let '(f', m1) := canon f m in let '(l', m2) := canon_list l m1 in (ECall f' l' o, m2)
  | ECallThis f t l => let '(f', m1) := canon f m in let '(t', m2) := canon t m1 in
                       let '(l', m3) := canon_list l m2 in (ECallThis f' t' l', m3)
  | EDelete e => let '(e', m1) := canon e m in (EDelete e', m1)
  | EAssign t v => let '(t', m1) := canon t m in let '(v', m2) := canon v m1 in (EAssign t' v', m2)
  | EBin op a b => let '(a', m1) := canon a m in let '(b', m2) := canon b m1 in (EBin op a' b', m2)
  | EOpAsg op a b => let '(a', m1) := canon a m in let '(b', m2) := canon b m1 in (EOpAsg op a' b', m2)
  | EIf c a b => let '(c', m1) := canon c m in let '(a', m2) := canon a m1 in
                 let '(b', m3) := canon b m2 in (EIf c' a' b', m3)
  | EEqNull n e => let '(e', m1) := canon e m in (EEqNull n e', m1)
  | EPowCall a b => let '(a', m1) := canon a m in let '(b', m2) := canon b m1 in (EPowCall a' b', m2)
  | _ => (e, m)
  end.

Definition canon_expr (e : expr) : expr := fst (canon e []).
